(* C05, directory mode: a dry run and the real run of the same plan on the same tree end with the   *)
(* same exit status, the same reported renames, the same number of prompts and the same exception.  *)
(*                                                                                                  *)
(* The sources are DIRECTORIES: os.rename re-keys the directory and everything below it, so the     *)
(* name-mode relation "virtual existence = existence on the real disk, for every name" cannot hold  *)
(* (the entries below a renamed directory move on the real disk, DryRunRenamer knows nothing about  *)
(* them).  The relation [SimD] is therefore restricted to the names the plan can ask about:         *)
(*   - an ANCHOR is a proper prefix of a source key (input directory, the directories between it    *)
(*     and a source, everything above).  With a non-nested selection no anchor is ever moved: it is *)
(*     a directory of the real disk throughout and never enters DryRunRenamer.removed_paths;        *)
(*   - for every name  anchor/x  (all source and destination keys have this form): it exists        *)
(*     virtually iff it exists on the real disk, and it is a symbolic link on the real disk only    *)
(*     if it is the same link on the initial disk.                                                  *)
(* A rename  a/x -> a/y  changes the real disk at a/x, a/y, below a/x and below a/y.  No name       *)
(* anchor/z lies strictly below a/x (a/x would be a prefix of an anchor: nested selection) nor      *)
(* strictly below a/y (a/y was free, the anchor exists), so the relation survives ([SimD_step]).    *)
From Tempren Require Import Base.Str Py.PathLib FS.Model FS.Lemmas FS.PlainPaths FS.WfCheck.
From Tempren Require Import Pipe.Pipeline Pipe.DestParent Pipe.DrySim Pipe.DryEqualsReal Pipe.DryEqualsRealCheck.
Open Scope N_scope.

(* ---------- the statement's vocabulary --------------------------------------------------------- *)
Definition dir_key (f : pfile) : rpath := pf_dir f ++ pp_parts (pf_rel f).

(* File(input_directory, relative_path) designates a DIRECTORY below an input directory, and no
   symbolic link is crossed on the way ([plain_file] of Pipe/DryEqualsReal.v with NDir for NFile) *)
Definition plain_dir (s : fs) (f : pfile) : Prop :=
  let d := pf_dir f in
  let parts := pp_parts (pf_rel f) in
  chdir s d = Some d /\                        (* a real directory, reached without links *)
  ~ In dotdot d /\
  pp_root (pf_rel f) = 0%nat /\
  parts <> [] /\
  ~ In dotdot parts /\
  (forall q r, parts = q ++ r -> q <> [] -> r <> [] -> lookup s (d ++ q) = Some NDir) /\
  lookup s (d ++ parts) = Some NDir /\
  (length d + length parts < walk_fuel)%nat.

Definition plain_dir_plan (s : fs) (plan : list (pfile * rendered)) : Prop :=
  Forall (fun fr => plain_dir s (fst fr)) plan.

(* the selection is not nested: no selected directory lies strictly below another selected directory
   (the same directory may be designated any number of times) *)
Definition non_nested (plan : list (pfile * rendered)) : Prop :=
  forall e1 e2, In e1 plan -> In e2 plan -> ~ proper_prefix (dir_key (fst e1)) (dir_key (fst e2)).

(* ---------- list / prefix facts ------------------------------------------------------------------ *)
Lemma is_prefix_refl p : is_prefix_path p p = true.
Proof. apply is_prefix_path_spec. exists []. rewrite app_nil_r. reflexivity. Qed.

Lemma snoc_prefix_cases p b z :
  is_prefix_path p (b ++ [z]) = true -> b ++ [z] = p \/ is_prefix_path p b = true.
Proof.
  intros H. apply is_prefix_path_spec in H as [r E].
  destruct r as [|w r] using rev_ind.
  - left. rewrite app_nil_r in E. exact E.
  - right. rewrite app_assoc in E. apply app_inj_tail in E as [E _].
    apply is_prefix_path_spec. exists r. exact E.
Qed.

Lemma siblings_not_prefix (a : rpath) (x y : name) : x <> y -> is_prefix_path (a ++ [x]) (a ++ [y]) = false.
Proof.
  intros Hxy. apply is_prefix_false. intros [r E]. rewrite <- app_assoc in E. apply app_inv_head in E.
  simpl in E. inversion E. congruence.
Qed.

(* ---------- re-keying a subtree: [lookup] at a key that is neither strictly below the source nor
   strictly below the destination changes exactly as for a leaf ---------------------------------- *)
Lemma lookup_rekey_at s sp dp n k :
  WF s -> WF (rekey sp dp s) -> In (sp, n) s -> dp <> [] ->
  is_prefix_path dp sp = false ->
  (is_prefix_path sp k = true -> k = sp) ->
  (is_prefix_path dp k = true -> k = dp) ->
  lookup (rekey sp dp s) k =
    if rpath_eqb k dp then Some n else if rpath_eqb k sp then None else lookup s k.
Proof.
  intros W W' Hin Hd Hds Ks Kd.
  assert (Hs : sp <> []) by (destruct W as [_ CL]; exact (proj1 (CL _ _ Hin))).
  destruct (rpath_eqb k dp) eqn:Ed.
  - apply rpath_eqb_eq in Ed. subst k. apply lookup_of_In; [assumption|].
    pose proof (In_rekey sp dp s _ _ Hin) as I. rewrite rekey_self in I. exact I.
  - apply rpath_eqb_neq in Ed. destruct (rpath_eqb k sp) eqn:Es.
    + apply rpath_eqb_eq in Es. subst k.
      destruct (lookup (rekey sp dp s) sp) as [m|] eqn:L; [|reflexivity]. exfalso.
      apply lookup_In in L; [|assumption]. apply In_rekey_inv in L as [q [Hq E]].
      destruct (is_prefix_path sp q) eqn:P.
      * apply is_prefix_path_spec in P as [r ->]. rewrite rekey_under in E.
        assert (is_prefix_path dp sp = true) by (apply is_prefix_path_spec; exists r; assumption).
        congruence.
      * rewrite rekey_outside in E by assumption. subst q. rewrite is_prefix_refl in P. discriminate.
    + apply rpath_eqb_neq in Es. destruct k as [|x k]; [reflexivity|].
      destruct (lookup s (x :: k)) as [m|] eqn:L.
      * apply lookup_In in L; [|discriminate]. apply lookup_of_In; [assumption|].
        pose proof (In_rekey sp dp s _ _ L) as I. rewrite rekey_outside in I; [exact I|].
        destruct (is_prefix_path sp (x :: k)) eqn:P; [|reflexivity]. exfalso. apply Es. apply Ks. reflexivity.
      * destruct (lookup (rekey sp dp s) (x :: k)) as [m|] eqn:L2; [|reflexivity]. exfalso.
        apply lookup_In in L2; [|discriminate]. apply In_rekey_inv in L2 as [q [Hq E]].
        destruct (is_prefix_path sp q) eqn:P.
        -- apply is_prefix_path_spec in P as [r ->]. rewrite rekey_under in E.
           apply Ed. apply Kd. apply is_prefix_path_spec. exists r. exact E.
        -- rewrite rekey_outside in E by assumption. subst q.
           apply lookup_None_notin in L. apply L. apply in_map_iff. exists (x :: k, m). split; auto.
Qed.

(* os.rename of a plain entry (of any kind) onto a plain free name that is not below it *)
Lemma os_rename_rel_free s d src dst n :
  WF s -> plain_rel s d src -> plain_rel s d dst ->
  lookup s (d ++ pp_parts src) = Some n -> lookup s (d ++ pp_parts dst) = None ->
  is_prefix_path (d ++ pp_parts src) (d ++ pp_parts dst) = false ->
  os_rename s d (to_upath src) (to_upath dst) = SOk (rekey (d ++ pp_parts src) (d ++ pp_parts dst) s).
Proof.
  intros W Ps Pd Ls Ld Hpre.
  assert (Edp : (d ++ removelast (pp_parts dst)) ++ [last (pp_parts dst) []] = d ++ pp_parts dst).
  { rewrite <- app_assoc. f_equal. symmetry. apply app_removelast_last. exact (pr_ne _ _ _ Pd). }
  assert (Hl : name_eqb (last (pp_parts dst) []) dotdot = false).
  { apply name_eqb_false_of_neq. intros K. apply (pr_dd _ _ _ Pd). rewrite <- K. apply last_In. exact (pr_ne _ _ _ Pd). }
  unfold os_rename.
  rewrite (bad_last_rel _ _ _ Ps), (bad_last_rel _ _ _ Pd). cbn [orb].
  rewrite (resolve_rel _ _ _ W Ps), (resolve_rel _ _ _ W Pd), Ls, Ld.
  rewrite Hl.
  match goal with |- context [is_prefix_path _ ?t] => replace t with (d ++ pp_parts dst) by (symmetry; exact Edp) end.
  rewrite Hpre, andb_false_r.
  pose proof (plain_rel_key_ne _ _ _ Ps) as Hne.
  destruct (d ++ pp_parts src) as [|x sp] eqn:E; [congruence|]. reflexivity.
Qed.

(* TemplateNameGenerator in directory mode: the same with_name as in name mode *)
Lemma generate_dir f r np :
  generate MDirectory f r = inl np ->
  exists t, r = RText t /\ np = {| pp_root := pp_root (pf_rel f); pp_parts := removelast (pp_parts (pf_rel f)) ++ [t] |}.
Proof.
  destruct r as [t|t|e]; cbn [generate]; try discriminate.
  unfold pp_with_name. destruct (pp_parts (pf_rel f)) eqn:E; [discriminate|].
  destruct (match t with [] => true | [46] => true | _ => has_slash t end); [discriminate|].
  intros H. inversion H. exists t. split; reflexivity.
Qed.

(* ---------- the simulation ----------------------------------------------------------------------- *)
Section SimulationDir.
Variable s0 : fs.                         (* the initial tree *)
Variable st : strategy.
Variable answers : list str.
Variable anc : rpath -> Prop.             (* the anchors: proper prefixes of the source keys *)
Hypothesis W0 : WF s0.
Hypothesis st_ok :
  match st with Stop | Ignore => True | Manual => Forall simple_answer answers | Override => False end.
Hypothesis anc_dir : forall a, anc a -> lookup s0 a = Some NDir.
Hypothesis anc_up : forall a, anc a -> anc (removelast a).

Definition dD : cfg :=
  {| c_mode := MDirectory; c_strategy := st; c_dry := true; c_answers := answers; c_fault := None; c_var := fixed |}.
Definition dR : cfg :=
  {| c_mode := MDirectory; c_strategy := st; c_dry := false; c_answers := answers; c_fault := None; c_var := fixed |}.

(* a key that is not (a prefix of) an anchor: renaming it drags no anchor along *)
Definition movable (sp : rpath) : Prop := forall b, anc b -> is_prefix_path sp b = false.

Record SimD (wd wr : world) : Prop := {
  sd_fs : w_fs wd = s0;
  sd_wf : WF (w_fs wr);
  sd_anc : forall a, anc a -> lookup (w_fs wr) a = Some NDir;
  sd_rm : forall a, anc a -> mem_path a (w_removed wd) = false;
  sd_inv : forall a x, anc a ->
    vexists (present s0) (w_created wd) (w_removed wd) (a ++ [x]) = present (w_fs wr) (a ++ [x]);
  sd_nl : forall a x i t, anc a ->
    lookup (w_fs wr) (a ++ [x]) = Some (NLink i t) -> lookup s0 (a ++ [x]) = Some (NLink i t);
  sd_report : w_report wd = w_report wr;
  sd_answers : w_answers wd = w_answers wr;
  sd_prompts : w_prompts wd = w_prompts wr;
  sd_ok : st = Manual -> Forall simple_answer (w_answers wr)
}.

Lemma SimD_init : SimD (init_world s0 answers) (init_world s0 answers).
Proof.
  constructor; cbn [init_world w_fs w_created w_removed w_report w_answers w_prompts]; auto.
  - intros a x _. unfold vexists, mem_path. simpl. rewrite orb_false_r, andb_true_r. reflexivity.
  - intros E. rewrite E in st_ok. exact st_ok.
Qed.

Lemma SimD_add_call wd wr c : SimD wd wr -> SimD wd (add_call wr c).
Proof. intros [F1 F2 F3 F4 F5 F6 F7 F8 F9 F10]. constructor; assumption. Qed.

Lemma plain_rel_real wd wr d p :
  SimD wd wr -> plain_rel s0 d p -> anc (d ++ removelast (pp_parts p)) -> plain_rel (w_fs wr) d p.
Proof. intros HS [A B C D E F] Ha. constructor; try assumption. exact (sd_anc _ _ HS _ Ha). Qed.

Lemma dd_rel_real wd wr d p pre :
  SimD wd wr -> dd_rel s0 d p pre -> anc (d ++ pre) -> dd_rel (w_fs wr) d p pre.
Proof. intros HS [A B C D E F] Ha. constructor; try assumption. exact (sd_anc _ _ HS _ Ha). Qed.

Lemma dry_exists_simd wd wr d p :
  SimD wd wr -> plain_rel s0 d p -> anc (d ++ removelast (pp_parts p)) ->
  dry_exists fixed wd d p = present (w_fs wr) (d ++ pp_parts p).
Proof.
  intros HS P Ha. unfold dry_exists. cbn [fixed v_dry_abs_keys].
  rewrite (sd_fs _ _ HS), (lexists_rel _ _ _ W0 P), (dry_key_rel _ _ _ P).
  destruct (exists_last (pr_ne _ _ _ P)) as [pre [x E]]. rewrite E in *.
  rewrite removelast_snoc in Ha. rewrite app_assoc.
  exact (sd_inv _ _ HS _ x Ha).
Qed.

(* one successful rename  a/x -> a/y  in both worlds *)
Lemma SimD_step wd wr a x y sn src dst :
  SimD wd wr -> anc a -> x <> y ->
  lookup (w_fs wr) (a ++ [x]) = Some sn -> lookup (w_fs wr) (a ++ [y]) = None ->
  lookup s0 (a ++ [x]) = Some NDir -> movable (a ++ [x]) ->
  SimD (add_report (Pipeline.set_dry wd (del_path (a ++ [x]) (add_path (a ++ [y]) (w_created wd)))
                                        (del_path (a ++ [y]) (add_path (a ++ [x]) (w_removed wd)))) src dst false)
       (add_report (set_fs wr (rekey (a ++ [x]) (a ++ [y]) (w_fs wr)) (CRename, COk)) src dst false).
Proof.
  intros HS Ha Hxy Ls Ld L0 Mv.
  set (sp := a ++ [x]) in *. set (dp := a ++ [y]) in *.
  pose proof (sd_wf _ _ HS) as W.
  assert (Hsp : sp <> []) by (unfold sp; destruct a; discriminate).
  assert (Hdp : dp <> []) by (unfold dp; destruct a; discriminate).
  assert (Hsd : sp <> dp).
  { unfold sp, dp. intros E. apply app_inv_head in E. inversion E. congruence. }
  assert (Psd : is_prefix_path sp dp = false) by (apply siblings_not_prefix; assumption).
  assert (Pds : is_prefix_path dp sp = false) by (apply siblings_not_prefix; congruence).
  assert (Hin : In (sp, sn) (w_fs wr)) by (apply lookup_In; assumption).
  assert (W' : WF (rekey sp dp (w_fs wr))).
  { unfold dp. apply (rename_missing_preserves (w_fs wr) sp sn a y); try assumption.
    - exact (sd_anc _ _ HS _ Ha).
    - fold dp. rewrite Psd. apply andb_false_r. }
  pose proof (nothing_below _ _ W Hdp Ld) as Below.
  (* the names the relation speaks about are neither strictly below the source nor below the destination *)
  assert (LK : forall b z, anc b ->
            lookup (rekey sp dp (w_fs wr)) (b ++ [z]) =
              if rpath_eqb (b ++ [z]) dp then Some sn
              else if rpath_eqb (b ++ [z]) sp then None else lookup (w_fs wr) (b ++ [z])).
  { intros b z Hb. apply lookup_rekey_at; try assumption.
    - intros P. destruct (snoc_prefix_cases _ _ _ P) as [E|P2]; [exact E|].
      rewrite (Mv b Hb) in P2. discriminate.
    - intros P. destruct (snoc_prefix_cases _ _ _ P) as [E|P2]; [exact E|]. exfalso.
      assert (Hbne : b <> []).
      { intros ->. apply is_prefix_path_spec in P2 as [r E]. symmetry in E. apply app_eq_nil in E as [E _]. congruence. }
      pose proof (lookup_In _ _ _ Hbne (sd_anc _ _ HS _ Hb)) as Hbin.
      rewrite (Below _ _ Hbin) in P2. discriminate. }
  constructor; cbn [add_report Pipeline.set_dry set_fs w_fs w_created w_removed w_report w_answers w_prompts].
  - exact (sd_fs _ _ HS).
  - exact W'.
  - intros b Hb. destruct b as [|b0 b]; [reflexivity|].
    apply lookup_of_In; [assumption|].
    assert (Hbin : In (b0 :: b, NDir) (w_fs wr)) by (apply lookup_In; [discriminate | exact (sd_anc _ _ HS _ Hb)]).
    pose proof (In_rekey sp dp _ _ _ Hbin) as I. rewrite (rekey_outside _ _ _ (Mv _ Hb)) in I. exact I.
  - intros b Hb. rewrite mem_del, mem_add, (sd_rm _ _ HS _ Hb).
    assert (Eb : rpath_eqb b sp = false).
    { apply rpath_eqb_neq. intros ->. pose proof (Mv _ Hb) as K. rewrite is_prefix_refl in K. discriminate. }
    rewrite Eb. apply andb_false_r.
  - intros b z Hb. rewrite dry_step_tracks_rename by assumption.
    rewrite present_lookup, (LK b z Hb).
    destruct (rpath_eqb (b ++ [z]) dp); [reflexivity|].
    destruct (rpath_eqb (b ++ [z]) sp); [reflexivity|].
    rewrite (sd_inv _ _ HS b z Hb). reflexivity.
  - intros b z i t Hb. rewrite (LK b z Hb).
    destruct (rpath_eqb (b ++ [z]) dp) eqn:Ed.
    + intros K. inversion K; subst sn. exfalso.
      pose proof (sd_nl _ _ HS a x i t Ha Ls) as K2. fold sp in K2. congruence.
    + destruct (rpath_eqb (b ++ [z]) sp); [discriminate|]. apply (sd_nl _ _ HS); assumption.
  - rewrite (sd_report _ _ HS). reflexivity.
  - exact (sd_answers _ _ HS).
  - exact (sd_prompts _ _ HS).
  - exact (sd_ok _ _ HS).
Qed.

(* the two renamers of directory mode, written out *)
Lemma renamer_dry_eq_dir wd d src dst ov :
  renamer dD wd d src dst ov =
    if dry_exists fixed wd d dst && negb ov then (wd, Some ExDestExists)
    else if negb (ppath_eqb (pp_parent src) (pp_parent dst)) then (wd, Some ExInvalidDest)
    else if negb (dry_exists fixed wd d src) then (wd, Some ExOther)
    else (add_report (Pipeline.set_dry wd
            (del_path (dry_key fixed d src) (add_path (dry_key fixed d dst) (w_created wd)))
            (del_path (dry_key fixed d dst) (add_path (dry_key fixed d src) (w_removed wd)))) src dst ov, None).
Proof.
  unfold renamer, renamer_core. cbn [dD c_dry c_mode c_var]. unfold dry_renamer.
  destruct (dry_exists fixed wd d dst && negb ov); [reflexivity|]. cbn [andb negb].
  destruct (ppath_eqb (pp_parent src) (pp_parent dst)); [|reflexivity]. cbn [negb].
  destruct (dry_exists fixed wd d src); reflexivity.
Qed.

Lemma renamer_real_eq_dir wr d src dst ov :
  renamer dR wr d src dst ov =
    if negb ov && lexists (w_fs wr) d (to_upath dst) then (wr, Some ExDestExists)
    else if negb (ppath_eqb (pp_parent src) (pp_parent dst)) then (wr, Some ExInvalidDest)
    else match os_rename (w_fs wr) d (to_upath src) (to_upath dst) with
         | SOk s' => (add_report (set_fs wr s' (CRename, COk)) src dst ov, None)
         | SErr e => (add_call wr (CRename, CErr), Some (exn_of_errno e))
         end.
Proof.
  unfold renamer, renamer_core. cbn [dR c_dry c_mode c_var c_fault]. unfold file_renamer, guard_exists.
  cbn [fixed v_lexists_guard].
  destruct (negb ov && lexists (w_fs wr) d (to_upath dst)); [reflexivity|].
  destruct (ppath_eqb (pp_parent src) (pp_parent dst)); [|reflexivity]. cbn [negb].
  unfold sys, faulted.
  destruct (os_rename (w_fs wr) d (to_upath src) (to_upath dst)); reflexivity.
Qed.

(* what the passes know about a source: the input directory and the source's parent are anchors, the
   source is a directory of the initial tree and no anchor lies at or below it *)
Definition ready_src (d : rpath) (src : ppath) : Prop :=
  anc d /\ plain_rel s0 d src /\ anc (d ++ removelast (pp_parts src)) /\
  lookup s0 (d ++ pp_parts src) = Some NDir /\ movable (d ++ pp_parts src).

(* (1) one call of the renamer (without override) in both worlds: same outcome, relation preserved *)
Lemma simd_renamer wd wr d src dst wd' ed wr' er :
  SimD wd wr -> ready_src d src -> plain_rel s0 d dst ->
  removelast (pp_parts dst) = removelast (pp_parts src) ->
  renamer dD wd d src dst false = (wd', ed) -> renamer dR wr d src dst false = (wr', er) ->
  ed = er /\ SimD wd' wr'.
Proof.
  intros HS [Hd [Ps [Ha [L0 Mv]]]] Pd Epar.
  pose proof (sd_wf _ _ HS) as W.
  assert (Ha2 : anc (d ++ removelast (pp_parts dst))) by (rewrite Epar; exact Ha).
  pose proof (plain_rel_real _ _ _ _ HS Ps Ha) as Ps'.
  pose proof (plain_rel_real _ _ _ _ HS Pd Ha2) as Pd'.
  rewrite renamer_dry_eq_dir, renamer_real_eq_dir.
  rewrite (dry_exists_simd _ _ _ _ HS Pd Ha2), (dry_exists_simd _ _ _ _ HS Ps Ha), (lexists_rel _ _ _ W Pd').
  rewrite (dry_key_rel _ _ _ Ps), (dry_key_rel _ _ _ Pd).
  rewrite !present_lookup.
  destruct (lookup (w_fs wr) (d ++ pp_parts dst)) as [nd|] eqn:Ld.
  - (* the destination is taken *)
    cbn [negb andb].
    intros Ed Er; inversion Ed; inversion Er; subst. split; [reflexivity | assumption].
  - (* the destination is free *)
    cbn [negb andb].
    destruct (ppath_eqb (pp_parent src) (pp_parent dst)); cbn [negb].
    2:{ intros Ed Er; inversion Ed; inversion Er; subst. split; [reflexivity | assumption]. }
    destruct (lookup (w_fs wr) (d ++ pp_parts src)) as [n|] eqn:Ls; cbn [negb].
    + destruct (exists_last (pr_ne _ _ _ Ps)) as [pre [x Ex]].
      destruct (exists_last (pr_ne _ _ _ Pd)) as [pre2 [y Ey]].
      rewrite Ex, Ey, !removelast_snoc in Epar. subst pre2.
      rewrite Ex, removelast_snoc in Ha.
      assert (Ks : d ++ pp_parts src = (d ++ pre) ++ [x]) by (rewrite Ex, app_assoc; reflexivity).
      assert (Kd : d ++ pp_parts dst = (d ++ pre) ++ [y]) by (rewrite Ey, app_assoc; reflexivity).
      assert (Hxy : x <> y).
      { intros ->. rewrite Ks in Ls. rewrite Kd in Ld. congruence. }
      rewrite (os_rename_rel_free _ _ _ _ n W Ps' Pd' Ls Ld).
      2:{ rewrite Ks, Kd. apply siblings_not_prefix. assumption. }
      intros Ed Er; inversion Ed; inversion Er; subst. split; [reflexivity|].
      rewrite Ks, Kd in *.
      apply (SimD_step wd wr (d ++ pre) x y n); assumption.
    + rewrite (os_rename_rel_missing _ _ _ _ W Ps' Pd' Ls). cbn [exn_of_errno].
      intros Ed Er; inversion Ed; inversion Er; subst. split; [reflexivity | apply SimD_add_call; assumption].
Qed.

(* the destination  pre/..  exists in both worlds: both renamers refuse *)
Lemma simd_renamer_dd wd wr d src dst pre :
  SimD wd wr -> dd_rel s0 d dst pre -> anc (d ++ pre) ->
  renamer dD wd d src dst false = (wd, Some ExDestExists) /\
  renamer dR wr d src dst false = (wr, Some ExDestExists).
Proof.
  intros HS P Ha. rewrite renamer_dry_eq_dir, renamer_real_eq_dir.
  assert (Xd : dry_exists fixed wd d dst = true).
  { unfold dry_exists. cbn [fixed v_dry_abs_keys].
    rewrite (sd_fs _ _ HS), (lexists_dd _ _ _ _ W0 P), (dry_key_dd _ _ _ _ P). cbn [orb andb].
    rewrite (sd_rm _ _ HS _ (anc_up _ Ha)). reflexivity. }
  rewrite Xd, (lexists_dd _ _ _ _ (sd_wf _ _ HS) (dd_rel_real _ _ _ _ _ HS P Ha)).
  split; reflexivity.
Qed.

(* ---------- the prompt ---------------------------------------------------------------------------- *)
Lemma simd_take_line wd wr ld wd1 lr wr1 :
  SimD wd wr -> take_line wd = (ld, wd1) -> take_line wr = (lr, wr1) ->
  ld = lr /\ SimD wd1 wr1 /\ (st = Manual -> forall a, lr = Some a -> simple_answer a).
Proof.
  intros HS. unfold take_line. rewrite (sd_answers _ _ HS).
  destruct (w_answers wr) as [|a rest] eqn:A; intros Ed Er; inversion Ed; inversion Er; subst.
  - split; [reflexivity|]. split; [assumption|]. intros _ b Hb. discriminate.
  - split; [reflexivity|]. split.
    + destruct HS as [F1 F2 F3 F4 F5 F6 F7 F8 F9 F10].
      constructor; cbn [w_fs w_created w_removed w_report w_answers w_prompts]; auto.
      intros M. pose proof (F10 M) as K. rewrite A in K. inversion K; assumption.
    + intros M b Hb. inversion Hb; subst. pose proof (sd_ok _ _ HS M) as K. rewrite A in K. inversion K; assumption.
Qed.

Definition decision_simple (d : decision) : Prop :=
  match d with DStrategy Ignore | DStrategy Stop | DEof => True | _ => False end.

Lemma simd_prompt fuel wd wr dd wd1 dr wr1 :
  st = Manual -> SimD wd wr -> prompt fuel wd = (dd, wd1) -> prompt fuel wr = (dr, wr1) ->
  dd = dr /\ SimD wd1 wr1 /\ decision_simple dr.
Proof.
  intros M. revert wd wr. induction fuel as [|f IH]; intros wd wr HS; cbn [prompt].
  - intros Ed Er; inversion Ed; inversion Er; subst. split; [reflexivity|]. split; [assumption | exact I].
  - destruct (take_line wd) as [ld wd2] eqn:Td. destruct (take_line wr) as [lr wr2] eqn:Tr.
    destruct (simd_take_line _ _ _ _ _ _ HS Td Tr) as [El [S2 Ok]]. subst ld.
    destruct lr as [l|].
    + destruct (Ok M l eq_refl) as [HO HC].
      destruct (parse_answer l) eqn:P.
      * intros Ed Er; inversion Ed; inversion Er; subst. split; [reflexivity|]. split; [assumption | exact I].
      * intros Ed Er; inversion Ed; inversion Er; subst. split; [reflexivity|]. split; [assumption | exact I].
      * exfalso. apply HO. reflexivity.
      * exfalso. apply HC. reflexivity.
      * apply IH. assumption.
    + intros Ed Er; inversion Ed; inversion Er; subst. split; [reflexivity|]. split; [assumption | exact I].
Qed.

(* ---------- conflict resolution and the two passes ------------------------------------------------------ *)
Lemma simd_resolve_conflict wd wr d src dst wd' ed wr' er :
  SimD wd wr ->
  resolve_conflict dD wd d src dst = (wd', ed) -> resolve_conflict dR wr d src dst = (wr', er) ->
  ed = er /\ SimD wd' wr'.
Proof.
  intros HS. unfold resolve_conflict. cbn [dD dR c_strategy].
  destruct st eqn:St.
  - cbn [resolve_simple]. intros Ed Er; inversion Ed; inversion Er; subst. split; [reflexivity | assumption].
  - cbn [resolve_simple]. intros Ed Er; inversion Ed; inversion Er; subst. split; [reflexivity | assumption].
  - contradiction.
  - rewrite (sd_answers _ _ HS).
    destruct (prompt (Datatypes.S (length (w_answers wr))) wd) as [dd wd1] eqn:Pd1.
    destruct (prompt (Datatypes.S (length (w_answers wr))) wr) as [dr wr1] eqn:Pr1.
    destruct (simd_prompt _ _ _ _ _ _ _ St HS Pd1 Pr1) as [E [S1 D]]. subst dd.
    destruct dr as [[| | |]|pth|]; cbn [decision_simple] in D; try contradiction; cbn [resolve_simple].
    + intros Ed Er; inversion Ed; inversion Er; subst. split; [reflexivity | assumption].
    + intros Ed Er; inversion Ed; inversion Er; subst. split; [reflexivity | assumption].
    + intros Ed Er; inversion Ed; inversion Er; subst. split; [reflexivity | assumption].
Qed.

(* the containment tests run again before a deferred entry is retried (F38) say yes on the initial tree (dry run)
   and on every tree the real run can be in *)
Definition retest_d (b : backlog_entry) : Prop :=
  backlog_verify fixed s0 (fst (fst b)) (snd (fst b)) (snd b) = None /\
  forall wd wr, SimD wd wr -> backlog_verify fixed (w_fs wr) (fst (fst b)) (snd (fst b)) (snd b) = None.

Definition ready (b : backlog_entry) : Prop :=
  let d := fst (fst b) in let src := snd (fst b) in let dst := snd b in
  ready_src d src /\
  ((plain_rel s0 d dst /\ removelast (pp_parts dst) = removelast (pp_parts src)) \/
   (exists pre, dd_rel s0 d dst pre /\ anc (d ++ pre))) /\
  retest_d b.

Lemma chdir_simd wd wr d p :
  SimD wd wr -> anc d -> plain_rel s0 d p ->
  chdir (w_fs wd) d = Some d /\ chdir (w_fs wr) d = Some d.
Proof.
  intros HS Ha P. rewrite (sd_fs _ _ HS). split.
  - apply chdir_plain; [assumption | exact (anc_dir _ Ha) | exact (pr_ddd _ _ _ P) | exact (plain_rel_dlen _ _ _ P)].
  - apply chdir_plain; [exact (sd_wf _ _ HS) | exact (sd_anc _ _ HS _ Ha) | exact (pr_ddd _ _ _ P) | exact (plain_rel_dlen _ _ _ P)].
Qed.

Lemma simd_renamer_ready wd wr d src dst wd' ed wr' er :
  SimD wd wr -> ready (d, src, dst) ->
  renamer dD wd d src dst false = (wd', ed) -> renamer dR wr d src dst false = (wr', er) ->
  ed = er /\ SimD wd' wr'.
Proof.
  intros HS [RS [Hdst _]]. cbn [fst snd] in RS, Hdst.
  destruct Hdst as [[Pd Epar]|[pre [Pdd Ha]]].
  - apply simd_renamer; assumption.
  - destruct (simd_renamer_dd wd wr d src dst pre HS Pdd Ha) as [Xd Xr].
    rewrite Xd, Xr. intros Ed Er; inversion Ed; inversion Er; subst. split; [reflexivity | assumption].
Qed.

Lemma simd_second_pass bl wd wr cwd wd' cd' ed wr' cr' er :
  Forall ready bl -> SimD wd wr ->
  second_pass dD bl wd cwd = (wd', cd', ed) -> second_pass dR bl wr cwd = (wr', cr', er) ->
  ed = er /\ SimD wd' wr'.
Proof.
  revert wd wr cwd. induction bl as [|[[d src] dst] rest IH]; intros wd wr cwd PB HS; cbn [second_pass].
  - intros Ed Er; inversion Ed; inversion Er; subst. split; [reflexivity | assumption].
  - inversion PB as [|? ? PE PB']; subst. pose proof PE as PE0.
    destruct PE as [[Hd [Ps _]] [_ [Rt0 Rt]]]. cbn [fst snd] in Hd, Ps, Rt0, Rt.
    cbn [dD dR c_var fixed v_backlog_chdir].
    destruct (chdir_simd _ _ _ _ HS Hd Ps) as [-> ->].
    rewrite (sd_fs _ _ HS). rewrite Rt0, (Rt _ _ HS).
    destruct (renamer dD wd d src dst false) as [wd1 ed1] eqn:Rd.
    destruct (renamer dR wr d src dst false) as [wr1 er1] eqn:Rr.
    destruct (simd_renamer_ready _ _ _ _ _ _ _ _ _ HS PE0 Rd Rr) as [E S1]. subst er1.
    destruct ed1 as [e|]; [|apply IH; assumption].
    destruct (is_file_exists e).
    + destruct (resolve_conflict dD wd1 d src dst) as [wd2 ed2] eqn:Cd.
      destruct (resolve_conflict dR wr1 d src dst) as [wr2 er2] eqn:Cr.
      destruct (simd_resolve_conflict _ _ _ _ _ _ _ _ _ S1 Cd Cr) as [E2 S2]. subst er2.
      destruct ed2 as [e2|]; [|apply IH; assumption].
      intros Ed Er; inversion Ed; inversion Er; subst. split; [reflexivity | assumption].
    + intros Ed Er; inversion Ed; inversion Er; subst. split; [reflexivity | assumption].
Qed.

Definition ready_plan (plan : list (pfile * rendered)) : Prop :=
  Forall (fun fr => ready_src (pf_dir (fst fr)) (pf_rel (fst fr))) plan.

Ltac fpd_done := split; [reflexivity | split; [reflexivity | split; [reflexivity | split; assumption]]].

(* (2) the first pass *)
Lemma simd_first_pass plan wd wr cwd bl wd' cd' bd' ed wr' cr' br' er :
  ready_plan plan -> dest_not_link s0 plan ->
  Forall ready bl -> SimD wd wr ->
  first_pass dD plan wd cwd bl = (wd', cd', bd', ed) -> first_pass dR plan wr cwd bl = (wr', cr', br', er) ->
  ed = er /\ cd' = cr' /\ bd' = br' /\ Forall ready bd' /\ SimD wd' wr'.
Proof.
  revert wd wr cwd bl. induction plan as [|[f r] rest IH]; intros wd wr cwd bl PP NL PB HS; cbn [first_pass].
  - intros Ed Er; inversion Ed; inversion Er; subst. fpd_done.
  - inversion PP as [|? ? Pf PP']; subst. inversion NL as [|? ? Lf NL']; subst.
    cbn [fst snd] in Pf, Lf. pose proof Pf as RS.
    destruct Pf as [Hd [Ps [Ha [L0 Mv]]]].
    destruct (chdir_simd _ _ _ _ HS Hd Ps) as [-> ->].
    cbn [dD dR c_mode c_var].
    destruct (generate MDirectory f r) as [np|ex] eqn:G.
    2:{ intros Ed Er; inversion Ed; inversion Er; subst. fpd_done. }
    destruct (generate_dir _ _ _ G) as [t [-> Enp]].
    destruct (ppath_eqb np (pf_rel f)) eqn:Same; [apply IH; assumption|].
    rewrite (sd_fs _ _ HS).
    pose proof (plain_rel_real _ _ _ _ HS Ps Ha) as Ps'.
    destruct (name_eqb t dotdot) eqn:Tdd.
    + (* the new name is "..": the destination is the parent directory, which exists in both worlds *)
      apply name_eqb_eq in Tdd. subst t.
      assert (Pdd : dd_rel s0 (pf_dir f) np (removelast (pp_parts (pf_rel f)))) by (rewrite Enp; apply dd_rel_dest; assumption).
      pose proof (dd_rel_real _ _ _ _ _ HS Pdd Ha) as Pdd'.
      rewrite (contained_dd s0 f np _ W0 Pdd), (contained_dd (w_fs wr) f np _ (sd_wf _ _ HS) Pdd').
      destruct (is_prefix_path (pf_dir f) (removelast (pf_dir f ++ removelast (pp_parts (pf_rel f))))) eqn:IP.
      2:{ intros Ed Er; inversion Ed; inversion Er; subst. fpd_done. }
      assert (RT : retest_d (pf_dir f, pf_rel f, np)).
      { split; cbn [fst snd].
        - exact (verify_yes_dd s0 MDirectory f _ np _ W0 G eq_refl Ps Pdd IP).
        - intros wd2 wr2 HS2.
          exact (verify_yes_dd (w_fs wr2) MDirectory f _ np _ (sd_wf _ _ HS2) G eq_refl
                   (plain_rel_real _ _ _ _ HS2 Ps Ha) (dd_rel_real _ _ _ _ _ HS2 Pdd Ha) IP). }
      rewrite (dest_parent_test_generated fixed _ s0 f _ np G eq_refl (source_contained_rel s0 f W0 Ps)),
              (dest_parent_test_generated fixed _ (w_fs wr) f _ np G eq_refl (source_contained_rel (w_fs wr) f (sd_wf _ _ HS) Ps')).
      rewrite (parents_contained_dd s0 f np _ W0 Pdd), (parents_contained_dd (w_fs wr) f np _ (sd_wf _ _ HS) Pdd').
      rewrite (source_contained_rel s0 f W0 Ps), (source_contained_rel (w_fs wr) f (sd_wf _ _ HS) Ps').
      destruct (simd_renamer_dd wd wr (pf_dir f) (pf_rel f) np _ HS Pdd Ha) as [-> ->].
      cbn [is_file_exists].
      apply IH; try assumption. constructor; [|assumption]. split; cbn [fst snd]; [assumption|]. split; [|exact RT].
      right. exists (removelast (pp_parts (pf_rel f))). split; assumption.
    + assert (Ht : t <> dotdot) by (intros E; apply name_eqb_eq in E; congruence).
      assert (Pd : plain_rel s0 (pf_dir f) np) by (rewrite Enp; apply plain_rel_dest; assumption).
      assert (Epar : removelast (pp_parts np) = removelast (pp_parts (pf_rel f))).
      { rewrite Enp. cbn [pp_parts]. apply removelast_snoc. }
      assert (Ha2 : anc (pf_dir f ++ removelast (pp_parts np))) by (rewrite Epar; exact Ha).
      assert (NLd : not_link (lookup s0 (pf_dir f ++ pp_parts np))) by (rewrite Enp; exact Lf).
      (* containment: the same answer on the initial and on the current real tree *)
      rewrite (contained_rel s0 f np W0 Pd NLd).
      pose proof (plain_rel_real _ _ _ _ HS Pd Ha2) as Pd'.
      assert (NLr : not_link (lookup (w_fs wr) (pf_dir f ++ pp_parts np))).
      { intros i tg K.
        destruct (exists_last (pr_ne _ _ _ Pd)) as [pre [y Ey]]. rewrite Ey in *. rewrite removelast_snoc in Ha2.
        rewrite app_assoc in *. apply (NLd i tg). exact (sd_nl _ _ HS _ _ _ _ Ha2 K). }
      rewrite (contained_rel (w_fs wr) f np (sd_wf _ _ HS) Pd' NLr).
      destruct (is_prefix_path (pf_dir f) (pf_dir f ++ pp_parts np)) eqn:IP.
      2:{ intros Ed Er; inversion Ed; inversion Er; subst. fpd_done. }
      assert (RT : retest_d (pf_dir f, pf_rel f, np)).
      { split; cbn [fst snd].
        - exact (verify_yes_plain s0 MDirectory f _ np W0 G eq_refl Ps Pd NLd IP).
        - intros wd2 wr2 HS2.
          apply (verify_yes_plain (w_fs wr2) MDirectory f _ np (sd_wf _ _ HS2) G eq_refl
                   (plain_rel_real _ _ _ _ HS2 Ps Ha) (plain_rel_real _ _ _ _ HS2 Pd Ha2)); [|exact IP].
          intros i tg K.
          destruct (exists_last (pr_ne _ _ _ Pd)) as [pre [y Ey]]. rewrite Ey in *. rewrite removelast_snoc in Ha2.
          rewrite app_assoc in *. apply (NLd i tg). exact (sd_nl _ _ HS2 _ _ _ _ Ha2 K). }
      rewrite (dest_parent_test_generated fixed _ s0 f _ np G eq_refl (source_contained_rel s0 f W0 Ps)),
              (dest_parent_test_generated fixed _ (w_fs wr) f _ np G eq_refl (source_contained_rel (w_fs wr) f (sd_wf _ _ HS) Ps')).
      rewrite (parents_contained_rel s0 f np W0 Pd), (parents_contained_rel (w_fs wr) f np (sd_wf _ _ HS) Pd').
      rewrite (source_contained_rel s0 f W0 Ps), (source_contained_rel (w_fs wr) f (sd_wf _ _ HS) Ps').
      destruct (renamer dD wd (pf_dir f) (pf_rel f) np false) as [wd1 ed1] eqn:Rd.
      destruct (renamer dR wr (pf_dir f) (pf_rel f) np false) as [wr1 er1] eqn:Rr.
      destruct (simd_renamer _ _ _ _ _ _ _ _ _ HS RS Pd Epar Rd Rr) as [E S1]. subst er1.
      destruct ed1 as [e|]; [|apply IH; assumption].
      destruct (is_file_exists e).
      * apply IH; try assumption. constructor; [|assumption]. split; cbn [fst snd]; [assumption|]. split; [|exact RT].
        left. split; assumption.
      * intros Ed Er; inversion Ed; inversion Er; subst. fpd_done.
Qed.

Lemma simd_run plan cwd :
  ready_plan plan -> dest_not_link s0 plan ->
  r_status (run dD plan cwd s0) = r_status (run dR plan cwd s0) /\
  r_report (run dD plan cwd s0) = r_report (run dR plan cwd s0) /\
  r_prompts (run dD plan cwd s0) = r_prompts (run dR plan cwd s0) /\
  r_error (run dD plan cwd s0) = r_error (run dR plan cwd s0).
Proof.
  intros PP NL. unfold run. cbn [dD dR c_answers].
  destruct (first_pass dD plan (init_world s0 answers) cwd []) as [[[wd1 cd1] bd1] ed1] eqn:Fd.
  destruct (first_pass dR plan (init_world s0 answers) cwd []) as [[[wr1 cr1] br1] er1] eqn:Fr.
  destruct (simd_first_pass _ _ _ _ _ _ _ _ _ _ _ _ _ PP NL (Forall_nil _) SimD_init Fd Fr) as [E [Ec [Eb [PB S1]]]].
  subst er1 cr1 br1.
  destruct ed1 as [e|].
  - cbn [r_status r_report r_prompts r_error]. rewrite (sd_report _ _ S1), (sd_prompts _ _ S1). auto.
  - destruct (second_pass dD bd1 wd1 cd1) as [[wd2 cd2] ed2] eqn:Sd.
    destruct (second_pass dR bd1 wr1 cd1) as [[wr2 cr2] er2] eqn:Sr.
    destruct (simd_second_pass _ _ _ _ _ _ _ _ _ _ PB S1 Sd Sr) as [E2 S2]. subst er2.
    cbn [r_status r_report r_prompts r_error]. rewrite (sd_report _ _ S2), (sd_prompts _ _ S2). auto.
Qed.

End SimulationDir.

(* ---------- the anchors of a plan ------------------------------------------------------------------ *)
Definition anchor (plan : list (pfile * rendered)) (a : rpath) : Prop :=
  exists e, In e plan /\ proper_prefix a (dir_key (fst e)).

Lemma plain_dir_input s f : plain_dir s f -> lookup s (pf_dir f) = Some NDir.
Proof.
  intros [Hc _]. revert Hc. unfold chdir.
  destruct (resolve s [] {| up_abs := true; up_comps := pf_dir f |} true) as [p n| |] eqn:R; try discriminate.
  destruct n; try discriminate. intros Hc. inversion Hc; subst. apply resolve_found in R. assumption.
Qed.

Lemma anchor_dir s plan a : WF s -> plain_dir_plan s plan -> anchor plan a -> lookup s a = Some NDir.
Proof.
  intros W PP [[f r] [Hin [t [Ht E]]]]. cbn [fst] in E. unfold dir_key in E.
  unfold plain_dir_plan in PP. rewrite Forall_forall in PP. pose proof (PP _ Hin) as Pf. cbn [fst] in Pf.
  pose proof (plain_dir_input _ _ Pf) as Ld.
  destruct Pf as [_ [_ [_ [Hne [_ [Hpre _]]]]]].
  destruct (prefix_of_app _ _ _ _ E) as [[u Eu]|[q' [Eq Ep]]].
  - exact (dirpath_of_lookup _ _ W Ld a u Eu).
  - subst a. destruct q' as [|x q']; [rewrite app_nil_r; exact Ld|].
    apply (Hpre (x :: q') t); [assumption | discriminate | assumption].
Qed.

Lemma anchor_up plan a : anchor plan a -> anchor plan (removelast a).
Proof.
  intros [e [Hin [t [Ht E]]]]. exists e. split; [assumption|].
  destruct a as [|x a] using rev_ind; [exists t; split; assumption|].
  rewrite removelast_snoc. exists ([x] ++ t). split; [discriminate|]. rewrite E, <- app_assoc. reflexivity.
Qed.

Lemma source_movable plan e : non_nested plan -> In e plan -> movable (anchor plan) (dir_key (fst e)).
Proof.
  intros NN Hin b [e2 [Hin2 [t [Ht E]]]]. apply is_prefix_false. intros [r Er].
  apply (NN e e2 Hin Hin2). exists (r ++ t). split.
  - intros K. apply app_eq_nil in K as [_ K]. contradiction.
  - rewrite E, Er, app_assoc. reflexivity.
Qed.

Lemma plain_dir_ready s plan :
  WF s -> plain_dir_plan s plan -> non_nested plan -> ready_plan s (anchor plan) plan.
Proof.
  intros W PP NN. unfold ready_plan. rewrite Forall_forall. intros [f r] Hin. cbn [fst].
  pose proof PP as PP0. unfold plain_dir_plan in PP. rewrite Forall_forall in PP. pose proof (PP _ Hin) as Pf. cbn [fst] in Pf.
  pose proof (plain_dir_input _ _ Pf) as Ld.
  destruct Pf as [Hc [Hdd [Hr [Hne [Hpd [Hpre [Hdir Hlen]]]]]]].
  destruct (exists_last Hne) as [pre [t E]].
  assert (Apar : anchor plan (pf_dir f ++ removelast (pp_parts (pf_rel f)))).
  { exists (f, r). split; [assumption|]. exists [t]. split; [discriminate|]. cbn [fst]. unfold dir_key.
    rewrite E, removelast_snoc, app_assoc. reflexivity. }
  split; [|split; [|split; [|split]]].
  - exists (f, r). split; [assumption|]. exists (pp_parts (pf_rel f)). split; [assumption | reflexivity].
  - constructor; try assumption.
    exact (anchor_dir _ _ _ W PP0 Apar).
  - exact Apar.
  - exact Hdir.
  - exact (source_movable plan (f, r) NN Hin).
Qed.

(* ---------- C05, directory mode ------------------------------------------------------------------------- *)
Theorem dry_equals_real_directory_mode : forall c plan cwd s,
  c_mode c = MDirectory -> c_fault c = None -> c_var c = fixed -> WF s ->
  plain_dir_plan s plan -> non_nested plan -> dest_not_link s plan -> no_override c ->
  let d := run (cfg_set_dry c true) plan cwd s in
  let r := run (cfg_set_dry c false) plan cwd s in
  r_status d = r_status r /\ r_report d = r_report r /\ r_prompts d = r_prompts r /\ r_error d = r_error r.
Proof.
  intros [m stg dry ans flt v] plan cwd s Hm Hf Hv W PP NN NL NO. cbn in Hm, Hf, Hv. subst m flt v.
  unfold no_override in NO. cbn [c_strategy c_answers] in NO.
  unfold cfg_set_dry. cbn [c_mode c_strategy c_answers c_fault c_var].
  exact (simd_run s stg ans (anchor plan) W NO (fun a => anchor_dir s plan a W PP) (anchor_up plan)
                  plan cwd (plain_dir_ready s plan W PP NN) NL).
Qed.

(* ---------- sound boolean checkers for the hypotheses ----------------------------------------------------- *)
Definition plain_dir_b (s : fs) (f : pfile) : bool :=
  let d := pf_dir f in
  let parts := pp_parts (pf_rel f) in
  match chdir s d with Some p => rpath_eqb p d | None => false end &&
  no_dotdot_b d &&
  Nat.eqb (pp_root (pf_rel f)) 0 &&
  match parts with [] => false | _ => true end &&
  no_dotdot_b parts &&
  forallb (fun q => is_dir_at s (d ++ q)) (proper_prefixes parts) &&
  is_dir_at s (d ++ parts) &&
  Nat.ltb (length d + length parts) walk_fuel.

Lemma is_dir_at_sound s k : is_dir_at s k = true -> lookup s k = Some NDir.
Proof. unfold is_dir_at. destruct (lookup s k) as [[?|? ?|]|]; try discriminate. reflexivity. Qed.

Lemma plain_dir_b_sound s f : plain_dir_b s f = true -> plain_dir s f.
Proof.
  unfold plain_dir_b, plain_dir. intros H.
  repeat (apply andb_true_iff in H; destruct H as [H ?]).
  split; [|split; [|split; [|split; [|split; [|split; [|split]]]]]].
  - destruct (chdir s (pf_dir f)) as [p|]; [|discriminate]. apply rpath_eqb_eq in H. subst p. reflexivity.
  - apply no_dotdot_b_sound. assumption.
  - apply Nat.eqb_eq. assumption.
  - destruct (pp_parts (pf_rel f)); [discriminate | discriminate].
  - apply no_dotdot_b_sound. assumption.
  - intros q r E Hq Hr. rewrite forallb_forall in H2.
    apply is_dir_at_sound. apply H2. exact (proper_prefixes_complete _ q r Hq Hr E).
  - apply is_dir_at_sound. assumption.
  - apply Nat.ltb_lt. assumption.
Qed.

Definition plain_dir_plan_b (s : fs) (plan : list (pfile * rendered)) : bool :=
  forallb (fun fr => plain_dir_b s (fst fr)) plan.

Lemma plain_dir_plan_b_sound s plan : plain_dir_plan_b s plan = true -> plain_dir_plan s plan.
Proof.
  unfold plain_dir_plan_b, plain_dir_plan. rewrite forallb_forall, Forall_forall.
  intros H x Hx. apply plain_dir_b_sound. apply H. assumption.
Qed.

Definition non_nested_b (plan : list (pfile * rendered)) : bool :=
  forallb (fun e1 => forallb (fun e2 =>
    negb (is_prefix_path (dir_key (fst e1)) (dir_key (fst e2)) && negb (rpath_eqb (dir_key (fst e1)) (dir_key (fst e2))))) plan) plan.

Lemma non_nested_b_sound plan : non_nested_b plan = true -> non_nested plan.
Proof.
  unfold non_nested_b, non_nested. rewrite forallb_forall. intros H e1 e2 H1 H2 [r [Hr E]].
  pose proof (H e1 H1) as K. rewrite forallb_forall in K. specialize (K e2 H2).
  apply negb_true_iff in K. apply andb_false_iff in K as [K|K].
  - apply is_prefix_false in K. apply K. exists r. exact E.
  - apply negb_false_iff in K. apply rpath_eqb_eq in K. rewrite K in E.
    apply (f_equal (@length _)) in E. rewrite app_length in E.
    destruct r; [congruence | simpl in E; lia].
Qed.

(* all hypotheses of [dry_equals_real_directory_mode] about the tree and the plan *)
Definition c05_dir_covered_b (s : fs) (plan : list (pfile * rendered)) : bool :=
  wf_b s && plain_dir_plan_b s plan && non_nested_b plan && dest_not_link_b s plan.

Lemma c05_dir_covered_b_sound s plan :
  c05_dir_covered_b s plan = true -> WF s /\ plain_dir_plan s plan /\ non_nested plan /\ dest_not_link s plan.
Proof.
  unfold c05_dir_covered_b. intros H.
  apply andb_true_iff in H as [H H4]. apply andb_true_iff in H as [H H3]. apply andb_true_iff in H as [H1 H2].
  split; [apply wf_b_sound; assumption|]. split; [apply plain_dir_plan_b_sound; assumption|].
  split; [apply non_nested_b_sound; assumption | apply dest_not_link_b_sound; assumption].
Qed.
