(* Boolean checkers, proved sound, for the hypotheses of the C05 path-mode theorem (Pipe/DryEqualsRealPath.v), *)
(* a non-vacuity scenario and scenarios showing that the restrictions on the destinations are needed.        *)
From Tempren Require Import Base.Str Py.PathLib FS.Model FS.Lemmas FS.PlainPaths FS.WfCheck Pipe.Pipeline Corr.PipeCorr
  Pipe.PlanExactPath Pipe.DryEqualsReal Pipe.DryEqualsRealCheck Pipe.DryEqualsRealPath.
Open Scope N_scope.

Definition dm_b (s : fs) (T : rpath) : bool :=
  forallb (fun n => match lookup s (firstn n T) with Some NDir | None => true | _ => false end) (seq 0 (length T)).

Lemma dm_b_sound s T : dm_b s T = true -> dm s T.
Proof.
  unfold dm_b. intros FB pre post E Hp.
  rewrite forallb_forall in FB. specialize (FB (length pre)).
  assert (Hin : In (length pre) (seq 0 (length T))).
  { apply in_seq. rewrite E, app_length. destruct post; [congruence|]. simpl. lia. }
  specialize (FB Hin). rewrite E in FB. rewrite firstn_app, Nat.sub_diag, firstn_all in FB.
  cbn [firstn] in FB. rewrite app_nil_r in FB.
  destruct (lookup s pre) as [[| |]|]; [discriminate | discriminate | left; reflexivity | right; reflexivity].
Qed.

Definition dest_ok_b (s : fs) (d : rpath) (np : ppath) : bool :=
  Nat.eqb (pp_root np) 0 && no_dotdot_b (pp_parts np) &&
  Nat.ltb (length d + length (pp_parts np)) walk_fuel &&
  dm_b s (d ++ pp_parts np) &&
  match skel s (d ++ pp_parts np) with None => true | _ => false end.

Lemma dest_ok_b_sound s d np : dest_ok_b s d np = true -> dest_ok s d np.
Proof.
  unfold dest_ok_b. intros H. repeat (apply andb_true_iff in H; destruct H as [H ?]).
  constructor.
  - apply Nat.eqb_eq. assumption.
  - apply no_dotdot_b_sound. assumption.
  - apply Nat.ltb_lt. assumption.
  - apply dm_b_sound. assumption.
  - destruct (skel s (d ++ pp_parts np)); [discriminate | reflexivity].
Qed.

Definition path_entry_ok_b (s : fs) (e : pfile * rendered) : bool :=
  match snd e with
  | RText t => dest_ok_b s (pf_dir (fst e)) (parse_path t)
  | RAbs _ => false
  | RRaise _ => true
  end.

Definition path_dests_ok_b (s : fs) (plan : list (pfile * rendered)) : bool :=
  forallb (path_entry_ok_b s) plan &&
  forallb (fun e => forallb (fun e' =>
    match e, e' with
    | (f, RText t), (f', RText t') => negb (is_prefix_path (pdst f t) (pdst f' t') && negb (rpath_eqb (pdst f t) (pdst f' t')))
    | _, _ => true
    end) plan) plan.

Lemma path_dests_ok_b_sound s plan : path_dests_ok_b s plan = true -> path_dests_ok s plan.
Proof.
  unfold path_dests_ok_b. intros H. apply andb_true_iff in H as [H1 H2]. split.
  - apply Forall_forall. intros e He. rewrite forallb_forall in H1. specialize (H1 e He).
    unfold path_entry_ok_b in H1. unfold path_entry_ok. destruct (snd e) as [t|t|ex]; [|discriminate | exact I].
    apply dest_ok_b_sound. exact H1.
  - intros f t f' t' I1 I2 P. rewrite forallb_forall in H2. specialize (H2 _ I1). rewrite forallb_forall in H2.
    specialize (H2 _ I2). cbn in H2. rewrite (proper_prefix_b _ _ P) in H2. discriminate.
Qed.

(* all hypotheses of [dry_equals_real_path_mode] about the tree and the plan *)
Definition c05_path_covered_b (s : fs) (plan : list (pfile * rendered)) : bool :=
  wf_b s && plain_plan_b s plan && path_dests_ok_b s plan.

Lemma c05_path_covered_b_sound s plan :
  c05_path_covered_b s plan = true -> WF s /\ plain_plan s plan /\ path_dests_ok s plan.
Proof.
  unfold c05_path_covered_b. intros H.
  apply andb_true_iff in H as [H H3]. apply andb_true_iff in H as [H1 H2].
  split; [apply wf_b_sound; assumption|]. split; [apply plain_plan_b_sound; assumption|].
  apply path_dests_ok_b_sound; assumption.
Qed.

(* the theorem with its hypotheses about tree and plan decided by computation *)
Theorem dry_equals_real_path_mode_checked : forall c plan cwd s,
  c_mode c = MPath -> c_fault c = None -> c_var c = fixed -> c05_path_covered_b s plan = true -> no_override c ->
  let d := run (cfg_set_dry c true) plan cwd s in
  let r := run (cfg_set_dry c false) plan cwd s in
  r_status d = r_status r /\ r_report d = r_report r /\ r_prompts d = r_prompts r /\ r_error d = r_error r.
Proof.
  intros c plan cwd s Hm Hf Hv Hb NO. destruct (c05_path_covered_b_sound _ _ Hb) as [W [PP DO]].
  apply dry_equals_real_path_mode; assumption.
Qed.

(* ====================== non-vacuity ======================================================================== *)
(* in/c -> "x" (in/x exists: a conflict that stays), in/a -> "b" (in/b exists: deferred), in/b -> "new/deep/b"   *)
(* (creates in/new and in/new/deep).  Second pass: in/a -> b now succeeds, in/c -> x is the conflict.            *)
Definition p5_in : name := [105; 110].
Definition p5_fs : fs :=
  [ ([p5_in], NDir); ([p5_in; [97]], NFile 1); ([p5_in; [98]], NFile 2); ([p5_in; [99]], NFile 3);
    ([p5_in; [120]], NFile 4) ].
Definition p5_plan : list (pfile * rendered) :=
  mk_plan [ ([p5_in], [99], RText [120]);
            ([p5_in], [97], RText [98]);
            ([p5_in], [98], RText [110;101;119;47;100;101;101;112;47;98]) ].
Definition p5_cfg (st : strategy) (ans : list str) : cfg :=
  {| c_mode := MPath; c_strategy := st; c_dry := false; c_answers := ans; c_fault := None; c_var := fixed |}.

Example p5_covered : c05_path_covered_b p5_fs p5_plan = true.
Proof. vm_compute. reflexivity. Qed.

Definition p5_report : list (str * str * bool) :=
  [ ([98], [110;101;119;47;100;101;101;112;47;98], false); ([97], [98], false) ].

Example p5_runs :
  (let d := run (cfg_set_dry (p5_cfg Stop []) true) p5_plan [] p5_fs in
   let r := run (cfg_set_dry (p5_cfg Stop []) false) p5_plan [] p5_fs in
   r_status d = 1%Z /\ r_status r = 1%Z /\ r_report d = p5_report /\ r_report r = p5_report /\
   r_error d = Some ExDestExists /\ r_error r = Some ExDestExists /\
   r_calls d = [] /\
   r_calls r = [(CMkdir, CErr); (CMkdir, COk); (CMkdir, COk); (CMove, COk); (CMkdir, CErr); (CMove, COk)] /\
   lookup (r_final r) [p5_in; [110;101;119]; [100;101;101;112]; [98]] = Some (NFile 2) /\
   lookup (r_final r) [p5_in; [98]] = Some (NFile 1) /\ lookup (r_final r) [p5_in; [99]] = Some (NFile 3) /\
   r_final d = p5_fs) /\
  (let d := run (cfg_set_dry (p5_cfg Ignore []) true) p5_plan [] p5_fs in
   let r := run (cfg_set_dry (p5_cfg Ignore []) false) p5_plan [] p5_fs in
   r_status d = 0%Z /\ r_status r = 0%Z /\ r_report d = p5_report /\ r_report r = p5_report) /\
  (let c := p5_cfg Manual [[122]; [115]] in                          (* "z" (asked again), "s" = stop *)
   let d := run (cfg_set_dry c true) p5_plan [] p5_fs in
   let r := run (cfg_set_dry c false) p5_plan [] p5_fs in
   r_status d = 1%Z /\ r_status r = 1%Z /\ r_report d = p5_report /\ r_report r = p5_report /\
   r_prompts d = 2%nat /\ r_prompts r = 2%nat).
Proof. vm_compute. repeat split; reflexivity. Qed.

(* ... and obtained from the theorem rather than by running both *)
Example p5_by_theorem :
  let c := p5_cfg Manual [[122]; [115]] in
  let d := run (cfg_set_dry c true) p5_plan [] p5_fs in
  let r := run (cfg_set_dry c false) p5_plan [] p5_fs in
  r_status d = r_status r /\ r_report d = r_report r /\ r_prompts d = r_prompts r /\ r_error d = r_error r.
Proof.
  apply dry_equals_real_path_mode_checked; [reflexivity | reflexivity | reflexivity | exact p5_covered |].
  unfold no_override. cbn [c_strategy p5_cfg c_answers]. repeat constructor; vm_compute; discriminate.
Qed.

(* ====================== the restrictions are needed =========================================================== *)
(* 1. a destination beneath an existing regular file (in/a is a file, in/b -> "a/b"): the dry run sees a free name  *)
(*    and reports the rename (status 0); mkdir -p of in/a fails with FileExistsError, the rename is deferred and     *)
(*    is a conflict in the second pass (status 1).                                                                  *)
Definition p5_file_fs : fs := [ ([p5_in], NDir); ([p5_in; [97]], NFile 1); ([p5_in; [98]], NFile 2) ].
Definition p5_file_plan : list (pfile * rendered) := mk_plan [ ([p5_in], [98], RText [97;47;98]) ].

Example p5_beneath_a_file_refuted :
  let d := run (cfg_set_dry (p5_cfg Stop []) true) p5_file_plan [] p5_file_fs in
  let r := run (cfg_set_dry (p5_cfg Stop []) false) p5_file_plan [] p5_file_fs in
  wf_b p5_file_fs = true /\ plain_plan_b p5_file_fs p5_file_plan = true /\ path_dests_ok_b p5_file_fs p5_file_plan = false /\
  r_status d = 0%Z /\ r_status r = 1%Z /\ length (r_report d) = 1%nat /\ r_report r = [].
Proof. vm_compute. repeat split; reflexivity. Qed.

(* 2. a destination that is an ancestor of another destination (in/a -> "n", in/b -> "n/b"; every ancestor is a      *)
(*    directory or missing on the initial tree): the dry run reports both (0); in the real run in/n is a file by     *)
(*    then, mkdir -p fails, the second rename ends as a conflict (1).                                                *)
Definition p5_anc_plan : list (pfile * rendered) :=
  mk_plan [ ([p5_in], [97], RText [110]); ([p5_in], [98], RText [110;47;98]) ].

Example p5_destination_above_destination_refuted :
  let d := run (cfg_set_dry (p5_cfg Stop []) true) p5_anc_plan [] p5_file_fs in
  let r := run (cfg_set_dry (p5_cfg Stop []) false) p5_anc_plan [] p5_file_fs in
  wf_b p5_file_fs = true /\ plain_plan_b p5_file_fs p5_anc_plan = true /\
  forallb (path_entry_ok_b p5_file_fs) p5_anc_plan = true /\ path_dests_ok_b p5_file_fs p5_anc_plan = false /\
  r_status d = 0%Z /\ r_status r = 1%Z /\ length (r_report d) = 2%nat /\ length (r_report r) = 1%nat.
Proof. vm_compute. repeat split; reflexivity. Qed.

(* 3. a symbolic link among the ancestors (in/l -> sub; in/a -> "l/x", in/b -> "sub/x"): the dry run keeps the two    *)
(*    names apart (0, two renames); on disk they are the same entry, the second rename is a conflict (1).             *)
Definition p5_link_fs : fs :=
  [ ([p5_in], NDir); ([p5_in; [97]], NFile 1); ([p5_in; [98]], NFile 2); ([p5_in; [115;117;98]], NDir);
    ([p5_in; [108]], NLink 3 {| up_abs := false; up_comps := [[115;117;98]] |}) ].
Definition p5_link_plan : list (pfile * rendered) :=
  mk_plan [ ([p5_in], [97], RText [108;47;120]); ([p5_in], [98], RText [115;117;98;47;120]) ].

Example p5_link_ancestor_refuted :
  let d := run (cfg_set_dry (p5_cfg Stop []) true) p5_link_plan [] p5_link_fs in
  let r := run (cfg_set_dry (p5_cfg Stop []) false) p5_link_plan [] p5_link_fs in
  wf_b p5_link_fs = true /\ plain_plan_b p5_link_fs p5_link_plan = true /\ path_dests_ok_b p5_link_fs p5_link_plan = false /\
  r_status d = 0%Z /\ r_status r = 1%Z /\ length (r_report d) = 2%nat /\ length (r_report r) = 1%nat.
Proof. vm_compute. repeat split; reflexivity. Qed.

(* ====================== override ============================================================================== *)
Theorem dry_equals_real_path_mode_override_checked : forall c plan cwd s,
  c_mode c = MPath -> c_fault c = None -> c_var c = fixed -> c05_path_covered_b s plan = true -> no_custom_path c ->
  let d := run (cfg_set_dry c true) plan cwd s in
  let r := run (cfg_set_dry c false) plan cwd s in
  r_status d = r_status r /\ r_report d = r_report r /\ r_prompts d = r_prompts r /\ r_error d = r_error r.
Proof.
  intros c plan cwd s Hm Hf Hv Hb NC. destruct (c05_path_covered_b_sound _ _ Hb) as [W [PP DO]].
  apply dry_equals_real_path_mode_override; assumption.
Qed.

(* the same scenario under --conflict override, and with "o" answered at the manual prompt: the conflict in/c -> x is
   resolved by replacing in/x; both runs report three renames, the last one as an override *)
Definition p5_report_ov : list (str * str * bool) := p5_report ++ [ ([99], [120], true) ].

Example p5_override_runs :
  (let d := run (cfg_set_dry (p5_cfg Override []) true) p5_plan [] p5_fs in
   let r := run (cfg_set_dry (p5_cfg Override []) false) p5_plan [] p5_fs in
   r_status d = 0%Z /\ r_status r = 0%Z /\ r_report d = p5_report_ov /\ r_report r = p5_report_ov /\
   lookup (r_final r) [p5_in; [120]] = Some (NFile 3) /\ lookup (r_final r) [p5_in; [99]] = None) /\
  (let c := p5_cfg Manual [[111]] in                                 (* "o" = override *)
   let d := run (cfg_set_dry c true) p5_plan [] p5_fs in
   let r := run (cfg_set_dry c false) p5_plan [] p5_fs in
   r_status d = 0%Z /\ r_status r = 0%Z /\ r_report d = p5_report_ov /\ r_report r = p5_report_ov /\
   r_prompts d = 1%nat /\ r_prompts r = 1%nat).
Proof. vm_compute. repeat split; reflexivity. Qed.

Example p5_override_by_theorem :
  let c := p5_cfg Manual [[122]; [111]] in                           (* "z" (asked again), "o" *)
  let d := run (cfg_set_dry c true) p5_plan [] p5_fs in
  let r := run (cfg_set_dry c false) p5_plan [] p5_fs in
  r_status d = r_status r /\ r_report d = r_report r /\ r_prompts d = r_prompts r /\ r_error d = r_error r.
Proof.
  apply dry_equals_real_path_mode_override_checked; [reflexivity | reflexivity | reflexivity | exact p5_covered |].
  unfold no_custom_path. cbn [c_strategy p5_cfg c_answers]. repeat constructor; vm_compute; discriminate.
Qed.

(* 4. a custom path typed at the prompt is not restricted by the hypotheses on the plan: "c", then "x/y" with in/x a   *)
(*    regular file (p5_fs; conflict in/c -> x): the dry run accepts it (0, three renames), mkdir -p fails in the real  *)
(*    run (FileExistsError: 126).                                                                                        *)
Example p5_custom_path_refuted :
  let c := p5_cfg Manual [[99]; [120;47;121]] in
  let d := run (cfg_set_dry c true) p5_plan [] p5_fs in
  let r := run (cfg_set_dry c false) p5_plan [] p5_fs in
  c05_path_covered_b p5_fs p5_plan = true /\
  r_status d = 0%Z /\ r_status r = 126%Z /\ length (r_report d) = 3%nat /\ length (r_report r) = 2%nat.
Proof. vm_compute. repeat split; reflexivity. Qed.

(* 5. --conflict override with a destination that is an existing directory (in/a -> "sub", in/sub a directory that      *)
(*    already holds an entry "a"): the dry run reports the rename as an override (0); shutil.move moves INTO the       *)
(*    directory and finds sub/a taken (shutil.Error: 126).                                                              *)
Definition p5_ovdir_fs : fs :=
  [ ([p5_in], NDir); ([p5_in; [97]], NFile 1); ([p5_in; [115;117;98]], NDir); ([p5_in; [115;117;98]; [97]], NFile 2) ].
Definition p5_ovdir_plan : list (pfile * rendered) := mk_plan [ ([p5_in], [97], RText [115;117;98]) ].

Example p5_override_onto_directory_refuted :
  let d := run (cfg_set_dry (p5_cfg Override []) true) p5_ovdir_plan [] p5_ovdir_fs in
  let r := run (cfg_set_dry (p5_cfg Override []) false) p5_ovdir_plan [] p5_ovdir_fs in
  wf_b p5_ovdir_fs = true /\ plain_plan_b p5_ovdir_fs p5_ovdir_plan = true /\ path_dests_ok_b p5_ovdir_fs p5_ovdir_plan = false /\
  r_status d = 0%Z /\ r_status r = 126%Z /\ length (r_report d) = 1%nat /\ r_report r = [].
Proof. vm_compute. repeat split; reflexivity. Qed.
