(* C03: the prompt parser, manual = flag answer by answer, and what each strategy can and cannot do. *)
From Tempren Require Import Base.Str Py.PathLib FS.Model FS.Lemmas Pipe.Pipeline Pipe.BacklogVerify Pipe.Safety.
Open Scope N_scope.

(* ---------- the prompt: every answer is read as documented --------------------------------------- *)
Definition lower (l : str) : str := map ascii_lower l.

Theorem parse_answer_spec l :
  parse_answer l =
    match lower l with
    | [] => AIgnore
    | _ => if is_prefix_str (lower l) w_ignore then AIgnore
           else if is_prefix_str (lower l) w_stop then AStop
           else if is_prefix_str (lower l) w_override then AOverride
           else if is_prefix_str (lower l) w_custom then ACustom
           else AInvalid
    end.
Proof. reflexivity. Qed.

(* the four option words start with different letters, so a non-empty answer is a prefix of at most one *)
Lemma prefix_first (a w : str) x : is_prefix_str (x :: a) w = true -> hd_error w = Some x.
Proof. destruct w as [|y w]; simpl; [discriminate|]. intros H. apply andb_true_iff in H as [H _]. apply N.eqb_eq in H. subst. reflexivity. Qed.

Theorem option_words_unambiguous (l : str) :
  l <> [] ->
  forall w1 w2, In w1 [w_ignore; w_stop; w_override; w_custom] -> In w2 [w_ignore; w_stop; w_override; w_custom] ->
  is_prefix_str l w1 = true -> is_prefix_str l w2 = true -> w1 = w2.
Proof.
  intros Hl w1 w2 H1 H2 P1 P2. destruct l as [|x a]; [congruence|].
  apply prefix_first in P1. apply prefix_first in P2.
  simpl in H1, H2.
  repeat (destruct H1 as [H1|H1]; [subst w1|]); try contradiction;
  repeat (destruct H2 as [H2|H2]; [subst w2|]); try contradiction;
  try reflexivity; simpl in P1, P2; congruence.
Qed.

Theorem parse_answer_prefix l a w :
  l <> [] -> In (a, w) [(AIgnore, w_ignore); (AStop, w_stop); (AOverride, w_override); (ACustom, w_custom)] ->
  (parse_answer l = a <-> is_prefix_str (lower l) w = true).
Proof.
  intros Hl Hin.
  assert (Hll : lower l <> []) by (destruct l; [congruence | discriminate]).
  rewrite parse_answer_spec. destruct (lower l) as [|x r] eqn:E; [congruence|].
  pose proof (option_words_unambiguous (x :: r) Hll) as U.
  assert (M : forall w1 w2, In w1 [w_ignore; w_stop; w_override; w_custom] -> In w2 [w_ignore; w_stop; w_override; w_custom] ->
              w1 <> w2 -> is_prefix_str (x :: r) w1 = true -> is_prefix_str (x :: r) w2 = false).
  { intros w1 w2 I1 I2 Hne P1. destruct (is_prefix_str (x :: r) w2) eqn:P2; [|reflexivity]. exfalso. apply Hne. apply U; assumption. }
  simpl in Hin.
  destruct Hin as [H|[H|[H|[H|[]]]]]; inversion H; subst a w; clear H.
  - destruct (is_prefix_str (x :: r) w_ignore); split; intros; try reflexivity; try discriminate.
    destruct (is_prefix_str (x :: r) w_stop), (is_prefix_str (x :: r) w_override), (is_prefix_str (x :: r) w_custom); discriminate.
  - split.
    + destruct (is_prefix_str (x :: r) w_ignore); [discriminate|].
      destruct (is_prefix_str (x :: r) w_stop); [reflexivity|].
      destruct (is_prefix_str (x :: r) w_override), (is_prefix_str (x :: r) w_custom); discriminate.
    + intros P. rewrite (M w_stop w_ignore) by (simpl; auto || discriminate || assumption). rewrite P. reflexivity.
  - split.
    + destruct (is_prefix_str (x :: r) w_ignore); [discriminate|].
      destruct (is_prefix_str (x :: r) w_stop); [discriminate|].
      destruct (is_prefix_str (x :: r) w_override); [reflexivity|].
      destruct (is_prefix_str (x :: r) w_custom); discriminate.
    + intros P. rewrite (M w_override w_ignore), (M w_override w_stop) by (simpl; auto || discriminate || assumption). rewrite P. reflexivity.
  - split.
    + destruct (is_prefix_str (x :: r) w_ignore); [discriminate|].
      destruct (is_prefix_str (x :: r) w_stop); [discriminate|].
      destruct (is_prefix_str (x :: r) w_override); [discriminate|].
      destruct (is_prefix_str (x :: r) w_custom); [reflexivity | discriminate].
    + intros P. rewrite (M w_custom w_ignore), (M w_custom w_stop), (M w_custom w_override) by (simpl; auto || discriminate || assumption).
      rewrite P. reflexivity.
Qed.

Theorem empty_answer_is_ignore : parse_answer [] = AIgnore.
Proof. reflexivity. Qed.

Theorem letter_case_irrelevant l l' : lower l = lower l' -> parse_answer l = parse_answer l'.
Proof. intros H. rewrite !parse_answer_spec, H. reflexivity. Qed.

(* ---------- manual resolution = the flag, answer by answer ---------------------------------------- *)
Definition strategy_of (a : answer) : option strategy :=
  match a with AIgnore => Some Ignore | AStop => Some Stop | AOverride => Some Override | _ => None end.

Definition consume (w : world) : world := snd (take_line w).

Definition with_strategy (c : cfg) (st : strategy) : cfg :=
  {| c_mode := c_mode c; c_strategy := st; c_dry := c_dry c; c_answers := c_answers c; c_fault := c_fault c; c_var := c_var c |}.

Lemma renamer_strategy_irrelevant c st w cwd src dst o :
  renamer (with_strategy c st) w cwd src dst o = renamer c w cwd src dst o.
Proof. reflexivity. Qed.

(* with the next unread line being an accepted spelling of stop / ignore / override, a conflict is
   resolved exactly as under the corresponding flag (on the world with that line consumed) *)
Theorem manual_is_flag c w cwd src dst a rest st :
  c_strategy c = Manual -> w_answers w = a :: rest -> strategy_of (parse_answer a) = Some st ->
  resolve_conflict c w cwd src dst = resolve_conflict (with_strategy c st) (consume w) cwd src dst.
Proof.
  intros CM WA PA. unfold resolve_conflict. rewrite CM.
  unfold prompt. cbn [length]. unfold consume, take_line. rewrite WA. cbn [snd].
  destruct (parse_answer a); simpl in PA; inversion PA; subst st; reflexivity.
Qed.

(* garbage re-prompts: an unrecognised line is consumed and the next line decides *)
Theorem garbage_reprompts c w cwd src dst a rest :
  c_strategy c = Manual -> w_answers w = a :: rest -> parse_answer a = AInvalid ->
  resolve_conflict c w cwd src dst = resolve_conflict c (consume w) cwd src dst.
Proof.
  intros CM WA PA. unfold resolve_conflict. rewrite CM.
  assert (L : w_answers (consume w) = rest) by (unfold consume, take_line; rewrite WA; reflexivity).
  rewrite L. rewrite WA. cbn [length]. 
  change (prompt (S (S (length rest))) w) with
    (match take_line w with
     | (None, w1) => (DEof, w1)
     | (Some l, w1) =>
       match parse_answer l with
       | AIgnore => (DStrategy Ignore, w1) | AStop => (DStrategy Stop, w1) | AOverride => (DStrategy Override, w1)
       | ACustom => match take_line w1 with (None, w2) => (DEof, w2) | (Some p, w2) => (DPath p, w2) end
       | AInvalid => prompt (S (length rest)) w1
       end
     end).
  unfold consume. unfold take_line at 1 3. rewrite WA. cbn [snd]. rewrite PA. reflexivity.
Qed.

(* a custom path is handed to the renamer WITHOUT override *)
Theorem custom_path_not_override c w cwd src dst a p rest :
  c_strategy c = Manual -> w_answers w = a :: p :: rest -> parse_answer a = ACustom ->
  resolve_conflict c w cwd src dst = renamer c (consume (consume w)) cwd src (parse_path p) false.
Proof.
  intros CM WA PA. unfold resolve_conflict. rewrite CM. rewrite WA. cbn [length].
  unfold prompt at 1. unfold consume. unfold take_line. rewrite WA. cbn [snd]. rewrite PA. cbn [w_answers snd]. reflexivity.
Qed.

(* ---------- what the strategies can do --------------------------------------------------------------- *)
Theorem stop_raises c w cwd src dst :
  c_strategy c = Stop -> resolve_conflict c w cwd src dst = (w, Some ExDestExists).
Proof. intros H. unfold resolve_conflict. rewrite H. reflexivity. Qed.

Theorem ignore_continues c w cwd src dst :
  c_strategy c = Ignore -> resolve_conflict c w cwd src dst = (w, None).
Proof. intros H. unfold resolve_conflict. rewrite H. reflexivity. Qed.

Theorem override_reissues c w cwd src dst :
  c_strategy c = Override -> resolve_conflict c w cwd src dst = renamer c w cwd src dst true.
Proof. intros H. unfold resolve_conflict. rewrite H. reflexivity. Qed.

(* under ignore a conflict never ends the run: whatever the plan and the tree, the run does not end
   with a FileExistsError of any kind *)
Lemma first_pass_no_exists c plan w cwd bl w' cwd' bl' e :
  first_pass c plan w cwd bl = (w', cwd', bl', Some e) -> is_file_exists e = false \/ (exists f r, In (f, r) plan /\ generate (c_mode c) f r = inr e).
Proof.
  revert w cwd bl. induction plan as [|[f r] rest IH]; intros w cwd bl; simpl; [discriminate|].
  destruct (chdir (w_fs w) (pf_dir f)) as [cw|]; [|intros E; inversion E; subst; left; reflexivity].
  destruct (generate (c_mode c) f r) as [np|ex] eqn:G.
  - destruct (ppath_eqb np (pf_rel f)).
    + intros E. destruct (IH _ _ _ E) as [H|[f0 [r0 [I0 G0]]]]; [left; assumption | right; exists f0, r0; split; [right; assumption | assumption]].
    + destruct (contained (c_var c) (w_fs w) f np) as [[|]|]; try (intros E; inversion E; subst; left; reflexivity).
      destruct (dest_parent_test (c_var c) (w_fs w) f np) as [[|]|]; try (intros E; inversion E; subst; left; reflexivity).
      destruct (parents_contained (w_fs w) f np) as [[|]|]; try (intros E; inversion E; subst; left; reflexivity).
      destruct (source_contained (w_fs w) f) as [[|]|]; try (intros E; inversion E; subst; left; reflexivity).
      destruct (renamer c w cw (pf_rel f) np false) as [w1 [e1|]].
      * destruct (is_file_exists e1) eqn:X.
        -- intros E. destruct (IH _ _ _ E) as [H|[f0 [r1 [I0 G0]]]]; [left; assumption | right; exists f0, r1; split; [right; assumption | assumption]].
        -- intros E; inversion E; subst. left; assumption.
      * intros E. destruct (IH _ _ _ E) as [H|[f0 [r1 [I0 G0]]]]; [left; assumption | right; exists f0, r1; split; [right; assumption | assumption]].
  - intros E; inversion E; subst. right. exists f, r. split; [left; reflexivity | assumption].
Qed.

Lemma second_pass_ignore_no_exists c bl w cwd w' cwd' e :
  c_strategy c = Ignore -> second_pass c bl w cwd = (w', cwd', Some e) -> is_file_exists e = false.
Proof.
  intros CI. revert w cwd. induction bl as [|[[d src] dst] rest IH]; intros w cwd; simpl; [discriminate|].
  destruct (if v_backlog_chdir (c_var c) then chdir (w_fs w) d else Some cwd) as [cw|]; [|intros E; inversion E; subst; reflexivity].
  destruct (backlog_verify (c_var c) (w_fs w) d src dst) as [ev|] eqn:BV;
    [intros E; inversion E; subst; exact (backlog_verify_not_exists _ _ _ _ _ _ BV)|].
  destruct (renamer c w cw src dst false) as [w1 [e1|]].
  - destruct (is_file_exists e1) eqn:X.
    + rewrite ignore_continues by assumption. apply IH.
    + intros E; inversion E; subst. assumption.
  - apply IH.
Qed.

Definition plan_raises_exists (m : mode) (plan : list (pfile * rendered)) : Prop :=
  exists f r e, In (f, r) plan /\ generate m f r = inr e /\ is_file_exists e = true.

Theorem ignore_never_ends_on_a_conflict c plan cwd s e :
  c_strategy c = Ignore -> ~ plan_raises_exists (c_mode c) plan ->
  r_error (run c plan cwd s) = Some e -> is_file_exists e = false.
Proof.
  intros CI NR. unfold run.
  destruct (first_pass c plan (init_world s (c_answers c)) cwd []) as [[[w1 cwd1] bl] e1] eqn:FP.
  destruct e1 as [e1|].
  - simpl. intros E; inversion E; subst.
    destruct (first_pass_no_exists _ _ _ _ _ _ _ _ _ FP) as [H|[f [r [I G]]]]; [assumption|].
    destruct (is_file_exists e) eqn:X; [|reflexivity]. exfalso. apply NR. exists f, r, e. auto.
  - destruct (second_pass c bl w1 cwd1) as [[w2 cwd2] e2] eqn:SP. simpl. intros E; subst.
    eapply second_pass_ignore_no_exists; eassumption.
Qed.

Theorem status_zero_iff_no_error c plan cwd s :
  r_status (run c plan cwd s) = 0%Z <-> r_error (run c plan cwd s) = None.
Proof.
  unfold run.
  destruct (first_pass c plan (init_world s (c_answers c)) cwd []) as [[[w1 cwd1] bl] e1].
  destruct e1 as [e1|]; simpl.
  - split; [destruct e1; discriminate | discriminate].
  - destruct (second_pass c bl w1 cwd1) as [[w2 cwd2] [e2|]]; simpl; split; try reflexivity; try discriminate.
    destruct e2; discriminate.
Qed.
