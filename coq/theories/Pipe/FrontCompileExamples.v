(* A small concrete world for the non-vacuity examples of C09 (template texts).                   *)
(*   Core.Name  : %Name()        no argument, a context is refused (require_context = False here;  *)
(*                               the real Name tag takes an optional context: %Name()[{...}])      *)
(*   Text.Upper : %Upper{...}    no argument, a context is required                                *)
(*   Alias.Shout = %Upper{%Name()}      Alias.Loop = %Loop()  (refers to itself)                   *)
(* The two class tags are read from their --help lines by the reader of C13 ([row_of_line]).        *)
(* Model only - no proofs in this file.                                                            *)
From Tempren Require Import Base.Str Pipe.FrontCompile.
From Tempren Require Tpl.Registry Tpl.Signature.
From Tempren Require Py.PathLib FS.Model Pipe.Pipeline Pipe.Front.
Open Scope N_scope.

Definition s_Core : str := [67; 111; 114; 101].
Definition s_Text : str := [84; 101; 120; 116].
Definition s_Alias : str := [65; 108; 105; 97; 115].
Definition s_Shout : str := [83; 104; 111; 117; 116].
Definition s_Loop : str := [76; 111; 111; 112].

Definition line_Name : str := [37; 78; 97; 109; 101; 40; 41].                          (* %Name()     *)
Definition line_Upper : str := [37; 85; 112; 112; 101; 114; 123; 46; 46; 46; 125].      (* %Upper{...} *)

Definition t_good : str := [37; 85; 112; 112; 101; 114; 123; 37; 78; 97; 109; 101; 40; 41; 125].   (* %Upper{%Name()} *)
Definition t_loop : str := [37; 76; 111; 111; 112; 40; 41].                                         (* %Loop()         *)

Definition ex_rows : list row :=
  match row_of_line s_Core 0 line_Name, row_of_line s_Text 1 line_Upper with
  | Some a, Some b => [a; b; ((s_Alias, s_Shout, 2), KAlias t_good); ((s_Alias, s_Loop, 3), KAlias t_loop)]
  | _, _ => []
  end.

Definition ex_tagreg : tagreg :=
  match tagreg_of_rows 20 ex_rows with
  | Some r => r
  | None => mkTagreg [] [] 0
  end.

(* the texts a user may type *)
Definition t_unknown : str := [37; 78; 109; 101; 40; 41].                                           (* %Nme()          *)
Definition t_unknown_nested : str := [37; 85; 112; 112; 101; 114; 123; 37; 78; 109; 101; 40; 41; 125].  (* %Upper{%Nme()}  *)
Definition t_unknown_piped : str := [37; 78; 97; 109; 101; 40; 41; 124; 37; 85; 112; 101; 114; 40; 41]. (* %Name()|%Uper() *)
Definition t_ctx_missing : str := [37; 85; 112; 112; 101; 114; 40; 41].                             (* %Upper()        *)
Definition t_ctx_forbidden : str := [37; 78; 97; 109; 101; 40; 41; 123; 120; 125].                  (* %Name(){x}      *)
Definition t_open_paren : str := [37; 78; 97; 109; 101; 40].                                        (* %Name(          *)
Definition t_open_brace : str := [37; 85; 112; 112; 101; 114; 123; 37; 78; 97; 109; 101; 40; 41].   (* %Upper{%Name()  *)
Definition t_close_brace : str := [37; 78; 97; 109; 101; 40; 41; 125].                              (* %Name()}        *)
Definition t_bad_arg : str := [37; 78; 97; 109; 101; 40; 120; 61; 49; 41].                          (* %Name(x=1)      *)
Definition t_piped : str := [37; 78; 97; 109; 101; 40; 41; 124; 37; 85; 112; 112; 101; 114; 40; 41].    (* %Name()|%Upper() *)
Definition t_alias : str := [97; 37; 83; 104; 111; 117; 116; 40; 41].                               (* a%Shout()       *)
Definition t_alias_arg : str := [37; 83; 104; 111; 117; 116; 40; 49; 41].                           (* %Shout(1)       *)

(* a run: two files in directory "in", every name rendered to "x" *)
Definition ex_cfg (m : Pipeline.mode) : Pipeline.cfg :=
  {| Pipeline.c_mode := m; Pipeline.c_strategy := Pipeline.Stop; Pipeline.c_dry := false;
     Pipeline.c_answers := []; Pipeline.c_fault := None; Pipeline.c_var := Pipeline.fixed |}.
Definition ex_f1 : Pipeline.pfile := {| Pipeline.pf_dir := [[105; 110]]; Pipeline.pf_rel := PathLib.parse_path [97] |}.
Definition ex_f2 : Pipeline.pfile := {| Pipeline.pf_dir := [[105; 110]]; Pipeline.pf_rel := PathLib.parse_path [98] |}.
Definition ex_fs : Model.fs :=
  [([[105; 110]], Model.NDir); ([[105; 110]; [97]], Model.NFile 1); ([[105; 110]; [98]], Model.NFile 2)].
Definition ex_render : list Pipeline.pfile -> list (Pipeline.pfile * Pipeline.rendered) :=
  map (fun f => (f, Pipeline.RText [120])).

Definition ex_run (m : Pipeline.mode) (name_tpl : str) (filter_tpl sort_tpl : option str) : Pipeline.result :=
  Front.main_run (front_of ex_tagreg name_tpl filter_tpl sort_tpl (fun _ => Some true) (fun _ => true))
                 (ex_cfg m) [ex_f1] (fun l => l) ex_render [] ex_fs.
