(* C07 - proofs about Pipe/GatherTree.v against the declarative Pipe/GatherSpec.v *)
From Coq Require Import Permutation.
From Tempren Require Import Base.Str Pipe.GatherTree Pipe.GatherSpec.
Open Scope N_scope.

(* ---------- induction principle for the nested tree type -------------------------------- *)
Section TreeInd.
  Variable P : tree -> Prop.
  Hypothesis Hfile : P TFile.
  Hypothesis Hother : P TOther.
  Hypothesis Hdir : forall b ch, Forall (fun e : name * tree => P (snd e)) ch -> P (TDir b ch).

  Fixpoint tree_ind' (t : tree) : P t :=
    match t with
    | TFile => Hfile
    | TOther => Hother
    | TDir b ch =>
        Hdir b ch
          ((fix go (l : list (name * tree)) : Forall (fun e => P (snd e)) l :=
              match l with
              | [] => Forall_nil _
              | e :: l' => Forall_cons e (tree_ind' (snd e)) (go l')
              end) ch)
    end.
End TreeInd.

(* ---------- small facts ------------------------------------------------------------------ *)

Lemma at_path_nonempty ch r t : at_path ch r t -> r <> [].
Proof. destruct 1; discriminate. Qed.

Lemma at_path_single ch n t : at_path ch [n] t <-> In (n, t) ch.
Proof.
  split.
  - intro H. inversion H; subst; auto.
    exfalso. eapply at_path_nonempty; eauto.
  - apply at_here.
Qed.

Lemma visible_cons ih n r :
  passes_hidden_rule ih (n :: r) <-> visible ih n = true /\ passes_hidden_rule ih r.
Proof.
  unfold passes_hidden_rule, no_hidden_component, visible. split.
  - intros [H | H].
    + subst. simpl. auto.
    + inversion H; subst. rewrite H2. split; [apply orb_true_r | right; assumption].
  - intros [H1 [H2 | H2]].
    + left; assumption.
    + destruct ih; [left; reflexivity|]. right. simpl in H1.
      constructor; [destruct (hidden n); [discriminate | reflexivity] | assumption].
Qed.

Lemma passes_nil ih : passes_hidden_rule ih [].
Proof. right. constructor. Qed.

Lemma visible_single ih n : passes_hidden_rule ih [n] <-> visible ih n = true.
Proof.
  rewrite visible_cons. split; [tauto | intro; split; [assumption | apply passes_nil]].
Qed.

Lemma is_dir_TDir t : is_dir t = true <-> exists b ch, t = TDir b ch.
Proof.
  destruct t; simpl; split; try discriminate; try (intros (b & ch & E); discriminate).
  - intros _. eauto.
  - reflexivity.
Qed.

(* ---------- the three gatherers against [at_path] ---------------------------------------- *)

Lemma flat_files_spec ih ch r :
  In r (flat_files ih ch) <->
  exists n t, r = [n] /\ In (n, t) ch /\ is_dir t = false /\ visible ih n = true.
Proof.
  unfold flat_files. rewrite in_flat_map. split.
  - intros ([n t] & Hin & Hr). unfold flat_entry in Hr. simpl in Hr.
    destruct (visible ih n) eqn:V; simpl in Hr; [| contradiction].
    destruct (is_dir t) eqn:D; simpl in Hr; [contradiction |].
    destruct Hr as [<- | []]. exists n, t. auto.
  - intros (n & t & -> & Hin & D & V). exists (n, t). split; [assumption |].
    unfold flat_entry. simpl. rewrite V, D. simpl. auto.
Qed.

Lemma rec_files_sound ih : forall t b ch r, t = TDir b ch ->
  In r (rec_files ih t) ->
  exists u, at_path ch r u /\ is_dir u = false /\ passes_hidden_rule ih r.
Proof.
  intro t. induction t as [| | b0 ch0 IH] using tree_ind'; intros b ch r E; try discriminate.
  inversion E; subst b0 ch0; clear E. simpl. rewrite in_flat_map.
  intros ([n c] & Hin & Hr). simpl in Hr.
  destruct (visible ih n) eqn:V; [| contradiction].
  rewrite Forall_forall in IH. specialize (IH (n, c) Hin). simpl in IH.
  destruct c as [| | b' ch'].
  - destruct Hr as [<- | []]. exists TFile. repeat split.
    + apply at_here; assumption.
    + apply visible_single; assumption.
  - destruct Hr as [<- | []]. exists TOther. repeat split.
    + apply at_here; assumption.
    + apply visible_single; assumption.
  - apply in_map_iff in Hr as (r' & <- & Hr').
    destruct (IH b' ch' r' eq_refl Hr') as (u & Hp & Hd & Hv).
    exists u. repeat split.
    + eapply at_below; eauto.
    + assumption.
    + apply visible_cons; auto.
Qed.

Lemma rec_files_complete ih : forall ch r u,
  at_path ch r u -> is_dir u = false -> passes_hidden_rule ih r ->
  forall b, In r (rec_files ih (TDir b ch)).
Proof.
  induction 1 as [ch n t Hin | ch n b' ch' r t Hin Hp IH]; intros D V b; simpl; rewrite in_flat_map.
  - exists (n, t). split; [assumption |]. simpl.
    apply visible_single in V. rewrite V.
    destruct t; simpl in D; try discriminate; simpl; auto.
  - exists (n, TDir b' ch'). split; [assumption |].
    apply visible_cons in V as [V1 V2]. cbn [fst snd]. rewrite V1.
    apply in_map. apply IH; assumption.
Qed.

Lemma rec_files_spec ih b ch r :
  In r (rec_files ih (TDir b ch)) <->
  exists u, at_path ch r u /\ is_dir u = false /\ passes_hidden_rule ih r.
Proof.
  split.
  - apply (rec_files_sound ih (TDir b ch) b ch r eq_refl).
  - intros (u & Hp & D & V). eapply rec_files_complete; eauto.
Qed.

Lemma rec_dirs_sound ih : forall t b ch r, t = TDir b ch ->
  In r (rec_dirs ih t) ->
  exists u, at_path ch r u /\ is_dir u = true /\ passes_hidden_rule ih r.
Proof.
  intro t. induction t as [| | b0 ch0 IH] using tree_ind'; intros b ch r E; try discriminate.
  inversion E; subst b0 ch0; clear E. simpl. rewrite in_flat_map.
  intros ([n c] & Hin & Hr). simpl in Hr.
  destruct (visible ih n) eqn:V; [| contradiction].
  rewrite Forall_forall in IH. specialize (IH (n, c) Hin). simpl in IH.
  destruct c as [| | b' ch']; try contradiction.
  destruct Hr as [<- | Hr].
  - exists (TDir b' ch'). repeat split.
    + apply at_here; assumption.
    + apply visible_single; assumption.
  - apply in_map_iff in Hr as (r' & <- & Hr').
    destruct (IH b' ch' r' eq_refl Hr') as (u & Hp & Hd & Hv).
    exists u. repeat split.
    + eapply at_below; eauto.
    + assumption.
    + apply visible_cons; auto.
Qed.

Lemma rec_dirs_complete ih : forall ch r u,
  at_path ch r u -> is_dir u = true -> passes_hidden_rule ih r ->
  forall b, In r (rec_dirs ih (TDir b ch)).
Proof.
  induction 1 as [ch n t Hin | ch n b' ch' r t Hin Hp IH]; intros D V b; simpl; rewrite in_flat_map.
  - exists (n, t). split; [assumption |]. simpl.
    apply visible_single in V. rewrite V.
    destruct t; simpl in D; try discriminate. left; reflexivity.
  - exists (n, TDir b' ch'). split; [assumption |].
    apply visible_cons in V as [V1 V2]. cbn [fst snd]. rewrite V1.
    right. apply in_map. apply IH; assumption.
Qed.

Lemma rec_dirs_spec ih b ch r :
  In r (rec_dirs ih (TDir b ch)) <->
  exists u, at_path ch r u /\ is_dir u = true /\ passes_hidden_rule ih r.
Proof.
  split.
  - apply (rec_dirs_sound ih (TDir b ch) b ch r eq_refl).
  - intros (u & Hp & D & V). eapply rec_dirs_complete; eauto.
Qed.

(* ---------- one input: gathered iff designated -------------------------------------------- *)

Lemma NoDup_app' {A} (l1 l2 : list A) :
  NoDup l1 -> NoDup l2 -> (forall x, In x l1 -> In x l2 -> False) -> NoDup (l1 ++ l2).
Proof.
  induction l1 as [| a l1 IH]; simpl; intros H1 H2 H; [assumption |].
  inversion H1; subst. constructor.
  - rewrite in_app_iff. intros [? | ?]; [contradiction | eapply H; eauto].
  - apply IH; auto. intros x Hx1 Hx2. eapply H; eauto.
Qed.

Lemma NoDup_map_inj {A B} (f : A -> B) l :
  (forall x y, f x = f y -> x = y) -> NoDup l -> NoDup (map f l).
Proof.
  intros Hinj. induction 1 as [| a l Hn Hd IH]; simpl; constructor; [| assumption].
  rewrite in_map_iff. intros (y & E & Hy). apply Hinj in E. subst. contradiction.
Qed.

(* the lists produced for different entries of one directory start with different names *)
Lemma NoDup_flat_map_heads (g : name * tree -> list (list name)) ch :
  NoDup (map fst ch) ->
  (forall e, In e ch -> NoDup (g e)) ->
  (forall e r, In e ch -> In r (g e) -> exists r', r = fst e :: r') ->
  NoDup (flat_map g ch).
Proof.
  induction ch as [| e ch IH]; simpl; intros Hn Hg Hh; [constructor |].
  inversion Hn; subst. apply NoDup_app'.
  - apply Hg; auto.
  - apply IH; auto.
  - intros r Hr1 Hr2. apply in_flat_map in Hr2 as (e' & He' & Hr2).
    destruct (Hh e r (or_introl eq_refl) Hr1) as (r1 & E1).
    destruct (Hh e' r (or_intror He') Hr2) as (r2 & E2).
    rewrite E1 in E2. inversion E2. apply H1. rewrite H0. apply in_map; assumption.
Qed.

Lemma flat_files_NoDup ih ch : NoDup (map fst ch) -> NoDup (flat_files ih ch).
Proof.
  intro H. apply NoDup_flat_map_heads; auto.
  - intros e _. unfold flat_entry. destruct (_ && _); repeat constructor. intros [].
  - intros e r _. unfold flat_entry. destruct (_ && _); [| intros []].
    intros [<- | []]. eauto.
Qed.

Lemma rec_files_NoDup ih t : wf_tree t -> NoDup (rec_files ih t).
Proof.
  induction t as [| | b ch IH] using tree_ind'; intro W; simpl; try constructor.
  inversion W; subst. rewrite Forall_forall in IH.
  apply NoDup_flat_map_heads; auto.
  - intros e He. destruct (visible ih (fst e)); [| constructor].
    specialize (IH e He (H2 e He)).
    destruct (snd e); try (repeat constructor; intros []).
    apply NoDup_map_inj; [intros x y E; inversion E; reflexivity | assumption].
  - intros e r He. destruct (visible ih (fst e)); [| intros []].
    destruct (snd e).
    + intros [<- | []]; eauto.
    + intros [<- | []]; eauto.
    + rewrite in_map_iff. intros (r' & <- & _). eauto.
Qed.

Lemma rec_dirs_NoDup ih t : wf_tree t -> NoDup (rec_dirs ih t).
Proof.
  induction t as [| | b ch IH] using tree_ind'; intro W; simpl; try constructor.
  inversion W; subst. rewrite Forall_forall in IH.
  apply NoDup_flat_map_heads; auto.
  - intros e He. destruct (visible ih (fst e)); [| constructor].
    specialize (IH e He (H2 e He)).
    destruct (snd e); try constructor.
    + rewrite in_map_iff. intros (r' & E & Hr'). inversion E; subst r'.
      apply rec_dirs_spec in Hr' as (u & Hp & _). eapply at_path_nonempty; eauto.
    + apply NoDup_map_inj; [intros x y E; inversion E; reflexivity | assumption].
  - intros e r He. destruct (visible ih (fst e)); [| intros []].
    destruct (snd e); [intros [] | intros [] |].
    intros [<- | Hr]; [eauto |].
    apply in_map_iff in Hr as (r' & <- & _). eauto.
Qed.

Local Arguments rec_files : simpl never.
Local Arguments rec_dirs : simpl never.

Definition gather1 (c : cfg) (i : input) : list gfile := dir_part c i ++ file_part c i.

Lemma in_under d rels f : In f (under d rels) <-> exists r, f = (d, r) /\ In r rels.
Proof.
  unfold under. rewrite in_map_iff. split; intros (r & A & B); exists r; auto.
Qed.

Lemma gather1_spec c i f : In f (gather1 c i) <-> designates c i f.
Proof.
  unfold gather1. rewrite in_app_iff.
  destruct c as [m rc ih]. destruct i as [self parent nm ch | parent nm |]; simpl.
  - (* input directory *)
    assert (R : forall P, (P \/ False) <-> P) by tauto. rewrite R. clear R.
    destruct m; destruct rc; simpl.
    + (* name, recursive *)
      rewrite in_under. split.
      * intros (r & -> & Hr). apply rec_files_spec in Hr as (u & Hp & D & V).
        exists r, u. unfold depth_ok; simpl. repeat split; auto.
      * intros (r & u & -> & Hp & D & _ & V). exists r. split; [reflexivity |].
        apply rec_files_spec. eauto.
    + (* name, flat *)
      rewrite in_under. split.
      * intros (r & -> & Hr). apply flat_files_spec in Hr as (n & t & -> & Hin & D & V).
        exists [n], t. repeat split; auto.
        -- apply at_here; assumption.
        -- right; reflexivity.
        -- apply visible_single; assumption.
      * intros (r & u & -> & Hp & D & [Hd | Hd] & V); [discriminate |].
        destruct r as [| n [| ? ?]]; try discriminate.
        exists [n]. split; [reflexivity |]. apply flat_files_spec.
        exists n, u. repeat split; auto.
        -- apply at_path_single; assumption.
        -- apply visible_single; assumption.
    + (* path, recursive *)
      rewrite in_under. split.
      * intros (r & -> & Hr). apply rec_files_spec in Hr as (u & Hp & D & V).
        exists r, u. unfold depth_ok; simpl. repeat split; auto.
      * intros (r & u & -> & Hp & D & _ & V). exists r. split; [reflexivity |].
        apply rec_files_spec. eauto.
    + (* path, flat *)
      rewrite in_under. split.
      * intros (r & -> & Hr). apply flat_files_spec in Hr as (n & t & -> & Hin & D & V).
        exists [n], t. repeat split; auto.
        -- apply at_here; assumption.
        -- right; reflexivity.
        -- apply visible_single; assumption.
      * intros (r & u & -> & Hp & D & [Hd | Hd] & V); [discriminate |].
        destruct r as [| n [| ? ?]]; try discriminate.
        exists [n]. split; [reflexivity |]. apply flat_files_spec.
        exists n, u. repeat split; auto.
        -- apply at_path_single; assumption.
        -- apply visible_single; assumption.
    + (* directory, recursive *)
      rewrite in_under. split.
      * intros (r & -> & Hr). apply rec_dirs_spec in Hr as (u & Hp & D & V).
        exists r, u. unfold depth_ok; simpl. repeat split; auto.
      * intros (r & u & -> & Hp & D & _ & V). exists r. split; [reflexivity |].
        apply rec_dirs_spec. eauto.
    + (* directory, not recursive: the input directory itself *)
      split; [intros [<- | []]; reflexivity | intros ->; left; reflexivity].
  - (* explicit file *)
    destruct m; simpl; split.
    + intros [[] | [<- | []]]. split; [discriminate | reflexivity].
    + intros [_ ->]. right; left; reflexivity.
    + intros [[] | [<- | []]]. split; [discriminate | reflexivity].
    + intros [_ ->]. right; left; reflexivity.
    + intros [[] | []].
    + intros [H _]. exfalso; apply H; reflexivity.
  - tauto.
Qed.

Lemma gather_in_gather1 c inputs f :
  In f (gather c inputs) <-> exists i, In i inputs /\ In f (gather1 c i).
Proof.
  unfold gather, gather1. rewrite in_app_iff, !in_flat_map. split.
  - intros [(i & Hi & Hf) | (i & Hi & Hf)]; exists i; rewrite in_app_iff; auto.
  - intros (i & Hi & Hf). rewrite in_app_iff in Hf. destruct Hf; [left | right]; eauto.
Qed.

Theorem gather_sound_complete c inputs f :
  In f (gather c inputs) <-> designated c inputs f.
Proof.
  rewrite gather_in_gather1. unfold designated.
  split; intros (i & Hi & Hf); exists i; (split; [assumption |]); apply gather1_spec; assumption.
Qed.

(* ---------- once per designation ---------------------------------------------------------- *)

Definition gfile_eq_dec : forall a b : gfile, {a = b} + {a <> b}.
Proof.
  intros. decide equality; apply (list_eq_dec (list_eq_dec N.eq_dec)).
Defined.

Lemma under_NoDup d rels : NoDup rels -> NoDup (under d rels).
Proof. apply NoDup_map_inj. intros x y E; inversion E; reflexivity. Qed.

Lemma gather1_NoDup c i : wf_input i -> NoDup (gather1 c i).
Proof.
  unfold gather1. destruct c as [m rc ih]. destruct i as [self parent nm ch | parent nm |]; simpl; intro W.
  - rewrite app_nil_r.
    destruct m; destruct rc; simpl;
      try (apply under_NoDup; first [apply (rec_files_NoDup ih _ W) | apply (rec_dirs_NoDup ih _ W)
                                    | apply flat_files_NoDup; inversion W; assumption]).
    repeat constructor. intros [].
  - destruct m; simpl; repeat constructor; intros [].
  - constructor.
Qed.

Lemma count_occ_gather c inputs f :
  count_occ gfile_eq_dec (gather c inputs) f =
  count_occ gfile_eq_dec (flat_map (gather1 c) inputs) f.
Proof.
  unfold gather, gather1. induction inputs as [| i l IH]; [reflexivity |].
  cbn [flat_map]. rewrite !count_occ_app in *. lia.
Qed.

Lemma count_occ_NoDup_01 (l : list gfile) f :
  NoDup l -> (In f l -> count_occ gfile_eq_dec l f = 1%nat) /\
             (~ In f l -> count_occ gfile_eq_dec l f = 0%nat).
Proof.
  intro H. split.
  - intro Hin. pose proof (proj1 (NoDup_count_occ gfile_eq_dec l) H f).
    pose proof (proj1 (count_occ_In gfile_eq_dec l f) Hin). lia.
  - intro Hn. apply count_occ_not_In; assumption.
Qed.

Theorem gather_once_per_designation c inputs f :
  Forall wf_input inputs ->
  n_designating c f inputs (count_occ gfile_eq_dec (gather c inputs) f).
Proof.
  rewrite count_occ_gather. induction 1 as [| i l Wi Wl IH]; simpl; [constructor |].
  rewrite count_occ_app.
  destruct (count_occ_NoDup_01 (gather1 c i) f (gather1_NoDup c i Wi)) as [H1 H0].
  destruct (in_dec gfile_eq_dec f (gather1 c i)) as [Hin | Hn].
  - rewrite (H1 Hin). simpl. apply nd_yes; [apply gather1_spec; assumption | assumption].
  - rewrite (H0 Hn). simpl. apply nd_no; [rewrite <- gather1_spec; assumption | assumption].
Qed.

(* the count is a function of the inputs: [n_designating] determines its number *)
Lemma n_designating_unique c f l : forall k1 k2,
  n_designating c f l k1 -> n_designating c f l k2 -> k1 = k2.
Proof.
  induction l as [| i l IH]; intros k1 k2 H1 H2; inversion H1; inversion H2; subst;
    try reflexivity; try contradiction.
  - f_equal. eapply IH; eauto.
  - eapply IH; eauto.
Qed.

(* the boolean checker used by the correspondence implies the propositional well-formedness *)
Lemma nodup_names_NoDup l : nodup_names l = true -> NoDup l.
Proof.
  induction l as [| n l IH]; simpl; intro H; [constructor |].
  apply andb_true_iff in H as [H1 H2]. constructor; [| auto].
  intro Hin. apply negb_true_iff in H1.
  assert (existsb (name_eqb n) l = true); [| congruence].
  apply existsb_exists. exists n. split; [assumption | apply str_eqb_refl].
Qed.

Lemma wf_treeb_wf t : wf_treeb t = true -> wf_tree t.
Proof.
  induction t as [| | b ch IH] using tree_ind'; intro H; try constructor.
  - simpl in H. apply andb_true_iff in H as [H _]. apply andb_true_iff in H as [H _].
    apply nodup_names_NoDup; assumption.
  - simpl in H. apply andb_true_iff in H as [_ H].
    rewrite forallb_forall in H. rewrite Forall_forall in IH.
    intros e He. apply IH; auto.
Qed.

Lemma wf_inputb_wf i : wf_inputb i = true -> wf_input i.
Proof. destruct i; [| simpl; auto ..]. exact (wf_treeb_wf (TDir false ch)). Qed.

(* ---------- filters and inversion ---------------------------------------------------------- *)

Lemma filter_partition_perm {A} (p : A -> bool) l :
  Permutation (filter p l ++ filter (fun x => negb (p x)) l) l.
Proof.
  induction l as [| a l IH]; simpl; [constructor |].
  destruct (p a); simpl.
  - constructor; assumption.
  - eapply Permutation_trans; [apply Permutation_sym, Permutation_middle |].
    constructor; assumption.
Qed.

Lemma select_invert m fs l :
  fs <> FNone ->
  select m fs true l = filter (fun f => negb (base_pred m fs f)) l /\
  select m fs false l = filter (base_pred m fs) l.
Proof.
  intro H. unfold select. split; apply filter_ext; intro f; destruct fs; try reflexivity; contradiction.
Qed.

Lemma select_no_filter m inv l : select m FNone inv l = l.
Proof.
  unfold select. simpl. induction l; simpl; congruence.
Qed.

Theorem invert_complement m fs l :
  fs <> FNone ->
  Permutation (select m fs false l ++ select m fs true l) l /\
  (forall f, In f (select m fs true l) <-> In f l /\ ~ In f (select m fs false l)) /\
  (forall f, (count_occ gfile_eq_dec (select m fs false l) f +
              count_occ gfile_eq_dec (select m fs true l) f)%nat = count_occ gfile_eq_dec l f).
Proof.
  intro H. destruct (select_invert m fs l H) as [E1 E2]. rewrite E1, E2. repeat split.
  - apply filter_partition_perm.
  - rewrite filter_In in H0. tauto.
  - rewrite filter_In in H0. rewrite filter_In. intros [_ Hp].
    destruct H0 as [_ Hn]. rewrite Hp in Hn. discriminate.
  - intros [Hin Hn]. rewrite filter_In. split; [assumption |].
    destruct (base_pred m fs f) eqn:E; [| reflexivity].
    exfalso. apply Hn. rewrite filter_In. auto.
  - intro f. rewrite <- count_occ_app.
    apply Permutation_count_occ. apply filter_partition_perm.
Qed.

Theorem filter_subject_name_dir m tbl d1 r1 d2 r2 :
  m <> MPath -> last r1 [] = last r2 [] ->
  base_pred m (FStr tbl) (d1, r1) = base_pred m (FStr tbl) (d2, r2).
Proof.
  intros Hm E. destruct m; [| exfalso; apply Hm; reflexivity |];
    unfold base_pred, subject; cbn [snd]; f_equal; exact E.
Qed.

Theorem filter_subject c tbl f :
  base_pred (c_mode c) (FStr tbl) f =
  mem_str (match c_mode c with MPath => join_slash (snd f) | _ => last (snd f) [] end) tbl.
Proof. destruct c as [[] ? ?]; reflexivity. Qed.

Lemma mem_str_In s tbl : mem_str s tbl = true <-> In s tbl.
Proof.
  unfold mem_str. rewrite existsb_exists. split.
  - intros (x & Hx & E). apply str_eqb_spec in E. subst; assumption.
  - intro H. exists s. split; [assumption | apply str_eqb_refl].
Qed.

Lemma names_eqb_spec a b : names_eqb a b = true <-> a = b.
Proof. apply list_eqb_spec. apply str_eqb_spec. Qed.

Lemma gfile_eqb_spec a b : gfile_eqb a b = true <-> a = b.
Proof.
  destruct a, b. unfold gfile_eqb. simpl. rewrite andb_true_iff, !names_eqb_spec.
  split; [intros [-> ->]; reflexivity | intro E; inversion E; auto].
Qed.

Lemma mem_gfile_In f tbl : mem_gfile f tbl = true <-> In f tbl.
Proof.
  unfold mem_gfile. rewrite existsb_exists. split.
  - intros (x & Hx & E). apply gfile_eqb_spec in E. subst; assumption.
  - intro H. exists f. split; [assumption | apply gfile_eqb_spec; reflexivity].
Qed.

(* ---------- everything together: what is "considered" -------------------------------------- *)

Theorem considered_exactly c fs inv inputs f :
  In f (considered c fs inv inputs) <->
  designated c inputs f /\ effective_pred (c_mode c) fs inv f = true.
Proof.
  unfold considered, select. rewrite filter_In, gather_sound_complete. tauto.
Qed.

Lemma count_occ_filter (p : gfile -> bool) l f :
  count_occ gfile_eq_dec (filter p l) f = if p f then count_occ gfile_eq_dec l f else 0%nat.
Proof.
  induction l as [| a l IH]; simpl; [destruct (p f); reflexivity |].
  destruct (p a) eqn:Ea; simpl; destruct (gfile_eq_dec a f) as [-> | N]; rewrite IH;
    try rewrite Ea; reflexivity.
Qed.

Theorem considered_once_per_designation c fs inv inputs f :
  Forall wf_input inputs ->
  effective_pred (c_mode c) fs inv f = true ->
  n_designating c f inputs (count_occ gfile_eq_dec (considered c fs inv inputs) f).
Proof.
  intros W E. unfold considered, select. rewrite count_occ_filter, E.
  apply gather_once_per_designation; assumption.
Qed.

Theorem rejected_never_considered c fs inv inputs f :
  effective_pred (c_mode c) fs inv f = false -> ~ In f (considered c fs inv inputs).
Proof.
  intros E H. apply considered_exactly in H as [_ H]. congruence.
Qed.

(* ---------- corollaries of the declarative reading ----------------------------------------- *)

Lemma NoDup_fst_functional (ch : list (name * tree)) n t1 t2 :
  NoDup (map fst ch) -> In (n, t1) ch -> In (n, t2) ch -> t1 = t2.
Proof.
  induction ch as [| [m u] ch IH]; simpl; intros H H1 H2; [contradiction |].
  inversion H as [| x l Hnotin Hnd]; subst.
  destruct H1 as [E1 | H1]; destruct H2 as [E2 | H2].
  - congruence.
  - inversion E1; subst. exfalso. apply Hnotin. change n with (fst (n, t2)). apply in_map; assumption.
  - inversion E2; subst. exfalso. apply Hnotin. change n with (fst (n, t1)). apply in_map; assumption.
  - apply IH; assumption.
Qed.

(* in a well-formed tree a relative path names at most one entry *)
Lemma at_path_functional : forall ch r t1, at_path ch r t1 ->
  forall b t2, wf_tree (TDir b ch) -> at_path ch r t2 -> t1 = t2.
Proof.
  induction 1 as [ch n t Hin | ch n b' ch' r t Hin Hp IH]; intros b t2 W H2;
    inversion W as [| | bw chw Hnd Hsub]; subst.
  - inversion H2; subst.
    + eapply NoDup_fst_functional; eauto.
    + exfalso. eapply at_path_nonempty; eauto.
  - inversion H2 as [| ch2 n2 b2 ch2' r2 t2' Hin2 Hp2]; subst.
    + exfalso. apply (at_path_nonempty _ _ _ Hp). reflexivity.
    + assert (E : TDir b' ch' = TDir b2 ch2') by (eapply NoDup_fst_functional; eauto).
      inversion E; subst. eapply (IH b2); [| assumption].
      apply (Hsub (n, TDir b2 ch2')). assumption.
Qed.

(* no entry is designated both as a file (name/path mode) and as a directory (directory mode, *)
(* recursive) by the same input                                                               *)
Theorem files_and_directories_disjoint c1 c2 i f :
  wf_input i ->
  c_mode c1 = MDir -> c_recursive c1 = true -> c_mode c2 <> MDir ->
  designates c1 i f -> designates c2 i f -> False.
Proof.
  destruct c1 as [m1 r1 h1], c2 as [m2 r2 h2]. simpl. intros W -> -> Hm D1 D2.
  destruct i as [self parent nm ch | parent nm |]; simpl in *.
  - destruct D1 as (ra & ta & -> & Pa & Ka & _).
    assert (D2' : exists r t, (self, ra) = (self, r) /\ at_path ch r t /\ is_dir t = false).
    { destruct m2; [| | contradiction]; destruct r2;
        destruct D2 as (r & t & E & P & K & _); exists r, t; auto. }
    destruct D2' as (r & t & E & P & K). inversion E; subst r.
    simpl in Ka. rewrite (at_path_functional ch ra ta Pa false t W P) in Ka. congruence.
  - destruct D1 as [D1 _]. apply D1; reflexivity.
  - assumption.
Qed.

Theorem designates_include_hidden_monotone m rc i f :
  designates {| c_mode := m; c_recursive := rc; c_include_hidden := false |} i f ->
  designates {| c_mode := m; c_recursive := rc; c_include_hidden := true |} i f.
Proof.
  destruct i as [self parent nm ch | parent nm |]; simpl; auto.
  destruct m; destruct rc; auto;
    intros (r & t & E & P & K & Dp & _); exists r, t; repeat split; auto; left; reflexivity.
Qed.

Theorem designates_recursive_extends m ih i f :
  m <> MDir ->
  designates {| c_mode := m; c_recursive := false; c_include_hidden := ih |} i f ->
  designates {| c_mode := m; c_recursive := true; c_include_hidden := ih |} i f.
Proof.
  intro Hm. destruct i as [self parent nm ch | parent nm |]; simpl; auto.
  destruct m; [| | contradiction];
    intros (r & t & E & P & K & _ & V); exists r, t; repeat split; auto; left; reflexivity.
Qed.

Theorem gather_include_hidden_monotone m rc inputs f :
  In f (gather {| c_mode := m; c_recursive := rc; c_include_hidden := false |} inputs) ->
  In f (gather {| c_mode := m; c_recursive := rc; c_include_hidden := true |} inputs).
Proof.
  rewrite !gather_sound_complete. intros (i & Hi & D). exists i. split; [assumption |].
  apply designates_include_hidden_monotone; assumption.
Qed.

Theorem gather_recursive_extends m ih inputs f :
  m <> MDir ->
  In f (gather {| c_mode := m; c_recursive := false; c_include_hidden := ih |} inputs) ->
  In f (gather {| c_mode := m; c_recursive := true; c_include_hidden := ih |} inputs).
Proof.
  intro Hm. rewrite !gather_sound_complete. intros (i & Hi & D). exists i. split; [assumption |].
  apply designates_recursive_extends; assumption.
Qed.

(* name mode and path mode gather the same entries (they differ in the filter subject only) *)
Theorem gather_name_path_same rc ih inputs :
  gather {| c_mode := MName; c_recursive := rc; c_include_hidden := ih |} inputs =
  gather {| c_mode := MPath; c_recursive := rc; c_include_hidden := ih |} inputs.
Proof.
  unfold gather. f_equal; apply flat_map_ext; intros [? ? ? ? | ? ? |]; reflexivity.
Qed.
