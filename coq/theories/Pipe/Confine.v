(* C06: refusal comes before anything is touched; name/directory mode never leaves the directory;   *)
(* invalid names are refused; containment is decided on the resolved path, component-wise.          *)
From Tempren Require Import Base.Str Py.PathLib Py.PathLibProofs FS.Model FS.Lemmas Pipe.Pipeline.
Open Scope N_scope.

(* a file whose generated destination resolves outside its input directory ends the run with
   InvalidDestinationError (status 1) and the world exactly as it was when that file came up *)
Theorem refused_before_touch c f r rest w cwd bl cwd1 np :
  chdir (w_fs w) (pf_dir f) = Some cwd1 ->
  generate (c_mode c) f r = inl np -> ppath_eqb np (pf_rel f) = false ->
  contained (c_var c) (w_fs w) f np = Some false ->
  first_pass c ((f, r) :: rest) w cwd bl = (w, cwd1, bl, Some ExInvalidDest).
Proof. intros H1 H2 H3 H4. simpl. rewrite H1, H2, H3, H4. reflexivity. Qed.

Theorem refused_when_new_directories_escape c f r rest w cwd bl cwd1 np :
  chdir (w_fs w) (pf_dir f) = Some cwd1 ->
  generate (c_mode c) f r = inl np -> ppath_eqb np (pf_rel f) = false ->
  contained (c_var c) (w_fs w) f np = Some true ->
  dest_parent_test (c_var c) (w_fs w) f np = Some true ->
  parents_contained (w_fs w) f np = Some false ->
  first_pass c ((f, r) :: rest) w cwd bl = (w, cwd1, bl, Some ExInvalidDest).
Proof. intros H1 H2 H3 H4 H4' H5. simpl. rewrite H1, H2, H3, H4, H4', H5. reflexivity. Qed.

(* a destination whose own directory (the generated path without its last component, resolved) lies
   outside the input directory is refused the same way, even when the destination itself resolves
   inside: its last component is then a symbolic link pointing inwards, which a rename would replace,
   not follow (F34) *)
Theorem refused_when_destination_directory_outside c f r rest w cwd bl cwd1 np :
  chdir (w_fs w) (pf_dir f) = Some cwd1 ->
  generate (c_mode c) f r = inl np -> ppath_eqb np (pf_rel f) = false ->
  contained (c_var c) (w_fs w) f np = Some true ->
  v_dest_parent_containment (c_var c) = true ->
  dest_parent_contained (w_fs w) f np = Some false ->
  first_pass c ((f, r) :: rest) w cwd bl = (w, cwd1, bl, Some ExInvalidDest).
Proof.
  intros H1 H2 H3 H4 Hv H5. simpl. unfold dest_parent_test. rewrite H1, H2, H3, H4, Hv, H5. reflexivity.
Qed.

(* a file that really lives outside its input directory (reached through a symbolic link to a directory
   that leaves it) is refused the same way, whatever its destination: nothing outside is removed *)
Theorem refused_when_source_outside c f r rest w cwd bl cwd1 np :
  chdir (w_fs w) (pf_dir f) = Some cwd1 ->
  generate (c_mode c) f r = inl np -> ppath_eqb np (pf_rel f) = false ->
  contained (c_var c) (w_fs w) f np = Some true ->
  dest_parent_test (c_var c) (w_fs w) f np = Some true ->
  parents_contained (w_fs w) f np = Some true ->
  source_contained (w_fs w) f = Some false ->
  first_pass c ((f, r) :: rest) w cwd bl = (w, cwd1, bl, Some ExInvalidDest).
Proof. intros H1 H2 H3 H4 H4' H5 H6. simpl. rewrite H1, H2, H3, H4, H4', H5, H6. reflexivity. Qed.

Theorem invalid_dest_is_status_1 : status_of ExInvalidDest = 1%Z.
Proof. reflexivity. Qed.

(* the renamer is reached only after all four containment tests said yes; in every other case the run
   ends (or the file is skipped) with the world as it was *)
Theorem renamer_reached_only_inside c f r rest w cwd bl np cwd1 :
  chdir (w_fs w) (pf_dir f) = Some cwd1 ->
  generate (c_mode c) f r = inl np -> ppath_eqb np (pf_rel f) = false ->
  (contained (c_var c) (w_fs w) f np = Some true /\ dest_parent_test (c_var c) (w_fs w) f np = Some true /\
   parents_contained (w_fs w) f np = Some true /\ source_contained (w_fs w) f = Some true) \/
  (exists e, first_pass c ((f, r) :: rest) w cwd bl = (w, cwd1, bl, Some e)).
Proof.
  intros H1 H2 H3. cbn [first_pass]. rewrite H1, H2, H3.
  destruct (contained (c_var c) (w_fs w) f np) as [[|]|].
  - destruct (dest_parent_test (c_var c) (w_fs w) f np) as [[|]|].
    + destruct (parents_contained (w_fs w) f np) as [[|]|].
      * destruct (source_contained (w_fs w) f) as [[|]|].
        -- left. repeat split; reflexivity.
        -- right. eexists. reflexivity.
        -- right. eexists. reflexivity.
      * right. eexists. reflexivity.
      * right. eexists. reflexivity.
    + right. eexists. reflexivity.
    + right. eexists. reflexivity.
  - right. eexists. reflexivity.
  - right. eexists. reflexivity.
Qed.

Definition dest_target (f : pfile) (np : ppath) : upath :=
  {| up_abs := true; up_comps := if Nat.eqb (pp_root np) 0 then pf_dir f ++ pp_parts np else pp_parts np |}.

(* what "contained" means for the current code: the destination, resolved like Path.resolve() does
   (symbolic links followed, ".." applied), lies at or below the input directory, component by component *)
Theorem contained_spec s f np :
  contained fixed s f np = Some true <->
  exists a, realpath s [] (dest_target f np) = Some a /\ exists r, a = pf_dir f ++ r.
Proof.
  unfold contained, dest_target. cbn [fixed v_component_containment].
  generalize (realpath s [] {| up_abs := true; up_comps := if Nat.eqb (pp_root np) 0 then pf_dir f ++ pp_parts np else pp_parts np |}).
  intros o. destruct o as [a|].
  - split.
    + intros H. exists a. split; [reflexivity|]. apply is_prefix_path_spec. destruct (is_prefix_path (pf_dir f) a); [reflexivity | discriminate].
    + intros [a' [E [r R]]]. injection E as E'. rewrite <- E' in R. f_equal. apply is_prefix_path_spec. exists r. exact R.
  - split; [discriminate | intros [a' [E _]]; discriminate].
Qed.

(* name and directory mode: FileRenamer issues a rename only between paths with the same parent *)
Theorem name_mode_same_parent v flt w cwd src dst o w' e :
  file_renamer v flt w cwd src dst o = (w', e) -> w_n w' <> w_n w ->
  pp_parent src = pp_parent dst.
Proof.
  unfold file_renamer.
  destruct (negb o && guard_exists v (w_fs w) cwd (to_upath dst)); [intros E; inversion E; subst; congruence|].
  destruct (ppath_eqb (pp_parent src) (pp_parent dst)) eqn:P; simpl.
  - intros _ _. apply ppath_eqb_spec. assumption.
  - intros E; inversion E; subst; congruence.
Qed.

(* the name generator keeps the parent and refuses empty names, "." and names with a separator *)
Theorem name_generator_keeps_parent m f t np :
  m <> MPath -> generate m f (RText t) = inl np -> pp_parent np = pp_parent (pf_rel f) /\ pp_name np = t.
Proof.
  intros Hm. unfold generate. destruct m; try congruence;
    (destruct (pp_with_name (pf_rel f) t) eqn:W; [|discriminate]; intros E; inversion E; subst; apply with_name_same_parent; assumption).
Qed.

Theorem bad_name_refused m f t :
  m <> MPath -> (t = [] \/ t = [dot] \/ has_slash t = true) -> generate m f (RText t) = inr ExInvalidDest.
Proof.
  intros Hm H. assert (W : pp_with_name (pf_rel f) t = None) by (apply with_name_refuses; right; assumption).
  unfold generate. destruct m; try congruence; rewrite W; reflexivity.
Qed.

Theorem absolute_name_refused m f t : m <> MPath -> generate m f (RAbs t) = inr ExInvalidDest.
Proof. intros Hm. destruct m; try congruence; reflexivity. Qed.

(* a sibling whose name merely extends the input directory's name is outside (component-wise test),
   while the string-prefix test of the code before the fix let it pass *)
Theorem component_wise_rejects_lookalike (d : rpath) (x sfx : name) (rest : rpath) :
  sfx <> [] -> is_prefix_path (d ++ [x]) (d ++ (x ++ sfx) :: rest) = false.
Proof.
  intros Hs. induction d as [|y d IH]; simpl.
  - assert (name_eqb x (x ++ sfx) = false).
    { destruct (name_eqb x (x ++ sfx)) eqn:E; [|reflexivity]. apply name_eqb_eq in E.
      rewrite <- (app_nil_r x) in E at 1. apply app_inv_head in E. congruence. }
    rewrite H. reflexivity.
  - rewrite IH. apply andb_false_r.
Qed.

Lemma is_prefix_str_app (x sfx : str) : is_prefix_str x (x ++ sfx) = true.
Proof. induction x as [|c x IH]; simpl; [reflexivity|]. rewrite N.eqb_refl. assumption. Qed.

Lemma str_prefix_cons y (l p : rpath) :
  l <> [] -> str_prefix_path (y :: l) (y :: p) = str_prefix_path l p.
Proof.
  intros H. destruct l as [|z l]; [congruence|]. cbn [str_prefix_path].
  assert (E : name_eqb y y = true) by (apply name_eqb_eq; reflexivity). rewrite E. reflexivity.
Qed.

Theorem string_prefix_accepts_lookalike (d : rpath) (x sfx : name) (rest : rpath) :
  str_prefix_path (d ++ [x]) (d ++ (x ++ sfx) :: rest) = true.
Proof.
  induction d as [|y d IH].
  - cbn. apply is_prefix_str_app.
  - change ((y :: d) ++ [x]) with (y :: (d ++ [x])). change ((y :: d) ++ (x ++ sfx) :: rest) with (y :: (d ++ (x ++ sfx) :: rest)).
    rewrite str_prefix_cons; [exact IH | destruct d; discriminate].
Qed.
