(* C07 - which entries are considered: the gatherers of tempren/filesystem.py, the gatherer  *)
(* and filter choice of tempren/pipeline.py:build_pipeline, the filters and the inverter of *)
(* tempren/file_filters.py, over a small tree model "as the gatherers see it".              *)
(* Model only: no proofs in this file (see Pipe/GatherTreeProofs.v).                        *)
From Tempren Require Import Base.Str.
Open Scope N_scope.

(* ---------- the tree as the gatherers see it ------------------------------------------- *)

Definition name := list N.                 (* one path component *)
Definition dkey := list name.              (* a resolved absolute directory, as components *)

(* [TDir via_link children]: something for which [Path.is_dir()] is true, i.e. a directory  *)
(* or (via_link = true) a symbolic link whose target is a directory; the children are what  *)
(* [iterdir()] / [glob('*')] list through it.  [TFile]: regular file or link to one.        *)
(* [TOther]: dangling link, fifo, socket ... - exists in the listing, [is_dir()] is false.  *)
Inductive tree :=
| TFile
| TOther
| TDir (via_link : bool) (children : list (name * tree)).

Definition is_dir (t : tree) : bool :=
  match t with TDir _ _ => true | _ => false end.

(* FilesystemGatherer._include_path_in_result: [path.name.startswith(".")] *)
Definition hidden (n : name) : bool :=
  match n with 46 :: _ => true | _ => false end.

Definition visible (include_hidden : bool) (n : name) : bool :=
  include_hidden || negb (hidden n).

(* ---------- the three filesystem gatherers (relative paths below the start directory) --- *)

(* FlatFileGatherer.gather_files: glob("*") filtered by the hidden rule and [not is_dir()] *)
Definition flat_entry (ih : bool) (e : name * tree) : list (list name) :=
  if visible ih (fst e) && negb (is_dir (snd e)) then [[fst e]] else [].

Definition flat_files (ih : bool) (ch : list (name * tree)) : list (list name) :=
  flat_map (flat_entry ih) ch.

(* RecursiveFileGatherer._gather_in *)
Fixpoint rec_files (ih : bool) (t : tree) : list (list name) :=
  match t with
  | TDir _ ch =>
      flat_map (fun e : name * tree =>
                  if visible ih (fst e)
                  then match snd e with
                       | TDir _ _ => map (cons (fst e)) (rec_files ih (snd e))
                       | _ => [[fst e]]
                       end
                  else []) ch
  | _ => []
  end.

(* RecursiveDirectoryGatherer._gather_in: the directory itself, then what is below it *)
Fixpoint rec_dirs (ih : bool) (t : tree) : list (list name) :=
  match t with
  | TDir _ ch =>
      flat_map (fun e : name * tree =>
                  if visible ih (fst e)
                  then match snd e with
                       | TDir _ _ => [fst e] :: map (cons (fst e)) (rec_dirs ih (snd e))
                       | _ => []
                       end
                  else []) ch
  | _ => []
  end.

(* ---------- command line inputs, configuration, gathered File objects ------------------- *)

Inductive mode := MName | MPath | MDir.

Record cfg := { c_mode : mode; c_recursive : bool; c_include_hidden : bool }.

(* One path of the command line, classified as build_pipeline does:                        *)
(*  [IDir self parent nm ch]: [is_dir()] holds; self = its resolved absolute path          *)
(*     (File.input_directory of everything gathered below it), (parent, nm) = resolved     *)
(*     lexical parent and last component (what ExplicitFileGatherer makes of it);          *)
(*  [IFile parent nm]: [is_file()] holds;  [IOther]: exists but is neither.                *)
Inductive input :=
| IDir (self parent : dkey) (nm : name) (ch : list (name * tree))
| IFile (parent : dkey) (nm : name)
| IOther.

(* File(input_directory, relative_path) *)
Definition gfile := (dkey * list name)%type.

Definition under (d : dkey) (rels : list (list name)) : list gfile := map (pair d) rels.

(* what the gatherer(s) created for the input directories yield for one input *)
Definition dir_part (c : cfg) (i : input) : list gfile :=
  match i with
  | IDir self parent nm ch =>
      match c_mode c with
      | MDir => if c_recursive c then under self (rec_dirs (c_include_hidden c) (TDir false ch))
                else [(parent, [nm])]                  (* ExplicitFileGatherer(input_directories) *)
      | _ => if c_recursive c then under self (rec_files (c_include_hidden c) (TDir false ch))
             else under self (flat_files (c_include_hidden c) ch)
      end
  | _ => []
  end.

(* ExplicitFileGatherer(input_files): only outside directory mode; no hidden rule *)
Definition file_part (c : cfg) (i : input) : list gfile :=
  match i with
  | IFile parent nm => match c_mode c with MDir => [] | _ => [(parent, [nm])] end
  | _ => []
  end.

(* CombinedFileGatherer: the directory gatherers in command-line order, then the explicit files *)
Definition gather (c : cfg) (inputs : list input) : list gfile :=
  flat_map (dir_part c) inputs ++ flat_map (file_part c) inputs.

(* ---------- filters --------------------------------------------------------------------- *)

Fixpoint join_slash (r : list name) : str :=
  match r with
  | [] => []
  | [n] => n
  | n :: r' => n ++ 47 :: join_slash r'
  end.

(* the string a glob / regex filter is applied to: [relative_path.name] in name and        *)
(* directory mode, [str(relative_path)] in path mode                                       *)
Definition subject (m : mode) (f : gfile) : str :=
  match m with
  | MPath => join_slash (snd f)
  | _ => last (snd f) []
  end.

Definition name_eqb : name -> name -> bool := str_eqb.
Definition names_eqb : list name -> list name -> bool := list_eqb str_eqb.
Definition gfile_eqb (a b : gfile) : bool := names_eqb (fst a) (fst b) && names_eqb (snd a) (snd b).

Definition mem_str (s : str) (tbl : list str) : bool := existsb (str_eqb s) tbl.
Definition mem_gfile (f : gfile) (tbl : list gfile) : bool := existsb (gfile_eqb f) tbl.

(* The predicate itself (fnmatch / re / a rendered and evaluated template) is CPython's;   *)
(* the model receives it as a table: the strings (glob, regex) resp. the File objects      *)
(* (template filter, which is handed the File in every mode) on which it is true.          *)
Inductive filter_spec :=
| FNone
| FStr (true_on : list str)          (* --filter-glob / --filter-regex *)
| FFile (true_on : list gfile).      (* --filter-template *)

Definition base_pred (m : mode) (fs : filter_spec) (f : gfile) : bool :=
  match fs with
  | FNone => true                      (* Pipeline.file_filter default: lambda file: True *)
  | FStr tbl => mem_str (subject m f) tbl
  | FFile tbl => mem_gfile f tbl
  end.

(* FileFilterInverter is installed only when a filter is given *)
Definition effective_pred (m : mode) (fs : filter_spec) (invert : bool) (f : gfile) : bool :=
  match fs with
  | FNone => true
  | _ => if invert then negb (base_pred m fs f) else base_pred m fs f
  end.

Definition select (m : mode) (fs : filter_spec) (invert : bool) (l : list gfile) : list gfile :=
  filter (effective_pred m fs invert) l.

(* Pipeline.execute up to "N files considered for renaming" *)
Definition considered (c : cfg) (fs : filter_spec) (invert : bool) (inputs : list input) : list gfile :=
  select (c_mode c) fs invert (gather c inputs).

(* ---------- well-formed trees: names inside one directory are distinct and are real      *)
(* directory entries (non-empty, not "." or "..", no '/')                                  *)

Definition valid_name (n : name) : bool :=
  match n with
  | [] => false
  | [46] => false
  | [46; 46] => false
  | _ => negb (existsb (N.eqb 47) n)
  end.

Fixpoint nodup_names (l : list name) : bool :=
  match l with
  | [] => true
  | n :: l' => negb (existsb (name_eqb n) l') && nodup_names l'
  end.

Fixpoint wf_treeb (t : tree) : bool :=
  match t with
  | TDir _ ch => nodup_names (map fst ch) && forallb valid_name (map fst ch)
                 && forallb (fun e : name * tree => wf_treeb (snd e)) ch
  | _ => true
  end.

Definition wf_inputb (i : input) : bool :=
  match i with
  | IDir _ _ _ ch => wf_treeb (TDir false ch)
  | _ => true
  end.
