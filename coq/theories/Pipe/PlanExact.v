(* C02, name mode, strategy stop: a run that reports status 0 has applied the plan exactly.          *)
(* The final tree is the initial one with every selected source key replaced (simultaneously) by   *)
(* its destination key: same list order, same nodes, every other key untouched                     *)
(* ([success_exact_name_mode], for every plan, order, collision pattern and number of deferrals).  *)
(* Conversely a plan whose destinations are all free and distinct reports 0 ([all_free_succeeds]). *)
(* Proof: an invariant over the states of both passes -- the tree is [apply_plan s D] for the list *)
(* D of entries renamed so far, the other entries (rest of the plan, backlog) are where they were  *)
(* -- kept by every successful renamer call (a [rekey] of one non-directory key onto an absent     *)
(* one); status 0 under stop means every backlog entry was renamed at its retry.                   *)
From Coq Require Import Permutation.
From Tempren Require Import Base.Str Py.PathLib Py.PathLibProofs FS.Model FS.Lemmas FS.WfCheck Pipe.Pipeline Pipe.DestParent.
Open Scope N_scope.

(* ====================== model-style definitions (computable) ======================================= *)

(* the real path of a selected file and of its destination in name mode: same directory, new last part *)
Definition src_key (f : pfile) : rpath := pf_dir f ++ pp_parts (pf_rel f).
Definition dst_key (f : pfile) (t : str) : rpath := pf_dir f ++ removelast (pp_parts (pf_rel f)) ++ [t].

(* where the plan sends the key [k]: the destination of the first entry whose source is [k], else [k] *)
Fixpoint dest_of (plan : list (pfile * rendered)) (k : rpath) : rpath :=
  match plan with
  | [] => k
  | (f, RText t) :: rest => if rpath_eqb (src_key f) k then dst_key f t else dest_of rest k
  | _ :: rest => dest_of rest k
  end.

(* all renames at once: keys rewritten, nodes and list order kept *)
Definition apply_plan (s : fs) (plan : list (pfile * rendered)) : fs :=
  map (fun e => (dest_of plan (fst e), snd e)) s.

Definition no_dotdot (l : list name) : bool := forallb (fun c => negb (name_eqb c dotdot)) l.

(* os.lstat(relative path) in the input directory: [Some n] iff it finds a file or a symbolic link, and finds it
   at exactly input directory/relative path (no symbolic link and no ".." in between) *)
Definition selected_node (s : fs) (f : pfile) : option node :=
  match resolve s (pf_dir f) (to_upath (pf_rel f)) false with
  | WFound p n => if rpath_eqb p (src_key f) && negb (is_dir_node n) then Some n else None
  | _ => None
  end.

Definition srcs (l : list (pfile * rendered)) : list rpath := map (fun e => src_key (fst e)) l.

(* what the theorem asks of one plan entry (f, rendered text t) in the initial tree s *)
Definition entry_ok (s : fs) (e : pfile * rendered) : Prop :=
  match e with
  | (f, RText t) =>
      pp_root (pf_rel f) = 0%nat /\                      (* File.relative_path is relative               *)
      chdir s (pf_dir f) = Some (pf_dir f) /\            (* the input directory is a real directory path *)
      no_dotdot (pp_parts (pf_rel f)) = true /\
      selected_node s f <> None /\                       (* an existing file or symbolic link            *)
      pp_with_name (pf_rel f) t <> None /\               (* a valid name (so the path has a last part)   *)
      name_eqb t dotdot = false
  | _ => False
  end.

Definition selected_ok (s : fs) (plan : list (pfile * rendered)) : Prop :=
  Forall (entry_ok s) plan /\ NoDup (srcs plan).

(* boolean checker of the same *)
Definition entry_okb (s : fs) (e : pfile * rendered) : bool :=
  match e with
  | (f, RText t) =>
      Nat.eqb (pp_root (pf_rel f)) 0 &&
      match chdir s (pf_dir f) with Some p => rpath_eqb p (pf_dir f) | None => false end &&
      no_dotdot (pp_parts (pf_rel f)) &&
      match selected_node s f with Some _ => true | None => false end &&
      match pp_with_name (pf_rel f) t with Some _ => true | None => false end &&
      negb (name_eqb t dotdot)
  | _ => false
  end.

Definition selected_okb (s : fs) (plan : list (pfile * rendered)) : bool :=
  forallb (entry_okb s) plan && nodup_b (srcs plan).

(* every destination that differs from its source is a free name of the initial tree, short enough for the
   bounded walk of the model (realpath's final stat), and no two such destinations coincide *)
Definition all_free (s : fs) (plan : list (pfile * rendered)) : Prop :=
  (forall f t, In (f, RText t) plan -> dst_key f t <> src_key f ->
     lookup s (dst_key f t) = None /\ (length (src_key f) <= walk_fuel)%nat) /\
  (forall f t f' t', In (f, RText t) plan -> In (f', RText t') plan ->
     dst_key f t <> src_key f -> dst_key f' t' <> src_key f' -> dst_key f t = dst_key f' t' -> src_key f = src_key f').

(* the path object the name generator builds for entry (f, t) *)
Definition new_path (f : pfile) (t : str) : ppath :=
  {| pp_root := pp_root (pf_rel f); pp_parts := removelast (pp_parts (pf_rel f)) ++ [t] |}.

(* ====================== proofs =========================================================================== *)

Lemma entry_okb_sound s e : entry_okb s e = true -> entry_ok s e.
Proof.
  destruct e as [f [t|t|ex]]; simpl; try discriminate.
  intros H. repeat (apply andb_true_iff in H as [H ?]).
  repeat split.
  - apply Nat.eqb_eq. assumption.
  - destruct (chdir s (pf_dir f)) as [p|]; [|discriminate]. f_equal. apply rpath_eqb_eq. assumption.
  - assumption.
  - destruct (selected_node s f); [discriminate | discriminate].
  - destruct (pp_with_name (pf_rel f) t); [discriminate | discriminate].
  - apply negb_true_iff. assumption.
Qed.

Lemma selected_okb_sound s plan : selected_okb s plan = true -> selected_ok s plan.
Proof.
  unfold selected_okb. intros H. apply andb_true_iff in H as [H1 H2]. split.
  - apply Forall_forall. intros e He. apply entry_okb_sound. rewrite forallb_forall in H1. apply H1, He.
  - apply nodup_b_sound, H2.
Qed.

(* ---------- resolution of a plain path: no link and no ".." on the way ----------------------------------- *)
Lemma walk_plain s fl : forall comps f cur,
  (length comps <= f)%nat -> comps <> [] -> no_dotdot comps = true ->
  (forall pre post, comps = pre ++ post -> post <> [] -> lookup s (cur ++ pre) = Some NDir) ->
  match lookup s (cur ++ comps) with
  | None => walk f s cur comps fl = WMissing (cur ++ removelast comps) (last comps [])
  | Some n => (fl = false \/ forall i t, n <> NLink i t) -> walk f s cur comps fl = WFound (cur ++ comps) n
  end.
Proof.
  induction comps as [|c rest IH]; intros f cur Hlen Hne Hdd Hpre; [congruence|].
  destruct f as [|f]; [simpl in Hlen; lia|].
  simpl in Hdd. apply andb_true_iff in Hdd as [Hc Hdd]. apply negb_true_iff in Hc.
  assert (Hcur : lookup s cur = Some NDir).
  { rewrite <- (app_nil_r cur). apply (Hpre [] (c :: rest)); [reflexivity | discriminate]. }
  destruct rest as [|c2 rest2].
  - cbn [walk]. rewrite Hcur. cbn [walk]. rewrite Hc.
    destruct (lookup s (cur ++ [c])) as [[i|i t|]|] eqn:Hl.
    + intros _. reflexivity.
    + intros [-> | H]; [reflexivity | exfalso; eapply H; reflexivity].
    + intros _. reflexivity.
    + simpl. rewrite app_nil_r. reflexivity.
  - assert (Hd : lookup s (cur ++ [c]) = Some NDir) by (apply (Hpre [c] (c2 :: rest2)); [reflexivity | discriminate]).
    assert (Wk : walk (S f) s cur (c :: c2 :: rest2) fl = walk f s (cur ++ [c]) (c2 :: rest2) fl).
    { cbn [walk]. rewrite Hcur. cbn [walk]. rewrite Hc. rewrite Hd. reflexivity. }
    rewrite Wk.
    assert (E1 : cur ++ c :: c2 :: rest2 = (cur ++ [c]) ++ c2 :: rest2) by (rewrite <- app_assoc; reflexivity).
    assert (E2 : cur ++ removelast (c :: c2 :: rest2) = (cur ++ [c]) ++ removelast (c2 :: rest2))
      by (rewrite <- app_assoc; reflexivity).
    assert (E3 : last (c :: c2 :: rest2) [] = last (c2 :: rest2) []) by reflexivity.
    rewrite E1, E2, E3.
    apply IH.
    + simpl in Hlen. simpl. lia.
    + discriminate.
    + exact Hdd.
    + intros pre post E Hp. rewrite <- app_assoc. apply (Hpre (c :: pre) post); [|exact Hp].
      simpl. rewrite E. reflexivity.
Qed.

Lemma walk_nil f s cur fl :
  (0 < f)%nat -> walk f s cur [] fl = match lookup s cur with Some n => WFound cur n | None => WErr ENOENT end.
Proof. destruct f; [lia | reflexivity]. Qed.

(* the real path a walk finds has no ".." component *)
Lemma no_dotdot_removelast l : no_dotdot l = true -> no_dotdot (removelast l) = true.
Proof.
  induction l as [|x l IH]; [reflexivity|]. intros H. simpl in H. apply andb_true_iff in H as [H1 H2].
  destruct l as [|y l]; [reflexivity|]. change (removelast (x :: y :: l)) with (x :: removelast (y :: l)).
  simpl. rewrite H1. apply IH. exact H2.
Qed.

Lemma no_dotdot_snoc l c : no_dotdot l = true -> name_eqb c dotdot = false -> no_dotdot (l ++ [c]) = true.
Proof. intros H1 H2. unfold no_dotdot. rewrite forallb_app. fold (no_dotdot l). rewrite H1. simpl. rewrite H2. reflexivity. Qed.

Lemma walk_found_no_dotdot f s : forall cur comps fl p n,
  walk f s cur comps fl = WFound p n -> no_dotdot cur = true -> no_dotdot p = true.
Proof.
  induction f as [|f IH]; intros cur comps fl p n; simpl; [discriminate|].
  destruct comps as [|c rest].
  - destruct (lookup s cur); [|discriminate]. intros H Hc; inversion H; subst; exact Hc.
  - destruct (lookup s cur) as [[i|i t|]|]; try discriminate.
    destruct (name_eqb c dotdot) eqn:Ec.
    { intros H Hc. apply (IH _ _ _ _ _ H). apply no_dotdot_removelast, Hc. }
    destruct (lookup s (cur ++ [c])) as [[i|i t|]|].
    + destruct rest.
      * intros H Hc; inversion H; subst. apply no_dotdot_snoc; assumption.
      * intros H Hc. apply (IH _ _ _ _ _ H). apply no_dotdot_snoc; assumption.
    + assert (Hl : forall x y, walk f s (if up_abs t then [] else cur) x y = WFound p n -> no_dotdot cur = true -> no_dotdot p = true).
      { intros x y H Hc. apply (IH _ _ _ _ _ H). destruct (up_abs t); [reflexivity | exact Hc]. }
      destruct rest.
      * destruct fl; [apply Hl|]. intros H Hc; inversion H; subst. apply no_dotdot_snoc; assumption.
      * apply Hl.
    + destruct rest.
      * intros H Hc; inversion H; subst. apply no_dotdot_snoc; assumption.
      * intros H Hc. apply (IH _ _ _ _ _ H). apply no_dotdot_snoc; assumption.
    + destruct rest; discriminate.
Qed.

(* a walk that finds something had fuel for every component it was given *)
Lemma walk_found_fuel f s : forall cur comps fl p n,
  walk f s cur comps fl = WFound p n -> (length comps <= f /\ 0 < f)%nat.
Proof.
  induction f as [|f IH]; intros cur comps fl p n; simpl; [discriminate|].
  destruct comps as [|c rest]; [intros _; simpl; lia|].
  assert (Rec : forall cur' comps', (length rest <= length comps')%nat ->
                walk f s cur' comps' fl = WFound p n -> (length (c :: rest) <= S f /\ 0 < S f)%nat).
  { intros cur' comps' Hl H. destruct (IH _ _ _ _ _ H) as [A _]. simpl. lia. }
  assert (Dir : (length (c :: @nil name) <= S f /\ 0 < S f)%nat) by (simpl; lia).
  destruct (lookup s cur) as [[i|i t|]|]; try discriminate.
  destruct (name_eqb c dotdot); [apply Rec; lia|].
  destruct (lookup s (cur ++ [c])) as [[i|i t|]|].
  - destruct rest; [intros _; exact Dir | apply Rec; lia].
  - destruct rest; [destruct fl; [|intros _; exact Dir]|]; apply Rec; rewrite app_length; lia.
  - destruct rest; [intros _; exact Dir | apply Rec; lia].
  - destruct rest; discriminate.
Qed.

Transparent resolve.
Lemma resolve_found_fuel s cwd p fl q n :
  resolve s cwd p fl = WFound q n -> (length (up_comps p) <= walk_fuel /\ 0 < walk_fuel)%nat.
Proof. unfold resolve. generalize walk_fuel. intros f. apply walk_found_fuel. Qed.

Lemma resolve_found_no_dotdot s cwd p fl q n :
  resolve s cwd p fl = WFound q n -> no_dotdot (if up_abs p then [] else cwd) = true -> no_dotdot q = true.
Proof. unfold resolve. generalize walk_fuel. intros f. apply walk_found_no_dotdot. Qed.

Lemma resolve_plain s cwd p fl :
  (length (up_comps p) <= walk_fuel)%nat -> up_comps p <> [] -> no_dotdot (up_comps p) = true ->
  let base := if up_abs p then [] else cwd in
  (forall pre post, up_comps p = pre ++ post -> post <> [] -> lookup s (base ++ pre) = Some NDir) ->
  match lookup s (base ++ up_comps p) with
  | None => resolve s cwd p fl = WMissing (base ++ removelast (up_comps p)) (last (up_comps p) [])
  | Some n => (fl = false \/ forall i t, n <> NLink i t) -> resolve s cwd p fl = WFound (base ++ up_comps p) n
  end.
Proof. unfold resolve. cbv zeta. generalize walk_fuel. intros f H1 H2 H3 H4. apply walk_plain; assumption. Qed.

Lemma resolve_nil s cwd p fl :
  (0 < walk_fuel)%nat -> up_comps p = [] ->
  let base := if up_abs p then [] else cwd in
  resolve s cwd p fl = match lookup s base with Some n => WFound base n | None => WErr ENOENT end.
Proof. unfold resolve. cbv zeta. generalize walk_fuel. intros f H1 H2. rewrite H2. apply walk_nil, H1. Qed.
Opaque resolve.

(* ---------- os.path.realpath of a plain path is the path itself --------------------------------------------- *)
Lemma lexical_join_plain rest : forall acc, no_dotdot rest = true -> lexical_join acc rest = acc ++ rest.
Proof.
  induction rest as [|c rest IH]; intros acc H; simpl; [symmetry; apply app_nil_r|].
  simpl in H. apply andb_true_iff in H as [Hc H]. apply negb_true_iff in Hc. rewrite Hc.
  rewrite IH by exact H. rewrite <- app_assoc. reflexivity.
Qed.

Lemma joinreal_plain s inprog : forall rest f path,
  no_dotdot rest = true ->
  (forall pre c post, rest = pre ++ c :: post -> forall i t, lookup s (path ++ pre ++ [c]) <> Some (NLink i t)) ->
  fst (joinreal f s path rest inprog) = path ++ rest.
Proof.
  induction rest as [|c rest IH]; intros f path Hdd Hnl.
  - destruct f; simpl; symmetry; apply app_nil_r.
  - destruct f as [|f]; [cbn [joinreal fst]; apply lexical_join_plain; exact Hdd|].
    simpl in Hdd. apply andb_true_iff in Hdd as [Hc Hdd]. apply negb_true_iff in Hc.
    cbn [joinreal]. rewrite Hc.
    assert (Rec : fst (joinreal f s (path ++ [c]) rest inprog) = path ++ c :: rest).
    { rewrite IH; [rewrite <- app_assoc; reflexivity | exact Hdd |].
      intros pre c' post E i t. rewrite <- app_assoc. apply (Hnl (c :: pre) c' post). simpl. rewrite E. reflexivity. }
    destruct (lookup s (path ++ [c])) as [[i|i t|]|] eqn:L; try exact Rec.
    exfalso. apply (Hnl [] c rest eq_refl i t). exact L.
Qed.

Lemma realpath_plain s target :
  no_dotdot target = true ->
  (forall pre c post, target = pre ++ c :: post -> forall i t, lookup s (pre ++ [c]) <> Some (NLink i t)) ->
  resolve s [] {| up_abs := true; up_comps := target |} true <> WErr ELOOP ->
  realpath s [] {| up_abs := true; up_comps := target |} = Some target.
Proof.
  intros Hdd Hnl Hr. unfold realpath, realpath_raw. cbn [up_abs up_comps].
  rewrite (joinreal_plain s [] target realpath_fuel [] Hdd Hnl). cbn [app].
  destruct (resolve s [] {| up_abs := true; up_comps := target |} true) as [? ?|? ?|e]; try reflexivity.
  destruct e; try reflexivity. congruence.
Qed.

Lemma bad_last_snoc ab pre l : name_eqb l dotdot = false -> bad_last {| up_abs := ab; up_comps := pre ++ [l] |} = false.
Proof.
  intros H. unfold bad_last. cbn [up_comps]. rewrite last_last. destruct (pre ++ [l]) eqn:E; [|exact H].
  destruct pre; discriminate.
Qed.

(* ---------- small facts -------------------------------------------------------------------------------- *)
Lemma NoDup_map_inj_in {A B} (g : A -> B) (l : list A) a b :
  NoDup (map g l) -> In a l -> In b l -> g a = g b -> a = b.
Proof.
  induction l as [|x l IH]; simpl; intros ND Ha Hb E; [contradiction|].
  inversion ND as [|? ? Hx ND']; subst.
  destruct Ha as [Ha|Ha], Hb as [Hb|Hb]; subst.
  - reflexivity.
  - exfalso. apply Hx. rewrite E. apply in_map. exact Hb.
  - exfalso. apply Hx. rewrite <- E. apply in_map. exact Ha.
  - apply IH; assumption.
Qed.

Lemma In_lookup s k n : WF s -> In (k, n) s -> lookup s k = Some n.
Proof.
  intros [ND CL] H. destruct (CL _ _ H) as [Hk _]. destruct k; [congruence|]. simpl. apply In_assoc; assumption.
Qed.

Lemma apply_plan_nil s : apply_plan s [] = s.
Proof. unfold apply_plan. simpl. rewrite <- (map_id s) at 2. apply map_ext. intros [k n]. reflexivity. Qed.

Lemma dest_of_cases l k :
  dest_of l k = k \/ exists f t, In (f, RText t) l /\ src_key f = k /\ dest_of l k = dst_key f t.
Proof.
  induction l as [|[f r] l IH]; [left; reflexivity|].
  assert (Rest : dest_of l k = k \/
                 exists f0 t0, In (f0, RText t0) ((f, r) :: l) /\ src_key f0 = k /\ dest_of l k = dst_key f0 t0).
  { destruct IH as [IH|[f0 [t0 [H1 [H2 H3]]]]]; [left; assumption|].
    right. exists f0, t0. split; [right; assumption | split; assumption]. }
  destruct r as [t|t|ex]; try exact Rest.
  cbn [dest_of]. destruct (rpath_eqb (src_key f) k) eqn:E; [|exact Rest].
  right. exists f, t. apply rpath_eqb_eq in E. split; [left; reflexivity | split; [assumption | reflexivity]].
Qed.

Lemma dest_of_notsrc l k : (forall f t, In (f, RText t) l -> src_key f <> k) -> dest_of l k = k.
Proof.
  intros H. destruct (dest_of_cases l k) as [E|[f [t [H1 [H2 _]]]]]; [assumption|]. exfalso. exact (H f t H1 H2).
Qed.

Lemma dest_of_src l f t :
  In (f, RText t) l ->
  exists f' t', In (f', RText t') l /\ src_key f' = src_key f /\ dest_of l (src_key f) = dst_key f' t'.
Proof.
  induction l as [|[f0 r0] l IH]; intros H; [contradiction|].
  destruct H as [H|H].
  - inversion H; subst. exists f, t. cbn [dest_of]. rewrite rpath_eqb_refl.
    split; [left; reflexivity | split; reflexivity].
  - destruct (IH H) as [f' [t' [A [B C]]]].
    assert (Rest : exists f1 t1, In (f1, RText t1) ((f0, r0) :: l) /\ src_key f1 = src_key f /\
                                 dest_of l (src_key f) = dst_key f1 t1).
    { exists f', t'. split; [right; assumption | split; assumption]. }
    destruct r0 as [t0|t0|ex]; try exact Rest.
    cbn [dest_of]. destruct (rpath_eqb (src_key f0) (src_key f)) eqn:E; [|exact Rest].
    apply rpath_eqb_eq in E. exists f0, t0. split; [left; reflexivity | split; [assumption | reflexivity]].
Qed.

Lemma with_name_form p t :
  pp_with_name p t <> None ->
  pp_parts p <> [] /\
  pp_with_name p t = Some {| pp_root := pp_root p; pp_parts := removelast (pp_parts p) ++ [t] |}.
Proof.
  unfold pp_with_name. destruct (pp_parts p) as [|x xs]; [congruence|].
  destruct (match t with [] => true | [46] => true | _ => has_slash t end); [congruence|].
  intros _. split; [discriminate | reflexivity].
Qed.

Lemma to_upath_rel p : pp_root p = 0%nat -> to_upath p = {| up_abs := false; up_comps := pp_parts p |}.
Proof. unfold to_upath. intros ->. reflexivity. Qed.

Lemma status_of_nonzero e : status_of e <> 0%Z.
Proof. destruct e; discriminate. Qed.

(* ---------- one rename onto a free name, source a non-directory: exactly one key changes --------------- *)
Lemma os_rename_plain x cwd src dst sp sn dpar dname x' :
  resolve x cwd src false = WFound sp sn -> sp <> [] -> is_dir_node sn = false ->
  resolve x cwd dst false = WMissing dpar dname ->
  os_rename x cwd src dst = SOk x' -> x' = rekey sp (dpar ++ [dname]) x.
Proof.
  intros Rs Hsp Hnd Rd. unfold os_rename. rewrite Rs, Rd.
  destruct (bad_last src || bad_last dst); [discriminate|].
  destruct sp as [|a sp]; [congruence|].
  destruct (name_eqb dname dotdot); [discriminate|].
  rewrite Hnd. cbn [andb]. intros E. inversion E. reflexivity.
Qed.

Lemma os_rename_plain_ok x cwd src dst sp sn dpar dname :
  resolve x cwd src false = WFound sp sn -> sp <> [] -> is_dir_node sn = false ->
  resolve x cwd dst false = WMissing dpar dname -> name_eqb dname dotdot = false ->
  bad_last src = false -> bad_last dst = false ->
  os_rename x cwd src dst = SOk (rekey sp (dpar ++ [dname]) x).
Proof.
  intros Rs Hsp Hnd Rd Hdn B1 B2. unfold os_rename. rewrite B1, B2, Rs, Rd. cbn [orb].
  destruct sp as [|a sp]; [congruence|]. rewrite Hdn, Hnd. reflexivity.
Qed.

Section Exact.
Variable c : cfg.
Hypothesis Cm : c_mode c = MName.
Hypothesis Cs : c_strategy c = Stop.
Hypothesis Cd : c_dry c = false.
Hypothesis Cf : c_fault c = None.
Hypothesis Cv : c_var c = fixed.

(* what a successful / failed call of the renamer means under this configuration *)
Lemma renamer_success w cwd src dst w1 :
  renamer c w cwd src dst false = (w1, None) ->
  lexists (w_fs w) cwd (to_upath dst) = false /\
  os_rename (w_fs w) cwd (to_upath src) (to_upath dst) = SOk (w_fs w1).
Proof.
  unfold renamer, renamer_core. rewrite Cd, Cm, Cf, Cv.
  unfold file_renamer, guard_exists. cbn [fixed v_lexists_guard negb andb].
  destruct (lexists (w_fs w) cwd (to_upath dst)) eqn:Lx; [discriminate|].
  destruct (ppath_eqb (pp_parent src) (pp_parent dst)); cbn [negb]; [|discriminate].
  unfold sys, faulted.
  destruct (os_rename (w_fs w) cwd (to_upath src) (to_upath dst)) as [x'|er]; [|discriminate].
  intros E. inversion E. split; reflexivity.
Qed.

Lemma renamer_failure w cwd src dst w1 e :
  renamer c w cwd src dst false = (w1, Some e) -> w_fs w1 = w_fs w.
Proof.
  unfold renamer, renamer_core. rewrite Cd, Cm, Cf, Cv.
  unfold file_renamer, guard_exists. cbn [fixed v_lexists_guard negb andb].
  destruct (lexists (w_fs w) cwd (to_upath dst)); [intros E; inversion E; reflexivity|].
  destruct (ppath_eqb (pp_parent src) (pp_parent dst)); cbn [negb]; [|intros E; inversion E; reflexivity].
  unfold sys, faulted.
  destruct (os_rename (w_fs w) cwd (to_upath src) (to_upath dst)) as [x'|er]; [discriminate|].
  intros E. inversion E. reflexivity.
Qed.

(* ---------- the initial tree and the plan ---------------------------------------------------------------- *)
Variable s : fs.
Variable plan : list (pfile * rendered).
Hypothesis W : WF s.
Hypothesis OK : selected_ok s plan.

Lemma plan_entry e : In e plan -> entry_ok s e.
Proof. destruct OK as [F _]. rewrite Forall_forall in F. apply F. Qed.

Lemma plan_text f r : In (f, r) plan -> exists t, r = RText t.
Proof. intros H. apply plan_entry in H. destruct r as [t|t|ex]; [exists t; reflexivity | contradiction | contradiction]. Qed.

Lemma plan_functional f t f' r' :
  In (f, RText t) plan -> In (f', r') plan -> src_key f' = src_key f -> (f', r') = (f, RText t).
Proof.
  intros H1 H2 E. destruct OK as [_ ND].
  apply (NoDup_map_inj_in (fun e => src_key (fst e)) plan _ _ ND H2 H1). exact E.
Qed.

Lemma dest_of_sub l f t : incl l plan -> In (f, RText t) l -> dest_of l (src_key f) = dst_key f t.
Proof.
  intros I H. destruct (dest_of_src l f t H) as [f' [t' [A [B C]]]].
  pose proof (plan_functional f t f' (RText t') (I _ H) (I _ A) B) as E. inversion E; subst. exact C.
Qed.

Lemma src_nonempty f t : In (f, RText t) plan -> pp_parts (pf_rel f) <> [] /\ src_key f <> [].
Proof.
  intros H. apply plan_entry in H. destruct H as [_ [_ [_ [_ [Hn _]]]]].
  apply with_name_form in Hn as [Hp _]. split; [exact Hp|].
  unfold src_key. intros E. apply app_eq_nil in E as [_ E]. contradiction.
Qed.

Lemma src_resolves f t :
  In (f, RText t) plan ->
  exists n, resolve s (pf_dir f) (to_upath (pf_rel f)) false = WFound (src_key f) n /\ is_dir_node n = false.
Proof.
  intros H. apply plan_entry in H. destruct H as [_ [_ [_ [Hsel _]]]]. unfold selected_node in Hsel.
  destruct (resolve s (pf_dir f) (to_upath (pf_rel f)) false) as [p n|? ?|?]; try congruence.
  destruct (rpath_eqb p (src_key f)) eqn:Ep; [|simpl in Hsel; congruence].
  destruct (is_dir_node n) eqn:En; [simpl in Hsel; congruence|].
  apply rpath_eqb_eq in Ep. subst p. exists n. split; [reflexivity | exact En].
Qed.

Lemma src_entry f t : In (f, RText t) plan -> exists n, In (src_key f, n) s /\ is_dir_node n = false.
Proof.
  intros H. destruct (src_nonempty f t H) as [_ Hne]. destruct (src_resolves f t H) as [n [R Hnd]].
  exists n. split; [|exact Hnd]. apply lookup_In; [exact Hne|]. apply (resolve_found _ _ _ _ _ _ R).
Qed.

Lemma src_length f t : In (f, RText t) plan -> (length (pp_parts (pf_rel f)) <= walk_fuel)%nat.
Proof.
  intros H. destruct (src_resolves f t H) as [n [R _]]. apply resolve_found_fuel in R as [R _]. exact R.
Qed.

(* a file whose generated name is its own *)
Definition skipped (e : pfile * rendered) : Prop :=
  match e with (f, RText t) => dst_key f t = src_key f | _ => True end.

(* the state of a run: [D] = entries already renamed, [P] = entries still to be renamed (rest of the plan and
   backlog); every other entry of the plan had nothing to do *)
Definition Inv (D P : list (pfile * rendered)) (x : fs) : Prop :=
  x = apply_plan s D /\ WF x /\ incl D plan /\ incl P plan /\ NoDup (srcs (D ++ P)) /\
  (forall e, In e plan -> skipped e \/ In e D \/ In e P).

Lemma Inv_perm D P P' x : Permutation P P' -> Inv D P x -> Inv D P' x.
Proof.
  intros Pm [A [B [C [E [F G]]]]]. refine (conj A (conj B (conj C (conj _ (conj _ _))))).
  - intros e He. apply E. apply (Permutation_in _ (Permutation_sym Pm) He).
  - unfold srcs in *. eapply Permutation_NoDup; [|exact F]. apply Permutation_map. apply Permutation_app_head. exact Pm.
  - intros e He. destruct (G e He) as [K|[K|K]]; auto. right. right. apply (Permutation_in _ Pm K).
Qed.

Lemma Inv_drop D e P x : skipped e -> Inv D (e :: P) x -> Inv D P x.
Proof.
  intros Sk [A [B [C [E [F G]]]]]. refine (conj A (conj B (conj C (conj _ (conj _ _))))).
  - intros a Ha. apply E. right. exact Ha.
  - unfold srcs in *. rewrite map_app in *. simpl in F. apply NoDup_remove_1 in F. exact F.
  - intros a Ha. destruct (G a Ha) as [K|[K|[K|K]]]; auto. subst. left. exact Sk.
Qed.

Lemma Inv_move D e P x x' : Inv D (e :: P) x -> x' = apply_plan s (e :: D) -> WF x' -> Inv (e :: D) P x'.
Proof.
  intros [A [B [C [E [F G]]]]] A' B'. refine (conj A' (conj B' (conj _ (conj _ (conj _ _))))).
  - intros a [Ha|Ha]; [subst; apply E; left; reflexivity | apply C, Ha].
  - intros a Ha. apply E. right. exact Ha.
  - unfold srcs in *. eapply Permutation_NoDup; [|exact F]. apply Permutation_map.
    apply Permutation_sym. apply (Permutation_middle D P e).
  - intros a Ha. destruct (G a Ha) as [K|[K|[K|K]]]; auto.
    + right. left. right. exact K.
    + subst. right. left. left. reflexivity.
Qed.

(* directories never move *)
Lemma dir_stays D P x q : Inv D P x -> In (q, NDir) s -> lookup x q = Some NDir.
Proof.
  intros [A [B [C _]]] H.
  assert (E : dest_of D q = q).
  { apply dest_of_notsrc. intros f t Hin Eq.
    destruct (src_entry f t (C _ Hin)) as [n [Hn Hnd]]. rewrite Eq in Hn.
    destruct W as [ND _]. rewrite (In_unique s q n NDir ND Hn H) in Hnd. discriminate. }
  apply In_lookup; [exact B|]. subst x. unfold apply_plan.
  apply in_map_iff. exists (q, NDir). simpl. rewrite E. split; [reflexivity | exact H].
Qed.

Lemma lookup_dir_stays D P x q : Inv D P x -> lookup s q = Some NDir -> lookup x q = Some NDir.
Proof.
  intros I H. destruct q as [|a q]; [reflexivity|].
  apply (dir_stays D P x _ I). apply lookup_In; [discriminate | exact H].
Qed.

(* an entry still to be renamed is where it was *)
Lemma pending_stays D f t P x n :
  Inv D ((f, RText t) :: P) x -> In (src_key f, n) s ->
  dest_of D (src_key f) = src_key f /\ In (src_key f, n) x.
Proof.
  intros [A [B [C [E [F G]]]]] H.
  assert (Ed : dest_of D (src_key f) = src_key f).
  { apply dest_of_notsrc. intros f' t' Hin Eq.
    unfold srcs in F. rewrite map_app in F. simpl in F. apply NoDup_remove_2 in F. apply F.
    apply in_or_app. left. rewrite <- Eq. apply (in_map (fun e => src_key (fst e)) D (f', RText t')). exact Hin. }
  split; [exact Ed|]. subst x. unfold apply_plan. apply in_map_iff. exists (src_key f, n). simpl. rewrite Ed.
  split; [reflexivity | exact H].
Qed.

(* the directories above a selected file, in any state of the run *)
Lemma above_dirs D P x f t q :
  Inv D P x -> In (f, RText t) plan ->
  (exists r, pf_dir f ++ removelast (pp_parts (pf_rel f)) = q ++ r) -> lookup x q = Some NDir.
Proof.
  intros I Hin Hq. destruct q as [|a q]; [reflexivity|].
  apply (dir_stays D P x _ I).
  destruct (src_nonempty f t Hin) as [Hp _]. destruct (src_entry f t Hin) as [n [Hn _]].
  set (par := pf_dir f ++ removelast (pp_parts (pf_rel f))) in *.
  assert (Hpar : lookup s par = Some NDir).
  { destruct par as [|b par'] eqn:Epar; [reflexivity|]. rewrite <- Epar.
    apply In_lookup; [exact W|]. destruct W as [_ CL]. destruct (CL _ _ Hn) as [_ Cn].
    apply Cn; [rewrite Epar; discriminate|].
    exists [last (pp_parts (pf_rel f)) []]. split; [discriminate|].
    unfold src_key, par. rewrite <- app_assoc. rewrite removelast_last_app by exact Hp. reflexivity. }
  apply (prefix_of_dir s par (a :: q) W Hpar); [discriminate | exact Hq].
Qed.

Lemma chdir_stays D P x f t : Inv D P x -> In (f, RText t) plan -> chdir x (pf_dir f) = Some (pf_dir f).
Proof.
  intros I Hin. pose proof (plan_entry _ Hin) as [_ [Hcd _]].
  assert (Hlen : (length (pf_dir f) <= walk_fuel /\ 0 < walk_fuel)%nat).
  { unfold chdir in Hcd.
    destruct (resolve s [] {| up_abs := true; up_comps := pf_dir f |} true) as [p n|? ?|?] eqn:R; try discriminate.
    apply resolve_found_fuel in R. exact R. }
  assert (Hdd : no_dotdot (pf_dir f) = true).
  { unfold chdir in Hcd.
    destruct (resolve s [] {| up_abs := true; up_comps := pf_dir f |} true) as [p [i|i tg|]|? ?|?] eqn:R; try discriminate.
    injection Hcd as Ep. apply resolve_found_no_dotdot in R; [|reflexivity]. rewrite Ep in R. exact R. }
  assert (Hd : lookup s (pf_dir f) = Some NDir).
  { unfold chdir in Hcd.
    destruct (resolve s [] {| up_abs := true; up_comps := pf_dir f |} true) as [p [i|i tg|]|? ?|?] eqn:R; try discriminate.
    injection Hcd as Ep. apply resolve_found in R. rewrite Ep in R. exact R. }
  assert (Hpre : forall q, (exists r, pf_dir f = q ++ r) -> lookup x q = Some NDir).
  { intros q Hq. destruct q as [|a q]; [reflexivity|]. apply (dir_stays D P x _ I).
    apply (prefix_of_dir s (pf_dir f) (a :: q) W Hd); [discriminate | exact Hq]. }
  unfold chdir. destruct (pf_dir f) as [|a d] eqn:Ed.
  - rewrite (resolve_nil x [] {| up_abs := true; up_comps := [] |} true); [reflexivity | lia | reflexivity].
  - pose proof (resolve_plain x [] {| up_abs := true; up_comps := a :: d |} true) as R.
    cbn [up_abs up_comps] in R. cbv zeta in R.
    assert (L : lookup x ([] ++ a :: d) = Some NDir) by (apply Hpre; exists []; rewrite app_nil_r; reflexivity).
    rewrite L in R. rewrite R; [reflexivity | lia | discriminate | exact Hdd | | right; intros; discriminate].
    intros pre post E _. apply Hpre. exists post. exact E.
Qed.

(* re-keying the one pending source in the current state = adding its entry to the applied part of the plan *)
Lemma rekey_apply D f t P x n :
  Inv D ((f, RText t) :: P) x -> In (src_key f, n) s -> is_dir_node n = false ->
  rekey (src_key f) (dst_key f t) x = apply_plan s ((f, RText t) :: D).
Proof.
  intros I Hn Hnd. destruct (pending_stays D f t P x n I Hn) as [Ed Hnx].
  destruct I as [A [B _]]. subst x. destruct B as [ND CL].
  unfold rekey. unfold apply_plan at 1. rewrite map_map. unfold apply_plan. apply map_ext_in.
  intros [k m] Hk. cbn [fst snd]. f_equal.
  cbn [dest_of]. destruct (rpath_eqb (src_key f) k) eqn:E.
  - apply rpath_eqb_eq in E. subst k. rewrite Ed. apply rekey_self.
  - apply rekey_outside. apply is_prefix_false. intros [r Er].
    assert (Hkx : In (dest_of D k, m) (apply_plan s D)).
    { unfold apply_plan. apply in_map_iff. exists (k, m). split; [reflexivity | exact Hk]. }
    destruct r as [|a r].
    + rewrite app_nil_r in Er.
      unfold apply_plan in ND. rewrite map_map in ND. cbn [fst] in ND.
      assert (X : (k, m) = (src_key f, n)).
      { apply (NoDup_map_inj_in (fun e => dest_of D (fst e)) s _ _ ND Hk Hn). cbn [fst]. congruence. }
      inversion X; subst. rewrite rpath_eqb_refl in E. discriminate.
    + destruct (CL _ _ Hkx) as [_ Ck].
      assert (Hdir : In (src_key f, NDir) (apply_plan s D)).
      { apply Ck; [|exists (a :: r); split; [discriminate | exact Er]].
        intros Z. rewrite Z in Er. rewrite Z in Hnx. destruct (CL _ _ Hnx) as [Q _]. congruence. }
      rewrite (In_unique _ _ _ _ ND Hnx Hdir) in Hnd. discriminate.
Qed.

(* how a pending entry and its destination resolve in any state of the run *)
Lemma pending_resolves D f t P x :
  In (f, RText t) plan -> Inv D ((f, RText t) :: P) x ->
  exists n, In (src_key f, n) s /\ is_dir_node n = false /\
    resolve x (pf_dir f) (to_upath (pf_rel f)) false = WFound (src_key f) n /\
    match lookup x (dst_key f t) with
    | Some m => resolve x (pf_dir f) (to_upath (new_path f t)) false = WFound (dst_key f t) m
    | None => resolve x (pf_dir f) (to_upath (new_path f t)) false =
              WMissing (pf_dir f ++ removelast (pp_parts (pf_rel f))) t
    end.
Proof.
  intros Hin I.
  pose proof (plan_entry _ Hin) as [Hroot [_ [Hddp [_ [_ Ht]]]]].
  pose proof (src_length f t Hin) as Hlen.
  destruct (src_nonempty f t Hin) as [Hp Hsk].
  destruct (src_entry f t Hin) as [n [Hn Hnd]].
  destruct (pending_stays D f t P _ n I Hn) as [Ed Hnx].
  assert (WFx : WF x) by (destruct I as [_ [B _]]; exact B).
  exists n. split; [exact Hn|]. split; [exact Hnd|].
  unfold dst_key. set (d := pf_dir f) in *.
  assert (Hparts : pp_parts (pf_rel f) = removelast (pp_parts (pf_rel f)) ++ [last (pp_parts (pf_rel f)) []])
    by (symmetry; apply removelast_last_app; exact Hp).
  set (rp := removelast (pp_parts (pf_rel f))) in *.
  unfold name in Hlen.
  assert (Hl2 : length (pp_parts (pf_rel f)) = S (length rp)).
  { rewrite Hparts at 1. rewrite app_length. simpl. lia. }
  assert (Above : forall pre post nm, pre ++ post = rp ++ [nm] -> post <> [] -> lookup x (d ++ pre) = Some NDir).
  { intros pre post nm E Hpost. apply (above_dirs D _ x f t (d ++ pre) I Hin).
    destruct (snoc_split _ _ _ _ E Hpost) as [r' Hr']. exists r'. fold d rp. rewrite Hr'. rewrite app_assoc. reflexivity. }
  split.
  - (* the source resolves to its own key *)
    rewrite (to_upath_rel _ Hroot).
    pose proof (resolve_plain x d {| up_abs := false; up_comps := pp_parts (pf_rel f) |} false) as R1.
    cbn [up_abs up_comps] in R1. cbv zeta in R1.
    change (d ++ pp_parts (pf_rel f)) with (src_key f) in R1.
    rewrite (In_lookup x _ _ WFx Hnx) in R1. apply R1; [unfold name; lia | exact Hp | exact Hddp | | left; reflexivity].
    intros pre post E Hpost. apply (Above pre post (last (pp_parts (pf_rel f)) [])); [|exact Hpost].
    transitivity (pp_parts (pf_rel f)); [symmetry; exact E | exact Hparts].
  - (* the destination is a name in the same directory *)
    assert (Hroot' : pp_root (new_path f t) = 0%nat) by exact Hroot.
    rewrite (to_upath_rel _ Hroot'). cbn [new_path pp_parts]. fold rp.
    pose proof (resolve_plain x d {| up_abs := false; up_comps := rp ++ [t] |} false) as R1.
    cbn [up_abs up_comps] in R1. cbv zeta in R1.
    assert (Pre : (length (rp ++ [t]) <= walk_fuel)%nat) by (rewrite app_length; simpl; unfold name; lia).
    assert (Ne : rp ++ [t] <> []) by (destruct rp; discriminate).
    assert (Dd : no_dotdot (rp ++ [t]) = true).
    { unfold no_dotdot in *. rewrite forallb_app. rewrite Hparts in Hddp. rewrite forallb_app in Hddp.
      apply andb_true_iff in Hddp as [Hd1 _]. rewrite Hd1. simpl. rewrite Ht. reflexivity. }
    assert (Ab : forall pre post, rp ++ [t] = pre ++ post -> post <> [] -> lookup x (d ++ pre) = Some NDir).
    { intros pre post E Hpost. apply (Above pre post t); [symmetry; exact E | exact Hpost]. }
    specialize (R1 Pre Ne Dd Ab).
    destruct (lookup x (d ++ rp ++ [t])) as [m|].
    + apply R1. left. reflexivity.
    + rewrite R1. rewrite removelast_last, last_last. reflexivity.
Qed.

(* one successful call of the renamer for a pending entry *)
Lemma renamer_step D f t P w w1 :
  In (f, RText t) plan -> Inv D ((f, RText t) :: P) (w_fs w) ->
  renamer c w (pf_dir f) (pf_rel f) (new_path f t) false = (w1, None) ->
  Inv ((f, RText t) :: D) P (w_fs w1).
Proof.
  intros Hin I R. destruct (renamer_success _ _ _ _ _ R) as [Lx Ren].
  destruct (src_nonempty f t Hin) as [_ Hsk].
  destruct (pending_resolves D f t P _ Hin I) as [n [Hn [Hnd [Rs Rd]]]].
  assert (WFx : WF (w_fs w)) by (destruct I as [_ [B _]]; exact B).
  assert (Rd' : resolve (w_fs w) (pf_dir f) (to_upath (new_path f t)) false =
                WMissing (pf_dir f ++ removelast (pp_parts (pf_rel f))) t).
  { unfold lexists in Lx. destruct (lookup (w_fs w) (dst_key f t)); [rewrite Rd in Lx; discriminate | exact Rd]. }
  pose proof (os_rename_plain _ _ _ _ _ _ _ _ _ Rs Hsk Hnd Rd' Ren) as E1.
  destruct (os_rename_free_preserves _ _ _ _ _ WFx Lx Ren) as [WF1 _].
  apply (Inv_move D (f, RText t) P (w_fs w) (w_fs w1) I); [|exact WF1].
  rewrite E1. rewrite <- app_assoc. apply (rekey_apply D f t P _ n I Hn Hnd).
Qed.

(* ---------- the two passes ------------------------------------------------------------------------------- *)
(* the backlog entry pushed for a deferred plan entry *)
Definition pend (e : pfile * rendered) : backlog_entry :=
  match e with
  | (f, RText t) => (pf_dir f, pf_rel f, new_path f t)
  | (f, _) => (pf_dir f, pf_rel f, pf_rel f)
  end.

Lemma first_pass_inv : forall rest w cwd blE D w' cwd' bl',
  Inv D (blE ++ rest) (w_fs w) ->
  first_pass c rest w cwd (map pend blE) = (w', cwd', bl', None) ->
  exists D' blE', bl' = map pend blE' /\ Inv D' blE' (w_fs w').
Proof.
  induction rest as [|[f r] rest IH]; intros w cwd blE D w' cwd' bl' I.
  - simpl. intros E. inversion E; subst. exists D, blE. rewrite app_nil_r in I. split; [reflexivity | exact I].
  - assert (Hin : In (f, r) plan).
    { destruct I as [_ [_ [_ [E _]]]]. apply E. apply in_or_app. right. left. reflexivity. }
    destruct (plan_text f r Hin) as [t ->].
    assert (I1 : Inv D ((f, RText t) :: blE ++ rest) (w_fs w)).
    { eapply Inv_perm; [|exact I]. apply Permutation_sym, Permutation_middle. }
    cbn [first_pass]. rewrite (chdir_stays D _ _ f t I Hin).
    pose proof (plan_entry _ Hin) as [_ [_ [_ [_ [Hwn _]]]]].
    destruct (with_name_form _ _ Hwn) as [Hp Hg].
    assert (Hg' : pp_with_name (pf_rel f) t = Some (new_path f t)) by exact Hg.
    rewrite Cm. cbn [generate]. rewrite Hg'.
    destruct (ppath_eqb (new_path f t) (pf_rel f)) eqn:Eq.
    + apply (IH w _ blE D). apply (Inv_drop D (f, RText t)); [|exact I1].
      apply ppath_eqb_spec in Eq. cbn [skipped]. unfold dst_key, src_key. f_equal.
      change (pp_parts (new_path f t) = pp_parts (pf_rel f)). rewrite Eq. reflexivity.
    + destruct (contained (c_var c) (w_fs w) f (new_path f t)) as [[|]|]; try (intros E; discriminate E).
      destruct (dest_parent_test (c_var c) (w_fs w) f (new_path f t)) as [[|]|]; try (intros E; discriminate E).
      destruct (parents_contained (w_fs w) f (new_path f t)) as [[|]|]; try (intros E; discriminate E).
      destruct (source_contained (w_fs w) f) as [[|]|]; try (intros E; discriminate E).
      destruct (renamer c w (pf_dir f) (pf_rel f) (new_path f t) false) as [w1 [e1|]] eqn:R.
      * destruct (is_file_exists e1); [|intros E; discriminate E].
        change ((pf_dir f, pf_rel f, new_path f t) :: map pend blE) with (map pend ((f, RText t) :: blE)).
        apply (IH w1 _ ((f, RText t) :: blE) D). rewrite (renamer_failure _ _ _ _ _ _ R). exact I1.
      * apply (IH w1 _ blE ((f, RText t) :: D)). apply (renamer_step D f t _ w w1 Hin I1 R).
Qed.

Lemma second_pass_inv : forall blE w cwd D w' cwd',
  Inv D blE (w_fs w) -> second_pass c (map pend blE) w cwd = (w', cwd', None) -> exists D', Inv D' [] (w_fs w').
Proof.
  induction blE as [|[f r] blE IH]; intros w cwd D w' cwd' I.
  - simpl. intros E. inversion E; subst. exists D. exact I.
  - assert (Hin : In (f, r) plan).
    { destruct I as [_ [_ [_ [E _]]]]. apply E. left. reflexivity. }
    destruct (plan_text f r Hin) as [t ->].
    cbn [map pend second_pass]. rewrite Cv. cbn [fixed v_backlog_chdir].
    rewrite (chdir_stays D _ _ f t I Hin).
    destruct (backlog_verify fixed (w_fs w) (pf_dir f) (pf_rel f) (new_path f t)); [intros E; discriminate E|].
    destruct (renamer c w (pf_dir f) (pf_rel f) (new_path f t) false) as [w1 [e1|]] eqn:R.
    + destruct (is_file_exists e1); [|intros E; discriminate E].
      unfold resolve_conflict. rewrite Cs. cbn [resolve_simple]. intros E; discriminate E.
    + apply (IH w1 _ ((f, RText t) :: D)). apply (renamer_step D f t _ w w1 Hin I R).
Qed.

Lemma final_dest D k :
  incl D plan -> (forall e, In e plan -> skipped e \/ In e D \/ In e []) -> dest_of D k = dest_of plan k.
Proof.
  intros C G.
  destruct (dest_of_cases plan k) as [E|[f [t [H1 [H2 H3]]]]].
  - rewrite E. destruct (dest_of_cases D k) as [E'|[f [t [H1 [H2 H3]]]]]; [exact E'|].
    rewrite H3. rewrite <- (dest_of_sub plan f t (incl_refl _) (C _ H1)). rewrite H2. exact E.
  - rewrite H3. destruct (G _ H1) as [Sk|[K|[]]].
    + cbn [skipped] in Sk. rewrite Sk, H2.
      destruct (dest_of_cases D k) as [E'|[f' [t' [A1 [A2 A3]]]]]; [exact E'|].
      rewrite A3. pose proof (plan_functional f t f' (RText t') H1 (C _ A1) (eq_trans A2 (eq_sym H2))) as X.
      inversion X; subst f' t'. rewrite Sk. exact H2.
    + rewrite <- H2. apply dest_of_sub; assumption.
Qed.

Theorem run_exact cwd :
  r_status (run c plan cwd s) = 0%Z ->
  r_final (run c plan cwd s) = apply_plan s plan /\ WF (r_final (run c plan cwd s)).
Proof.
  unfold run.
  destruct (first_pass c plan (init_world s (c_answers c)) cwd []) as [[[w1 cwd1] bl] e1] eqn:FP.
  destruct e1 as [e|]; [simpl; intros H; exfalso; exact (status_of_nonzero e H)|].
  destruct (second_pass c bl w1 cwd1) as [[w2 cwd2] e2] eqn:SP.
  destruct e2 as [e|]; [simpl; intros H; exfalso; exact (status_of_nonzero e H)|].
  simpl. intros _.
  assert (I0 : Inv [] ([] ++ plan) (w_fs (init_world s (c_answers c)))).
  { simpl. refine (conj _ (conj W (conj _ (conj _ (conj _ _))))).
    - symmetry. apply apply_plan_nil.
    - intros a [].
    - apply incl_refl.
    - destruct OK; assumption.
    - intros e He. right. right. exact He. }
  destruct (first_pass_inv plan _ cwd [] [] _ _ _ I0 FP) as [D1 [blE [Ebl I1]]]. subst bl.
  destruct (second_pass_inv blE _ _ _ _ _ I1 SP) as [D2 I2].
  destruct I2 as [A [B [C [_ [_ G]]]]]. split; [|exact B]. rewrite A. unfold apply_plan. apply map_ext.
  intros [k n]. cbn [fst snd]. f_equal. apply final_dest; assumption.
Qed.

(* the same, entry by entry *)
Theorem run_selected_at_destination cwd f t :
  r_status (run c plan cwd s) = 0%Z -> In (f, RText t) plan ->
  lookup (r_final (run c plan cwd s)) (dst_key f t) = lookup s (src_key f) /\
  exists n, lookup s (src_key f) = Some n /\ is_dir_node n = false.
Proof.
  intros St Hin. destruct (run_exact cwd St) as [E Wf]. destruct (src_entry f t Hin) as [n [Hn Hnd]].
  rewrite (In_lookup s _ _ W Hn). split; [|exists n; split; [reflexivity | exact Hnd]].
  apply In_lookup; [exact Wf|]. rewrite E. unfold apply_plan. apply in_map_iff. exists (src_key f, n).
  cbn [fst snd]. rewrite (dest_of_sub plan f t (incl_refl _) Hin). split; [reflexivity | exact Hn].
Qed.

Theorem run_unselected_untouched cwd k n :
  r_status (run c plan cwd s) = 0%Z -> (forall f t, In (f, RText t) plan -> src_key f <> k) ->
  In (k, n) s -> lookup (r_final (run c plan cwd s)) k = Some n.
Proof.
  intros St Hk Hn. destruct (run_exact cwd St) as [E Wf].
  apply In_lookup; [exact Wf|]. rewrite E. unfold apply_plan. apply in_map_iff. exists (k, n).
  cbn [fst snd]. rewrite (dest_of_notsrc plan k Hk). split; [reflexivity | exact Hn].
Qed.

(* the condition "no symbolic link on the way to a selected file" is part of well-formedness: every proper
   prefix of a key of a well-formed tree is a directory entry *)
Lemma selected_path_is_plain f t q r :
  In (f, RText t) plan -> q <> [] -> r <> [] -> src_key f = q ++ r -> In (q, NDir) s.
Proof.
  intros Hin Hq Hr E. destruct (src_entry f t Hin) as [n [Hn _]]. destruct W as [_ CL].
  destruct (CL _ _ Hn) as [_ Cn]. apply Cn; [exact Hq | exists r; split; assumption].
Qed.

(* ---------- the converse for plans without conflicts: all destinations free => status 0 ------------------- *)
Lemma dir_no_dotdot f t : In (f, RText t) plan -> no_dotdot (pf_dir f) = true.
Proof.
  intros Hin. pose proof (plan_entry _ Hin) as [_ [Hcd _]]. unfold chdir in Hcd.
  destruct (resolve s [] {| up_abs := true; up_comps := pf_dir f |} true) as [p [i|i tg|]|? ?|?] eqn:R; try discriminate.
  injection Hcd as Ep. apply resolve_found_no_dotdot in R; [|reflexivity]. rewrite Ep in R. exact R.
Qed.

Lemma pending_not_done D f t P x f' r' :
  Inv D ((f, RText t) :: P) x -> In (f', r') D -> src_key f' <> src_key f.
Proof.
  intros [_ [_ [_ [_ [F _]]]]] Hin Eq.
  unfold srcs in F. rewrite map_app in F. simpl in F. apply NoDup_remove_2 in F. apply F.
  apply in_or_app. left. rewrite <- Eq. apply (in_map (fun e => src_key (fst e)) D (f', r')). exact Hin.
Qed.

Lemma dst_free_now D f t P x :
  all_free s plan -> In (f, RText t) plan -> Inv D ((f, RText t) :: P) x -> dst_key f t <> src_key f ->
  lookup x (dst_key f t) = None.
Proof.
  intros [AF1 AF2] Hin I Hne. destruct (AF1 f t Hin Hne) as [Hfree _].
  destruct (lookup x (dst_key f t)) as [m|] eqn:L; [|reflexivity]. exfalso.
  assert (Hk : dst_key f t <> []) by (unfold dst_key; intros Z; apply app_eq_nil in Z as [_ Z]; apply app_eq_nil in Z as [_ Z]; discriminate).
  apply lookup_In in L; [|exact Hk].
  pose proof I as [A [_ [C _]]]. rewrite A in L. unfold apply_plan in L. apply in_map_iff in L as [[k m'] [E Hkm]].
  cbn [fst snd] in E. injection E as E _.
  assert (NotKey : forall k', In (k', m') s -> k' <> dst_key f t).
  { intros k' Hk' Z. subst k'. apply lookup_None_notin in Hfree. apply Hfree.
    apply in_map_iff. exists (dst_key f t, m'). split; [reflexivity | exact Hk']. }
  destruct (dest_of_cases D k) as [E1|[f' [t' [H1 [H2 H3]]]]].
  - apply (NotKey k Hkm). congruence.
  - destruct (rpath_eqb (dst_key f' t') (src_key f')) eqn:Sk.
    + apply rpath_eqb_eq in Sk. apply (NotKey k Hkm). congruence.
    + apply rpath_eqb_neq in Sk.
      assert (Eq : src_key f = src_key f') by (apply (AF2 f t f' t' Hin (C _ H1) Hne Sk); congruence).
      apply (pending_not_done D f t P x f' (RText t') I H1). symmetry. exact Eq.
Qed.

Lemma containment_ok D f t P x :
  In (f, RText t) plan -> Inv D ((f, RText t) :: P) x ->
  lookup x (dst_key f t) = None -> (length (src_key f) <= walk_fuel)%nat ->
  contained (c_var c) x f (new_path f t) = Some true /\ parents_contained x f (new_path f t) = Some true /\
  source_contained x f = Some true.
Proof.
  intros Hin I Hfree Hlen.
  pose proof (plan_entry _ Hin) as [Hroot [_ [Hddp [_ [_ Ht]]]]].
  destruct (src_nonempty f t Hin) as [Hp _].
  pose proof (dir_no_dotdot f t Hin) as Hddd.
  assert (Hparts : pp_parts (pf_rel f) = removelast (pp_parts (pf_rel f)) ++ [last (pp_parts (pf_rel f)) []])
    by (symmetry; apply removelast_last_app; exact Hp).
  set (d := pf_dir f) in *. set (rp := removelast (pp_parts (pf_rel f))) in *.
  assert (Tg : (if Nat.eqb (pp_root (new_path f t)) 0 then pf_dir f ++ pp_parts (new_path f t) else pp_parts (new_path f t))
               = dst_key f t).
  { cbn [new_path pp_root pp_parts]. rewrite Hroot. reflexivity. }
  assert (Dk : dst_key f t = (d ++ rp) ++ [t]) by (unfold dst_key; rewrite app_assoc; reflexivity).
  assert (Hddrp : no_dotdot (d ++ rp) = true).
  { unfold no_dotdot in *. rewrite forallb_app. rewrite Hddd. rewrite Hparts in Hddp. rewrite forallb_app in Hddp.
    apply andb_true_iff in Hddp as [Hd1 _]. exact Hd1. }
  assert (Hddk : no_dotdot (dst_key f t) = true) by (rewrite Dk; apply no_dotdot_snoc; assumption).
  assert (Above : forall pre post, pre ++ post = (d ++ rp) ++ [t] -> post <> [] -> lookup x pre = Some NDir).
  { intros pre post E Hpost. apply (above_dirs D _ x f t pre I Hin).
    destruct (snoc_split _ _ _ _ E Hpost) as [r' Hr']. exists r'. exact Hr'. }
  assert (Lk : (length (dst_key f t) <= walk_fuel)%nat).
  { unfold src_key in Hlen. fold d in Hlen. rewrite Hparts in Hlen. unfold dst_key. fold d rp.
    rewrite !app_length in *. simpl in *. unfold name in *. lia. }
  assert (Hkne : dst_key f t <> []) by (rewrite Dk; destruct (d ++ rp); discriminate).
  (* realpath of the destination is the destination *)
  assert (Rp : realpath x [] {| up_abs := true; up_comps := dst_key f t |} = Some (dst_key f t)).
  { apply realpath_plain; [exact Hddk | |].
    - intros pre c0 post E i tg L. destruct post as [|c1 post].
      + rewrite <- E in L. rewrite Hfree in L. discriminate.
      + assert (Z : lookup x (pre ++ [c0]) = Some NDir).
        { apply (Above (pre ++ [c0]) (c1 :: post)); [|discriminate]. rewrite <- Dk, E, <- app_assoc. reflexivity. }
        rewrite Z in L. discriminate.
    - pose proof (resolve_plain x [] {| up_abs := true; up_comps := dst_key f t |} true) as R1.
      cbn [up_abs up_comps app] in R1. cbv zeta in R1. rewrite Hfree in R1. rewrite R1; [discriminate | exact Lk | exact Hkne | exact Hddk |].
      intros pre post E Hpost. apply (Above pre post); [rewrite <- Dk; symmetry; exact E | exact Hpost]. }
  assert (Hpos : (0 < walk_fuel)%nat).
  { pose proof Lk as Z. rewrite Dk in Z. rewrite app_length in Z. simpl in Z. unfold name in *. lia. }
  assert (Hex : exists_ x [] {| up_abs := true; up_comps := d ++ rp |} = true).
  { unfold exists_.
    assert (Hc : d ++ rp = [] \/ d ++ rp <> []) by (destruct (d ++ rp); [left; reflexivity | right; discriminate]).
    destruct Hc as [Eq|Eq].
    - rewrite Eq. rewrite (resolve_nil x [] {| up_abs := true; up_comps := [] |} true); [reflexivity | exact Hpos | reflexivity].
    - pose proof (resolve_plain x [] {| up_abs := true; up_comps := d ++ rp |} true) as R1.
      cbn [up_abs up_comps app] in R1. cbv zeta in R1.
      assert (Z : lookup x (d ++ rp) = Some NDir).
      { apply (Above (d ++ rp) [t]); [reflexivity | discriminate]. }
      rewrite Z in R1. rewrite R1; [reflexivity | | exact Eq | exact Hddrp | | right; intros; discriminate].
      + rewrite Dk in Lk. rewrite app_length in Lk. simpl in Lk. unfold name in *. lia.
      + intros pre post E Hpost. apply (Above pre (post ++ [t])); [|destruct post; discriminate].
        rewrite app_assoc, <- E. reflexivity. }
  split; [|split].
  - unfold contained. rewrite Tg, Rp, Cv. cbn [fixed v_component_containment]. f_equal.
    apply is_prefix_path_spec. exists (rp ++ [t]). reflexivity.
  - unfold parents_contained. rewrite Tg. rewrite Dk, removelast_last.
    destruct (length (d ++ rp)); cbn [new_dirs_inside]; rewrite Hex; reflexivity.
  - (* the directory the source lives in is a plain directory path below the input directory *)
    unfold source_contained, source_parent. rewrite Hroot. cbn [Nat.eqb]. fold d rp.
    rewrite realpath_plain.
    + f_equal. apply is_prefix_path_spec. exists rp. reflexivity.
    + exact Hddrp.
    + intros pre c0 post E i tg L.
      assert (Z : lookup x (pre ++ [c0]) = Some NDir).
      { apply (Above (pre ++ [c0]) (post ++ [t])); [|destruct post; discriminate].
        rewrite E, <- !app_assoc. reflexivity. }
      rewrite Z in L. discriminate.
    + intros K. unfold exists_ in Hex. rewrite K in Hex. discriminate.
Qed.

Lemma renamer_free D f t P w :
  In (f, RText t) plan -> Inv D ((f, RText t) :: P) (w_fs w) -> lookup (w_fs w) (dst_key f t) = None ->
  exists w1, renamer c w (pf_dir f) (pf_rel f) (new_path f t) false = (w1, None).
Proof.
  intros Hin I Hfree.
  pose proof (plan_entry _ Hin) as [Hroot [_ [Hddp [_ [Hwn Ht]]]]].
  destruct (src_nonempty f t Hin) as [Hp Hsk].
  destruct (with_name_form _ _ Hwn) as [_ Hg].
  destruct (pending_resolves D f t P _ Hin I) as [n [Hn [Hnd [Rs Rd]]]]. rewrite Hfree in Rd.
  assert (PE : ppath_eqb (pp_parent (pf_rel f)) (pp_parent (new_path f t)) = true).
  { apply ppath_eqb_spec. symmetry. apply (with_name_same_parent (pf_rel f) t (new_path f t)). exact Hg. }
  assert (B1 : bad_last (to_upath (pf_rel f)) = false).
  { rewrite (to_upath_rel _ Hroot). rewrite <- (removelast_last_app (pp_parts (pf_rel f)) [] Hp).
    apply bad_last_snoc. unfold no_dotdot in Hddp. rewrite <- (removelast_last_app (pp_parts (pf_rel f)) [] Hp) in Hddp.
    rewrite forallb_app in Hddp. apply andb_true_iff in Hddp as [_ Hl]. simpl in Hl. rewrite andb_true_r in Hl.
    apply negb_true_iff. exact Hl. }
  assert (B2 : bad_last (to_upath (new_path f t)) = false).
  { assert (Hroot' : pp_root (new_path f t) = 0%nat) by exact Hroot. rewrite (to_upath_rel _ Hroot').
    cbn [new_path pp_parts]. apply bad_last_snoc. exact Ht. }
  pose proof (os_rename_plain_ok _ _ _ _ _ _ _ _ Rs Hsk Hnd Rd Ht B1 B2) as Ren.
  unfold renamer, renamer_core. rewrite Cd, Cm, Cf, Cv.
  unfold file_renamer, guard_exists. cbn [fixed v_lexists_guard negb andb].
  unfold lexists. rewrite Rd. rewrite PE. cbn [negb].
  unfold sys, faulted. rewrite Ren. eexists. reflexivity.
Qed.

Lemma first_pass_free : all_free s plan -> forall rest w cwd D,
  Inv D rest (w_fs w) ->
  exists w' cwd' D', first_pass c rest w cwd [] = (w', cwd', [], None) /\ Inv D' [] (w_fs w').
Proof.
  intros AF. induction rest as [|[f r] rest IH]; intros w cwd D I.
  - exists w, cwd, D. split; [reflexivity | exact I].
  - assert (Hin : In (f, r) plan).
    { destruct I as [_ [_ [_ [E _]]]]. apply E. left. reflexivity. }
    destruct (plan_text f r Hin) as [t ->].
    cbn [first_pass]. rewrite (chdir_stays D _ _ f t I Hin).
    pose proof (plan_entry _ Hin) as [_ [_ [_ [_ [Hwn _]]]]].
    destruct (with_name_form _ _ Hwn) as [Hp Hg].
    assert (Hg' : pp_with_name (pf_rel f) t = Some (new_path f t)) by exact Hg.
    rewrite Cm. cbn [generate]. rewrite Hg'.
    destruct (ppath_eqb (new_path f t) (pf_rel f)) eqn:Eq.
    + apply (IH w _ D). apply (Inv_drop D (f, RText t)); [|exact I].
      apply ppath_eqb_spec in Eq. cbn [skipped]. unfold dst_key, src_key. f_equal.
      change (pp_parts (new_path f t) = pp_parts (pf_rel f)). rewrite Eq. reflexivity.
    + assert (Hne : dst_key f t <> src_key f).
      { intros Z. unfold dst_key, src_key in Z. apply app_inv_head in Z.
        assert (X : new_path f t = pf_rel f).
        { unfold new_path. rewrite Z. destruct (pf_rel f). reflexivity. }
        apply ppath_eqb_spec in X. congruence. }
      pose proof (dst_free_now D f t rest _ AF Hin I Hne) as Hfree.
      destruct AF as [AF1 AF2]. destruct (AF1 f t Hin Hne) as [_ Hlen].
      destruct (containment_ok D f t rest _ Hin I Hfree Hlen) as [Ct [Pc Sc]]. rewrite Ct, (dest_parent_test_with_name _ _ _ _ _ Hg' Sc), Pc, Sc.
      destruct (renamer_free D f t rest w Hin I Hfree) as [w1 R]. rewrite R.
      apply (IH w1 _ ((f, RText t) :: D)). apply (renamer_step D f t _ w w1 Hin I R).
Qed.

Theorem run_all_free cwd :
  all_free s plan -> r_status (run c plan cwd s) = 0%Z.
Proof.
  intros AF. unfold run.
  assert (I0 : Inv [] plan (w_fs (init_world s (c_answers c)))).
  { simpl. refine (conj _ (conj W (conj _ (conj _ (conj _ _))))).
    - symmetry. apply apply_plan_nil.
    - intros a [].
    - apply incl_refl.
    - destruct OK; assumption.
    - intros e He. right. right. exact He. }
  destruct (first_pass_free AF plan _ cwd [] I0) as [w' [cwd' [D' [FP _]]]].
  rewrite FP. reflexivity.
Qed.

End Exact.

(* ====================== the statements ================================================================ *)
Theorem success_exact_name_mode_list : forall c plan cwd s,
  c_mode c = MName -> c_strategy c = Stop -> c_dry c = false -> c_fault c = None -> c_var c = fixed ->
  WF s -> selected_ok s plan ->
  r_status (run c plan cwd s) = 0%Z ->
  r_final (run c plan cwd s) = apply_plan s plan.
Proof. intros c plan cwd s Cm Cs Cd Cf Cv W OK St. apply (run_exact c Cm Cs Cd Cf Cv s plan W OK cwd St). Qed.

Theorem success_exact_name_mode : forall c plan cwd s,
  c_mode c = MName -> c_strategy c = Stop -> c_dry c = false -> c_fault c = None -> c_var c = fixed ->
  WF s -> selected_ok s plan ->
  r_status (run c plan cwd s) = 0%Z ->
  forall k, lookup (r_final (run c plan cwd s)) k = lookup (apply_plan s plan) k.
Proof.
  intros c plan cwd s Cm Cs Cd Cf Cv W OK St k.
  rewrite (success_exact_name_mode_list c plan cwd s Cm Cs Cd Cf Cv W OK St). reflexivity.
Qed.

Theorem success_selected_at_destination : forall c plan cwd s,
  c_mode c = MName -> c_strategy c = Stop -> c_dry c = false -> c_fault c = None -> c_var c = fixed ->
  WF s -> selected_ok s plan ->
  r_status (run c plan cwd s) = 0%Z ->
  forall f t, In (f, RText t) plan ->
    lookup (r_final (run c plan cwd s)) (dst_key f t) = lookup s (src_key f) /\
    exists n, lookup s (src_key f) = Some n /\ is_dir_node n = false.
Proof. intros c plan cwd s Cm Cs Cd Cf Cv W OK St f t. apply (run_selected_at_destination c Cm Cs Cd Cf Cv s plan W OK cwd f t St). Qed.

Theorem success_unselected_untouched : forall c plan cwd s,
  c_mode c = MName -> c_strategy c = Stop -> c_dry c = false -> c_fault c = None -> c_var c = fixed ->
  WF s -> selected_ok s plan ->
  r_status (run c plan cwd s) = 0%Z ->
  forall k n, (forall f t, In (f, RText t) plan -> src_key f <> k) -> In (k, n) s ->
    lookup (r_final (run c plan cwd s)) k = Some n.
Proof. intros c plan cwd s Cm Cs Cd Cf Cv W OK St k n. apply (run_unselected_untouched c Cm Cs Cd Cf Cv s plan W OK cwd k n St). Qed.

(* no conflicts at all: every destination that differs from its source is free and they are pairwise distinct;
   then the run succeeds (and, by the theorems above, the plan is applied exactly) *)
Theorem all_free_succeeds : forall c plan cwd s,
  c_mode c = MName -> c_strategy c = Stop -> c_dry c = false -> c_fault c = None -> c_var c = fixed ->
  WF s -> selected_ok s plan -> all_free s plan ->
  r_status (run c plan cwd s) = 0%Z /\ r_final (run c plan cwd s) = apply_plan s plan.
Proof.
  intros c plan cwd s Cm Cs Cd Cf Cv W OK AF.
  pose proof (run_all_free c Cm Cd Cf Cv s plan W OK cwd AF) as St.
  split; [exact St | apply success_exact_name_mode_list; assumption].
Qed.

(* every state of the tree has the same nodes in the same order; only keys are rewritten *)
Theorem apply_plan_keeps_nodes s plan : map snd (apply_plan s plan) = map snd s.
Proof. unfold apply_plan. rewrite map_map. reflexivity. Qed.

(* the hypotheses imply the two readable conditions the checker does not test separately *)
Theorem selected_ok_input_directory s plan f t :
  selected_ok s plan -> In (f, RText t) plan -> chdir s (pf_dir f) = Some (pf_dir f).
Proof. intros [F _] H. rewrite Forall_forall in F. apply F in H. destruct H as [_ [H _]]. exact H. Qed.

Theorem selected_ok_no_link_on_the_way s plan f t q r :
  WF s -> selected_ok s plan -> In (f, RText t) plan -> q <> [] -> r <> [] -> src_key f = q ++ r -> In (q, NDir) s.
Proof. intros W OK. apply (selected_path_is_plain s plan W OK). Qed.

(* the lstat condition of [entry_ok] in terms of the tree: a non-directory entry of a well-formed tree below a
   directory, reached by a relative path without ".." that the bounded walk of the model can process *)
Theorem lookup_selected_node s f n :
  WF s -> pp_root (pf_rel f) = 0%nat -> lookup s (pf_dir f) = Some NDir ->
  no_dotdot (pp_parts (pf_rel f)) = true -> pp_parts (pf_rel f) <> [] ->
  (length (pp_parts (pf_rel f)) <= walk_fuel)%nat ->
  lookup s (src_key f) = Some n -> is_dir_node n = false ->
  selected_node s f = Some n.
Proof.
  intros W Hroot Hd Hdd Hne Hlen Hl Hnd. unfold selected_node. rewrite (to_upath_rel _ Hroot).
  pose proof (resolve_plain s (pf_dir f) {| up_abs := false; up_comps := pp_parts (pf_rel f) |} false) as R.
  cbn [up_abs up_comps] in R. cbv zeta in R. change (pf_dir f ++ pp_parts (pf_rel f)) with (src_key f) in R.
  rewrite Hl in R. rewrite R; [rewrite rpath_eqb_refl, Hnd; reflexivity | exact Hlen | exact Hne | exact Hdd | | left; reflexivity].
  intros pre post E Hpost. destruct (pf_dir f ++ pre) as [|a q] eqn:Eq; [reflexivity|]. rewrite <- Eq.
  assert (Hk : src_key f <> []) by (unfold src_key; intros Z; apply app_eq_nil in Z as [_ Z]; contradiction).
  apply In_lookup; [exact W|]. pose proof (lookup_In s _ _ Hk Hl) as Hin. destruct W as [_ CL].
  destruct (CL _ _ Hin) as [_ C]. apply C; [rewrite Eq; discriminate|].
  exists post. split; [exact Hpost|]. unfold src_key. rewrite E. rewrite app_assoc. reflexivity.
Qed.

(* ====================== non-vacuity: a chain 0->1, 1->2, 2->3 visited front to back =================== *)
(* in/0, in/1, in/2 are renumbered upwards; visiting them in this order defers 0->1 and 1->2, which are then
   retried newest first; in/sub/x is a symbolic link that is renamed, in/keep and out/1 are not selected *)
Definition ex_in : name := [105; 110].
Definition ex_fs : fs :=
  [ ([ex_in], NDir); ([ex_in; [48]], NFile 1); ([ex_in; [49]], NFile 2); ([ex_in; [50]], NFile 3);
    ([ex_in; [107;101;101;112]], NFile 4);
    ([ex_in; [115;117;98]], NDir);
    ([ex_in; [115;117;98]; [120]], NLink 5 {| up_abs := false; up_comps := [dotdot; [48]] |});
    ([[111;117;116]], NDir); ([[111;117;116]; [49]], NFile 6) ].

Definition ex_file (parts : list str) : pfile :=
  {| pf_dir := [ex_in]; pf_rel := {| pp_root := 0; pp_parts := parts |} |}.

Definition ex_plan : list (pfile * rendered) :=
  [ (ex_file [[48]], RText [49]); (ex_file [[49]], RText [50]); (ex_file [[50]], RText [51]);
    (ex_file [[107;101;101;112]], RText [107;101;101;112]);
    (ex_file [[115;117;98]; [120]], RText [121]) ].

Definition ex_cfg : cfg :=
  {| c_mode := MName; c_strategy := Stop; c_dry := false; c_answers := []; c_fault := None; c_var := fixed |}.

Example ex_wf : WF ex_fs.
Proof. apply wf_b_sound. vm_compute. reflexivity. Qed.

Example ex_selected_ok : selected_ok ex_fs ex_plan.
Proof. apply selected_okb_sound. vm_compute. reflexivity. Qed.

Example ex_chain_applied :
  let r := run ex_cfg ex_plan [] ex_fs in
  r_status r = 0%Z /\
  r_final r = apply_plan ex_fs ex_plan /\
  r_calls r = [(CRename, COk); (CRename, COk); (CRename, COk); (CRename, COk)] /\
  (* the order of the report shows the two deferrals: 2->3 first, then sub/x, then 1->2, then 0->1 *)
  map (fun x => fst (fst x)) (r_report r) = [[50]; [115;117;98;47;120]; [49]; [48]] /\
  lookup (r_final r) [ex_in; [48]] = None /\
  lookup (r_final r) [ex_in; [49]] = Some (NFile 1) /\
  lookup (r_final r) [ex_in; [50]] = Some (NFile 2) /\
  lookup (r_final r) [ex_in; [51]] = Some (NFile 3) /\
  lookup (r_final r) [ex_in; [115;117;98]; [120]] = None /\
  lookup (r_final r) [ex_in; [115;117;98]; [121]] = Some (NLink 5 {| up_abs := false; up_comps := [dotdot; [48]] |}) /\
  lookup (r_final r) [ex_in; [107;101;101;112]] = Some (NFile 4) /\
  lookup (r_final r) [[111;117;116]; [49]] = Some (NFile 6).
Proof. vm_compute. repeat split. Qed.

(* the theorem applies to the example (its hypotheses are satisfiable together with status 0) *)
Example ex_by_theorem : r_final (run ex_cfg ex_plan [] ex_fs) = apply_plan ex_fs ex_plan.
Proof.
  apply success_exact_name_mode_list;
    [reflexivity | reflexivity | reflexivity | reflexivity | reflexivity | exact ex_wf | exact ex_selected_ok |].
  vm_compute. reflexivity.
Qed.
