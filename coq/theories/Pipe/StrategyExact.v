(* C03, plan level, name mode, real run: what each conflict strategy does with a whole plan.            *)
(*  stop     : the run ends with DestinationAlreadyExistsError only if some generated destination was *)
(*             present in the initial tree or is generated for two entries ([stop_only_on_conflict]). *)
(*  ignore   : the run reports no error; every entry whose destination is free is renamed, every      *)
(*             entry that is not renamed had a conflicting destination.                               *)
(*  override : (no destination an existing directory, no source key another entry's destination) the  *)
(*             run reports no error and a destination targeted by exactly one entry holds that        *)
(*             entry's node.                                                                          *)
(* All proofs reuse the invariant of Pipe/PlanExact.v (the tree is [apply_plan s D] for the list D    *)
(* of entries renamed so far), instantiated  at the sub-plan [D ++ P] of the entries that are renamed *)
(* or still pending, so that ignored entries simply drop out; for override the base tree [s] is       *)
(* replaced by [remove_key k s] whenever the node that came from key [k] is overwritten.              *)
From Coq Require Import Permutation.
From Tempren Require Import Base.Str Py.PathLib Py.PathLibProofs FS.Model FS.Lemmas FS.WfCheck Pipe.Pipeline Pipe.DestParent Pipe.BacklogVerify
  Corr.PipeCorr Pipe.PlanExact Pipe.Strategies.
Open Scope N_scope.
(* the walk is used only through lemmas; without this the kernel may unfold [walk walk_fuel] at Qed *)
Opaque resolve walk_fuel.

(* ====================== definitions used by the statements ========================================== *)

(* entry (f, t) wants a name that differs from its own and that was present in the initial tree or is
   generated for another entry as well *)
Definition conflict (s : fs) (plan : list (pfile * rendered)) (f : pfile) (t : str) : Prop :=
  dst_key f t <> src_key f /\
  (lookup s (dst_key f t) <> None \/
   exists f' t', In (f', RText t') plan /\ src_key f' <> src_key f /\ dst_key f' t' = dst_key f t).

(* the destination of (f, t) is absent from the initial tree and no other entry generates it
   (an absent key is in particular not the source key of another entry) *)
Definition free_entry (s : fs) (plan : list (pfile * rendered)) (f : pfile) (t : str) : Prop :=
  lookup s (dst_key f t) = None /\
  (forall f' t', In (f', RText t') plan -> dst_key f' t' = dst_key f t -> src_key f' = src_key f).

(* the node of the initial key [k] can come to lie at the key [d]: it is there, or the plan sends it there *)
Definition lands_at (plan : list (pfile * rendered)) (k d : rpath) : Prop :=
  k = d \/ exists f' t', In (f', RText t') plan /\ src_key f' = k /\ dst_key f' t' = d.

(* what "exit status 0" needs beyond [selected_ok]: the containment test of Pipeline.execute resolves the
   destination (following a symbolic link that lies there), so no symbolic link may ever lie at a generated
   destination, and the path must be short enough for the bounded walk of the model *)
Definition dests_plain (s : fs) (plan : list (pfile * rendered)) : Prop :=
  forall f t, In (f, RText t) plan -> dst_key f t <> src_key f ->
    (length (src_key f) <= walk_fuel)%nat /\
    forall k i tg, lands_at plan k (dst_key f t) -> k <> src_key f -> lookup s k <> Some (NLink i tg).

(* override: no generated destination is a directory of the initial tree *)
Definition no_dir_dest (s : fs) (plan : list (pfile * rendered)) : Prop :=
  forall f t, In (f, RText t) plan -> lookup s (dst_key f t) <> Some NDir.

(* override: no source key is the destination key of another entry (finding F33 without it) *)
Definition no_chain (plan : list (pfile * rendered)) : Prop :=
  forall f t f' r', In (f, RText t) plan -> In (f', r') plan -> src_key f' = dst_key f t -> src_key f' = src_key f.

(* ====================== small facts ================================================================== *)
Lemma dst_key_nonempty f t : dst_key f t <> [].
Proof. unfold dst_key. intros Z. apply app_eq_nil in Z as [_ Z]. apply app_eq_nil in Z as [_ Z]. discriminate. Qed.

Lemma dst_key_snoc f t : dst_key f t = (pf_dir f ++ removelast (pp_parts (pf_rel f))) ++ [t].
Proof. unfold dst_key. rewrite app_assoc. reflexivity. Qed.

Lemma same_key_same_path f t : dst_key f t = src_key f -> ppath_eqb (new_path f t) (pf_rel f) = true.
Proof.
  intros Z. unfold dst_key, src_key in Z. apply app_inv_head in Z.
  apply ppath_eqb_spec. unfold new_path. rewrite Z. destruct (pf_rel f). reflexivity.
Qed.

Lemma same_path_same_key f t : ppath_eqb (new_path f t) (pf_rel f) = true -> dst_key f t = src_key f.
Proof.
  intros Eq. apply ppath_eqb_spec in Eq. unfold dst_key, src_key. f_equal.
  change (pp_parts (new_path f t) = pp_parts (pf_rel f)). rewrite Eq. reflexivity.
Qed.

Lemma selected_ok_sub s plan l : selected_ok s plan -> incl l plan -> NoDup (srcs l) -> selected_ok s l.
Proof.
  intros [F _] I ND. split; [|exact ND]. rewrite Forall_forall in *. intros e He. apply F, I, He.
Qed.

Lemma srcs_perm l l' : Permutation l l' -> NoDup (srcs l) -> NoDup (srcs l').
Proof. intros P. unfold srcs. apply Permutation_NoDup. apply Permutation_map. exact P. Qed.

(* the backlog only ever receives entries whose generated path differs from their own *)
Definition bl_moving (b : backlog_entry) : Prop := ppath_eqb (snd b) (snd (fst b)) = false.

Lemma first_pass_backlog_moving c : forall rest w cwd bl w' cwd' bl' e,
  first_pass c rest w cwd bl = (w', cwd', bl', e) -> Forall bl_moving bl -> Forall bl_moving bl'.
Proof.
  induction rest as [|[f r] rest IH]; intros w cwd bl w' cwd' bl' e; cbn [first_pass].
  - intros E; inversion E; subst. exact (fun H => H).
  - destruct (chdir (w_fs w) (pf_dir f)) as [cw|]; [|intros E; inversion E; subst; exact (fun H => H)].
    destruct (generate (c_mode c) f r) as [np|ex]; [|intros E; inversion E; subst; exact (fun H => H)].
    destruct (ppath_eqb np (pf_rel f)) eqn:Eq; [apply IH|].
    destruct (contained (c_var c) (w_fs w) f np) as [[|]|]; try (intros E; inversion E; subst; exact (fun H => H)).
    destruct (dest_parent_test (c_var c) (w_fs w) f np) as [[|]|]; try (intros E; inversion E; subst; exact (fun H => H)).
    destruct (parents_contained (w_fs w) f np) as [[|]|]; try (intros E; inversion E; subst; exact (fun H => H)).
    destruct (source_contained (w_fs w) f) as [[|]|]; try (intros E; inversion E; subst; exact (fun H => H)).
    destruct (renamer c w cw (pf_rel f) np false) as [w1 [e1|]]; [|apply IH].
    destruct (is_file_exists e1); [|intros E; inversion E; subst; exact (fun H => H)].
    intros E H. apply (IH _ _ _ _ _ _ _ E). constructor; [exact Eq | exact H].
Qed.

Lemma backlog_moving_keys blE :
  Forall bl_moving (map pend blE) -> forall f t, In (f, RText t) blE -> dst_key f t <> src_key f.
Proof.
  intros F f t Hin Z. rewrite Forall_forall in F.
  assert (M : bl_moving (pend (f, RText t))) by (apply F; apply in_map; exact Hin).
  unfold bl_moving in M. cbn [pend fst snd] in M. rewrite (same_key_same_path f t Z) in M. discriminate.
Qed.

(* ====================== facts about one state of the run, for any base tree and plan ================= *)
Section Gen.
Variable c : cfg.
Hypothesis Cm : c_mode c = MName.
Hypothesis Cd : c_dry c = false.
Hypothesis Cf : c_fault c = None.
Hypothesis Cv : c_var c = fixed.
Variable s : fs.
Variable plan : list (pfile * rendered).
Hypothesis W : WF s.
Hypothesis OK : selected_ok s plan.

(* the renamer (without override) either finds the destination free and renames, or refuses *)
Lemma renamer_cases D f t P w :
  In (f, RText t) plan -> Inv s plan D ((f, RText t) :: P) (w_fs w) ->
  match lookup (w_fs w) (dst_key f t) with
  | None => exists w1, renamer c w (pf_dir f) (pf_rel f) (new_path f t) false = (w1, None)
  | Some _ => renamer c w (pf_dir f) (pf_rel f) (new_path f t) false = (w, Some ExDestExists)
  end.
Proof.
  intros Hin I. destruct (lookup (w_fs w) (dst_key f t)) as [m|] eqn:L.
  - destruct (pending_resolves s plan W OK D f t P _ Hin I) as [n [Hn [Hnd [Rs Rd]]]]. rewrite L in Rd.
    unfold renamer, renamer_core. rewrite Cd, Cm, Cf, Cv. unfold file_renamer, guard_exists.
    cbn [fixed v_lexists_guard negb andb]. unfold lexists. rewrite Rd. reflexivity.
  - apply (renamer_free c Cm Cd Cf Cv s plan W OK D f t P w Hin I L).
Qed.

(* whatever lies at a key came from the same key or was renamed there *)
Lemma occupied D P x d m :
  Inv s plan D P x -> d <> [] -> lookup x d = Some m ->
  exists k, In (k, m) s /\ dest_of D k = d /\
    (k = d \/ exists f' t', In (f', RText t') D /\ src_key f' = k /\ dst_key f' t' = d).
Proof.
  intros I Hd L. apply lookup_In in L; [|exact Hd]. destruct I as [A _]. rewrite A in L. unfold apply_plan in L.
  apply in_map_iff in L as [[k m'] [E Hk]]. cbn [fst snd] in E. injection E as E1 E2. subst m'.
  exists k. split; [exact Hk|]. split; [exact E1|].
  destruct (dest_of_cases D k) as [E|[f' [t' [H1 [H2 H3]]]]].
  - left. congruence.
  - right. exists f', t'. split; [exact H1|]. split; [exact H2 | congruence].
Qed.

(* an occupied destination of a pending entry is a conflict of the plan *)
Lemma occupied_conflict D f t P x m :
  Inv s plan D ((f, RText t) :: P) x -> dst_key f t <> src_key f -> lookup x (dst_key f t) = Some m ->
  conflict s plan f t.
Proof.
  intros I Hne L. split; [exact Hne|].
  destruct (occupied D _ x _ m I (dst_key_nonempty f t) L) as [k [Hk [_ [E|[f' [t' [H1 [H2 H3]]]]]]]].
  - left. subst k. rewrite (In_lookup s _ _ W Hk). discriminate.
  - right. exists f', t'. pose proof I as [_ [_ [C _]]]. split; [apply C, H1|]. split; [|exact H3].
    apply (pending_not_done s plan D f t P x f' (RText t') I H1).
Qed.

(* the three containment tests pass for a pending entry whose destination is free or holds no symbolic link *)
Lemma containment_ok2 D f t P x :
  In (f, RText t) plan -> Inv s plan D ((f, RText t) :: P) x ->
  (forall i tg, lookup x (dst_key f t) <> Some (NLink i tg)) -> (length (src_key f) <= walk_fuel)%nat ->
  contained (c_var c) x f (new_path f t) = Some true /\ parents_contained x f (new_path f t) = Some true /\
  source_contained x f = Some true.
Proof.
  intros Hin I Hnl Hlen.
  pose proof (plan_entry s plan OK _ Hin) as [Hroot [_ [Hddp [_ [_ Ht]]]]].
  destruct (src_nonempty s plan OK f t Hin) as [Hp _].
  pose proof (dir_no_dotdot s plan OK f t Hin) as Hddd.
  assert (Hparts : pp_parts (pf_rel f) = removelast (pp_parts (pf_rel f)) ++ [last (pp_parts (pf_rel f)) []])
    by (symmetry; apply removelast_last_app; exact Hp).
  set (d := pf_dir f) in *. set (rp := removelast (pp_parts (pf_rel f))) in *.
  assert (Tg : (if Nat.eqb (pp_root (new_path f t)) 0 then pf_dir f ++ pp_parts (new_path f t) else pp_parts (new_path f t))
               = dst_key f t).
  { cbn [new_path pp_root pp_parts]. rewrite Hroot. reflexivity. }
  assert (Dk : dst_key f t = (d ++ rp) ++ [t]) by (unfold dst_key; rewrite app_assoc; reflexivity).
  assert (Hddrp : no_dotdot (d ++ rp) = true).
  { unfold no_dotdot in *. rewrite forallb_app. rewrite Hddd. rewrite Hparts in Hddp. rewrite forallb_app in Hddp.
    apply andb_true_iff in Hddp as [Hd1 _]. exact Hd1. }
  assert (Hddk : no_dotdot (dst_key f t) = true) by (rewrite Dk; apply no_dotdot_snoc; assumption).
  assert (Above : forall pre post, pre ++ post = (d ++ rp) ++ [t] -> post <> [] -> lookup x pre = Some NDir).
  { intros pre post E Hpost. apply (above_dirs s plan W OK D _ x f t pre I Hin).
    destruct (snoc_split _ _ _ _ E Hpost) as [r' Hr']. exists r'. exact Hr'. }
  assert (Lk : (length (dst_key f t) <= walk_fuel)%nat).
  { unfold src_key in Hlen. fold d in Hlen. rewrite Hparts in Hlen. unfold dst_key. fold d rp.
    rewrite !app_length in *. simpl in *. unfold name in *. lia. }
  assert (Hkne : dst_key f t <> []) by (rewrite Dk; destruct (d ++ rp); discriminate).
  assert (Rp : realpath x [] {| up_abs := true; up_comps := dst_key f t |} = Some (dst_key f t)).
  { apply realpath_plain; [exact Hddk | |].
    - intros pre c0 post E i tg L. destruct post as [|c1 post].
      + rewrite <- E in L. exact (Hnl i tg L).
      + assert (Z : lookup x (pre ++ [c0]) = Some NDir).
        { apply (Above (pre ++ [c0]) (c1 :: post)); [|discriminate]. rewrite <- Dk, E, <- app_assoc. reflexivity. }
        rewrite Z in L. discriminate.
    - assert (Ab : forall pre post, dst_key f t = pre ++ post -> post <> [] -> lookup x pre = Some NDir).
      { intros pre post E Hpost. apply (Above pre post); [rewrite <- Dk; symmetry; exact E | exact Hpost]. }
      destruct (lookup x (dst_key f t)) as [m|] eqn:L.
      + pose proof (resolve_plain x [] {| up_abs := true; up_comps := dst_key f t |} true) as R1.
        cbn [up_abs up_comps app] in R1. cbv zeta in R1. rewrite L in R1.
        rewrite R1; [discriminate | exact Lk | exact Hkne | exact Hddk | exact Ab |].
        right. intros i tg Z. subst m. exact (Hnl i tg eq_refl).
      + pose proof (resolve_plain x [] {| up_abs := true; up_comps := dst_key f t |} true) as R1.
        cbn [up_abs up_comps app] in R1. cbv zeta in R1. rewrite L in R1.
        rewrite R1; [discriminate | exact Lk | exact Hkne | exact Hddk | exact Ab]. }
  assert (Hpos : (0 < walk_fuel)%nat).
  { pose proof Lk as Z. rewrite Dk in Z. rewrite app_length in Z. simpl in Z. unfold name in *. lia. }
  assert (Hex : exists_ x [] {| up_abs := true; up_comps := d ++ rp |} = true).
  { unfold exists_.
    assert (Hc : d ++ rp = [] \/ d ++ rp <> []) by (destruct (d ++ rp); [left; reflexivity | right; discriminate]).
    destruct Hc as [Eq|Eq].
    - rewrite Eq. rewrite (resolve_nil x [] {| up_abs := true; up_comps := [] |} true); [reflexivity | exact Hpos | reflexivity].
    - pose proof (resolve_plain x [] {| up_abs := true; up_comps := d ++ rp |} true) as R1.
      cbn [up_abs up_comps app] in R1. cbv zeta in R1.
      assert (Z : lookup x (d ++ rp) = Some NDir).
      { apply (Above (d ++ rp) [t]); [reflexivity | discriminate]. }
      rewrite Z in R1. rewrite R1; [reflexivity | | exact Eq | exact Hddrp | | right; intros; discriminate].
      + rewrite Dk in Lk. rewrite app_length in Lk. simpl in Lk. unfold name in *. lia.
      + intros pre post E Hpost. apply (Above pre (post ++ [t])); [|destruct post; discriminate].
        rewrite app_assoc, <- E. reflexivity. }
  split; [|split].
  - unfold contained. rewrite Tg, Rp, Cv. cbn [fixed v_component_containment]. f_equal.
    apply is_prefix_path_spec. exists (rp ++ [t]). reflexivity.
  - unfold parents_contained. rewrite Tg. rewrite Dk, removelast_last.
    destruct (length (d ++ rp)); cbn [new_dirs_inside]; rewrite Hex; reflexivity.
  - unfold source_contained, source_parent. rewrite Hroot. cbn [Nat.eqb]. fold d rp.
    rewrite realpath_plain.
    + f_equal. apply is_prefix_path_spec. exists rp. reflexivity.
    + exact Hddrp.
    + intros pre c0 post E i tg L.
      assert (Z : lookup x (pre ++ [c0]) = Some NDir).
      { apply (Above (pre ++ [c0]) (post ++ [t])); [|destruct post; discriminate].
        rewrite E, <- !app_assoc. reflexivity. }
      rewrite Z in L. discriminate.
    + intros K. unfold exists_ in Hex. rewrite K in Hex. discriminate.
Qed.

(* no symbolic link at the destination of a pending entry, under [dests_plain] *)
Lemma dest_not_link D f t P x :
  dests_plain s plan -> In (f, RText t) plan -> Inv s plan D ((f, RText t) :: P) x -> dst_key f t <> src_key f ->
  (length (src_key f) <= walk_fuel)%nat /\ forall i tg, lookup x (dst_key f t) <> Some (NLink i tg).
Proof.
  intros DP Hin I Hne. destruct (DP f t Hin Hne) as [Hlen Hnl]. split; [exact Hlen|].
  intros i tg L.
  destruct (occupied D _ x _ _ I (dst_key_nonempty f t) L) as [k [Hk [_ Hor]]].
  apply (Hnl k i tg).
  - destruct Hor as [E|[f' [t' [H1 [H2 H3]]]]]; [left; exact E|].
    right. exists f', t'. pose proof I as [_ [_ [C _]]]. split; [apply C, H1 | split; assumption].
  - destruct Hor as [E|[f' [t' [H1 [H2 H3]]]]]; [congruence|].
    rewrite <- H2. apply (pending_not_done s plan D f t P x f' (RText t') I H1).
  - apply (In_lookup s _ _ W Hk).
Qed.

(* ---------- the first pass never fails when no symbolic link can lie at a destination ------------------ *)
Lemma first_pass_total : dests_plain s plan -> forall rest w cwd blE D,
  Inv s plan D (blE ++ rest) (w_fs w) ->
  exists w' cwd' D' blE',
    first_pass c rest w cwd (map pend blE) = (w', cwd', map pend blE', None) /\ Inv s plan D' blE' (w_fs w').
Proof.
  intros DP. induction rest as [|[f r] rest IH]; intros w cwd blE D I.
  - exists w, cwd, D, blE. rewrite app_nil_r in I. split; [reflexivity | exact I].
  - assert (Hin : In (f, r) plan).
    { destruct I as [_ [_ [_ [E _]]]]. apply E. apply in_or_app. right. left. reflexivity. }
    destruct (plan_text s plan OK f r Hin) as [t ->].
    assert (I1 : Inv s plan D ((f, RText t) :: blE ++ rest) (w_fs w)).
    { eapply Inv_perm; [|exact I]. apply Permutation_sym, Permutation_middle. }
    cbn [first_pass]. rewrite (chdir_stays s plan W OK D _ _ f t I Hin).
    pose proof (plan_entry s plan OK _ Hin) as [_ [_ [_ [_ [Hwn _]]]]].
    destruct (with_name_form _ _ Hwn) as [Hp Hg].
    assert (Hg' : pp_with_name (pf_rel f) t = Some (new_path f t)) by exact Hg.
    rewrite Cm. cbn [generate]. rewrite Hg'.
    destruct (ppath_eqb (new_path f t) (pf_rel f)) eqn:Eq.
    + apply (IH w _ blE D). apply (Inv_drop s plan D (f, RText t)); [|exact I1].
      cbn [skipped]. apply same_path_same_key, Eq.
    + assert (Hne : dst_key f t <> src_key f).
      { intros Z. rewrite (same_key_same_path f t Z) in Eq. discriminate. }
      destruct (dest_not_link D f t _ _ DP Hin I1 Hne) as [Hlen Hnl].
      destruct (containment_ok2 D f t _ _ Hin I1 Hnl Hlen) as [Ct [Pc Sc]]. rewrite Ct, (dest_parent_test_with_name _ _ _ _ _ Hg' Sc), Pc, Sc.
      pose proof (renamer_cases D f t _ w Hin I1) as RC.
      destruct (lookup (w_fs w) (dst_key f t)) as [m|].
      * rewrite RC. cbn [is_file_exists].
        change ((pf_dir f, pf_rel f, new_path f t) :: map pend blE) with (map pend ((f, RText t) :: blE)).
        apply (IH w _ ((f, RText t) :: blE) D). exact I1.
      * destruct RC as [w1 R]. rewrite R.
        apply (IH w1 _ blE ((f, RText t) :: D)).
        apply (renamer_step c Cm Cd Cf Cv s plan W OK D f t _ w w1 Hin I1 R).
Qed.

(* the tests run again before a deferred entry is retried (F38) say yes too, on the state it is retried in *)
Lemma retest_yes D f t P x :
  dests_plain s plan -> In (f, RText t) plan -> Inv s plan D ((f, RText t) :: P) x -> dst_key f t <> src_key f ->
  backlog_verify fixed x (pf_dir f) (pf_rel f) (new_path f t) = None.
Proof.
  intros DP Hin I Hne.
  destruct (dest_not_link D f t _ _ DP Hin I Hne) as [Hlen Hnl].
  destruct (containment_ok2 D f t _ _ Hin I Hnl Hlen) as [Ct [Pc Sc]]. rewrite Cv in Ct.
  pose proof (plan_entry s plan OK _ Hin) as [_ [_ [_ [_ [Hwn _]]]]].
  destruct (with_name_form _ _ Hwn) as [_ Hg].
  assert (Hg' : pp_with_name (pf_rel f) t = Some (new_path f t)) by exact Hg.
  apply backlog_verify_yes; [exact Ct | exact (dest_parent_test_with_name _ _ _ _ _ Hg' Sc) | exact Pc | exact Sc].
Qed.

End Gen.

(* [dests_plain] passes to a part of the plan on a part of the tree *)
Lemma dests_plain_sub s plan s1 plan1 :
  WF s -> (forall k n, In (k, n) s1 -> In (k, n) s) -> incl plan1 plan ->
  dests_plain s plan -> dests_plain s1 plan1.
Proof.
  intros W Sub C DP f t Hin Hne. destruct (DP f t (C _ Hin) Hne) as [Hlen Hnl]. split; [exact Hlen|].
  intros k i tg La Hk L. apply (Hnl k i tg).
  - destruct La as [E|[f' [t' [H1 [H2 H3]]]]]; [left; exact E|]. right. exists f', t'. split; [apply C, H1 | split; assumption].
  - exact Hk.
  - destruct k as [|a k].
    + discriminate L.
    + apply (In_lookup s _ _ W). apply Sub. apply lookup_In; [discriminate | exact L].
Qed.

(* ====================== the run, case by case ========================================================== *)
Lemma run_cases c plan cwd s :
  (exists w1 cwd1 bl e,
     first_pass c plan (init_world s (c_answers c)) cwd [] = (w1, cwd1, bl, Some e) /\
     r_error (run c plan cwd s) = Some e /\ r_final (run c plan cwd s) = w_fs w1) \/
  (exists w1 cwd1 bl w2 cwd2 e2,
     first_pass c plan (init_world s (c_answers c)) cwd [] = (w1, cwd1, bl, None) /\
     second_pass c bl w1 cwd1 = (w2, cwd2, e2) /\
     r_error (run c plan cwd s) = e2 /\ r_final (run c plan cwd s) = w_fs w2).
Proof.
  unfold run.
  destruct (first_pass c plan (init_world s (c_answers c)) cwd []) as [[[w1 cwd1] bl] e1] eqn:FP.
  destruct e1 as [e|].
  - left. exists w1, cwd1, bl, e. simpl. split; [reflexivity|]. split; reflexivity.
  - right. destruct (second_pass c bl w1 cwd1) as [[w2 cwd2] e2] eqn:SP.
    exists w1, cwd1, bl, w2, cwd2, e2. simpl. split; [reflexivity|]. split; [exact SP|]. split; reflexivity.
Qed.

Section Run.
Variable c : cfg.
Hypothesis Cm : c_mode c = MName.
Hypothesis Cd : c_dry c = false.
Hypothesis Cf : c_fault c = None.
Hypothesis Cv : c_var c = fixed.
Variable s : fs.
Variable plan : list (pfile * rendered).
Hypothesis W : WF s.
Hypothesis OK : selected_ok s plan.

(* the state of a run in which entries may have been given up: [D] renamed, [P] still to be retried *)
Definition St (D P : list (pfile * rendered)) (x : fs) : Prop :=
  x = apply_plan s D /\ WF x /\ incl (D ++ P) plan /\ NoDup (srcs (D ++ P)).

Lemma St_ok D P x : St D P x -> selected_ok s (D ++ P).
Proof. intros [_ [_ [C N]]]. apply (selected_ok_sub s plan); assumption. Qed.

Lemma St_Inv D P x : St D P x -> Inv s (D ++ P) D P x.
Proof.
  intros [A [B [C N]]]. refine (conj A (conj B (conj _ (conj _ (conj N _))))).
  - apply incl_appl, incl_refl.
  - apply incl_appr, incl_refl.
  - intros e He. apply in_app_or in He. destruct He; auto.
Qed.

Lemma Inv_St D P x : Inv s plan D P x -> St D P x.
Proof. intros [A [B [C [E [F _]]]]]. refine (conj A (conj B (conj _ F))). apply incl_app; assumption. Qed.

Lemma St_drop D e P x : St D (e :: P) x -> St D P x.
Proof.
  intros [A [B [C N]]]. refine (conj A (conj B (conj _ _))).
  - intros a Ha. apply C. apply in_app_or in Ha. apply in_or_app. destruct Ha; [left | right; right]; assumption.
  - unfold srcs in *. rewrite map_app in *. simpl in N. apply NoDup_remove_1 in N. exact N.
Qed.

Lemma St_rename D f t P w w1 :
  St D ((f, RText t) :: P) (w_fs w) ->
  renamer c w (pf_dir f) (pf_rel f) (new_path f t) false = (w1, None) ->
  St ((f, RText t) :: D) P (w_fs w1).
Proof.
  intros S R. pose proof (St_ok _ _ _ S) as OK2. pose proof (St_Inv _ _ _ S) as I.
  assert (Hin : In (f, RText t) (D ++ (f, RText t) :: P)) by (apply in_or_app; right; left; reflexivity).
  pose proof (renamer_step c Cm Cd Cf Cv s _ W OK2 D f t P w w1 Hin I R) as [A [B _]].
  destruct S as [_ [_ [C N]]]. refine (conj A (conj B (conj _ _))).
  - intros a Ha. apply C. apply (Permutation_in a (Permutation_middle D P (f, RText t))). exact Ha.
  - apply (srcs_perm (D ++ (f, RText t) :: P)); [|exact N]. apply Permutation_sym, (Permutation_middle D P (f, RText t)).
Qed.

Lemma St_in_plan D f t P x : St D ((f, RText t) :: P) x -> In (f, RText t) plan.
Proof. intros [_ [_ [C _]]]. apply C. apply in_or_app. right. left. reflexivity. Qed.

(* a conflict of the sub-plan is a conflict of the plan *)
Lemma St_conflict D f t P x m :
  St D ((f, RText t) :: P) x -> dst_key f t <> src_key f -> lookup x (dst_key f t) = Some m -> conflict s plan f t.
Proof.
  intros S Hne L. pose proof (St_ok _ _ _ S) as OK2. pose proof (St_Inv _ _ _ S) as I.
  destruct (occupied_conflict s _ W D f t P x m I Hne L) as [_ [H|[f' [t' [H1 [H2 H3]]]]]]; (split; [exact Hne|]).
  - left. exact H.
  - right. exists f', t'. destruct S as [_ [_ [C _]]]. split; [apply C, H1 | split; assumption].
Qed.

Lemma init_Inv : Inv s plan [] ([] ++ plan) (w_fs (init_world s (c_answers c))).
Proof.
  simpl. refine (conj _ (conj W (conj _ (conj _ (conj _ _))))).
  - symmetry. apply apply_plan_nil.
  - intros a [].
  - apply incl_refl.
  - destruct OK; assumption.
  - intros e He. right. right. exact He.
Qed.

(* after a first pass without error: the deferred entries all move, everything else is renamed or skipped *)
Lemma first_pass_summary cwd w1 cwd1 bl :
  first_pass c plan (init_world s (c_answers c)) cwd [] = (w1, cwd1, bl, None) ->
  exists D1 blE, bl = map pend blE /\ Inv s plan D1 blE (w_fs w1) /\
    (forall f t, In (f, RText t) blE -> dst_key f t <> src_key f).
Proof.
  intros FP.
  destruct (first_pass_inv c Cm Cd Cf Cv s plan W OK plan _ cwd [] [] _ _ _ init_Inv FP) as [D1 [blE [Ebl I1]]].
  exists D1, blE. split; [exact Ebl|]. split; [exact I1|].
  apply backlog_moving_keys. rewrite <- Ebl.
  apply (first_pass_backlog_moving c plan _ cwd [] _ _ _ _ FP). constructor.
Qed.

Lemma generate_ok f r : In (f, r) plan -> exists np, generate (c_mode c) f r = inl np.
Proof.
  intros Hin. destruct (plan_text s plan OK f r Hin) as [t ->].
  pose proof (plan_entry s plan OK _ Hin) as [_ [_ [_ [_ [Hwn _]]]]].
  destruct (with_name_form _ _ Hwn) as [_ Hg]. rewrite Cm. cbn [generate]. rewrite Hg. eexists. reflexivity.
Qed.

(* ---------- stop ------------------------------------------------------------------------------------------- *)
Lemma second_pass_stop : c_strategy c = Stop -> forall blE w cwd D w' cwd' e,
  Inv s plan D blE (w_fs w) -> (forall f t, In (f, RText t) blE -> dst_key f t <> src_key f) ->
  second_pass c (map pend blE) w cwd = (w', cwd', Some e) ->
  dests_plain s plan \/ is_file_exists e = true ->
  e = ExDestExists /\ exists f t, In (f, RText t) blE /\ In (f, RText t) plan /\ conflict s plan f t.
Proof.
  intros Cs. induction blE as [|[f r] blE IH]; intros w cwd D w' cwd' e I Mv.
  - simpl. intros E. discriminate E.
  - assert (Hin : In (f, r) plan).
    { destruct I as [_ [_ [_ [E _]]]]. apply E. left. reflexivity. }
    destruct (plan_text s plan OK f r Hin) as [t ->].
    cbn [map pend second_pass]. rewrite Cv. cbn [fixed v_backlog_chdir].
    rewrite (chdir_stays s plan W OK D _ _ f t I Hin).
    destruct (backlog_verify fixed (w_fs w) (pf_dir f) (pf_rel f) (new_path f t)) as [ev|] eqn:BV.
    { intros E [DP|Fe]; exfalso.
      - rewrite (retest_yes c Cv s plan W OK D f t blE _ DP Hin I (Mv f t (or_introl eq_refl))) in BV. discriminate BV.
      - inversion E; subst. rewrite (backlog_verify_not_exists _ _ _ _ _ _ BV) in Fe. discriminate Fe. }
    pose proof (renamer_cases c Cm Cd Cf Cv s plan W OK D f t blE w Hin I) as RC.
    destruct (lookup (w_fs w) (dst_key f t)) as [m|] eqn:L.
    + rewrite RC. cbn [is_file_exists]. unfold resolve_conflict. rewrite Cs. cbn [resolve_simple].
      intros E _. inversion E; subst. split; [reflexivity|]. exists f, t.
      split; [left; reflexivity|]. split; [exact Hin|].
      apply (occupied_conflict s plan W D f t blE _ m I); [apply Mv; left; reflexivity | exact L].
    + destruct RC as [w1 R]. rewrite R. intros E HF.
      destruct (IH w1 _ ((f, RText t) :: D) _ _ _
                  (renamer_step c Cm Cd Cf Cv s plan W OK D f t _ w w1 Hin I R)
                  (fun f0 t0 H => Mv f0 t0 (or_intror H)) E HF) as [E1 [f0 [t0 [H1 [H2 H3]]]]].
      split; [exact E1|]. exists f0, t0. split; [right; exact H1 | split; assumption].
Qed.

Theorem stop_only_on_conflict cwd e :
  c_strategy c = Stop -> r_error (run c plan cwd s) = Some e -> is_file_exists e = true ->
  exists f t, In (f, RText t) plan /\ conflict s plan f t.
Proof.
  intros Cs Er Fe.
  destruct (run_cases c plan cwd s) as [[w1 [cwd1 [bl [e1 [FP [E1 _]]]]]]|[w1 [cwd1 [bl [w2 [cwd2 [e2 [FP [SP [E2 _]]]]]]]]]].
  - rewrite E1 in Er. inversion Er; subst e1.
    destruct (first_pass_no_exists _ _ _ _ _ _ _ _ _ FP) as [H|[f [r [Hin G]]]]; [congruence|].
    destruct (generate_ok f r Hin) as [np Hg]. congruence.
  - rewrite E2 in Er. subst e2.
    destruct (first_pass_summary cwd _ _ _ FP) as [D1 [blE [-> [I1 Mv]]]].
    destruct (second_pass_stop Cs blE _ _ _ _ _ _ I1 Mv SP (or_intror Fe)) as [_ [f [t [_ [H2 H3]]]]].
    exists f, t. split; assumption.
Qed.

(* the failing entry is the backlog entry the second pass stopped at: it is an entry of the plan *)
Theorem stop_error_names_plan_entry cwd w1 cwd1 bl w2 cwd2 e :
  c_strategy c = Stop ->
  first_pass c plan (init_world s (c_answers c)) cwd [] = (w1, cwd1, bl, None) ->
  second_pass c bl w1 cwd1 = (w2, cwd2, Some e) ->
  dests_plain s plan \/ is_file_exists e = true ->
  e = ExDestExists /\
  exists f t, In (pf_dir f, pf_rel f, new_path f t) bl /\ In (f, RText t) plan /\ conflict s plan f t.
Proof.
  intros Cs FP SP HF. destruct (first_pass_summary cwd _ _ _ FP) as [D1 [blE [-> [I1 Mv]]]].
  destruct (second_pass_stop Cs blE _ _ _ _ _ _ I1 Mv SP HF) as [E [f [t [H1 [H2 H3]]]]].
  split; [exact E|]. exists f, t. split; [|split; assumption].
  change (pf_dir f, pf_rel f, new_path f t) with (pend (f, RText t)). apply in_map. exact H1.
Qed.

Lemma all_free_no_conflict f t : all_free s plan -> In (f, RText t) plan -> ~ conflict s plan f t.
Proof.
  intros [AF1 AF2] Hin [Hne [H|[f' [t' [H1 [H2 H3]]]]]].
  - destruct (AF1 f t Hin Hne) as [Z _]. contradiction.
  - destruct (rpath_eqb (dst_key f' t') (src_key f')) eqn:Sk.
    + apply rpath_eqb_eq in Sk. destruct (AF1 f t Hin Hne) as [Z _].
      destruct (src_entry s plan OK f' t' H1) as [n [Hn _]]. rewrite <- H3, Sk in Z.
      rewrite (In_lookup s _ _ W Hn) in Z. discriminate.
    + apply rpath_eqb_neq in Sk. apply H2. symmetry. apply (AF2 f t f' t' Hin H1 Hne Sk). symmetry. exact H3.
Qed.

Theorem stop_no_conflict_no_dest_error cwd e :
  c_strategy c = Stop -> (forall f t, In (f, RText t) plan -> ~ conflict s plan f t) ->
  is_file_exists e = true -> r_error (run c plan cwd s) <> Some e.
Proof.
  intros Cs NC Fe Er. destruct (stop_only_on_conflict cwd e Cs Er Fe) as [f [t [H1 H2]]]. exact (NC f t H1 H2).
Qed.

(* ---------- ignore ----------------------------------------------------------------------------------------- *)
(* a re-test of a deferred entry that says no ends the run (F38): the second pass is described for the case
   that it ends without error, which is what happens under [dests_plain] *)
Lemma second_pass_ignore : c_strategy c = Ignore -> forall blE w cwd D,
  St D blE (w_fs w) -> (forall f t, In (f, RText t) blE -> dst_key f t <> src_key f) ->
  exists w' cwd' e,
    second_pass c (map pend blE) w cwd = (w', cwd', e) /\ (dests_plain s plan -> e = None) /\
    (e = None -> exists D', St D' [] (w_fs w') /\ incl D D' /\
      (forall f t, In (f, RText t) blE -> In (f, RText t) D' \/ conflict s plan f t)).
Proof.
  intros Cs. induction blE as [|[f r] blE IH]; intros w cwd D S Mv.
  - exists w, cwd, None. split; [reflexivity|]. split; [reflexivity|]. intros _.
    exists D. split; [exact S|]. split; [apply incl_refl|]. intros f t [].
  - assert (Hin : In (f, r) plan).
    { destruct S as [_ [_ [C _]]]. apply C. apply in_or_app. right. left. reflexivity. }
    destruct (plan_text s plan OK f r Hin) as [t ->].
    pose proof (St_ok _ _ _ S) as OK2. pose proof (St_Inv _ _ _ S) as I.
    assert (Hin2 : In (f, RText t) (D ++ (f, RText t) :: blE)) by (apply in_or_app; right; left; reflexivity).
    cbn [map pend second_pass]. rewrite Cv. cbn [fixed v_backlog_chdir].
    rewrite (chdir_stays s _ W OK2 D _ _ f t I Hin2).
    destruct (backlog_verify fixed (w_fs w) (pf_dir f) (pf_rel f) (new_path f t)) as [ev|] eqn:BV.
    { exists w, (pf_dir f), (Some ev). split; [reflexivity|]. split; [|discriminate].
      intros DP. exfalso.
      assert (DP2 : dests_plain s (D ++ (f, RText t) :: blE)).
      { destruct S as [_ [_ [C _]]]. exact (dests_plain_sub s plan s _ W (fun k n H => H) C DP). }
      rewrite (retest_yes c Cv s _ W OK2 D f t blE _ DP2 Hin2 I (Mv f t (or_introl eq_refl))) in BV. discriminate BV. }
    pose proof (renamer_cases c Cm Cd Cf Cv s _ W OK2 D f t blE w Hin2 I) as RC.
    destruct (lookup (w_fs w) (dst_key f t)) as [m|] eqn:L.
    + rewrite RC. cbn [is_file_exists]. unfold resolve_conflict. rewrite Cs. cbn [resolve_simple].
      destruct (IH w (pf_dir f) D (St_drop _ _ _ _ S) (fun f0 t0 H => Mv f0 t0 (or_intror H)))
        as [w' [cwd' [e' [SP [He X]]]]].
      exists w', cwd', e'. split; [exact SP|]. split; [exact He|]. intros En.
      destruct (X En) as [D' [S' [Inc Cov]]].
      exists D'. split; [exact S'|]. split; [exact Inc|].
      intros f0 t0 [H|H]; [|apply Cov, H]. inversion H; subst f0 t0. right.
      apply (St_conflict D f t blE _ m S); [apply Mv; left; reflexivity | exact L].
    + destruct RC as [w1 R]. rewrite R.
      destruct (IH w1 (pf_dir f) ((f, RText t) :: D) (St_rename D f t blE w w1 S R)
                  (fun f0 t0 H => Mv f0 t0 (or_intror H))) as [w' [cwd' [e' [SP [He X]]]]].
      exists w', cwd', e'. split; [exact SP|]. split; [exact He|]. intros En.
      destruct (X En) as [D' [S' [Inc Cov]]].
      exists D'. split; [exact S'|].
      split; [intros a Ha; apply Inc; right; exact Ha|].
      intros f0 t0 [H|H]; [|apply Cov, H]. inversion H; subst f0 t0. left. apply Inc. left. reflexivity.
Qed.

(* what a run under ignore that reports no error has done *)
Theorem ignore_outcome cwd :
  c_strategy c = Ignore -> r_error (run c plan cwd s) = None ->
  exists D, r_final (run c plan cwd s) = apply_plan s D /\ WF (r_final (run c plan cwd s)) /\
    incl D plan /\ NoDup (srcs D) /\
    forall f t, In (f, RText t) plan -> dst_key f t = src_key f \/ In (f, RText t) D \/ conflict s plan f t.
Proof.
  intros Cs Er.
  destruct (run_cases c plan cwd s) as [[w1 [cwd1 [bl [e1 [FP [E1 _]]]]]]|[w1 [cwd1 [bl [w2 [cwd2 [e2 [FP [SP [E2 Fin]]]]]]]]]].
  - congruence.
  - rewrite Fin. destruct (first_pass_summary cwd _ _ _ FP) as [D1 [blE [-> [I1 Mv]]]].
    destruct (second_pass_ignore Cs blE w1 cwd1 D1 (Inv_St _ _ _ I1) Mv) as [w' [cwd' [e' [SP' [_ X]]]]].
    rewrite SP' in SP. inversion SP; subst w' cwd' e'.
    destruct (X (eq_trans (eq_sym E2) Er)) as [D' [S' [Inc Cov]]].
    destruct S' as [A [B [C N]]]. rewrite app_nil_r in C, N.
    exists D'. split; [exact A|]. split; [exact B|]. split; [exact C|]. split; [exact N|].
    intros f t Hin. destruct I1 as [_ [_ [_ [_ [_ G]]]]].
    destruct (G _ Hin) as [Sk|[H|H]].
    + left. exact Sk.
    + right. left. apply Inc, H.
    + right. apply Cov, H.
Qed.

Theorem ignore_exit0 cwd :
  c_strategy c = Ignore -> dests_plain s plan -> r_error (run c plan cwd s) = None.
Proof.
  intros Cs DP.
  destruct (first_pass_total c Cm Cd Cf Cv s plan W OK DP plan _ cwd [] [] init_Inv) as [w1 [cwd1 [D1 [blE [FP I1]]]]].
  cbn [map] in FP.
  destruct (first_pass_summary cwd _ _ _ FP) as [D1' [blE' [Ebl [I1' Mv]]]].
  destruct (second_pass_ignore Cs blE' w1 cwd1 D1' (Inv_St _ _ _ I1') Mv) as [w' [cwd' [e' [SP' [He _]]]]].
  rewrite (He DP) in SP'.
  destruct (run_cases c plan cwd s) as [[w1a [cwd1a [bla [e1 [FPa _]]]]]|[w1a [cwd1a [bla [w2 [cwd2 [e2 [FPa [SP [E2 _]]]]]]]]]].
  - rewrite FP in FPa. discriminate FPa.
  - rewrite FP in FPa. inversion FPa; subst w1a cwd1a bla. rewrite E2. rewrite Ebl, SP' in SP. congruence.
Qed.

(* an entry of the final list of renamed entries is at its destination with its node *)
Lemma renamed_at_destination D x f t :
  St D [] x -> In (f, RText t) D ->
  exists n, In (src_key f, n) s /\ is_dir_node n = false /\ lookup x (dst_key f t) = Some n.
Proof.
  intros S Hin. pose proof (St_ok _ _ _ S) as OK2. destruct S as [A [B [C N]]]. rewrite app_nil_r in *.
  destruct (src_entry s D OK2 f t Hin) as [n [Hn Hnd]]. exists n. split; [exact Hn|]. split; [exact Hnd|].
  apply In_lookup; [exact B|]. rewrite A. unfold apply_plan. apply in_map_iff. exists (src_key f, n). cbn [fst snd].
  rewrite (dest_of_sub s D OK2 D f t (incl_refl _) Hin). split; [reflexivity | exact Hn].
Qed.

(* what lies at the source key of a renamed entry at the end was renamed there *)
Lemma renamed_source_key D x f t m :
  St D [] x -> In (f, RText t) D -> dst_key f t <> src_key f -> lookup x (src_key f) = Some m ->
  exists f' t', In (f', RText t') D /\ dst_key f' t' = src_key f /\ In (src_key f', m) s.
Proof.
  intros S Hin Hne L. pose proof (St_ok _ _ _ S) as OK2. pose proof (St_Inv _ _ _ S) as I.
  rewrite app_nil_r in OK2, I.
  destruct (src_nonempty s D OK2 f t Hin) as [_ Hk].
  destruct (occupied s D D [] x _ m I Hk L) as [k [Hkm [Ed [E|[f' [t' [H1 [H2 H3]]]]]]]].
  - exfalso. subst k. rewrite (dest_of_sub s D OK2 D f t (incl_refl _) Hin) in Ed. contradiction.
  - exists f', t'. split; [exact H1|]. split; [exact H3|]. rewrite H2. exact Hkm.
Qed.

Theorem ignore_free_renamed cwd f t :
  c_strategy c = Ignore -> r_error (run c plan cwd s) = None ->
  In (f, RText t) plan -> free_entry s plan f t ->
  lookup (r_final (run c plan cwd s)) (dst_key f t) = lookup s (src_key f) /\
  ((forall f' t', In (f', RText t') plan -> dst_key f' t' <> src_key f) ->
   lookup (r_final (run c plan cwd s)) (src_key f) = None).
Proof.
  intros Cs Er Hin [Fr1 Fr2].
  destruct (ignore_outcome cwd Cs Er) as [D [A [B [C [N Cov]]]]].
  assert (S : St D [] (r_final (run c plan cwd s))).
  { refine (conj A (conj B (conj _ _))); rewrite app_nil_r; assumption. }
  destruct (src_entry s plan OK f t Hin) as [n [Hn Hnd]].
  assert (Hne : dst_key f t <> src_key f).
  { intros Z. rewrite Z in Fr1. rewrite (In_lookup s _ _ W Hn) in Fr1. discriminate. }
  assert (HD : In (f, RText t) D).
  { destruct (Cov f t Hin) as [Z|[Z|[_ [Z|[f' [t' [H1 [H2 H3]]]]]]]]; [contradiction | exact Z | contradiction |].
    exfalso. apply H2. apply (Fr2 f' t' H1 H3). }
  destruct (renamed_at_destination D _ f t S HD) as [n' [Hn' [_ L]]].
  pose proof W as [ND _]. rewrite (In_unique s _ _ _ ND Hn' Hn) in L.
  split; [rewrite L; symmetry; exact (In_lookup s _ _ W Hn)|].
  intros NoIn. destruct (lookup (r_final (run c plan cwd s)) (src_key f)) as [m|] eqn:Lm; [|reflexivity].
  exfalso. destruct (renamed_source_key D _ f t m S HD Hne Lm) as [f' [t' [H1 [H2 _]]]].
  apply (NoIn f' t' (C _ H1) H2).
Qed.

(* an entry that is not at its destination at the end had a conflicting destination *)
Theorem ignore_not_renamed_had_conflict cwd f t :
  c_strategy c = Ignore -> r_error (run c plan cwd s) = None ->
  In (f, RText t) plan ->
  lookup (r_final (run c plan cwd s)) (dst_key f t) <> lookup s (src_key f) ->
  conflict s plan f t.
Proof.
  intros Cs Er Hin Hnot.
  destruct (ignore_outcome cwd Cs Er) as [D [A [B [C [N Cov]]]]].
  assert (S : St D [] (r_final (run c plan cwd s))).
  { refine (conj A (conj B (conj _ _))); rewrite app_nil_r; assumption. }
  destruct (src_entry s plan OK f t Hin) as [n [Hn Hnd]].
  destruct (rpath_eqb (src_key f) (dst_key f t)) eqn:Sk.
  - (* the entry kept its name: its key is untouched unless it is in D, where it maps to itself *)
    exfalso. apply rpath_eqb_eq in Sk. apply Hnot. rewrite (In_lookup s _ _ W Hn).
    apply In_lookup; [exact B|]. rewrite A. unfold apply_plan. apply in_map_iff. exists (src_key f, n). cbn [fst snd].
    split; [|exact Hn]. f_equal.
    destruct (dest_of_cases D (src_key f)) as [E|[f' [t' [H1 [H2 H3]]]]]; [congruence|].
    pose proof (plan_functional s plan OK f t f' (RText t') Hin (C _ H1) H2) as X. inversion X; subst f' t'. congruence.
  - apply rpath_eqb_neq in Sk.
    destruct (Cov f t Hin) as [Z|[Z|Z]]; [congruence | | exact Z].
    exfalso. apply Hnot. destruct (renamed_at_destination D _ f t S Z) as [n' [Hn' [_ L]]].
    rewrite L. symmetry. apply (In_lookup s _ _ W Hn').
Qed.

(* an entry still at its source key (nothing else was renamed onto that key) had a conflicting destination *)
Theorem ignore_left_had_conflict cwd f t :
  c_strategy c = Ignore -> r_error (run c plan cwd s) = None ->
  In (f, RText t) plan -> dst_key f t <> src_key f ->
  lookup (r_final (run c plan cwd s)) (src_key f) = lookup s (src_key f) ->
  (forall f' t', In (f', RText t') plan -> dst_key f' t' = src_key f -> lookup s (src_key f') <> lookup s (src_key f)) ->
  conflict s plan f t.
Proof.
  intros Cs Er Hin Hne Hat NoTwin.
  destruct (ignore_outcome cwd Cs Er) as [D [A [B [C [N Cov]]]]].
  assert (S : St D [] (r_final (run c plan cwd s))).
  { refine (conj A (conj B (conj _ _))); rewrite app_nil_r; assumption. }
  destruct (Cov f t Hin) as [Z|[Z|Z]]; [contradiction | | exact Z].
  exfalso. destruct (src_entry s plan OK f t Hin) as [n [Hn Hnd]].
  rewrite (In_lookup s _ _ W Hn) in Hat.
  destruct (renamed_source_key D _ f t n S Z Hne Hat) as [f' [t' [H1 [H2 H3]]]].
  apply (NoTwin f' t' (C _ H1) H2). rewrite (In_lookup s _ _ W Hn), (In_lookup s _ _ W H3). reflexivity.
Qed.

End Run.

(* ====================== override: replacing a non-directory by a non-directory ======================== *)
Lemma assoc_remove_key_same p x : assoc (remove_key p x) p = None.
Proof.
  induction x as [|[k n] x IH]; [reflexivity|]. unfold remove_key in *. cbn [filter fst].
  destruct (rpath_eqb k p) eqn:E; cbn [negb]; [exact IH|]. cbn [assoc]. rewrite E. exact IH.
Qed.

Lemma assoc_remove_key_other p q x : q <> p -> assoc (remove_key p x) q = assoc x q.
Proof.
  intros Hne. induction x as [|[k n] x IH]; [reflexivity|]. unfold remove_key in *. cbn [filter fst].
  destruct (rpath_eqb k p) eqn:E; cbn [negb].
  - apply rpath_eqb_eq in E. subst k. cbn [assoc].
    destruct (rpath_eqb p q) eqn:E2; [apply rpath_eqb_eq in E2; congruence | exact IH].
  - cbn [assoc]. destruct (rpath_eqb k q); [reflexivity | exact IH].
Qed.

Lemma lookup_remove_key_same p x : p <> [] -> lookup (remove_key p x) p = None.
Proof. destruct p; [congruence|]. intros _. apply assoc_remove_key_same. Qed.

Lemma lookup_remove_key_other p q x : q <> p -> lookup (remove_key p x) q = lookup x q.
Proof. intros H. destruct q; [reflexivity|]. apply assoc_remove_key_other, H. Qed.

Lemma In_remove_key p x k n : In (k, n) (remove_key p x) <-> In (k, n) x /\ k <> p.
Proof.
  unfold remove_key. rewrite filter_In. cbn [fst]. split; intros [A B]; (split; [exact A|]).
  - apply negb_true_iff in B. apply rpath_eqb_neq in B. exact B.
  - apply negb_true_iff. apply rpath_eqb_neq. exact B.
Qed.

Lemma NoDup_map_filter {A B} (g : A -> B) (p : A -> bool) (l : list A) : NoDup (map g l) -> NoDup (map g (filter p l)).
Proof.
  induction l as [|a l IH]; simpl; intros ND; [constructor|]. inversion ND as [|? ? Ha ND']; subst.
  destruct (p a); [|apply IH, ND']. simpl. constructor; [|apply IH, ND'].
  intros K. apply Ha. apply in_map_iff in K as [y [E Hy]]. apply filter_In in Hy as [Hy _].
  apply in_map_iff. exists y. split; assumption.
Qed.

(* removing a non-directory entry keeps the tree well-formed *)
Lemma WF_remove_key p m x : WF x -> In (p, m) x -> is_dir_node m = false -> WF (remove_key p x).
Proof.
  intros [ND CL] Hp Hm. split.
  - unfold remove_key. apply NoDup_map_filter, ND.
  - intros k n Hk. apply In_remove_key in Hk as [Hk Hkp]. destruct (CL _ _ Hk) as [Hne C]. split; [exact Hne|].
    intros q Hq Pq. apply In_remove_key. split; [apply C; assumption|].
    intros Z. subst q. pose proof (C p Hq Pq) as Hd. rewrite (In_unique x p m NDir ND Hp Hd) in Hm. discriminate.
Qed.

Lemma os_rename_replace_ok x cwd src dst sp sn dp dn :
  resolve x cwd src false = WFound sp sn -> sp <> [] -> is_dir_node sn = false ->
  resolve x cwd dst false = WFound dp dn -> dp <> [] -> dp <> sp -> is_dir_node dn = false ->
  bad_last src = false -> bad_last dst = false ->
  os_rename x cwd src dst = SOk (rekey sp dp (remove_key dp x)).
Proof.
  intros Rs Hsp Hnd Rd Hdp Hne Hdn B1 B2. unfold os_rename. rewrite B1, B2, Rs, Rd. cbn [orb].
  destruct sp as [|a sp]; [congruence|].
  destruct (rpath_eqb dp (a :: sp)) eqn:E; [apply rpath_eqb_eq in E; congruence|].
  destruct dp as [|b dp]; [congruence|].
  destruct sn, dn; try discriminate; reflexivity.
Qed.

(* deleting the key [dp] of the current tree = deleting, in the base tree, the key whose node lies there *)
Lemma remove_key_apply_plan s D k0 m dp :
  NoDup (map fst (apply_plan s D)) -> In (k0, m) s -> dest_of D k0 = dp ->
  remove_key dp (apply_plan s D) = apply_plan (remove_key k0 s) D.
Proof.
  intros ND Hk0 Ed.
  assert (Iff : forall k n, In (k, n) s -> (dest_of D k = dp <-> k = k0)).
  { intros k n Hk. split; [|intros ->; exact Ed]. intros E.
    unfold apply_plan in ND. rewrite map_map in ND. cbn [fst] in ND.
    assert (X : (k, n) = (k0, m)).
    { apply (NoDup_map_inj_in (fun e => dest_of D (fst e)) s _ _ ND Hk Hk0). cbn [fst]. congruence. }
    inversion X. reflexivity. }
  clear ND Hk0. unfold remove_key, apply_plan.
  induction s as [|[k n] s IH]; [reflexivity|]. cbn [map filter fst snd].
  assert (IH' : filter (fun e => negb (rpath_eqb (fst e) dp)) (map (fun e => (dest_of D (fst e), snd e)) s) =
                map (fun e => (dest_of D (fst e), snd e)) (filter (fun e => negb (rpath_eqb (fst e) k0)) s)).
  { apply IH. intros k' n' H'. apply (Iff k' n'). right. exact H'. }
  destruct (Iff k n (or_introl eq_refl)) as [I1 I2].
  destruct (rpath_eqb (dest_of D k) dp) eqn:E1, (rpath_eqb k k0) eqn:E2; cbn [negb map fst snd].
  - exact IH'.
  - exfalso. apply rpath_eqb_eq in E1. apply rpath_eqb_neq in E2. exact (E2 (I1 E1)).
  - exfalso. apply rpath_eqb_neq in E1. apply rpath_eqb_eq in E2. exact (E1 (I2 E2)).
  - rewrite IH'. reflexivity.
Qed.

Lemma dest_of_filter D k0 k :
  k <> k0 -> dest_of (filter (fun a => negb (rpath_eqb (src_key (fst a)) k0)) D) k = dest_of D k.
Proof.
  intros Hne. induction D as [|[f r] D IH]; [reflexivity|]. cbn [filter fst].
  destruct (rpath_eqb (src_key f) k0) eqn:E; cbn [negb].
  - apply rpath_eqb_eq in E. destruct r as [t|t|ex]; cbn [dest_of]; try exact IH.
    destruct (rpath_eqb (src_key f) k) eqn:E2; [apply rpath_eqb_eq in E2; congruence | exact IH].
  - destruct r as [t|t|ex]; cbn [dest_of]; try exact IH. destruct (rpath_eqb (src_key f) k); [reflexivity | exact IH].
Qed.

Lemma apply_plan_ext s D D' :
  (forall k n, In (k, n) s -> dest_of D k = dest_of D' k) -> apply_plan s D = apply_plan s D'.
Proof. intros H. unfold apply_plan. apply map_ext_in. intros [k n] Hk. cbn [fst snd]. f_equal. apply (H k n Hk). Qed.

(* the input directory stays where it is as long as directories do *)
Lemma chdir_transfer s x d :
  WF s -> chdir s d = Some d -> (forall q, In (q, NDir) s -> lookup x q = Some NDir) -> chdir x d = Some d.
Proof.
  intros W Hcd Dirs.
  assert (Hlen : (length d <= walk_fuel /\ 0 < walk_fuel)%nat).
  { unfold chdir in Hcd.
    destruct (resolve s [] {| up_abs := true; up_comps := d |} true) as [p n|? ?|?] eqn:R; try discriminate.
    apply resolve_found_fuel in R. exact R. }
  assert (Hdd : no_dotdot d = true).
  { unfold chdir in Hcd.
    destruct (resolve s [] {| up_abs := true; up_comps := d |} true) as [p [i|i tg|]|? ?|?] eqn:R; try discriminate.
    injection Hcd as Ep. apply resolve_found_no_dotdot in R; [|reflexivity]. rewrite Ep in R. exact R. }
  assert (Hd : lookup s d = Some NDir).
  { unfold chdir in Hcd.
    destruct (resolve s [] {| up_abs := true; up_comps := d |} true) as [p [i|i tg|]|? ?|?] eqn:R; try discriminate.
    injection Hcd as Ep. apply resolve_found in R. rewrite Ep in R. exact R. }
  assert (Hpre : forall q, (exists r, d = q ++ r) -> lookup x q = Some NDir).
  { intros q Hq. destruct q as [|a q]; [reflexivity|]. apply Dirs.
    apply (prefix_of_dir s d (a :: q) W Hd); [discriminate | exact Hq]. }
  unfold chdir. destruct d as [|a d].
  - rewrite (resolve_nil x [] {| up_abs := true; up_comps := [] |} true); [reflexivity | lia | reflexivity].
  - pose proof (resolve_plain x [] {| up_abs := true; up_comps := a :: d |} true) as R.
    cbn [up_abs up_comps] in R. cbv zeta in R.
    assert (L : lookup x ([] ++ a :: d) = Some NDir) by (apply Hpre; exists []; rewrite app_nil_r; reflexivity).
    rewrite L in R. rewrite R; [reflexivity | lia | discriminate | exact Hdd | | right; intros; discriminate].
    intros pre post E _. apply Hpre. exists post. exact E.
Qed.

Lemma chdir_dir s d : chdir s d = Some d -> lookup s d = Some NDir.
Proof.
  unfold chdir. destruct (resolve s [] {| up_abs := true; up_comps := d |} true) as [p [i|i tg|]|? ?|?] eqn:R; try discriminate.
  intros Ep. injection Ep as Ep. apply resolve_found in R. rewrite Ep in R. exact R.
Qed.

(* an entry that is selectable in a tree is selectable after another non-directory entry is deleted *)
Lemma entry_ok_remove s k0 m f t :
  WF s -> In (k0, m) s -> is_dir_node m = false -> src_key f <> k0 ->
  entry_ok s (f, RText t) -> entry_ok (remove_key k0 s) (f, RText t).
Proof.
  intros W Hk0 Hm Hne E.
  assert (OK1 : selected_ok s [(f, RText t)]).
  { split; [constructor; [exact E | constructor]|]. simpl. constructor; [intros [] | constructor]. }
  assert (Hin : In (f, RText t) [(f, RText t)]) by (left; reflexivity).
  destruct (src_entry s _ OK1 f t Hin) as [n [Hn Hnd]].
  destruct (src_nonempty s _ OK1 f t Hin) as [Hp _].
  pose proof (src_length s _ OK1 f t Hin) as Hlen.
  pose proof (WF_remove_key k0 m s W Hk0 Hm) as W2.
  pose proof W as [ND _].
  assert (Dirs : forall q, In (q, NDir) s -> lookup (remove_key k0 s) q = Some NDir).
  { intros q Hq. apply In_lookup; [exact W2|]. apply In_remove_key. split; [exact Hq|].
    intros Z. subst q. rewrite (In_unique s k0 m NDir ND Hk0 Hq) in Hm. discriminate. }
  destruct E as [Hroot [Hcd [Hdd [Hsel [Hwn Ht]]]]].
  pose proof (chdir_transfer s _ _ W Hcd Dirs) as Hcd2.
  refine (conj Hroot (conj Hcd2 (conj Hdd (conj _ (conj Hwn Ht))))).
  rewrite (lookup_selected_node (remove_key k0 s) f n W2 Hroot (chdir_dir _ _ Hcd2) Hdd Hp Hlen); [discriminate | | exact Hnd].
  apply In_lookup; [exact W2|]. apply In_remove_key. split; assumption.
Qed.

Section GenOverride.
Variable c : cfg.
Hypothesis Cm : c_mode c = MName.
Hypothesis Cd : c_dry c = false.
Hypothesis Cf : c_fault c = None.
Hypothesis Cv : c_var c = fixed.
Variable s : fs.
Variable plan : list (pfile * rendered).
Hypothesis W : WF s.
Hypothesis OK : selected_ok s plan.

(* the renamer with override, for a pending entry whose destination holds a non-directory: the node that lay there
   (it came from the key [k0] of the base tree) disappears, everything else is as for a rename onto a free name *)
Lemma override_step D f t P w m :
  In (f, RText t) plan -> Inv s plan D ((f, RText t) :: P) (w_fs w) ->
  dst_key f t <> src_key f -> lookup (w_fs w) (dst_key f t) = Some m -> is_dir_node m = false ->
  exists k0 w1,
    In (k0, m) s /\ dest_of D k0 = dst_key f t /\ k0 <> src_key f /\
    (k0 = dst_key f t \/ exists f' t', In (f', RText t') D /\ src_key f' = k0 /\ dst_key f' t' = dst_key f t) /\
    renamer c w (pf_dir f) (pf_rel f) (new_path f t) true = (w1, None) /\
    w_fs w1 = apply_plan (remove_key k0 s) ((f, RText t) :: D) /\ WF (w_fs w1).
Proof.
  intros Hin I Hne L Hm.
  destruct (occupied s plan D _ _ _ m I (dst_key_nonempty f t) L) as [k0 [Hk0 [Ed Hor]]].
  assert (Hk0s : k0 <> src_key f).
  { destruct Hor as [E|[f' [t' [H1 [H2 H3]]]]]; [congruence|].
    rewrite <- H2. apply (pending_not_done s plan D f t P _ f' (RText t') I H1). }
  pose proof (plan_entry s plan OK _ Hin) as [Hroot [_ [Hddp [_ [Hwn Ht]]]]].
  destruct (src_nonempty s plan OK f t Hin) as [Hp Hsk].
  destruct (with_name_form _ _ Hwn) as [_ Hg].
  destruct (pending_resolves s plan W OK D f t P _ Hin I) as [n [Hn [Hnd [Rs Rd]]]]. rewrite L in Rd.
  assert (PE : ppath_eqb (pp_parent (pf_rel f)) (pp_parent (new_path f t)) = true).
  { apply ppath_eqb_spec. symmetry. apply (with_name_same_parent (pf_rel f) t (new_path f t)). exact Hg. }
  assert (B1 : bad_last (to_upath (pf_rel f)) = false).
  { rewrite (to_upath_rel _ Hroot). rewrite <- (removelast_last_app (pp_parts (pf_rel f)) [] Hp).
    apply bad_last_snoc. unfold no_dotdot in Hddp. rewrite <- (removelast_last_app (pp_parts (pf_rel f)) [] Hp) in Hddp.
    rewrite forallb_app in Hddp. apply andb_true_iff in Hddp as [_ Hl]. simpl in Hl. rewrite andb_true_r in Hl.
    apply negb_true_iff. exact Hl. }
  assert (B2 : bad_last (to_upath (new_path f t)) = false).
  { assert (Hroot' : pp_root (new_path f t) = 0%nat) by exact Hroot. rewrite (to_upath_rel _ Hroot').
    cbn [new_path pp_parts]. apply bad_last_snoc. exact Ht. }
  pose proof (os_rename_replace_ok _ _ _ _ _ _ _ _ Rs Hsk Hnd Rd (dst_key_nonempty f t) Hne Hm B1 B2) as Ren.
  pose proof I as [A [WFx [_ [_ [F _]]]]].
  set (s2 := remove_key k0 s). set (x2 := apply_plan s2 D).
  assert (E1 : remove_key (dst_key f t) (w_fs w) = x2).
  { rewrite A. apply (remove_key_apply_plan s D k0 m); [rewrite <- A; destruct WFx; assumption | exact Hk0 | exact Ed]. }
  assert (WF2 : WF x2).
  { rewrite <- E1. apply (WF_remove_key _ m); [exact WFx | apply lookup_In; [apply dst_key_nonempty | exact L] | exact Hm]. }
  assert (I2 : Inv s2 (D ++ (f, RText t) :: P) D ((f, RText t) :: P) x2).
  { refine (conj eq_refl (conj WF2 (conj _ (conj _ (conj F _))))).
    - apply incl_appl, incl_refl.
    - apply incl_appr, incl_refl.
    - intros e He. apply in_app_or in He. destruct He; auto. }
  assert (Hn2 : In (src_key f, n) s2).
  { apply In_remove_key. split; [exact Hn | congruence]. }
  pose proof (rekey_apply s2 _ D f t P x2 n I2 Hn2 Hnd) as E2.
  destruct (pending_stays s2 _ D f t P x2 n I2 Hn2) as [_ Hnx2].
  set (dpar := pf_dir f ++ removelast (pp_parts (pf_rel f))).
  assert (Hpar : lookup (w_fs w) dpar = Some NDir).
  { apply (above_dirs s plan W OK D _ _ f t dpar I Hin). exists []. rewrite app_nil_r. reflexivity. }
  assert (Hpar2 : lookup x2 dpar = Some NDir).
  { rewrite <- E1. rewrite lookup_remove_key_other; [exact Hpar|].
    intros Z. rewrite Z in Hpar. rewrite L in Hpar. inversion Hpar; subst m. discriminate. }
  assert (Hnone : lookup x2 (dpar ++ [t]) = None).
  { rewrite <- E1. unfold dpar. rewrite <- dst_key_snoc. apply lookup_remove_key_same, dst_key_nonempty. }
  assert (WF3 : WF (rekey (src_key f) (dst_key f t) x2)).
  { rewrite dst_key_snoc. fold dpar.
    apply (rename_missing_preserves x2 (src_key f) n dpar t WF2 Hsk Hnx2 Hpar2 Hnone). rewrite Hnd. reflexivity. }
  exists k0, (add_report (set_fs w (rekey (src_key f) (dst_key f t) (remove_key (dst_key f t) (w_fs w))) (CRename, COk))
                (pf_rel f) (new_path f t) true).
  split; [exact Hk0|]. split; [exact Ed|]. split; [exact Hk0s|]. split; [exact Hor|]. split; [|split].
  - unfold renamer, renamer_core. rewrite Cd, Cm, Cf, Cv. unfold file_renamer, guard_exists.
    cbn [fixed v_lexists_guard negb andb]. rewrite PE. cbn [negb]. unfold sys, faulted. rewrite Ren. reflexivity.
  - cbn [add_report set_fs w_fs]. rewrite E1. exact E2.
  - cbn [add_report set_fs w_fs]. rewrite E1. exact WF3.
Qed.

End GenOverride.

Lemma filter_all {A} (p : A -> bool) (l : list A) : (forall a, In a l -> p a = true) -> filter p l = l.
Proof.
  induction l as [|a l IH]; intros H; [reflexivity|]. simpl. rewrite (H a (or_introl eq_refl)). f_equal.
  apply IH. intros b Hb. apply H. right. exact Hb.
Qed.

Lemma NoDup_app_r {A} (l l' : list A) : NoDup (l ++ l') -> NoDup l'.
Proof. induction l as [|a l IH]; simpl; intros N; [exact N|]. inversion N; subst. apply IH. assumption. Qed.

Lemma srcs_disjoint (D Q : list (pfile * rendered)) a b :
  NoDup (srcs (D ++ Q)) -> In a D -> In b Q -> src_key (fst a) <> src_key (fst b).
Proof.
  unfold srcs. induction D as [|x D IH]; intros N Ha Hb; [contradiction|]. simpl in N. inversion N as [|? ? Hx N']; subst.
  destruct Ha as [Ha|Ha]; [|apply IH; assumption]. subst x. intros E. apply Hx. rewrite E.
  apply (in_map (fun e => src_key (fst e)) (D ++ Q) b). apply in_or_app. right. exact Hb.
Qed.

Section RunOverride.
Variable c : cfg.
Hypothesis Cm : c_mode c = MName.
Hypothesis Cd : c_dry c = false.
Hypothesis Cf : c_fault c = None.
Hypothesis Cv : c_var c = fixed.
Hypothesis Cs : c_strategy c = Override.
Variable s : fs.
Variable plan : list (pfile * rendered).
Hypothesis W : WF s.
Hypothesis OK : selected_ok s plan.
Hypothesis NDD : no_dir_dest s plan.
Hypothesis NC : no_chain plan.

(* the state of a run under override: the tree is [apply_plan s1 D] for a base tree [s1] that is the initial tree
   without the entries that were overwritten so far *)
Definition OSt (s1 : fs) (D P : list (pfile * rendered)) (x : fs) : Prop :=
  WF s1 /\ (forall k n, In (k, n) s1 -> In (k, n) s) /\ selected_ok s1 (D ++ P) /\
  x = apply_plan s1 D /\ WF x /\ incl (D ++ P) plan.

Lemma OSt_Inv s1 D P x : OSt s1 D P x -> Inv s1 (D ++ P) D P x.
Proof.
  intros [_ [_ [[_ N] [A [B _]]]]]. refine (conj A (conj B (conj _ (conj _ (conj N _))))).
  - apply incl_appl, incl_refl.
  - apply incl_appr, incl_refl.
  - intros e He. apply in_app_or in He. destruct He; auto.
Qed.

(* another entry of the plan generates the same destination *)
Definition retargeted (f : pfile) (t : str) : Prop :=
  exists f' t', In (f', RText t') plan /\ src_key f' <> src_key f /\ dst_key f' t' = dst_key f t.

Lemma OSt_rename s1 D f t P w w1 :
  OSt s1 D ((f, RText t) :: P) (w_fs w) ->
  renamer c w (pf_dir f) (pf_rel f) (new_path f t) false = (w1, None) ->
  OSt s1 ((f, RText t) :: D) P (w_fs w1).
Proof.
  intros S R. pose proof (OSt_Inv _ _ _ _ S) as I. destruct S as [W1 [Sub [OK1 [_ [_ C]]]]].
  assert (Hin : In (f, RText t) (D ++ (f, RText t) :: P)) by (apply in_or_app; right; left; reflexivity).
  pose proof (renamer_step c Cm Cd Cf Cv s1 _ W1 OK1 D f t P w w1 Hin I R) as [A [B _]].
  refine (conj W1 (conj Sub (conj _ (conj A (conj B _))))).
  - apply (selected_ok_sub s1 _ _ OK1).
    + intros a Ha. apply (Permutation_in a (Permutation_middle D P (f, RText t))). exact Ha.
    + destruct OK1 as [_ N]. apply (srcs_perm (D ++ (f, RText t) :: P)); [|exact N].
      apply Permutation_sym, (Permutation_middle D P (f, RText t)).
  - intros a Ha. apply C. apply (Permutation_in a (Permutation_middle D P (f, RText t))). exact Ha.
Qed.

Lemma OSt_override s1 D f t P w m :
  OSt s1 D ((f, RText t) :: P) (w_fs w) -> dst_key f t <> src_key f -> lookup (w_fs w) (dst_key f t) = Some m ->
  exists k0 w1,
    renamer c w (pf_dir f) (pf_rel f) (new_path f t) true = (w1, None) /\
    dest_of D k0 = dst_key f t /\ k0 <> src_key f /\
    OSt (remove_key k0 s1) ((f, RText t) :: filter (fun a => negb (rpath_eqb (src_key (fst a)) k0)) D) P (w_fs w1).
Proof.
  intros S Hne L. pose proof (OSt_Inv _ _ _ _ S) as I. destruct S as [W1 [Sub [OK1 [_ [_ C]]]]].
  assert (Hin2 : In (f, RText t) (D ++ (f, RText t) :: P)) by (apply in_or_app; right; left; reflexivity).
  pose proof (C _ Hin2) as Hin.
  pose proof OK1 as [_ N].
  assert (Hm : is_dir_node m = false).
  { destruct (is_dir_node m) eqn:Hm; [exfalso | reflexivity].
    assert (m = NDir) by (destruct m; [discriminate | discriminate | reflexivity]). subst m.
    destruct (occupied s1 _ D _ _ _ NDir I (dst_key_nonempty f t) L) as [k [Hk [_ [E|[f' [t' [H1 [H2 _]]]]]]]].
    - subst k. apply (NDD f t Hin). apply (In_lookup s _ _ W). apply Sub, Hk.
    - assert (H1' : In (f', RText t') (D ++ (f, RText t) :: P)) by (apply in_or_app; left; exact H1).
      destruct (src_entry s1 _ OK1 f' t' H1') as [n' [Hn' Hnd']]. rewrite H2 in Hn'.
      pose proof W1 as [ND1 _]. rewrite (In_unique s1 k n' NDir ND1 Hn' Hk) in Hnd'. discriminate. }
  destruct (override_step c Cm Cd Cf Cv s1 _ W1 OK1 D f t P w m Hin2 I Hne L Hm)
    as [k0 [w1 [Hk0 [Ed [Hk0s [Hor [R [Efs WFfs]]]]]]]].
  exists k0, w1. split; [exact R|]. split; [exact Ed|]. split; [exact Hk0s|].
  set (p := fun a : pfile * rendered => negb (rpath_eqb (src_key (fst a)) k0)).
  (* the overwritten node did not belong to a pending entry *)
  assert (PendOK : forall a, In a P -> p a = true).
  { intros a Ha. unfold p. apply negb_true_iff. apply rpath_eqb_neq. intros Z.
    destruct Hor as [E|[f' [t' [H1 [H2 _]]]]].
    - assert (Ha2 : In a plan) by (apply C; apply in_or_app; right; right; exact Ha).
      destruct a as [fa ra]. cbn [fst] in Z.
      assert (X : src_key fa = src_key f) by (apply (NC f t fa ra Hin Ha2); congruence).
      apply (srcs_disjoint [(f, RText t)] P (f, RText t) (fa, ra)); [|left; reflexivity | exact Ha | symmetry; exact X].
      unfold srcs in *. rewrite map_app in N. apply NoDup_app_r in N. exact N.
    - apply (srcs_disjoint D ((f, RText t) :: P) (f', RText t') a N H1); [right; exact Ha|]. cbn [fst]. congruence. }
  assert (SelfOK : p (f, RText t) = true).
  { unfold p. cbn [fst]. apply negb_true_iff. apply rpath_eqb_neq. congruence. }
  assert (Mem : forall a, In a (((f, RText t) :: filter p D) ++ P) -> In a (D ++ (f, RText t) :: P) /\ p a = true).
  { intros a Ha. cbn [app] in Ha. destruct Ha as [Ha|Ha].
    - subst a. split; [exact Hin2 | exact SelfOK].
    - apply in_app_or in Ha as [Ha|Ha].
      + apply filter_In in Ha as [Ha Pa]. split; [apply in_or_app; left; exact Ha | exact Pa].
      + split; [apply in_or_app; right; right; exact Ha | apply PendOK, Ha]. }
  assert (W2 : WF (remove_key k0 s1)) by (apply (WF_remove_key k0 m s1 W1 Hk0 Hm)).
  refine (conj W2 (conj _ (conj _ (conj _ (conj WFfs _))))).
  - intros k n Hk. apply In_remove_key in Hk as [Hk _]. apply Sub, Hk.
  - split.
    + apply Forall_forall. intros a Ha. destruct (Mem a Ha) as [Ha1 Pa].
      destruct a as [fa ra]. destruct (plan_text s1 _ OK1 fa ra Ha1) as [ta ->].
      apply (entry_ok_remove s1 k0 m fa ta W1 Hk0 Hm).
      * unfold p in Pa. cbn [fst] in Pa. apply negb_true_iff in Pa. apply rpath_eqb_neq in Pa. exact Pa.
      * apply (plan_entry s1 _ OK1 _ Ha1).
    + assert (E : ((f, RText t) :: filter p D) ++ P = filter p ((f, RText t) :: D ++ P)).
      { cbn [filter app]. rewrite SelfOK. rewrite filter_app. rewrite (filter_all p P PendOK). reflexivity. }
      rewrite E. unfold srcs. apply NoDup_map_filter.
      apply (srcs_perm (D ++ (f, RText t) :: P)); [|exact N]. apply Permutation_sym, (Permutation_middle D P (f, RText t)).
  - rewrite Efs. apply apply_plan_ext. intros k n Hk. apply In_remove_key in Hk as [_ Hk].
    cbn [dest_of]. destruct (rpath_eqb (src_key f) k); [reflexivity|]. symmetry. apply dest_of_filter. exact Hk.
  - intros a Ha. apply C. apply (Mem a Ha).
Qed.

Lemma second_pass_override : forall blE w cwd s1 D,
  OSt s1 D blE (w_fs w) -> (forall f t, In (f, RText t) blE -> dst_key f t <> src_key f) ->
  exists w' cwd' e,
    second_pass c (map pend blE) w cwd = (w', cwd', e) /\ (dests_plain s plan -> e = None) /\
    (e = None -> exists s2 D', OSt s2 D' [] (w_fs w') /\
      (forall f t, In (f, RText t) D \/ In (f, RText t) blE -> In (f, RText t) D' \/ retargeted f t)).
Proof.
  induction blE as [|[f r] blE IH]; intros w cwd s1 D S Mv.
  - exists w, cwd, None. split; [reflexivity|]. split; [reflexivity|]. intros _.
    exists s1, D. split; [exact S|]. intros f t [H|[]]. left. exact H.
  - pose proof (OSt_Inv _ _ _ _ S) as I. pose proof S as [W1 [Sub [OK1 [_ [_ C]]]]].
    assert (Hin2' : In (f, r) (D ++ (f, r) :: blE)) by (apply in_or_app; right; left; reflexivity).
    destruct (plan_text s1 _ OK1 f r Hin2') as [t ->].
    assert (Hin2 : In (f, RText t) (D ++ (f, RText t) :: blE)) by exact Hin2'.
    pose proof (C _ Hin2) as Hin.
    assert (Hne : dst_key f t <> src_key f) by (apply Mv; left; reflexivity).
    cbn [map pend second_pass]. rewrite Cv. cbn [fixed v_backlog_chdir].
    rewrite (chdir_stays s1 _ W1 OK1 D _ _ f t I Hin2).
    destruct (backlog_verify fixed (w_fs w) (pf_dir f) (pf_rel f) (new_path f t)) as [ev|] eqn:BV.
    { exists w, (pf_dir f), (Some ev). split; [reflexivity|]. split; [|discriminate].
      intros DP. exfalso.
      assert (DP2 : dests_plain s1 (D ++ (f, RText t) :: blE)) by exact (dests_plain_sub s plan s1 _ W Sub C DP).
      rewrite (retest_yes c Cv s1 _ W1 OK1 D f t blE _ DP2 Hin2 I Hne) in BV. discriminate BV. }
    pose proof (renamer_cases c Cm Cd Cf Cv s1 _ W1 OK1 D f t blE w Hin2 I) as RC.
    destruct (lookup (w_fs w) (dst_key f t)) as [m|] eqn:L.
    + rewrite RC. cbn [is_file_exists]. unfold resolve_conflict. rewrite Cs. cbn [resolve_simple].
      destruct (OSt_override s1 D f t blE w m S Hne L) as [k0 [w1 [R [Ed [Hk0s S1]]]]]. rewrite R.
      destruct (IH w1 (pf_dir f) _ _ S1 (fun f0 t0 H => Mv f0 t0 (or_intror H))) as [w' [cwd' [e' [SP [He X]]]]].
      exists w', cwd', e'. split; [exact SP|]. split; [exact He|]. intros En.
      destruct (X En) as [s2 [D' [S' Cov]]].
      exists s2, D'. split; [exact S'|].
      intros f0 t0 [H|[H|H]].
      * destruct (rpath_eqb (src_key f0) k0) eqn:E0.
        -- apply rpath_eqb_eq in E0. right. exists f, t. split; [exact Hin|]. split; [congruence|].
           rewrite <- Ed, <- E0. apply (dest_of_sub s1 _ OK1 D f0 t0); [apply incl_appl, incl_refl | exact H].
        -- apply Cov. left. right. apply filter_In. split; [exact H|]. cbn [fst]. rewrite E0. reflexivity.
      * inversion H; subst f0 t0. apply Cov. left. left. reflexivity.
      * apply Cov. right. exact H.
    + destruct RC as [w1 R]. rewrite R.
      destruct (IH w1 (pf_dir f) _ _ (OSt_rename s1 D f t blE w w1 S R) (fun f0 t0 H => Mv f0 t0 (or_intror H)))
        as [w' [cwd' [e' [SP [He X]]]]].
      exists w', cwd', e'. split; [exact SP|]. split; [exact He|]. intros En.
      destruct (X En) as [s2 [D' [S' Cov]]].
      exists s2, D'. split; [exact S'|].
      intros f0 t0 [H|[H|H]].
      * apply Cov. left. right. exact H.
      * inversion H; subst f0 t0. apply Cov. left. left. reflexivity.
      * apply Cov. right. exact H.
Qed.

Lemma Inv_OSt D P x : Inv s plan D P x -> OSt s D P x.
Proof.
  intros [A [B [C [E [F _]]]]].
  assert (In1 : incl (D ++ P) plan) by (apply incl_app; assumption).
  refine (conj W (conj (fun k n H => H) (conj _ (conj A (conj B In1))))).
  apply (selected_ok_sub s plan); assumption.
Qed.

Theorem override_outcome cwd :
  r_error (run c plan cwd s) = None ->
  exists s2 D, OSt s2 D [] (r_final (run c plan cwd s)) /\
    forall f t, In (f, RText t) plan -> dst_key f t = src_key f \/ In (f, RText t) D \/ retargeted f t.
Proof.
  intros Er.
  destruct (run_cases c plan cwd s) as [[w1 [cwd1 [bl [e1 [FP [E1 _]]]]]]|[w1 [cwd1 [bl [w2 [cwd2 [e2 [FP [SP [E2 Fin]]]]]]]]]].
  - congruence.
  - rewrite Fin. destruct (first_pass_summary c Cm Cd Cf Cv s plan W OK cwd _ _ _ FP) as [D1 [blE [-> [I1 Mv]]]].
    destruct (second_pass_override blE w1 cwd1 s D1 (Inv_OSt _ _ _ I1) Mv) as [w' [cwd' [e' [SP' [_ X]]]]].
    rewrite SP' in SP. inversion SP; subst w' cwd' e'.
    destruct (X (eq_trans (eq_sym E2) Er)) as [s2 [D' [S' Cov]]].
    exists s2, D'. split; [exact S'|].
    intros f t Hin. destruct I1 as [_ [_ [_ [_ [_ G]]]]].
    destruct (G _ Hin) as [Sk|[H|H]].
    + left. exact Sk.
    + right. apply Cov. left. exact H.
    + right. apply Cov. right. exact H.
Qed.

Theorem override_exit0 cwd : dests_plain s plan -> r_error (run c plan cwd s) = None.
Proof.
  intros DP.
  destruct (first_pass_total c Cm Cd Cf Cv s plan W OK DP plan _ cwd [] [] (init_Inv c s plan W OK)) as [w1 [cwd1 [D1 [blE [FP I1]]]]].
  cbn [map] in FP.
  destruct (first_pass_summary c Cm Cd Cf Cv s plan W OK cwd _ _ _ FP) as [D1' [blE' [Ebl [I1' Mv]]]].
  destruct (second_pass_override blE' w1 cwd1 s D1' (Inv_OSt _ _ _ I1') Mv) as [w' [cwd' [e' [SP' [He _]]]]].
  rewrite (He DP) in SP'.
  destruct (run_cases c plan cwd s) as [[w1a [cwd1a [bla [e1 [FPa _]]]]]|[w1a [cwd1a [bla [w2 [cwd2 [e2 [FPa [SP [E2 _]]]]]]]]]].
  - rewrite FP in FPa. discriminate FPa.
  - rewrite FP in FPa. inversion FPa; subst w1a cwd1a bla. rewrite E2. rewrite Ebl, SP' in SP. congruence.
Qed.

(* a destination generated for exactly one entry holds that entry's node at the end *)
Theorem override_unique_target cwd f t :
  r_error (run c plan cwd s) = None -> In (f, RText t) plan -> dst_key f t <> src_key f ->
  (forall f' t', In (f', RText t') plan -> dst_key f' t' = dst_key f t -> src_key f' = src_key f) ->
  lookup (r_final (run c plan cwd s)) (dst_key f t) = lookup s (src_key f).
Proof.
  intros Er Hin Hne Uniq.
  destruct (override_outcome cwd Er) as [s2 [D [[W2 [Sub [OK2 [A [B C]]]]] Cov]]]. rewrite app_nil_r in OK2.
  assert (HD : In (f, RText t) D).
  { destruct (Cov f t Hin) as [Z|[Z|[f' [t' [H1 [H2 H3]]]]]]; [contradiction | exact Z |].
    exfalso. apply H2. apply (Uniq f' t' H1 H3). }
  destruct (src_entry s2 D OK2 f t HD) as [n [Hn _]].
  rewrite (In_lookup s _ _ W (Sub _ _ Hn)).
  apply In_lookup; [exact B|]. rewrite A. unfold apply_plan. apply in_map_iff. exists (src_key f, n). cbn [fst snd].
  rewrite (dest_of_sub s2 D OK2 D f t (incl_refl _) HD). split; [reflexivity | exact Hn].
Qed.

End RunOverride.

(* ====================== the statements ================================================================== *)
Theorem stop_only_on_conflict_thm : forall c plan cwd s,
  c_mode c = MName -> c_strategy c = Stop -> c_dry c = false -> c_fault c = None -> c_var c = fixed ->
  WF s -> selected_ok s plan ->
  r_error (run c plan cwd s) = Some ExDestExists ->
  exists f t, In (f, RText t) plan /\ dst_key f t <> src_key f /\
    (lookup s (dst_key f t) <> None \/
     exists f' t', In (f', RText t') plan /\ src_key f' <> src_key f /\ dst_key f' t' = dst_key f t).
Proof.
  intros c plan cwd s Cm Cs Cd Cf Cv W OK Er.
  apply (stop_only_on_conflict c Cm Cd Cf Cv s plan W OK cwd ExDestExists Cs Er eq_refl).
Qed.

(* the same for the other kind of FileExistsError the model knows; and: the entry the run stopped at is the
   backlog entry of a plan entry, and the error is DestinationAlreadyExistsError *)
Theorem stop_any_exists_error_is_conflict_thm : forall c plan cwd s e,
  c_mode c = MName -> c_strategy c = Stop -> c_dry c = false -> c_fault c = None -> c_var c = fixed ->
  WF s -> selected_ok s plan ->
  r_error (run c plan cwd s) = Some e -> is_file_exists e = true ->
  exists f t, In (f, RText t) plan /\ conflict s plan f t.
Proof. intros c plan cwd s e Cm Cs Cd Cf Cv W OK. apply (stop_only_on_conflict c Cm Cd Cf Cv s plan W OK cwd e Cs). Qed.

Theorem stop_error_names_plan_entry_thm : forall c plan cwd s w1 cwd1 bl w2 cwd2 e,
  c_mode c = MName -> c_strategy c = Stop -> c_dry c = false -> c_fault c = None -> c_var c = fixed ->
  WF s -> selected_ok s plan ->
  first_pass c plan (init_world s (c_answers c)) cwd [] = (w1, cwd1, bl, None) ->
  second_pass c bl w1 cwd1 = (w2, cwd2, Some e) ->
  dests_plain s plan \/ is_file_exists e = true ->
  e = ExDestExists /\
  exists f t, In (pf_dir f, pf_rel f, new_path f t) bl /\ In (f, RText t) plan /\ conflict s plan f t.
Proof.
  intros c plan cwd s w1 cwd1 bl w2 cwd2 e Cm Cs Cd Cf Cv W OK.
  apply (stop_error_names_plan_entry c Cm Cd Cf Cv s plan W OK cwd w1 cwd1 bl w2 cwd2 e Cs).
Qed.

(* contrapositive: destinations absent from the initial tree and pairwise distinct => no destination-exists error *)
Theorem stop_no_conflict_no_dest_error_thm : forall c plan cwd s,
  c_mode c = MName -> c_strategy c = Stop -> c_dry c = false -> c_fault c = None -> c_var c = fixed ->
  WF s -> selected_ok s plan ->
  (forall f t, In (f, RText t) plan -> dst_key f t <> src_key f -> lookup s (dst_key f t) = None) ->
  (forall f t f' t', In (f, RText t) plan -> In (f', RText t') plan ->
     dst_key f t <> src_key f -> dst_key f t = dst_key f' t' -> src_key f = src_key f') ->
  r_error (run c plan cwd s) <> Some ExDestExists.
Proof.
  intros c plan cwd s Cm Cs Cd Cf Cv W OK Free Dist.
  apply (stop_no_conflict_no_dest_error c Cm Cd Cf Cv s plan W OK cwd ExDestExists Cs); [|reflexivity].
  intros f t Hin [Hne [H|[f' [t' [H1 [H2 H3]]]]]].
  - apply H. apply Free; assumption.
  - apply H2. symmetry. apply (Dist f t f' t' Hin H1 Hne). symmetry. exact H3.
Qed.

Theorem stop_all_free_no_dest_error_thm : forall c plan cwd s,
  c_mode c = MName -> c_strategy c = Stop -> c_dry c = false -> c_fault c = None -> c_var c = fixed ->
  WF s -> selected_ok s plan -> all_free s plan ->
  r_error (run c plan cwd s) <> Some ExDestExists.
Proof.
  intros c plan cwd s Cm Cs Cd Cf Cv W OK AF.
  apply (stop_no_conflict_no_dest_error c Cm Cd Cf Cv s plan W OK cwd ExDestExists Cs); [|reflexivity].
  intros f t. apply (all_free_no_conflict s plan W OK f t AF).
Qed.

Theorem ignore_exit0_thm : forall c plan cwd s,
  c_mode c = MName -> c_strategy c = Ignore -> c_dry c = false -> c_fault c = None -> c_var c = fixed ->
  WF s -> selected_ok s plan -> dests_plain s plan ->
  r_error (run c plan cwd s) = None /\ r_status (run c plan cwd s) = 0%Z.
Proof.
  intros c plan cwd s Cm Cs Cd Cf Cv W OK DP.
  pose proof (ignore_exit0 c Cm Cd Cf Cv s plan W OK cwd Cs DP) as E. split; [exact E|].
  apply status_zero_iff_no_error. exact E.
Qed.

Theorem ignore_free_renamed_thm : forall c plan cwd s,
  c_mode c = MName -> c_strategy c = Ignore -> c_dry c = false -> c_fault c = None -> c_var c = fixed ->
  WF s -> selected_ok s plan ->
  r_error (run c plan cwd s) = None ->
  forall f t, In (f, RText t) plan ->
    lookup s (dst_key f t) = None ->
    (forall f' t', In (f', RText t') plan -> dst_key f' t' = dst_key f t -> src_key f' = src_key f) ->
    lookup (r_final (run c plan cwd s)) (dst_key f t) = lookup s (src_key f) /\
    ((forall f' t', In (f', RText t') plan -> dst_key f' t' <> src_key f) ->
     lookup (r_final (run c plan cwd s)) (src_key f) = None).
Proof.
  intros c plan cwd s Cm Cs Cd Cf Cv W OK Er f t Hin F1 F2.
  apply (ignore_free_renamed c Cm Cd Cf Cv s plan W OK cwd f t Cs Er Hin (conj F1 F2)).
Qed.

Theorem ignore_not_renamed_had_conflict_thm : forall c plan cwd s,
  c_mode c = MName -> c_strategy c = Ignore -> c_dry c = false -> c_fault c = None -> c_var c = fixed ->
  WF s -> selected_ok s plan ->
  r_error (run c plan cwd s) = None ->
  forall f t, In (f, RText t) plan ->
    lookup (r_final (run c plan cwd s)) (dst_key f t) <> lookup s (src_key f) ->
    dst_key f t <> src_key f /\
    (lookup s (dst_key f t) <> None \/
     exists f' t', In (f', RText t') plan /\ src_key f' <> src_key f /\ dst_key f' t' = dst_key f t).
Proof.
  intros c plan cwd s Cm Cs Cd Cf Cv W OK Er f t.
  apply (ignore_not_renamed_had_conflict c Cm Cd Cf Cv s plan W OK cwd f t Cs Er).
Qed.

Theorem ignore_left_had_conflict_thm : forall c plan cwd s,
  c_mode c = MName -> c_strategy c = Ignore -> c_dry c = false -> c_fault c = None -> c_var c = fixed ->
  WF s -> selected_ok s plan ->
  r_error (run c plan cwd s) = None ->
  forall f t, In (f, RText t) plan -> dst_key f t <> src_key f ->
    lookup (r_final (run c plan cwd s)) (src_key f) = lookup s (src_key f) ->
    (forall f' t', In (f', RText t') plan -> dst_key f' t' = src_key f -> lookup s (src_key f') <> lookup s (src_key f)) ->
    lookup s (dst_key f t) <> None \/
    exists f' t', In (f', RText t') plan /\ src_key f' <> src_key f /\ dst_key f' t' = dst_key f t.
Proof.
  intros c plan cwd s Cm Cs Cd Cf Cv W OK Er f t Hin Hne Hat NoTwin.
  destruct (ignore_left_had_conflict c Cm Cd Cf Cv s plan W OK cwd f t Cs Er Hin Hne Hat NoTwin) as [_ H]. exact H.
Qed.

Theorem override_exit0_thm : forall c plan cwd s,
  c_mode c = MName -> c_strategy c = Override -> c_dry c = false -> c_fault c = None -> c_var c = fixed ->
  WF s -> selected_ok s plan -> no_dir_dest s plan -> no_chain plan -> dests_plain s plan ->
  r_error (run c plan cwd s) = None /\ r_status (run c plan cwd s) = 0%Z.
Proof.
  intros c plan cwd s Cm Cs Cd Cf Cv W OK NDD NC DP.
  pose proof (override_exit0 c Cm Cd Cf Cv Cs s plan W OK NDD NC cwd DP) as E. split; [exact E|].
  apply status_zero_iff_no_error. exact E.
Qed.

Theorem override_unique_target_thm : forall c plan cwd s,
  c_mode c = MName -> c_strategy c = Override -> c_dry c = false -> c_fault c = None -> c_var c = fixed ->
  WF s -> selected_ok s plan -> no_dir_dest s plan -> no_chain plan ->
  r_error (run c plan cwd s) = None ->
  forall f t, In (f, RText t) plan -> dst_key f t <> src_key f ->
    (forall f' t', In (f', RText t') plan -> dst_key f' t' = dst_key f t -> src_key f' = src_key f) ->
    lookup (r_final (run c plan cwd s)) (dst_key f t) = lookup s (src_key f).
Proof.
  intros c plan cwd s Cm Cs Cd Cf Cv W OK NDD NC Er f t.
  apply (override_unique_target c Cm Cd Cf Cv Cs s plan W OK NDD NC cwd f t Er).
Qed.

(* the clause as the property words it: the destination holds an unselected non-directory entry of the initial
   tree and exactly one entry generates it; at the end it holds that entry's node (the old one is gone) *)
Theorem override_holds_source_thm : forall c plan cwd s,
  c_mode c = MName -> c_strategy c = Override -> c_dry c = false -> c_fault c = None -> c_var c = fixed ->
  WF s -> selected_ok s plan -> no_dir_dest s plan -> no_chain plan -> dests_plain s plan ->
  forall f t m, In (f, RText t) plan ->
    lookup s (dst_key f t) = Some m -> is_dir_node m = false ->
    (forall f' r', In (f', r') plan -> src_key f' <> dst_key f t) ->
    (forall f' t', In (f', RText t') plan -> dst_key f' t' = dst_key f t -> src_key f' = src_key f) ->
    r_status (run c plan cwd s) = 0%Z /\
    lookup (r_final (run c plan cwd s)) (dst_key f t) = lookup s (src_key f).
Proof.
  intros c plan cwd s Cm Cs Cd Cf Cv W OK NDD NC DP f t m Hin Hm _ Unsel Uniq.
  destruct (override_exit0_thm c plan cwd s Cm Cs Cd Cf Cv W OK NDD NC DP) as [Er St]. split; [exact St|].
  apply (override_unique_target c Cm Cd Cf Cv Cs s plan W OK NDD NC cwd f t Er Hin); [|exact Uniq].
  intros Z. apply (Unsel f (RText t) Hin). symmetry. exact Z.
Qed.

(* ====================== checkers for the side conditions ================================================== *)
Definition no_links_b (s : fs) : bool :=
  forallb (fun e => match snd e with NLink _ _ => false | _ => true end) s.
Definition short_b (plan : list (pfile * rendered)) : bool :=
  forallb (fun e => Nat.leb (length (src_key (fst e))) walk_fuel) plan.
Definition no_dir_dest_b (s : fs) (plan : list (pfile * rendered)) : bool :=
  forallb (fun e => match e with
                    | (f, RText t) => match lookup s (dst_key f t) with Some NDir => false | _ => true end
                    | _ => true
                    end) plan.
Definition no_chain_b (plan : list (pfile * rendered)) : bool :=
  forallb (fun e => match e with
                    | (f, RText t) =>
                        forallb (fun e' => negb (rpath_eqb (src_key (fst e')) (dst_key f t)) ||
                                           rpath_eqb (src_key (fst e')) (src_key f)) plan
                    | _ => true
                    end) plan.

Lemma dests_plain_b_sound s plan : no_links_b s = true -> short_b plan = true -> dests_plain s plan.
Proof.
  intros NL SH f t Hin _. split.
  - unfold short_b in SH. rewrite forallb_forall in SH. apply Nat.leb_le. apply (SH _ Hin).
  - intros k i tg _ _ L. destruct k as [|a k]; [discriminate L|].
    apply lookup_In in L; [|discriminate]. unfold no_links_b in NL. rewrite forallb_forall in NL.
    specialize (NL _ L). discriminate NL.
Qed.

Lemma no_dir_dest_b_sound s plan : no_dir_dest_b s plan = true -> no_dir_dest s plan.
Proof.
  intros H f t Hin L. unfold no_dir_dest_b in H. rewrite forallb_forall in H. specialize (H _ Hin). cbn in H.
  rewrite L in H. discriminate H.
Qed.

Lemma no_chain_b_sound plan : no_chain_b plan = true -> no_chain plan.
Proof.
  intros H f t f' r' Hin Hin' E. unfold no_chain_b in H. rewrite forallb_forall in H. specialize (H _ Hin). cbn in H.
  rewrite forallb_forall in H. specialize (H _ Hin'). cbn [fst] in H. apply orb_true_iff in H as [H|H].
  - apply negb_true_iff in H. apply rpath_eqb_neq in H. contradiction.
  - apply rpath_eqb_eq in H. exact H.
Qed.

(* ====================== scenarios ========================================================================= *)
Definition sx_cfg (st : strategy) : cfg :=
  {| c_mode := MName; c_strategy := st; c_dry := false; c_answers := []; c_fault := None; c_var := fixed |}.

(* non-vacuity: in/a -> A (free), in/b -> x (in/x exists), in/c -> y and in/d -> y (generated twice) *)
Definition nv_fs : fs :=
  [([[105;110]], NDir); ([[105;110]; [97]], NFile 1); ([[105;110]; [98]], NFile 2); ([[105;110]; [99]], NFile 3);
   ([[105;110]; [100]], NFile 4); ([[105;110]; [120]], NFile 5); ([[111;117;116]], NDir)].
Definition nv_plan : list (pfile * rendered) :=
  mk_plan [([[105;110]], [97], RText [65]); ([[105;110]], [98], RText [120]);
           ([[105;110]], [99], RText [121]); ([[105;110]], [100], RText [121])].
Definition nv_a : pfile := {| pf_dir := [[105;110]]; pf_rel := parse_path [97] |}.
Definition nv_b : pfile := {| pf_dir := [[105;110]]; pf_rel := parse_path [98] |}.
Definition nv_d : pfile := {| pf_dir := [[105;110]]; pf_rel := parse_path [100] |}.

Example nv_wf : WF nv_fs.
Proof. apply wf_b_sound. vm_compute. reflexivity. Qed.
Example nv_selected_ok : selected_ok nv_fs nv_plan.
Proof. apply selected_okb_sound. vm_compute. reflexivity. Qed.
Example nv_dests_plain : dests_plain nv_fs nv_plan.
Proof. apply dests_plain_b_sound; vm_compute; reflexivity. Qed.

Example nv_runs :
  let ri := run (sx_cfg Ignore) nv_plan [] nv_fs in
  let rs := run (sx_cfg Stop) nv_plan [] nv_fs in
  r_error ri = None /\ r_status ri = 0%Z /\
  lookup (r_final ri) [[105;110]; [65]] = Some (NFile 1) /\ lookup (r_final ri) [[105;110]; [97]] = None /\
  lookup (r_final ri) [[105;110]; [98]] = Some (NFile 2) /\ lookup (r_final ri) [[105;110]; [120]] = Some (NFile 5) /\
  lookup (r_final ri) [[105;110]; [121]] = Some (NFile 3) /\ lookup (r_final ri) [[105;110]; [99]] = None /\
  lookup (r_final ri) [[105;110]; [100]] = Some (NFile 4) /\
  r_calls ri = [(CRename, COk); (CRename, COk)] /\
  r_error rs = Some ExDestExists /\ r_status rs = 1%Z /\
  r_calls rs = [(CRename, COk); (CRename, COk)].
Proof. vm_compute. repeat split. Qed.

(* the theorems apply to it *)
Example nv_ignore_exit0_by_theorem : r_error (run (sx_cfg Ignore) nv_plan [] nv_fs) = None.
Proof.
  apply (ignore_exit0_thm (sx_cfg Ignore) nv_plan [] nv_fs eq_refl eq_refl eq_refl eq_refl eq_refl
           nv_wf nv_selected_ok nv_dests_plain).
Qed.

Example nv_free_by_theorem :
  lookup (r_final (run (sx_cfg Ignore) nv_plan [] nv_fs)) (dst_key nv_a [65]) = lookup nv_fs (src_key nv_a).
Proof.
  apply (ignore_free_renamed_thm (sx_cfg Ignore) nv_plan [] nv_fs eq_refl eq_refl eq_refl eq_refl eq_refl
           nv_wf nv_selected_ok nv_ignore_exit0_by_theorem nv_a [65]).
  - left. reflexivity.
  - vm_compute. reflexivity.
  - intros f' t' [H|[H|[H|[H|[]]]]] E; inversion H; subst f' t'; try reflexivity; vm_compute in E; discriminate E.
Qed.

Example nv_conflicts_by_theorem :
  conflict nv_fs nv_plan nv_b [120] /\ conflict nv_fs nv_plan nv_d [121].
Proof.
  split.
  - apply (ignore_not_renamed_had_conflict_thm (sx_cfg Ignore) nv_plan [] nv_fs eq_refl eq_refl eq_refl eq_refl eq_refl
             nv_wf nv_selected_ok nv_ignore_exit0_by_theorem nv_b [120]).
    + right. left. reflexivity.
    + vm_compute. discriminate.
  - apply (ignore_not_renamed_had_conflict_thm (sx_cfg Ignore) nv_plan [] nv_fs eq_refl eq_refl eq_refl eq_refl eq_refl
             nv_wf nv_selected_ok nv_ignore_exit0_by_theorem nv_d [121]).
    + right. right. right. left. reflexivity.
    + vm_compute. discriminate.
Qed.

Example nv_stop_by_theorem :
  exists f t, In (f, RText t) nv_plan /\ dst_key f t <> src_key f /\
    (lookup nv_fs (dst_key f t) <> None \/
     exists f' t', In (f', RText t') nv_plan /\ src_key f' <> src_key f /\ dst_key f' t' = dst_key f t).
Proof.
  apply (stop_only_on_conflict_thm (sx_cfg Stop) nv_plan [] nv_fs eq_refl eq_refl eq_refl eq_refl eq_refl
           nv_wf nv_selected_ok).
  vm_compute. reflexivity.
Qed.

(* corpus/C03/F33_override_chain.json: in/b -> x (in/x exists) and in/a -> b; the deferred in/a -> b overwrites in/b
   first, then in/b -> x moves in/a's content onto in/x *)
Definition f33_fs : fs := [([[105;110]%N], NDir); ([[105;110]%N; [97]%N], (NFile 1)); ([[105;110]%N; [98]%N], (NFile 2)); ([[105;110]%N; [120]%N], (NFile 3)); ([[111;117;116]%N], NDir)].
Definition f33_plan : list (pfile * rendered) := mk_plan [([[105;110]%N], [98]%N, (RText [120]%N)); ([[105;110]%N], [97]%N, (RText [98]%N))].
Definition f33_cfg (v : variant) (dry : bool) : cfg :=
  {| c_mode := MName; c_strategy := Override; c_dry := dry; c_answers := (@nil (str)); c_fault := None; c_var := v |}.
Definition f33_b : pfile := {| pf_dir := [[105;110]]; pf_rel := parse_path [98] |}.

Example f33_replay :
  let r := run (f33_cfg fixed false) f33_plan [] f33_fs in
  r_status r = 0%Z /\ selected_okb f33_fs f33_plan = true /\ wf_b f33_fs = true /\
  no_dir_dest_b f33_fs f33_plan = true /\ no_chain_b f33_plan = false /\
  lookup f33_fs (src_key f33_b) = Some (NFile 2) /\ lookup f33_fs (dst_key f33_b [120]) = Some (NFile 3) /\
  lookup (r_final r) (dst_key f33_b [120]) = Some (NFile 1) /\
  lookup (r_final r) (src_key f33_b) = None /\ lookup (r_final r) [[105;110]; [97]] = None.
Proof. vm_compute. repeat split. Qed.

(* without [no_chain] the override clause fails *)
Example override_holds_source_without_no_chain_refuted :
  ~ (forall c plan cwd s,
       c_mode c = MName -> c_strategy c = Override -> c_dry c = false -> c_fault c = None -> c_var c = fixed ->
       WF s -> selected_ok s plan -> no_dir_dest s plan -> dests_plain s plan ->
       forall f t m, In (f, RText t) plan ->
         lookup s (dst_key f t) = Some m -> is_dir_node m = false ->
         (forall f' r', In (f', r') plan -> src_key f' <> dst_key f t) ->
         (forall f' t', In (f', RText t') plan -> dst_key f' t' = dst_key f t -> src_key f' = src_key f) ->
         r_status (run c plan cwd s) = 0%Z /\
         lookup (r_final (run c plan cwd s)) (dst_key f t) = lookup s (src_key f)).
Proof.
  intros H.
  assert (X : r_status (run (f33_cfg fixed false) f33_plan [] f33_fs) = 0%Z /\
              lookup (r_final (run (f33_cfg fixed false) f33_plan [] f33_fs)) (dst_key f33_b [120]) =
              lookup f33_fs (src_key f33_b)).
  { apply (H (f33_cfg fixed false) f33_plan [] f33_fs eq_refl eq_refl eq_refl eq_refl eq_refl) with (m := NFile 3).
    - apply wf_b_sound. vm_compute. reflexivity.
    - apply selected_okb_sound. vm_compute. reflexivity.
    - apply no_dir_dest_b_sound. vm_compute. reflexivity.
    - apply dests_plain_b_sound; vm_compute; reflexivity.
    - left. reflexivity.
    - vm_compute. reflexivity.
    - reflexivity.
    - intros f' r' [E|[E|[]]]; inversion E; subst f' r'; vm_compute; discriminate.
    - intros f' t' [E|[E|[]]] Z; inversion E; subst f' t'; [reflexivity | vm_compute in Z; discriminate Z]. }
  destruct X as [_ X]. vm_compute in X. discriminate X.
Qed.

(* [selected_ok] alone does not give status 0 under ignore: in/l is a symbolic link to ../out, in/a -> l;
   Pipeline.execute resolves the destination before the renamer sees the conflict *)
Definition lk_fs : fs :=
  [([[105;110]], NDir); ([[105;110]; [97]], NFile 1);
   ([[105;110]; [108]], NLink 2 {| up_abs := false; up_comps := [dotdot; [111;117;116]] |}); ([[111;117;116]], NDir)].
Definition lk_plan : list (pfile * rendered) := mk_plan [([[105;110]], [97], RText [108])].

Example ignore_exit0_without_plain_dests_refuted :
  ~ (forall c plan cwd s,
       c_mode c = MName -> c_strategy c = Ignore -> c_dry c = false -> c_fault c = None -> c_var c = fixed ->
       WF s -> selected_ok s plan -> r_error (run c plan cwd s) = None).
Proof.
  intros H.
  assert (X : r_error (run (sx_cfg Ignore) lk_plan [] lk_fs) = None).
  { apply H; try reflexivity; [apply wf_b_sound | apply selected_okb_sound]; vm_compute; reflexivity. }
  vm_compute in X. discriminate X.
Qed.

Example lk_replay :
  r_error (run (sx_cfg Ignore) lk_plan [] lk_fs) = Some ExInvalidDest /\
  r_error (run (sx_cfg Override) lk_plan [] lk_fs) = Some ExInvalidDest /\
  r_error (run (sx_cfg Stop) lk_plan [] lk_fs) = Some ExInvalidDest.
Proof. vm_compute. repeat split. Qed.

(* "still at its source key" must exclude a twin: in/a and in/c are two names of one file (same node);
   in/a -> b is renamed, then in/c -> a puts an equal node at in/a although in/a -> b had no conflict *)
Definition tw_fs : fs :=
  [([[105;110]], NDir); ([[105;110]; [97]], NFile 1); ([[105;110]; [99]], NFile 1); ([[111;117;116]], NDir)].
Definition tw_plan : list (pfile * rendered) := mk_plan [([[105;110]], [97], RText [98]); ([[105;110]], [99], RText [97])].

Example ignore_left_had_conflict_without_twin_clause_refuted :
  ~ (forall c plan cwd s,
       c_mode c = MName -> c_strategy c = Ignore -> c_dry c = false -> c_fault c = None -> c_var c = fixed ->
       WF s -> selected_ok s plan -> r_error (run c plan cwd s) = None ->
       forall f t, In (f, RText t) plan -> dst_key f t <> src_key f ->
         lookup (r_final (run c plan cwd s)) (src_key f) = lookup s (src_key f) ->
         lookup s (dst_key f t) <> None \/
         exists f' t', In (f', RText t') plan /\ src_key f' <> src_key f /\ dst_key f' t' = dst_key f t).
Proof.
  intros H.
  assert (X : lookup tw_fs (dst_key nv_a [98]) <> None \/
              exists f' t', In (f', RText t') tw_plan /\ src_key f' <> src_key nv_a /\ dst_key f' t' = dst_key nv_a [98]).
  { apply (H (sx_cfg Ignore) tw_plan [] tw_fs); try reflexivity.
    - apply wf_b_sound. vm_compute. reflexivity.
    - apply selected_okb_sound. vm_compute. reflexivity.
    - left. reflexivity.
    - vm_compute. discriminate. }
  destruct X as [X|[f' [t' [[E|[E|[]]] [X1 X2]]]]].
  - apply X. vm_compute. reflexivity.
  - inversion E; subst f' t'. apply X1. reflexivity.
  - inversion E; subst f' t'. vm_compute in X2. discriminate X2.
Qed.
