(* C02, PATH mode (FileMover), strategy stop: a run that reports status 0 has applied the plan exactly.     *)
(* Destinations are relative paths without ".." whose intermediate components are directories of the    *)
(* initial tree or missing, none beneath a non-directory, none an existing directory, none an ancestor  *)
(* of another destination.  The final tree is then the initial one with every selected key replaced by  *)
(* its destination key, plus the missing parent directories of the destinations and nothing else.       *)
From Coq Require Import Permutation.
From Tempren Require Import Base.Str Py.PathLib Py.PathLibProofs FS.Model FS.Lemmas FS.RealpathAgree FS.DirExt FS.WfCheck
  Pipe.Pipeline Pipe.Confine Pipe.Confined Pipe.ConfinedMove Pipe.Safety Pipe.PlanExact.
Open Scope N_scope.

(* ====================== plain walks ======================================================================= *)
(* every proper prefix of T is a directory or missing *)
Definition dm (x : fs) (T : rpath) : Prop :=
  forall pre post, T = pre ++ post -> post <> [] -> lookup x pre = Some NDir \/ lookup x pre = None.

Lemma dm_dir_ext x x1 T : dir_ext x x1 -> dm x T -> dm x1 T.
Proof.
  intros E H pre post Ep Hp. destruct (E pre) as [K|[_ K]]; [rewrite K; apply (H pre post Ep Hp) | left; exact K].
Qed.

Lemma dm_prefix x T a b : T = a ++ b -> dm x T -> dm x a.
Proof.
  intros -> H pre post Ep Hp. apply (H pre (post ++ b)); [rewrite Ep, app_assoc; reflexivity | destruct post; [congruence | discriminate]].
Qed.

(* an un-followed walk along a path without ".." whose intermediate components are directories or missing ends at
   the key it names *)
Lemma walk_plain_shape x : forall comps f cur,
  no_dotdot comps = true ->
  (forall pre post, comps = pre ++ post -> post <> [] -> pre <> [] ->
     lookup x (cur ++ pre) = Some NDir \/ lookup x (cur ++ pre) = None) ->
  (forall p n, walk f x cur comps false = WFound p n -> p = cur ++ comps) /\
  (forall par nm, walk f x cur comps false = WMissing par nm -> par ++ [nm] = cur ++ comps).
Proof.
  induction comps as [|c rest IH]; intros f cur Hdd Hmid.
  - destruct f as [|f]; [split; intros; discriminate|]. rewrite walk_S. rewrite app_nil_r.
    destruct (lookup x cur); split; intros; try discriminate. congruence.
  - destruct f as [|f]; [split; intros; discriminate|]. rewrite walk_S.
    simpl in Hdd. apply andb_true_iff in Hdd as [Hc Hdd]. apply negb_true_iff in Hc. rewrite Hc.
    destruct (lookup x cur) as [[i|i t|]|]; try (split; intros; discriminate).
    destruct rest as [|c2 rest].
    + destruct (lookup x (cur ++ [c])) as [[i|i t|]|]; split; intros; try discriminate; congruence.
    + assert (Hm : lookup x (cur ++ [c]) = Some NDir \/ lookup x (cur ++ [c]) = None).
      { apply (Hmid [c] (c2 :: rest)); [reflexivity | discriminate | discriminate]. }
      destruct Hm as [Hm|Hm]; rewrite Hm; [|split; intros; discriminate].
      assert (E : cur ++ c :: c2 :: rest = (cur ++ [c]) ++ c2 :: rest) by (rewrite <- app_assoc; reflexivity).
      rewrite E. apply IH; [exact Hdd|].
      intros pre post Ep Hp Hn. rewrite <- app_assoc. apply (Hmid (c :: pre) post); [|exact Hp | discriminate].
      simpl. rewrite Ep. reflexivity.
Qed.

Lemma resolve_plain_shape x d p :
  pp_root p = 0%nat -> no_dotdot (pp_parts p) = true -> dm x (d ++ pp_parts p) ->
  (forall q n, resolve x d (to_upath p) false = WFound q n -> q = d ++ pp_parts p) /\
  (forall par nm, resolve x d (to_upath p) false = WMissing par nm -> par ++ [nm] = d ++ pp_parts p).
Proof.
  intros Hr Hdd Hdm. rewrite to_upath_walk, Hr. cbn [Nat.eqb]. apply walk_plain_shape; [exact Hdd|].
  intros pre post Ep Hp _. apply (Hdm (d ++ pre) post); [rewrite Ep, app_assoc; reflexivity | exact Hp].
Qed.

(* ====================== mkdir -p creates missing ancestors only =========================================== *)
(* entries appended by mkdir -p on the way to T *)
Definition new_dirs (T : rpath) (C : fs) : Prop :=
  forall k n, In (k, n) C -> n = NDir /\ proper_prefix k T.

Lemma new_dirs_app T a b : new_dirs T a -> new_dirs T b -> new_dirs T (a ++ b).
Proof. intros A B k n H. apply in_app_or in H as [H|H]; [apply A | apply B]; exact H. Qed.

Lemma new_dirs_nil T : new_dirs T [].
Proof. intros k n []. Qed.

Lemma proper_prefix_removelast (d parts T : rpath) :
  parts <> [] -> proper_prefix (d ++ parts) T -> proper_prefix (d ++ removelast parts) T.
Proof.
  intros Hp [r [Hr E]]. exists ([last parts []] ++ r). split; [discriminate|].
  rewrite E. rewrite <- (removelast_last_app parts [] Hp) at 1. rewrite <- !app_assoc. reflexivity.
Qed.

Lemma mkdir_once_plain T w d p w1 r :
  pp_root p = 0%nat -> no_dotdot (pp_parts p) = true -> proper_prefix (d ++ pp_parts p) T -> dm (w_fs w) T ->
  mkdir_once None w d p = (w1, r) ->
  exists C, w_fs w1 = w_fs w ++ C /\ new_dirs T C /\ dir_ext (w_fs w) (w_fs w1).
Proof.
  intros Hr Hdd [r0 [Hr0 ET]] Hdm. unfold mkdir_once, sys. cbn [faulted].
  destruct (os_mkdir (w_fs w) d (to_upath p)) as [s'|err] eqn:M; intros H; injection H as <- <-.
  - rewrite set_fs_fs. destruct (os_mkdir_ok _ _ _ _ M) as [par [nm [R Es']]]. rewrite Es'.
    assert (Hdm' : dm (w_fs w) (d ++ pp_parts p)) by (apply (dm_prefix _ T _ r0 ET Hdm)).
    destruct (resolve_plain_shape _ d p Hr Hdd Hdm') as [_ Sh]. rewrite (Sh _ _ R).
    exists [(d ++ pp_parts p, NDir)]. split; [reflexivity|]. split.
    + intros k n [K|[]]. injection K as <- <-. split; [reflexivity|]. exists r0. split; assumption.
    + rewrite <- (Sh _ _ R), <- Es'. apply (os_mkdir_dir_ext _ _ _ _ M).
  - rewrite add_call_fs. exists []. rewrite app_nil_r. split; [reflexivity|]. split; [apply new_dirs_nil | apply dir_ext_refl].
Qed.

Lemma mkdir_p_plain T d : forall fuel w p w' e,
  pp_root p = 0%nat -> no_dotdot (pp_parts p) = true -> proper_prefix (d ++ pp_parts p) T -> dm (w_fs w) T ->
  mkdir_p fuel None w d p = (w', e) ->
  exists C, w_fs w' = w_fs w ++ C /\ new_dirs T C /\ dir_ext (w_fs w) (w_fs w').
Proof.
  induction fuel as [|fuel IH]; intros w p w' e Hr Hdd HT Hdm H.
  - rewrite mkdir_p_0 in H. destruct (mkdir_once None w d p) as [w1 r] eqn:M1.
    destruct (mkdir_once_plain T _ _ _ _ _ Hr Hdd HT Hdm M1) as [C1 [E1 [N1 X1]]].
    exists C1. destruct r as [err|]; [destruct err|]; inversion H; subst; split; try assumption; split; assumption.
  - rewrite mkdir_p_S in H. destruct (mkdir_once None w d p) as [w1 r] eqn:M1.
    destruct (mkdir_once_plain T _ _ _ _ _ Hr Hdd HT Hdm M1) as [C1 [E1 [N1 X1]]].
    assert (Done1 : forall w0, w0 = w1 -> exists C, w_fs w0 = w_fs w ++ C /\ new_dirs T C /\ dir_ext (w_fs w) (w_fs w0)).
    { intros w0 ->. exists C1. split; [assumption | split; assumption]. }
    destruct r as [err|]; [|inversion H; subst; apply Done1; reflexivity].
    destruct err; try (inversion H; subst; apply Done1; reflexivity).
    destruct (pp_parts p) as [|a l] eqn:Pp; [inversion H; subst; apply Done1; reflexivity|].
    assert (Hp : pp_parts p <> []) by (rewrite Pp; discriminate).
    destruct (mkdir_p fuel None w1 d (pp_parent p)) as [w2 r2] eqn:M2.
    assert (HT2 : proper_prefix (d ++ pp_parts (pp_parent p)) T).
    { unfold pp_parent. cbn [pp_parts]. rewrite Pp. apply proper_prefix_removelast; [discriminate | exact HT]. }
    assert (Hdd2 : no_dotdot (pp_parts (pp_parent p)) = true).
    { unfold pp_parent. cbn [pp_parts]. rewrite Pp. apply no_dotdot_removelast. exact Hdd. }
    destruct (IH w1 (pp_parent p) w2 r2 Hr Hdd2 HT2 (dm_dir_ext _ _ _ X1 Hdm) M2) as [C2 [E2 [N2 X2]]].
    assert (Done2 : forall w0, w0 = w2 -> exists C, w_fs w0 = w_fs w ++ C /\ new_dirs T C /\ dir_ext (w_fs w) (w_fs w0)).
    { intros w0 ->. exists (C1 ++ C2). split; [rewrite E2, E1, app_assoc; reflexivity|].
      split; [apply new_dirs_app; assumption | apply (dir_ext_trans _ _ _ X1 X2)]. }
    destruct r2 as [e2|]; [inversion H; subst; apply Done2; reflexivity|].
    destruct (mkdir_once None w2 d p) as [w3 r3] eqn:M3.
    assert (Hdd' : no_dotdot (pp_parts p) = true) by (rewrite Pp; exact Hdd).
    assert (HT' : proper_prefix (d ++ pp_parts p) T) by (rewrite Pp; exact HT).
    pose proof (dir_ext_trans _ _ _ X1 X2) as X12.
    destruct (mkdir_once_plain T _ _ _ _ _ Hr Hdd' HT' (dm_dir_ext _ _ _ X12 Hdm) M3) as [C3 [E3 [N3 X3]]].
    exists (C1 ++ C2 ++ C3). assert (Ew : w3 = w') by (destruct r3 as [[]|]; inversion H; reflexivity). subst w'.
    split; [rewrite E3, E2, E1, !app_assoc; reflexivity|].
    split; [apply new_dirs_app; [assumption | apply new_dirs_app; assumption] | apply (dir_ext_trans _ _ _ X12 X3)].
Qed.

(* ====================== one call of FileMover on plain paths ============================================== *)
Lemma rekey_app sp dp a b : rekey sp dp (a ++ b) = rekey sp dp a ++ rekey sp dp b.
Proof. unfold rekey. apply map_app. Qed.

Lemma rekey_outside_all sp dp (C : fs) :
  (forall k n, In (k, n) C -> is_prefix_path sp k = false) -> rekey sp dp C = C.
Proof.
  intros H. unfold rekey. rewrite <- (map_id C) at 2. apply map_ext_in. intros [k n] Hk. cbn [fst snd].
  rewrite rekey_outside; [reflexivity | apply (H k n Hk)].
Qed.

Lemma sys_none_ok k w r w2 : sys None k w r = (w2, None) -> exists x2, r = SOk x2 /\ w_fs w2 = x2.
Proof. unfold sys. cbn [faulted]. destruct r; intros H; inversion H. eexists; split; reflexivity. Qed.

(* FileMover on a source d/src and a destination T = d/dst, both plain: whatever the outcome, the tree gains only
   missing ancestors of T; on success it is then re-keyed from the source key to T *)
Lemma file_mover_plain w d src dst w' r :
  pp_root src = 0%nat -> pp_root dst = 0%nat ->
  no_dotdot (pp_parts src) = true -> no_dotdot (pp_parts dst) = true -> pp_parts dst <> [] ->
  dm (w_fs w) (d ++ pp_parts dst) -> dm (w_fs w) (d ++ pp_parts src) ->
  file_mover fixed None w d src dst false = (w', r) ->
  exists C1, new_dirs (d ++ pp_parts dst) C1 /\ dir_ext (w_fs w) (w_fs w ++ C1) /\
    match r with
    | Some _ => w_fs w' = w_fs w ++ C1
    | None => w_fs w' = rekey (d ++ pp_parts src) (d ++ pp_parts dst) (w_fs w ++ C1) /\
              lookup (w_fs w ++ C1) (d ++ pp_parts dst) = None
    end.
Proof.
  intros Hrs Hrd Hdds Hddd Hpd DmT DmS. set (T := d ++ pp_parts dst) in *.
  rewrite file_mover_fixed_unfold.
  assert (Nothing : exists C1, new_dirs T C1 /\ dir_ext (w_fs w) (w_fs w ++ C1) /\ w_fs w = w_fs w ++ C1).
  { exists []. rewrite app_nil_r. split; [apply new_dirs_nil | split; [apply dir_ext_refl | reflexivity]]. }
  destruct (lexists (w_fs w) d (to_upath dst)).
  { intros H. injection H as <- <-. exact Nothing. }
  destruct (mkdir_p (S (length (pp_parts dst))) None w d (pp_parent dst)) as [w1 r1] eqn:MP.
  assert (HT : proper_prefix (d ++ pp_parts (pp_parent dst)) T).
  { unfold pp_parent. cbn [pp_parts]. exists [last (pp_parts dst) []]. split; [discriminate|].
    unfold T. rewrite <- app_assoc. rewrite removelast_last_app by exact Hpd. reflexivity. }
  assert (Hddp : no_dotdot (pp_parts (pp_parent dst)) = true) by (apply no_dotdot_removelast; exact Hddd).
  destruct (mkdir_p_plain T d _ w (pp_parent dst) w1 r1 Hrd Hddp HT DmT MP) as [C1 [E1 [N1 X1]]].
  assert (After : forall w0, w_fs w0 = w_fs w1 -> exists C1, new_dirs T C1 /\ dir_ext (w_fs w) (w_fs w ++ C1) /\
            w_fs w0 = w_fs w ++ C1).
  { intros w0 E0. exists C1. rewrite <- E1. split; [exact N1 | split; [exact X1 | exact E0]]. }
  destruct r1 as [e1|]; [intros H; injection H as <- <-; exact (After w1 eq_refl)|].
  destruct (lexists (w_fs w1) d (to_upath dst)) eqn:Hg.
  { intros H. injection H as <- <-. exact (After w1 eq_refl). }
  destruct (sys None CMove w1 (shutil_move_fs (w_fs w1) d (to_upath src) (to_upath dst))) as [w2 e2] eqn:Sy.
  destruct e2 as [e2|].
  { intros H. injection H as <- <-. apply (After w2). apply (sys_fs_unchanged_on_error _ _ _ _ _ _ Sy). }
  intros H. injection H as <- <-.
  destruct (sys_none_ok _ _ _ _ Sy) as [x2 [R Ew]]. rewrite Ew.
  rewrite (shutil_move_free _ _ _ _ Hg) in R.
  exists C1. rewrite <- E1. split; [exact N1|]. split; [exact X1|].
  destruct (resolve (w_fs w1) d (to_upath dst) false) as [dp dn|dpar dname|er] eqn:Rd.
  - exfalso. exact (not_lexists_not_found _ _ _ Hg _ _ Rd).
  - destruct (os_rename_missing_dest _ _ _ _ _ _ _ Rd R) as [sp [sn [Rs E2]]].
    destruct (resolve_plain_shape (w_fs w1) d dst Hrd Hddd (dm_dir_ext _ _ _ X1 DmT)) as [_ ShD].
    destruct (resolve_plain_shape (w_fs w1) d src Hrs Hdds (dm_dir_ext _ _ _ X1 DmS)) as [ShS _].
    rewrite (ShS _ _ Rs) in E2. rewrite (ShD _ _ Rd) in E2. split; [exact E2|].
    pose proof (resolve_missing _ _ _ _ _ _ Rd) as [_ Hn]. rewrite (ShD _ _ Rd) in Hn. exact Hn.
  - exfalso. exact (os_rename_ok_dest_not_err _ _ _ _ _ _ R Rd).
Qed.

(* ====================== the plan in path mode =============================================================== *)
(* the destination key of entry (f, t): input directory / parse_path t *)
Definition pdst (f : pfile) (t : str) : rpath := pf_dir f ++ pp_parts (parse_path t).

Fixpoint dest_of_p (plan : list (pfile * rendered)) (k : rpath) : rpath :=
  match plan with
  | [] => k
  | (f, RText t) :: rest => if rpath_eqb (src_key f) k then pdst f t else dest_of_p rest k
  | _ :: rest => dest_of_p rest k
  end.

Definition apply_plan_p (s : fs) (plan : list (pfile * rendered)) : fs :=
  map (fun e => (dest_of_p plan (fst e), snd e)) s.

(* k is a proper ancestor of some destination *)
Definition needed_dir (plan : list (pfile * rendered)) (k : rpath) : bool :=
  existsb (fun e => match e with
                    | (f, RText t) => is_prefix_path k (pdst f t) && negb (rpath_eqb k (pdst f t))
                    | _ => false
                    end) plan.

Definition entry_ok_p (s : fs) (e : pfile * rendered) : Prop :=
  match e with
  | (f, RText t) =>
      pp_root (pf_rel f) = 0%nat /\ chdir s (pf_dir f) = Some (pf_dir f) /\
      no_dotdot (pp_parts (pf_rel f)) = true /\ selected_node s f <> None /\
      pp_root (parse_path t) = 0%nat /\ pp_parts (parse_path t) <> [] /\ no_dotdot (pp_parts (parse_path t)) = true /\
      dm s (pdst f t)                   (* intermediate components: directories of s or missing *)
  | _ => False
  end.

Definition selected_ok_p (s : fs) (plan : list (pfile * rendered)) : Prop :=
  Forall (entry_ok_p s) plan /\ NoDup (srcs plan) /\
  (* no destination is a proper ancestor of another destination *)
  (forall f t f' t', In (f, RText t) plan -> In (f', RText t') plan -> ~ proper_prefix (pdst f t) (pdst f' t')).

Definition entry_okb_p (s : fs) (e : pfile * rendered) : bool :=
  match e with
  | (f, RText t) =>
      Nat.eqb (pp_root (pf_rel f)) 0 &&
      match chdir s (pf_dir f) with Some p => rpath_eqb p (pf_dir f) | None => false end &&
      no_dotdot (pp_parts (pf_rel f)) &&
      match selected_node s f with Some _ => true | None => false end &&
      Nat.eqb (pp_root (parse_path t)) 0 &&
      match pp_parts (parse_path t) with [] => false | _ => true end &&
      no_dotdot (pp_parts (parse_path t)) &&
      forallb (fun n => match lookup s (firstn n (pdst f t)) with Some NDir | None => true | _ => false end)
              (seq 0 (length (pdst f t)))
  | _ => false
  end.

Definition selected_okb_p (s : fs) (plan : list (pfile * rendered)) : bool :=
  forallb (entry_okb_p s) plan && nodup_b (srcs plan) &&
  forallb (fun e => forallb (fun e' =>
    match e, e' with
    | (f, RText t), (f', RText t') => negb (is_prefix_path (pdst f t) (pdst f' t') && negb (rpath_eqb (pdst f t) (pdst f' t')))
    | _, _ => true
    end) plan) plan.

Lemma proper_prefix_b a b : proper_prefix a b -> is_prefix_path a b && negb (rpath_eqb a b) = true.
Proof.
  intros [r [Hr E]]. apply andb_true_iff. split; [apply is_prefix_path_spec; exists r; exact E|].
  apply negb_true_iff. apply rpath_eqb_neq. intros Z. rewrite Z in E. rewrite <- (app_nil_r b) in E at 1.
  apply app_inv_head in E. congruence.
Qed.

Lemma b_proper_prefix a b : is_prefix_path a b && negb (rpath_eqb a b) = true -> proper_prefix a b.
Proof.
  intros H. apply andb_true_iff in H as [H1 H2]. apply is_prefix_path_spec in H1 as [r E].
  exists r. split; [|exact E]. intros Z. subst r. rewrite app_nil_r in E. subst b. rewrite rpath_eqb_refl in H2. discriminate.
Qed.

Lemma entry_okb_p_sound s e : entry_okb_p s e = true -> entry_ok_p s e.
Proof.
  destruct e as [f [t|t|ex]]; simpl; try discriminate.
  intros H. repeat (apply andb_true_iff in H as [H ?]).
  repeat split.
  - apply Nat.eqb_eq. assumption.
  - destruct (chdir s (pf_dir f)) as [p|]; [|discriminate]. f_equal. apply rpath_eqb_eq. assumption.
  - assumption.
  - destruct (selected_node s f); [discriminate | discriminate].
  - apply Nat.eqb_eq. assumption.
  - destruct (pp_parts (parse_path t)); [discriminate | discriminate].
  - assumption.
  - intros pre post E Hp.
    match goal with K : forallb _ _ = true |- _ => rename K into FB end.
    rewrite forallb_forall in FB. specialize (FB (length pre)).
    assert (Hin : In (length pre) (seq 0 (length (pdst f t)))).
    { apply in_seq. rewrite E, app_length. destruct post; [congruence|]. simpl. lia. }
    specialize (FB Hin). rewrite E in FB. rewrite firstn_app, Nat.sub_diag, firstn_all in FB.
    cbn [firstn] in FB. rewrite app_nil_r in FB.
    destruct (lookup s pre) as [[| |]|]; [discriminate | discriminate | left; reflexivity | right; reflexivity].
Qed.

Lemma selected_okb_p_sound s plan : selected_okb_p s plan = true -> selected_ok_p s plan.
Proof.
  unfold selected_okb_p. intros H. apply andb_true_iff in H as [H H3]. apply andb_true_iff in H as [H1 H2].
  split; [|split].
  - apply Forall_forall. intros e He. apply entry_okb_p_sound. rewrite forallb_forall in H1. apply H1, He.
  - apply nodup_b_sound, H2.
  - intros f t f' t' I1 I2 P. rewrite forallb_forall in H3. specialize (H3 _ I1). rewrite forallb_forall in H3.
    specialize (H3 _ I2). cbn in H3. rewrite (proper_prefix_b _ _ P) in H3. discriminate.
Qed.

Lemma dest_of_p_cases l k :
  dest_of_p l k = k \/ exists f t, In (f, RText t) l /\ src_key f = k /\ dest_of_p l k = pdst f t.
Proof.
  induction l as [|[f r] l IH]; [left; reflexivity|].
  assert (Rest : dest_of_p l k = k \/
                 exists f0 t0, In (f0, RText t0) ((f, r) :: l) /\ src_key f0 = k /\ dest_of_p l k = pdst f0 t0).
  { destruct IH as [IH|[f0 [t0 [H1 [H2 H3]]]]]; [left; assumption|].
    right. exists f0, t0. split; [right; assumption | split; assumption]. }
  destruct r as [t|t|ex]; try exact Rest.
  cbn [dest_of_p]. destruct (rpath_eqb (src_key f) k) eqn:E; [|exact Rest].
  right. exists f, t. apply rpath_eqb_eq in E. split; [left; reflexivity | split; [assumption | reflexivity]].
Qed.

Lemma dest_of_p_notsrc l k : (forall f t, In (f, RText t) l -> src_key f <> k) -> dest_of_p l k = k.
Proof.
  intros H. destruct (dest_of_p_cases l k) as [E|[f [t [H1 [H2 _]]]]]; [assumption|]. exfalso. exact (H f t H1 H2).
Qed.

Lemma dest_of_p_src l f t :
  In (f, RText t) l ->
  exists f' t', In (f', RText t') l /\ src_key f' = src_key f /\ dest_of_p l (src_key f) = pdst f' t'.
Proof.
  induction l as [|[f0 r0] l IH]; intros H; [contradiction|].
  destruct H as [H|H].
  - inversion H; subst. exists f, t. cbn [dest_of_p]. rewrite rpath_eqb_refl.
    split; [left; reflexivity | split; reflexivity].
  - destruct (IH H) as [f' [t' [A [B C]]]].
    assert (Rest : exists f1 t1, In (f1, RText t1) ((f0, r0) :: l) /\ src_key f1 = src_key f /\
                                 dest_of_p l (src_key f) = pdst f1 t1).
    { exists f', t'. split; [right; assumption | split; assumption]. }
    destruct r0 as [t0|t0|ex]; try exact Rest.
    cbn [dest_of_p]. destruct (rpath_eqb (src_key f0) (src_key f)) eqn:E; [|exact Rest].
    apply rpath_eqb_eq in E. exists f0, t0. split; [left; reflexivity | split; [assumption | reflexivity]].
Qed.

Lemma assoc_app (a b : fs) k : assoc (a ++ b) k = match assoc a k with Some n => Some n | None => assoc b k end.
Proof.
  induction a as [|[k0 m0] a IH]; simpl; [reflexivity|]. destruct (rpath_eqb k0 k); [reflexivity | exact IH].
Qed.

Lemma apply_plan_p_nil s : apply_plan_p s [] = s.
Proof. unfold apply_plan_p. simpl. rewrite <- (map_id s) at 2. apply map_ext. intros [k n]. reflexivity. Qed.

Definition pend_p (e : pfile * rendered) : backlog_entry :=
  match e with
  | (f, RText t) => (pf_dir f, pf_rel f, parse_path t)
  | (f, _) => (pf_dir f, pf_rel f, pf_rel f)
  end.

Definition skipped_p (e : pfile * rendered) : Prop :=
  match e with (f, RText t) => pdst f t = src_key f | _ => True end.

Lemma NoDup_app_left {A} (a b : list A) : NoDup (a ++ b) -> NoDup a.
Proof.
  induction a as [|x a IH]; simpl; intros H; [constructor|]. inversion H as [|? ? Hx Hn]; subst.
  constructor; [intros K; apply Hx; apply in_or_app; left; exact K | apply IH; exact Hn].
Qed.

Lemma selected_node_some s f :
  selected_node s f <> None ->
  exists n, resolve s (pf_dir f) (to_upath (pf_rel f)) false = WFound (src_key f) n /\ is_dir_node n = false.
Proof.
  unfold selected_node. destruct (resolve s (pf_dir f) (to_upath (pf_rel f)) false) as [p n|? ?|?]; try congruence.
  destruct (rpath_eqb p (src_key f)) eqn:Ep; [|simpl; congruence].
  destruct (is_dir_node n) eqn:En; [simpl; congruence|].
  intros _. apply rpath_eqb_eq in Ep. subst p. exists n. split; [reflexivity | exact En].
Qed.

Section ExactPath.
Variable c : cfg.
Hypothesis Cm : c_mode c = MPath.
Hypothesis Cs : c_strategy c = Stop.
Hypothesis Cd : c_dry c = false.
Hypothesis Cf : c_fault c = None.
Hypothesis Cv : c_var c = fixed.
Variable s : fs.
Variable plan : list (pfile * rendered).
Hypothesis W : WF s.
Hypothesis OK : selected_ok_p s plan.

Lemma pentry e : In e plan -> entry_ok_p s e.
Proof. destruct OK as [F _]. rewrite Forall_forall in F. apply F. Qed.

Lemma ptext f r : In (f, r) plan -> exists t, r = RText t.
Proof. intros H. apply pentry in H. destruct r as [t|t|ex]; [exists t; reflexivity | contradiction | contradiction]. Qed.

Lemma pfunctional f t f' r' :
  In (f, RText t) plan -> In (f', r') plan -> src_key f' = src_key f -> (f', r') = (f, RText t).
Proof.
  intros H1 H2 E. destruct OK as [_ [ND _]].
  apply (NoDup_map_inj_in (fun e => src_key (fst e)) plan _ _ ND H2 H1). exact E.
Qed.

Lemma dest_of_p_sub l f t : incl l plan -> In (f, RText t) l -> dest_of_p l (src_key f) = pdst f t.
Proof.
  intros I H. destruct (dest_of_p_src l f t H) as [f' [t' [A [B C]]]].
  pose proof (pfunctional f t f' (RText t') (I _ H) (I _ A) B) as E. inversion E; subst. exact C.
Qed.

Lemma chdir_dir f t : In (f, RText t) plan ->
  lookup s (pf_dir f) = Some NDir /\ no_dotdot (pf_dir f) = true /\ (length (pf_dir f) <= walk_fuel /\ 0 < walk_fuel)%nat.
Proof.
  intros Hin. pose proof (pentry _ Hin) as [_ [Hcd _]]. apply chdir_self in Hcd. split; [|split].
  - apply resolve_found in Hcd. exact Hcd.
  - apply resolve_found_no_dotdot in Hcd; [exact Hcd | reflexivity].
  - apply resolve_found_fuel in Hcd. exact Hcd.
Qed.

Lemma psrc_entry f t : In (f, RText t) plan -> exists n, In (src_key f, n) s /\ is_dir_node n = false.
Proof.
  intros H. pose proof (pentry _ H) as [_ [_ [_ [Hsel _]]]].
  destruct (selected_node_some s f Hsel) as [n [R En]]. exists n. split; [|exact En].
  apply resolve_found in R. destruct (src_key f) as [|a q] eqn:Es.
  - simpl in R. injection R as <-. discriminate En.
  - apply lookup_In; [discriminate | exact R].
Qed.

(* directories created on the way to some destination *)
Definition extra (C : fs) : Prop :=
  forall k n, In (k, n) C -> n = NDir /\ exists f t, In (f, RText t) plan /\ proper_prefix k (pdst f t).

Definition InvP (D P : list (pfile * rendered)) (x : fs) : Prop :=
  (exists C, x = apply_plan_p s D ++ C /\ extra C) /\ WF x /\ incl D plan /\ incl P plan /\ NoDup (srcs (D ++ P)) /\
  (forall e, In e plan -> skipped_p e \/ In e D \/ In e P).

Lemma InvP_perm D P P' x : Permutation P P' -> InvP D P x -> InvP D P' x.
Proof.
  intros Pm [A [B [C [E [F G]]]]]. refine (conj A (conj B (conj C (conj _ (conj _ _))))).
  - intros e He. apply E. apply (Permutation_in _ (Permutation_sym Pm) He).
  - unfold srcs in *. eapply Permutation_NoDup; [|exact F]. apply Permutation_map. apply Permutation_app_head. exact Pm.
  - intros e He. destruct (G e He) as [K|[K|K]]; auto. right. right. apply (Permutation_in _ Pm K).
Qed.

Lemma InvP_drop D e P x : skipped_p e -> InvP D (e :: P) x -> InvP D P x.
Proof.
  intros Sk [A [B [C [E [F G]]]]]. refine (conj A (conj B (conj C (conj _ (conj _ _))))).
  - intros a Ha. apply E. right. exact Ha.
  - unfold srcs in *. rewrite map_app in *. simpl in F. apply NoDup_remove_1 in F. exact F.
  - intros a Ha. destruct (G a Ha) as [K|[K|[K|K]]]; auto. subst. left. exact Sk.
Qed.

Lemma dir_stays_p D P x q : InvP D P x -> In (q, NDir) s -> lookup x q = Some NDir.
Proof.
  intros [[C [A _]] [B [I _]]] H.
  assert (E : dest_of_p D q = q).
  { apply dest_of_p_notsrc. intros f t Hin Eq.
    destruct (psrc_entry f t (I _ Hin)) as [n [Hn Hnd]]. rewrite Eq in Hn.
    destruct W as [ND _]. rewrite (In_unique s q n NDir ND Hn H) in Hnd. discriminate. }
  apply In_lookup; [exact B|]. rewrite A. apply in_or_app. left. unfold apply_plan_p.
  apply in_map_iff. exists (q, NDir). simpl. rewrite E. split; [reflexivity | exact H].
Qed.

Lemma lookup_dir_stays_p D P x q : InvP D P x -> lookup s q = Some NDir -> lookup x q = Some NDir.
Proof.
  intros I H. destruct q as [|a q]; [reflexivity|].
  apply (dir_stays_p D P x _ I). apply lookup_In; [discriminate | exact H].
Qed.

Lemma pending_stays_p D f t P x n :
  InvP D ((f, RText t) :: P) x -> In (src_key f, n) s ->
  dest_of_p D (src_key f) = src_key f /\ In (src_key f, n) x.
Proof.
  intros [[C [A _]] [B [I [E [F G]]]]] H.
  assert (Ed : dest_of_p D (src_key f) = src_key f).
  { apply dest_of_p_notsrc. intros f' t' Hin Eq.
    unfold srcs in F. rewrite map_app in F. simpl in F. apply NoDup_remove_2 in F. apply F.
    apply in_or_app. left. rewrite <- Eq. apply (in_map (fun e => src_key (fst e)) D (f', RText t')). exact Hin. }
  split; [exact Ed|]. rewrite A. apply in_or_app. left. unfold apply_plan_p. apply in_map_iff. exists (src_key f, n).
  simpl. rewrite Ed. split; [reflexivity | exact H].
Qed.

(* the intermediate components of every destination are directories or missing in every state of the run *)
Lemma dm_now D P x f t : InvP D P x -> In (f, RText t) plan -> dm x (pdst f t).
Proof.
  intros [[C [A X]] [B [I _]]] Hin pre post Ep Hp.
  pose proof (pentry _ Hin) as [_ [_ [_ [_ [_ [_ [_ Hdm]]]]]]].
  destruct (lookup x pre) as [m|] eqn:L; [|right; reflexivity]. left. f_equal.
  destruct pre as [|a pre]; [simpl in L; congruence|].
  apply lookup_In in L; [|discriminate]. rewrite A in L. apply in_app_or in L as [L|L].
  - unfold apply_plan_p in L. apply in_map_iff in L as [[k m'] [E Hkm]]. cbn [fst snd] in E. injection E as E Em. subst m'.
    destruct (dest_of_p_cases D k) as [E1|[f2 [t2 [H1 [H2 H3]]]]].
    + assert (Ek : k = a :: pre) by congruence. rewrite Ek in Hkm.
      destruct (Hdm (a :: pre) post Ep Hp) as [K|K]; rewrite (In_lookup s _ _ W Hkm) in K; congruence.
    + exfalso. destruct OK as [_ [_ NA]]. apply (NA f2 t2 f t (I _ H1) Hin).
      exists post. split; [exact Hp|]. rewrite Ep. f_equal. congruence.
  - destruct (X _ _ L) as [K _]. exact K.
Qed.

Lemma dm_src D P x f t : InvP D P x -> In (f, RText t) plan -> dm x (src_key f).
Proof.
  intros I Hin pre post Ep Hp. left. destruct pre as [|a pre]; [reflexivity|].
  apply (dir_stays_p D P x _ I). destruct (psrc_entry f t Hin) as [n [Hn _]].
  destruct W as [_ CL]. destruct (CL _ _ Hn) as [_ Cn]. apply Cn; [discriminate|]. exists post. split; assumption.
Qed.

Lemma chdir_stays_p D P x f t : InvP D P x -> In (f, RText t) plan -> chdir x (pf_dir f) = Some (pf_dir f).
Proof.
  intros I Hin. destruct (chdir_dir f t Hin) as [Hd [Hdd Hlen]].
  assert (Hpre : forall q, (exists r, pf_dir f = q ++ r) -> lookup x q = Some NDir).
  { intros q Hq. destruct q as [|a q]; [reflexivity|]. apply (dir_stays_p D P x _ I).
    apply (prefix_of_dir s (pf_dir f) (a :: q) W Hd); [discriminate | exact Hq]. }
  unfold chdir. destruct (pf_dir f) as [|a d] eqn:Ed.
  - rewrite (PlanExact.resolve_nil x [] {| up_abs := true; up_comps := [] |} true); [reflexivity | lia | reflexivity].
  - pose proof (PlanExact.resolve_plain x [] {| up_abs := true; up_comps := a :: d |} true) as R.
    cbn [up_abs up_comps] in R. cbv zeta in R.
    assert (L : lookup x ([] ++ a :: d) = Some NDir) by (apply Hpre; exists []; rewrite app_nil_r; reflexivity).
    rewrite L in R. rewrite R; [reflexivity | lia | discriminate | exact Hdd | | right; intros; discriminate].
    intros pre post E _. apply Hpre. exists post. exact E.
Qed.

(* no source key lies at or above a created directory or above a destination *)
Lemma src_not_above D f t P x k :
  InvP D ((f, RText t) :: P) x -> In (f, RText t) plan ->
  (exists f' t', In (f', RText t') plan /\ proper_prefix k (pdst f' t')) -> is_prefix_path (src_key f) k = false.
Proof.
  intros I Hin [f' [t' [Hin' [r [Hr E]]]]]. apply is_prefix_false. intros [r2 E2].
  pose proof (pentry _ Hin') as [_ [_ [_ [_ [_ [_ [_ Hdm]]]]]]].
  destruct (psrc_entry f t Hin) as [n [Hn Hnd]].
  destruct (Hdm (src_key f) (r2 ++ r)) as [K|K].
  - rewrite E, E2, app_assoc. reflexivity.
  - destruct r2; [exact Hr | discriminate].
  - rewrite (In_lookup s _ _ W Hn) in K. injection K as ->. discriminate.
  - rewrite (In_lookup s _ _ W Hn) in K. discriminate.
Qed.

Lemma rekey_apply_p D f t P x n :
  InvP D ((f, RText t) :: P) x -> In (src_key f, n) s -> is_dir_node n = false ->
  rekey (src_key f) (pdst f t) (apply_plan_p s D) = apply_plan_p s ((f, RText t) :: D).
Proof.
  intros I Hn Hnd. destruct (pending_stays_p D f t P x n I Hn) as [Ed Hnx].
  destruct I as [[C [A _]] [B _]]. destruct B as [ND CL].
  unfold rekey. unfold apply_plan_p at 1. rewrite map_map. unfold apply_plan_p. apply map_ext_in.
  intros [k m] Hk. cbn [fst snd]. f_equal.
  cbn [dest_of_p]. destruct (rpath_eqb (src_key f) k) eqn:E.
  - apply rpath_eqb_eq in E. subst k. rewrite Ed. apply rekey_self.
  - apply rekey_outside. apply is_prefix_false. intros [r Er].
    assert (Hkx : In (dest_of_p D k, m) x).
    { rewrite A. apply in_or_app. left. unfold apply_plan_p. apply in_map_iff. exists (k, m). split; [reflexivity | exact Hk]. }
    destruct r as [|a r].
    + rewrite app_nil_r in Er. rewrite Er in Hkx.
      pose proof (In_unique _ _ _ _ ND Hkx Hnx) as Em. subst m.
      (* two entries of s mapped to the same key of x: they are the same entry *)
      rewrite A in ND. rewrite map_app in ND. apply NoDup_app_left in ND.
      unfold apply_plan_p in ND. rewrite map_map in ND. cbn [fst] in ND.
      assert (X : (k, n) = (src_key f, n)).
      { apply (NoDup_map_inj_in (fun e => dest_of_p D (fst e)) s _ _ ND Hk Hn). cbn [fst]. congruence. }
      inversion X; subst. rewrite rpath_eqb_refl in E. discriminate.
    + destruct (CL _ _ Hkx) as [_ Ck].
      assert (Hdir : In (src_key f, NDir) x).
      { apply Ck; [|exists (a :: r); split; [discriminate | exact Er]].
        intros Z. rewrite Z in Hnx. destruct (CL _ _ Hnx) as [Q _]. congruence. }
      rewrite (In_unique _ _ _ _ ND Hnx Hdir) in Hnd. discriminate.
Qed.

Lemma add_report_fs w a b o : w_fs (add_report w a b o) = w_fs w.
Proof. reflexivity. Qed.

(* one call of the renamer for a pending entry: renamed, or still pending with (possibly) more directories *)
Lemma renamer_p_step D f t P w w1 r :
  In (f, RText t) plan -> InvP D ((f, RText t) :: P) (w_fs w) -> WF (w_fs w1) ->
  renamer c w (pf_dir f) (pf_rel f) (parse_path t) false = (w1, r) ->
  match r with
  | None => InvP ((f, RText t) :: D) P (w_fs w1)
  | Some _ => InvP D ((f, RText t) :: P) (w_fs w1)
  end.
Proof.
  intros Hin I WF1. unfold renamer, renamer_core. rewrite Cd, Cm, Cf, Cv.
  destruct (file_mover fixed None w (pf_dir f) (pf_rel f) (parse_path t) false) as [w2 r2] eqn:FM.
  pose proof (pentry _ Hin) as [Hrs [_ [Hdds [_ [Hrd [Hpd [Hddd _]]]]]]].
  destruct (file_mover_plain w (pf_dir f) (pf_rel f) (parse_path t) w2 r2 Hrs Hrd Hdds Hddd Hpd
              (dm_now D _ _ f t I Hin) (dm_src D _ _ f t I Hin) FM) as [C1 [N1 [X1 Out]]].
  fold (pdst f t) in N1, Out. fold (src_key f) in Out.
  assert (Ex1 : extra C1).
  { intros k n Hk. destruct (N1 k n Hk) as [A B]. split; [exact A|]. exists f, t. split; [exact Hin | exact B]. }
  destruct I as [[C [A X]] [B [ID [IP [F G]]]]].
  destruct r2 as [e2|].
  - intros H. injection H as <- <-. rewrite Out in WF1 |- *.
    refine (conj _ (conj WF1 (conj ID (conj IP (conj F G))))).
    exists (C ++ C1). split; [rewrite A, app_assoc; reflexivity|].
    intros k n Hk. apply in_app_or in Hk as [Hk|Hk]; [apply X | apply Ex1]; exact Hk.
  - intros H. injection H as <- <-. rewrite add_report_fs in WF1 |- *. destruct Out as [Out _].
    assert (I0 : InvP D ((f, RText t) :: P) (w_fs w)).
    { refine (conj _ (conj B (conj ID (conj IP (conj F G))))). exists C. split; assumption. }
    destruct (psrc_entry f t Hin) as [n [Hn Hnd]].
    assert (Enew : rekey (src_key f) (pdst f t) (w_fs w ++ C1) = apply_plan_p s ((f, RText t) :: D) ++ (C ++ C1)).
    { rewrite A at 1. rewrite !rekey_app. rewrite (rekey_apply_p D f t P _ n I0 Hn Hnd).
      rewrite (rekey_outside_all _ _ C), (rekey_outside_all _ _ C1); [rewrite app_assoc; reflexivity | |].
      - intros k m Hk. apply (src_not_above D f t P _ k I0 Hin). exists f, t. split; [exact Hin | apply (N1 k m Hk)].
      - intros k m Hk. apply (src_not_above D f t P _ k I0 Hin). apply (X k m Hk). }
    pose proof (eq_trans Out Enew) as E2. rewrite E2 in WF1 |- *.
    refine (conj _ (conj WF1 (conj _ (conj _ (conj _ _))))).
    + exists (C ++ C1). split; [reflexivity|].
      intros k m Hk. apply in_app_or in Hk as [Hk|Hk]; [apply X | apply Ex1]; exact Hk.
    + intros a [Ha|Ha]; [subst; apply IP; left; reflexivity | apply ID, Ha].
    + intros a Ha. apply IP. right. exact Ha.
    + unfold srcs in *. eapply Permutation_NoDup; [|exact F]. apply Permutation_map.
      apply Permutation_sym. apply (Permutation_middle D P (f, RText t)).
    + intros a Ha. destruct (G a Ha) as [K|[K|[K|K]]]; auto.
      * right. left. right. exact K.
      * subst. right. left. left. reflexivity.
Qed.

(* ---------- the two passes ----------------------------------------------------------------------------------- *)
Lemma guarded_c : guarded (c_var c).
Proof. rewrite Cv. split; reflexivity. Qed.

Lemma skipped_p_of_eqb f t : ppath_eqb (parse_path t) (pf_rel f) = true -> skipped_p (f, RText t).
Proof. intros Eq. apply ppath_eqb_spec in Eq. cbn [skipped_p]. unfold pdst, src_key. rewrite Eq. reflexivity. Qed.

Lemma first_pass_inv_p L : forall rest w cwd blE D w' cwd' bl',
  InvP D (blE ++ rest) (w_fs w) -> Safe L w ->
  first_pass c rest w cwd (map pend_p blE) = (w', cwd', bl', None) ->
  exists D' blE', bl' = map pend_p blE' /\ InvP D' blE' (w_fs w') /\ Safe L w'.
Proof.
  induction rest as [|[f r] rest IH]; intros w cwd blE D w' cwd' bl' I Sf.
  - simpl. intros E. inversion E; subst. exists D, blE. rewrite app_nil_r in I. split; [reflexivity | split; assumption].
  - assert (Hin : In (f, r) plan).
    { destruct I as [_ [_ [_ [E _]]]]. apply E. apply in_or_app. right. left. reflexivity. }
    destruct (ptext f r Hin) as [t ->].
    assert (I1 : InvP D ((f, RText t) :: blE ++ rest) (w_fs w)).
    { eapply InvP_perm; [|exact I]. apply Permutation_sym, Permutation_middle. }
    cbn [first_pass]. rewrite (chdir_stays_p D _ _ f t I Hin).
    rewrite Cm. cbn [generate].
    destruct (ppath_eqb (parse_path t) (pf_rel f)) eqn:Eq.
    + apply (IH w _ blE D); [|exact Sf]. apply (InvP_drop D (f, RText t)); [apply skipped_p_of_eqb; exact Eq | exact I1].
    + destruct (contained (c_var c) (w_fs w) f (parse_path t)) as [[|]|]; try (intros E; discriminate E).
      destruct (dest_parent_test (c_var c) (w_fs w) f (parse_path t)) as [[|]|]; try (intros E; discriminate E).
      destruct (parents_contained (w_fs w) f (parse_path t)) as [[|]|]; try (intros E; discriminate E).
      destruct (source_contained (w_fs w) f) as [[|]|]; try (intros E; discriminate E).
      destruct (renamer c w (pf_dir f) (pf_rel f) (parse_path t) false) as [w1 r1] eqn:R.
      pose proof (Safe_renamer L c w _ _ _ _ _ guarded_c Sf R) as Sf1.
      pose proof (renamer_p_step D f t _ w w1 r1 Hin I1 (proj1 (Safe_fs L _ Sf1)) R) as St.
      destruct r1 as [e1|].
      * destruct (is_file_exists e1); [|intros E; discriminate E].
        change ((pf_dir f, pf_rel f, parse_path t) :: map pend_p blE) with (map pend_p ((f, RText t) :: blE)).
        apply (IH w1 _ ((f, RText t) :: blE) D); [exact St | exact Sf1].
      * apply (IH w1 _ blE ((f, RText t) :: D)); [exact St | exact Sf1].
Qed.

Lemma second_pass_inv_p L : forall blE w cwd D w' cwd',
  InvP D blE (w_fs w) -> Safe L w -> second_pass c (map pend_p blE) w cwd = (w', cwd', None) ->
  exists D', InvP D' [] (w_fs w').
Proof.
  induction blE as [|[f r] blE IH]; intros w cwd D w' cwd' I Sf.
  - simpl. intros E. inversion E; subst. exists D. exact I.
  - assert (Hin : In (f, r) plan).
    { destruct I as [_ [_ [_ [E _]]]]. apply E. left. reflexivity. }
    destruct (ptext f r Hin) as [t ->].
    cbn [map pend_p second_pass]. rewrite Cv. cbn [fixed v_backlog_chdir].
    rewrite (chdir_stays_p D _ _ f t I Hin).
    destruct (backlog_verify fixed (w_fs w) (pf_dir f) (pf_rel f) (parse_path t)); [intros E; discriminate E|].
    destruct (renamer c w (pf_dir f) (pf_rel f) (parse_path t) false) as [w1 r1] eqn:R.
    pose proof (Safe_renamer L c w _ _ _ _ _ guarded_c Sf R) as Sf1.
    pose proof (renamer_p_step D f t _ w w1 r1 Hin I (proj1 (Safe_fs L _ Sf1)) R) as St.
    destruct r1 as [e1|].
    + destruct (is_file_exists e1); [|intros E; discriminate E].
      unfold resolve_conflict. rewrite Cs. cbn [resolve_simple]. intros E; discriminate E.
    + apply (IH w1 _ ((f, RText t) :: D)); [exact St | exact Sf1].
Qed.

Lemma final_dest_p D k :
  incl D plan -> (forall e, In e plan -> skipped_p e \/ In e D \/ In e []) -> dest_of_p D k = dest_of_p plan k.
Proof.
  intros C G.
  destruct (dest_of_p_cases plan k) as [E|[f [t [H1 [H2 H3]]]]].
  - rewrite E. destruct (dest_of_p_cases D k) as [E'|[f [t [H1 [H2 H3]]]]]; [exact E'|].
    rewrite H3. rewrite <- (dest_of_p_sub plan f t (incl_refl _) (C _ H1)). rewrite H2. exact E.
  - rewrite H3. destruct (G _ H1) as [Sk|[K|[]]].
    + cbn [skipped_p] in Sk. rewrite Sk, H2.
      destruct (dest_of_p_cases D k) as [E'|[f' [t' [A1 [A2 A3]]]]]; [exact E'|].
      rewrite A3. pose proof (pfunctional f t f' (RText t') H1 (C _ A1) (eq_trans A2 (eq_sym H2))) as X.
      inversion X; subst f' t'. rewrite Sk. exact H2.
    + rewrite <- H2. apply dest_of_p_sub; assumption.
Qed.

Theorem run_exact_p cwd :
  r_status (run c plan cwd s) = 0%Z ->
  exists C, r_final (run c plan cwd s) = apply_plan_p s plan ++ C /\ extra C /\ WF (r_final (run c plan cwd s)).
Proof.
  unfold run.
  destruct (first_pass c plan (init_world s (c_answers c)) cwd []) as [[[w1 cwd1] bl] e1] eqn:FP.
  destruct e1 as [e|]; [simpl; intros H; exfalso; exact (status_of_nonzero e H)|].
  destruct (second_pass c bl w1 cwd1) as [[w2 cwd2] e2] eqn:SP.
  destruct e2 as [e|]; [simpl; intros H; exfalso; exact (status_of_nonzero e H)|].
  simpl. intros _.
  assert (I0 : InvP [] ([] ++ plan) (w_fs (init_world s (c_answers c)))).
  { simpl. refine (conj _ (conj W (conj _ (conj _ (conj _ _))))).
    - exists []. rewrite app_nil_r. split; [symmetry; apply apply_plan_p_nil | intros k n []].
    - intros a [].
    - apply incl_refl.
    - destruct OK as [_ [ND _]]; exact ND.
    - intros e He. right. right. exact He. }
  assert (S0 : Safe (leaves s) (init_world s (c_answers c))).
  { unfold Safe. simpl. constructor; [split; [exact W | reflexivity] | constructor]. }
  destruct (first_pass_inv_p _ plan _ cwd [] [] _ _ _ I0 S0 FP) as [D1 [blE [Ebl [I1 S1]]]]. subst bl.
  destruct (second_pass_inv_p _ blE _ _ _ _ _ I1 S1 SP) as [D2 I2].
  destruct I2 as [[C [A X]] [B [ID [_ [_ G]]]]]. exists C. split; [|split; [exact X | exact B]].
  rewrite A. f_equal. unfold apply_plan_p. apply map_ext.
  intros [k n]. cbn [fst snd]. f_equal. apply final_dest_p; assumption.
Qed.

(* the same on every key *)
Theorem run_exact_p_lookup cwd :
  r_status (run c plan cwd s) = 0%Z ->
  forall k, lookup (r_final (run c plan cwd s)) k =
            match lookup (apply_plan_p s plan) k with
            | Some n => Some n
            | None => if needed_dir plan k then Some NDir else None
            end.
Proof.
  intros St k. destruct (run_exact_p cwd St) as [C [E [X Wf]]].
  destruct k as [|a k]; [reflexivity|].
  destruct (lookup (apply_plan_p s plan) (a :: k)) as [n|] eqn:LA.
  - rewrite E. cbn [lookup] in *. rewrite assoc_app, LA. reflexivity.
  - destruct (needed_dir plan (a :: k)) eqn:Nd.
    + unfold needed_dir in Nd. apply existsb_exists in Nd as [[f r] [Hin Hb]].
      destruct r as [t|t|ex]; try discriminate. apply b_proper_prefix in Hb.
      destruct (psrc_entry f t Hin) as [n [Hn _]].
      assert (Hd : In (pdst f t, n) (r_final (run c plan cwd s))).
      { rewrite E. apply in_or_app. left. unfold apply_plan_p. apply in_map_iff. exists (src_key f, n).
        cbn [fst snd]. rewrite (dest_of_p_sub plan f t (incl_refl _) Hin). split; [reflexivity | exact Hn]. }
      apply In_lookup; [exact Wf|]. destruct Wf as [_ CL]. destruct (CL _ _ Hd) as [_ Cn].
      apply Cn; [discriminate | exact Hb].
    + rewrite E. cbn [lookup] in *. rewrite assoc_app, LA.
      destruct (assoc C (a :: k)) as [m|] eqn:LC; [|reflexivity]. exfalso.
      apply assoc_In in LC. destruct (X _ _ LC) as [_ [f [t [Hin Pp]]]].
      assert (Z : needed_dir plan (a :: k) = true).
      { unfold needed_dir. apply existsb_exists. exists (f, RText t). split; [exact Hin | apply proper_prefix_b; exact Pp]. }
      congruence.
Qed.

End ExactPath.

(* ====================== the statements ==================================================================== *)
Theorem success_exact_path_mode : forall c plan cwd s,
  c_mode c = MPath -> c_strategy c = Stop -> c_dry c = false -> c_fault c = None -> c_var c = fixed ->
  WF s -> selected_ok_p s plan ->
  r_status (run c plan cwd s) = 0%Z ->
  forall k, lookup (r_final (run c plan cwd s)) k =
            match lookup (apply_plan_p s plan) k with
            | Some n => Some n
            | None => if needed_dir plan k then Some NDir else None
            end.
Proof. intros c plan cwd s Cm Cs Cd Cf Cv W OK St. apply (run_exact_p_lookup c Cm Cs Cd Cf Cv s plan W OK cwd St). Qed.

(* as lists: the re-keyed initial tree followed by new directories, each a proper ancestor of a destination *)
Theorem success_exact_path_mode_list : forall c plan cwd s,
  c_mode c = MPath -> c_strategy c = Stop -> c_dry c = false -> c_fault c = None -> c_var c = fixed ->
  WF s -> selected_ok_p s plan ->
  r_status (run c plan cwd s) = 0%Z ->
  exists C, r_final (run c plan cwd s) = apply_plan_p s plan ++ C /\
            (forall k n, In (k, n) C -> n = NDir /\ exists f t, In (f, RText t) plan /\ proper_prefix k (pdst f t)) /\
            WF (r_final (run c plan cwd s)).
Proof. intros c plan cwd s Cm Cs Cd Cf Cv W OK St. apply (run_exact_p c Cm Cs Cd Cf Cv s plan W OK cwd St). Qed.

(* ====================== non-vacuity ========================================================================= *)
(* in/b -> a is deferred (in/a is still there), in/a -> new/deep/a creates in/new and in/new/deep, the symbolic link
   in/sub/x -> sub/y moves inside an existing directory; then the deferred in/b -> a is retried *)
Definition pex_fs : fs :=
  [ ([ex_in], NDir); ([ex_in; [97]], NFile 1); ([ex_in; [98]], NFile 2);
    ([ex_in; [115;117;98]], NDir);
    ([ex_in; [115;117;98]; [120]], NLink 5 {| up_abs := false; up_comps := [dotdot; [97]] |}) ].

Definition pex_plan : list (pfile * rendered) :=
  [ (ex_file [[98]], RText [97]);
    (ex_file [[97]], RText [110;101;119;47;100;101;101;112;47;97]);
    (ex_file [[115;117;98]; [120]], RText [115;117;98;47;121]) ].

Definition pex_cfg : cfg :=
  {| c_mode := MPath; c_strategy := Stop; c_dry := false; c_answers := []; c_fault := None; c_var := fixed |}.

Example pex_wf : WF pex_fs.
Proof. apply wf_b_sound. vm_compute. reflexivity. Qed.

Example pex_selected_ok : selected_ok_p pex_fs pex_plan.
Proof. apply selected_okb_p_sound. vm_compute. reflexivity. Qed.

Example pex_run :
  let r := run pex_cfg pex_plan [] pex_fs in
  r_status r = 0%Z /\
  r_calls r = [(CMkdir, CErr); (CMkdir, COk); (CMkdir, COk); (CMove, COk); (CMkdir, CErr); (CMove, COk);
               (CMkdir, CErr); (CMove, COk)] /\
  lookup (r_final r) [ex_in; [97]] = Some (NFile 2) /\
  lookup (r_final r) [ex_in; [98]] = None /\
  lookup (r_final r) [ex_in; [110;101;119]] = Some NDir /\
  lookup (r_final r) [ex_in; [110;101;119]; [100;101;101;112]] = Some NDir /\
  lookup (r_final r) [ex_in; [110;101;119]; [100;101;101;112]; [97]] = Some (NFile 1) /\
  lookup (r_final r) [ex_in; [115;117;98]; [120]] = None /\
  lookup (r_final r) [ex_in; [115;117;98]; [121]] = Some (NLink 5 {| up_abs := false; up_comps := [dotdot; [97]] |}).
Proof. vm_compute. repeat split. Qed.

(* the theorem applies to the example *)
Example pex_by_theorem : forall k,
  lookup (r_final (run pex_cfg pex_plan [] pex_fs)) k =
  match lookup (apply_plan_p pex_fs pex_plan) k with
  | Some n => Some n
  | None => if needed_dir pex_plan k then Some NDir else None
  end.
Proof.
  apply success_exact_path_mode;
    [reflexivity | reflexivity | reflexivity | reflexivity | reflexivity | exact pex_wf | exact pex_selected_ok |].
  vm_compute. reflexivity.
Qed.
