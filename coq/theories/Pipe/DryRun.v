(* C04: with --dry-run the pipeline issues no system call at all and leaves the filesystem as it was. *)
From Tempren Require Import Base.Str Py.PathLib FS.Model Pipe.Pipeline.
Open Scope N_scope.

Definition untouched (s : fs) (w : world) : Prop :=
  w_fs w = s /\ w_hist w = [] /\ w_calls w = [] /\ w_n w = O.

Lemma dry_renamer_untouched v sd s w cwd src dst o w' e :
  untouched s w -> dry_renamer v sd w cwd src dst o = (w', e) -> untouched s w'.
Proof.
  unfold dry_renamer. intros U.
  destruct (dry_exists v w cwd dst && negb o); [intros E; inversion E; subst; assumption|].
  destruct (sd && negb _); [intros E; inversion E; subst; assumption|].
  destruct (negb (dry_exists v w cwd src)); intros E; inversion E; subst; exact U.
Qed.

Lemma renamer_untouched c s w cwd src dst o w' e :
  c_dry c = true -> untouched s w -> renamer c w cwd src dst o = (w', e) -> untouched s w'.
Proof.
  intros D U. unfold renamer.
  destruct (renamer_core c w cwd src dst o) as [w1 [e1|]] eqn:R; unfold renamer_core in R; rewrite D in R;
    pose proof (dry_renamer_untouched _ _ _ _ _ _ _ _ _ _ U R) as U1; intros E; inversion E; subst; exact U1.
Qed.

Lemma take_line_untouched s w l w1 : untouched s w -> take_line w = (l, w1) -> untouched s w1.
Proof.
  unfold take_line. intros U. destruct (w_answers w); intros E; inversion E; subst; exact U.
Qed.

Lemma prompt_untouched s fuel w d w1 : untouched s w -> prompt fuel w = (d, w1) -> untouched s w1.
Proof.
  revert w d w1. induction fuel as [|f IH]; intros w d w1 U; simpl.
  - intros E; inversion E; subst; assumption.
  - destruct (take_line w) as [[l|] w2] eqn:T; pose proof (take_line_untouched _ _ _ _ U T) as U2.
    + destruct (parse_answer l); try (intros E; inversion E; subst; assumption).
      * destruct (take_line w2) as [[p|] w3] eqn:T2; pose proof (take_line_untouched _ _ _ _ U2 T2) as U3;
          intros E; inversion E; subst; assumption.
      * apply IH; assumption.
    + intros E; inversion E; subst; assumption.
Qed.

Lemma resolve_conflict_untouched c s w cwd src dst w' e :
  c_dry c = true -> untouched s w -> resolve_conflict c w cwd src dst = (w', e) -> untouched s w'.
Proof.
  intros D U. unfold resolve_conflict.
  assert (RS : forall st w0 w1 e1, untouched s w0 -> resolve_simple c st w0 cwd src dst = (w1, e1) -> untouched s w1).
  { intros st w0 w1 e1 U0. destruct st; simpl; try (intros E; inversion E; subst; assumption).
    apply renamer_untouched; assumption. }
  destruct (c_strategy c); try (apply RS; assumption).
  destruct (prompt (S (length (w_answers w))) w) as [d w1] eqn:P.
  pose proof (prompt_untouched _ _ _ _ _ U P) as U1.
  destruct d as [st|p|].
  - apply RS; assumption.
  - apply renamer_untouched; assumption.
  - intros E; inversion E; subst; assumption.
Qed.

Lemma first_pass_untouched c s plan w cwd bl w' cwd' bl' e :
  c_dry c = true -> untouched s w -> first_pass c plan w cwd bl = (w', cwd', bl', e) -> untouched s w'.
Proof.
  intros D. revert w cwd bl. induction plan as [|[f r] rest IH]; intros w cwd bl U; simpl.
  - intros E; inversion E; subst; assumption.
  - destruct (chdir (w_fs w) (pf_dir f)); [|intros E; inversion E; subst; assumption].
    destruct (generate (c_mode c) f r); [|intros E; inversion E; subst; assumption].
    destruct (ppath_eqb p (pf_rel f)); [apply IH; assumption|].
    destruct (contained (c_var c) (w_fs w) f p) as [[|]|]; try (intros E; inversion E; subst; assumption).
    destruct (dest_parent_test (c_var c) (w_fs w) f p) as [[|]|]; try (intros E; inversion E; subst; assumption).
    destruct (parents_contained (w_fs w) f p) as [[|]|]; try (intros E; inversion E; subst; assumption).
    destruct (source_contained (w_fs w) f) as [[|]|]; try (intros E; inversion E; subst; assumption).
    destruct (renamer c w r0 (pf_rel f) p false) as [w1 [e1|]] eqn:R;
      pose proof (renamer_untouched _ _ _ _ _ _ _ _ _ D U R) as U1.
    + destruct (is_file_exists e1); [apply IH; assumption | intros E; inversion E; subst; assumption].
    + apply IH; assumption.
Qed.

Lemma second_pass_untouched c s bl w cwd w' cwd' e :
  c_dry c = true -> untouched s w -> second_pass c bl w cwd = (w', cwd', e) -> untouched s w'.
Proof.
  intros D. revert w cwd. induction bl as [|[[d src] dst] rest IH]; intros w cwd U; simpl.
  - intros E; inversion E; subst; assumption.
  - destruct (if v_backlog_chdir (c_var c) then chdir (w_fs w) d else Some cwd); [|intros E; inversion E; subst; assumption].
    destruct (backlog_verify (c_var c) (w_fs w) d src dst); [intros E; inversion E; subst; assumption|].
    destruct (renamer c w r src dst false) as [w1 [e1|]] eqn:R;
      pose proof (renamer_untouched _ _ _ _ _ _ _ _ _ D U R) as U1.
    + destruct (is_file_exists e1); [|intros E; inversion E; subst; assumption].
      destruct (resolve_conflict c w1 r src dst) as [w2 [e2|]] eqn:RC;
        pose proof (resolve_conflict_untouched _ _ _ _ _ _ _ _ D U1 RC) as U2.
      * intros E; inversion E; subst; assumption.
      * apply IH; assumption.
    + apply IH; assumption.
Qed.

(* for EVERY mode, strategy (override included), answers, fault index, variant, plan and tree *)
Theorem dry_run_touches_nothing c plan cwd s :
  c_dry c = true ->
  r_final (run c plan cwd s) = s /\ r_states (run c plan cwd s) = [] /\ r_calls (run c plan cwd s) = [].
Proof.
  intros D. unfold run.
  assert (U0 : untouched s (init_world s (c_answers c))) by (repeat split).
  destruct (first_pass c plan (init_world s (c_answers c)) cwd []) as [[[w1 cwd1] bl] e1] eqn:FP.
  pose proof (first_pass_untouched _ _ _ _ _ _ _ _ _ _ D U0 FP) as U1.
  destruct e1 as [e|].
  - simpl. destruct U1 as [A [B [C _]]]. rewrite A, B, C. repeat split.
  - destruct (second_pass c bl w1 cwd1) as [[w2 cwd2] e2] eqn:SP. simpl.
    destruct (second_pass_untouched _ _ _ _ _ _ _ _ D U1 SP) as [A [B [C _]]]. rewrite A, B, C. repeat split.
Qed.
