(* C06, the link between the containment test and the system calls: the pipeline decides with     *)
(* Path.resolve() (realpath) whether the destination lies inside the input directory, and then   *)
(* hands the UNRESOLVED path to rename(2)/mkdir(2), which resolve it with the kernel's walk from *)
(* the cwd (= the input directory).  FS/RealpathAgree.v shows that both resolutions name the same *)
(* entry; here this is turned into: every key of the filesystem that a rename step changes lies  *)
(* at or below the input directory of the file being processed.                                   *)
From Tempren Require Import Base.Str Py.PathLib FS.Model FS.Lemmas FS.RealpathAgree Pipe.Pipeline Pipe.Confine.
Open Scope N_scope.

(* ---------- what a rekey changes ---------------------------------------------------------------- *)
Definition changes_below (d : rpath) (s s' : fs) : Prop :=
  (forall k n, In (k, n) s' -> ~ In (k, n) s -> is_prefix_path d k = true) /\
  (forall k n, In (k, n) s -> ~ In (k, n) s' -> is_prefix_path d k = true).

Lemma changes_below_refl d s : changes_below d s s.
Proof. split; intros k n H K; contradiction. Qed.

Lemma is_prefix_trans a b c :
  is_prefix_path a b = true -> is_prefix_path b c = true -> is_prefix_path a c = true.
Proof.
  intros H1 H2. apply is_prefix_path_spec in H1 as [r1 ->]. apply is_prefix_path_spec in H2 as [r2 ->].
  apply is_prefix_path_spec. exists (r1 ++ r2). rewrite app_assoc. reflexivity.
Qed.

(* an entry that appears was moved to (or below) the destination key *)
Lemma rekey_added sp dp s k n :
  In (k, n) (rekey sp dp s) -> ~ In (k, n) s -> is_prefix_path dp k = true.
Proof.
  intros H Hn. apply In_rekey_inv in H as [k0 [Hin ->]]. unfold rekey_path in *.
  destruct (is_prefix_path sp k0) eqn:E.
  - apply is_prefix_path_spec. eexists. reflexivity.
  - exfalso. apply Hn. exact Hin.
Qed.

(* an entry that disappears was at (or below) the source key *)
Lemma rekey_removed sp dp s k n :
  In (k, n) s -> ~ In (k, n) (rekey sp dp s) -> is_prefix_path sp k = true.
Proof.
  intros H Hn. destruct (is_prefix_path sp k) eqn:E; [reflexivity|]. exfalso. apply Hn.
  pose proof (In_rekey sp dp s k n H) as K. rewrite rekey_outside in K by assumption. exact K.
Qed.

Lemma rekey_changes_below d sp dp s :
  is_prefix_path d sp = true -> is_prefix_path d dp = true -> changes_below d s (rekey sp dp s).
Proof.
  intros Hs Hd. split; intros k n H K.
  - apply (is_prefix_trans _ dp); [assumption|]. eapply rekey_added; eauto.
  - apply (is_prefix_trans _ sp); [assumption|]. eapply rekey_removed; eauto.
Qed.

(* ---------- a source path without ".." through plain directories --------------------------------- *)
Fixpoint plain_path (s : fs) (cur : rpath) (comps : list name) : bool :=
  match comps with
  | [] => true
  | c :: rest =>
    negb (name_eqb c dotdot) &&
    match rest with
    | [] => true
    | _ => match lookup s (cur ++ [c]) with Some NDir => plain_path s (cur ++ [c]) rest | _ => false end
    end
  end.

Lemma walk_plain s f : forall cur comps sp sn,
  plain_path s cur comps = true -> walk f s cur comps false = WFound sp sn -> sp = cur ++ comps.
Proof.
  induction f as [|f IH]; intros cur comps sp sn P H.
  - simpl in H. discriminate.
  - destruct comps as [|c rest].
    + rewrite walk_S in H. destruct (lookup s cur); [|discriminate]. inversion H; subst. rewrite app_nil_r. reflexivity.
    + cbn [plain_path] in P. apply andb_true_iff in P as [P1 P2]. apply negb_true_iff in P1.
      destruct (walk_cons_inv _ _ _ _ _ _ _ H (found_not_err _ _)) as [_ W].
      destruct W as [Ed H1 | Ed n Hl Hn Hrest E | Ed n Hl Hn Hrest Hfl E | Ed n Hl Hn Hrest H1 | Ed i t Hl Hrest H1 | Ed Hl Hrest E].
      * congruence.
      * subst rest. inversion E; subst. reflexivity.
      * subst rest. inversion E; subst. reflexivity.
      * destruct rest as [|c2 rest]; [congruence|]. rewrite Hl in P2.
        destruct n; try discriminate.
        rewrite (IH _ _ _ _ P2 H1). rewrite <- app_assoc. reflexivity.
      * destruct Hrest as [Hrest|Hrest]; [|discriminate].
        destruct rest as [|c2 rest]; [congruence|]. rewrite Hl in P2. discriminate.
      * discriminate.
Qed.

Lemma resolve_plain s cwd comps sp sn :
  plain_path s cwd comps = true ->
  resolve s cwd {| up_abs := false; up_comps := comps |} false = WFound sp sn -> sp = cwd ++ comps.
Proof. rewrite resolve_unfold. cbn [up_abs up_comps]. apply walk_plain. Qed.

(* ---------- rename(2) onto a missing name ---------------------------------------------------------- *)
Lemma os_rename_missing_dest s cwd src dst dpar dname s' :
  resolve s cwd dst false = WMissing dpar dname -> os_rename s cwd src dst = SOk s' ->
  exists sp sn, resolve s cwd src false = WFound sp sn /\ s' = rekey sp (dpar ++ [dname]) s.
Proof.
  intros Hd. unfold os_rename. rewrite Hd.
  destruct (bad_last src || bad_last dst).
  { destruct (resolve s cwd src false); discriminate. }
  destruct (resolve s cwd src false) as [sp sn| |]; try discriminate.
  destruct sp as [|x sp]; [discriminate|].
  destruct (name_eqb dname dotdot); [discriminate|].
  destruct (is_dir_node sn && is_prefix_path (x :: sp) (dpar ++ [dname])); [discriminate|].
  intros H. inversion H. exists (x :: sp), sn. split; reflexivity.
Qed.

Lemma os_rename_ok_dest_not_err s cwd src dst s' e :
  os_rename s cwd src dst = SOk s' -> resolve s cwd dst false <> WErr e.
Proof.
  unfold os_rename. intros H K. rewrite K in H.
  destruct (bad_last src || bad_last dst).
  - destruct (resolve s cwd src false); discriminate.
  - destruct (resolve s cwd src false) as [sp sn| |]; try discriminate.
    destruct sp; discriminate.
Qed.

(* the new entry of rename(2) / mkdir(2) is keyed by what realpath returns for the path handed in *)
Theorem rename_creates_at_realpath s cwd src dst dpar dname s' :
  resolve s cwd dst false = WMissing dpar dname -> os_rename s cwd src dst = SOk s' ->
  exists sp sn, resolve s cwd src false = WFound sp sn /\ s' = rekey sp (realpath_raw s cwd dst) s.
Proof.
  intros Hd H. rewrite (rename_destination_is_where_realpath_says _ _ _ _ _ Hd).
  eapply os_rename_missing_dest; eauto.
Qed.

Theorem mkdir_creates_at_realpath s cwd p s' :
  os_mkdir s cwd p = SOk s' -> s' = s ++ [(realpath_raw s cwd p, NDir)].
Proof.
  unfold os_mkdir. destruct (resolve s cwd p false) as [| par nm |] eqn:R; try discriminate.
  destruct (name_eqb nm dotdot); [discriminate|]. intros H. inversion H.
  rewrite (rename_destination_is_where_realpath_says _ _ _ _ _ R). reflexivity.
Qed.

(* ---------- the containment test speaks about the key the kernel will use --------------------------- *)
Lemma chdir_self s d : chdir s d = Some d -> resolve s [] {| up_abs := true; up_comps := d |} true = WFound d NDir.
Proof.
  unfold chdir. destruct (resolve s [] {| up_abs := true; up_comps := d |} true) as [p [| |]| |]; try discriminate.
  intros H. inversion H. reflexivity.
Qed.

Lemma contained_true_prefix s f np :
  contained fixed s f np = Some true ->
  is_prefix_path (pf_dir f) (realpath_raw s [] (dest_target f np)) = true.
Proof.
  unfold contained, realpath, dest_target. cbn [fixed v_component_containment].
  set (tgt := {| up_abs := true; up_comps := if Nat.eqb (pp_root np) 0 then pf_dir f ++ pp_parts np else pp_parts np |}).
  set (a := realpath_raw s [] tgt).
  destruct (resolve s [] {| up_abs := true; up_comps := a |} true) as [? ?|? ?|[]]; intros H; inversion H; reflexivity.
Qed.

(* Path.resolve() of (input directory / generated path) is the key rename(2) creates for the
   generated path when called from inside the input directory *)
Lemma dest_realpath s f np dpar dname :
  chdir s (pf_dir f) = Some (pf_dir f) ->
  resolve s (pf_dir f) (to_upath np) false = WMissing dpar dname ->
  realpath_raw s [] (dest_target f np) = dpar ++ [dname].
Proof.
  intros Hc H. unfold dest_target, to_upath in *.
  destruct (Nat.eqb (pp_root np) 0) eqn:Er; cbn [negb] in H.
  - apply joined_destination_realpath_raw; [apply chdir_self; assumption | exact H].
  - rewrite <- (rename_destination_is_where_realpath_says _ _ _ _ _ H).
    unfold realpath_raw. cbn [up_abs up_comps]. reflexivity.
Qed.

Theorem contained_destination_key_inside s f np dpar dname :
  chdir s (pf_dir f) = Some (pf_dir f) ->
  contained fixed s f np = Some true ->
  resolve s (pf_dir f) (to_upath np) false = WMissing dpar dname ->
  is_prefix_path (pf_dir f) (dpar ++ [dname]) = true.
Proof.
  intros Hc Hin H. rewrite <- (dest_realpath _ _ _ _ _ Hc H). apply contained_true_prefix. assumption.
Qed.

(* a relative source path without ".." whose directory components are plain directories *)
Definition plain_source (s : fs) (f : pfile) : Prop :=
  pp_root (pf_rel f) = 0%nat /\ plain_path s (pf_dir f) (pp_parts (pf_rel f)) = true.

Lemma plain_source_key_inside s f sp sn :
  plain_source s f -> resolve s (pf_dir f) (to_upath (pf_rel f)) false = WFound sp sn ->
  is_prefix_path (pf_dir f) sp = true.
Proof.
  intros [Hr P] H. unfold to_upath in H. rewrite Hr in H. cbn [Nat.eqb negb] in H.
  rewrite (resolve_plain _ _ _ _ _ P H). apply is_prefix_path_spec. eexists. reflexivity.
Qed.

(* ---------- (3) one rename step changes nothing outside the input directory ------------------------ *)
(* general source: whatever it resolves to must lie at or below the input directory *)
Theorem confined_rename s f np s' dpar dname :
  chdir s (pf_dir f) = Some (pf_dir f) ->
  contained fixed s f np = Some true ->
  resolve s (pf_dir f) (to_upath np) false = WMissing dpar dname ->
  (forall sp sn, resolve s (pf_dir f) (to_upath (pf_rel f)) false = WFound sp sn -> is_prefix_path (pf_dir f) sp = true) ->
  os_rename s (pf_dir f) (to_upath (pf_rel f)) (to_upath np) = SOk s' ->
  is_prefix_path (pf_dir f) (dpar ++ [dname]) = true /\
  (exists sp sn, resolve s (pf_dir f) (to_upath (pf_rel f)) false = WFound sp sn /\
                 is_prefix_path (pf_dir f) sp = true /\ s' = rekey sp (dpar ++ [dname]) s) /\
  changes_below (pf_dir f) s s'.
Proof.
  intros Hc Hin Hd Hsrc H.
  pose proof (contained_destination_key_inside _ _ _ _ _ Hc Hin Hd) as Pd.
  destruct (os_rename_missing_dest _ _ _ _ _ _ _ Hd H) as [sp [sn [Rs ->]]].
  pose proof (Hsrc _ _ Rs) as Ps.
  split; [assumption|]. split.
  - exists sp, sn. repeat split; assumption.
  - apply rekey_changes_below; assumption.
Qed.

Theorem confined_step s f np s' dpar dname :
  chdir s (pf_dir f) = Some (pf_dir f) ->
  contained fixed s f np = Some true ->
  plain_source s f ->
  resolve s (pf_dir f) (to_upath np) false = WMissing dpar dname ->
  os_rename s (pf_dir f) (to_upath (pf_rel f)) (to_upath np) = SOk s' ->
  is_prefix_path (pf_dir f) (dpar ++ [dname]) = true /\
  (exists sn, resolve s (pf_dir f) (to_upath (pf_rel f)) false = WFound (pf_dir f ++ pp_parts (pf_rel f)) sn /\
              s' = rekey (pf_dir f ++ pp_parts (pf_rel f)) (dpar ++ [dname]) s) /\
  (forall k n, In (k, n) s' -> ~ In (k, n) s -> is_prefix_path (pf_dir f) k = true) /\
  (forall k n, In (k, n) s -> ~ In (k, n) s' -> is_prefix_path (pf_dir f) k = true).
Proof.
  intros Hc Hin Hp Hd H.
  destruct (confined_rename _ _ _ _ _ _ Hc Hin Hd (fun sp sn => plain_source_key_inside _ _ sp sn Hp) H)
    as [Pd [[sp [sn [Rs [Ps ->]]]] [C1 C2]]].
  split; [assumption|]. split; [|split; assumption].
  exists sn. destruct Hp as [Hr P].
  assert (E : sp = pf_dir f ++ pp_parts (pf_rel f)).
  { pose proof Rs as Rs'. unfold to_upath in Rs'. rewrite Hr in Rs'. cbn [Nat.eqb negb] in Rs'.
    exact (resolve_plain _ _ _ _ _ P Rs'). }
  subst sp. split; [assumption | reflexivity].
Qed.

(* ---------- the same, for the renamer as first_pass calls it ---------------------------------------- *)
(* name and directory mode (FileRenamer), and every mode under dry-run: whatever the outcome of the
   renamer (success, refusal, OSError, injected fault), the tree differs from the one before the call
   only at or below the input directory.  In the fixed variant the guard is lexists(destination), so a
   rename that is issued and succeeds always takes the destination-missing branch. *)
Lemma file_renamer_fixed_unfold flt w cwd src dst :
  file_renamer fixed flt w cwd src dst false =
  if lexists (w_fs w) cwd (to_upath dst) then (w, Some ExDestExists)
  else if negb (ppath_eqb (pp_parent src) (pp_parent dst)) then (w, Some ExInvalidDest)
  else match sys flt CRename w (os_rename (w_fs w) cwd (to_upath src) (to_upath dst)) with
       | (w1, None) => (w1, None)
       | (w1, Some e) => (w1, Some (exn_of_errno e))
       end.
Proof. reflexivity. Qed.

Lemma sys_fs flt k w r w1 e :
  sys flt k w r = (w1, e) ->
  (w_fs w1 = w_fs w) \/ (e = None /\ r = SOk (w_fs w1)).
Proof.
  unfold sys. destruct (faulted flt w).
  - intros H. inversion H. left. reflexivity.
  - destruct r as [s'|err]; intros H; inversion H.
    + right. split; reflexivity.
    + left. reflexivity.
Qed.

Lemma file_renamer_confined flt w f np w' e :
  chdir (w_fs w) (pf_dir f) = Some (pf_dir f) ->
  contained fixed (w_fs w) f np = Some true ->
  plain_source (w_fs w) f ->
  file_renamer fixed flt w (pf_dir f) (pf_rel f) np false = (w', e) ->
  changes_below (pf_dir f) (w_fs w) (w_fs w').
Proof.
  intros Hc Hin Hp. rewrite file_renamer_fixed_unfold.
  destruct (lexists (w_fs w) (pf_dir f) (to_upath np)) eqn:Hg.
  { intros H. inversion H; subst. apply changes_below_refl. }
  destruct (negb (ppath_eqb (pp_parent (pf_rel f)) (pp_parent np))).
  { intros H. inversion H; subst. apply changes_below_refl. }
  destruct (sys flt CRename w (os_rename (w_fs w) (pf_dir f) (to_upath (pf_rel f)) (to_upath np))) as [w1 e1] eqn:Sy.
  intros H.
  assert (Ew : w1 = w') by (destruct e1; inversion H; reflexivity). subst w1. clear H.
  destruct (sys_fs _ _ _ _ _ _ Sy) as [E | [_ R]].
  - rewrite E. apply changes_below_refl.
  - destruct (resolve (w_fs w) (pf_dir f) (to_upath np) false) as [dp dn|dpar dname|er] eqn:Rd.
    + exfalso. exact (not_lexists_not_found _ _ _ Hg _ _ Rd).
    + destruct (confined_step _ _ _ _ _ _ Hc Hin Hp Rd R) as [_ [_ [C1 C2]]]. split; assumption.
    + exfalso. exact (os_rename_ok_dest_not_err _ _ _ _ _ _ R Rd).
Qed.

Lemma dry_renamer_fs v sd w cwd src dst o w' e :
  dry_renamer v sd w cwd src dst o = (w', e) -> w_fs w' = w_fs w.
Proof.
  unfold dry_renamer.
  destruct (dry_exists v w cwd dst && negb o); [intros H; inversion H; reflexivity|].
  destruct (sd && negb (ppath_eqb (pp_parent src) (pp_parent dst))); [intros H; inversion H; reflexivity|].
  destruct (negb (dry_exists v w cwd src)); intros H; inversion H; reflexivity.
Qed.

Lemma add_report_fs w src dst o : w_fs (add_report w src dst o) = w_fs w.
Proof. reflexivity. Qed.

Theorem confined_renamer_step c w f np w' e :
  c_var c = fixed -> (c_dry c = true \/ c_mode c <> MPath) ->
  chdir (w_fs w) (pf_dir f) = Some (pf_dir f) ->
  contained (c_var c) (w_fs w) f np = Some true ->
  plain_source (w_fs w) f ->
  renamer c w (pf_dir f) (pf_rel f) np false = (w', e) ->
  changes_below (pf_dir f) (w_fs w) (w_fs w').
Proof.
  intros Hv Hm Hc Hin Hp. rewrite Hv in Hin. unfold renamer, renamer_core. rewrite Hv.
  destruct (c_dry c) eqn:Hdry.
  - destruct (dry_renamer fixed (match c_mode c with MPath => false | _ => true end) w (pf_dir f) (pf_rel f) np false)
      as [w1 [e1|]] eqn:D; intros H; inversion H; subst; try rewrite add_report_fs;
      rewrite (dry_renamer_fs _ _ _ _ _ _ _ _ _ D); apply changes_below_refl.
  - destruct Hm as [Hm|Hm]; [discriminate|].
    assert (R : forall X, match c_mode c with MPath => X | _ => file_renamer fixed (c_fault c) w (pf_dir f) (pf_rel f) np false end
                          = file_renamer fixed (c_fault c) w (pf_dir f) (pf_rel f) np false).
    { intros X. destruct (c_mode c); congruence. }
    rewrite R.
    destruct (file_renamer fixed (c_fault c) w (pf_dir f) (pf_rel f) np false) as [w1 [e1|]] eqn:D;
      intros H; inversion H; subst; try rewrite add_report_fs;
      exact (file_renamer_confined _ _ _ _ _ _ Hc Hin Hp D).
Qed.

(* ---------- any source: the test on the directory the source really lives in (F32) ------------------- *)
(* first_pass also tests, with Path.resolve(), that the PARENT of (input directory / relative path) lies at
   or below the input directory.  The kernel resolves every component of the source but the last with the
   links followed, so the entry rename(2) takes away is keyed realpath(parent) ++ [last component]: it lies
   at or below the input directory whatever links and ".." the relative path goes through.  A source whose
   last component is ".." (or which is empty) is refused by rename(2) itself. *)
Definition source_inside (s : fs) (f : pfile) : Prop :=
  is_prefix_path (pf_dir f) (realpath_raw s [] (source_parent f)) = true.

Lemma source_contained_inside s f : source_contained s f = Some true -> source_inside s f.
Proof.
  unfold source_contained, source_inside, realpath.
  set (a := realpath_raw s [] (source_parent f)).
  destruct (resolve s [] {| up_abs := true; up_comps := a |} true) as [? ?|? ?|[]]; intros H; inversion H; reflexivity.
Qed.

Lemma to_upath_walk' s d p fl :
  resolve s d (to_upath p) fl = walk walk_fuel s (if Nat.eqb (pp_root p) 0 then d else []) (pp_parts p) fl.
Proof. rewrite resolve_unfold. unfold to_upath. cbn [up_abs up_comps]. destruct (Nat.eqb (pp_root p) 0); reflexivity. Qed.

Lemma bad_last_false_snoc (p : ppath) :
  bad_last (to_upath p) = false ->
  pp_parts p = removelast (pp_parts p) ++ [last (pp_parts p) []] /\ name_eqb (last (pp_parts p) []) dotdot = false.
Proof.
  unfold bad_last, to_upath. cbn [up_comps]. destruct (pp_parts p) as [|c l] eqn:E; [discriminate|]. intros H. split; [|exact H].
  apply app_removelast_last. discriminate.
Qed.

(* the last component is looked up in the directory the walk of the others (links followed) ends in *)
Lemma walk_last_component s f cur pre c sp sn :
  name_eqb c dotdot = false -> walk f s cur (pre ++ [c]) false = WFound sp sn ->
  exists q, walk f s cur pre true = WFound q NDir /\ sp = q ++ [c].
Proof.
  intros Ed H.
  destruct (walk_app_split _ _ _ _ _ _ _ (ltac:(discriminate) : [c] <> []) H (found_not_err _ _)) as [q [nq [A B]]].
  destruct (walk_found_pos _ _ _ _ _ _ _ B) as [f0 Ef]. subst f.
  destruct (walk_cons_inv _ _ _ _ _ _ _ B (found_not_err _ _)) as [Hq W].
  pose proof (walk_found _ _ _ _ _ _ _ A) as K. rewrite Hq in K. inversion K; subst nq.
  exists q. split; [exact A|].
  destruct W as [Ed' H1 | _ n Hl Hn Hrest E | _ n Hl Hn Hrest Hfl E | _ n Hl Hn Hrest H1 | _ i t Hl Hrest H1 | _ Hl Hrest E];
    try congruence.
  - destruct Hrest as [Hrest|Hrest]; [congruence | discriminate].
Qed.

(* fuel-generic: the key of the source is realpath(directory ++ all but the last component) ++ [last] *)
Lemma walk_source_key_rel s wf rf d pre c sp sn :
  walk wf s [] d true = WFound d NDir -> name_eqb c dotdot = false ->
  walk wf s d (pre ++ [c]) false = WFound sp sn -> (wf + wf < rf)%nat ->
  exists q, joinreal rf s [] (d ++ pre) [] = (q, true) /\ sp = q ++ [c].
Proof.
  intros Hc Ed H Hf.
  destruct (walk_last_component _ _ _ _ _ _ _ Ed H) as [q [A E]]. exists q. split; [|exact E].
  destruct pre as [|c1 pre1].
  - rewrite app_nil_r.
    assert (Eq : q = d).
    { destruct (walk_found_pos _ _ _ _ _ _ _ A) as [f0 Ef]. rewrite Ef, walk_S in A.
      destruct (lookup s d); [|discriminate A]. inversion A. reflexivity. }
    rewrite Eq. apply (walk_realpath_agree _ _ _ _ _ _ rf Hc). lia.
  - pose proof (walk_app_join _ _ _ _ _ _ _ _ _ _ (ltac:(discriminate) : c1 :: pre1 <> []) Hc A ltac:(discriminate)) as K.
    apply (walk_realpath_agree _ _ _ _ _ _ rf K). lia.
Qed.

Lemma walk_source_key_abs s wf rf pre c sp sn :
  name_eqb c dotdot = false ->
  walk wf s [] (pre ++ [c]) false = WFound sp sn -> (wf < rf)%nat ->
  exists q, joinreal rf s [] pre [] = (q, true) /\ sp = q ++ [c].
Proof.
  intros Ed H Hf.
  destruct (walk_last_component _ _ _ _ _ _ _ Ed H) as [q [A E]]. exists q. split; [|exact E].
  apply (walk_realpath_agree _ _ _ _ _ _ rf A). exact Hf.
Qed.

Lemma source_inside_unfold s f :
  source_inside s f =
  (is_prefix_path (pf_dir f)
     (fst (joinreal realpath_fuel s [] ((if Nat.eqb (pp_root (pf_rel f)) 0 then pf_dir f else []) ++ removelast (pp_parts (pf_rel f))) []))
   = true).
Proof. reflexivity. Qed.

Lemma prefix_snoc d q (c : name) : is_prefix_path d q = true -> is_prefix_path d (q ++ [c]) = true.
Proof.
  intros H. apply is_prefix_path_spec in H as [r ->]. apply is_prefix_path_spec. exists (r ++ [c]). rewrite app_assoc. reflexivity.
Qed.

Lemma source_key_inside s f sp sn :
  chdir s (pf_dir f) = Some (pf_dir f) -> source_inside s f ->
  bad_last (to_upath (pf_rel f)) = false ->
  resolve s (pf_dir f) (to_upath (pf_rel f)) false = WFound sp sn ->
  is_prefix_path (pf_dir f) sp = true.
Proof.
  intros Hc Hin Hb H. apply chdir_self in Hc.
  destruct (bad_last_false_snoc _ Hb) as [Ep Ed].
  rewrite source_inside_unfold in Hin.
  rewrite resolve_unfold in Hc. change (walk walk_fuel s [] (pf_dir f) true = WFound (pf_dir f) NDir) in Hc.
  rewrite to_upath_walk' in H. rewrite Ep in H.
  destruct (Nat.eqb (pp_root (pf_rel f)) 0).
  - destruct (walk_source_key_rel _ _ realpath_fuel _ _ _ _ _ Hc Ed H) as [q [J E]].
    { pose proof fuel_gap. lia. }
    rewrite J in Hin. rewrite E. apply prefix_snoc. exact Hin.
  - destruct (walk_source_key_abs _ _ realpath_fuel _ _ _ _ Ed H) as [q [J E]].
    { pose proof fuel_gap. lia. }
    change ([] ++ removelast (pp_parts (pf_rel f))) with (removelast (pp_parts (pf_rel f))) in Hin.
    rewrite J in Hin. rewrite E. apply prefix_snoc. exact Hin.
Qed.

Lemma os_rename_ok_not_bad_last s cwd src dst s' :
  os_rename s cwd src dst = SOk s' -> bad_last src = false.
Proof.
  unfold os_rename. destruct (bad_last src); [|reflexivity]. cbn [orb].
  destruct (resolve s cwd src false); [destruct (resolve s cwd dst false)| |]; discriminate.
Qed.

(* one rename step, any source: source_contained replaces plain_source *)
Theorem confined_step_any_source s f np s' dpar dname :
  chdir s (pf_dir f) = Some (pf_dir f) ->
  contained fixed s f np = Some true ->
  source_contained s f = Some true ->
  resolve s (pf_dir f) (to_upath np) false = WMissing dpar dname ->
  os_rename s (pf_dir f) (to_upath (pf_rel f)) (to_upath np) = SOk s' ->
  is_prefix_path (pf_dir f) (dpar ++ [dname]) = true /\
  (exists sp sn, resolve s (pf_dir f) (to_upath (pf_rel f)) false = WFound sp sn /\
                 is_prefix_path (pf_dir f) sp = true /\ s' = rekey sp (dpar ++ [dname]) s) /\
  changes_below (pf_dir f) s s'.
Proof.
  intros Hc Hin Hs Hd H.
  apply (confined_rename _ _ _ _ _ _ Hc Hin Hd); [|exact H].
  intros sp sn R. apply (source_key_inside _ _ _ _ Hc (source_contained_inside _ _ Hs)
                           (os_rename_ok_not_bad_last _ _ _ _ _ H) R).
Qed.

Lemma file_renamer_confined_any_source flt w f np w' e :
  chdir (w_fs w) (pf_dir f) = Some (pf_dir f) ->
  contained fixed (w_fs w) f np = Some true ->
  source_contained (w_fs w) f = Some true ->
  file_renamer fixed flt w (pf_dir f) (pf_rel f) np false = (w', e) ->
  changes_below (pf_dir f) (w_fs w) (w_fs w').
Proof.
  intros Hc Hin Hp. rewrite file_renamer_fixed_unfold.
  destruct (lexists (w_fs w) (pf_dir f) (to_upath np)) eqn:Hg.
  { intros H. inversion H; subst. apply changes_below_refl. }
  destruct (negb (ppath_eqb (pp_parent (pf_rel f)) (pp_parent np))).
  { intros H. inversion H; subst. apply changes_below_refl. }
  destruct (sys flt CRename w (os_rename (w_fs w) (pf_dir f) (to_upath (pf_rel f)) (to_upath np))) as [w1 e1] eqn:Sy.
  intros H.
  assert (Ew : w1 = w') by (destruct e1; inversion H; reflexivity). subst w1. clear H.
  destruct (sys_fs _ _ _ _ _ _ Sy) as [E | [_ R]].
  - rewrite E. apply changes_below_refl.
  - destruct (resolve (w_fs w) (pf_dir f) (to_upath np) false) as [dp dn|dpar dname|er] eqn:Rd.
    + exfalso. exact (not_lexists_not_found _ _ _ Hg _ _ Rd).
    + exact (proj2 (proj2 (confined_step_any_source _ _ _ _ _ _ Hc Hin Hp Rd R))).
    + exfalso. exact (os_rename_ok_dest_not_err _ _ _ _ _ _ R Rd).
Qed.

Theorem confined_renamer_step_any_source c w f np w' e :
  c_var c = fixed -> (c_dry c = true \/ c_mode c <> MPath) ->
  chdir (w_fs w) (pf_dir f) = Some (pf_dir f) ->
  contained (c_var c) (w_fs w) f np = Some true ->
  source_contained (w_fs w) f = Some true ->
  renamer c w (pf_dir f) (pf_rel f) np false = (w', e) ->
  changes_below (pf_dir f) (w_fs w) (w_fs w').
Proof.
  intros Hv Hm Hc Hin Hp. rewrite Hv in Hin. unfold renamer, renamer_core. rewrite Hv.
  destruct (c_dry c) eqn:Hdry.
  - destruct (dry_renamer fixed (match c_mode c with MPath => false | _ => true end) w (pf_dir f) (pf_rel f) np false)
      as [w1 [e1|]] eqn:D; intros H; inversion H; subst; try rewrite add_report_fs;
      rewrite (dry_renamer_fs _ _ _ _ _ _ _ _ _ D); apply changes_below_refl.
  - destruct Hm as [Hm|Hm]; [discriminate|].
    assert (R : forall X, match c_mode c with MPath => X | _ => file_renamer fixed (c_fault c) w (pf_dir f) (pf_rel f) np false end
                          = file_renamer fixed (c_fault c) w (pf_dir f) (pf_rel f) np false).
    { intros X. destruct (c_mode c); congruence. }
    rewrite R.
    destruct (file_renamer fixed (c_fault c) w (pf_dir f) (pf_rel f) np false) as [w1 [e1|]] eqn:D;
      intros H; inversion H; subst; try rewrite add_report_fs;
      exact (file_renamer_confined_any_source _ _ _ _ _ _ Hc Hin Hp D).
Qed.

(* ---------- non-vacuity: a symlinked directory inside the input directory ----------------------------- *)
(* /in, /in/a (file), /in/sub, /in/lnk -> sub, /out.  Name mode would not produce it, but as a path:
   "lnk/../b" resolves (kernel and realpath alike) to /in/b, the containment test accepts it, and the
   rename changes keys below /in only. *)
Definition cs_fs : fs :=
  [([[105;110]], NDir); ([[105;110]; [97]], NFile 1); ([[105;110]; [115;117;98]], NDir);
   ([[105;110]; [108;110;107]], NLink 2 {| up_abs := false; up_comps := [[115;117;98]] |});
   ([[111;117;116]], NDir)].
Definition cs_file : pfile := {| pf_dir := [[105;110]]; pf_rel := {| pp_root := 0; pp_parts := [[97]] |} |}.
Definition cs_np : ppath := {| pp_root := 0; pp_parts := [[108;110;107]; dotdot; [98]] |}.

Example confined_step_applies :
  chdir cs_fs (pf_dir cs_file) = Some (pf_dir cs_file) /\
  contained fixed cs_fs cs_file cs_np = Some true /\
  plain_path cs_fs (pf_dir cs_file) (pp_parts (pf_rel cs_file)) = true /\
  resolve cs_fs (pf_dir cs_file) (to_upath cs_np) false = WMissing [[105;110]] [98] /\
  os_rename cs_fs (pf_dir cs_file) (to_upath (pf_rel cs_file)) (to_upath cs_np)
    = SOk [([[105;110]], NDir); ([[105;110]; [98]], NFile 1); ([[105;110]; [115;117;98]], NDir);
           ([[105;110]; [108;110;107]], NLink 2 {| up_abs := false; up_comps := [[115;117;98]] |});
           ([[111;117;116]], NDir)].
Proof. vm_compute. repeat split. Qed.
