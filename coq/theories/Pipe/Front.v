(* C09: the order of things in cli.main / build_pipeline / Pipeline.execute — all three templates are  *)
(* compiled before anything is gathered, every selected file passes the filter expression and the sort  *)
(* key evaluation before the first new name is generated — and the exit status of each failure class.  *)
From Tempren Require Import Base.Str Py.PathLib FS.Model Pipe.Pipeline.
Open Scope N_scope.

Record front := {
  f_name_ok : bool;                (* the name/path template compiles                               *)
  f_filter : option bool;          (* a --filter-template is given and compiles (Some true/false)    *)
  f_sort : option bool;            (* a --sort template is given and compiles                        *)
  f_filter_eval : pfile -> option bool;   (* filter expression for a file: None = evaluation error  *)
  f_sort_eval : pfile -> bool      (* sort key for a file evaluates                                  *)
}.

Definition failed (e : exn) (s : fs) : result :=
  {| r_error := Some e; r_status := status_of e; r_final := s; r_states := []; r_calls := [];
     r_report := []; r_prompts := O |}.

Fixpoint filter_all (ev : pfile -> option bool) (l : list pfile) : option (list pfile) :=
  match l with
  | [] => Some []
  | f :: r => match ev f with
              | None => None
              | Some b => match filter_all ev r with
                          | None => None
                          | Some k => Some (if b then f :: k else k)
                          end
              end
  end.

(* [order] and [render] stand for the sorter and the compiled name template *)
Definition main_run (fr : front) (c : cfg) (gathered : list pfile)
           (order : list pfile -> list pfile) (render : list pfile -> list (pfile * rendered))
           (cwd : rpath) (s : fs) : result :=
  if negb (f_name_ok fr) then failed ExTemplate s
  else match f_filter fr with
  | Some false => failed ExTemplate s
  | _ =>
    match c_mode c, f_sort fr with
    | MDirectory, Some _ => failed ExConfiguration s          (* sorting is not available in directory mode *)
    | _, Some false => failed ExTemplate s
    | _, _ =>
      match (match f_filter fr with Some _ => filter_all (f_filter_eval fr) gathered | None => Some gathered end) with
      | None => failed ExTemplateEval s
      | Some selected =>
        if (match f_sort fr with Some _ => negb (forallb (f_sort_eval fr) selected) | None => false end)
        then failed ExTemplateEval s
        else run c (render (order selected)) cwd s
      end
    end
  end.

Definition template_mistake (fr : front) : bool :=
  negb (f_name_ok fr) || match f_filter fr with Some false => true | _ => false end
  || match f_sort fr with Some false => true | _ => false end.

Theorem untouched_on_template_error fr c gathered order render cwd s :
  template_mistake fr = true ->
  let r := main_run fr c gathered order render cwd s in
  r_calls r = [] /\ r_states r = [] /\ r_final r = s /\ r_report r = [] /\ (r_status r = 3%Z \/ r_status r = 2%Z).
Proof.
  unfold template_mistake, main_run. intros H.
  destruct (f_name_ok fr); simpl in *; [|repeat split; auto].
  destruct (f_filter fr) as [[|]|]; simpl in *; try (repeat split; auto; fail);
    destruct (f_sort fr) as [[|]|]; simpl in *; try discriminate;
    destruct (c_mode c); simpl; repeat split; auto.
Qed.

Lemma no_mistake_name_ok fr : template_mistake fr = false -> f_name_ok fr = true.
Proof. unfold template_mistake. destruct (f_name_ok fr); [reflexivity | discriminate]. Qed.

Theorem untouched_on_filter_evaluation_error fr c gathered order render cwd s :
  template_mistake fr = false -> f_filter fr = Some true ->
  (c_mode c = MDirectory -> f_sort fr = None) ->
  filter_all (f_filter_eval fr) gathered = None ->
  let r := main_run fr c gathered order render cwd s in
  r_calls r = [] /\ r_final r = s /\ r_report r = [] /\ r_status r = 4%Z.
Proof.
  intros H F D E. pose proof (no_mistake_name_ok _ H) as N. unfold main_run. rewrite N, F. cbn [negb]. cbv beta iota.
  destruct (f_sort fr) as [[|]|] eqn:S.
  - destruct (c_mode c) eqn:M; try (cbv beta iota; rewrite E; cbn; repeat split; reflexivity). specialize (D eq_refl). discriminate.
  - exfalso. unfold template_mistake in H. rewrite N, F, S in H. discriminate.
  - destruct (c_mode c); cbv beta iota; rewrite E; cbn; repeat split; reflexivity.
Qed.

Theorem untouched_on_sort_evaluation_error fr c gathered order render cwd s selected :
  template_mistake fr = false -> f_sort fr = Some true -> c_mode c <> MDirectory ->
  (match f_filter fr with Some _ => filter_all (f_filter_eval fr) gathered | None => Some gathered end) = Some selected ->
  forallb (f_sort_eval fr) selected = false ->
  let r := main_run fr c gathered order render cwd s in
  r_calls r = [] /\ r_final r = s /\ r_report r = [] /\ r_status r = 4%Z.
Proof.
  intros H S M E B. pose proof (no_mistake_name_ok _ H) as N. unfold main_run. rewrite N, S. cbn [negb]. cbv beta iota.
  destruct (f_filter fr) as [[|]|] eqn:F.
  - destruct (c_mode c); try congruence; cbv beta iota in *; rewrite E, B; cbn; repeat split; reflexivity.
  - exfalso. unfold template_mistake in H. rewrite N, F in H. discriminate.
  - injection E as E'. subst selected.
    destruct (c_mode c); try congruence; cbv beta iota; rewrite B; cbn; repeat split; reflexivity.
Qed.

(* the filter loop has a verdict for every gathered file, or fails as a whole *)
Lemma filter_all_spec ev l : forall k, filter_all ev l = Some k -> forall f, In f l -> ev f <> None.
Proof.
  induction l as [|x l IH]; simpl; intros k H f I; [contradiction|].
  destruct (ev x) as [b|] eqn:Ex; [|discriminate].
  destruct (filter_all ev l) as [k'|] eqn:R; [|discriminate].
  destruct I as [E|I]; [subst; congruence | exact (IH k' eq_refl f I)].
Qed.

(* exit statuses: template errors are 3, evaluation errors 4, never the unknown-error status *)
Theorem status_classes :
  status_of ExTemplate = 3%Z /\ status_of ExTemplateEval = 4%Z /\ status_of ExConfiguration = 2%Z /\
  status_of ExTemplate <> 126%Z /\ status_of ExTemplateEval <> 126%Z.
Proof. repeat split; discriminate. Qed.
