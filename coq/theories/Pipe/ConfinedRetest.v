(* C06 for a whole run, after the repair of F38: the second pass runs the containment tests again, on   *)
(* the tree as it is when a deferred rename is retried.  Every rename of a non-override run is then     *)
(* issued right after its tests said yes on the CURRENT tree, so the hypothesis of Pipe/ConfinedRun.v   *)
(* that the symbolic links stay where they are ([same_links]) is not needed any more: what remains is   *)
(* that every input directory is its own real path ([dirs_real]) - in every state, or, by a condition   *)
(* on the initial tree and the plan alone, in the initial tree with input directories that do not lie   *)
(* inside each other.                                                                                  *)
From Tempren Require Import Base.Str Py.PathLib FS.Model FS.Lemmas FS.RealpathAgree FS.DirExt
  Pipe.Pipeline Pipe.DestParent Pipe.BacklogVerify Pipe.Confine Pipe.Confined Pipe.ConfinedMove Pipe.Safety
  Pipe.SafetyFacts Pipe.DryEqualsReal Pipe.ConfinedRun.
Open Scope N_scope.

Section RunR.
Variables (c : cfg) (D : list rpath) (s : fs).       (* s: the initial tree *)
Hypothesis Hv : c_var c = fixed.
Hypothesis NO : no_override c.

(* every input directory is its own real path *)
Definition dirs_real (h : fs) : Prop := forall d, In d D -> chdir h d = Some d.

(* the history, newest first: every state is one confined step after the one before, provided the input
   directories are their own real paths in all OLDER states *)
Fixpoint rchain (l : list fs) : Prop :=
  match l with
  | [] => True
  | h :: l' => rchain l' /\ (Forall dirs_real (l' ++ [s]) -> fs_step D (hd s l') h)
  end.

Definition rtracked (w : world) : Prop := w_fs w = hd s (w_hist w) /\ rchain (w_hist w).

Lemma rchain_chain l : rchain l -> Forall dirs_real (l ++ [s]) -> chain D s l.
Proof.
  induction l as [|h l IH]; intros C G; [exact I|].
  cbn [rchain app] in *. destruct C as [C S]. inversion G as [|? ? _ G']; subst.
  split; [apply IH; assumption | apply S; assumption].
Qed.

Lemma rtracked_wstep (P : Prop) w w' :
  rtracked w -> wstep P D w w' -> (Forall dirs_real (w_hist w ++ [s]) -> P) -> rtracked w'.
Proof.
  intros [Hf Hc] [l [H [F C]]] HP. split.
  - rewrite F, H, Hf. symmetry. apply hd_app.
  - rewrite H. clear H F. induction l as [|h l IH]; [exact Hc|].
    cbn [app rchain]. split.
    + apply IH. intros K. exact (proj1 (C K)).
    + intros G. rewrite <- app_assoc in G. pose proof (proj2 (proj1 (Forall_app _ _ _) G)) as G2.
      destruct (C (HP G2)) as [_ S]. rewrite hd_app, <- Hf. exact S.
Qed.

(* the renamer, called right after the tests said yes on the current tree *)
Lemma renamer_rtracked f dst cwd1 w w1 e1 :
  rtracked w -> In (pf_dir f) D ->
  contained fixed (w_fs w) f dst = Some true -> parents_contained (w_fs w) f dst = Some true ->
  source_contained (w_fs w) f = Some true ->
  chdir (w_fs w) (pf_dir f) = Some cwd1 ->
  renamer c w cwd1 (pf_rel f) dst false = (w1, e1) ->
  rtracked w1.
Proof.
  intros Tw HfD Ct Pc Sc Hc Rn.
  assert (St : wstep (Forall dirs_real (w_hist w ++ [s])) D w w1).
  { destruct (rpath_eqb cwd1 (pf_dir f)) eqn:Ec.
    - apply rpath_eqb_eq in Ec. subst cwd1.
      apply (wstep_weaken (still_valid D f (w_fs w) (w_fs w))).
      + intros _. split; [exact Hc|]. split; [reflexivity | apply changes_in_refl].
      + exact (renamer_wstep D f dst (w_fs w) HfD Ct Pc Sc c w w1 e1 Hv Rn).
    - apply (wstep_weaken False); [|exact (renamer_shape D _ _ _ _ _ _ _ _ Rn)].
      intros G. rewrite Forall_forall in G. pose proof (G (w_fs w)) as G1.
      rewrite (G1 ltac:(rewrite (proj1 Tw); apply hd_in) _ HfD) in Hc. inversion Hc; subst.
      rewrite rpath_eqb_refl in Ec. discriminate. }
  exact (rtracked_wstep _ _ _ Tw St (fun x => x)).
Qed.

Definition bl_dirs (bl : list backlog_entry) : Prop := Forall (fun b => In (fst (fst b)) D) bl.

Lemma first_pass_rtracked : forall plan w cwd bl w' cwd' bl' e,
  (forall f r, In (f, r) plan -> In (pf_dir f) D) ->
  rtracked w -> bl_dirs bl -> first_pass c plan w cwd bl = (w', cwd', bl', e) ->
  rtracked w' /\ bl_dirs bl' /\ w_answers w' = w_answers w.
Proof.
  induction plan as [|[f r] rest IH]; intros w cwd bl w' cwd' bl' e HD Tw Hbl.
  - intros H. inversion H; subst. auto.
  - assert (HD' : forall f0 r0, In (f0, r0) rest -> In (pf_dir f0) D) by (intros f0 r0 K; apply (HD f0 r0); right; exact K).
    assert (HfD : In (pf_dir f) D) by (apply (HD f r); left; reflexivity).
    cbn [first_pass].
    destruct (chdir (w_fs w) (pf_dir f)) as [cwd1|] eqn:Hc; [|intros H; inversion H; subst; auto].
    destruct (generate (c_mode c) f r) as [np|ex]; [|intros H; inversion H; subst; auto].
    destruct (ppath_eqb np (pf_rel f)); [apply IH; assumption|].
    rewrite Hv.
    destruct (contained fixed (w_fs w) f np) as [[|]|] eqn:Ct; try (intros H; inversion H; subst; auto; fail).
    destruct (dest_parent_test fixed (w_fs w) f np) as [[|]|] eqn:Dc; try (intros H; inversion H; subst; auto; fail).
    destruct (parents_contained (w_fs w) f np) as [[|]|] eqn:Pc; try (intros H; inversion H; subst; auto; fail).
    destruct (source_contained (w_fs w) f) as [[|]|] eqn:Sc; try (intros H; inversion H; subst; auto; fail).
    destruct (renamer c w cwd1 (pf_rel f) np false) as [w1 e1] eqn:Rn.
    pose proof (renamer_rtracked _ _ _ _ _ _ Tw HfD Ct Pc Sc Hc Rn) as Tw1.
    pose proof (renamer_answers _ _ _ _ _ _ _ _ Rn) as A1.
    destruct e1 as [ex|].
    + destruct (is_file_exists ex).
      * intros H. apply IH in H; [|assumption|assumption|].
        { destruct H as [X [Y Z]]. split; [exact X|]. split; [exact Y | congruence]. }
        constructor; [exact HfD | exact Hbl].
      * intros H. inversion H; subst. auto.
    + intros H. apply IH in H; [|assumption|assumption|assumption].
      destruct H as [X [Y Z]]. split; [exact X|]. split; [exact Y | congruence].
Qed.

(* the second pass: the tests are run again, on the tree the entry is retried in *)
Lemma second_pass_rtracked : forall bl w cwd w' cwd' e,
  rtracked w -> bl_dirs bl -> answers_simple c w ->
  second_pass c bl w cwd = (w', cwd', e) -> rtracked w'.
Proof.
  induction bl as [|[[d src] dst] rest IH]; intros w cwd w' cwd' e Tw Hbl AS.
  - intros H. inversion H; subst. exact Tw.
  - cbn [second_pass]. rewrite Hv. cbn [fixed v_backlog_chdir].
    pose proof (Forall_inv Hbl) as HdD. cbn [fst] in HdD. pose proof (Forall_inv_tail Hbl) as Hrest.
    destruct (chdir (w_fs w) d) as [cwd1|] eqn:Hc; [|intros H; inversion H; subst; exact Tw].
    destruct (backlog_verify fixed (w_fs w) d src dst) as [ev|] eqn:BV; [intros H; inversion H; subst; exact Tw|].
    rewrite backlog_verify_fixed in BV.
    destruct (verify_destination_None _ _ _ _ BV) as [Ct [_ [Pc Sc]]].
    destruct (renamer c w cwd1 src dst false) as [w1 e1] eqn:Rn.
    pose proof (renamer_rtracked {| pf_dir := d; pf_rel := src |} dst cwd1 w w1 e1 Tw HdD Ct Pc Sc Hc Rn) as Tw1.
    pose proof (renamer_answers _ _ _ _ _ _ _ _ Rn) as A1.
    assert (AS1 : answers_simple c w1) by (intros K; rewrite A1; exact (AS K)).
    destruct e1 as [ex|]; [|apply IH; assumption].
    destruct (is_file_exists ex); [|intros H; inversion H; subst; exact Tw1].
    destruct (resolve_conflict c w1 cwd1 src dst) as [w2 e2] eqn:RC.
    destruct (resolve_conflict_no_override _ _ _ _ _ _ _ NO AS1 RC) as [F2 [H2 AS2]].
    assert (Tw2 : rtracked w2) by (unfold rtracked; rewrite F2, H2; exact Tw1).
    destruct e2 as [ex2|]; [intros H; inversion H; subst; exact Tw2|].
    apply IH; assumption.
Qed.

End RunR.

(* ---------- the run ---------------------------------------------------------------------------------------------------- *)
Lemma run_rtracked c plan cwd s :
  c_var c = fixed -> no_override c ->
  exists wF, r_final (run c plan cwd s) = w_fs wF /\ r_states (run c plan cwd s) = rev (w_hist wF) /\
             rtracked (plan_dirs plan) s wF.
Proof.
  intros Hv NO. unfold run.
  assert (T0 : rtracked (plan_dirs plan) s (init_world s (c_answers c))) by (split; [reflexivity | exact I]).
  assert (B0 : bl_dirs (plan_dirs plan) []) by constructor.
  destruct (first_pass c plan (init_world s (c_answers c)) cwd []) as [[[w1 cwd1] bl] e1] eqn:FP.
  destruct (first_pass_rtracked c (plan_dirs plan) s Hv plan _ _ _ _ _ _ _ (plan_dirs_in plan) T0 B0 FP) as [T1 [B1 A1]].
  destruct e1 as [e|].
  - exists w1. simpl. auto.
  - destruct (second_pass c bl w1 cwd1) as [[w2 cwd2] e2] eqn:SP. exists w2. simpl.
    split; [reflexivity|]. split; [reflexivity|].
    apply (second_pass_rtracked c (plan_dirs plan) s Hv NO bl w1 cwd1 w2 cwd2 e2 T1 B1); [|exact SP].
    intros Cs. rewrite A1. simpl. unfold no_override in NO. rewrite Cs in NO. exact NO.
Qed.

(* the hypothesis of the run-level theorem: in every state of the run, every input directory of the plan is
   its own real path.  Nothing is assumed about the symbolic links. *)
Definition run_dirs_real (c : cfg) (plan : list (pfile * rendered)) (cwd : rpath) (s : fs) : Prop :=
  Forall (dirs_real (plan_dirs plan)) (s :: r_states (run c plan cwd s)).

Theorem run_is_chain_retest c plan cwd s :
  c_var c = fixed -> no_override c -> run_dirs_real c plan cwd s ->
  exists l, r_states (run c plan cwd s) = rev l /\ r_final (run c plan cwd s) = hd s l /\ chain (plan_dirs plan) s l.
Proof.
  intros Hv NO G. destruct (run_rtracked c plan cwd s Hv NO) as [wF [F [St [Hf Hc]]]].
  exists (w_hist wF). split; [exact St|]. split; [rewrite F; exact Hf|].
  apply (rchain_chain _ _ _ Hc). unfold run_dirs_real in G. rewrite St in G.
  apply Forall_rev in G. cbn [rev] in G. rewrite rev_involutive in G. exact G.
Qed.

Theorem every_state_confined_retest c plan cwd s :
  c_var c = fixed -> no_override c -> run_dirs_real c plan cwd s ->
  forall h, In h (r_final (run c plan cwd s) :: r_states (run c plan cwd s)) -> changes_in (plan_dirs plan) s h.
Proof.
  intros Hv NO G h Hin. destruct (run_is_chain_retest c plan cwd s Hv NO G) as [l [St [F C]]].
  assert (K : In h (l ++ [s])).
  { destruct Hin as [<-|Hin]; [rewrite F; apply hd_in|]. rewrite St in Hin. apply in_or_app. left. apply in_rev. exact Hin. }
  apply in_app_or in K as [K|[<-|[]]]; [exact (chain_changes _ _ _ C _ K) | apply changes_in_refl].
Qed.

(* ---------- [run_dirs_real] from a condition on the initial tree and the plan alone ------------------------------------- *)
Section DirsStay.
Variable D : list rpath.
Hypothesis antichain : forall d d', In d D -> In d' D -> is_prefix_path d d' = true -> d = d'.
Variable s : fs.

Lemma rchain_dirs_real l :
  rchain D s l -> Forall WF (l ++ [s]) -> dirs_real D s -> Forall (dirs_real D) (l ++ [s]).
Proof.
  intros C W G0. induction l as [|h l IH].
  - constructor; [exact G0 | constructor].
  - cbn [app rchain] in *. destruct C as [C S]. inversion W as [|? ? Wh Wl]; subst.
    pose proof (IH C Wl) as G. constructor; [|exact G].
    pose proof (S G) as St.
    assert (Ga : dirs_real D (hd s l)) by (rewrite Forall_forall in G; apply G; apply hd_in).
    assert (Wa : WF (hd s l)) by (rewrite Forall_forall in Wl; apply Wl; apply hd_in).
    intros d Hd. apply (step_keeps_dirs D antichain _ _ _ Wa Wh Hd (Ga d Hd) St).
Qed.
End DirsStay.

Theorem run_dirs_real_static c plan cwd s :
  c_var c = fixed -> no_override c -> WF s ->
  (forall f r, In (f, r) plan -> chdir s (pf_dir f) = Some (pf_dir f)) ->
  (forall f r f' r', In (f, r) plan -> In (f', r') plan ->
     is_prefix_path (pf_dir f) (pf_dir f') = true -> pf_dir f = pf_dir f') ->
  run_dirs_real c plan cwd s.
Proof.
  intros Hv NO W S1 S2.
  destruct (run_rtracked c plan cwd s Hv NO) as [wF [F [St [Hf Hc]]]].
  destruct (run_safe (leaves s) c plan cwd s (no_override_safe c Hv NO) (conj W eq_refl)) as [Gs _].
  unfold run_dirs_real. rewrite St in *.
  assert (Wl : Forall WF (w_hist wF ++ [s])).
  { apply Forall_rev in Gs. cbn [rev] in Gs. rewrite rev_involutive in Gs.
    eapply Forall_impl; [|exact Gs]. intros x [X _]. exact X. }
  assert (A : forall d d', In d (plan_dirs plan) -> In d' (plan_dirs plan) -> is_prefix_path d d' = true -> d = d').
  { intros d d' Hd Hd' P. unfold plan_dirs in Hd, Hd'.
    apply in_map_iff in Hd as [[f r] [E1 H1]]. apply in_map_iff in Hd' as [[f' r'] [E2 H2]]. simpl in E1, E2. subst d d'.
    exact (S2 f r f' r' H1 H2 P). }
  assert (G0 : dirs_real (plan_dirs plan) s).
  { intros d Hd. unfold plan_dirs in Hd. apply in_map_iff in Hd as [[f r] [E1 H1]]. simpl in E1. subst d. exact (S1 f r H1). }
  pose proof (rchain_dirs_real (plan_dirs plan) A s (w_hist wF) Hc Wl G0) as G.
  apply Forall_rev in G. rewrite rev_app_distr in G. exact G.
Qed.

(* ---------- the statements in the form Properties/C06.v quotes ------------------------------------------------------------ *)
(* a non-override run of the current code changes nothing outside the input directories of its plan: for every
   tree (symbolic links anywhere, moved by the run or not), provided every input directory is its own real path
   in the initial tree and no input directory lies inside another one *)
Theorem run_confined_retest c plan cwd s :
  c_var c = fixed -> WF s -> no_override c ->
  (forall f r, In (f, r) plan -> chdir s (pf_dir f) = Some (pf_dir f)) ->
  (forall f r f' r', In (f, r) plan -> In (f', r') plan ->
     is_prefix_path (pf_dir f) (pf_dir f') = true -> pf_dir f = pf_dir f') ->
  forall k n,
    (In (k, n) (r_final (run c plan cwd s)) /\ ~ In (k, n) s) \/ (In (k, n) s /\ ~ In (k, n) (r_final (run c plan cwd s))) ->
    exists f r, In (f, r) plan /\ is_prefix_path (pf_dir f) k = true.
Proof.
  intros Hv W NO S1 S2 k n H. apply below_plan_dir.
  pose proof (run_dirs_real_static c plan cwd s Hv NO W S1 S2) as G.
  destruct (every_state_confined_retest c plan cwd s Hv NO G _ (or_introl eq_refl)) as [A B].
  destruct H as [[H1 H2]|[H1 H2]]; [exact (A k n H1 H2) | exact (B k n H1 H2)].
Qed.

Theorem every_state_confined_retest_static c plan cwd s :
  c_var c = fixed -> WF s -> no_override c ->
  (forall f r, In (f, r) plan -> chdir s (pf_dir f) = Some (pf_dir f)) ->
  (forall f r f' r', In (f, r) plan -> In (f', r') plan ->
     is_prefix_path (pf_dir f) (pf_dir f') = true -> pf_dir f = pf_dir f') ->
  forall h, In h (r_states (run c plan cwd s)) -> forall k n,
    (In (k, n) h /\ ~ In (k, n) s) \/ (In (k, n) s /\ ~ In (k, n) h) ->
    exists f r, In (f, r) plan /\ is_prefix_path (pf_dir f) k = true.
Proof.
  intros Hv W NO S1 S2 h Hh k n H. apply below_plan_dir.
  pose proof (run_dirs_real_static c plan cwd s Hv NO W S1 S2) as G.
  destruct (every_state_confined_retest c plan cwd s Hv NO G h (or_intror Hh)) as [A B].
  destruct H as [[H1 H2]|[H1 H2]]; [exact (A k n H1 H2) | exact (B k n H1 H2)].
Qed.

(* the plan of [swap_run] (F38) satisfies the hypotheses: the theorem applies to it *)
Example swap_run_confined :
  forall k n,
    (In (k, n) (r_final (run (cr_cfg MName) swap_plan [] swap_fs)) /\ ~ In (k, n) swap_fs) \/
    (In (k, n) swap_fs /\ ~ In (k, n) (r_final (run (cr_cfg MName) swap_plan [] swap_fs))) ->
    exists f r, In (f, r) swap_plan /\ is_prefix_path (pf_dir f) k = true.
Proof.
  apply run_confined_retest.
  - reflexivity.
  - apply WfCheck.wf_b_sound. vm_compute. reflexivity.
  - exact I.
  - intros f r [H|[H|[H|[]]]]; inversion H; subst; vm_compute; reflexivity.
  - intros f r f' r' [H|[H|[H|[]]]] [H'|[H'|[H'|[]]]] _; inversion H; inversion H'; subst; reflexivity.
Qed.
