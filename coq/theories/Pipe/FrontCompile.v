(* C09, the front end made concrete: "the template compiles" is computed from the template TEXT.   *)
(*                                                                                                *)
(* TemplateCompiler.compile(text) = _bind(parser.parse(text)):                                    *)
(*   - the parser is the model of C10 (Tpl/Lexer.v, Tpl/Parser.v, Tpl/Visitor.v: [parse]);        *)
(*   - the binder is the model of C15 (Tpl/Alias.v: [bind_list], i.e. _rewrite_pattern /          *)
(*     _rewrite_tag_placeholder including AliasTagFactory.__call__, which compiles the alias     *)
(*     text anew and is bounded by the recursion limit [tr_depth]);                               *)
(*   - names are resolved by the registry model of C12 (Tpl/Registry.v: [get]);                   *)
(*   - the factory call and the require_context rule of a class tag are the model of C13          *)
(*     (Tpl/Signature.v: [bind_call] = argument binding, configure's own verdict, [ctx_check]).   *)
(* Nothing is modelled again here: this file only supplies the glue (the tree of Tpl/Ast.v as the *)
(* unbound tree of Tpl/Alias.v, and a registry value that also carries what each factory is) and  *)
(* proves what the composition means.                                                             *)
(*                                                                                                *)
(* [front_of] instantiates the record [front] of Pipe/Front.v from the three template texts, and  *)
(* [untouched_on_bad_template_text] is Front's theorem with the hypothesis stated on the texts.   *)
From Tempren Require Import Base.Str Tpl.Ast Tpl.Lexer Tpl.Cst Tpl.Parser Tpl.Visitor Tpl.ParseProofs.
From Tempren Require Tpl.Registry Tpl.RegistryProofs Tpl.Signature Tpl.Alias Tpl.AliasProofs.
From Tempren Require Py.PathLib FS.Model Pipe.Pipeline Pipe.Front.
Open Scope N_scope.

(* ====================================================================================== *)
(* 1. the registry as the compiler sees it                                                 *)
(* ====================================================================================== *)

(* what a factory is: a tag class (the signature of configure as printed by --help, its
   require_context, and the verdict of configure's own body on the supplied values), or an
   alias (its pattern text) *)
Inductive tag_kind :=
| KClass (s : Signature.sig) (r : Signature.ctxreq) (accepts : Alias.targs -> bool)
| KAlias (text : str).

Record tagreg := mkTagreg {
  tr_names : Registry.registry;                       (* [Category.]Name -> factory id (C12) *)
  tr_kinds : list (Registry.fid * tag_kind);          (* factory id -> what it is            *)
  tr_depth : nat                                      (* nested alias instantiations allowed *)
}.

Fixpoint kind_in (f : Registry.fid) (l : list (Registry.fid * tag_kind)) : option tag_kind :=
  match l with
  | [] => None
  | (g, k) :: l' => if g =? f then Some k else kind_in f l'
  end.

Definition kind_of (R : tagreg) (f : Registry.fid) : option tag_kind := kind_in f (tr_kinds R).

(* ---------- building a registry value from rows ---------------------------------------- *)

(* one registration (category spelling, tag name, factory id) and what the factory is *)
Definition row := (Registry.reg_entry * tag_kind)%type.

(* None: the registrations themselves raise ValueError (Registry.build) *)
Definition tagreg_of_rows (depth : nat) (rows : list row) : option tagreg :=
  match Registry.build (map fst rows) with
  | Some r => Some (mkTagreg r (map (fun x : row => (Registry.e_fid (fst x), snd x)) rows) depth)
  | None => None
  end.

(* rows without factory ids: the i-th row gets the id i *)
Fixpoint number_from (i : N) (l : list (str * str * tag_kind)) : list row :=
  match l with
  | [] => []
  | (c, n, k) :: l' => ((c, n, i), k) :: number_from (i + 1) l'
  end.
Definition number_rows := number_from 0.

(* a class tag from the first line of `--help Cat.Tag` (the reader of C13); the body of
   configure refuses nothing *)
Definition class_of_reading (rd : str * Signature.sig * Signature.ctxreq) : tag_kind :=
  KClass (snd (fst rd)) (snd rd) (fun _ => true).

Definition row_of_line (cat : str) (f : Registry.fid) (line : str) : option row :=
  match Signature.parse_line line with
  | Some rd => Some ((cat, fst (fst rd), f), class_of_reading rd)
  | None => None
  end.

(* ====================================================================================== *)
(* 2. the parsed tree as the binder's input                                                 *)
(* ====================================================================================== *)

Definition aval (v : argval) : Alias.argval :=
  match v with
  | VInt z => Alias.AInt z
  | VBool b => Alias.ABool b
  | VStr s => Alias.AStr s
  end.

Definition targs_of (ar : list argval) (kw : list (str * argval)) : Alias.targs :=
  Alias.mkArgs (map aval ar) (map (fun k => (fst k, aval (snd k))) kw).

Fixpoint utree_of (e : ast) : Alias.utree :=
  match e with
  | RawText s => Alias.URaw s
  | Tag c n ar kw h x => Alias.UTag (c, n) (targs_of ar kw) h (upat_of x)
  end
with upat_of (p : pat) : Alias.upat :=
  match p with
  | PNil => []
  | PCons e p' => utree_of e :: upat_of p'
  end.

(* an alias pattern as AliasTagFactory.__call__ obtains it: None = its text does not parse *)
Definition parse_u (text : str) : option Alias.upat :=
  match parse text with
  | Ok p => Some (upat_of p)
  | Err _ => None
  end.

Definition aliases_of (R : tagreg) : Alias.atable :=
  flat_map (fun fk : Registry.fid * tag_kind =>
              match kind_of R (fst fk) with
              | Some (KAlias t) => [(fst fk, parse_u t)]
              | _ => []
              end) (tr_kinds R).

(* the factory call of a class tag followed by the require_context rule (Tpl/Signature.v);
   a factory id the registry says nothing about refuses every call *)
Definition class_check (R : tagreg) (f : Registry.fid) (a : Alias.targs) (hc : bool) : Signature.outcome :=
  match kind_of R f with
  | Some (KClass s r accepts) =>
      Signature.bind_call s r (accepts a) (length (Alias.a_pos a)) (map fst (Alias.a_kw a)) hc
  | _ => Signature.Reject Signature.RValue
  end.

(* ====================================================================================== *)
(* 3. compile                                                                               *)
(* ====================================================================================== *)

(* a bound template: tag instances carry no state here (state : unit) *)
Definition compiled := Alias.bpat unit.

Inductive template_error :=
| TESyntax (e : perr)               (* TemplateSyntaxError raised by TemplateParser.parse *)
| TEBind (e : Signature.exc).       (* raised by the binder, with its exception class      *)

Definition bind_pat (R : tagreg) (p : pat) : Signature.exc + compiled :=
  Alias.bind_list unit (tr_names R) (class_check R) (fun _ _ => tt) (tr_depth R) (aliases_of R) (upat_of p).

(* TemplateCompiler.compile *)
Definition compile (R : tagreg) (text : str) : compiled + template_error :=
  match parse text with
  | Err e => inr (TESyntax e)
  | Ok p =>
    match bind_pat R p with
    | inl e => inr (TEBind e)
    | inr b => inl b
    end
  end.

Definition compiles (R : tagreg) (text : str) : bool :=
  match compile R text with inl _ => true | inr _ => false end.

(* the exception object's class, and the exit status cli.main gives it *)
Definition exc_of_error (e : template_error) : Signature.exc :=
  match e with
  | TESyntax _ => Signature.ExTemplateSyntax
  | TEBind x => x
  end.

(* ====================================================================================== *)
(* 4. the recursive predicate: every tag occurrence resolves and binds                      *)
(* ====================================================================================== *)

Definition accepted (o : Signature.outcome) : bool :=
  match o with Signature.Accept => true | Signature.Reject _ => false end.

Section Binds.
  Variable R : tagreg.
  (* does the pattern text of an alias compile (one level of nesting further down) *)
  Variable alias_ok : str -> bool.

  (* one tag occurrence  %c.n(ar, kw)  with ([h] = true) or without a context: the name resolves to
     exactly one factory, and
       - an alias: its text compiles, no argument, no context;
       - a class tag: the arguments bind to configure's signature, configure accepts the values,
         and the context rule of the tag is met *)
  Definition tag_ok (c : option str) (n : str) (ar : list argval) (kw : list (str * argval)) (h : bool) : bool :=
    match Registry.get (tr_names R) (c, n) with
    | Registry.ROk f =>
      match kind_of R f with
      | Some (KAlias text) => alias_ok text && Alias.no_args (targs_of ar kw) && negb h
      | Some (KClass s r accepts) =>
          accepted (Signature.bind_call s r (accepts (targs_of ar kw)) (length ar) (map fst kw) h)
      | None => false
      end
    | _ => false
    end.

  Fixpoint ast_binds (e : ast) : bool :=
    match e with
    | RawText _ => true
    | Tag c n ar kw h x => tag_ok c n ar kw h && (if h then pat_binds x else true)
    end
  with pat_binds (p : pat) : bool :=
    match p with
    | PNil => true
    | PCons e p' => ast_binds e && pat_binds p'
    end.

  (* the tag occurrences the binder can reach: top level, and inside the context of a tag that has one
     (a piped tag takes what precedes it as its context, so "behind a pipe" is "around" here) *)
  Fixpoint tag_occs_ast (e : ast) : list ast :=
    match e with
    | RawText _ => []
    | Tag c n ar kw h x => e :: (if h then tag_occs x else [])
    end
  with tag_occs (p : pat) : list ast :=
    match p with
    | PNil => []
    | PCons e p' => tag_occs_ast e ++ tag_occs p'
    end.

  Definition occ_ok (e : ast) : bool :=
    match e with
    | RawText _ => true
    | Tag c n ar kw h _ => tag_ok c n ar kw h
    end.
End Binds.

(* does the text compile with [fuel] nested alias instantiations left *)
Fixpoint text_binds (R : tagreg) (fuel : nat) (text : str) : bool :=
  match fuel with
  | O => false
  | S n =>
    match parse text with
    | Ok p => pat_binds R (text_binds R n) p
    | Err _ => false
    end
  end.

Definition all_tags_bind (R : tagreg) (p : pat) : bool := pat_binds R (text_binds R (tr_depth R)) p.

(* the names written in a tree, wherever the binder can reach *)
Definition occ_name (e : ast) : option Registry.qname :=
  match e with
  | RawText _ => None
  | Tag c n _ _ _ _ => Some (c, n)
  end.

Definition names_resolve (R : tagreg) (q : Registry.qname) : bool :=
  match Registry.get (tr_names R) q with Registry.ROk _ => true | _ => false end.

(* ====================================================================================== *)
(* 5. proofs: the composition is the predicate                                              *)
(* ====================================================================================== *)

Lemma ast_binds_Tag R ok c n ar kw h x :
  ast_binds R ok (Tag c n ar kw h x) = tag_ok R ok c n ar kw h && (if h then pat_binds R ok x else true).
Proof. reflexivity. Qed.
Lemma pat_binds_PCons R ok e p : pat_binds R ok (PCons e p) = ast_binds R ok e && pat_binds R ok p.
Proof. reflexivity. Qed.
Lemma tag_occs_ast_Tag c n ar kw h x :
  tag_occs_ast (Tag c n ar kw h x) = Tag c n ar kw h x :: (if h then tag_occs x else []).
Proof. reflexivity. Qed.
Lemma tag_occs_PCons e p : tag_occs (PCons e p) = tag_occs_ast e ++ tag_occs p.
Proof. reflexivity. Qed.
Lemma upat_of_PCons e p : upat_of (PCons e p) = utree_of e :: upat_of p.
Proof. reflexivity. Qed.
Lemma utree_of_Tag c n ar kw h x :
  utree_of (Tag c n ar kw h x) = Alias.UTag (c, n) (targs_of ar kw) h (upat_of x).
Proof. reflexivity. Qed.

Definition is_inr {A B} (x : A + B) : bool := match x with inr _ => true | inl _ => false end.

Lemma alias_find_app f a b :
  Alias.alias_find f (a ++ b) =
  match Alias.alias_find f a with Some x => Some x | None => Alias.alias_find f b end.
Proof.
  induction a as [|[g p] a IH]; simpl; [reflexivity|].
  destruct (g =? f); [reflexivity|exact IH].
Qed.

Lemma kind_in_some_in f l k : kind_in f l = Some k -> In f (map fst l).
Proof.
  induction l as [|[g k'] l IH]; simpl; [discriminate|].
  destruct (g =? f) eqn:E; [apply N.eqb_eq in E; auto|auto].
Qed.

(* the alias table agrees with [kind_of] *)
Lemma alias_find_gen R f l :
  Alias.alias_find f
    (flat_map (fun fk : Registry.fid * tag_kind =>
                 match kind_of R (fst fk) with
                 | Some (KAlias t) => [(fst fk, parse_u t)]
                 | _ => []
                 end) l) =
  if existsb (fun fk : Registry.fid * tag_kind => fst fk =? f) l
  then match kind_of R f with Some (KAlias t) => Some (parse_u t) | _ => None end
  else None.
Proof.
  induction l as [|[g k] l IH]; [reflexivity|].
  cbn [flat_map existsb fst]. rewrite alias_find_app, IH.
  destruct (g =? f) eqn:E.
  - apply N.eqb_eq in E. subst g. cbn [orb].
    destruct (kind_of R f) as [[s r acc|t]|]; cbn [Alias.alias_find].
    + destruct (existsb _ l); reflexivity.
    + rewrite N.eqb_refl. reflexivity.
    + destruct (existsb _ l); reflexivity.
  - cbn [orb].
    destruct (kind_of R g) as [[s r acc|t]|]; cbn [Alias.alias_find]; try reflexivity.
    rewrite E. reflexivity.
Qed.

Lemma alias_find_kind R f :
  Alias.alias_find f (aliases_of R) =
  match kind_of R f with Some (KAlias t) => Some (parse_u t) | _ => None end.
Proof.
  unfold aliases_of. rewrite alias_find_gen.
  destruct (existsb (fun fk : Registry.fid * tag_kind => fst fk =? f) (tr_kinds R)) eqn:E; [reflexivity|].
  destruct (kind_of R f) as [k|] eqn:K; [|reflexivity]. exfalso.
  apply kind_in_some_in in K. apply in_map_iff in K as ([g k'] & Hg & Hin). simpl in Hg. subst g.
  assert (existsb (fun fk : Registry.fid * tag_kind => fst fk =? f) (tr_kinds R) = true).
  { apply existsb_exists. exists (f, k'). split; [exact Hin|apply N.eqb_refl]. }
  congruence.
Qed.

Lemma class_check_targs R f ar kw h :
  class_check R f (targs_of ar kw) h =
  match kind_of R f with
  | Some (KClass s r accepts) => Signature.bind_call s r (accepts (targs_of ar kw)) (length ar) (map fst kw) h
  | _ => Signature.Reject Signature.RValue
  end.
Proof.
  unfold class_check. destruct (kind_of R f) as [[s r acc|t]|]; try reflexivity.
  unfold targs_of. cbn [Alias.a_pos Alias.a_kw]. rewrite map_length, map_map. cbn [fst]. reflexivity.
Qed.

Section Core.
  Variable R : tagreg.
  Variable expand : option Alias.upat -> Signature.exc + Alias.bpat unit.
  Variable alias_ok : str -> bool.
  Hypothesis Hexp : forall t, is_inr (expand (parse_u t)) = alias_ok t.

  Notation bw := (Alias.bind_with unit (tr_names R) (class_check R) (fun _ _ => tt) (aliases_of R) expand).

  Lemma bind_with_UTag q a hc ctx :
    bw (Alias.UTag q a hc ctx) =
    match Registry.get (tr_names R) q with
    | Registry.ROk f =>
      match Alias.alias_find f (aliases_of R) with
      | Some body =>
        match expand body with
        | inl e => inl e
        | inr bp =>
          if Alias.no_args a then
            if hc then inl Signature.ExContextForbidden else inr (Alias.BAlias bp)
          else inl Signature.ExTagConfiguration
        end
      | None =>
        match class_check R f a hc with
        | Signature.Reject c => inl (Signature.exc_of_reject c)
        | Signature.Accept =>
          if hc then
            match Alias.map_res bw ctx with
            | inl e => inl e
            | inr bc => inr (Alias.BTag f a tt true bc)
            end
          else inr (Alias.BTag f a tt false [])
        end
      end
    | r => inl (Alias.exc_of_lookup r)
    end.
  Proof. reflexivity. Qed.

  Lemma bind_with_binds :
    (forall e, is_inr (bw (utree_of e)) = ast_binds R alias_ok e) /\
    (forall p, is_inr (Alias.map_res bw (upat_of p)) = pat_binds R alias_ok p).
  Proof.
    apply ast_pat_ind.
    - intros s. reflexivity.
    - intros c n ar kw h x IH. rewrite utree_of_Tag, ast_binds_Tag, bind_with_UTag. unfold tag_ok.
      destruct (Registry.get (tr_names R) (c, n)) as [f| | | |]; try reflexivity.
      rewrite alias_find_kind, class_check_targs.
      destruct (kind_of R f) as [[s r acc|t]|].
      + destruct (Signature.bind_call s r (acc (targs_of ar kw)) (length ar) (map fst kw) h); cbn [accepted andb].
        * destruct h; [|reflexivity]. rewrite <- IH.
          destruct (Alias.map_res bw (upat_of x)); reflexivity.
        * reflexivity.
      + rewrite <- Hexp. destruct (expand (parse_u t)); cbn [is_inr andb]; [reflexivity|].
        destruct (Alias.no_args (targs_of ar kw)); cbn [andb]; [|reflexivity].
        destruct h; reflexivity.
      + reflexivity.
    - reflexivity.
    - intros e IHe p IHp. rewrite upat_of_PCons, pat_binds_PCons. cbn [Alias.map_res]. rewrite <- IHe, <- IHp.
      destruct (bw (utree_of e)); [reflexivity|].
      destruct (Alias.map_res bw (upat_of p)); reflexivity.
  Qed.
End Core.

Lemma expander_binds R : forall n t,
  is_inr (Alias.expander unit (tr_names R) (class_check R) (fun _ _ => tt) n (aliases_of R) (parse_u t))
  = text_binds R n t.
Proof.
  induction n as [|n IH]; intros t; [reflexivity|].
  cbn [Alias.expander text_binds]. unfold parse_u. destruct (parse t) as [p|e]; [|reflexivity].
  exact (proj2 (bind_with_binds R _ _ IH) p).
Qed.

Lemma bind_pat_binds R p : is_inr (bind_pat R p) = all_tags_bind R p.
Proof.
  unfold bind_pat, all_tags_bind, Alias.bind_list, Alias.bind_el.
  exact (proj2 (bind_with_binds R _ _ (expander_binds R (tr_depth R))) p).
Qed.

(* compile succeeds exactly when the text parses and every tag of the tree resolves and binds *)
Theorem compiles_spec R text :
  compiles R text = match parse text with Ok p => all_tags_bind R p | Err _ => false end.
Proof.
  unfold compiles, compile. destruct (parse text) as [p|e]; [|reflexivity].
  rewrite <- bind_pat_binds. destruct (bind_pat R p); reflexivity.
Qed.

Theorem compiles_text_binds R text : compiles R text = text_binds R (S (tr_depth R)) text.
Proof. rewrite compiles_spec. reflexivity. Qed.

Definition is_error {A B} (x : A + B) : Prop := exists e, x = inr e.

Lemma is_error_compiles R text : is_error (compile R text) <-> compiles R text = false.
Proof.
  unfold is_error, compiles. destruct (compile R text) as [b|e]; split; intros H.
  - destruct H as [e H]. discriminate.
  - discriminate.
  - reflexivity.
  - eauto.
Qed.

Theorem compile_error_iff R text :
  is_error (compile R text) <->
  (exists e, parse text = Err e) \/ (exists p, parse text = Ok p /\ all_tags_bind R p = false).
Proof.
  rewrite is_error_compiles, compiles_spec. destruct (parse text) as [p|e]; split.
  - intros H. right. eauto.
  - intros [[e H]|[p' [H1 H2]]]; [discriminate|]. inversion H1; subst. exact H2.
  - intros _. left. eauto.
  - reflexivity.
Qed.

(* the flat reading of the predicate: every reachable tag occurrence passes its own test *)
Lemma binds_flat R alias_ok :
  (forall e, ast_binds R alias_ok e = forallb (occ_ok R alias_ok) (tag_occs_ast e)) /\
  (forall p, pat_binds R alias_ok p = forallb (occ_ok R alias_ok) (tag_occs p)).
Proof.
  apply ast_pat_ind.
  - reflexivity.
  - intros c n ar kw h x IH. rewrite ast_binds_Tag, tag_occs_ast_Tag. cbn [forallb occ_ok].
    destruct h; [rewrite IH|]; reflexivity.
  - reflexivity.
  - intros e IHe p IHp. rewrite pat_binds_PCons, tag_occs_PCons, forallb_app, IHe, IHp. reflexivity.
Qed.

Theorem all_tags_bind_flat R p :
  all_tags_bind R p = forallb (occ_ok R (text_binds R (tr_depth R))) (tag_occs p).
Proof. exact (proj2 (binds_flat R _) p). Qed.

(* one bad occurrence anywhere is enough *)
Theorem bad_occurrence_fails R text p e :
  parse text = Ok p -> In e (tag_occs p) -> occ_ok R (text_binds R (tr_depth R)) e = false ->
  is_error (compile R text).
Proof.
  intros P I B. apply is_error_compiles. rewrite compiles_spec, P, all_tags_bind_flat.
  destruct (forallb _ (tag_occs p)) eqn:F; [|reflexivity].
  rewrite forallb_forall in F. rewrite (F e I) in B. discriminate.
Qed.

(* a name that does not resolve to exactly one factory (unknown tag, unknown category, ambiguous
   bare name), written anywhere the binder can reach *)
Theorem unresolved_name_fails R text p c n ar kw h x :
  parse text = Ok p -> In (Tag c n ar kw h x) (tag_occs p) ->
  (forall f, Registry.get (tr_names R) (c, n) <> Registry.ROk f) ->
  is_error (compile R text).
Proof.
  intros P I U. eapply bad_occurrence_fails; [exact P|exact I|].
  cbn [occ_ok]. unfold tag_ok.
  destruct (Registry.get (tr_names R) (c, n)) as [f| | | |]; try reflexivity.
  exfalso. exact (U f eq_refl).
Qed.

(* whatever compile rejects, it rejects with a TemplateError class: exit status 3 *)
Theorem compile_error_status R text e :
  compile R text = inr e ->
  Signature.is_template_error (exc_of_error e) = true /\ Signature.cli_status (exc_of_error e) = 3%Z.
Proof.
  unfold compile. destruct (parse text) as [p|pe].
  - unfold bind_pat. destruct (Alias.bind_list _ _ _ _ _ _ _) as [x|b] eqn:B; intros H; inversion H; subst.
    cbn [exc_of_error]. eapply AliasProofs.bind_list_status. exact B.
  - intros H. inversion H; subst. split; reflexivity.
Qed.

(* ---------- a name written anywhere in the text ------------------------------------------- *)

(* what TemplateParser.parse returns never has a context pattern on a tag without context, at any depth *)
Fixpoint ctxnil_ast (e : ast) : bool :=
  match e with
  | RawText _ => true
  | Tag _ _ _ _ h x => if h then ctxnil_pat x else pat_is_nil x
  end
with ctxnil_pat (p : pat) : bool :=
  match p with
  | PNil => true
  | PCons e p' => ctxnil_ast e && ctxnil_pat p'
  end.

Lemma ctxnil_ast_Tag c n ar kw h x :
  ctxnil_ast (Tag c n ar kw h x) = if h then ctxnil_pat x else pat_is_nil x.
Proof. reflexivity. Qed.
Lemma ctxnil_pat_PCons e p : ctxnil_pat (PCons e p) = ctxnil_ast e && ctxnil_pat p.
Proof. reflexivity. Qed.

Lemma ctxnil_snoc acc e : ctxnil_pat acc = true -> ctxnil_ast e = true -> ctxnil_pat (pat_snoc acc e) = true.
Proof.
  induction acc as [|a acc IH]; intros Ha He.
  - cbn [pat_snoc]. rewrite ctxnil_pat_PCons, He. reflexivity.
  - rewrite ctxnil_pat_PCons in Ha. apply andb_true_iff in Ha as [H1 H2].
    cbn [pat_snoc]. rewrite ctxnil_pat_PCons, H1, (IH H2 He). reflexivity.
Qed.

Lemma visit_ctxnil :
  (forall e a, visit_elem e = Ok a -> ctxnil_ast a = true) /\
  (forall p acc r, ctxnil_pat acc = true -> visit_seq acc p = Ok r -> ctxnil_pat r = true).
Proof.
  apply celem_cpat_ind.
  - intros s a H. cbn in H. inversion H. reflexivity.
  - intros cat name args h ctx IH a H.
    change (visit_elem (CTag cat name args h ctx)) with
      (bind (visit_arglist args) (fun r =>
       bind (if h then visit_seq PNil ctx else Ok PNil) (fun x =>
       Ok (Tag cat name (fst r) (snd r) h x)))) in H.
    apply bind_ok in H as (r & _ & H). apply bind_ok in H as (x & Hx & H). inversion H; subst a.
    rewrite ctxnil_ast_Tag. destruct h.
    + exact (IH PNil x eq_refl Hx).
    + inversion Hx. reflexivity.
  - intros acc r Ha H. cbn in H. inversion H; subst. exact Ha.
  - intros e IHe p IHp acc r Ha H.
    change (visit_seq acc (CPCons e p)) with
      (bind (visit_elem e) (fun e' => visit_seq (pat_snoc acc e') p)) in H.
    apply bind_ok in H as (e' & He & H).
    eapply IHp; [|exact H]. apply ctxnil_snoc; [exact Ha|exact (IHe e' He)].
  - intros e IHe p IHp acc r Ha H.
    change (visit_seq acc (CPPipe e p)) with
      (bind (visit_elem e) (fun e' =>
         match e' with
         | Tag c n a k false _ => visit_seq (PCons (Tag c n a k true acc) PNil) p
         | Tag _ _ _ _ true _ => Err EPipeContext
         | RawText _ => Err ESyntax
         end)) in H.
    apply bind_ok in H as (e' & He & H).
    destruct e' as [t|c n a k [|] y]; try discriminate.
    eapply IHp; [|exact H]. rewrite ctxnil_pat_PCons, ctxnil_ast_Tag, Ha. reflexivity.
Qed.

Lemma parse_ctxnil text p : parse text = Ok p -> ctxnil_pat p = true.
Proof.
  unfold parse. destruct (lex text) as [toks|pos]; [|discriminate].
  unfold parse_toks. destruct (parse_tokens toks) as [c|]; [|discriminate].
  unfold visit. intros H. exact (proj2 visit_ctxnil c PNil p eq_refl H).
Qed.

Lemma leaves_ast_Tag c n ar kw h x :
  leaves_ast (Tag c n ar kw h x) =
  LName c n :: map LPos ar ++ map (fun k => LKw (fst k) (snd k)) kw ++ leaves_pat x.
Proof. reflexivity. Qed.
Lemma leaves_pat_PCons e p : leaves_pat (PCons e p) = leaves_ast e ++ leaves_pat p.
Proof. reflexivity. Qed.

(* every [Category.]Name leaf of such a tree is the name of a tag occurrence the binder reaches *)
Lemma name_leaf_occurs :
  (forall e, ctxnil_ast e = true -> forall c n, In (LName c n) (leaves_ast e) ->
             exists ar kw h x, In (Tag c n ar kw h x) (tag_occs_ast e)) /\
  (forall p, ctxnil_pat p = true -> forall c n, In (LName c n) (leaves_pat p) ->
             exists ar kw h x, In (Tag c n ar kw h x) (tag_occs p)).
Proof.
  apply ast_pat_ind.
  - intros s _ c n [H|[]]. discriminate.
  - intros cat name ar kw h x IH W c n I. rewrite ctxnil_ast_Tag in W.
    rewrite leaves_ast_Tag in I. rewrite tag_occs_ast_Tag.
    destruct I as [I|I].
    + inversion I; subst. exists ar, kw, h, x. left. reflexivity.
    + apply in_app_or in I as [I|I].
      { apply in_map_iff in I as (v & E & _). discriminate. }
      apply in_app_or in I as [I|I].
      { apply in_map_iff in I as (k & E & _). discriminate. }
      destruct h.
      * destruct (IH W c n I) as (ar' & kw' & h' & x' & O). exists ar', kw', h', x'. right. exact O.
      * destruct x; [destruct I|discriminate].
  - intros _ c n [].
  - intros e IHe p IHp W c n I. rewrite ctxnil_pat_PCons in W. apply andb_true_iff in W as [We Wp].
    rewrite leaves_pat_PCons in I. rewrite tag_occs_PCons.
    apply in_app_or in I as [I|I].
    + destruct (IHe We c n I) as (ar & kw & h & x & O). exists ar, kw, h, x. apply in_or_app. left. exact O.
    + destruct (IHp Wp c n I) as (ar & kw & h & x & O). exists ar, kw, h, x. apply in_or_app. right. exact O.
Qed.

(* a tag name written anywhere in the template - top level, inside a context at any depth, or in a
   pipe list - that does not resolve to exactly one factory *)
Theorem unresolved_written_name_fails R text p c n :
  parse text = Ok p -> In (LName c n) (leaves_pat p) ->
  (forall f, Registry.get (tr_names R) (c, n) <> Registry.ROk f) ->
  is_error (compile R text).
Proof.
  intros P I U.
  destruct (proj2 name_leaf_occurs p (parse_ctxnil text p P) c n I) as (ar & kw & h & x & O).
  eapply unresolved_name_fails; eauto.
Qed.

(* ====================================================================================== *)
(* 6. braces                                                                                *)
(* ====================================================================================== *)

(* '{' and '}' as the lexer sees them: not escaped by a backslash in text, not inside a string argument *)
Definition is_open (t : token) : bool := match t with TCtxStart => true | _ => false end.
Definition is_close (t : token) : bool := match t with TCtxEnd => true | _ => false end.
Definition n_open (l : list token) : nat := length (filter is_open l).
Definition n_close (l : list token) : nat := length (filter is_close l).

Definition braces_balanced (text : str) : bool :=
  match lex text with
  | LexOk toks => Nat.eqb (n_open toks) (n_close toks)
  | LexError _ => false
  end.

Lemma n_open_app a b : n_open (a ++ b) = (n_open a + n_open b)%nat.
Proof. unfold n_open. rewrite filter_app, app_length. reflexivity. Qed.
Lemma n_close_app a b : n_close (a ++ b) = (n_close a + n_close b)%nat.
Proof. unfold n_close. rewrite filter_app, app_length. reflexivity. Qed.

Lemma value_tok_no_brace v : is_value_tok v = true -> n_open [v] = O /\ n_close [v] = O.
Proof. destruct v; try discriminate; intros _; split; reflexivity. Qed.

Lemma flatten_args_no_brace l : forallb wfs_arg l = true ->
  forall first, n_open (flatten_args first l) = O /\ n_close (flatten_args first l) = O.
Proof.
  induction l as [|a l IH]; intros W first; [split; reflexivity|].
  cbn [forallb] in W. apply andb_true_iff in W as [Wa Wl].
  cbn [flatten_args]. rewrite !n_open_app, !n_close_app.
  destruct (IH Wl false) as [I1 I2]. rewrite I1, I2.
  assert (A : n_open (flatten_arg a) = O /\ n_close (flatten_arg a) = O).
  { destruct a as [v|n v|n]; cbn [wfs_arg] in Wa.
    - exact (value_tok_no_brace v Wa).
    - destruct (value_tok_no_brace v Wa) as [V1 V2]. cbn [flatten_arg].
      change [TArgName n; TArgEq; v] with ([TArgName n; TArgEq] ++ [v]).
      rewrite n_open_app, n_close_app, V1, V2. split; reflexivity.
    - split; reflexivity. }
  destruct A as [A1 A2]. rewrite A1, A2. destruct first; split; reflexivity.
Qed.

Lemma flatten_balanced :
  (forall e, wfs_elem e = true -> n_open (flatten_elem e) = n_close (flatten_elem e)) /\
  (forall p, forall pipe, wfs_pat pipe p = true -> n_open (flatten_pat p) = n_close (flatten_pat p)).
Proof.
  apply celem_cpat_ind.
  - intros s _. reflexivity.
  - intros cat name args h ctx IH W. cbn [wfs_elem] in W. apply andb_true_iff in W as [Wa Wc].
    cbn [flatten_elem].
    change (TTagStart :: flatten_name cat name ++ flatten_arglist args ++
            (if h then TCtxStart :: flatten_pat ctx ++ [TCtxEnd] else []))
      with ([TTagStart] ++ flatten_name cat name ++ flatten_arglist args ++
            (if h then TCtxStart :: flatten_pat ctx ++ [TCtxEnd] else [])).
    rewrite !n_open_app, !n_close_app.
    assert (N : n_open (flatten_name cat name) = O /\ n_close (flatten_name cat name) = O).
    { destruct cat; split; reflexivity. }
    assert (A : n_open (flatten_arglist args) = O /\ n_close (flatten_arglist args) = O).
    { destruct args as [l|]; [|split; reflexivity]. cbn [flatten_arglist].
      change (TArgsStart :: flatten_args true l ++ [TArgsEnd]) with ([TArgsStart] ++ flatten_args true l ++ [TArgsEnd]).
      rewrite !n_open_app, !n_close_app.
      destruct (flatten_args_no_brace l Wa true) as [F1 F2]. rewrite F1, F2. split; reflexivity. }
    destruct N as [N1 N2], A as [A1 A2]. rewrite N1, N2, A1, A2.
    destruct h; [|reflexivity].
    change (TCtxStart :: flatten_pat ctx ++ [TCtxEnd]) with ([TCtxStart] ++ flatten_pat ctx ++ [TCtxEnd]).
    rewrite !n_open_app, !n_close_app, (IH false Wc). cbn. lia.
  - intros pipe _. reflexivity.
  - intros e IHe p IHp pipe W. cbn [wfs_pat] in W.
    apply andb_true_iff in W as [W Wp]. apply andb_true_iff in W as [_ We].
    cbn [flatten_pat]. rewrite n_open_app, n_close_app, (IHe We), (IHp false Wp). reflexivity.
  - intros e IHe p IHp pipe W. cbn [wfs_pat] in W.
    apply andb_true_iff in W as [W Wp]. apply andb_true_iff in W as [_ We].
    cbn [flatten_pat]. change (TPipe :: flatten_elem e ++ flatten_pat p) with ([TPipe] ++ flatten_elem e ++ flatten_pat p).
    rewrite !n_open_app, !n_close_app, (IHe We), (IHp true Wp). reflexivity.
Qed.

Theorem unbalanced_braces_rejected text : braces_balanced text = false -> exists e, parse text = Err e.
Proof.
  unfold braces_balanced, parse. destruct (lex text) as [toks|pos]; [|eauto].
  intros B. unfold parse_toks. destruct (parse_tokens toks) as [c|] eqn:P; [|eauto]. exfalso.
  apply parse_sound in P as [E W]. subst toks.
  rewrite (proj2 flatten_balanced c false W), Nat.eqb_refl in B. discriminate.
Qed.

(* ---------- nesting: a '}' never closes more than was opened -------------------------------- *)

(* the depth after the tokens, None when a '}' arrives at depth 0 *)
Fixpoint brace_walk (d : nat) (l : list token) : option nat :=
  match l with
  | [] => Some d
  | TCtxStart :: r => brace_walk (S d) r
  | TCtxEnd :: r => match d with O => None | S d' => brace_walk d' r end
  | _ :: r => brace_walk d r
  end.

Definition braces_nested (text : str) : bool :=
  match lex text with
  | LexOk toks => match brace_walk O toks with Some O => true | _ => false end
  | LexError _ => false
  end.

Lemma walk_skip a : n_open a = O -> n_close a = O -> forall d r, brace_walk d (a ++ r) = brace_walk d r.
Proof.
  induction a as [|t a IH]; intros Ho Hc d r; [reflexivity|].
  change (t :: a) with ([t] ++ a) in Ho, Hc. rewrite n_open_app in Ho. rewrite n_close_app in Hc.
  assert (Ho' : n_open a = O) by lia. assert (Hc' : n_close a = O) by lia.
  destruct t; cbn in Ho, Hc; try discriminate; cbn [app brace_walk]; apply IH; assumption.
Qed.

Lemma flatten_walk :
  (forall e, wfs_elem e = true -> forall d r, brace_walk d (flatten_elem e ++ r) = brace_walk d r) /\
  (forall p, forall pipe, wfs_pat pipe p = true -> forall d r, brace_walk d (flatten_pat p ++ r) = brace_walk d r).
Proof.
  apply celem_cpat_ind.
  - intros s _ d r. reflexivity.
  - intros cat name args h ctx IH W d r. cbn [wfs_elem] in W. apply andb_true_iff in W as [Wa Wc].
    cbn [flatten_elem].
    change (TTagStart :: flatten_name cat name ++ flatten_arglist args ++
            (if h then TCtxStart :: flatten_pat ctx ++ [TCtxEnd] else []))
      with ([TTagStart] ++ flatten_name cat name ++ flatten_arglist args ++
            (if h then TCtxStart :: flatten_pat ctx ++ [TCtxEnd] else [])).
    rewrite <- !app_assoc.
    assert (N : n_open (flatten_name cat name) = O /\ n_close (flatten_name cat name) = O).
    { destruct cat; split; reflexivity. }
    assert (A : n_open (flatten_arglist args) = O /\ n_close (flatten_arglist args) = O).
    { destruct args as [l|]; [|split; reflexivity]. cbn [flatten_arglist].
      change (TArgsStart :: flatten_args true l ++ [TArgsEnd]) with ([TArgsStart] ++ flatten_args true l ++ [TArgsEnd]).
      rewrite !n_open_app, !n_close_app.
      destruct (flatten_args_no_brace l Wa true) as [F1 F2]. rewrite F1, F2. split; reflexivity. }
    destruct N as [N1 N2], A as [A1 A2].
    rewrite (walk_skip [TTagStart] eq_refl eq_refl), (walk_skip _ N1 N2), (walk_skip _ A1 A2).
    destruct h; [|reflexivity].
    change ((TCtxStart :: flatten_pat ctx ++ [TCtxEnd]) ++ r) with (TCtxStart :: (flatten_pat ctx ++ [TCtxEnd]) ++ r).
    rewrite <- app_assoc. cbn [brace_walk]. rewrite (IH false Wc). reflexivity.
  - intros pipe _ d r. reflexivity.
  - intros e IHe p IHp pipe W d r. cbn [wfs_pat] in W.
    apply andb_true_iff in W as [W Wp]. apply andb_true_iff in W as [_ We].
    cbn [flatten_pat]. rewrite <- app_assoc, (IHe We), (IHp false Wp). reflexivity.
  - intros e IHe p IHp pipe W d r. cbn [wfs_pat] in W.
    apply andb_true_iff in W as [W Wp]. apply andb_true_iff in W as [_ We].
    cbn [flatten_pat]. change ((TPipe :: flatten_elem e ++ flatten_pat p) ++ r) with (TPipe :: (flatten_elem e ++ flatten_pat p) ++ r).
    cbn [brace_walk]. rewrite <- app_assoc, (IHe We), (IHp true Wp). reflexivity.
Qed.

Theorem ill_nested_braces_rejected text : braces_nested text = false -> exists e, parse text = Err e.
Proof.
  unfold braces_nested, parse. destruct (lex text) as [toks|pos]; [|eauto].
  intros B. unfold parse_toks. destruct (parse_tokens toks) as [c|] eqn:P; [|eauto]. exfalso.
  apply parse_sound in P as [E W]. subst toks.
  pose proof (proj2 flatten_walk c false W O []) as K. rewrite app_nil_r in K. rewrite K in B.
  discriminate.
Qed.

(* ====================================================================================== *)
(* 7. the front end of Pipe/Front.v, computed from the texts                                *)
(* ====================================================================================== *)

Definition front_of (R : tagreg) (name_tpl : str) (filter_tpl sort_tpl : option str)
           (filter_eval : Pipeline.pfile -> option bool) (sort_eval : Pipeline.pfile -> bool) : Front.front :=
  {| Front.f_name_ok := compiles R name_tpl;
     Front.f_filter := option_map (compiles R) filter_tpl;
     Front.f_sort := option_map (compiles R) sort_tpl;
     Front.f_filter_eval := filter_eval;
     Front.f_sort_eval := sort_eval |}.

(* one of the template texts the user typed does not compile *)
Definition bad_template_text (R : tagreg) (name_tpl : str) (filter_tpl sort_tpl : option str) : Prop :=
  is_error (compile R name_tpl) \/
  (exists t, filter_tpl = Some t /\ is_error (compile R t)) \/
  (exists t, sort_tpl = Some t /\ is_error (compile R t)).

Lemma bad_text_mistake R name_tpl filter_tpl sort_tpl fe se :
  bad_template_text R name_tpl filter_tpl sort_tpl ->
  Front.template_mistake (front_of R name_tpl filter_tpl sort_tpl fe se) = true.
Proof.
  unfold Front.template_mistake, front_of. cbn.
  intros [H|[(t & -> & H)|(t & -> & H)]]; apply is_error_compiles in H; cbn; rewrite H; cbn.
  - reflexivity.
  - rewrite orb_true_r. reflexivity.
  - apply orb_true_r.
Qed.

Theorem untouched_on_bad_template_text R name_tpl filter_tpl sort_tpl fe se c gathered order render cwd s :
  bad_template_text R name_tpl filter_tpl sort_tpl ->
  let r := Front.main_run (front_of R name_tpl filter_tpl sort_tpl fe se) c gathered order render cwd s in
  Pipeline.r_calls r = [] /\ Pipeline.r_states r = [] /\ Pipeline.r_final r = s /\ Pipeline.r_report r = [] /\
  (Pipeline.r_status r = 3%Z \/ Pipeline.r_status r = 2%Z).
Proof.
  intros H. apply Front.untouched_on_template_error. apply bad_text_mistake. exact H.
Qed.

(* the exact status: 3, unless the run is refused first because --sort is given in directory mode
   (cli.main raises that ConfigurationError before the sort template is compiled); a bad name or filter
   template is always status 3 *)
Theorem bad_template_text_status_3 R name_tpl filter_tpl sort_tpl fe se c gathered order render cwd s :
  is_error (compile R name_tpl) \/
  (exists t, filter_tpl = Some t /\ is_error (compile R t)) \/
  (exists t, sort_tpl = Some t /\ is_error (compile R t) /\ Pipeline.c_mode c <> Pipeline.MDirectory) ->
  let r := Front.main_run (front_of R name_tpl filter_tpl sort_tpl fe se) c gathered order render cwd s in
  Pipeline.r_calls r = [] /\ Pipeline.r_states r = [] /\ Pipeline.r_final r = s /\ Pipeline.r_report r = [] /\
  Pipeline.r_status r = 3%Z.
Proof.
  unfold Front.main_run, front_of. cbn [Front.f_name_ok Front.f_filter Front.f_sort].
  intros [H|[(t & -> & H)|(t & -> & H & M)]]; apply is_error_compiles in H.
  - rewrite H. cbn. repeat split; reflexivity.
  - destruct (compiles R name_tpl); cbn; [|repeat split; reflexivity].
    rewrite H. cbn. repeat split; reflexivity.
  - destruct (compiles R name_tpl); cbn; [|repeat split; reflexivity].
    destruct filter_tpl as [ft|]; cbn.
    + destruct (compiles R ft); cbn; [|repeat split; reflexivity].
      rewrite H. destruct (Pipeline.c_mode c); try congruence; cbn; repeat split; reflexivity.
    + rewrite H. destruct (Pipeline.c_mode c); try congruence; cbn; repeat split; reflexivity.
Qed.

(* ---------- corollaries on the name template -------------------------------------------- *)

Theorem untouched_on_unresolved_tag R name_tpl filter_tpl sort_tpl fe se cfg gathered order render cwd s
        p c n ar kw h x :
  parse name_tpl = Ok p -> In (Tag c n ar kw h x) (tag_occs p) ->
  (forall f, Registry.get (tr_names R) (c, n) <> Registry.ROk f) ->
  let r := Front.main_run (front_of R name_tpl filter_tpl sort_tpl fe se) cfg gathered order render cwd s in
  Pipeline.r_calls r = [] /\ Pipeline.r_states r = [] /\ Pipeline.r_final r = s /\ Pipeline.r_report r = [] /\
  Pipeline.r_status r = 3%Z.
Proof.
  intros P I U. apply bad_template_text_status_3. left. eapply unresolved_name_fails; eauto.
Qed.

Theorem untouched_on_unresolved_written_name R name_tpl filter_tpl sort_tpl fe se cfg gathered order render cwd s
        p c n :
  parse name_tpl = Ok p -> In (LName c n) (leaves_pat p) ->
  (forall f, Registry.get (tr_names R) (c, n) <> Registry.ROk f) ->
  let r := Front.main_run (front_of R name_tpl filter_tpl sort_tpl fe se) cfg gathered order render cwd s in
  Pipeline.r_calls r = [] /\ Pipeline.r_states r = [] /\ Pipeline.r_final r = s /\ Pipeline.r_report r = [] /\
  Pipeline.r_status r = 3%Z.
Proof.
  intros P I U. apply bad_template_text_status_3. left. eapply unresolved_written_name_fails; eauto.
Qed.

Theorem untouched_on_unbalanced_braces R name_tpl filter_tpl sort_tpl fe se cfg gathered order render cwd s :
  braces_balanced name_tpl = false ->
  let r := Front.main_run (front_of R name_tpl filter_tpl sort_tpl fe se) cfg gathered order render cwd s in
  Pipeline.r_calls r = [] /\ Pipeline.r_states r = [] /\ Pipeline.r_final r = s /\ Pipeline.r_report r = [] /\
  Pipeline.r_status r = 3%Z.
Proof.
  intros B. apply bad_template_text_status_3. left. apply compile_error_iff. left.
  apply unbalanced_braces_rejected. exact B.
Qed.

Theorem untouched_on_ill_nested_braces R name_tpl filter_tpl sort_tpl fe se cfg gathered order render cwd s :
  braces_nested name_tpl = false ->
  let r := Front.main_run (front_of R name_tpl filter_tpl sort_tpl fe se) cfg gathered order render cwd s in
  Pipeline.r_calls r = [] /\ Pipeline.r_states r = [] /\ Pipeline.r_final r = s /\ Pipeline.r_report r = [] /\
  Pipeline.r_status r = 3%Z.
Proof.
  intros B. apply bad_template_text_status_3. left. apply compile_error_iff. left.
  apply ill_nested_braces_rejected. exact B.
Qed.

(* ---------- the hypothesis "does not resolve" read off the rows ---------------------------- *)

Lemma tagreg_of_rows_get depth rows R q :
  tagreg_of_rows depth rows = Some R -> Registry.get (tr_names R) q = Registry.get_in (map fst rows) q.
Proof.
  unfold tagreg_of_rows, Registry.get_in. destruct (Registry.build (map fst rows)) as [r|]; [|discriminate].
  intros H. inversion H. reflexivity.
Qed.

(* no registration carries the tag name written (tag names are case-sensitive), in the category written
   if one is written (category names are not case-sensitive) *)
Definition unregistered (rows : list row) (c : option str) (n : str) : Prop :=
  forall c2 f, match c with Some c' => Registry.lower c2 = Registry.lower c' | None => True end ->
               ~ In (c2, n, f) (map fst rows).

Theorem unregistered_unresolved depth rows R c n :
  tagreg_of_rows depth rows = Some R -> unregistered rows c n ->
  forall f, Registry.get (tr_names R) (c, n) <> Registry.ROk f.
Proof.
  intros B U f. rewrite (tagreg_of_rows_get _ _ _ _ B). destruct c as [c'|].
  - apply RegistryProofs.case_sensitive_tags. intros c2 f2 E. exact (U c2 f2 E).
  - apply RegistryProofs.case_sensitive_tags_bare. intros c2 f2. exact (U c2 f2 I).
Qed.

Theorem untouched_on_unregistered_name depth rows R name_tpl filter_tpl sort_tpl fe se cfg gathered order render cwd s
        p c n :
  tagreg_of_rows depth rows = Some R ->
  parse name_tpl = Ok p -> In (LName c n) (leaves_pat p) -> unregistered rows c n ->
  let r := Front.main_run (front_of R name_tpl filter_tpl sort_tpl fe se) cfg gathered order render cwd s in
  Pipeline.r_calls r = [] /\ Pipeline.r_states r = [] /\ Pipeline.r_final r = s /\ Pipeline.r_report r = [] /\
  Pipeline.r_status r = 3%Z.
Proof.
  intros B P I U. eapply untouched_on_unresolved_written_name; [exact P|exact I|].
  eapply unregistered_unresolved; eauto.
Qed.

(* ---------- the converse direction: nothing else stops the front end at the templates ---- *)

(* all texts compile  <->  Front's [template_mistake] is false *)
Theorem no_mistake_iff R name_tpl filter_tpl sort_tpl fe se :
  Front.template_mistake (front_of R name_tpl filter_tpl sort_tpl fe se) = false <->
  compiles R name_tpl = true /\
  (forall t, filter_tpl = Some t -> compiles R t = true) /\
  (forall t, sort_tpl = Some t -> compiles R t = true).
Proof.
  unfold Front.template_mistake, front_of. cbn. split.
  - intros H. destruct (compiles R name_tpl); [|discriminate]. cbn in H.
    destruct filter_tpl as [ft|]; cbn in H.
    + destruct (compiles R ft) eqn:F; [|discriminate]. cbn in H.
      destruct sort_tpl as [st|]; cbn in H.
      * destruct (compiles R st) eqn:S; [|discriminate].
        repeat split; intros t E; inversion E; subst; assumption.
      * repeat split; intros t E; inversion E; subst; assumption.
    + destruct sort_tpl as [st|]; cbn in H.
      * destruct (compiles R st) eqn:S; [|discriminate].
        repeat split; intros t E; inversion E; subst; assumption.
      * repeat split; intros t E; inversion E.
  - intros (N & F & S). rewrite N. cbn.
    destruct filter_tpl as [ft|]; cbn; [rewrite (F ft eq_refl); cbn|];
      (destruct sort_tpl as [st|]; cbn; [rewrite (S st eq_refl)|]; reflexivity).
Qed.
