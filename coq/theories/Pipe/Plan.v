(* C02: facts about how the plan is applied: unchanged names are skipped, a free rename is applied   *)
(* exactly, deferred renames are retried last-deferred-first in their own input directory.          *)
From Tempren Require Import Base.Str Py.PathLib Py.PathLibProofs FS.Model FS.Lemmas Pipe.Pipeline Pipe.Confine Pipe.DestParent.
Open Scope N_scope.

Theorem skip_unchanged c f r rest w cwd bl cwd1 np :
  chdir (w_fs w) (pf_dir f) = Some cwd1 ->
  generate (c_mode c) f r = inl np -> ppath_eqb np (pf_rel f) = true ->
  first_pass c ((f, r) :: rest) w cwd bl = first_pass c rest w cwd1 bl.
Proof. intros H1 H2 H3. simpl. rewrite H1, H2, H3. reflexivity. Qed.

(* the first pass only ever pushes onto the backlog: what was deferred earlier stays, newer entries in front *)
Theorem backlog_is_a_stack c plan w cwd bl w' cwd' bl' e :
  first_pass c plan w cwd bl = (w', cwd', bl', e) -> exists newer, bl' = newer ++ bl.
Proof.
  revert w cwd bl. induction plan as [|[f r] rest IH]; intros w cwd bl; simpl.
  - intros E; inversion E; subst. exists []. reflexivity.
  - destruct (chdir (w_fs w) (pf_dir f)) as [cw|]; [|intros E; inversion E; subst; exists []; reflexivity].
    destruct (generate (c_mode c) f r) as [np|ex]; [|intros E; inversion E; subst; exists []; reflexivity].
    destruct (ppath_eqb np (pf_rel f)); [apply IH|].
    destruct (contained (c_var c) (w_fs w) f np) as [[|]|]; try (intros E; inversion E; subst; exists []; reflexivity).
    destruct (dest_parent_test (c_var c) (w_fs w) f np) as [[|]|]; try (intros E; inversion E; subst; exists []; reflexivity).
    destruct (parents_contained (w_fs w) f np) as [[|]|]; try (intros E; inversion E; subst; exists []; reflexivity).
    destruct (source_contained (w_fs w) f) as [[|]|]; try (intros E; inversion E; subst; exists []; reflexivity).
    destruct (renamer c w cw (pf_rel f) np false) as [w1 [e1|]].
    + destruct (is_file_exists e1).
      * intros E. destruct (IH _ _ _ E) as [n Hn]. exists (n ++ [(pf_dir f, pf_rel f, np)]). rewrite <- app_assoc. exact Hn.
      * intros E; inversion E; subst; exists []; reflexivity.
    + apply IH.
Qed.

(* a deferred rename is retried in the input directory of its own file *)
Theorem deferred_retried_in_own_directory c d src dst rest w cwd :
  v_backlog_chdir (c_var c) = true ->
  second_pass c ((d, src, dst) :: rest) w cwd =
    match chdir (w_fs w) d with
    | None => (w, cwd, Some ExOther)
    | Some cwd1 =>
      match backlog_verify (c_var c) (w_fs w) d src dst with
      | Some e => (w, cwd1, Some e)
      | None =>
      match renamer c w cwd1 src dst false with
      | (w1, None) => second_pass c rest w1 cwd1
      | (w1, Some e) =>
        if is_file_exists e then
          match resolve_conflict c w1 cwd1 src dst with
          | (w2, None) => second_pass c rest w2 cwd1
          | (w2, Some e2) => (w2, cwd1, Some e2)
          end
        else (w1, cwd1, Some e)
      end
      end
    end.
Proof. intros H. simpl. rewrite H. reflexivity. Qed.

(* one file, name mode, free destination: status 0, exactly that entry re-keyed, one report line *)
Theorem one_free_rename_is_exact c f t s cwd cwd1 np sp sn dpar dname :
  c_mode c = MName -> c_dry c = false -> c_fault c = None -> c_var c = fixed ->
  chdir s (pf_dir f) = Some cwd1 ->
  generate MName f (RText t) = inl np -> ppath_eqb np (pf_rel f) = false ->
  contained fixed s f np = Some true -> parents_contained s f np = Some true ->
  source_contained s f = Some true ->
  resolve s cwd1 (to_upath (pf_rel f)) false = WFound sp sn -> sp <> [] ->
  resolve s cwd1 (to_upath np) false = WMissing dpar dname ->
  name_eqb dname dotdot = false ->
  bad_last (to_upath (pf_rel f)) || bad_last (to_upath np) = false ->
  is_dir_node sn && is_prefix_path sp (dpar ++ [dname]) = false ->
  let r := run c [(f, RText t)] cwd s in
  r_status r = 0%Z /\ r_final r = rekey sp (dpar ++ [dname]) s /\
  r_states r = [rekey sp (dpar ++ [dname]) s] /\
  r_report r = [(pp_str (pf_rel f), pp_str np, false)] /\ r_calls r = [(CRename, COk)].
Proof.
  intros Cm Cd Cf Cv H1 H2 H3 H4 H5 H6 Rs Hsp Rd Hdd Hbl Hinv.
  destruct (name_generator_keeps_parent MName f t np ltac:(discriminate) H2) as [Par _].
  assert (PE : ppath_eqb (pp_parent (pf_rel f)) (pp_parent np) = true) by (apply ppath_eqb_spec; congruence).
  unfold run. cbn [first_pass]. cbn [init_world w_fs].
  assert (H4' : dest_parent_test fixed s f np = Some true).
  { apply (dest_parent_test_name_mode fixed MName s f (RText t) np); [discriminate | exact H2 | exact H6]. }
  rewrite Cm, H1, H2, H3, Cv, H4, H4', H5, H6.
  unfold renamer, renamer_core. rewrite Cd, Cm, Cf, Cv.
  unfold file_renamer, guard_exists. cbn [fixed v_lexists_guard negb andb init_world w_fs].
  unfold lexists. rewrite Rd. rewrite PE. cbn [negb].
  unfold sys, faulted. cbn [init_world w_fs].
  unfold os_rename. rewrite Hbl. rewrite Rs. destruct sp as [|x sp]; [congruence|]. rewrite Rd, Hdd, Hinv.
  cbn. repeat split; reflexivity.
Qed.
