(* Boolean checkers, proved sound, for the hypotheses of the C05 theorems (Pipe/DryEqualsReal.v): used by *)
(* the non-vacuity examples and available to the harness to tell whether a generated case is covered.    *)
From Tempren Require Import Base.Str Py.PathLib FS.Model FS.Lemmas FS.PlainPaths FS.WfCheck Pipe.Pipeline Pipe.DryEqualsReal.
Open Scope N_scope.

Definition no_dotdot_b (l : list name) : bool := negb (existsb (name_eqb dotdot) l).

Lemma no_dotdot_b_sound l : no_dotdot_b l = true -> ~ In dotdot l.
Proof.
  unfold no_dotdot_b. intros H K. apply negb_true_iff in H.
  assert (existsb (name_eqb dotdot) l = true) by (apply existsb_exists; exists dotdot; split; [assumption | apply name_eqb_eq; reflexivity]).
  congruence.
Qed.

Definition is_dir_at (s : fs) (k : rpath) : bool := match lookup s k with Some NDir => true | _ => false end.

Definition plain_file_b (s : fs) (f : pfile) : bool :=
  let d := pf_dir f in
  let parts := pp_parts (pf_rel f) in
  match chdir s d with Some p => rpath_eqb p d | None => false end &&
  no_dotdot_b d &&
  Nat.eqb (pp_root (pf_rel f)) 0 &&
  match parts with [] => false | _ => true end &&
  no_dotdot_b parts &&
  forallb (fun q => is_dir_at s (d ++ q)) (proper_prefixes parts) &&
  match lookup s (d ++ parts) with Some (NFile _) => true | _ => false end &&
  Nat.ltb (length d + length parts) walk_fuel.

Lemma plain_file_b_sound s f : plain_file_b s f = true -> plain_file s f.
Proof.
  unfold plain_file_b, plain_file. intros H.
  repeat (apply andb_true_iff in H; destruct H as [H ?]).
  split; [|split; [|split; [|split; [|split; [|split; [|split]]]]]].
  - destruct (chdir s (pf_dir f)) as [p|]; [|discriminate]. apply rpath_eqb_eq in H. subst p. reflexivity.
  - apply no_dotdot_b_sound. assumption.
  - apply Nat.eqb_eq. assumption.
  - destruct (pp_parts (pf_rel f)); [discriminate | discriminate].
  - apply no_dotdot_b_sound. assumption.
  - intros q r E Hq Hr. rewrite forallb_forall in H2.
    specialize (H2 q (proper_prefixes_complete _ q r Hq Hr E)). unfold is_dir_at in H2.
    destruct (lookup s (pf_dir f ++ q)) as [[?|? ?|]|]; try discriminate. reflexivity.
  - destruct (lookup s (pf_dir f ++ pp_parts (pf_rel f))) as [[i|? ?|]|]; try discriminate. exists i. reflexivity.
  - apply Nat.ltb_lt. assumption.
Qed.

Definition plain_plan_b (s : fs) (plan : list (pfile * rendered)) : bool :=
  forallb (fun fr => plain_file_b s (fst fr)) plan.

Lemma plain_plan_b_sound s plan : plain_plan_b s plan = true -> plain_plan s plan.
Proof.
  unfold plain_plan_b, plain_plan. rewrite forallb_forall, Forall_forall.
  intros H x Hx. apply plain_file_b_sound. apply H. assumption.
Qed.

Definition no_dotdot_names_b (plan : list (pfile * rendered)) : bool :=
  forallb (fun fr => match snd fr with RText t => negb (name_eqb t dotdot) | _ => true end) plan.

Lemma no_dotdot_names_b_sound plan : no_dotdot_names_b plan = true -> no_dotdot_names plan.
Proof.
  unfold no_dotdot_names_b, no_dotdot_names. rewrite forallb_forall, Forall_forall.
  intros H x Hx. specialize (H x Hx). destruct (snd x) as [t| |]; auto.
  intros E. apply negb_true_iff in H. apply name_eqb_eq in E. congruence.
Qed.

Definition dest_not_link_b (s : fs) (plan : list (pfile * rendered)) : bool :=
  forallb (fun fr => match snd fr with
                     | RText t => match lookup s (dest_of (fst fr) t) with Some (NLink _ _) => false | _ => true end
                     | _ => true end) plan.

Lemma dest_not_link_b_sound s plan : dest_not_link_b s plan = true -> dest_not_link s plan.
Proof.
  unfold dest_not_link_b, dest_not_link. rewrite forallb_forall, Forall_forall.
  intros H x Hx. specialize (H x Hx). destruct (snd x) as [t| |]; auto.
  intros i tg E. rewrite E in H. discriminate.
Qed.

Definition dest_replaceable_b (s : fs) (plan : list (pfile * rendered)) : bool :=
  forallb (fun fr => match snd fr with
                     | RText t => match skel s (dest_of (fst fr) t) with None => true | _ => false end
                     | _ => true end) plan.

Lemma dest_replaceable_b_sound s plan : dest_replaceable_b s plan = true -> dest_replaceable s plan.
Proof.
  unfold dest_replaceable_b, dest_replaceable. rewrite forallb_forall, Forall_forall.
  intros H x Hx. specialize (H x Hx). destruct (snd x) as [t| |]; auto.
  destruct (skel s (dest_of (fst x) t)); [discriminate | reflexivity].
Qed.

(* all hypotheses of [dry_equals_real_name_mode] about the tree and the plan *)
Definition c05_covered_b (s : fs) (plan : list (pfile * rendered)) : bool :=
  wf_b s && plain_plan_b s plan && dest_not_link_b s plan.

Lemma c05_covered_b_sound s plan :
  c05_covered_b s plan = true -> WF s /\ plain_plan s plan /\ dest_not_link s plan.
Proof.
  unfold c05_covered_b. intros H.
  apply andb_true_iff in H as [H H3]. apply andb_true_iff in H as [H1 H2].
  split; [apply wf_b_sound; assumption|]. split; [apply plain_plan_b_sound; assumption|].
  apply dest_not_link_b_sound; assumption.
Qed.

(* ... and of [dry_equals_real_name_mode_override] *)
Definition c05_covered_override_b (s : fs) (plan : list (pfile * rendered)) : bool :=
  c05_covered_b s plan && no_dotdot_names_b plan && dest_replaceable_b s plan.

Lemma c05_covered_override_b_sound s plan :
  c05_covered_override_b s plan = true ->
  WF s /\ plain_plan s plan /\ dest_not_link s plan /\ no_dotdot_names plan /\ dest_replaceable s plan.
Proof.
  unfold c05_covered_override_b. intros H.
  apply andb_true_iff in H as [H H3]. apply andb_true_iff in H as [H1 H2].
  destruct (c05_covered_b_sound _ _ H1) as [A [B C]].
  split; [assumption|]. split; [assumption|]. split; [assumption|].
  split; [apply no_dotdot_names_b_sound; assumption | apply dest_replaceable_b_sound; assumption].
Qed.
