(* C05, PATH mode (FileMover): a dry run and the real run of the same plan on the same tree end with the  *)
(* same exit status, the same reported renames, the same number of prompts and the same exception.       *)
(*                                                                                                        *)
(* The plan is restricted as the property demands: rendered destinations are relative paths without       *)
(* ".." whose proper ancestors are directories of the initial tree or missing, that are neither an        *)
(* existing directory nor a symbolic link, and none is a proper ancestor of another.                      *)
(*                                                                                                        *)
(* Method: the simulation relation of Pipe/DryEqualsReal.v, generalised: the real run's disk may hold     *)
(* EXTRA directories (created by mkdir -p on the way to a destination) that the dry run's bookkeeping     *)
(* does not know.  They sit at NEEDED keys only (proper ancestors of destinations), and the relation      *)
(* "virtual existence = existence on the real disk" is kept at all other keys; sources and destinations   *)
(* are never needed keys.  mkdir -p always succeeds on such a path, and the move that follows is an       *)
(* os.rename onto a free name (or, when a conflict is overridden, onto a regular file).                   *)
(* Theorems: dry_equals_real_path_mode (stop / ignore / manual without override and custom path),         *)
(* dry_equals_real_path_mode_override (every strategy; only "custom path" is never answered),             *)
(* dry_equals_real_path_mode_general (both).                                                              *)
From Tempren Require Import Base.Str Py.PathLib Py.PathLibProofs FS.Model FS.Lemmas FS.RealpathAgree FS.DirExt
  FS.WfCheck Pipe.Pipeline Pipe.DestParent Pipe.BacklogVerify Pipe.DrySim Pipe.Confined Pipe.ConfinedMove Pipe.PlanExact Pipe.PlanExactPath
  FS.PlainPaths Pipe.DryEqualsReal.
Open Scope N_scope.

(* ====================== the two ways of saying "no .." ================================================== *)
Lemma no_dotdot_notin l : no_dotdot l = true <-> ~ In dotdot l.
Proof.
  induction l as [|c l IH]; simpl.
  - split; [intros _ [] | reflexivity].
  - rewrite andb_true_iff, negb_true_iff, IH. split.
    + intros [Hc Hl] [K|K]; [|exact (Hl K)]. subst c. rewrite dotdot_refl in Hc. discriminate.
    + intros H. split; [|intros K; apply H; right; exact K].
      apply name_eqb_false_of_neq. intros E. apply H. left. exact E.
Qed.

Lemma notin_app_dd (a b : list name) : ~ In dotdot a -> ~ In dotdot b -> ~ In dotdot (a ++ b).
Proof. intros A B K. apply in_app_or in K as [K|K]; [exact (A K) | exact (B K)]. Qed.

(* ====================== the walk along a path whose ancestors are directories or missing ================= *)
(* the walk never runs out of fuel *)
Lemma walk_dm_no_eloop x : forall comps f cur fl,
  (length comps < f)%nat -> ~ In dotdot comps ->
  (forall pre post, comps = pre ++ post -> post <> [] ->
     lookup x (cur ++ pre) = Some NDir \/ lookup x (cur ++ pre) = None) ->
  (fl = false \/ not_link (lookup x (cur ++ comps))) ->
  walk f x cur comps fl <> WErr ELOOP.
Proof.
  induction comps as [|c rest IH]; intros f cur fl Hlen Hdd Hmid Hl.
  - destruct f as [|f]; [inversion Hlen|]. rewrite walk_S. destruct (lookup x cur); discriminate.
  - destruct f as [|f]; [inversion Hlen|]. rewrite walk_S.
    destruct (Hmid [] (c :: rest) eq_refl ltac:(discriminate)) as [Hc|Hc]; rewrite app_nil_r in Hc; rewrite Hc;
      [|discriminate].
    rewrite (name_eqb_false_of_neq c dotdot) by (intros E; apply Hdd; left; exact E).
    destruct rest as [|c2 rest].
    + destruct (lookup x (cur ++ [c])) as [[i|i t|]|] eqn:L; try discriminate.
      destruct Hl as [-> | Hl]; [discriminate|]. exfalso. exact (Hl i t eq_refl).
    + destruct (Hmid [c] (c2 :: rest) eq_refl ltac:(discriminate)) as [Hm|Hm]; rewrite Hm; [|discriminate].
      apply IH.
      * simpl in Hlen |- *. lia.
      * intros K. apply Hdd. right. exact K.
      * intros pre post E Hp. rewrite <- app_assoc. apply (Hmid (c :: pre) post); [simpl; rewrite E; reflexivity | exact Hp].
      * rewrite <- app_assoc. exact Hl.
Qed.

(* a missing ancestor makes the walk fail with ENOENT *)
Lemma walk_dm_enoent x : forall comps f cur fl,
  (length comps < f)%nat -> ~ In dotdot comps -> lookup x cur = Some NDir ->
  (forall pre post, comps = pre ++ post -> post <> [] ->
     lookup x (cur ++ pre) = Some NDir \/ lookup x (cur ++ pre) = None) ->
  (exists pre post, comps = pre ++ post /\ post <> [] /\ lookup x (cur ++ pre) = None) ->
  walk f x cur comps fl = WErr ENOENT.
Proof.
  induction comps as [|c rest IH]; intros f cur fl Hlen Hdd Hcur Hmid [pre [post [E [Hp Hn]]]].
  - symmetry in E. apply app_eq_nil in E as [_ E]. congruence.
  - destruct f as [|f]; [inversion Hlen|]. rewrite walk_S, Hcur.
    rewrite (name_eqb_false_of_neq c dotdot) by (intros K; apply Hdd; left; exact K).
    destruct pre as [|c' pre]; [rewrite app_nil_r in Hn; congruence|].
    simpl in E. injection E as <- E.
    assert (Hrest : rest <> []) by (rewrite E; intros K; apply app_eq_nil in K as [_ K]; congruence).
    destruct (lookup x (cur ++ [c])) as [n|] eqn:L.
    + destruct (Hmid [c] rest eq_refl Hrest) as [K|K]; [|congruence].
      rewrite K in L. injection L as <-.
      destruct rest as [|c2 rest2]; [congruence|].
      apply IH.
      * simpl in Hlen |- *. lia.
      * intros K2. apply Hdd. right. exact K2.
      * exact K.
      * intros pre0 post0 E0 Hp0. rewrite <- app_assoc. apply (Hmid (c :: pre0) post0); [simpl; rewrite E0; reflexivity | exact Hp0].
      * exists pre, post. split; [exact E|]. split; [exact Hp|]. rewrite <- app_assoc. exact Hn.
    + destruct rest; [congruence | reflexivity].
Qed.

(* [resolve] of a relative path d/parts: all ancestors directories or missing *)
Lemma resolve_dm_parts x d parts :
  WF x -> ~ In dotdot parts -> (length d + length parts < walk_fuel)%nat ->
  lookup x d = Some NDir -> dm x (d ++ parts) ->
  resolve x d {| up_abs := false; up_comps := parts |} false =
    match lookup x (d ++ parts) with
    | Some n => WFound (d ++ parts) n
    | None => match lookup x (d ++ removelast parts) with
              | Some _ => WMissing (d ++ removelast parts) (last parts [])
              | None => WErr ENOENT
              end
    end.
Proof.
  intros W Hdd Hlen Hd Hdm.
  destruct parts as [|a l].
  - rewrite (PlanExact.resolve_nil x d {| up_abs := false; up_comps := [] |} false walk_fuel_pos eq_refl).
    cbn [up_abs]. rewrite app_nil_r, Hd. reflexivity.
  - set (parts := a :: l) in *. assert (Hne : parts <> []) by discriminate.
    assert (Hlen' : (length parts < walk_fuel)%nat) by lia.
    destruct (lookup x (d ++ parts)) as [n|] eqn:L.
    + assert (Hdp : dirpath x (d ++ removelast parts)).
      { intros q r E. destruct q as [|y q]; [reflexivity|].
        apply lookup_of_In; [exact W|]. destruct W as [_ CL].
        assert (Hk : d ++ parts <> []) by (intros K; apply app_eq_nil in K as [_ K]; congruence).
        destruct (CL _ _ (lookup_In _ _ _ Hk L)) as [_ C]. apply C; [discriminate|].
        exists (r ++ [last parts []]). split; [destruct r; discriminate|].
        rewrite app_assoc, <- E, <- app_assoc, removelast_last_app by exact Hne. reflexivity. }
      rewrite (PlainPaths.resolve_plain x d parts Hlen' Hne Hdd Hdp), L. reflexivity.
    + destruct (lookup x (d ++ removelast parts)) as [m|] eqn:Lp.
      * assert (m = NDir).
        { destruct (Hdm (d ++ removelast parts) [last parts []]) as [K|K]; [| discriminate | congruence | congruence].
          rewrite <- app_assoc, removelast_last_app by exact Hne. reflexivity. }
        subst m.
        rewrite (PlainPaths.resolve_plain x d parts Hlen' Hne Hdd (dirpath_of_lookup _ _ W Lp)), L. reflexivity.
      * rewrite resolve_unfold. cbn [up_abs up_comps]. apply walk_dm_enoent; try assumption.
        -- intros pre post E Hp. apply (Hdm (d ++ pre) post); [rewrite E, app_assoc; reflexivity | exact Hp].
        -- exists (removelast parts), [last parts []]. split; [symmetry; apply removelast_last_app; exact Hne|].
           split; [discriminate | exact Lp].
Qed.

Lemma resolve_dm x d p :
  WF x -> pp_root p = 0%nat -> ~ In dotdot (pp_parts p) -> (length d + length (pp_parts p) < walk_fuel)%nat ->
  lookup x d = Some NDir -> dm x (d ++ pp_parts p) ->
  resolve x d (to_upath p) false =
    match lookup x (d ++ pp_parts p) with
    | Some n => WFound (d ++ pp_parts p) n
    | None => match lookup x (d ++ removelast (pp_parts p)) with
              | Some _ => WMissing (d ++ removelast (pp_parts p)) (last (pp_parts p) [])
              | None => WErr ENOENT
              end
    end.
Proof. intros W Hr. rewrite (DryEqualsReal.to_upath_rel p Hr). apply resolve_dm_parts. exact W. Qed.

Lemma lexists_dm x d p :
  WF x -> pp_root p = 0%nat -> ~ In dotdot (pp_parts p) -> (length d + length (pp_parts p) < walk_fuel)%nat ->
  lookup x d = Some NDir -> dm x (d ++ pp_parts p) ->
  lexists x d (to_upath p) = present x (d ++ pp_parts p).
Proof.
  intros W Hr Hdd Hlen Hd Hdm. unfold lexists. rewrite (resolve_dm x d p W Hr Hdd Hlen Hd Hdm), present_lookup.
  destruct (lookup x (d ++ pp_parts p)); [reflexivity|].
  destruct (lookup x (d ++ removelast (pp_parts p))); reflexivity.
Qed.

(* following the last link changes nothing when the entry found is not a link *)
Lemma walk_found_follow x : forall f cur comps q n,
  walk f x cur comps false = WFound q n -> (forall i t, n <> NLink i t) -> walk f x cur comps true = WFound q n.
Proof.
  induction f as [|f IH]; intros cur comps q n H Hn; [discriminate H|].
  rewrite walk_S in H. rewrite walk_S. destruct comps as [|c rest]; [exact H|].
  destruct (lookup x cur) as [[i|i t|]|]; try discriminate H.
  destruct (name_eqb c dotdot); [apply IH; assumption|].
  destruct (lookup x (cur ++ [c])) as [[i|i t|]|].
  - destruct rest; [exact H | apply IH; assumption].
  - destruct rest; [injection H as <- <-; exfalso; eapply Hn; reflexivity | apply IH; assumption].
  - destruct rest; [exact H | apply IH; assumption].
  - destruct rest; discriminate H.
Qed.

Lemma is_dir_of_found x d u q :
  resolve x d u false = WFound q NDir -> is_dir x d u = true.
Proof.
  intros H. unfold is_dir. rewrite resolve_unfold in *.
  rewrite (walk_found_follow x _ _ _ _ _ H); [reflexivity | intros i t; discriminate].
Qed.

(* ====================== what mkdir -p leaves alone ======================================================== *)
Definition same_obs (w w' : world) : Prop :=
  w_created w' = w_created w /\ w_removed w' = w_removed w /\ w_report w' = w_report w /\
  w_answers w' = w_answers w /\ w_prompts w' = w_prompts w.

Lemma same_obs_refl w : same_obs w w.
Proof. repeat split. Qed.

Lemma same_obs_trans a b c : same_obs a b -> same_obs b c -> same_obs a c.
Proof. intros [A1 [A2 [A3 [A4 A5]]]] [B1 [B2 [B3 [B4 B5]]]]. repeat split; congruence. Qed.

Definition keeps (w w' : world) : Prop := same_obs w w' /\ (WF (w_fs w) -> WF (w_fs w')).

Lemma keeps_refl w : keeps w w.
Proof. split; [apply same_obs_refl | auto]. Qed.

Lemma keeps_trans a b c : keeps a b -> keeps b c -> keeps a c.
Proof. intros [A1 A2] [B1 B2]. split; [eapply same_obs_trans; eassumption | auto]. Qed.

Lemma sys_keeps k w r w' e :
  (forall x', r = SOk x' -> WF (w_fs w) -> WF x') -> sys None k w r = (w', e) -> keeps w w'.
Proof.
  intros Hr. unfold sys. cbn [faulted]. destruct r as [x'|err]; intros H; injection H as <- <-.
  - split; [repeat split|]. cbn [set_fs w_fs]. apply (Hr x' eq_refl).
  - split; [repeat split | auto].
Qed.

Lemma mkdir_once_keeps w d p w' e : mkdir_once None w d p = (w', e) -> keeps w w'.
Proof.
  unfold mkdir_once. apply sys_keeps. intros x' M W. exact (proj1 (mkdir_preserves _ _ _ _ W M)).
Qed.

Lemma mkdir_p_keeps d : forall fuel w p w' e, mkdir_p fuel None w d p = (w', e) -> keeps w w'.
Proof.
  induction fuel as [|fuel IH]; intros w p w' e H.
  - rewrite mkdir_p_0 in H. destruct (mkdir_once None w d p) as [w1 r] eqn:M1.
    pose proof (mkdir_once_keeps _ _ _ _ _ M1) as K1.
    destruct r as [err|]; [destruct err|]; inversion H; subst; exact K1.
  - rewrite mkdir_p_S in H. destruct (mkdir_once None w d p) as [w1 r] eqn:M1.
    pose proof (mkdir_once_keeps _ _ _ _ _ M1) as K1.
    destruct r as [err|]; [|inversion H; subst; exact K1].
    destruct err; try (inversion H; subst; exact K1).
    destruct (pp_parts p) as [|a l]; [inversion H; subst; exact K1|].
    destruct (mkdir_p fuel None w1 d (pp_parent p)) as [w2 r2] eqn:M2.
    pose proof (keeps_trans _ _ _ K1 (IH _ _ _ _ M2)) as K2.
    destruct r2 as [e2|]; [inversion H; subst; exact K2|].
    destruct (mkdir_once None w2 d p) as [w3 r3] eqn:M3.
    pose proof (keeps_trans _ _ _ K2 (mkdir_once_keeps _ _ _ _ _ M3)) as K3.
    destruct r3 as [[]|]; inversion H; subst; exact K3.
Qed.

(* ====================== mkdir -p succeeds on such a path ================================================== *)
(* every prefix of T, T included, is a directory or missing *)
Definition dmi (x : fs) (T : rpath) : Prop :=
  forall pre post, T = pre ++ post -> lookup x pre = Some NDir \/ lookup x pre = None.

Lemma dmi_dm x T : dmi x T -> dm x T.
Proof. intros H pre post E _. exact (H pre post E). Qed.

Lemma dmi_prefix x a b : dmi x (a ++ b) -> dmi x a.
Proof. intros H pre post E. apply (H pre (post ++ b)). rewrite E, app_assoc. reflexivity. Qed.

Lemma mkdir_once_missing w d p par nm :
  resolve (w_fs w) d (to_upath p) false = WMissing par nm -> name_eqb nm dotdot = false ->
  mkdir_once None w d p = (set_fs w (w_fs w ++ [(par ++ [nm], NDir)]) (CMkdir, COk), None).
Proof. intros R Hn. unfold mkdir_once, os_mkdir. rewrite R, Hn. reflexivity. Qed.

Lemma mkdir_once_found w d p q n :
  resolve (w_fs w) d (to_upath p) false = WFound q n ->
  mkdir_once None w d p = (add_call w (CMkdir, CErr), Some EEXIST).
Proof. intros R. unfold mkdir_once, os_mkdir. rewrite R. reflexivity. Qed.

Lemma mkdir_once_err w d p e :
  resolve (w_fs w) d (to_upath p) false = WErr e ->
  mkdir_once None w d p = (add_call w (CMkdir, CErr), Some e).
Proof. intros R. unfold mkdir_once, os_mkdir. rewrite R. reflexivity. Qed.

Lemma mkdir_p_S_ne f w d p :
  pp_parts p <> [] ->
  mkdir_p (S f) None w d p =
  match mkdir_once None w d p with
  | (w1, None) => (w1, None)
  | (w1, Some ENOENT) =>
      match mkdir_p f None w1 d (pp_parent p) with
      | (w2, Some e) => (w2, Some e)
      | (w2, None) =>
        match mkdir_once None w2 d p with
        | (w3, None) => (w3, None)
        | (w3, Some ENOENT) => (w3, Some ExOther)
        | (w3, Some e) => (w3, swallow w3 d p e)
        end
      end
  | (w1, Some e) => (w1, swallow w1 d p e)
  end.
Proof.
  intros Hne. rewrite mkdir_p_S. destruct (mkdir_once None w d p) as [w1 [[]|]]; try reflexivity.
  destruct (pp_parts p); [congruence | reflexivity].
Qed.

Lemma mkdir_p_found fuel w d p :
  resolve (w_fs w) d (to_upath p) false = WFound (d ++ pp_parts p) NDir ->
  mkdir_p fuel None w d p = (add_call w (CMkdir, CErr), None).
Proof.
  intros R. pose proof (mkdir_once_found _ _ _ _ _ R) as M.
  assert (Sw : swallow (add_call w (CMkdir, CErr)) d p EEXIST = None).
  { unfold swallow. rewrite add_call_fs, (is_dir_of_found _ _ _ _ R). reflexivity. }
  destruct fuel; [rewrite mkdir_p_0 | rewrite mkdir_p_S]; rewrite M, Sw; reflexivity.
Qed.

Lemma lookup_snoc_self x k n : k <> [] -> lookup x k = None -> lookup (x ++ [(k, n)]) k = Some n.
Proof.
  intros Hk Hn. destruct k as [|a k]; [congruence|]. cbn [lookup] in *. rewrite assoc_app_snoc, Hn, rpath_eqb_refl. reflexivity.
Qed.

Lemma mkdir_p_success d : forall fuel w p,
  pp_root p = 0%nat -> ~ In dotdot (pp_parts p) -> (length (pp_parts p) <= fuel)%nat ->
  (length d + length (pp_parts p) < walk_fuel)%nat ->
  WF (w_fs w) -> lookup (w_fs w) d = Some NDir -> dmi (w_fs w) (d ++ pp_parts p) ->
  exists w', mkdir_p fuel None w d p = (w', None) /\ lookup (w_fs w') (d ++ pp_parts p) = Some NDir.
Proof.
  induction fuel as [|fuel IH]; intros w p Hr Hdd Hfuel Hlen W Hd Hdmi.
  - (* no component left: the path is d itself *)
    assert (E : pp_parts p = []) by (destruct (pp_parts p); [reflexivity | simpl in Hfuel; lia]).
    pose proof (resolve_dm _ d p W Hr Hdd Hlen Hd (dmi_dm _ _ Hdmi)) as R.
    assert (L : lookup (w_fs w) (d ++ pp_parts p) = Some NDir) by (rewrite E, app_nil_r; exact Hd).
    rewrite L in R. exists (add_call w (CMkdir, CErr)). split; [apply mkdir_p_found; exact R | rewrite add_call_fs; exact L].
  - pose proof (resolve_dm _ d p W Hr Hdd Hlen Hd (dmi_dm _ _ Hdmi)) as R.
    destruct (Hdmi (d ++ pp_parts p) [] ltac:(rewrite app_nil_r; reflexivity)) as [L|L]; rewrite L in R.
    { exists (add_call w (CMkdir, CErr)). split; [apply mkdir_p_found; exact R | rewrite add_call_fs; exact L]. }
    assert (Hne : pp_parts p <> []).
    { intros E. rewrite E, app_nil_r in L. congruence. }
    assert (Hlast : name_eqb (last (pp_parts p) []) dotdot = false).
    { apply name_eqb_false_of_neq. intros K. apply Hdd. rewrite <- K. apply last_In. exact Hne. }
    assert (ET : (d ++ removelast (pp_parts p)) ++ [last (pp_parts p) []] = d ++ pp_parts p).
    { rewrite <- app_assoc, removelast_last_app by exact Hne. reflexivity. }
    assert (HT : d ++ pp_parts p <> []).
    { intros K. apply app_eq_nil in K as [_ K]. exact (Hne K). }
    destruct (lookup (w_fs w) (d ++ removelast (pp_parts p))) as [m|] eqn:Lp.
    + (* the parent is there: one mkdir *)
      exists (set_fs w (w_fs w ++ [(d ++ pp_parts p, NDir)]) (CMkdir, COk)).
      rewrite mkdir_p_S_ne by exact Hne. rewrite (mkdir_once_missing _ _ _ _ _ R Hlast).
      split; [exact (f_equal (fun k => (set_fs w (w_fs w ++ [(k, NDir)]) (CMkdir, COk), @None exn)) ET)|]. rewrite set_fs_fs. apply lookup_snoc_self; assumption.
    + (* the parent is missing: create it first *)
      rewrite mkdir_p_S_ne by exact Hne. rewrite (mkdir_once_err _ _ _ _ R).
      set (w1 := add_call w (CMkdir, CErr)).
      assert (Hlr : (length (removelast (pp_parts p)) < length (pp_parts p))%nat).
      { rewrite <- (removelast_last_app (pp_parts p) [] Hne) at 2. rewrite app_length. simpl. lia. }
      destruct (IH w1 (pp_parent p)) as [w2 [M2 L2]]; try assumption.
      * unfold pp_parent. cbn [pp_parts]. intros K. apply In_removelast in K. exact (Hdd K).
      * unfold pp_parent. cbn [pp_parts]. lia.
      * unfold pp_parent. cbn [pp_parts]. lia.
      * unfold pp_parent. cbn [pp_parts]. apply (dmi_prefix _ _ [last (pp_parts p) []]). rewrite ET. exact Hdmi.
      * rewrite M2. unfold pp_parent in L2. cbn [pp_parts] in L2.
        assert (Hddp : no_dotdot (pp_parts (pp_parent p)) = true).
        { apply no_dotdot_notin. unfold pp_parent. cbn [pp_parts]. intros K. apply In_removelast in K. exact (Hdd K). }
        assert (HTp : proper_prefix (d ++ pp_parts (pp_parent p)) (d ++ pp_parts p)).
        { exists [last (pp_parts p) []]. split; [discriminate|]. unfold pp_parent. cbn [pp_parts]. symmetry. exact ET. }
        destruct (mkdir_p_plain (d ++ pp_parts p) d fuel w1 (pp_parent p) w2 None Hr Hddp HTp (dmi_dm _ _ Hdmi) M2)
          as [C2 [E2 [N2 X2]]].
        change (w_fs w1) with (w_fs w) in E2, X2.
        pose proof (proj2 (mkdir_p_keeps _ _ _ _ _ _ M2) W) as W2.
        assert (LT2 : lookup (w_fs w2) (d ++ pp_parts p) = None).
        { destruct (X2 (d ++ pp_parts p)) as [K|[_ K]]; [congruence|].
          exfalso. apply lookup_In in K; [|exact HT]. rewrite E2 in K. apply in_app_or in K as [K|K].
          - apply (lookup_None_notin _ _ L). apply in_map_iff. exists (d ++ pp_parts p, NDir). split; [reflexivity | exact K].
          - destruct (N2 _ _ K) as [_ [r [Hr0 Er]]]. rewrite <- (app_nil_r (d ++ pp_parts p)) in Er at 1.
            apply app_inv_head in Er. congruence. }
        pose proof (resolve_dm _ d p W2 Hr Hdd Hlen (dir_ext_some _ _ _ _ X2 Hd) (dm_dir_ext _ _ _ X2 (dmi_dm _ _ Hdmi))) as R2.
        rewrite LT2, L2 in R2.
        exists (set_fs w2 (w_fs w2 ++ [(d ++ pp_parts p, NDir)]) (CMkdir, COk)).
        rewrite (mkdir_once_missing _ _ _ _ _ R2 Hlast).
        split; [exact (f_equal (fun k => (set_fs w2 (w_fs w2 ++ [(k, NDir)]) (CMkdir, COk), @None exn)) ET)|]. rewrite set_fs_fs. apply lookup_snoc_self; assumption.
Qed.

(* ====================== the containment tests on such a destination ====================================== *)
Lemma realpath_dm x T :
  ~ In dotdot T -> (length T < walk_fuel)%nat -> dm x T -> not_link (lookup x T) ->
  realpath x [] {| up_abs := true; up_comps := T |} = Some T.
Proof.
  intros Hdd Hlen Hdm Hnl. apply PlanExact.realpath_plain.
  - apply no_dotdot_notin. exact Hdd.
  - intros pre c post E i t. destruct post as [|c2 post].
    + rewrite <- E. apply Hnl.
    + destruct (Hdm (pre ++ [c]) (c2 :: post)) as [K|K]; [rewrite <- app_assoc; exact E | discriminate | |];
        rewrite K; discriminate.
  - rewrite resolve_unfold. cbn [up_abs up_comps]. apply walk_dm_no_eloop; [exact Hlen | exact Hdd | | right; exact Hnl].
    intros pre post E Hp. exact (Hdm pre post E Hp).
Qed.

Record dest_ok (s : fs) (d : rpath) (np : ppath) : Prop := {
  do_root : pp_root np = 0%nat;                                     (* a relative path ...               *)
  do_dd : ~ In dotdot (pp_parts np);                                (* ... without ".."                  *)
  do_len : (length d + length (pp_parts np) < walk_fuel)%nat;       (* the model's walk gives up beyond  *)
  do_dm : dm s (d ++ pp_parts np);                                  (* ancestors: directories or missing *)
  do_free : skel s (d ++ pp_parts np) = None                        (* no directory, no symbolic link    *)
}.

Lemma dest_ok_not_link s d np : dest_ok s d np -> not_link (lookup s (d ++ pp_parts np)).
Proof.
  intros D i t K. apply skel_link in K. rewrite (do_free _ _ _ D) in K. discriminate.
Qed.

Lemma dest_ok_ne s d np : dest_ok s d np -> lookup s d = Some NDir -> pp_parts np <> [].
Proof.
  intros D Hd E. pose proof (do_free _ _ _ D) as K. rewrite E, app_nil_r in K.
  apply skel_dir in Hd. congruence.
Qed.

Lemma dn_not_link (o : option node) : o = Some NDir \/ o = None -> not_link o.
Proof. intros [-> | ->] i t; discriminate. Qed.

Lemma contained_dm s f np :
  ~ In dotdot (pf_dir f) -> dest_ok s (pf_dir f) np -> contained fixed s f np = Some true.
Proof.
  intros Hddd D. unfold contained. rewrite (do_root _ _ _ D). cbn [Nat.eqb fixed v_component_containment].
  rewrite realpath_dm.
  - f_equal. apply is_prefix_path_spec. eexists. reflexivity.
  - apply notin_app_dd; [exact Hddd | exact (do_dd _ _ _ D)].
  - rewrite app_length. exact (do_len _ _ _ D).
  - exact (do_dm _ _ _ D).
  - exact (dest_ok_not_link _ _ _ D).
Qed.

Lemma parents_contained_dm s f np :
  WF s -> lookup s (pf_dir f) = Some NDir -> ~ In dotdot (pf_dir f) -> dest_ok s (pf_dir f) np ->
  parents_contained s f np = Some true.
Proof.
  intros W Hd Hddd D. pose proof (dest_ok_ne _ _ _ D Hd) as Hne.
  unfold parents_contained. rewrite (do_root _ _ _ D). cbn [Nat.eqb].
  rewrite (removelast_app_ne _ _ Hne).
  match goal with |- new_dirs_inside ?n0 _ _ _ = _ => generalize n0 end. intros n.
  assert (Hq : exists r, r <> [] /\ pp_parts np = removelast (pp_parts np) ++ r).
  { exists [last (pp_parts np) []]. split; [discriminate | symmetry; apply removelast_last_app; exact Hne]. }
  revert Hq. generalize (removelast (pp_parts np)). intros q. revert q.
  pose proof (do_len _ _ _ D) as Hlen.
  assert (Exd : exists_ s [] {| up_abs := true; up_comps := pf_dir f |} = true).
  { unfold exists_. rewrite resolve_dirs; [reflexivity | lia | exact Hddd | apply dirpath_of_lookup; assumption]. }
  induction n as [|n IH]; intros q [r [Hr E]]; rewrite ndi_unfold.
  - match goal with |- (if ?b then _ else _) = _ => destruct b eqn:Ex end; [reflexivity|].
    rewrite realpath_dm.
    + match goal with |- context [is_prefix_path ?a ?b] =>
        assert (P : is_prefix_path a b = true) by (apply is_prefix_path_spec; eexists; reflexivity); rewrite P end.
      reflexivity.
    + apply notin_app_dd; [exact Hddd|]. intros K. apply (do_dd _ _ _ D). rewrite E. apply in_or_app. left. exact K.
    + rewrite app_length. rewrite E, app_length in Hlen. unfold name in *. lia.
    + apply (dm_prefix _ (pf_dir f ++ pp_parts np) _ r); [rewrite E, app_assoc; reflexivity | exact (do_dm _ _ _ D)].
    + apply dn_not_link. apply (do_dm _ _ _ D (pf_dir f ++ q) r); [rewrite E, app_assoc; reflexivity | exact Hr].
  - match goal with |- (if ?b then _ else _) = _ => destruct b eqn:Ex end; [reflexivity|].
    rewrite realpath_dm.
    + match goal with |- context [is_prefix_path ?a ?b] =>
        assert (P : is_prefix_path a b = true) by (apply is_prefix_path_spec; eexists; reflexivity); rewrite P end.
      destruct q as [|c q] using rev_ind; [rewrite app_nil_r in Ex; congruence|]. clear IHq.
      match goal with |- match ?X with [] => _ | _ :: _ => _ end = _ => destruct X as [|y l] eqn:Eq end.
      { apply app_eq_nil in Eq as [_ Eq]. destruct q; discriminate. }
      rewrite <- Eq, app_assoc, removelast_snoc. apply IH.
      exists (c :: r). split; [discriminate|]. rewrite E, <- app_assoc. reflexivity.
    + apply notin_app_dd; [exact Hddd|]. intros K. apply (do_dd _ _ _ D). rewrite E. apply in_or_app. left. exact K.
    + rewrite app_length. rewrite E, app_length in Hlen. unfold name in *. lia.
    + apply (dm_prefix _ (pf_dir f ++ pp_parts np) _ r); [rewrite E, app_assoc; reflexivity | exact (do_dm _ _ _ D)].
    + apply dn_not_link. apply (do_dm _ _ _ D (pf_dir f ++ q) r); [rewrite E, app_assoc; reflexivity | exact Hr].
Qed.

(* the directory of the destination entry (F34): a path of directories-or-missing below the input directory *)
Lemma dest_parent_contained_dm s f np :
  lookup s (pf_dir f) = Some NDir -> ~ In dotdot (pf_dir f) -> dest_ok s (pf_dir f) np ->
  dest_parent_contained s f np = Some true.
Proof.
  intros Hd Hddd D. pose proof (dest_ok_ne _ _ _ D Hd) as Hne.
  unfold dest_parent_contained, dest_parent. rewrite (do_root _ _ _ D). cbn [Nat.eqb].
  rewrite (removelast_app_ne _ _ Hne).
  assert (E : pp_parts np = removelast (pp_parts np) ++ [last (pp_parts np) []])
    by (symmetry; apply removelast_last_app; exact Hne).
  pose proof (do_len _ _ _ D) as Hlen.
  assert (Hdm : dm s (pf_dir f ++ removelast (pp_parts np))).
  { apply (dm_prefix _ (pf_dir f ++ pp_parts np) _ [last (pp_parts np) []]); [|exact (do_dm _ _ _ D)].
    rewrite <- app_assoc. f_equal. exact E. }
  rewrite realpath_dm.
  - f_equal. apply is_prefix_path_spec. eexists. reflexivity.
  - apply notin_app_dd; [exact Hddd|]. intros K. apply (do_dd _ _ _ D). apply In_removelast. exact K.
  - rewrite app_length. rewrite E, app_length in Hlen. unfold name in *. lia.
  - exact Hdm.
  - apply dn_not_link.
    apply (do_dm _ _ _ D (pf_dir f ++ removelast (pp_parts np)) [last (pp_parts np) []]); [|discriminate].
    rewrite <- app_assoc. f_equal. exact E.
Qed.

(* a plain relative path (DryEqualsReal.plain_rel) is such a path too *)
Lemma plain_rel_dm s d p : WF s -> plain_rel s d p -> dm s (d ++ pp_parts p).
Proof.
  intros W P pre post E Hp. left.
  destruct (exists_last Hp) as [post' [l ->]].
  rewrite <- (removelast_last_app (pp_parts p) [] (pr_ne _ _ _ P)) in E. rewrite !app_assoc in E.
  apply app_inj_tail in E as [E _].
  apply (dirpath_of_lookup s _ W (pr_par _ _ _ P) pre post'). exact E.
Qed.

(* ====================== the property's restriction on the plan ============================================ *)
(* every rendered destination is a relative path without ".." whose proper ancestors are directories of the tree or
   missing (so: no link, no file on the way — in particular no destination lies beneath a source), which is neither an
   existing directory nor a symbolic link; a template that raises is allowed; an absolute result is not *)
Definition path_entry_ok (s : fs) (e : pfile * rendered) : Prop :=
  match snd e with
  | RText t => dest_ok s (pf_dir (fst e)) (parse_path t)
  | RAbs _ => False
  | RRaise _ => True
  end.

(* ... and no destination is a proper ancestor of another one *)
Definition path_dests_ok (s : fs) (plan : list (pfile * rendered)) : Prop :=
  Forall (path_entry_ok s) plan /\
  (forall f t f' t', In (f, RText t) plan -> In (f', RText t') plan -> ~ proper_prefix (pdst f t) (pdst f' t')).

(* the same, spelled out *)
Lemma path_dests_ok_spelled_out s plan :
  path_dests_ok s plan <->
  (forall f r, In (f, r) plan ->
     match r with
     | RText t =>
         let np := parse_path t in
         let T := pf_dir f ++ pp_parts np in
         pp_root np = 0%nat /\ ~ In dotdot (pp_parts np) /\
         (length (pf_dir f) + length (pp_parts np) < walk_fuel)%nat /\
         (forall pre post, T = pre ++ post -> post <> [] -> lookup s pre = Some NDir \/ lookup s pre = None) /\
         (forall n, lookup s T = Some n -> exists i, n = NFile i)
     | RAbs _ => False
     | RRaise _ => True
     end) /\
  (forall f t f' t', In (f, RText t) plan -> In (f', RText t') plan ->
     ~ exists r, r <> [] /\ pf_dir f' ++ pp_parts (parse_path t') = (pf_dir f ++ pp_parts (parse_path t)) ++ r).
Proof.
  assert (Sk : forall k, skel s k = None <-> forall n, lookup s k = Some n -> exists i, n = NFile i).
  { intros k. unfold skel. destruct (lookup s k) as [[i|i t|]|]; split; intros H.
    all: try reflexivity; try discriminate H.
    all: try (intros n E; first [discriminate E | injection E as <-; eexists; reflexivity]).
    all: destruct (H _ eq_refl) as [j E]; discriminate E. }
  unfold path_dests_ok. rewrite Forall_forall. split; intros [A B]; (split; [|exact B]).
  - intros f r Hin. specialize (A _ Hin). unfold path_entry_ok in A. cbn [fst snd] in A.
    destruct r as [t|t|ex]; [|exact A | exact I]. destruct A as [A1 A2 A3 A4 A5]. cbv zeta.
    split; [exact A1|]. split; [exact A2|]. split; [exact A3|]. split; [exact A4|]. apply Sk. exact A5.
  - intros [f r] Hin. specialize (A _ _ Hin). unfold path_entry_ok. cbn [fst snd].
    destruct r as [t|t|ex]; [|exact A | exact I]. cbv zeta in A. destruct A as [A1 [A2 [A3 [A4 A5]]]].
    constructor; try assumption. apply Sk. exact A5.
Qed.

(* ====================== the simulation ==================================================================== *)
Section PathSimulation.
Variable s0 : fs.                         (* the initial tree *)
Variable plan : list (pfile * rendered).
Variable st : strategy.
Variable answers : list str.
Variable OVR : Prop.                      (* may a conflict be overridden?  ("custom path" is never answered) *)
Hypothesis W0 : WF s0.
Hypothesis DO : path_dests_ok s0 plan.
Hypothesis st_ok :
  match st with Stop | Ignore => True | Manual => Forall (answer_ok OVR False) answers | Override => OVR end.

(* the keys at which mkdir -p may create a directory *)
Definition needed (k : rpath) : Prop := exists f t, In (f, RText t) plan /\ proper_prefix k (pdst f t).

Definition pD : cfg :=
  {| c_mode := MPath; c_strategy := st; c_dry := true; c_answers := answers; c_fault := None; c_var := fixed |}.
Definition pR : cfg :=
  {| c_mode := MPath; c_strategy := st; c_dry := false; c_answers := answers; c_fault := None; c_var := fixed |}.

Record SimP (wd wr : world) : Prop := {
  sp_fs : w_fs wd = s0;
  sp_wf : WF (w_fs wr);
  sp_skel : forall k, skel (w_fs wr) k = skel s0 k \/ (needed k /\ lookup (w_fs wr) k = Some NDir);
  sp_dm : forall k, needed k -> lookup (w_fs wr) k = Some NDir \/ lookup (w_fs wr) k = None;
  sp_inv : forall k, k <> [] -> ~ needed k ->
             vexists (present s0) (w_created wd) (w_removed wd) k = present (w_fs wr) k;
  sp_report : w_report wd = w_report wr;
  sp_answers : w_answers wd = w_answers wr;
  sp_prompts : w_prompts wd = w_prompts wr;
  sp_ok : st = Manual -> Forall (answer_ok OVR False) (w_answers wr)
}.

Lemma SimP_init : SimP (init_world s0 answers) (init_world s0 answers).
Proof.
  constructor; cbn [init_world w_fs w_created w_removed w_report w_answers w_prompts]; auto.
  - intros k D. destruct D as [f [t [Hin [r [Hr E]]]]].
    destruct DO as [F _]. rewrite Forall_forall in F. pose proof (F _ Hin) as Df. cbn in Df.
    exact (do_dm _ _ _ Df k r E Hr).
  - intros k _ _. unfold vexists, mem_path. simpl. rewrite orb_false_r, andb_true_r. reflexivity.
  - intros E. rewrite E in st_ok. exact st_ok.
Qed.

Lemma entry_dest f t : In (f, RText t) plan -> dest_ok s0 (pf_dir f) (parse_path t).
Proof. intros Hin. destruct DO as [F _]. rewrite Forall_forall in F. exact (F _ Hin). Qed.

Lemma needed_dm0 k : needed k -> lookup s0 k = Some NDir \/ lookup s0 k = None.
Proof. intros [f [t [Hin [r [Hr E]]]]]. exact (do_dm _ _ _ (entry_dest f t Hin) k r E Hr). Qed.

Lemma file_not_needed k i : lookup s0 k = Some (NFile i) -> ~ needed k.
Proof. intros L N. destruct (needed_dm0 k N) as [K|K]; rewrite K in L; discriminate. Qed.

Lemma SimP_dir_stays wd wr k : SimP wd wr -> lookup s0 k = Some NDir -> lookup (w_fs wr) k = Some NDir.
Proof.
  intros S L. destruct (sp_skel _ _ S k) as [K|[_ K]]; [|exact K].
  apply skel_dir. rewrite K. apply skel_dir. exact L.
Qed.

Lemma SimP_plain_rel wd wr d p : SimP wd wr -> plain_rel s0 d p -> plain_rel (w_fs wr) d p.
Proof.
  intros S [A B C D E F]. constructor; try assumption. apply (SimP_dir_stays _ _ _ S). exact F.
Qed.

(* one step of the plan (or of the backlog): source d/src, destination d/dst *)
Record step_ok (d : rpath) (src dst : ppath) : Prop := {
  so_dir : lookup s0 d = Some NDir;
  so_src : plain_rel s0 d src;
  so_file : exists i, lookup s0 (d ++ pp_parts src) = Some (NFile i);
  so_dst : dest_ok s0 d dst;
  so_nn : ~ needed (d ++ pp_parts dst);
  so_anc : forall k, proper_prefix k (d ++ pp_parts dst) -> needed k
}.

Lemma SimP_dest_ok wd wr d src dst : SimP wd wr -> step_ok d src dst -> dest_ok (w_fs wr) d dst.
Proof.
  intros S SO. destruct (so_dst _ _ _ SO) as [A B C D E]. constructor; try assumption.
  - intros pre post Ep Hp. apply (sp_dm _ _ S). apply (so_anc _ _ _ SO). exists post. split; assumption.
  - destruct (sp_skel _ _ S (d ++ pp_parts dst)) as [K|[K _]]; [rewrite K; exact E | exfalso; exact (so_nn _ _ _ SO K)].
Qed.

Lemma step_src_nn d src dst : step_ok d src dst -> ~ needed (d ++ pp_parts src).
Proof. intros SO. destruct (so_file _ _ _ SO) as [i Hi]. exact (file_not_needed _ _ Hi). Qed.

(* DryRunRenamer's existence test is virtual existence at the key d/p *)
Lemma dry_exists_simp wd wr d p :
  SimP wd wr -> pp_root p = 0%nat -> ~ In dotdot (pp_parts p) -> (length d + length (pp_parts p) < walk_fuel)%nat ->
  lookup s0 d = Some NDir -> dm s0 (d ++ pp_parts p) -> pp_parts p <> [] -> ~ needed (d ++ pp_parts p) ->
  dry_exists fixed wd d p = present (w_fs wr) (d ++ pp_parts p).
Proof.
  intros S Hr Hdd Hlen Hd Hdm Hne Hnn. unfold dry_exists. cbn [fixed v_dry_abs_keys].
  rewrite (sp_fs _ _ S), (lexists_dm s0 d p W0 Hr Hdd Hlen Hd Hdm).
  unfold dry_key. cbn [fixed v_dry_abs_keys]. rewrite Hr. cbn [Nat.eqb]. rewrite (lexical_plain _ _ Hdd).
  apply (sp_inv _ _ S); [|exact Hnn]. intros K. apply app_eq_nil in K as [_ K]. exact (Hne K).
Qed.

Lemma SimP_add_call wd wr c : SimP wd wr -> SimP wd (add_call wr c).
Proof. intros [F1 F2 F3 F4 F5 F6 F7 F8 F9]. constructor; assumption. Qed.

(* the real world gains directories at needed keys *)
Lemma SimP_ext wd wr wr1 :
  SimP wd wr -> keeps wr wr1 -> dir_ext (w_fs wr) (w_fs wr1) ->
  (forall k, lookup (w_fs wr) k = None -> lookup (w_fs wr1) k = Some NDir -> needed k) ->
  SimP wd wr1.
Proof.
  intros S [[K1 [K2 [K3 [K4 K5]]]] KW] X New. constructor.
  - exact (sp_fs _ _ S).
  - exact (KW (sp_wf _ _ S)).
  - intros k. destruct (X k) as [E|[E1 E2]].
    + unfold skel at 1. rewrite E. destruct (sp_skel _ _ S k) as [K|[K L]]; [left; exact K | right; split; [exact K | congruence]].
    + right. split; [exact (New k E1 E2) | exact E2].
  - intros k N. destruct (X k) as [E|[E1 E2]]; [rewrite E; exact (sp_dm _ _ S k N) | left; exact E2].
  - intros k Hk Hn. rewrite (sp_inv _ _ S k Hk Hn), !present_lookup.
    destruct (X k) as [E|[E1 E2]]; [rewrite E; reflexivity | exfalso; exact (Hn (New k E1 E2))].
  - rewrite K3. exact (sp_report _ _ S).
  - rewrite K4. exact (sp_answers _ _ S).
  - rewrite K5. exact (sp_prompts _ _ S).
  - rewrite K4. exact (sp_ok _ _ S).
Qed.

(* one successful move in both worlds.  [s1] is the real tree with the destination entry taken out (an atomic
   replace) or the real tree itself (the destination is free) *)
Lemma SimP_step wd wr s1 ks kd i src dst ov :
  SimP wd wr -> ks <> [] -> kd <> [] -> ks <> kd ->
  WF s1 -> (forall k, lookup s1 k = if rpath_eqb k kd then None else lookup (w_fs wr) k) ->
  lookup (w_fs wr) ks = Some (NFile i) ->
  lookup (w_fs wr) (removelast kd) = Some NDir ->
  ~ needed ks -> ~ needed kd -> skel s0 ks = None -> skel s0 kd = None ->
  SimP (add_report (Pipeline.set_dry wd (del_path ks (add_path kd (w_created wd))) (del_path kd (add_path ks (w_removed wd)))) src dst ov)
       (add_report (set_fs wr (rekey ks kd s1) (CMove, COk)) src dst ov).
Proof.
  intros S Hks Hkd Hsd W1 L1 Ls Lpar Ns Nd Sks Skd.
  assert (Ls1 : lookup s1 ks = Some (NFile i)).
  { rewrite L1. assert (rpath_eqb ks kd = false) by (apply rpath_eqb_neq; assumption). rewrite H. assumption. }
  assert (Ld1 : lookup s1 kd = None) by (rewrite L1, rpath_eqb_refl; reflexivity).
  assert (Hin : In (ks, NFile i) s1) by (apply lookup_In; assumption).
  pose proof (file_is_leaf _ _ _ W1 Hin) as Leaf.
  assert (Free : forall q m, In (q, m) s1 -> q <> kd).
  { intros q m Hq E. subst q. apply lookup_None_notin in Ld1. apply Ld1. apply in_map_iff. exists (kd, m). split; auto. }
  destruct (exists_last Hkd) as [dpar [dname Edp]].
  assert (W' : WF (rekey ks kd s1)).
  { rewrite Edp in *. rewrite removelast_snoc in Lpar.
    apply (rename_missing_preserves s1 ks (NFile i) dpar dname); try assumption; [|reflexivity].
    rewrite L1. destruct (rpath_eqb dpar (dpar ++ [dname])) eqn:E; [|assumption].
    apply rpath_eqb_eq in E. exfalso. apply (f_equal (@length _)) in E. rewrite app_length in E. simpl in E. lia. }
  pose proof (fun k => lookup_rekey_leaf s1 ks kd (NFile i) k W1 W' Hin Hks Hkd Hsd Leaf Free) as LK.
  constructor; cbn [add_report Pipeline.set_dry set_fs w_fs w_created w_removed w_report w_answers w_prompts].
  - exact (sp_fs _ _ S).
  - exact W'.
  - intros k. unfold skel at 1. rewrite (LK k).
    destruct (rpath_eqb k kd) eqn:Ed.
    + apply rpath_eqb_eq in Ed. subst k. left. symmetry. exact Skd.
    + destruct (rpath_eqb k ks) eqn:Es.
      * apply rpath_eqb_eq in Es. subst k. left. symmetry. exact Sks.
      * rewrite L1, Ed.
        destruct (sp_skel _ _ S k) as [K|[K L]]; [left; exact K | right; split; [exact K | exact L]].
  - intros k N. rewrite (LK k).
    destruct (rpath_eqb k kd) eqn:Ed; [apply rpath_eqb_eq in Ed; subst k; contradiction|].
    destruct (rpath_eqb k ks) eqn:Es; [apply rpath_eqb_eq in Es; subst k; contradiction|].
    rewrite L1, Ed. exact (sp_dm _ _ S k N).
  - intros k Hk Hn. rewrite dry_step_tracks_rename by assumption.
    rewrite present_lookup, (LK k).
    destruct (rpath_eqb k kd) eqn:Ed; [reflexivity|].
    destruct (rpath_eqb k ks) eqn:Es; [reflexivity|].
    rewrite L1, Ed. rewrite (sp_inv _ _ S k Hk Hn). reflexivity.
  - rewrite (sp_report _ _ S). reflexivity.
  - exact (sp_answers _ _ S).
  - exact (sp_prompts _ _ S).
  - exact (sp_ok _ _ S).
Qed.

(* ---------- the two renamers of path mode, written out --------------------------------------------------------- *)
Definition dry_tail (wd : world) (d : rpath) (src dst : ppath) (ov : bool) : world * option exn :=
  if negb (dry_exists fixed wd d src) then (wd, Some ExOther)
  else (add_report (Pipeline.set_dry wd
          (del_path (dry_key fixed d src) (add_path (dry_key fixed d dst) (w_created wd)))
          (del_path (dry_key fixed d dst) (add_path (dry_key fixed d src) (w_removed wd)))) src dst ov, None).

Definition move_tail (w1 : world) (d : rpath) (src dst : ppath) (ov : bool) : world * option exn :=
  match sys None CMove w1 (shutil_move_fs (w_fs w1) d (to_upath src) (to_upath dst)) with
  | (w2, None) => (add_report w2 src dst ov, None)
  | (w2, Some _) => (w2, Some ExOther)
  end.

Lemma renamer_pD_eq wd d src dst ov :
  renamer pD wd d src dst ov =
    if dry_exists fixed wd d dst && negb ov then (wd, Some ExDestExists) else dry_tail wd d src dst ov.
Proof.
  unfold renamer, renamer_core, dry_tail. cbn [pD c_dry c_mode c_var]. unfold dry_renamer.
  destruct (dry_exists fixed wd d dst && negb ov); [reflexivity|]. cbn [andb].
  destruct (dry_exists fixed wd d src); reflexivity.
Qed.

Lemma renamer_pR_eq wr d src dst :
  renamer pR wr d src dst false =
    if lexists (w_fs wr) d (to_upath dst) then (wr, Some ExDestExists)
    else match mkdir_p (S (length (pp_parts dst))) None wr d (pp_parent dst) with
         | (w1, Some e) => (w1, Some e)
         | (w1, None) =>
           if lexists (w_fs w1) d (to_upath dst) then (w1, Some ExDestExists) else move_tail w1 d src dst false
         end.
Proof.
  unfold renamer, renamer_core, move_tail. cbn [pR c_dry c_mode c_var c_fault]. rewrite file_mover_fixed_unfold.
  destruct (lexists (w_fs wr) d (to_upath dst)); [reflexivity|].
  destruct (mkdir_p (S (length (pp_parts dst))) None wr d (pp_parent dst)) as [w1 [e|]]; [reflexivity|].
  destruct (lexists (w_fs w1) d (to_upath dst)); [reflexivity|].
  destruct (sys None CMove w1 (shutil_move_fs (w_fs w1) d (to_upath src) (to_upath dst))) as [w2 [e|]]; reflexivity.
Qed.

Lemma file_mover_fixed_unfold_ov flt w cwd src dst :
  file_mover fixed flt w cwd src dst true =
  match mkdir_p (S (length (pp_parts dst))) flt w cwd (pp_parent dst) with
  | (w1, Some e) => (w1, Some e)
  | (w1, None) =>
    match sys flt CMove w1 (shutil_move_fs (w_fs w1) cwd (to_upath src) (to_upath dst)) with
    | (w2, None) => (w2, None)
    | (w2, Some _) => (w2, Some ExOther)
    end
  end.
Proof. reflexivity. Qed.

Lemma renamer_pR_eq_ov wr d src dst :
  renamer pR wr d src dst true =
    match mkdir_p (S (length (pp_parts dst))) None wr d (pp_parent dst) with
    | (w1, Some e) => (w1, Some e)
    | (w1, None) => move_tail w1 d src dst true
    end.
Proof.
  unfold renamer, renamer_core, move_tail. cbn [pR c_dry c_mode c_var c_fault]. rewrite file_mover_fixed_unfold_ov.
  destruct (mkdir_p (S (length (pp_parts dst))) None wr d (pp_parent dst)) as [w1 [e|]]; [reflexivity|].
  destruct (sys None CMove w1 (shutil_move_fs (w_fs w1) d (to_upath src) (to_upath dst))) as [w2 [e|]]; reflexivity.
Qed.

Lemma dry_key_plain d p : pp_root p = 0%nat -> ~ In dotdot (pp_parts p) -> dry_key fixed d p = d ++ pp_parts p.
Proof.
  intros Hr Hdd. unfold dry_key. cbn [fixed v_dry_abs_keys]. rewrite Hr. cbn [Nat.eqb]. apply lexical_plain. exact Hdd.
Qed.

(* mkdir -p of the destination's parent succeeds and only adds directories at needed keys *)
Lemma simp_mkdir wd wr d src dst :
  SimP wd wr -> step_ok d src dst ->
  exists w1, mkdir_p (S (length (pp_parts dst))) None wr d (pp_parent dst) = (w1, None) /\ SimP wd w1 /\
             lookup (w_fs w1) (d ++ removelast (pp_parts dst)) = Some NDir.
Proof.
  intros S SO.
  pose proof (so_dir _ _ _ SO) as Hd0. pose proof (so_dst _ _ _ SO) as Dd.
  pose proof (dest_ok_ne _ _ _ Dd Hd0) as Hned.
  pose proof (sp_wf _ _ S) as W.
  pose proof (SimP_dir_stays _ _ _ S Hd0) as Hd.
  pose proof (SimP_dest_ok _ _ _ _ _ S SO) as Dx.
  assert (Hlr : (length (removelast (pp_parts dst)) < length (pp_parts dst))%nat).
  { rewrite <- (removelast_last_app (pp_parts dst) [] Hned) at 2. rewrite app_length. simpl. lia. }
  assert (ET : (d ++ removelast (pp_parts dst)) ++ [last (pp_parts dst) []] = d ++ pp_parts dst).
  { rewrite <- app_assoc, removelast_last_app by exact Hned. reflexivity. }
  assert (Hddp : ~ In dotdot (pp_parts (pp_parent dst))).
  { unfold pp_parent. cbn [pp_parts]. intros K. apply In_removelast in K. exact (do_dd _ _ _ Dd K). }
  destruct (mkdir_p_success d (Datatypes.S (length (pp_parts dst))) wr (pp_parent dst)) as [w1 [M1 L1]]; try assumption.
  { exact (do_root _ _ _ Dd). }
  { unfold pp_parent. cbn [pp_parts]. lia. }
  { unfold pp_parent. cbn [pp_parts]. pose proof (do_len _ _ _ Dd). lia. }
  { unfold pp_parent. cbn [pp_parts]. intros pre post E.
    apply (do_dm _ _ _ Dx pre (post ++ [last (pp_parts dst) []])); [|destruct post; discriminate].
    rewrite app_assoc, <- E. symmetry. exact ET. }
  exists w1. split; [exact M1|]. split; [|exact L1].
  pose proof (mkdir_p_keeps _ _ _ _ _ _ M1) as K1.
  assert (HTp : proper_prefix (d ++ pp_parts (pp_parent dst)) (d ++ pp_parts dst)).
  { exists [last (pp_parts dst) []]. split; [discriminate|]. unfold pp_parent. cbn [pp_parts]. symmetry. exact ET. }
  destruct (mkdir_p_plain (d ++ pp_parts dst) d _ wr (pp_parent dst) w1 None (do_root _ _ _ Dd)
              (proj2 (no_dotdot_notin _) Hddp) HTp (do_dm _ _ _ Dx) M1) as [C1 [E1 [N1 X1]]].
  apply (SimP_ext wd wr w1 S K1 X1). intros k Hn Hk. apply (so_anc _ _ _ SO).
  assert (Hk0 : k <> []) by (intros K; subst k; discriminate Hn).
  apply lookup_In in Hk; [|exact Hk0]. rewrite E1 in Hk. apply in_app_or in Hk as [Hk|Hk].
  - exfalso. apply (lookup_None_notin _ _ Hn). apply in_map_iff. exists (k, NDir). split; [reflexivity | exact Hk].
  - exact (proj2 (N1 _ _ Hk)).
Qed.

Lemma is_dir_of_found_file x d u q j : resolve x d u false = WFound q (NFile j) -> is_dir x d u = false.
Proof.
  intros H. unfold is_dir. rewrite resolve_unfold in *.
  rewrite (walk_found_follow x _ _ _ _ _ H); [reflexivity | intros i t; discriminate].
Qed.

(* the move itself, once the destination's parent is there: onto a free name, or (override) onto a regular file *)
Lemma simp_move wd w1 d src dst ov wd' ed wr' er :
  SimP wd w1 -> step_ok d src dst ->
  lookup (w_fs w1) (d ++ removelast (pp_parts dst)) = Some NDir ->
  (ov = false -> present (w_fs w1) (d ++ pp_parts dst) = false) ->
  (ov = true -> pp_parts src <> pp_parts dst) ->
  dry_tail wd d src dst ov = (wd', ed) -> move_tail w1 d src dst ov = (wr', er) ->
  ed = er /\ SimP wd' wr'.
Proof.
  intros S1 SO L1 Hfree Hne.
  pose proof (so_dir _ _ _ SO) as Hd0. pose proof (so_src _ _ _ SO) as Ps. pose proof (so_dst _ _ _ SO) as Dd.
  destruct (so_file _ _ _ SO) as [i0 Hfile].
  pose proof (dest_ok_ne _ _ _ Dd Hd0) as Hned.
  pose proof (pr_ne _ _ _ Ps) as Hnes.
  pose proof (step_src_nn _ _ _ SO) as Nns. pose proof (so_nn _ _ _ SO) as Nnd.
  assert (Hks : d ++ pp_parts src <> []) by (intros K; apply app_eq_nil in K as [_ K]; exact (Hnes K)).
  assert (Hkd : d ++ pp_parts dst <> []) by (intros K; apply app_eq_nil in K as [_ K]; exact (Hned K)).
  assert (Sks : skel s0 (d ++ pp_parts src) = None) by (unfold skel; rewrite Hfile; reflexivity).
  pose proof (sp_wf _ _ S1) as W.
  pose proof (SimP_dir_stays _ _ _ S1 Hd0) as Hd.
  pose proof (SimP_dest_ok _ _ _ _ _ S1 SO) as Dx.
  pose proof (SimP_plain_rel _ _ _ _ S1 Ps) as Ps1.
  assert (Pdst1 : plain_rel (w_fs w1) d dst).
  { constructor; [exact (do_root _ _ _ Dd) | exact Hned | exact (do_dd _ _ _ Dd) | exact (pr_ddd _ _ _ Ps) | exact (do_len _ _ _ Dd) | exact L1]. }
  assert (Lpar : lookup (w_fs w1) (removelast (d ++ pp_parts dst)) = Some NDir).
  { rewrite (removelast_app_ne _ _ Hned). exact L1. }
  unfold dry_tail, move_tail.
  rewrite (dry_exists_simp wd w1 d src S1 (pr_root _ _ _ Ps) (pr_dd _ _ _ Ps) (pr_len _ _ _ Ps) Hd0
             (plain_rel_dm _ _ _ W0 Ps) Hnes Nns).
  rewrite (dry_key_plain d src (pr_root _ _ _ Ps) (pr_dd _ _ _ Ps)), (dry_key_plain d dst (do_root _ _ _ Dd) (do_dd _ _ _ Dd)).
  rewrite present_lookup.
  assert (SrcFile : forall n, lookup (w_fs w1) (d ++ pp_parts src) = Some n -> exists i, n = NFile i).
  { intros n Ls. destruct (sp_skel _ _ S1 (d ++ pp_parts src)) as [K|[K _]]; [|exfalso; exact (Nns K)].
    rewrite Sks in K. unfold skel in K. rewrite Ls in K. destruct n as [i|i t|]; [exists i; reflexivity | discriminate | discriminate]. }
  destruct (lookup (w_fs w1) (d ++ pp_parts dst)) as [nd|] eqn:Ld.
  - (* the destination is taken: only with override, and by a regular file *)
    destruct ov; [|specialize (Hfree eq_refl); rewrite present_lookup, Ld in Hfree; discriminate].
    assert (exists j, nd = NFile j) as [j ->].
    { pose proof (do_free _ _ _ Dx) as K. unfold skel in K. rewrite Ld in K.
      destruct nd as [j|j t|]; [exists j; reflexivity | discriminate | discriminate]. }
    assert (Rd : resolve (w_fs w1) d (to_upath dst) false = WFound (d ++ pp_parts dst) (NFile j)).
    { rewrite (resolve_dm _ d dst W (do_root _ _ _ Dx) (do_dd _ _ _ Dx) (do_len _ _ _ Dx) Hd (do_dm _ _ _ Dx)), Ld. reflexivity. }
    assert (Mv : shutil_move_fs (w_fs w1) d (to_upath src) (to_upath dst) = os_rename (w_fs w1) d (to_upath src) (to_upath dst)).
    { unfold shutil_move_fs. rewrite (is_dir_of_found_file _ _ _ _ _ Rd). reflexivity. }
    rewrite Mv.
    destruct (lookup (w_fs w1) (d ++ pp_parts src)) as [n|] eqn:Ls; cbn [negb].
    + destruct (SrcFile n eq_refl) as [i ->].
      rewrite (os_rename_rel_replace _ _ _ _ i j W Ps1 Pdst1 Ls Ld (Hne eq_refl)). unfold sys. cbn [faulted].
      intros Ed Er; inversion Ed; inversion Er; subst. split; [reflexivity|].
      apply (SimP_step wd w1 _ _ _ i); try assumption.
      * intros E. apply app_inv_head in E. exact (Hne eq_refl E).
      * apply (remove_file_WF _ _ j); [assumption | apply lookup_In; assumption].
      * intros k. apply lookup_remove_key. assumption.
      * exact (do_free _ _ _ Dd).
    + rewrite (os_rename_rel_missing _ _ _ _ W Ps1 Pdst1 Ls). unfold sys. cbn [faulted].
      intros Ed Er; inversion Ed; inversion Er; subst. split; [reflexivity | apply SimP_add_call; assumption].
  - (* the destination is free *)
    assert (Hg : lexists (w_fs w1) d (to_upath dst) = false).
    { rewrite (lexists_dm _ d dst W (do_root _ _ _ Dx) (do_dd _ _ _ Dx) (do_len _ _ _ Dx) Hd (do_dm _ _ _ Dx)).
      rewrite present_lookup, Ld. reflexivity. }
    rewrite (shutil_move_free _ _ _ _ Hg).
    destruct (lookup (w_fs w1) (d ++ pp_parts src)) as [n|] eqn:Ls; cbn [negb].
    + destruct (SrcFile n eq_refl) as [i ->].
      rewrite (os_rename_rel_ok _ _ _ _ i W Ps1 Pdst1 Ls Ld). unfold sys. cbn [faulted].
      intros Ed Er; inversion Ed; inversion Er; subst. split; [reflexivity|].
      apply (SimP_step wd w1 _ _ _ i); try assumption.
      * intros E. rewrite E in Ls. congruence.
      * intros k. destruct (rpath_eqb k (d ++ pp_parts dst)) eqn:E; [|reflexivity].
        apply rpath_eqb_eq in E. subst k. assumption.
      * exact (do_free _ _ _ Dd).
    + rewrite (os_rename_rel_missing _ _ _ _ W Ps1 Pdst1 Ls). unfold sys. cbn [faulted].
      intros Ed Er; inversion Ed; inversion Er; subst. split; [reflexivity | apply SimP_add_call; assumption].
Qed.

(* (1) one call of the renamer in both worlds: same outcome, relation preserved *)
Lemma simp_renamer wd wr d src dst wd' ed wr' er :
  SimP wd wr -> step_ok d src dst ->
  renamer pD wd d src dst false = (wd', ed) -> renamer pR wr d src dst false = (wr', er) ->
  ed = er /\ SimP wd' wr'.
Proof.
  intros S SO.
  pose proof (so_dir _ _ _ SO) as Hd0. pose proof (so_dst _ _ _ SO) as Dd.
  pose proof (dest_ok_ne _ _ _ Dd Hd0) as Hned. pose proof (so_nn _ _ _ SO) as Nnd.
  assert (Hkd : d ++ pp_parts dst <> []) by (intros K; apply app_eq_nil in K as [_ K]; exact (Hned K)).
  pose proof (SimP_dest_ok _ _ _ _ _ S SO) as Dx.
  rewrite renamer_pD_eq, renamer_pR_eq. cbn [negb]. rewrite andb_true_r.
  rewrite (dry_exists_simp wd wr d dst S (do_root _ _ _ Dd) (do_dd _ _ _ Dd) (do_len _ _ _ Dd) Hd0 (do_dm _ _ _ Dd) Hned Nnd).
  rewrite (lexists_dm _ d dst (sp_wf _ _ S) (do_root _ _ _ Dx) (do_dd _ _ _ Dx) (do_len _ _ _ Dx)
             (SimP_dir_stays _ _ _ S Hd0) (do_dm _ _ _ Dx)).
  destruct (present (w_fs wr) (d ++ pp_parts dst)) eqn:Pd.
  { intros Ed Er; inversion Ed; inversion Er; subst. split; [reflexivity | assumption]. }
  destruct (simp_mkdir wd wr d src dst S SO) as [w1 [M1 [S1 L1]]]. rewrite M1.
  pose proof (SimP_dest_ok _ _ _ _ _ S1 SO) as Dx1.
  assert (Pd1 : present (w_fs w1) (d ++ pp_parts dst) = false).
  { rewrite <- (sp_inv _ _ S1 _ Hkd Nnd). rewrite (sp_inv _ _ S _ Hkd Nnd). exact Pd. }
  rewrite (lexists_dm _ d dst (sp_wf _ _ S1) (do_root _ _ _ Dx1) (do_dd _ _ _ Dx1) (do_len _ _ _ Dx1)
             (SimP_dir_stays _ _ _ S1 Hd0) (do_dm _ _ _ Dx1)), Pd1.
  apply (simp_move wd w1 d src dst false); try assumption; [intros _; exact Pd1 | discriminate].
Qed.

(* ... and with override *)
Lemma simp_renamer_ov wd wr d src dst wd' ed wr' er :
  SimP wd wr -> step_ok d src dst -> pp_parts src <> pp_parts dst ->
  renamer pD wd d src dst true = (wd', ed) -> renamer pR wr d src dst true = (wr', er) ->
  ed = er /\ SimP wd' wr'.
Proof.
  intros S SO Hne. rewrite renamer_pD_eq, renamer_pR_eq_ov. cbn [negb]. rewrite andb_false_r.
  destruct (simp_mkdir wd wr d src dst S SO) as [w1 [M1 [S1 L1]]]. rewrite M1.
  apply (simp_move wd w1 d src dst true); try assumption; [discriminate | intros _; exact Hne].
Qed.

(* ---------- the prompt: "ignore" / "stop" / end of input, or "override" where that is allowed --------------------- *)
Lemma simp_take_line wd wr ld wd1 lr wr1 :
  SimP wd wr -> take_line wd = (ld, wd1) -> take_line wr = (lr, wr1) ->
  ld = lr /\ SimP wd1 wr1 /\ (st = Manual -> forall a, lr = Some a -> answer_ok OVR False a).
Proof.
  intros S. unfold take_line. rewrite (sp_answers _ _ S).
  destruct (w_answers wr) as [|a rest] eqn:A; intros Ed Er; inversion Ed; inversion Er; subst.
  - split; [reflexivity|]. split; [assumption|]. intros _ b Hb. discriminate.
  - split; [reflexivity|]. split.
    + destruct S as [F1 F2 F3 F4 F5 F6 F7 F8 F9].
      constructor; cbn [w_fs w_created w_removed w_report w_answers w_prompts]; auto.
      intros M. pose proof (F9 M) as K. rewrite A in K. inversion K; assumption.
    + intros M b Hb. inversion Hb; subst. pose proof (sp_ok _ _ S M) as K. rewrite A in K. inversion K; assumption.
Qed.

Definition decision_simple (d : decision) : Prop :=
  d = DStrategy Ignore \/ d = DStrategy Stop \/ d = DEof \/ (d = DStrategy Override /\ OVR).

Lemma simp_prompt fuel wd wr dd wd1 dr wr1 :
  st = Manual -> SimP wd wr -> prompt fuel wd = (dd, wd1) -> prompt fuel wr = (dr, wr1) ->
  dd = dr /\ SimP wd1 wr1 /\ decision_simple dr.
Proof.
  intros M. revert wd wr. induction fuel as [|f IH]; intros wd wr S; cbn [prompt].
  - intros Ed Er; inversion Ed; inversion Er; subst. split; [reflexivity|]. split; [assumption | right; right; left; reflexivity].
  - destruct (take_line wd) as [ld wd2] eqn:Td. destruct (take_line wr) as [lr wr2] eqn:Tr.
    destruct (simp_take_line _ _ _ _ _ _ S Td Tr) as [El [S2 Ok]]. subst ld.
    destruct lr as [l|].
    + destruct (Ok M l eq_refl) as [HO [HC _]].
      destruct (parse_answer l) eqn:P.
      * intros Ed Er; inversion Ed; inversion Er; subst. split; [reflexivity|]. split; [assumption | left; reflexivity].
      * intros Ed Er; inversion Ed; inversion Er; subst. split; [reflexivity|]. split; [assumption | right; left; reflexivity].
      * intros Ed Er; inversion Ed; inversion Er; subst. split; [reflexivity|]. split; [assumption|].
        right; right; right. split; [reflexivity | exact (HO eq_refl)].
      * exfalso. exact (HC eq_refl).
      * apply IH. assumption.
    + intros Ed Er; inversion Ed; inversion Er; subst. split; [reflexivity|]. split; [assumption | right; right; left; reflexivity].
Qed.

(* ---------- conflict resolution and the two passes ---------------------------------------------------------------- *)
Definition bl_ok (b : backlog_entry) : Prop :=
  step_ok (fst (fst b)) (snd (fst b)) (snd b) /\ pp_parts (snd (fst b)) <> pp_parts (snd b).

Lemma simp_resolve_conflict wd wr d src dst wd' ed wr' er :
  SimP wd wr -> bl_ok (d, src, dst) ->
  resolve_conflict pD wd d src dst = (wd', ed) -> resolve_conflict pR wr d src dst = (wr', er) ->
  ed = er /\ SimP wd' wr'.
Proof.
  intros S [SO Hne]. cbn [fst snd] in SO, Hne. unfold resolve_conflict. cbn [pD pR c_strategy].
  destruct st eqn:St.
  - cbn [resolve_simple]. intros Ed Er; inversion Ed; inversion Er; subst. split; [reflexivity | assumption].
  - cbn [resolve_simple]. intros Ed Er; inversion Ed; inversion Er; subst. split; [reflexivity | assumption].
  - cbn [resolve_simple]. apply simp_renamer_ov; assumption.
  - rewrite (sp_answers _ _ S).
    destruct (prompt (Datatypes.S (length (w_answers wr))) wd) as [dd wd1] eqn:Pd1.
    destruct (prompt (Datatypes.S (length (w_answers wr))) wr) as [dr wr1] eqn:Pr1.
    destruct (simp_prompt _ _ _ _ _ _ _ St S Pd1 Pr1) as [E [S1 D]]. subst dd.
    destruct D as [-> | [-> | [-> | [-> _]]]]; cbn [resolve_simple];
      try (intros Ed Er; inversion Ed; inversion Er; subst; (split; [reflexivity | assumption])).
    apply simp_renamer_ov; assumption.
Qed.

Lemma chdir_simp wd wr d p :
  SimP wd wr -> lookup s0 d = Some NDir -> plain_rel s0 d p ->
  chdir (w_fs wd) d = Some d /\ chdir (w_fs wr) d = Some d.
Proof.
  intros S L P. rewrite (sp_fs _ _ S). split.
  - apply chdir_plain; [assumption | assumption | exact (pr_ddd _ _ _ P) | exact (plain_rel_dlen _ _ _ P)].
  - apply chdir_plain; [exact (sp_wf _ _ S) | exact (SimP_dir_stays _ _ _ S L) | exact (pr_ddd _ _ _ P) | exact (plain_rel_dlen _ _ _ P)].
Qed.

Lemma simp_second_pass bl : forall wd wr cwd wd' cd' ed wr' cr' er,
  Forall bl_ok bl -> SimP wd wr ->
  second_pass pD bl wd cwd = (wd', cd', ed) -> second_pass pR bl wr cwd = (wr', cr', er) ->
  ed = er /\ SimP wd' wr'.
Proof.
  induction bl as [|[[d src] dst] rest IH]; intros wd wr cwd wd' cd' ed wr' cr' er PB S; cbn [second_pass].
  - intros Ed Er; inversion Ed; inversion Er; subst. split; [reflexivity | assumption].
  - inversion PB as [|? ? BO PB']; subst. pose proof BO as [SO Hne]. cbn [fst snd] in SO, Hne.
    cbn [pD pR c_var fixed v_backlog_chdir].
    destruct (chdir_simp _ _ _ _ S (so_dir _ _ _ SO) (so_src _ _ _ SO)) as [-> ->].
    (* the tests run again before the entry is retried (F38) say yes in both worlds, as in the first pass *)
    set (f := {| pf_dir := d; pf_rel := src |}).
    pose proof (so_dir _ _ _ SO) as Ld. pose proof (so_src _ _ _ SO) as Ps.
    pose proof (so_dst _ _ _ SO) as Dd. pose proof (SimP_dest_ok _ _ _ _ _ S SO) as Dx.
    pose proof (pr_ddd _ _ _ Ps) as Hddd.
    rewrite (sp_fs _ _ S).
    assert (V0 : backlog_verify fixed s0 d src dst = None).
    { apply (backlog_verify_yes fixed s0 f dst).
      - exact (contained_dm s0 f dst Hddd Dd).
      - rewrite dest_parent_test_fixed. exact (dest_parent_contained_dm s0 f dst Ld Hddd Dd).
      - exact (parents_contained_dm s0 f dst W0 Ld Hddd Dd).
      - exact (source_contained_rel s0 f W0 Ps). }
    assert (Vr : backlog_verify fixed (w_fs wr) d src dst = None).
    { apply (backlog_verify_yes fixed (w_fs wr) f dst).
      - exact (contained_dm (w_fs wr) f dst Hddd Dx).
      - rewrite dest_parent_test_fixed. exact (dest_parent_contained_dm (w_fs wr) f dst (SimP_dir_stays _ _ _ S Ld) Hddd Dx).
      - exact (parents_contained_dm (w_fs wr) f dst (sp_wf _ _ S) (SimP_dir_stays _ _ _ S Ld) Hddd Dx).
      - exact (source_contained_rel (w_fs wr) f (sp_wf _ _ S) (SimP_plain_rel _ _ _ _ S Ps)). }
    rewrite V0, Vr. clear V0 Vr Dd Dx Ld Ps Hddd. clear f.
    destruct (renamer pD wd d src dst false) as [wd1 ed1] eqn:Rd.
    destruct (renamer pR wr d src dst false) as [wr1 er1] eqn:Rr.
    destruct (simp_renamer _ _ _ _ _ _ _ _ _ S SO Rd Rr) as [E S1]. subst er1.
    destruct ed1 as [e|]; [|apply IH; assumption].
    destruct (is_file_exists e).
    + destruct (resolve_conflict pD wd1 d src dst) as [wd2 ed2] eqn:Cd.
      destruct (resolve_conflict pR wr1 d src dst) as [wr2 er2] eqn:Cr.
      destruct (simp_resolve_conflict _ _ _ _ _ _ _ _ _ S1 BO Cd Cr) as [E2 S2]. subst er2.
      destruct ed2 as [e2|]; [|apply IH; assumption].
      intros Ed Er; inversion Ed; inversion Er; subst. split; [reflexivity | assumption].
    + intros Ed Er; inversion Ed; inversion Er; subst. split; [reflexivity | assumption].
Qed.

(* what a plan entry provides *)
Definition entry_step (e : pfile * rendered) : Prop :=
  plain_file s0 (fst e) /\
  match snd e with
  | RText t => step_ok (pf_dir (fst e)) (pf_rel (fst e)) (parse_path t)
  | RAbs _ => False
  | RRaise _ => True
  end.

Lemma plan_entry_step : plain_plan s0 plan -> Forall entry_step plan.
Proof.
  intros PP. apply Forall_forall. intros [f r] Hin. unfold plain_plan in PP. rewrite Forall_forall in PP.
  pose proof (PP _ Hin) as Pf. cbn [fst] in Pf. split; [exact Pf|]. cbn [fst snd].
  destruct r as [t|t|ex]; [| |exact I].
  - destruct (plain_file_rel _ _ Pf) as [Ld [Ps _]].
    destruct Pf as [_ [_ [_ [_ [_ [_ [Hi _]]]]]]].
    constructor; try assumption.
    + exact (entry_dest f t Hin).
    + intros [f' [t' [Hin' P]]]. destruct DO as [_ NA]. exact (NA f t f' t' Hin Hin' P).
    + intros k P. exists f, t. split; assumption.
  - destruct DO as [F _]. rewrite Forall_forall in F. exact (F _ Hin).
Qed.

Ltac fpp_done := split; [reflexivity | split; [reflexivity | split; [reflexivity | split; assumption]]].

(* (2) the first pass *)
Lemma simp_first_pass rest : forall wd wr cwd bl wd' cd' bd' ed wr' cr' br' er,
  Forall entry_step rest -> Forall bl_ok bl -> SimP wd wr ->
  first_pass pD rest wd cwd bl = (wd', cd', bd', ed) -> first_pass pR rest wr cwd bl = (wr', cr', br', er) ->
  ed = er /\ cd' = cr' /\ bd' = br' /\ Forall bl_ok bd' /\ SimP wd' wr'.
Proof.
  induction rest as [|[f r] rest IH]; intros wd wr cwd bl wd' cd' bd' ed wr' cr' br' er PE PB S; cbn [first_pass].
  - intros Ed Er; inversion Ed; inversion Er; subst. fpp_done.
  - inversion PE as [|? ? [Pf SOr] PE']; subst. cbn [fst snd] in Pf, SOr.
    destruct (plain_file_rel _ _ Pf) as [Ld [Ps _]].
    destruct (chdir_simp _ _ _ _ S Ld Ps) as [-> ->].
    cbn [pD pR c_mode c_var].
    destruct r as [t|t|ex]; [|contradiction|].
    2:{ cbn [generate]. intros Ed Er; inversion Ed; inversion Er; subst. fpp_done. }
    cbn [generate]. set (np := parse_path t) in *.
    destruct (ppath_eqb np (pf_rel f)) eqn:Same; [apply IH; assumption|].
    pose proof (so_dst _ _ _ SOr) as Dd.
    pose proof (SimP_dest_ok _ _ _ _ _ S SOr) as Dx.
    pose proof (pr_ddd _ _ _ Ps) as Hddd.
    rewrite (sp_fs _ _ S).
    rewrite (contained_dm s0 f np Hddd Dd).
    rewrite (contained_dm (w_fs wr) f np Hddd Dx).
    rewrite dest_parent_test_fixed, (dest_parent_contained_dm s0 f np Ld Hddd Dd).
    rewrite dest_parent_test_fixed, (dest_parent_contained_dm (w_fs wr) f np (SimP_dir_stays _ _ _ S Ld) Hddd Dx).
    rewrite (parents_contained_dm s0 f np W0 Ld Hddd Dd).
    rewrite (parents_contained_dm (w_fs wr) f np (sp_wf _ _ S) (SimP_dir_stays _ _ _ S Ld) Hddd Dx).
    rewrite (source_contained_rel s0 f W0 Ps), (source_contained_rel (w_fs wr) f (sp_wf _ _ S) (SimP_plain_rel _ _ _ _ S Ps)).
    destruct (renamer pD wd (pf_dir f) (pf_rel f) np false) as [wd1 ed1] eqn:Rd.
    destruct (renamer pR wr (pf_dir f) (pf_rel f) np false) as [wr1 er1] eqn:Rr.
    destruct (simp_renamer _ _ _ _ _ _ _ _ _ S SOr Rd Rr) as [E S1]. subst er1.
    destruct ed1 as [e|]; [|apply IH; assumption].
    destruct (is_file_exists e).
    + apply IH; try assumption. constructor; [|assumption]. split; [exact SOr|]. cbn [fst snd].
      intros E. apply (ppath_neq_parts np (pf_rel f)); [|exact Same | symmetry; exact E].
      rewrite (do_root _ _ _ Dd), (pr_root _ _ _ Ps). reflexivity.
    + intros Ed Er; inversion Ed; inversion Er; subst. fpp_done.
Qed.

Lemma simp_run cwd :
  plain_plan s0 plan ->
  r_status (run pD plan cwd s0) = r_status (run pR plan cwd s0) /\
  r_report (run pD plan cwd s0) = r_report (run pR plan cwd s0) /\
  r_prompts (run pD plan cwd s0) = r_prompts (run pR plan cwd s0) /\
  r_error (run pD plan cwd s0) = r_error (run pR plan cwd s0).
Proof.
  intros PP. unfold run. cbn [pD pR c_answers].
  destruct (first_pass pD plan (init_world s0 answers) cwd []) as [[[wd1 cd1] bd1] ed1] eqn:Fd.
  destruct (first_pass pR plan (init_world s0 answers) cwd []) as [[[wr1 cr1] br1] er1] eqn:Fr.
  destruct (simp_first_pass _ _ _ _ _ _ _ _ _ _ _ _ _ (plan_entry_step PP) (Forall_nil _) SimP_init Fd Fr)
    as [E [Ec [Eb [PB S1]]]].
  subst er1 cr1 br1.
  destruct ed1 as [e|].
  - cbn [r_status r_report r_prompts r_error]. rewrite (sp_report _ _ S1), (sp_prompts _ _ S1). auto.
  - destruct (second_pass pD bd1 wd1 cd1) as [[wd2 cd2] ed2] eqn:Sd.
    destruct (second_pass pR bd1 wr1 cd1) as [[wr2 cr2] er2] eqn:Sr.
    destruct (simp_second_pass _ _ _ _ _ _ _ _ _ _ PB S1 Sd Sr) as [E2 S2]. subst er2.
    cbn [r_status r_report r_prompts r_error]. rewrite (sp_report _ _ S2), (sp_prompts _ _ S2). auto.
Qed.

End PathSimulation.

(* ====================== C05, path mode ===================================================================== *)
(* the general form: OVR says whether a conflict may be resolved by overriding; "custom path" is never answered *)
Theorem dry_equals_real_path_mode_general : forall (OVR : Prop) c plan cwd s,
  c_mode c = MPath -> c_fault c = None -> c_var c = fixed -> WF s ->
  plain_plan s plan -> path_dests_ok s plan -> answers_ok OVR False c ->
  let d := run (cfg_set_dry c true) plan cwd s in
  let r := run (cfg_set_dry c false) plan cwd s in
  r_status d = r_status r /\ r_report d = r_report r /\ r_prompts d = r_prompts r /\ r_error d = r_error r.
Proof.
  intros OVR [m stg dry ans flt v] plan cwd s Hm Hf Hv W PP DO AO. cbn in Hm, Hf, Hv. subst m flt v.
  unfold answers_ok in AO. cbn [c_strategy c_answers] in AO.
  unfold cfg_set_dry. cbn [c_mode c_strategy c_answers c_fault c_var].
  exact (simp_run s plan stg ans OVR W DO AO cwd PP).
Qed.

(* stop / ignore / manual without "override" and "custom path" *)
Theorem dry_equals_real_path_mode : forall c plan cwd s,
  c_mode c = MPath -> c_fault c = None -> c_var c = fixed -> WF s ->
  plain_plan s plan -> path_dests_ok s plan -> no_override c ->
  let d := run (cfg_set_dry c true) plan cwd s in
  let r := run (cfg_set_dry c false) plan cwd s in
  r_status d = r_status r /\ r_report d = r_report r /\ r_prompts d = r_prompts r /\ r_error d = r_error r.
Proof.
  intros c plan cwd s Hm Hf Hv W PP DO NO.
  exact (dry_equals_real_path_mode_general False c plan cwd s Hm Hf Hv W PP DO (no_override_answers_ok c NO)).
Qed.

(* every strategy (override included), every answer at the manual prompt except "custom path" *)
Definition no_custom_path (c : cfg) : Prop :=
  match c_strategy c with Manual => Forall (fun a => parse_answer a <> ACustom) (c_answers c) | _ => True end.

Theorem dry_equals_real_path_mode_override : forall c plan cwd s,
  c_mode c = MPath -> c_fault c = None -> c_var c = fixed -> WF s ->
  plain_plan s plan -> path_dests_ok s plan -> no_custom_path c ->
  let d := run (cfg_set_dry c true) plan cwd s in
  let r := run (cfg_set_dry c false) plan cwd s in
  r_status d = r_status r /\ r_report d = r_report r /\ r_prompts d = r_prompts r /\ r_error d = r_error r.
Proof.
  intros c plan cwd s Hm Hf Hv W PP DO NC.
  assert (AO : answers_ok True False c).
  { unfold answers_ok, no_custom_path in *. destruct (c_strategy c); auto.
    eapply Forall_impl; [|exact NC]. intros a Ha. split; [auto | split; [exact Ha | intros []]]. }
  exact (dry_equals_real_path_mode_general True c plan cwd s Hm Hf Hv W PP DO AO).
Qed.
