(* C05, last sentence: the final tree equals the dry run's report applied to the initial tree.      *)
(* Name mode.                                                                                       *)
(*                                                                                                  *)
(* [apply_line d (src, dst, ovr) s] is defined without any reference to the pipeline: the two texts *)
(* of a report line are read back as paths ([parse_path], what Path(text) does), joined to the      *)
(* input directory d, and the entry (subtree) at the source key is re-keyed to the destination key  *)
(* ([rekey] of FS/Model.v); with ovr = true an entry already at the destination key is dropped      *)
(* first.  [apply_report d lines s] folds this over the lines, oldest first.                        *)
(*                                                                                                  *)
(* Method: the simulation of Pipe/DryEqualsReal.v is run once more, carrying in addition [Track]:   *)
(* the real world's tree is the report so far (each line paired with the input directory of the    *)
(* call that printed it) applied to the initial tree.  Every successful renamer call appends one    *)
(* line and changes the tree by exactly that line; every other step changes neither.                *)
From Tempren Require Import Base.Str Py.PathLib Py.PathLibProofs FS.Model FS.Lemmas FS.PlainPaths.
From Tempren Require Import Pipe.Pipeline Pipe.DestParent Pipe.DrySim Pipe.DryEqualsReal.
Open Scope N_scope.

(* ---------- a report applied to a tree --------------------------------------------------------- *)
Definition report_line := (str * str * bool)%type.       (* source text, destination text, override *)

(* the key a text of a report line names when read in the input directory d *)
Definition line_key (d : rpath) (text : str) : rpath := d ++ pp_parts (parse_path text).

Definition apply_line (d : rpath) (l : report_line) (s : fs) : fs :=
  let sk := line_key d (fst (fst l)) in
  let dk := line_key d (snd (fst l)) in
  rekey sk dk (if snd l then remove_key dk s else s).

(* all lines belong to the input directory d; oldest first *)
Definition apply_report (d : rpath) (lines : list report_line) (s : fs) : fs :=
  fold_left (fun acc l => apply_line d l acc) lines s.

(* the enriched report: every line comes with its input directory *)
Definition apply_report_in (dl : list (rpath * report_line)) (s : fs) : fs :=
  fold_left (fun acc x => apply_line (fst x) (snd x) acc) dl s.

(* the same on parsed paths *)
Definition apply_rename (d : rpath) (src dst : ppath) (ovr : bool) (s : fs) : fs :=
  rekey (d ++ pp_parts src) (d ++ pp_parts dst)
        (if ovr then remove_key (d ++ pp_parts dst) s else s).

(* the relative paths of the plan are what pathlib can produce: no empty part, no part ".", no "/"
   inside a part (so that str() followed by Path() gives the path back) *)
Definition normal_plan (plan : list (pfile * rendered)) : Prop :=
  Forall (fun fr => normal_rel (pf_rel (fst fr))) plan.

(* ---------- small facts ---------------------------------------------------------------------------- *)
Lemma apply_line_rename d src dst ovr s :
  normal_rel src -> normal_rel dst ->
  apply_line d (pp_str src, pp_str dst, ovr) s = apply_rename d src dst ovr s.
Proof.
  intros Ns Nd. unfold apply_line, apply_rename, line_key. cbn [fst snd].
  rewrite (parse_str_roundtrip _ Ns), (parse_str_roundtrip _ Nd). reflexivity.
Qed.

Lemma apply_report_in_const d : forall lines ds s,
  length ds = length lines -> Forall (eq d) ds ->
  apply_report_in (combine ds lines) s = apply_report d lines s.
Proof.
  induction lines as [|l lines IH]; intros ds s L F.
  - destruct ds; reflexivity.
  - destruct ds as [|d0 ds]; [discriminate|]. inversion F; subst.
    cbn [combine apply_report_in apply_report fold_left fst snd].
    apply IH; [simpl in L; lia | assumption].
Qed.

Lemma remove_key_absent k s : ~ In k (map fst s) -> remove_key k s = s.
Proof.
  unfold remove_key. induction s as [|[q n] s IH]; intros H; [reflexivity|].
  cbn [filter fst]. cbn [map fst In] in H.
  assert (E : rpath_eqb q k = false) by (apply rpath_eqb_neq; intros K; apply H; left; assumption).
  rewrite E. cbn [negb]. f_equal. apply IH. intros K. apply H. right. assumption.
Qed.

Lemma combine_app {A B} (a : list A) : forall (b : list B) c d,
  length a = length b -> combine (a ++ c) (b ++ d) = combine a b ++ combine c d.
Proof.
  induction a as [|x a IH]; intros [|y b] c d L; try discriminate; [reflexivity|].
  cbn [app combine]. f_equal. apply IH. simpl in L. lia.
Qed.

Lemma combine_rev {A B} (a : list A) : forall (b : list B),
  length a = length b -> combine (rev a) (rev b) = rev (combine a b).
Proof.
  induction a as [|x a IH]; intros [|y b] L; try discriminate; [reflexivity|].
  cbn [rev combine]. rewrite combine_app by (rewrite !rev_length; simpl in L; lia).
  rewrite IH by (simpl in L; lia). reflexivity.
Qed.

Lemma split_on_parts_noslash s : forall x, In x (split_on slash s) -> has_slash x = false.
Proof.
  induction s as [|c s IH]; intros x Hx.
  - destruct Hx as [<-|[]]. reflexivity.
  - cbn [split_on] in Hx. destruct (c =? slash) eqn:E.
    + destruct Hx as [<-|Hx]; [reflexivity | apply IH; assumption].
    + destruct (split_on slash s) as [|p ps].
      * destruct Hx as [<-|[]]. cbn [has_slash existsb]. rewrite E. reflexivity.
      * destruct Hx as [<-|Hx].
        -- cbn [has_slash existsb]. rewrite E. cbn [orb]. apply (IH p). left; reflexivity.
        -- apply IH. right. assumption.
Qed.

Lemma parse_path_parts_good s x : In x (pp_parts (parse_path s)) -> good_part x.
Proof.
  unfold parse_path. destruct s as [|c s]; [intros []|].
  destruct (splitroot (c :: s)) as [r rel]. cbn [pp_parts]. intros H.
  apply filter_In in H as [H K]. split; [assumption|]. exact (split_on_parts_noslash _ _ H).
Qed.

Lemma keep_part_false n : keep_part n = false -> n = [] \/ n = [dot].
Proof.
  intros H. destruct n as [|c r]; [left; reflexivity|]. right.
  destruct c as [|q]; [discriminate H|].
  do 6 (destruct q as [q|q|]; try discriminate H).
  destruct r; [reflexivity | discriminate H].
Qed.

(* the new path of name mode is normal when the old one is *)
Lemma generate_normal f r np :
  generate MName f r = inl np -> normal_rel (pf_rel f) -> normal_rel np.
Proof.
  destruct r as [t|t|e]; cbn [generate]; try discriminate.
  destruct (pp_with_name (pf_rel f) t) as [p|] eqn:E; [|discriminate].
  intros H [Hr [Hne Hall]]. inversion H; subst p.
  assert (G : good_part t).
  { assert (NR : pp_with_name (pf_rel f) t <> None) by congruence.
    rewrite with_name_refuses in NR. split.
    - destruct (keep_part t) eqn:K; [reflexivity|]. exfalso. apply NR.
      destruct (keep_part_false _ K) as [->| ->]; [right; left; reflexivity | right; right; left; reflexivity].
    - destruct (has_slash t) eqn:K; [|reflexivity]. exfalso. apply NR. right; right; right. reflexivity. }
  revert E. unfold pp_with_name. destruct (pp_parts (pf_rel f)) as [|x xs] eqn:Ep; [discriminate|].
  destruct (match t with [] => true | [46] => true | _ => has_slash t end); [discriminate|].
  intros E. inversion E; subst np. split; [|split]; cbn [pp_root pp_parts].
  - assumption.
  - intros K. apply app_eq_nil in K as [_ K]. discriminate K.
  - intros y Hy. apply in_app_or in Hy as [Hy|[<-|[]]]; [|assumption].
    apply Hall. change (In y (removelast (x :: xs))) in Hy. apply In_removelast in Hy. assumption.
Qed.

Lemma single_name_normal a q :
  parse_path a = {| pp_root := 0%nat; pp_parts := [q] |} -> normal_rel {| pp_root := 0%nat; pp_parts := [q] |}.
Proof.
  intros E. split; [reflexivity|]. split; [discriminate|]. cbn [pp_parts]. intros x [<-|[]].
  apply (parse_path_parts_good a). rewrite E. left. reflexivity.
Qed.

Lemma take_line_same w l w1 : take_line w = (l, w1) -> w_fs w1 = w_fs w /\ w_report w1 = w_report w.
Proof.
  unfold take_line. destruct (w_answers w); intros E; inversion E; subst; split; reflexivity.
Qed.

Lemma prompt_same fuel : forall w d w1, prompt fuel w = (d, w1) -> w_fs w1 = w_fs w /\ w_report w1 = w_report w.
Proof.
  induction fuel as [|f IH]; intros w d w1; cbn [prompt].
  - intros E; inversion E; subst. split; reflexivity.
  - destruct (take_line w) as [[l|] w2] eqn:T; destruct (take_line_same _ _ _ T) as [A B].
    + destruct (parse_answer l).
      * intros E; inversion E; subst. split; assumption.
      * intros E; inversion E; subst. split; assumption.
      * intros E; inversion E; subst. split; assumption.
      * destruct (take_line w2) as [[p|] w3] eqn:T2; destruct (take_line_same _ _ _ T2) as [A2 B2];
          intros E; inversion E; subst; split; congruence.
      * intros E. destruct (IH _ _ _ E) as [A3 B3]. split; congruence.
    + intros E; inversion E; subst. split; assumption.
Qed.

(* ---------- the enriched report: the input directory of every report line ---------------------------- *)
(* A twin of [run] that follows the same control flow and records, for every successful call of the     *)
(* renamer (= every report line), the directory cwd1 the call was made in.  Newest first inside, oldest  *)
(* first in [report_dirs], like [r_report].                                                             *)
Definition renamer_dirs (c : cfg) (w : world) (cwd : rpath) (src dst : ppath) (override : bool)
           (ds : list rpath) : list rpath :=
  match renamer c w cwd src dst override with
  | (_, None) => cwd :: ds
  | (_, Some _) => ds
  end.

Definition resolve_simple_dirs (c : cfg) (st : strategy) (w : world) (cwd : rpath) (src dst : ppath)
           (ds : list rpath) : list rpath :=
  match st with
  | Override => renamer_dirs c w cwd src dst true ds
  | _ => ds
  end.

Definition resolve_conflict_dirs (c : cfg) (w : world) (cwd : rpath) (src dst : ppath) (ds : list rpath)
  : list rpath :=
  match c_strategy c with
  | Manual =>
    match prompt (S (length (w_answers w))) w with
    | (DStrategy st, w1) => resolve_simple_dirs c st w1 cwd src dst ds
    | (DPath p, w1) => renamer_dirs c w1 cwd src (parse_path p) false ds
    | (DEof, w1) => ds
    end
  | st => resolve_simple_dirs c st w cwd src dst ds
  end.

Fixpoint first_pass_dirs (c : cfg) (plan : list (pfile * rendered)) (w : world) (cwd : rpath)
         (backlog : list backlog_entry) (ds : list rpath) : list rpath :=
  match plan with
  | [] => ds
  | (f, r) :: rest =>
    match chdir (w_fs w) (pf_dir f) with
    | None => ds
    | Some cwd1 =>
      match generate (c_mode c) f r with
      | inr e => ds
      | inl np =>
        if ppath_eqb np (pf_rel f) then first_pass_dirs c rest w cwd1 backlog ds
        else match contained (c_var c) (w_fs w) f np with
             | None => ds
             | Some false => ds
             | Some true =>
               match dest_parent_test (c_var c) (w_fs w) f np with
               | None => ds
               | Some false => ds
               | Some true =>
               match parents_contained (w_fs w) f np with
               | None => ds
               | Some false => ds
               | Some true =>
               match source_contained (w_fs w) f with
               | None => ds
               | Some false => ds
               | Some true =>
               match renamer c w cwd1 (pf_rel f) np false with
               | (w1, None) => first_pass_dirs c rest w1 cwd1 backlog (cwd1 :: ds)
               | (w1, Some e) =>
                 if is_file_exists e then first_pass_dirs c rest w1 cwd1 ((pf_dir f, pf_rel f, np) :: backlog) ds
                 else ds
               end
               end
               end
               end
             end
      end
    end
  end.

Fixpoint second_pass_dirs (c : cfg) (backlog : list backlog_entry) (w : world) (cwd : rpath)
         (ds : list rpath) : list rpath :=
  match backlog with
  | [] => ds
  | (d, src, dst) :: rest =>
    match (if v_backlog_chdir (c_var c) then chdir (w_fs w) d else Some cwd) with
    | None => ds
    | Some cwd1 =>
      match backlog_verify (c_var c) (w_fs w) d src dst with
      | Some _ => ds
      | None =>
      match renamer c w cwd1 src dst false with
      | (w1, None) => second_pass_dirs c rest w1 cwd1 (cwd1 :: ds)
      | (w1, Some e) =>
        if is_file_exists e then
          match resolve_conflict c w1 cwd1 src dst with
          | (w2, None) => second_pass_dirs c rest w2 cwd1 (resolve_conflict_dirs c w1 cwd1 src dst ds)
          | (w2, Some e2) => resolve_conflict_dirs c w1 cwd1 src dst ds
          end
        else ds
      end
      end
    end
  end.

Definition report_dirs (c : cfg) (plan : list (pfile * rendered)) (start_cwd : rpath) (s : fs) : list rpath :=
  let w0 := init_world s (c_answers c) in
  let '(w1, cwd1, backlog, e1) := first_pass c plan w0 start_cwd [] in
  let ds1 := first_pass_dirs c plan w0 start_cwd [] [] in
  rev (match e1 with
       | Some _ => ds1
       | None => second_pass_dirs c backlog w1 cwd1 ds1
       end).

(* ---------- the tracking invariant ------------------------------------------------------------------- *)
Section Track.
Variable s0 : fs.                         (* the initial tree *)
Variable st : strategy.
Variable answers : list str.
Variables OVR CUS : Prop.
Variable P : rpath -> str -> Prop.        (* "the plan has a file in this input directory printed as this text" *)
Hypothesis W0 : WF s0.
Hypothesis st_ok :
  match st with Stop | Ignore => True | Manual => Forall (answer_ok OVR CUS) answers | Override => OVR end.

Notation SimR := (Sim s0 st OVR CUS).
Notation cDry := (cD st answers).
Notation cReal := (cR st answers).

(* newest first, like [w_report] *)
Definition apply_newest_first (dl : list (rpath * report_line)) : fs :=
  fold_right (fun x acc => apply_line (fst x) (snd x) acc) s0 dl.

Definition line_ok (x : rpath * report_line) : Prop := P (fst x) (fst (fst (snd x))).

Record Track (ds : list rpath) (w : world) : Prop := {
  tr_len : length ds = length (w_report w);
  tr_dirs : Forall line_ok (combine ds (w_report w));
  tr_fs : w_fs w = apply_newest_first (combine ds (w_report w))
}.

Lemma Track_init : Track [] (init_world s0 answers).
Proof. constructor; cbn [init_world w_fs w_report]; [reflexivity | constructor | reflexivity]. Qed.

Lemma Track_same ds w w' : w_fs w' = w_fs w -> w_report w' = w_report w -> Track ds w -> Track ds w'.
Proof. intros A B [L D F]. constructor; rewrite ?A, ?B; assumption. Qed.

Lemma Track_push ds w d src dst ovr cl :
  Track ds w -> P d (pp_str src) -> normal_rel src -> normal_rel dst ->
  Track (d :: ds) (add_report (set_fs w (apply_rename d src dst ovr (w_fs w)) cl) src dst ovr).
Proof.
  intros [L D F] Pd Ns Nd. constructor; cbn [add_report set_fs w_fs w_report].
  - simpl. rewrite L. reflexivity.
  - cbn [combine]. constructor; assumption.
  - cbn [combine apply_newest_first fold_right fst snd].
    rewrite (apply_line_rename _ _ _ _ _ Ns Nd). f_equal. exact F.
Qed.

Definition norm_entry (b : backlog_entry) : Prop :=
  P (fst (fst b)) (pp_str (snd (fst b))) /\ normal_rel (snd (fst b)) /\ normal_rel (snd b).

Definition pushed (d : rpath) (e : option exn) (ds : list rpath) : list rpath :=
  match e with None => d :: ds | Some _ => ds end.

Lemma renamer_dirs_eq c w cwd src dst ov ds w1 e :
  renamer c w cwd src dst ov = (w1, e) -> renamer_dirs c w cwd src dst ov ds = pushed cwd e ds.
Proof. unfold renamer_dirs. intros ->. destruct e; reflexivity. Qed.

(* one call of the real renamer: either it fails and nothing changes, or it succeeds, one line is printed
   and the tree changes by exactly that line *)
Lemma track_renamer wd wr d src dst ov wr' er ds :
  SimR wd wr -> plain_rel s0 d src -> plain_rel s0 d dst -> skel s0 (d ++ pp_parts src) = None ->
  (ov = true -> skel s0 (d ++ pp_parts dst) = None /\ pp_parts src <> pp_parts dst) ->
  P d (pp_str src) -> normal_rel src -> normal_rel dst ->
  renamer cReal wr d src dst ov = (wr', er) -> Track ds wr -> Track (pushed d er ds) wr'.
Proof.
  intros S Ps Pd Hsk Hov PD Ns Nd.
  pose proof (sim_wf _ _ _ _ _ _ S) as W.
  pose proof (plain_rel_transfer _ _ _ _ (sim_skel _ _ _ _ _ _ S) Ps) as Ps'.
  pose proof (plain_rel_transfer _ _ _ _ (sim_skel _ _ _ _ _ _ S) Pd) as Pd'.
  rewrite renamer_real_eq, (lexists_rel _ _ _ W Pd'), present_lookup.
  assert (SrcFile : forall n, lookup (w_fs wr) (d ++ pp_parts src) = Some n -> exists i, n = NFile i).
  { intros n Ls. pose proof (sim_skel _ _ _ _ _ _ S (d ++ pp_parts src)) as K. rewrite Hsk in K. unfold skel in K. rewrite Ls in K.
    destruct n as [i|i t|]; [exists i; reflexivity | discriminate | discriminate]. }
  destruct (lookup (w_fs wr) (d ++ pp_parts dst)) as [nd|] eqn:Ld.
  - destruct ov; cbn [negb andb].
    2:{ intros Er T; inversion Er; subst. exact T. }
    destruct (Hov eq_refl) as [Hskd Hne].
    assert (Skd : skel (w_fs wr) (d ++ pp_parts dst) = None) by (rewrite (sim_skel _ _ _ _ _ _ S); assumption).
    assert (exists j, nd = NFile j) as [j ->].
    { unfold skel in Skd. rewrite Ld in Skd. destruct nd as [j|j t|]; [exists j; reflexivity | discriminate | discriminate]. }
    destruct (ppath_eqb (pp_parent src) (pp_parent dst)); cbn [negb].
    2:{ intros Er T; inversion Er; subst. exact T. }
    destruct (lookup (w_fs wr) (d ++ pp_parts src)) as [n|] eqn:Ls.
    + destruct (SrcFile n eq_refl) as [i ->].
      rewrite (os_rename_rel_replace _ _ _ _ i j W Ps' Pd' Ls Ld Hne).
      intros Er T; inversion Er; subst.
      exact (Track_push ds wr d src dst true (CRename, COk) T PD Ns Nd).
    + rewrite (os_rename_rel_missing _ _ _ _ W Ps' Pd' Ls).
      intros Er T; inversion Er; subst. apply (Track_same ds wr); [reflexivity | reflexivity | exact T].
  - rewrite andb_false_r.
    destruct (ppath_eqb (pp_parent src) (pp_parent dst)); cbn [negb].
    2:{ intros Er T; inversion Er; subst. exact T. }
    destruct (lookup (w_fs wr) (d ++ pp_parts src)) as [n|] eqn:Ls.
    + destruct (SrcFile n eq_refl) as [i ->].
      rewrite (os_rename_rel_ok _ _ _ _ i W Ps' Pd' Ls Ld).
      intros Er T; inversion Er; subst.
      pose proof (Track_push ds wr d src dst ov (CRename, COk) T PD Ns Nd) as K.
      unfold apply_rename in K. destruct ov; [|exact K].
      rewrite (remove_key_absent _ _ (lookup_None_notin _ _ Ld)) in K. exact K.
    + rewrite (os_rename_rel_missing _ _ _ _ W Ps' Pd' Ls).
      intros Er T; inversion Er; subst. apply (Track_same ds wr); [reflexivity | reflexivity | exact T].
Qed.

Lemma track_resolve_conflict wd wr d src dst wd' ed wr' er ds :
  SimR wd wr -> plain_entry s0 OVR (d, src, dst) -> norm_entry (d, src, dst) ->
  resolve_conflict cDry wd d src dst = (wd', ed) -> resolve_conflict cReal wr d src dst = (wr', er) ->
  Track ds wr ->
  resolve_conflict_dirs cDry wd d src dst ds = resolve_conflict_dirs cReal wr d src dst ds /\
  Track (resolve_conflict_dirs cReal wr d src dst ds) wr'.
Proof.
  intros S PE [PD [Ns Nd]]. cbn [fst snd] in PD, Ns, Nd.
  unfold plain_entry in PE. cbn [fst snd] in PE. destruct PE as [Ld [Ps [Hsk [Hdst Hrt]]]].
  assert (Ovr : OVR -> forall wd0 wr0 wd1 e1 wr1 e2 ds0, SimR wd0 wr0 ->
            renamer cDry wd0 d src dst true = (wd1, e1) -> renamer cReal wr0 d src dst true = (wr1, e2) ->
            Track ds0 wr0 ->
            renamer_dirs cDry wd0 d src dst true ds0 = renamer_dirs cReal wr0 d src dst true ds0 /\
            Track (renamer_dirs cReal wr0 d src dst true ds0) wr1).
  { intros O wd0 wr0 wd1 e1 wr1 e2 ds0 S0 Rd Rr T0. destruct Hdst as [[Pd Hov]|[_ NO]]; [|contradiction].
    assert (HO : true = true -> skel s0 (d ++ pp_parts dst) = None /\ pp_parts src <> pp_parts dst) by (intros _; exact (Hov O)).
    destruct (sim_renamer s0 st answers OVR CUS W0 _ _ _ _ _ _ _ _ _ _ S0 Ps Pd Hsk HO Rd Rr) as [E _].
    rewrite (renamer_dirs_eq _ _ _ _ _ _ _ _ _ Rd), (renamer_dirs_eq _ _ _ _ _ _ _ _ _ Rr). subst e1.
    split; [reflexivity|]. exact (track_renamer _ _ _ _ _ _ _ _ _ S0 Ps Pd Hsk HO PD Ns Nd Rr T0). }
  unfold resolve_conflict, resolve_conflict_dirs. cbn [cD cR c_strategy].
  destruct st eqn:St.
  - cbn [resolve_simple resolve_simple_dirs]. intros Ed Er T; inversion Er; subst. split; [reflexivity | exact T].
  - cbn [resolve_simple resolve_simple_dirs]. intros Ed Er T; inversion Er; subst. split; [reflexivity | exact T].
  - cbn [resolve_simple resolve_simple_dirs]. intros Ed Er T. exact (Ovr st_ok _ _ _ _ _ _ _ S Ed Er T).
  - rewrite (sim_answers _ _ _ _ _ _ S).
    destruct (prompt (Datatypes.S (length (w_answers wr))) wd) as [dd wd1] eqn:Pd1.
    destruct (prompt (Datatypes.S (length (w_answers wr))) wr) as [dr wr1] eqn:Pr1.
    destruct (sim_prompt s0 Manual OVR CUS _ _ _ _ _ _ _ eq_refl S Pd1 Pr1) as [E [S1 D]]. subst dd.
    destruct (prompt_same _ _ _ _ Pr1) as [A B].
    destruct dr as [[| | |]|pth|]; cbn [decision_ok] in D; cbn [resolve_simple resolve_simple_dirs].
    + intros Ed Er T; inversion Er; subst. split; [reflexivity | exact (Track_same _ _ _ A B T)].
    + intros Ed Er T; inversion Er; subst. split; [reflexivity | exact (Track_same _ _ _ A B T)].
    + intros Ed Er T. exact (Ovr D _ _ _ _ _ _ _ S1 Ed Er (Track_same _ _ _ A B T)).
    + contradiction.
    + destruct D as [q [Eq Hq]]. rewrite Eq. intros Ed Er T.
      assert (Pq : plain_rel s0 d {| pp_root := 0%nat; pp_parts := [q] |}) by exact (plain_rel_single _ _ _ _ Ld Ps Hq).
      assert (NoOv : false = true -> skel s0 (d ++ pp_parts {| pp_root := 0%nat; pp_parts := [q] |}) = None /\
                                      pp_parts src <> pp_parts {| pp_root := 0%nat; pp_parts := [q] |}) by discriminate.
      destruct (sim_renamer s0 Manual answers OVR CUS W0 _ _ _ _ _ _ _ _ _ _ S1 Ps Pq Hsk NoOv Ed Er) as [E _].
      rewrite (renamer_dirs_eq _ _ _ _ _ _ _ _ _ Ed), (renamer_dirs_eq _ _ _ _ _ _ _ _ _ Er). subst ed.
      split; [reflexivity|].
      apply (track_renamer wd1 wr1 d src {| pp_root := 0%nat; pp_parts := [q] |} false wr' er ds); try assumption; try (rewrite St; assumption).
      * exact (single_name_normal _ _ Eq).
      * exact (Track_same _ _ _ A B T).
    + intros Ed Er T; inversion Er; subst. split; [reflexivity | exact (Track_same _ _ _ A B T)].
Qed.

Lemma track_second_pass bl : forall wd wr cwd wd' cd' ed wr' cr' er ds,
  Forall (plain_entry s0 OVR) bl -> Forall norm_entry bl -> SimR wd wr ->
  second_pass cDry bl wd cwd = (wd', cd', ed) -> second_pass cReal bl wr cwd = (wr', cr', er) ->
  Track ds wr ->
  second_pass_dirs cDry bl wd cwd ds = second_pass_dirs cReal bl wr cwd ds /\
  Track (second_pass_dirs cReal bl wr cwd ds) wr'.
Proof.
  induction bl as [|[[d src] dst] rest IH]; intros wd wr cwd wd' cd' ed wr' cr' er ds PB NB S; cbn [second_pass second_pass_dirs].
  - intros Ed Er T; inversion Er; subst. split; [reflexivity | exact T].
  - inversion PB as [|? ? PE PB']; subst. inversion NB as [|? ? NE NB']; subst. pose proof PE as PE0. pose proof NE as NE0.
    unfold plain_entry in PE. cbn [fst snd] in PE. destruct PE as [Ld [Ps [Hsk [Hdst Hrt]]]].
    destruct NE as [PD [Ns Nd]]. cbn [fst snd] in PD, Ns, Nd.
    cbn [cD cR c_var fixed v_backlog_chdir].
    destruct (chdir_sim _ _ _ _ W0 _ _ _ _ S Ld Ps) as [-> ->].
    unfold retest_ok in Hrt. cbn [fst snd] in Hrt.
    rewrite (sim_fs _ _ _ _ _ _ S).
    rewrite (Hrt s0 W0 (fun k => eq_refl)), (Hrt (w_fs wr) (sim_wf _ _ _ _ _ _ S) (sim_skel _ _ _ _ _ _ S)).
    destruct (renamer cDry wd d src dst false) as [wd1 ed1] eqn:Rd.
    destruct (renamer cReal wr d src dst false) as [wr1 er1] eqn:Rr.
    assert (R : ed1 = er1 /\ SimR wd1 wr1 /\ forall ds0, Track ds0 wr -> Track (pushed d er1 ds0) wr1).
    { destruct Hdst as [[Pd Hov]|[[pre Pdd] NO]].
      - destruct (sim_renamer s0 st answers OVR CUS W0 wd wr d src dst false wd1 ed1 wr1 er1) as [E S1]; try assumption; [discriminate|].
        split; [assumption|]. split; [assumption|]. intros ds0 T0.
        apply (track_renamer wd wr d src dst false wr1 er1 ds0); try assumption. discriminate.
      - destruct (sim_renamer_dd s0 st answers OVR CUS W0 wd wr d src dst pre S Pdd) as [Xd Xr].
        rewrite Xd in Rd. rewrite Xr in Rr. inversion Rd; inversion Rr; subst.
        split; [reflexivity|]. split; [assumption|]. intros ds0 T0. exact T0. }
    destruct R as [E [S1 TR]]. subst er1.
    destruct ed1 as [e|].
    2:{ intros Ed Er T. exact (IH _ _ _ _ _ _ _ _ _ (d :: ds) PB' NB' S1 Ed Er (TR ds T)). }
    destruct (is_file_exists e).
    + destruct (resolve_conflict cDry wd1 d src dst) as [wd2 ed2] eqn:Cd.
      destruct (resolve_conflict cReal wr1 d src dst) as [wr2 er2] eqn:Cr.
      destruct (sim_resolve_conflict s0 st answers OVR CUS W0 st_ok _ _ _ _ _ _ _ _ _ S1 PE0 Cd Cr) as [E2 S2]. subst er2.
      intros Ed Er T.
      destruct (track_resolve_conflict _ _ _ _ _ _ _ _ _ ds S1 PE0 NE0 Cd Cr (TR ds T)) as [ED T2]. rewrite ED.
      destruct ed2 as [e2|].
      * inversion Er; subst. split; [reflexivity | exact T2].
      * exact (IH _ _ _ _ _ _ _ _ _ _ PB' NB' S2 Ed Er T2).
    + intros Ed Er T; inversion Er; subst. split; [reflexivity | exact (TR ds T)].
Qed.

Ltac fp_exit T := let Ed := fresh in let Er := fresh in
  intros Ed Er T; inversion Er; subst; split; [assumption | split; [reflexivity | exact T]].

Lemma track_first_pass plan : forall wd wr cwd bl wd' cd' bd' ed wr' cr' br' er ds,
  plain_plan s0 plan -> dest_not_link s0 plan ->
  (OVR -> no_dotdot_names plan) -> (OVR -> dest_replaceable s0 plan) ->
  normal_plan plan -> Forall (fun fr => P (pf_dir (fst fr)) (pp_str (pf_rel (fst fr)))) plan ->
  Forall (plain_entry s0 OVR) bl -> Forall norm_entry bl -> SimR wd wr ->
  first_pass cDry plan wd cwd bl = (wd', cd', bd', ed) -> first_pass cReal plan wr cwd bl = (wr', cr', br', er) ->
  Track ds wr ->
  Forall norm_entry br' /\
  first_pass_dirs cDry plan wd cwd bl ds = first_pass_dirs cReal plan wr cwd bl ds /\
  Track (first_pass_dirs cReal plan wr cwd bl ds) wr'.
Proof.
  induction plan as [|[f r] rest IH]; intros wd wr cwd bl wd' cd' bd' ed wr' cr' br' er ds PP NL ND DR NP PDs PB NB S;
    cbn [first_pass first_pass_dirs].
  - fp_exit T.
  - inversion PP as [|? ? Pf PP']; subst. inversion NL as [|? ? Lf NL']; subst.
    inversion NP as [|? ? Nf NP']; subst. inversion PDs as [|? ? PD PDs']; subst.
    assert (ND' : OVR -> no_dotdot_names rest) by (intros O; pose proof (ND O) as K; inversion K; assumption).
    assert (DR' : OVR -> dest_replaceable s0 rest) by (intros O; pose proof (DR O) as K; inversion K; assumption).
    cbn [fst snd] in Pf, Lf, Nf, PD.
    destruct (plain_file_rel _ _ Pf) as [Ld [Ps Hsk]].
    destruct (chdir_sim _ _ _ _ W0 _ _ _ _ S Ld Ps) as [-> ->].
    cbn [cD cR c_mode c_var].
    destruct (generate MName f r) as [np|ex] eqn:G.
    2:{ fp_exit T. }
    pose proof (generate_normal _ _ _ G Nf) as Nnp.
    destruct (generate_name _ _ _ G) as [t [-> Enp]].
    destruct (ppath_eqb np (pf_rel f)) eqn:Same; [apply IH; assumption|].
    rewrite (sim_fs _ _ _ _ _ _ S).
    destruct (name_eqb t dotdot) eqn:Tdd.
    + apply name_eqb_eq in Tdd. subst t.
      assert (NO : ~ OVR).
      { intros O. pose proof (ND O) as K. inversion K as [|? ? Kf K']. cbn [fst snd] in Kf. apply Kf. reflexivity. }
      assert (Pdd : dd_rel s0 (pf_dir f) np (removelast (pp_parts (pf_rel f)))) by (rewrite Enp; apply dd_rel_dest; assumption).
      pose proof (dd_rel_transfer _ _ _ _ _ (sim_skel _ _ _ _ _ _ S) Pdd) as Pdd'.
      rewrite (contained_dd s0 f np _ W0 Pdd), (contained_dd (w_fs wr) f np _ (sim_wf _ _ _ _ _ _ S) Pdd').
      destruct (is_prefix_path (pf_dir f) (removelast (pf_dir f ++ removelast (pp_parts (pf_rel f))))) eqn:IP.
      2:{ fp_exit T. }
      assert (RT : retest_ok s0 (pf_dir f, pf_rel f, np)) by exact (retest_ok_dd s0 f _ np _ G Ps Pdd IP).
      rewrite (dest_parent_test_generated fixed _ s0 f _ np G eq_refl (source_contained_rel s0 f W0 Ps)),
              (dest_parent_test_generated fixed _ (w_fs wr) f _ np G eq_refl (source_contained_rel (w_fs wr) f (sim_wf _ _ _ _ _ _ S) (plain_rel_transfer _ _ _ _ (sim_skel _ _ _ _ _ _ S) Ps))).
      rewrite (parents_contained_dd s0 f np _ W0 Pdd), (parents_contained_dd (w_fs wr) f np _ (sim_wf _ _ _ _ _ _ S) Pdd').
      rewrite (source_contained_rel s0 f W0 Ps),
              (source_contained_rel (w_fs wr) f (sim_wf _ _ _ _ _ _ S) (plain_rel_transfer _ _ _ _ (sim_skel _ _ _ _ _ _ S) Ps)).
      destruct (sim_renamer_dd s0 st answers OVR CUS W0 wd wr (pf_dir f) (pf_rel f) np _ S Pdd) as [-> ->].
      cbn [is_file_exists].
      apply IH; try assumption.
      * constructor; [|assumption]. unfold plain_entry. cbn [fst snd].
        split; [|split; [|split; [|split]]]; try assumption.
        right. split; [exists (removelast (pp_parts (pf_rel f))); assumption | assumption].
      * constructor; [|assumption]. split; [|split]; assumption.
    + assert (Ht : t <> dotdot) by (intros E; apply name_eqb_eq in E; congruence).
      assert (Pd : plain_rel s0 (pf_dir f) np) by (rewrite Enp; apply plain_rel_dest; assumption).
      assert (NLd : not_link (lookup s0 (pf_dir f ++ pp_parts np))) by (rewrite Enp; exact Lf).
      rewrite (contained_rel s0 f np W0 Pd NLd).
      assert (Pd' : plain_rel (w_fs wr) (pf_dir f) np) by exact (plain_rel_transfer _ _ _ _ (sim_skel _ _ _ _ _ _ S) Pd).
      assert (NLr : not_link (lookup (w_fs wr) (pf_dir f ++ pp_parts np))).
      { intros i tg K. apply skel_link in K. rewrite (sim_skel _ _ _ _ _ _ S) in K. apply skel_link in K. exact (NLd i tg K). }
      rewrite (contained_rel (w_fs wr) f np (sim_wf _ _ _ _ _ _ S) Pd' NLr).
      destruct (is_prefix_path (pf_dir f) (pf_dir f ++ pp_parts np)) eqn:IP.
      2:{ fp_exit T. }
      assert (RT : retest_ok s0 (pf_dir f, pf_rel f, np)) by exact (retest_ok_plain s0 f _ np G Ps Pd NLd IP).
      rewrite (dest_parent_test_generated fixed _ s0 f _ np G eq_refl (source_contained_rel s0 f W0 Ps)),
              (dest_parent_test_generated fixed _ (w_fs wr) f _ np G eq_refl (source_contained_rel (w_fs wr) f (sim_wf _ _ _ _ _ _ S) (plain_rel_transfer _ _ _ _ (sim_skel _ _ _ _ _ _ S) Ps))).
      rewrite (parents_contained_rel s0 f np W0 Pd), (parents_contained_rel (w_fs wr) f np (sim_wf _ _ _ _ _ _ S) Pd').
      rewrite (source_contained_rel s0 f W0 Ps),
              (source_contained_rel (w_fs wr) f (sim_wf _ _ _ _ _ _ S) (plain_rel_transfer _ _ _ _ (sim_skel _ _ _ _ _ _ S) Ps)).
      destruct (renamer cDry wd (pf_dir f) (pf_rel f) np false) as [wd1 ed1] eqn:Rd.
      destruct (renamer cReal wr (pf_dir f) (pf_rel f) np false) as [wr1 er1] eqn:Rr.
      assert (NoOv : false = true -> skel s0 (pf_dir f ++ pp_parts np) = None /\ pp_parts (pf_rel f) <> pp_parts np) by discriminate.
      destruct (sim_renamer s0 st answers OVR CUS W0 _ _ _ _ _ _ _ _ _ _ S Ps Pd Hsk NoOv Rd Rr) as [E S1]. subst er1.
      intros Ed Er T.
      pose proof (track_renamer _ _ _ _ _ _ _ _ ds S Ps Pd Hsk NoOv PD Nf Nnp Rr T) as T1.
      destruct ed1 as [e|]; [|exact (IH _ _ _ _ _ _ _ _ _ _ _ _ _ PP' NL' ND' DR' NP' PDs' PB NB S1 Ed Er T1)].
      destruct (is_file_exists e).
      * refine (IH _ _ _ _ _ _ _ _ _ _ _ _ _ PP' NL' ND' DR' NP' PDs' _ _ S1 Ed Er T1).
        -- constructor; [|assumption]. unfold plain_entry. cbn [fst snd].
           split; [|split; [|split; [|split]]]; try assumption.
           left. split; [assumption|]. intros O. split.
           ++ pose proof (DR O) as K. inversion K as [|? ? Kf K']. cbn [fst snd] in Kf. rewrite Enp. exact Kf.
           ++ intros E. apply (ppath_neq_parts np (pf_rel f)); [rewrite Enp; reflexivity | assumption | symmetry; assumption].
        -- constructor; [|assumption]. split; [|split]; assumption.
      * inversion Er; subst. split; [assumption | split; [reflexivity | exact T1]].
Qed.

(* the whole run: the dry and the real run record the same directories, and the final tree of the real
   run is its own report, each line read in the directory recorded for it, applied to the initial tree *)
Lemma track_run plan cwd :
  plain_plan s0 plan -> dest_not_link s0 plan ->
  (OVR -> no_dotdot_names plan) -> (OVR -> dest_replaceable s0 plan) ->
  normal_plan plan -> Forall (fun fr => P (pf_dir (fst fr)) (pp_str (pf_rel (fst fr)))) plan ->
  report_dirs cDry plan cwd s0 = report_dirs cReal plan cwd s0 /\
  length (report_dirs cReal plan cwd s0) = length (r_report (run cReal plan cwd s0)) /\
  Forall line_ok (combine (report_dirs cReal plan cwd s0) (r_report (run cReal plan cwd s0))) /\
  r_final (run cReal plan cwd s0) =
    apply_report_in (combine (report_dirs cReal plan cwd s0) (r_report (run cReal plan cwd s0))) s0.
Proof.
  intros PP NL ND DR NP PDs.
  assert (Fin : forall ds w, Track ds w ->
            length (rev ds) = length (rev (w_report w)) /\ Forall line_ok (combine (rev ds) (rev (w_report w))) /\
            w_fs w = apply_report_in (combine (rev ds) (rev (w_report w))) s0).
  { intros ds w [L D F]. split; [rewrite !rev_length; assumption|]. split.
    - rewrite (combine_rev _ _ L). apply Forall_forall. intros x Hx. apply in_rev in Hx. rewrite Forall_forall in D. apply D. assumption.
    - rewrite F, (combine_rev _ _ L). unfold apply_report_in, apply_newest_first.
      rewrite <- fold_left_rev_right, rev_involutive. reflexivity. }
  unfold run, report_dirs. cbn [cD cR c_answers].
  destruct (first_pass cDry plan (init_world s0 answers) cwd []) as [[[wd1 cd1] bd1] ed1] eqn:Fd.
  destruct (first_pass cReal plan (init_world s0 answers) cwd []) as [[[wr1 cr1] br1] er1] eqn:Fr.
  destruct (sim_first_pass s0 st answers OVR CUS W0 _ _ _ _ _ _ _ _ _ _ _ _ _ PP NL ND DR (Forall_nil _)
              (Sim_init s0 st answers OVR CUS W0 st_ok) Fd Fr) as [E [Ec [Eb [PB S1]]]].
  destruct (track_first_pass _ _ _ _ _ _ _ _ _ _ _ _ _ [] PP NL ND DR NP PDs (Forall_nil _) (Forall_nil _)
              (Sim_init s0 st answers OVR CUS W0 st_ok) Fd Fr Track_init) as [NB [ED1 T1]].
  subst er1 cr1 br1. rewrite ED1.
  destruct ed1 as [e|].
  - cbn [r_final r_report]. split; [reflexivity|]. exact (Fin _ _ T1).
  - destruct (second_pass cDry bd1 wd1 cd1) as [[wd2 cd2] ed2] eqn:Sd.
    destruct (second_pass cReal bd1 wr1 cd1) as [[wr2 cr2] er2] eqn:Sr.
    destruct (track_second_pass _ _ _ _ _ _ _ _ _ _ _ PB NB S1 Sd Sr T1) as [ED2 T2]. rewrite ED2.
    cbn [r_final r_report]. split; [reflexivity|]. exact (Fin _ _ T2).
Qed.

End Track.

(* ---------- the theorems ------------------------------------------------------------------------------- *)
(* a report line paired with the input directory d belongs to the plan: the plan has a file in d whose
   relative path prints as the line's source text *)
Definition line_of_plan (plan : list (pfile * rendered)) (x : rpath * report_line) : Prop :=
  exists f r, In (f, r) plan /\ pf_dir f = fst x /\ pp_str (pf_rel f) = fst (fst (snd x)).

(* several input directories, general form (OVR / CUS as in [dry_equals_real_name_mode_general]): the dry
   run's report, every line paired with the directory the dry run recorded for it, applied to the initial
   tree is the real run's final tree; the real run records the same directories *)
Theorem final_is_report_applied_general : forall (OVR CUS : Prop) c plan cwd s,
  c_mode c = MName -> c_fault c = None -> c_var c = fixed -> WF s ->
  plain_plan s plan -> dest_not_link s plan ->
  (OVR -> no_dotdot_names plan) -> (OVR -> dest_replaceable s plan) -> answers_ok OVR CUS c ->
  normal_plan plan ->
  let ds := report_dirs (cfg_set_dry c true) plan cwd s in
  let lines := r_report (run (cfg_set_dry c true) plan cwd s) in
  ds = report_dirs (cfg_set_dry c false) plan cwd s /\
  length ds = length lines /\
  Forall (line_of_plan plan) (combine ds lines) /\
  r_final (run (cfg_set_dry c false) plan cwd s) = apply_report_in (combine ds lines) s.
Proof.
  intros OVR CUS c plan cwd s Hm Hf Hv W PP NL ND DR AO NP. cbv zeta.
  destruct (dry_equals_real_name_mode_general OVR CUS c plan cwd s Hm Hf Hv W PP NL ND DR AO) as [_ [-> _]].
  destruct c as [m stg dry ans flt v]. cbn in Hm, Hf, Hv. subst m flt v.
  unfold answers_ok in AO. cbn [c_strategy c_answers] in AO.
  unfold cfg_set_dry. cbn [c_mode c_strategy c_answers c_fault c_var].
  destruct (track_run s stg ans OVR CUS
           (fun d t => exists f r, In (f, r) plan /\ pf_dir f = d /\ pp_str (pf_rel f) = t)
           W AO plan cwd PP NL ND DR NP) as [E R].
  { apply Forall_forall. intros [f r] Hx. exists f, r. cbn [fst]. split; [assumption|]. split; reflexivity. }
  change (cD stg ans) with {| c_mode := MName; c_strategy := stg; c_dry := true; c_answers := ans; c_fault := None; c_var := fixed |} in E.
  change (cR stg ans) with {| c_mode := MName; c_strategy := stg; c_dry := false; c_answers := ans; c_fault := None; c_var := fixed |} in E, R.
  rewrite E. split; [reflexivity|]. exact R.
Qed.

Lemma combine_fst_Forall {A B} (R : A -> Prop) : forall (a : list A) (b : list B),
  length a = length b -> Forall (fun x => R (fst x)) (combine a b) -> Forall R a.
Proof.
  induction a as [|x a IH]; intros [|y b] L F; try discriminate; [constructor|].
  cbn [combine] in F. inversion F; subst. constructor; [assumption|]. apply (IH b); [simpl in L; lia | assumption].
Qed.

Lemma one_dir_report d plan ds lines s :
  (forall f r, In (f, r) plan -> pf_dir f = d) ->
  length ds = length lines -> Forall (line_of_plan plan) (combine ds lines) ->
  apply_report_in (combine ds lines) s = apply_report d lines s.
Proof.
  intros One L F. apply apply_report_in_const; [assumption|].
  apply (combine_fst_Forall (eq d) ds lines L).
  eapply Forall_impl; [|exact F]. intros x [f [r [Hin [E _]]]]. rewrite <- E. symmetry. exact (One f r Hin).
Qed.

(* one input directory, general form *)
Theorem final_is_report_applied_one_dir_general : forall (OVR CUS : Prop) c plan cwd s d,
  c_mode c = MName -> c_fault c = None -> c_var c = fixed -> WF s ->
  plain_plan s plan -> dest_not_link s plan ->
  (OVR -> no_dotdot_names plan) -> (OVR -> dest_replaceable s plan) -> answers_ok OVR CUS c ->
  normal_plan plan -> (forall f r, In (f, r) plan -> pf_dir f = d) ->
  r_final (run (cfg_set_dry c false) plan cwd s) =
    apply_report d (r_report (run (cfg_set_dry c true) plan cwd s)) s.
Proof.
  intros OVR CUS c plan cwd s d Hm Hf Hv W PP NL ND DR AO NP One.
  destruct (final_is_report_applied_general OVR CUS c plan cwd s Hm Hf Hv W PP NL ND DR AO NP) as [_ [L [F E]]].
  rewrite E. exact (one_dir_report d plan _ _ s One L F).
Qed.

(* stop / ignore / manual without "override" and "custom path" *)
Theorem final_is_report_applied : forall c plan cwd s d,
  c_mode c = MName -> c_fault c = None -> c_var c = fixed -> WF s ->
  plain_plan s plan -> dest_not_link s plan -> no_override c ->
  normal_plan plan -> (forall f r, In (f, r) plan -> pf_dir f = d) ->
  r_final (run (cfg_set_dry c false) plan cwd s) =
    apply_report d (r_report (run (cfg_set_dry c true) plan cwd s)) s.
Proof.
  intros c plan cwd s d Hm Hf Hv W PP NL NO NP One.
  exact (final_is_report_applied_one_dir_general False False c plan cwd s d Hm Hf Hv W PP NL
           (fun F => False_ind _ F) (fun F => False_ind _ F) (no_override_answers_ok c NO) NP One).
Qed.

(* several input directories, with the recorded directories *)
Theorem final_is_report_applied_dirs : forall c plan cwd s,
  c_mode c = MName -> c_fault c = None -> c_var c = fixed -> WF s ->
  plain_plan s plan -> dest_not_link s plan -> no_override c -> normal_plan plan ->
  let ds := report_dirs (cfg_set_dry c true) plan cwd s in
  let lines := r_report (run (cfg_set_dry c true) plan cwd s) in
  ds = report_dirs (cfg_set_dry c false) plan cwd s /\
  length ds = length lines /\
  Forall (line_of_plan plan) (combine ds lines) /\
  r_final (run (cfg_set_dry c false) plan cwd s) = apply_report_in (combine ds lines) s.
Proof.
  intros c plan cwd s Hm Hf Hv W PP NL NO NP.
  exact (final_is_report_applied_general False False c plan cwd s Hm Hf Hv W PP NL
           (fun F => False_ind _ F) (fun F => False_ind _ F) (no_override_answers_ok c NO) NP).
Qed.

(* ... and without the twin: some pairing of the lines with input directories of the plan *)
Theorem final_is_report_applied_dirs_exists : forall c plan cwd s,
  c_mode c = MName -> c_fault c = None -> c_var c = fixed -> WF s ->
  plain_plan s plan -> dest_not_link s plan -> no_override c -> normal_plan plan ->
  exists ds, length ds = length (r_report (run (cfg_set_dry c true) plan cwd s)) /\
             Forall (line_of_plan plan) (combine ds (r_report (run (cfg_set_dry c true) plan cwd s))) /\
             r_final (run (cfg_set_dry c false) plan cwd s) =
               apply_report_in (combine ds (r_report (run (cfg_set_dry c true) plan cwd s))) s.
Proof.
  intros c plan cwd s Hm Hf Hv W PP NL NO NP.
  destruct (final_is_report_applied_dirs c plan cwd s Hm Hf Hv W PP NL NO NP) as [_ R].
  exists (report_dirs (cfg_set_dry c true) plan cwd s). exact R.
Qed.

(* every strategy, every answer (hypotheses of [dry_equals_real_name_mode_override]) *)
Lemma custom_paths_answers_ok c : custom_paths_single c -> answers_ok True True c.
Proof.
  unfold answers_ok, custom_paths_single. destruct (c_strategy c); auto.
  intros CP. eapply Forall_impl; [|exact CP]. intros a Ha. split; [|split]; auto.
Qed.

Theorem final_is_report_applied_override : forall c plan cwd s d,
  c_mode c = MName -> c_fault c = None -> c_var c = fixed -> WF s ->
  plain_plan s plan -> dest_not_link s plan -> no_dotdot_names plan ->
  dest_replaceable s plan -> custom_paths_single c ->
  normal_plan plan -> (forall f r, In (f, r) plan -> pf_dir f = d) ->
  r_final (run (cfg_set_dry c false) plan cwd s) =
    apply_report d (r_report (run (cfg_set_dry c true) plan cwd s)) s.
Proof.
  intros c plan cwd s d Hm Hf Hv W PP NL ND DR CP NP One.
  exact (final_is_report_applied_one_dir_general True True c plan cwd s d Hm Hf Hv W PP NL
           (fun _ => ND) (fun _ => DR) (custom_paths_answers_ok c CP) NP One).
Qed.

Theorem final_is_report_applied_dirs_override : forall c plan cwd s,
  c_mode c = MName -> c_fault c = None -> c_var c = fixed -> WF s ->
  plain_plan s plan -> dest_not_link s plan -> no_dotdot_names plan ->
  dest_replaceable s plan -> custom_paths_single c -> normal_plan plan ->
  let ds := report_dirs (cfg_set_dry c true) plan cwd s in
  let lines := r_report (run (cfg_set_dry c true) plan cwd s) in
  ds = report_dirs (cfg_set_dry c false) plan cwd s /\
  length ds = length lines /\
  Forall (line_of_plan plan) (combine ds lines) /\
  r_final (run (cfg_set_dry c false) plan cwd s) = apply_report_in (combine ds lines) s.
Proof.
  intros c plan cwd s Hm Hf Hv W PP NL ND DR CP NP.
  exact (final_is_report_applied_general True True c plan cwd s Hm Hf Hv W PP NL
           (fun _ => ND) (fun _ => DR) (custom_paths_answers_ok c CP) NP).
Qed.

(* ---------- boolean checker for the added hypothesis ------------------------------------------------------- *)
Definition good_part_b (x : str) : bool := keep_part x && negb (has_slash x).

Definition normal_rel_b (p : ppath) : bool :=
  Nat.eqb (pp_root p) 0 && match pp_parts p with [] => false | _ => true end && forallb good_part_b (pp_parts p).

Lemma normal_rel_b_sound p : normal_rel_b p = true -> normal_rel p.
Proof.
  unfold normal_rel_b. intros H. apply andb_true_iff in H as [H H3]. apply andb_true_iff in H as [H1 H2].
  split; [apply Nat.eqb_eq; assumption|]. split; [destruct (pp_parts p); [discriminate H2 | discriminate]|].
  intros x Hx. rewrite forallb_forall in H3. specialize (H3 x Hx). unfold good_part_b in H3.
  apply andb_true_iff in H3 as [A B]. split; [assumption | apply negb_true_iff; assumption].
Qed.

Definition normal_plan_b (plan : list (pfile * rendered)) : bool :=
  forallb (fun fr => normal_rel_b (pf_rel (fst fr))) plan.

Lemma normal_plan_b_sound plan : normal_plan_b plan = true -> normal_plan plan.
Proof.
  unfold normal_plan_b, normal_plan. rewrite forallb_forall, Forall_forall.
  intros H x Hx. apply normal_rel_b_sound. apply H. assumption.
Qed.

(* a relative path obtained by parsing a text that does not start with "/" is normal as soon as it has a part *)
Lemma parse_path_normal t :
  pp_root (parse_path t) = 0%nat -> pp_parts (parse_path t) <> [] -> normal_rel (parse_path t).
Proof. intros R N. split; [assumption|]. split; [assumption|]. intros x Hx. exact (parse_path_parts_good _ _ Hx). Qed.
