(* Corollaries of Pipe/Safety.v in the vocabulary of property C01, and the executable   *)
(* scenarios used for the pre-fix refutations and the non-vacuity examples.              *)
From Tempren Require Import Base.Str Py.PathLib FS.Model FS.Lemmas FS.WfCheck Pipe.Pipeline Pipe.Safety.
Open Scope N_scope.

Definition same_leaves (s0 s : fs) : Prop := WF s /\ leaves s = leaves s0.

Theorem no_loss c plan cwd s :
  WF s -> safe_cfg c ->
  Forall (same_leaves s) (s :: r_states (run c plan cwd s)) /\ same_leaves s (r_final (run c plan cwd s)).
Proof.
  intros W SC. apply (run_safe (leaves s)); [assumption | split; [assumption | reflexivity]].
Qed.

Lemma leaf_found s n : WF s -> In n (leaves s) -> exists p, lookup s p = Some n /\ is_dir_node n = false.
Proof.
  intros [ND CL] H. unfold leaves in H. apply filter_In in H as [H1 H2].
  apply in_map_iff in H1 as [[p m] [E Hin]]. simpl in E. subst m.
  exists p. split; [|apply negb_true_iff; assumption].
  destruct (CL _ _ Hin) as [Hp _]. destruct p; [congruence|]. simpl. apply In_assoc; assumption.
Qed.

Lemma lookup_leaf s p n : WF s -> lookup s p = Some n -> is_dir_node n = false -> In n (leaves s).
Proof.
  intros W H Hn. destruct p as [|x p]; [simpl in H; inversion H; subst; discriminate|].
  apply lookup_In in H; [|discriminate]. unfold leaves. apply filter_In. split.
  - apply in_map_iff. exists (x :: p, n). split; [reflexivity | assumption].
  - apply negb_true_iff. assumption.
Qed.

(* every file / symlink of the initial tree is found (under some path) in every state *)
Theorem every_entry_survives c plan cwd s s' p n :
  WF s -> safe_cfg c -> In s' (s :: r_states (run c plan cwd s)) ->
  lookup s p = Some n -> is_dir_node n = false ->
  exists p', lookup s' p' = Some n.
Proof.
  intros W SC Hin Hl Hn. destruct (no_loss c plan cwd s W SC) as [F _].
  rewrite Forall_forall in F. destruct (F _ Hin) as [W' L'].
  pose proof (lookup_leaf _ _ _ W Hl Hn) as H. rewrite <- L' in H.
  destruct (leaf_found _ _ W' H) as [p' [H1 _]]. exists p'. assumption.
Qed.

(* ... and nothing new appears: every non-directory of every state is one of the initial ones,
   with the same multiplicity (the lists are equal) *)
Theorem nothing_replaced c plan cwd s s' p n :
  WF s -> safe_cfg c -> In s' (s :: r_states (run c plan cwd s)) ->
  lookup s' p = Some n -> is_dir_node n = false ->
  exists p0, lookup s p0 = Some n.
Proof.
  intros W SC Hin Hl Hn. destruct (no_loss c plan cwd s W SC) as [F _].
  rewrite Forall_forall in F. destruct (F _ Hin) as [W' L'].
  pose proof (lookup_leaf _ _ _ W' Hl Hn) as H. rewrite L' in H.
  destruct (leaf_found _ _ W H) as [p0 [H1 _]]. exists p0. assumption.
Qed.

(* which configurations are safe *)
Lemma stop_is_safe m d a f : safe_cfg {| c_mode := m; c_strategy := Stop; c_dry := d; c_answers := a; c_fault := f; c_var := fixed |}.
Proof. split; [split; reflexivity | exact I]. Qed.
Lemma ignore_is_safe m d a f : safe_cfg {| c_mode := m; c_strategy := Ignore; c_dry := d; c_answers := a; c_fault := f; c_var := fixed |}.
Proof. split; [split; reflexivity | exact I]. Qed.
Lemma manual_is_safe m d a f :
  no_override_answer a ->
  safe_cfg {| c_mode := m; c_strategy := Manual; c_dry := d; c_answers := a; c_fault := f; c_var := fixed |}.
Proof. intros H. split; [split; reflexivity | exact H]. Qed.

(* ---------- concrete scenarios -------------------------------------------------------------- *)
Definition nm (s : str) : name := s.
Definition n_in : name := [105; 110].          (* "in" *)
Definition n_a : name := [97].                 (* "a"  *)
Definition n_b : name := [98].                 (* "b"  *)
Definition n_sub : name := [115; 117; 98].     (* "sub" *)
Definition n_f : name := [102].                (* "f" *)
Definition n_new : name := [110; 101; 119].    (* "new" *)
Definition nowhere : upath := {| up_abs := false; up_comps := [[110; 111]] |}.

(* F1: in/a (file), in/b -> nowhere (dangling); name template renders "b" for a *)
Definition fs_dangling : fs := [([n_in], NDir); ([n_in; n_a], NFile 1); ([n_in; n_b], NLink 2 nowhere)].
Definition plan_dangling : list (pfile * rendered) :=
  [({| pf_dir := [n_in]; pf_rel := parse_path n_a |}, RText n_b)].

(* F1b: in/sub/f (file), in/f -> nowhere; path template renders "new/.." for sub/f *)
Definition fs_mkdir_gap : fs :=
  [([n_in], NDir); ([n_in; n_sub], NDir); ([n_in; n_sub; n_f], NFile 1); ([n_in; n_f], NLink 2 nowhere)].
Definition plan_mkdir_gap : list (pfile * rendered) :=
  [({| pf_dir := [n_in]; pf_rel := parse_path (n_sub ++ [47] ++ n_f) |}, RText (n_new ++ [47; 46; 46]))].

Definition cfg_of (m : mode) (st : strategy) (v : variant) (flt : option nat) : cfg :=
  {| c_mode := m; c_strategy := st; c_dry := false; c_answers := []; c_fault := flt; c_var := v |}.

Definition prefix_guard : variant :=     (* the code before "fix: renamers treat a dangling symlink ..." *)
  {| v_lexists_guard := false; v_recheck_after_mkdir := false; v_backlog_chdir := true;
     v_dry_abs_keys := true; v_component_containment := true; v_dest_parent_containment := true; v_backlog_recheck := false |}.
Definition no_recheck : variant :=       (* ... before "fix: FileMover re-checks the destination ..." *)
  {| v_lexists_guard := true; v_recheck_after_mkdir := false; v_backlog_chdir := true;
     v_dry_abs_keys := true; v_component_containment := true; v_dest_parent_containment := true; v_backlog_recheck := false |}.

Definition node_list_eqb (a b : list node) : bool := list_eqb node_eqb a b.
