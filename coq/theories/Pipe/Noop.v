(* C17 (pipeline half): a plan whose generated path equals each file's own relative path is a no-op. *)
From Tempren Require Import Base.Str Py.PathLib Py.PathLibProofs FS.Model Pipe.Pipeline Pipe.Plan.
Open Scope N_scope.

Definition identity_entry (m : mode) (s : fs) (e : pfile * rendered) : Prop :=
  (exists cwd1, chdir s (pf_dir (fst e)) = Some cwd1) /\
  exists np, generate m (fst e) (snd e) = inl np /\ ppath_eqb np (pf_rel (fst e)) = true.

Lemma first_pass_identity c plan w cwd bl :
  Forall (identity_entry (c_mode c) (w_fs w)) plan ->
  exists cwd', first_pass c plan w cwd bl = (w, cwd', bl, None).
Proof.
  revert cwd. induction plan as [|[f r] rest IH]; intros cwd H.
  - exists cwd. reflexivity.
  - inversion H as [|? ? [[cwd1 C] [np [G E]]] Hrest]; subst. simpl in C, G, E.
    rewrite (skip_unchanged c f r rest w cwd bl cwd1 np C G E). apply IH. assumption.
Qed.

Theorem identity_plan_is_noop c plan cwd s :
  Forall (identity_entry (c_mode c) s) plan ->
  let r := run c plan cwd s in
  r_status r = 0%Z /\ r_calls r = [] /\ r_report r = [] /\ r_states r = [] /\ r_final r = s.
Proof.
  intros H. unfold run.
  destruct (first_pass_identity c plan (init_world s (c_answers c)) cwd [] H) as [cwd' E]. rewrite E.
  simpl. repeat split; reflexivity.
Qed.

(* the three templates of the property render exactly such entries: in name and directory mode the text
   is the file's own name, in path mode the text is str(relative path) *)
Lemma own_name_is_identity m f s :
  m <> MPath -> normal_rel (pf_rel f) -> (exists cwd1, chdir s (pf_dir f) = Some cwd1) ->
  identity_entry m s (f, RText (pp_name (pf_rel f))).
Proof.
  intros Hm Hn Hc. split; [exact Hc|]. exists (pf_rel f). simpl. split.
  - destruct m; try congruence; rewrite (with_own_name _ Hn); reflexivity.
  - apply ppath_eqb_spec. reflexivity.
Qed.

Lemma own_path_is_identity f s :
  normal_rel (pf_rel f) -> (exists cwd1, chdir s (pf_dir f) = Some cwd1) ->
  identity_entry MPath s (f, RText (pp_str (pf_rel f))).
Proof.
  intros Hn Hc. split; [exact Hc|]. exists (pf_rel f). simpl. split.
  - rewrite (parse_str_roundtrip _ Hn). reflexivity.
  - apply ppath_eqb_spec. reflexivity.
Qed.

(* '%Dir()/%Name()' renders str(parent) ++ "/" ++ name (e.g. "./a" at the top level) *)
Lemma dir_slash_name_is_identity f s :
  normal_rel (pf_rel f) -> (exists cwd1, chdir s (pf_dir f) = Some cwd1) ->
  identity_entry MPath s (f, RText (tag_dir (pf_rel f) None ++ slash :: tag_name (pf_rel f) None)).
Proof.
  intros Hn Hc. split; [exact Hc|]. exists (pf_rel f). simpl. split.
  - rewrite (dir_name_is_path _ Hn). reflexivity.
  - apply ppath_eqb_spec. reflexivity.
Qed.
