(* C06 for a whole run under EVERY conflict strategy: override (rename(2) replaces the destination)   *)
(* and the manual prompt with "override" and "custom path" answers.                                  *)
(*                                                                                                  *)
(* Pipe/ConfinedRun.v describes every system call of a run without override as one [fs_step]: a new  *)
(* directory or a re-keying.  Two more kinds of step appear here: rename(2) of an entry onto itself   *)
(* (nothing changes) and the REPLACING rename: the entry at the destination key is removed and the    *)
(* source entry (with everything below it) is re-keyed to it.  Source key: strictly below the input   *)
(* directory of the file (source_contained, F32).  Destination key: the kernel does not follow a      *)
(* symbolic link in the last component, Path.resolve() in the containment test does.  So:             *)
(*  - name/directory mode: the renamer insists on the parent of the source, the destination key is a  *)
(*    sibling of the source key -- for generated names and for custom paths typed at the prompt;      *)
(*  - path mode, destination not a symbolic link: the key is what the containment test resolved;      *)
(*  - path mode, destination IS a symbolic link: [contained] looked at the link's target, rename(2)   *)
(*    replaces the link itself, wherever it lies ([override_link_destination_escapes] below: the     *)
(*    code before the repair of F34).  The test on the directory of the destination entry           *)
(*    ([dest_parent_contained]) closes the gap: the key rename(2) uses is realpath(parent) ++ [last], *)
(*    which lies below the input directory;                                                          *)
(*  - path mode, custom path: no test at all ([custom_path_escapes_refuted]).                         *)
From Tempren Require Import Base.Str Py.PathLib Py.PathLibProofs FS.Model FS.Lemmas FS.RealpathAgree FS.DirExt
  FS.PlainPaths Pipe.Pipeline Pipe.DestParent Pipe.Confine Pipe.Confined Pipe.ConfinedMove Pipe.Safety Pipe.DryEqualsReal
  Pipe.ConfinedRun.
Open Scope N_scope.

(* ---------- rename(2) keeps the tree well-formed, whatever branch it takes -------------------------------- *)
Lemma has_children_false s p :
  has_children s p = false -> forall k n, In (k, n) s -> is_prefix_path p k = true -> k = p.
Proof.
  unfold has_children. intros H k n Hin P.
  destruct (rpath_eqb k p) eqn:E; [apply rpath_eqb_eq; exact E|].
  exfalso.
  assert (X : existsb (fun e => is_prefix_path p (fst e) && negb (rpath_eqb (fst e) p)) s = true).
  { apply existsb_exists. exists (k, n). split; [exact Hin|]. cbn [fst]. rewrite P, E. reflexivity. }
  congruence.
Qed.

Lemma nondir_no_children s p m : WF s -> In (p, m) s -> is_dir_node m = false -> has_children s p = false.
Proof.
  intros [ND CL] Hp Hm. unfold has_children.
  destruct (existsb (fun e => is_prefix_path p (fst e) && negb (rpath_eqb (fst e) p)) s) eqn:E; [|reflexivity].
  exfalso. apply existsb_exists in E as [[k n] [Hin H]]. cbn [fst] in H.
  apply andb_true_iff in H as [P N]. apply negb_true_iff in N. apply rpath_eqb_neq in N.
  apply is_prefix_path_spec in P as [r Er]. destruct r as [|x r]; [rewrite app_nil_r in Er; congruence|].
  destruct (CL _ _ Hin) as [_ C]. destruct (CL _ _ Hp) as [Hpne _].
  assert (Hd : In (p, NDir) s) by (apply C; [exact Hpne | exists (x :: r); split; [discriminate | exact Er]]).
  rewrite (In_unique s p m NDir ND Hp Hd) in Hm. discriminate.
Qed.

Lemma WF_remove_leaf p s : WF s -> has_children s p = false -> WF (remove_key p s).
Proof.
  intros [ND CL] Hc. split.
  - unfold remove_key. apply NoDup_map_filter, ND.
  - intros k n Hk. apply In_remove_key in Hk as [Hk Hkp]. destruct (CL _ _ Hk) as [Hne C]. split; [exact Hne|].
    intros q Hq Pq. apply In_remove_key. split; [apply C; assumption|].
    intros Z. subst q. destruct Pq as [r [Hr E]]. apply Hkp.
    apply (has_children_false _ _ Hc k n Hk). apply is_prefix_path_spec. exists r. exact E.
Qed.

Lemma replace_preserves_WF s sp sn dpar dname :
  WF s -> sp <> [] -> sp <> dpar ++ [dname] -> In (sp, sn) s -> (exists dn, In (dpar ++ [dname], dn) s) ->
  has_children s (dpar ++ [dname]) = false ->
  is_dir_node sn && is_prefix_path sp (dpar ++ [dname]) = false ->
  WF (rekey sp (dpar ++ [dname]) (remove_key (dpar ++ [dname]) s)).
Proof.
  intros W Hsp Hne Hs [dn Hd] Hc Hinv.
  assert (Hdp : dpar ++ [dname] <> []) by (destruct dpar; discriminate).
  pose proof (WF_remove_leaf _ s W Hc) as W2.
  apply (rename_missing_preserves (remove_key (dpar ++ [dname]) s) sp sn dpar dname); try assumption.
  - apply In_remove_key. split; assumption.
  - destruct dpar as [|x l]; [reflexivity|].
    apply (lookup_of_In _ _ _ W2). apply In_remove_key. split.
    + destruct W as [ND CL]. destruct (CL _ _ Hd) as [_ C]. apply C; [discriminate|].
      exists [dname]. split; [discriminate | reflexivity].
    + intros K. apply (f_equal (@length name)) in K. rewrite app_length in K. simpl in K. lia.
  - rewrite (lookup_remove_key _ _ _ Hdp). rewrite rpath_eqb_refl. reflexivity.
Qed.

Lemma os_rename_WF s cwd src dst s' : WF s -> os_rename s cwd src dst = SOk s' -> WF s'.
Proof.
  intros W. unfold os_rename.
  destruct (bad_last src || bad_last dst).
  { destruct (resolve s cwd src false); destruct (resolve s cwd dst false); discriminate. }
  destruct (resolve s cwd src false) as [sp sn|? ?|?] eqn:Rs; try discriminate.
  destruct sp as [|x sp]; [discriminate|].
  apply resolve_found in Rs.
  assert (Hs : In (x :: sp, sn) s) by (apply lookup_In; [discriminate | exact Rs]).
  destruct (resolve s cwd dst false) as [dp dn|dpar dname|e] eqn:Rd; try discriminate.
  - destruct (rpath_eqb dp (x :: sp)) eqn:E; [intros H; inversion H; subst; exact W|].
    apply rpath_eqb_neq in E.
    destruct dp as [|y dp]; [discriminate|].
    apply resolve_found in Rd.
    assert (Hd : In (y :: dp, dn) s) by (apply lookup_In; [discriminate | exact Rd]).
    assert (G : has_children s (y :: dp) = false ->
                is_dir_node sn && is_prefix_path (x :: sp) (y :: dp) = false ->
                WF (rekey (x :: sp) (y :: dp) (remove_key (y :: dp) s))).
    { intros Hc Hinv.
      destruct (exists_last (ltac:(discriminate) : y :: dp <> [])) as [dpar [dname Ed]].
      rewrite Ed in *.
      apply (replace_preserves_WF s (x :: sp) sn dpar dname); try assumption; try discriminate.
      - intros K. apply E. symmetry. exact K.
      - exists dn. exact Hd. }
    destruct sn, dn; try discriminate;
      try (intros H; inversion H; subst; apply G; [eapply nondir_no_children; [exact W | exact Hd | reflexivity] | reflexivity]).
    destruct (is_prefix_path (x :: sp) (y :: dp)) eqn:P; [discriminate|].
    destruct (has_children s (y :: dp)) eqn:Hc; [discriminate|].
    intros H; inversion H; subst. apply G; reflexivity.
  - destruct (name_eqb dname dotdot); [discriminate|].
    destruct (is_dir_node sn && is_prefix_path (x :: sp) (dpar ++ [dname])) eqn:Hinv; [discriminate|].
    intros H; inversion H; subst; clear H.
    apply resolve_missing in Rd as [Hpar Hnone].
    apply (rename_missing_preserves s (x :: sp) sn dpar dname); try assumption. discriminate.
Qed.

Lemma shutil_move_WF s cwd src dst s' : WF s -> shutil_move_fs s cwd src dst = SOk s' -> WF s'.
Proof.
  intros W. unfold shutil_move_fs.
  destruct (is_dir s cwd dst); [|apply os_rename_WF; exact W].
  destruct (same_entry s cwd src dst); [apply os_rename_WF; exact W|].
  match goal with |- context [exists_ ?a ?b ?c] => destruct (exists_ a b c) end; [discriminate|].
  apply os_rename_WF; exact W.
Qed.

(* ---------- every state of every run is well-formed: any strategy, any answers ------------------------------ *)
Definition WFs (w : world) : Prop := Forall WF (w_fs w :: w_hist w).

Lemma WFs_fs w : WFs w -> WF (w_fs w).
Proof. intros H. inversion H; assumption. Qed.

Lemma WFs_same w w' : w_fs w' = w_fs w -> w_hist w' = w_hist w -> WFs w -> WFs w'.
Proof. unfold WFs. intros -> ->. auto. Qed.

Lemma WFs_sys flt k w r w' e :
  WFs w -> (forall s', r = SOk s' -> WF s') -> sys flt k w r = (w', e) -> WFs w'.
Proof.
  intros H G. unfold sys. destruct (faulted flt w).
  - intros E; inversion E; subst. exact H.
  - destruct r as [s'|er]; intros E; inversion E; subst.
    + unfold WFs. simpl. constructor; [apply G; reflexivity|]. constructor; [apply G; reflexivity|].
      inversion H; assumption.
    + exact H.
Qed.

Lemma WFs_mkdir_once flt w cwd p w' e : WFs w -> mkdir_once flt w cwd p = (w', e) -> WFs w'.
Proof.
  intros H. unfold mkdir_once. apply WFs_sys; [assumption|].
  intros s' E. exact (proj1 (mkdir_preserves _ _ _ _ (WFs_fs _ H) E)).
Qed.

Lemma WFs_mkdir_p flt cwd : forall fuel w p w' e, WFs w -> mkdir_p fuel flt w cwd p = (w', e) -> WFs w'.
Proof.
  induction fuel as [|fuel IH]; intros w p w' e H M.
  - rewrite mkdir_p_0 in M. destruct (mkdir_once flt w cwd p) as [w1 r] eqn:M1.
    pose proof (WFs_mkdir_once _ _ _ _ _ _ H M1) as H1.
    destruct r as [err|]; [destruct err|]; inversion M; subst; assumption.
  - rewrite mkdir_p_S in M. destruct (mkdir_once flt w cwd p) as [w1 r] eqn:M1.
    pose proof (WFs_mkdir_once _ _ _ _ _ _ H M1) as H1.
    destruct r as [err|]; [|inversion M; subst; assumption].
    destruct err; try (inversion M; subst; assumption).
    destruct (pp_parts p) as [|x l]; [inversion M; subst; assumption|].
    destruct (mkdir_p fuel flt w1 cwd (pp_parent p)) as [w2 r2] eqn:M2.
    pose proof (IH _ _ _ _ H1 M2) as H2.
    destruct r2 as [e2|]; [inversion M; subst; assumption|].
    destruct (mkdir_once flt w2 cwd p) as [w3 r3] eqn:M3.
    pose proof (WFs_mkdir_once _ _ _ _ _ _ H2 M3) as H3.
    destruct r3 as [err|]; [destruct err|]; inversion M; subst; assumption.
Qed.

Lemma WFs_file_renamer v flt w cwd src dst o w' e :
  WFs w -> file_renamer v flt w cwd src dst o = (w', e) -> WFs w'.
Proof.
  intros H. unfold file_renamer.
  destruct (negb o && guard_exists v (w_fs w) cwd (to_upath dst)); [intros E; inversion E; subst; assumption|].
  destruct (negb (ppath_eqb (pp_parent src) (pp_parent dst))); [intros E; inversion E; subst; assumption|].
  destruct (sys flt CRename w (os_rename (w_fs w) cwd (to_upath src) (to_upath dst))) as [w1 e1] eqn:S.
  intros E. assert (Ew : w1 = w') by (destruct e1; inversion E; reflexivity). subst w1.
  eapply WFs_sys; [exact H | | exact S]. intros s' R. exact (os_rename_WF _ _ _ _ _ (WFs_fs _ H) R).
Qed.

Lemma WFs_file_mover v flt w cwd src dst o w' e :
  WFs w -> file_mover v flt w cwd src dst o = (w', e) -> WFs w'.
Proof.
  intros H. unfold file_mover.
  destruct (negb o && guard_exists v (w_fs w) cwd (to_upath dst)); [intros E; inversion E; subst; assumption|].
  destruct (mkdir_p (S (length (pp_parts dst))) flt w cwd (pp_parent dst)) as [w1 r1] eqn:MP.
  pose proof (WFs_mkdir_p _ _ _ _ _ _ _ H MP) as H1.
  destruct r1 as [e1|]; [intros E; inversion E; subst; assumption|].
  destruct (v_recheck_after_mkdir v && negb o && guard_exists v (w_fs w1) cwd (to_upath dst));
    [intros E; inversion E; subst; assumption|].
  destruct (sys flt CMove w1 (shutil_move_fs (w_fs w1) cwd (to_upath src) (to_upath dst))) as [w2 e2] eqn:S.
  intros E. assert (Ew : w2 = w') by (destruct e2; inversion E; reflexivity). subst w2.
  eapply WFs_sys; [exact H1 | | exact S]. intros s' R. exact (shutil_move_WF _ _ _ _ _ (WFs_fs _ H1) R).
Qed.

Lemma WFs_renamer c w cwd src dst o w' e : WFs w -> renamer c w cwd src dst o = (w', e) -> WFs w'.
Proof.
  intros H. unfold renamer, renamer_core.
  destruct (c_dry c).
  - match goal with |- context [dry_renamer ?a ?b ?c ?d ?e ?g ?h] =>
      destruct (dry_renamer a b c d e g h) as [w1 [e1|]] eqn:Dr end;
      intros E; inversion E; subst;
      destruct (Safety.dry_renamer_fs _ _ _ _ _ _ _ _ _ Dr) as [A B];
      (eapply WFs_same; [| |exact H]); assumption.
  - destruct (c_mode c).
    + destruct (file_renamer (c_var c) (c_fault c) w cwd src dst o) as [w1 [e1|]] eqn:Dr;
        intros E; inversion E; subst; exact (WFs_file_renamer _ _ _ _ _ _ _ _ _ H Dr).
    + destruct (file_mover (c_var c) (c_fault c) w cwd src dst o) as [w1 [e1|]] eqn:Dr;
        intros E; inversion E; subst; exact (WFs_file_mover _ _ _ _ _ _ _ _ _ H Dr).
    + destruct (file_renamer (c_var c) (c_fault c) w cwd src dst o) as [w1 [e1|]] eqn:Dr;
        intros E; inversion E; subst; exact (WFs_file_renamer _ _ _ _ _ _ _ _ _ H Dr).
Qed.

Lemma WFs_resolve_conflict c w cwd src dst w' e : WFs w -> resolve_conflict c w cwd src dst = (w', e) -> WFs w'.
Proof.
  intros H. unfold resolve_conflict.
  assert (RS : forall st w0, WFs w0 -> resolve_simple c st w0 cwd src dst = (w', e) -> WFs w').
  { intros st w0 H0. destruct st; simpl; try (intros E; inversion E; subst; exact H0).
    apply WFs_renamer. exact H0. }
  destruct (c_strategy c); try (apply RS; exact H).
  destruct (prompt (S (length (w_answers w))) w) as [d w1] eqn:P.
  destruct (prompt_props _ _ _ _ P) as [A [B _]].
  assert (H1 : WFs w1) by (eapply WFs_same; eassumption).
  destruct d as [st|p|].
  - apply RS. exact H1.
  - apply WFs_renamer. exact H1.
  - intros E; inversion E; subst. exact H1.
Qed.

Lemma WFs_first_pass c : forall plan w cwd bl w' cwd' bl' e,
  WFs w -> first_pass c plan w cwd bl = (w', cwd', bl', e) -> WFs w'.
Proof.
  induction plan as [|[f r] rest IH]; intros w cwd bl w' cwd' bl' e H.
  - intros E; inversion E; subst. exact H.
  - cbn [first_pass].
    destruct (chdir (w_fs w) (pf_dir f)) as [cwd1|]; [|intros E; inversion E; subst; exact H].
    destruct (generate (c_mode c) f r) as [np|ex]; [|intros E; inversion E; subst; exact H].
    destruct (ppath_eqb np (pf_rel f)); [apply IH; exact H|].
    destruct (contained (c_var c) (w_fs w) f np) as [[|]|]; try (intros E; inversion E; subst; exact H).
    destruct (dest_parent_test (c_var c) (w_fs w) f np) as [[|]|]; try (intros E; inversion E; subst; exact H).
    destruct (parents_contained (w_fs w) f np) as [[|]|]; try (intros E; inversion E; subst; exact H).
    destruct (source_contained (w_fs w) f) as [[|]|]; try (intros E; inversion E; subst; exact H).
    destruct (renamer c w cwd1 (pf_rel f) np false) as [w1 [e1|]] eqn:R;
      pose proof (WFs_renamer _ _ _ _ _ _ _ _ H R) as H1.
    + destruct (is_file_exists e1); [apply IH; exact H1 | intros E; inversion E; subst; exact H1].
    + apply IH; exact H1.
Qed.

Lemma WFs_second_pass c : forall bl w cwd w' cwd' e,
  WFs w -> second_pass c bl w cwd = (w', cwd', e) -> WFs w'.
Proof.
  induction bl as [|[[d src] dst] rest IH]; intros w cwd w' cwd' e H.
  - intros E; inversion E; subst. exact H.
  - cbn [second_pass].
    destruct (if v_backlog_chdir (c_var c) then chdir (w_fs w) d else Some cwd) as [cwd1|];
      [|intros E; inversion E; subst; exact H].
    destruct (backlog_verify (c_var c) (w_fs w) d src dst); [intros E; inversion E; subst; exact H|].
    destruct (renamer c w cwd1 src dst false) as [w1 [e1|]] eqn:R;
      pose proof (WFs_renamer _ _ _ _ _ _ _ _ H R) as H1; [|apply IH; exact H1].
    destruct (is_file_exists e1); [|intros E; inversion E; subst; exact H1].
    destruct (resolve_conflict c w1 cwd1 src dst) as [w2 [e2|]] eqn:RC;
      pose proof (WFs_resolve_conflict _ _ _ _ _ _ _ H1 RC) as H2.
    + intros E; inversion E; subst. exact H2.
    + apply IH; exact H2.
Qed.

Theorem run_WF c plan cwd s :
  WF s -> Forall WF (s :: r_states (run c plan cwd s)) /\ WF (r_final (run c plan cwd s)).
Proof.
  intros W. unfold run.
  assert (H0 : WFs (init_world s (c_answers c))) by (unfold WFs; simpl; constructor; [assumption | constructor]).
  destruct (first_pass c plan (init_world s (c_answers c)) cwd []) as [[[w1 cwd1] bl] e1] eqn:FP.
  pose proof (WFs_first_pass _ _ _ _ _ _ _ _ _ H0 FP) as H1.
  assert (Fin : forall w2, WFs w2 -> Forall WF (s :: rev (w_hist w2)) /\ WF (w_fs w2)).
  { intros w2 H2. inversion H2 as [|? ? Hf Hh]; subst. split; [|assumption].
    constructor; [assumption|]. apply Forall_rev. assumption. }
  destruct e1 as [e|].
  - simpl. apply Fin. assumption.
  - destruct (second_pass c bl w1 cwd1) as [[w2 cwd2] e2] eqn:SP. simpl.
    apply Fin. eapply WFs_second_pass; eassumption.
Qed.

(* ---------- one successful system call of a run, any strategy ------------------------------------------------- *)
(* besides the two kinds of step of Pipe/ConfinedRun.v: a rename of an entry onto itself, and the replacing
   rename: the entry at [dp] is removed, the entry at [q ++ [c]] (strictly below the input directory d) and
   everything below it is re-keyed to [dp].  [dp] lies strictly below the same input directory, or at or below
   some input directory and is not a directory *)
Inductive fs_step2 (D : list rpath) (a b : fs) : Prop :=
| FS2_old : fs_step D a b -> fs_step2 D a b
| FS2_same : b = a -> fs_step2 D a b
| FS2_replace d q c dp : In d D -> is_prefix_path d q = true ->
    ((is_prefix_path d dp = true /\ dp <> d) \/ (below_some D dp /\ lookup a dp <> Some NDir)) ->
    b = rekey (q ++ [c]) dp (remove_key dp a) -> fs_step2 D a b.

Lemma below_some_trans D k k' : below_some D k -> is_prefix_path k k' = true -> below_some D k'.
Proof. intros [d [Hd P]] P'. exists d. split; [exact Hd | exact (is_prefix_trans _ _ _ P P')]. Qed.

Lemma fs_step2_changes D a b : fs_step2 D a b -> changes_in D a b.
Proof.
  intros [H | -> | d q c dp Hd Pq Hdp ->].
  - apply fs_step_changes; exact H.
  - apply changes_in_refl.
  - assert (Bd : below_some D dp).
    { destruct Hdp as [[P _]|[B _]]; [exists d; split; assumption | exact B]. }
    split; intros k n H K.
    + apply In_rekey_inv in H as [k0 [Hin ->]]. apply In_remove_key in Hin as [Hin Hne].
      unfold rekey_path in *. destruct (is_prefix_path (q ++ [c]) k0) eqn:E.
      * apply (below_some_trans _ dp); [exact Bd|]. apply is_prefix_path_spec. eexists; reflexivity.
      * exfalso. apply K. exact Hin.
    + destruct (rpath_eqb k dp) eqn:E.
      * apply rpath_eqb_eq in E. subst k. exact Bd.
      * apply rpath_eqb_neq in E. destruct (is_prefix_path (q ++ [c]) k) eqn:P.
        -- exists d. split; [exact Hd|]. apply (is_prefix_trans _ (q ++ [c])); [apply prefix_snoc; exact Pq | exact P].
        -- exfalso. apply K. pose proof (In_rekey (q ++ [c]) dp (remove_key dp a) k n) as X.
           rewrite (rekey_outside _ _ _ P) in X. apply X. apply In_remove_key. split; assumption.
Qed.

Fixpoint chain2 (D : list rpath) (a : fs) (l : list fs) : Prop :=
  match l with
  | [] => True
  | h :: l' => chain2 D a l' /\ fs_step2 D (hd a l') h
  end.

Lemma chain_chain2 D a l : chain D a l -> chain2 D a l.
Proof.
  induction l as [|h l IH]; intros H; [exact I|]. cbn [chain chain2] in *. destruct H as [H S].
  split; [apply IH; exact H | apply FS2_old; exact S].
Qed.

Lemma chain2_app D a l1 l2 : chain2 D a l1 -> chain2 D (hd a l1) l2 -> chain2 D a (l2 ++ l1).
Proof.
  intros H1. induction l2 as [|h l2 IH]; intros H2; [exact H1|].
  cbn [app chain2] in *. destruct H2 as [H2 S]. split; [apply IH; assumption|].
  rewrite hd_app. exact S.
Qed.

Lemma chain2_changes D a l : chain2 D a l -> forall h, In h l -> changes_in D a h.
Proof.
  induction l as [|x l IH]; intros H h Hin; [contradiction|].
  cbn [chain2] in H. destruct H as [H S]. destruct Hin as [<-|Hin]; [|apply IH; assumption].
  apply (changes_in_trans _ _ (hd a l)); [|apply fs_step2_changes; assumption].
  destruct l as [|y l]; [apply changes_in_refl|]. apply IH; [assumption | left; reflexivity].
Qed.

Definition wstep2 (P : Prop) (D : list rpath) (w w' : world) : Prop :=
  exists l, w_hist w' = l ++ w_hist w /\ w_fs w' = hd (w_fs w) l /\ (P -> chain2 D (w_fs w) l).

Lemma wstep_wstep2 (P : Prop) D w w' : wstep P D w w' -> wstep2 P D w w'.
Proof.
  intros [l [H [F C]]]. exists l. split; [exact H|]. split; [exact F|]. intros HP. apply chain_chain2, C, HP.
Qed.

Lemma wstep2_same (P : Prop) D w w' : w_fs w' = w_fs w -> w_hist w' = w_hist w -> wstep2 P D w w'.
Proof. intros A B. exists []. split; [assumption|]. split; [assumption|]. intros _. exact I. Qed.

Lemma wstep2_refl (P : Prop) D w : wstep2 P D w w.
Proof. apply wstep2_same; reflexivity. Qed.

Lemma wstep2_trans (P : Prop) D w w1 w2 : wstep2 P D w w1 -> wstep2 P D w1 w2 -> wstep2 P D w w2.
Proof.
  intros [l1 [H1 [F1 C1]]] [l2 [H2 [F2 C2]]]. exists (l2 ++ l1). split; [|split].
  - rewrite H2, H1. apply app_assoc.
  - rewrite F2, F1. symmetry. apply hd_app.
  - intros HP. apply chain2_app; [apply C1; assumption|]. rewrite <- F1. apply C2. assumption.
Qed.

Lemma wstep2_weaken (P Q : Prop) D w w' : (Q -> P) -> wstep2 P D w w' -> wstep2 Q D w w'.
Proof. intros I [l [H [F C]]]. exists l. split; [assumption|]. split; [assumption|]. intros HQ. apply C, I, HQ. Qed.

Lemma wstep2_sys (P : Prop) D flt k w r w' e :
  sys flt k w r = (w', e) -> (forall s', r = SOk s' -> P -> fs_step2 D (w_fs w) s') -> wstep2 P D w w'.
Proof.
  unfold sys. destruct (faulted flt w).
  - intros H _. inversion H; subst. apply wstep2_same; reflexivity.
  - destruct r as [s'|er]; intros H G; inversion H; subst.
    + exists [s']. split; [reflexivity|]. split; [reflexivity|]. intros HP. cbn [chain2 hd]. split; [exact I|].
      apply G; [reflexivity | assumption].
    + apply wstep2_same; reflexivity.
Qed.

Lemma wstep2_add_report (P : Prop) D w w1 src dst o : wstep2 P D w w1 -> wstep2 P D w (add_report w1 src dst o).
Proof. intros H. apply (wstep2_trans _ _ _ w1); [assumption|]. apply wstep2_same; reflexivity. Qed.

(* ---------- path facts --------------------------------------------------------------------------------------- *)
(* an entry that is not a symbolic link is found with and without following the last link *)
Lemma walk_nofollow_found_follow s f : forall cur comps p n,
  walk f s cur comps false = WFound p n -> is_link_node n = false -> walk f s cur comps true = WFound p n.
Proof.
  induction f as [|f IH]; intros cur comps p n H Hn; [simpl in H; discriminate|].
  rewrite walk_S in H. rewrite walk_S. destruct comps as [|c rest]; [exact H|].
  destruct (lookup s cur) as [[i|i t|]|]; try discriminate.
  destruct (name_eqb c dotdot); [apply IH; assumption|].
  destruct (lookup s (cur ++ [c])) as [[i|i t|]|] eqn:L.
  - destruct rest; [exact H | apply IH; assumption].
  - destruct rest; [inversion H; subst; discriminate | apply IH; assumption].
  - destruct rest; [exact H | apply IH; assumption].
  - destruct rest; discriminate.
Qed.

Lemma resolve_nofollow_found_follow s cwd p q n :
  resolve s cwd p false = WFound q n -> is_link_node n = false -> resolve s cwd p true = WFound q n.
Proof. rewrite !resolve_unfold. apply walk_nofollow_found_follow. Qed.

(* Path.resolve() of (input directory / generated path) is the entry the kernel finds for the generated path
   from inside the input directory (links followed) *)
Lemma dest_found_realpath s f np dp dn :
  chdir s (pf_dir f) = Some (pf_dir f) ->
  resolve s (pf_dir f) (to_upath np) true = WFound dp dn ->
  realpath_raw s [] (dest_target f np) = dp.
Proof.
  intros Hc H. apply chdir_self in Hc. rewrite resolve_unfold in Hc. cbn [up_abs up_comps] in Hc.
  rewrite to_upath_walk' in H. unfold dest_target, realpath_raw. cbn [up_abs up_comps].
  pose proof fuel_gap as FG.
  destruct (Nat.eqb (pp_root np) 0).
  - destruct (pp_parts np) as [|c1 r1] eqn:E.
    + rewrite app_nil_r.
      destruct (walk_found_pos _ _ _ _ _ _ _ H) as [f0 Ef]. rewrite Ef, walk_S in H.
      destruct (lookup s (pf_dir f)); [|discriminate H]. inversion H; subst dp.
      rewrite (walk_realpath_agree _ _ _ _ _ _ realpath_fuel Hc); [reflexivity | lia].
    + pose proof (walk_app_join _ _ _ _ _ _ _ _ _ _ (ltac:(discriminate) : c1 :: r1 <> []) Hc H ltac:(discriminate)) as K.
      rewrite (walk_realpath_agree _ _ _ _ _ _ realpath_fuel K); [reflexivity | lia].
  - rewrite (walk_realpath_agree _ _ _ _ _ _ realpath_fuel H); [reflexivity | lia].
Qed.

(* FileRenamer: source and destination have the same parent, so their keys are siblings *)
Lemma same_parent_keys s d src dst sp sn0 :
  pp_parent src = pp_parent dst -> bad_last (to_upath src) = false ->
  resolve s d (to_upath src) false = WFound sp sn0 ->
  exists q c, sp = q ++ [c] /\
    (forall dpar dname, resolve s d (to_upath dst) false = WMissing dpar dname -> dpar = q) /\
    (forall dp dn, bad_last (to_upath dst) = false -> resolve s d (to_upath dst) false = WFound dp dn ->
                   exists c', dp = q ++ [c']).
Proof.
  intros Ep Hb Rs. destruct (bad_last_false_snoc _ Hb) as [Es Ed].
  rewrite to_upath_walk' in Rs. rewrite Es in Rs.
  destruct (walk_last_component _ _ _ _ _ _ _ Ed Rs) as [q [A E]].
  exists q, (last (pp_parts src) []). split; [exact E|].
  assert (Er : pp_root dst = pp_root src) by (apply (f_equal pp_root) in Ep; symmetry; exact Ep).
  assert (Ea : removelast (pp_parts dst) = removelast (pp_parts src)) by (apply (f_equal pp_parts) in Ep; symmetry; exact Ep).
  split.
  - intros dpar dname Rd. rewrite to_upath_walk' in Rd. rewrite Er in Rd.
    destruct (walk_missing_last _ _ _ _ _ _ Rd) as [a [Ec [_ [Wa _]]]].
    assert (Ea' : a = removelast (pp_parts src)).
    { rewrite <- Ea, Ec. symmetry. apply removelast_snoc. }
    subst a. destruct (walk_found_det _ _ _ _ _ _ _ _ _ _ Wa A) as [X _]. exact X.
  - intros dp dn Hbd Rd. destruct (bad_last_false_snoc _ Hbd) as [Es' Ed'].
    rewrite to_upath_walk' in Rd. rewrite Er, Es', Ea in Rd.
    destruct (walk_last_component _ _ _ _ _ _ _ Ed' Rd) as [q' [A' E']].
    destruct (walk_found_det _ _ _ _ _ _ _ _ _ _ A' A) as [X _]. subst q'. eexists; exact E'.
Qed.

Lemma os_rename_ok_not_bad_last_dst s cwd src dst s' : os_rename s cwd src dst = SOk s' -> bad_last dst = false.
Proof.
  unfold os_rename. destruct (bad_last dst); [|reflexivity]. rewrite orb_true_r.
  destruct (resolve s cwd src false); [destruct (resolve s cwd dst false)| |]; discriminate.
Qed.

Lemma is_dir_true_found s cwd p : is_dir s cwd p = true -> exists q, resolve s cwd p true = WFound q NDir.
Proof.
  unfold is_dir. destruct (resolve s cwd p true) as [q [| |]| |]; try discriminate. intros _. exists q; reflexivity.
Qed.

Lemma file_mover_override_unfold flt w cwd src dst :
  file_mover fixed flt w cwd src dst true =
  match mkdir_p (S (length (pp_parts dst))) flt w cwd (pp_parent dst) with
  | (w1, Some e) => (w1, Some e)
  | (w1, None) =>
    match sys flt CMove w1 (shutil_move_fs (w_fs w1) cwd (to_upath src) (to_upath dst)) with
    | (w2, None) => (w2, None)
    | (w2, Some _) => (w2, Some ExOther)
    end
  end.
Proof. reflexivity. Qed.

Lemma shutil_move_cases s cwd src dst s' :
  shutil_move_fs s cwd src dst = SOk s' ->
  os_rename s cwd src dst = SOk s' \/
  (is_dir s cwd dst = true /\
   os_rename s cwd src {| up_abs := up_abs dst; up_comps := up_comps dst ++ [last (up_comps src) []] |} = SOk s').
Proof.
  unfold shutil_move_fs. destruct (is_dir s cwd dst); [|intros H; left; exact H].
  destruct (same_entry s cwd src dst); [intros H; left; exact H|].
  match goal with |- context [exists_ ?a ?b ?c] => destruct (exists_ a b c) end; [discriminate|].
  intros H. right. split; [reflexivity | exact H].
Qed.

Lemma resolve_mk s cwd a comps fl :
  resolve s cwd {| up_abs := a; up_comps := comps |} fl = walk walk_fuel s (if a then [] else cwd) comps fl.
Proof. rewrite resolve_unfold. reflexivity. Qed.

(* one more component below a directory the walk has found *)
Lemma walk_into_dir s f cur comps nm P :
  walk f s cur comps true = WFound P NDir -> name_eqb nm dotdot = false ->
  (forall dpar dname, walk f s cur (comps ++ [nm]) false = WMissing dpar dname -> dpar ++ [dname] = P ++ [nm]) /\
  (forall dp dn, walk f s cur (comps ++ [nm]) false = WFound dp dn -> dp = P ++ [nm]).
Proof.
  intros R Ed. split.
  - intros dpar dname Rd.
    destruct (walk_missing_last _ _ _ _ _ _ Rd) as [a [Ec [_ [Wa _]]]].
    apply app_inj_tail in Ec as [Ea En]. subst a dname.
    destruct (walk_found_det _ _ _ _ _ _ _ _ _ _ Wa R) as [X _]. rewrite X. reflexivity.
  - intros dp dn Rd.
    destruct (walk_last_component _ _ _ _ _ _ _ Ed Rd) as [q [A E]].
    destruct (walk_found_det _ _ _ _ _ _ _ _ _ _ A R) as [X _]. rewrite E, X. reflexivity.
Qed.

(* the key of an EXISTING destination entry (the one a replacing rename removes; the last component is not
   followed): realpath(all but the last component) ++ [last component], below the input directory once the
   test on the directory of the destination entry said yes (F34) *)
Lemma dest_key_inside s f np dp dn :
  chdir s (pf_dir f) = Some (pf_dir f) ->
  dest_parent_contained s f np = Some true ->
  bad_last (to_upath np) = false ->
  resolve s (pf_dir f) (to_upath np) false = WFound dp dn ->
  is_prefix_path (pf_dir f) dp = true.
Proof.
  intros Hc Dc Hb R.
  assert (Hne : pp_parts np <> []).
  { destruct (bad_last_false_snoc _ Hb) as [Ep _]. rewrite Ep. intros K. apply app_eq_nil in K as [_ K]. discriminate K. }
  rewrite (dest_parent_contained_as_source s f np Hne) in Dc.
  exact (source_key_inside s (as_source f np) dp dn Hc (source_contained_inside _ _ Dc) Hb R).
Qed.

(* ---------- the renamer with override, or with a custom path, on a later tree than the one the tests saw ------- *)
Section Step2.
Variable D : list rpath.
Variables (f : pfile) (dst : ppath) (s1 : fs).     (* s1: the tree on which first_pass made its tests *)
Hypothesis HdD : In (pf_dir f) D.
Hypothesis Ct : contained fixed s1 f dst = Some true.
Hypothesis Pc : parents_contained s1 f dst = Some true.
Hypothesis Sc : source_contained s1 f = Some true.
Hypothesis Dc : dest_parent_contained s1 f dst = Some true.

(* what is known about the key rename(2) uses for the destination path [u] *)
Definition dest_ok (sx : fs) (u : upath) : Prop :=
  (forall dpar dname, resolve sx (pf_dir f) u false = WMissing dpar dname ->
     is_prefix_path (pf_dir f) (dpar ++ [dname]) = true) /\
  (forall dp dn, resolve sx (pf_dir f) u false = WFound dp dn ->
     is_prefix_path (pf_dir f) dp = true \/ (is_link_node dn = true /\ below_some D dp)).

Lemma snoc_not_prefix_self (d q : rpath) (c : name) : is_prefix_path d q = true -> q ++ [c] <> d.
Proof.
  intros P E. apply is_prefix_path_spec in P as [r ->]. apply (f_equal (@length name)) in E.
  rewrite !app_length in E. simpl in E. lia.
Qed.

Lemma rename_any_step sx u s' :
  chdir sx (pf_dir f) = Some (pf_dir f) -> source_inside sx f ->
  (bad_last (to_upath (pf_rel f)) = false -> bad_last u = false ->
   forall q c sn0, resolve sx (pf_dir f) (to_upath (pf_rel f)) false = WFound (q ++ [c]) sn0 ->
     is_prefix_path (pf_dir f) q = true -> dest_ok sx u) ->
  os_rename sx (pf_dir f) (to_upath (pf_rel f)) u = SOk s' -> fs_step2 D sx s'.
Proof.
  intros Hc Hs HD R.
  pose proof (os_rename_ok_not_bad_last _ _ _ _ _ R) as Hb.
  pose proof (os_rename_ok_not_bad_last_dst _ _ _ _ _ R) as Hbd.
  revert R. unfold os_rename. rewrite Hb, Hbd. cbn [orb].
  destruct (resolve sx (pf_dir f) (to_upath (pf_rel f)) false) as [sp sn0|? ?|?] eqn:Rs; try discriminate.
  destruct (source_key_split _ _ _ _ Hc Hs Hb Rs) as [q [c [Esp Pq]]].
  assert (HD' : dest_ok sx u) by (subst sp; exact (HD Hb Hbd q c sn0 eq_refl Pq)). clear HD. destruct HD' as [DM DF].
  pose proof (resolve_found _ _ _ _ _ _ Rs) as Ls.
  destruct sp as [|x0 l0]; [destruct q; discriminate|].
  destruct (resolve sx (pf_dir f) u false) as [dp dn|dpar dname|e] eqn:Rd; try discriminate.
  - destruct (rpath_eqb dp (x0 :: l0)) eqn:E; [intros H; inversion H; apply FS2_same; reflexivity|].
    destruct dp as [|y dp']; [discriminate|].
    pose proof (resolve_found _ _ _ _ _ _ Rd) as Ld.
    assert (Bd : below_some D (y :: dp')).
    { destruct (DF _ _ eq_refl) as [P|[_ B]]; [exists (pf_dir f); split; assumption | exact B]. }
    assert (G2 : is_dir_node dn = false -> fs_step2 D sx (rekey (x0 :: l0) (y :: dp') (remove_key (y :: dp') sx))).
    { intros Hn. rewrite Esp. apply (FS2_replace D sx _ (pf_dir f) q c (y :: dp') HdD Pq); [|reflexivity].
      right. split; [exact Bd|]. rewrite Ld. intros K. inversion K; subst dn. discriminate. }
    destruct sn0, dn; try discriminate; try (intros H; inversion H; apply G2; reflexivity).
    destruct (is_prefix_path (x0 :: l0) (y :: dp')) eqn:Pp; [discriminate|].
    destruct (has_children sx (y :: dp')) eqn:Hch; [discriminate|].
    intros H; inversion H. rewrite Esp.
    apply (FS2_replace D sx _ (pf_dir f) q c (y :: dp') HdD Pq); [|reflexivity].
    left. destruct (DF _ _ eq_refl) as [P|[K _]]; [|discriminate]. split; [exact P|].
    intros K.
    assert (Hin : In (x0 :: l0, NDir) sx) by (apply lookup_In; [discriminate | exact Ls]).
    assert (Ps : is_prefix_path (y :: dp') (x0 :: l0) = true).
    { rewrite K, Esp. apply prefix_snoc. exact Pq. }
    pose proof (has_children_false _ _ Hch _ _ Hin Ps) as X. rewrite Esp, K in X.
    exact (snoc_not_prefix_self _ _ _ Pq X).
  - destruct (name_eqb dname dotdot); [discriminate|].
    destruct (is_dir_node sn0 && is_prefix_path (x0 :: l0) (dpar ++ [dname])); [discriminate|].
    intros H; inversion H. rewrite Esp. apply FS2_old.
    exact (FS_rename D sx _ (pf_dir f) q c (dpar ++ [dname]) HdD Pq (DM _ _ eq_refl) eq_refl).
Qed.

(* name and directory mode, generated name or custom path alike *)
Lemma dest_ok_same_parent sx dst' q c sn0 :
  pp_parent (pf_rel f) = pp_parent dst' ->
  bad_last (to_upath (pf_rel f)) = false -> bad_last (to_upath dst') = false ->
  resolve sx (pf_dir f) (to_upath (pf_rel f)) false = WFound (q ++ [c]) sn0 ->
  is_prefix_path (pf_dir f) q = true ->
  dest_ok sx (to_upath dst').
Proof.
  intros Ep Hb Hbd Rs Pq. destruct (same_parent_keys _ _ _ _ _ _ Ep Hb Rs) as [q' [c' [E [M F]]]].
  apply app_inj_tail in E as [<- <-]. split.
  - intros dpar dname Rd. rewrite (M _ _ Rd). apply prefix_snoc; exact Pq.
  - intros dp dn Rd. left. destruct (F _ _ Hbd Rd) as [c2 ->]. apply prefix_snoc; exact Pq.
Qed.

Lemma tested_follow_inside sn sx dp dn :
  still_valid D f s1 sn -> dir_ext sn sx ->
  resolve sx (pf_dir f) (to_upath dst) true = WFound dp dn -> is_prefix_path (pf_dir f) dp = true.
Proof.
  intros [Hc0 [RP _]] E R. pose proof (chdir_dir_ext _ _ _ E Hc0) as Hc.
  rewrite <- (dest_found_realpath _ _ _ _ _ Hc R). rewrite (realpath_raw_dir_ext _ _ _ _ E), RP.
  apply contained_true_prefix. exact Ct.
Qed.

(* path mode, the generated path itself.  A destination that does not exist yet: the key is what [contained]
   resolved.  One that exists: rename(2) does not follow a symbolic link in the last component, so the key is
   realpath(all but the last component) ++ [last component]: what [dest_parent_contained] resolved (F34) *)
Lemma dest_ok_tested sn sx :
  still_valid D f s1 sn -> dir_ext sn sx -> bad_last (to_upath dst) = false -> dest_ok sx (to_upath dst).
Proof.
  intros SV E Hbd. pose proof SV as [Hc0 [RP _]]. pose proof (chdir_dir_ext _ _ _ E Hc0) as Hc. split.
  - intros dpar dname Rd. rewrite <- (dest_realpath _ _ _ _ _ Hc Rd). rewrite (realpath_raw_dir_ext _ _ _ _ E), RP.
    apply contained_true_prefix; exact Ct.
  - intros dp dn Rd. left.
    assert (Hne : pp_parts dst <> []).
    { destruct (bad_last_false_snoc _ Hbd) as [Ep _]. rewrite Ep. intros K. apply app_eq_nil in K as [_ K]. discriminate K. }
    assert (Hs : source_inside sx (as_source f dst)).
    { unfold source_inside. rewrite (realpath_raw_dir_ext _ _ _ _ E), RP.
      apply source_contained_inside. rewrite <- (dest_parent_contained_as_source s1 f dst Hne). exact Dc. }
    destruct (source_key_split sx (as_source f dst) dp dn Hc Hs Hbd Rd) as [q [c [-> Pq]]].
    apply prefix_snoc. exact Pq.
Qed.

(* path mode, shutil.move into an existing directory: destination / name of the source *)
Lemma dest_ok_into_dir sn sx nm :
  still_valid D f s1 sn -> dir_ext sn sx -> name_eqb nm dotdot = false ->
  is_dir sx (pf_dir f) (to_upath dst) = true ->
  dest_ok sx {| up_abs := up_abs (to_upath dst); up_comps := up_comps (to_upath dst) ++ [nm] |}.
Proof.
  intros SV E Ed Hd. apply is_dir_true_found in Hd as [P R].
  pose proof (tested_follow_inside sn sx P NDir SV E R) as PP.
  rewrite resolve_unfold in R.
  destruct (walk_into_dir _ _ _ _ nm _ R Ed) as [M F]. split.
  - intros dpar dname Rd. rewrite resolve_mk in Rd. rewrite (M _ _ Rd). apply prefix_snoc. exact PP.
  - intros dp dn Rd. left. rewrite resolve_mk in Rd. rewrite (F _ _ Rd). apply prefix_snoc; exact PP.
Qed.

Lemma still_valid_source sn sx : still_valid D f s1 sn -> dir_ext sn sx -> source_inside sx f.
Proof.
  intros [_ [RP _]] E. unfold source_inside. rewrite (realpath_raw_dir_ext _ _ _ _ E), RP.
  apply source_contained_inside. exact Sc.
Qed.

(* FileRenamer, any destination path, with or without override *)
Lemma file_renamer_any_wstep2 flt w dst' o w' e :
  file_renamer fixed flt w (pf_dir f) (pf_rel f) dst' o = (w', e) ->
  wstep2 (still_valid D f s1 (w_fs w)) D w w'.
Proof.
  unfold file_renamer.
  destruct (negb o && guard_exists fixed (w_fs w) (pf_dir f) (to_upath dst')); [intros H; inversion H; subst; apply wstep2_refl|].
  destruct (ppath_eqb (pp_parent (pf_rel f)) (pp_parent dst')) eqn:Ep; cbn [negb];
    [|intros H; inversion H; subst; apply wstep2_refl].
  apply ppath_eqb_spec in Ep.
  destruct (sys flt CRename w (os_rename (w_fs w) (pf_dir f) (to_upath (pf_rel f)) (to_upath dst'))) as [w1 e1] eqn:Sy.
  intros H. assert (Ew : w1 = w') by (destruct e1; inversion H; reflexivity). subst w1. clear H.
  apply (wstep2_sys _ _ _ _ _ _ _ _ Sy). intros s' R SV.
  eapply rename_any_step; [exact (proj1 SV) | exact (still_valid_source _ _ SV (dir_ext_refl _)) | | exact R].
  intros Hb Hbd q c sn0 Rs Pq. exact (dest_ok_same_parent _ _ _ _ _ Ep Hb Hbd Rs Pq).
Qed.

(* FileMover with override: no guard, mkdir -p, shutil.move *)
Lemma file_mover_override_wstep2 flt w w' e :
  file_mover fixed flt w (pf_dir f) (pf_rel f) dst true = (w', e) ->
  wstep2 (still_valid D f s1 (w_fs w)) D w w'.
Proof.
  rewrite file_mover_override_unfold.
  destruct (mkdir_p (S (length (pp_parts dst))) flt w (pf_dir f) (pp_parent dst)) as [w1 r1] eqn:MP.
  assert (Hn : vouched f s1 (pp_parent dst)).
  { intros Hp. left. apply (parents_contained_ndi _ _ _ Pc Hp). }
  destruct (mkdir_p_wstep D f s1 HdD _ _ _ _ _ _ _ (dir_ext_refl _) Hn MP) as [E1 C1].
  apply wstep_wstep2 in C1.
  destruct r1 as [e1|]; [intros H; inversion H; subst; assumption|].
  destruct (sys flt CMove w1 (shutil_move_fs (w_fs w1) (pf_dir f) (to_upath (pf_rel f)) (to_upath dst))) as [w2 e2] eqn:Sy.
  intros H. assert (Ew : w2 = w') by (destruct e2; inversion H; reflexivity). subst w2. clear H.
  apply (wstep2_trans _ _ _ _ _ C1).
  apply (wstep2_sys _ _ _ _ _ _ _ _ Sy). intros s' R SV.
  pose proof (chdir_dir_ext _ _ _ E1 (proj1 SV)) as Hc.
  pose proof (still_valid_source _ _ SV E1) as Hs.
  assert (Plain : forall s2, os_rename (w_fs w1) (pf_dir f) (to_upath (pf_rel f)) (to_upath dst) = SOk s2 ->
                             fs_step2 D (w_fs w1) s2).
  { intros s2 R2. eapply rename_any_step; [exact Hc | exact Hs | | exact R2].
    intros _ Hbd q c sn0 _ _. exact (dest_ok_tested _ _ SV E1 Hbd). }
  destruct (shutil_move_cases _ _ _ _ _ R) as [R1|[Hd R2]]; [apply Plain; exact R1|].
  eapply rename_any_step; [exact Hc | exact Hs | | exact R2].
  intros Hb _ q c sn0 _ _. apply (dest_ok_into_dir _ _ _ SV E1); [|exact Hd].
  exact (proj2 (bad_last_false_snoc _ Hb)).
Qed.

(* the renamer: the generated path in every mode, any path in name and directory mode; any override flag *)
Lemma renamer_any_wstep2 c w dst' o w' e :
  c_var c = fixed -> (dst' = dst \/ c_mode c <> MPath) ->
  renamer c w (pf_dir f) (pf_rel f) dst' o = (w', e) ->
  wstep2 (still_valid D f s1 (w_fs w)) D w w'.
Proof.
  intros Hv Hdst. unfold renamer, renamer_core. rewrite Hv.
  destruct (c_dry c).
  - match goal with |- context [dry_renamer ?a ?b ?c ?d ?e ?g ?h] =>
      destruct (dry_renamer a b c d e g h) as [w1 [e1|]] eqn:Dr end;
      intros H; inversion H; subst;
      destruct (Safety.dry_renamer_fs _ _ _ _ _ _ _ _ _ Dr) as [A B];
      [|apply wstep2_add_report]; apply wstep2_same; assumption.
  - destruct (c_mode c) eqn:Cm.
    + destruct (file_renamer fixed (c_fault c) w (pf_dir f) (pf_rel f) dst' o) as [w1 [e1|]] eqn:Dr;
        intros H; inversion H; subst; [|apply wstep2_add_report];
        exact (file_renamer_any_wstep2 _ _ _ _ _ _ Dr).
    + destruct Hdst as [->|K]; [|contradiction K; reflexivity].
      destruct o.
      * destruct (file_mover fixed (c_fault c) w (pf_dir f) (pf_rel f) dst true) as [w1 [e1|]] eqn:Dr;
          intros H; inversion H; subst; [|apply wstep2_add_report];
          exact (file_mover_override_wstep2 _ _ _ _ Dr).
      * destruct (file_mover fixed (c_fault c) w (pf_dir f) (pf_rel f) dst false) as [w1 [e1|]] eqn:Dr;
          intros H; inversion H; subst; [|apply wstep2_add_report];
          exact (wstep_wstep2 _ _ _ _ (file_mover_wstep D f dst s1 HdD Ct Pc Sc _ _ _ _ Dr)).
    + destruct (file_renamer fixed (c_fault c) w (pf_dir f) (pf_rel f) dst' o) as [w1 [e1|]] eqn:Dr;
        intros H; inversion H; subst; [|apply wstep2_add_report];
        exact (file_renamer_any_wstep2 _ _ _ _ _ _ Dr).
Qed.

End Step2.

(* ---------- the manual prompt -------------------------------------------------------------------------------------- *)
Lemma prompt_custom fuel : forall w p w1,
  prompt fuel w = (DPath p, w1) -> exists a, In a (w_answers w) /\ parse_answer a = ACustom.
Proof.
  induction fuel as [|fuel IH]; intros w p w1; simpl; [discriminate|].
  destruct (take_line w) as [[l|] w2] eqn:T; [|discriminate].
  destruct (take_line_props _ _ _ T) as [A [B [C0 D0]]].
  destruct (parse_answer l) eqn:Pl; try discriminate.
  - intros _. exists l. split; [apply C0; reflexivity | exact Pl].
  - intros E. destruct (IH _ _ _ E) as [a [Ha Pa]]. exists a. split; [apply D0; exact Ha | exact Pa].
Qed.

(* the configuration can lead to a replacing rename: --conflict-strategy override, or an "override" answer *)
Definition overriding (c : cfg) : Prop :=
  c_strategy c = Override \/
  (c_strategy c = Manual /\ exists a, In a (c_answers c) /\ parse_answer a = AOverride).

(* ---------- the two passes ------------------------------------------------------------------------------------------ *)
Section Run2.
Variables (c : cfg) (D : list rpath) (s : fs).       (* s: the initial tree *)
Hypothesis Hv : c_var c = fixed.
(* path mode: no custom path is typed at the prompt *)
Hypothesis NC : c_mode c = MPath -> c_strategy c = Manual -> Forall (fun a => parse_answer a <> ACustom) (c_answers c).

Fixpoint cchain2 (l : list fs) : Prop :=
  match l with
  | [] => True
  | h :: l' => cchain2 l' /\ (Forall (good D s) (l' ++ [s]) -> fs_step2 D (hd s l') h)
  end.

Definition tracked2 (w : world) : Prop := w_fs w = hd s (w_hist w) /\ cchain2 (w_hist w).

Lemma cchain_cchain2 l : cchain D s l -> cchain2 l.
Proof.
  induction l as [|h l IH]; intros H; [exact I|]. cbn [cchain cchain2] in *. destruct H as [H S].
  split; [apply IH; exact H | intros G; apply FS2_old, S, G].
Qed.

Lemma tracked_tracked2 w : tracked D s w -> tracked2 w.
Proof. intros [A B]. split; [exact A | apply cchain_cchain2; exact B]. Qed.

Lemma cchain2_chain2 l : cchain2 l -> Forall (good D s) (l ++ [s]) -> chain2 D s l.
Proof.
  induction l as [|h l IH]; intros C G; [exact I|].
  cbn [cchain2 app] in *. destruct C as [C S]. inversion G as [|? ? _ G']; subst.
  split; [apply IH; assumption | apply S; assumption].
Qed.

Lemma good_changes2 l : cchain2 l -> Forall (good D s) (l ++ [s]) -> forall h, In h (l ++ [s]) -> changes_in D s h.
Proof.
  intros C G h Hin. apply in_app_or in Hin as [Hin|[<-|[]]]; [|apply changes_in_refl].
  exact (chain2_changes _ _ _ (cchain2_chain2 _ C G) _ Hin).
Qed.

Lemma tracked2_wstep2 (P : Prop) w w' :
  tracked2 w -> wstep2 P D w w' -> (Forall (good D s) (w_hist w ++ [s]) -> P) -> tracked2 w'.
Proof.
  intros [Hf Hc] [l [H [F C]]] HP. split.
  - rewrite F, H, Hf. symmetry. apply hd_app.
  - rewrite H. clear H F. induction l as [|h l IH]; [exact Hc|].
    cbn [app cchain2]. split.
    + apply IH. intros K. exact (proj1 (C K)).
    + intros G. rewrite <- app_assoc in G. pose proof (proj2 (proj1 (Forall_app _ _ _) G)) as G2.
      destruct (C (HP G2)) as [_ S]. rewrite hd_app, <- Hf. exact S.
Qed.

Lemma good_still_valid2 f s1 w :
  tracked2 w -> In (pf_dir f) D -> In s1 (w_hist w ++ [s]) -> Forall (good D s) (w_hist w ++ [s]) ->
  still_valid D f s1 (w_fs w).
Proof.
  intros [Hf Hc] HfD Hs1 G.
  assert (Gw : good D s (w_fs w)) by (rewrite Forall_forall in G; apply G; rewrite Hf; apply hd_in).
  assert (G1 : good D s s1) by (rewrite Forall_forall in G; apply G; exact Hs1).
  split; [apply (proj1 Gw); exact HfD|]. split.
  - intros p. rewrite (realpath_raw_same_links _ _ _ _ (proj2 Gw)), (realpath_raw_same_links _ _ _ _ (proj2 G1)). reflexivity.
  - apply (changes_in_trans _ _ s).
    + apply changes_in_sym. exact (good_changes2 _ Hc G _ Hs1).
    + apply (good_changes2 _ Hc G). rewrite Hf. apply hd_in.
Qed.

(* the renamer, called for a file whose four tests said yes on an earlier state: with the generated path (any
   override flag), or -- outside path mode -- with any path *)
Lemma renamer_tracked2 f dst s1 dst' o cwd1 w w1 e1 :
  tracked2 w -> In (pf_dir f) D -> In s1 (w_hist w ++ [s]) ->
  contained fixed s1 f dst = Some true -> parents_contained s1 f dst = Some true ->
  source_contained s1 f = Some true -> dest_parent_contained s1 f dst = Some true ->
  (Forall (good D s) (w_hist w ++ [s]) -> cwd1 = pf_dir f) ->
  (dst' = dst \/ c_mode c <> MPath) ->
  renamer c w cwd1 (pf_rel f) dst' o = (w1, e1) ->
  tracked2 w1 /\ exists l, w_hist w1 = l ++ w_hist w.
Proof.
  intros Tw HfD Hs1 Ct Pc Sc Dc Hc Hdst Rn.
  assert (St : wstep2 (Forall (good D s) (w_hist w ++ [s])) D w w1).
  { destruct (rpath_eqb cwd1 (pf_dir f)) eqn:Ec.
    - apply rpath_eqb_eq in Ec. subst cwd1.
      eapply wstep2_weaken; [|exact (renamer_any_wstep2 D f dst s1 HfD Ct Pc Sc Dc c w dst' o w1 e1 Hv Hdst Rn)].
      intros G. apply good_still_valid2; assumption.
    - apply (wstep2_weaken False); [|exact (wstep_wstep2 _ _ _ _ (renamer_shape D _ _ _ _ _ _ _ _ Rn))].
      intros G. rewrite (Hc G), rpath_eqb_refl in Ec. discriminate. }
  split; [exact (tracked2_wstep2 _ _ _ Tw St (fun x => x))|].
  destruct St as [l [H _]]. exists l. exact H.
Qed.

Lemma resolve_conflict_tracked2 f dst s1 cwd1 w w' e :
  tracked2 w -> In (pf_dir f) D -> In s1 (w_hist w ++ [s]) ->
  contained fixed s1 f dst = Some true -> parents_contained s1 f dst = Some true ->
  source_contained s1 f = Some true -> dest_parent_contained s1 f dst = Some true ->
  (Forall (good D s) (w_hist w ++ [s]) -> cwd1 = pf_dir f) -> answers_within c w ->
  resolve_conflict c w cwd1 (pf_rel f) dst = (w', e) ->
  tracked2 w' /\ (exists l, w_hist w' = l ++ w_hist w) /\ answers_within c w'.
Proof.
  intros Tw HfD Hs1 Ct Pc Sc Dc Hc AW. unfold resolve_conflict.
  assert (RS : forall st w0, tracked2 w0 -> w_fs w0 = w_fs w -> w_hist w0 = w_hist w -> answers_within c w0 ->
              resolve_simple c st w0 cwd1 (pf_rel f) dst = (w', e) ->
              tracked2 w' /\ (exists l, w_hist w' = l ++ w_hist w) /\ answers_within c w').
  { intros st w0 T0 F0 H0 AW0. destruct st; simpl;
      try (intros E; inversion E; subst; split; [exact T0|]; split; [exists []; exact H0 | exact AW0]).
    intros Rn.
    assert (Hs1' : In s1 (w_hist w0 ++ [s])) by (rewrite H0; exact Hs1).
    assert (Hc' : Forall (good D s) (w_hist w0 ++ [s]) -> cwd1 = pf_dir f) by (rewrite H0; exact Hc).
    destruct (renamer_tracked2 f dst s1 dst true cwd1 w0 w' e T0 HfD Hs1' Ct Pc Sc Dc Hc' (or_introl eq_refl) Rn)
      as [T1 [l Hl]].
    split; [exact T1|]. split; [exists l; rewrite Hl, H0; reflexivity|].
    intros a Ha. apply AW0. rewrite <- (renamer_answers _ _ _ _ _ _ _ _ Rn). exact Ha. }
  destruct (c_strategy c) eqn:Cs.
  - apply RS; auto.
  - apply RS; auto.
  - apply RS; auto.
  - destruct (prompt (S (length (w_answers w))) w) as [d w1] eqn:P.
    destruct (prompt_props _ _ _ _ P) as [A [B [C0 [Dd NM]]]].
    assert (T1 : tracked2 w1) by (unfold tracked2; rewrite A, B; exact Tw).
    assert (AW1 : answers_within c w1) by (intros a Ha; apply AW, C0, Ha).
    destruct d as [st|p|].
    + apply RS; auto.
    + intros Rn.
      assert (Nm : c_mode c <> MPath).
      { intros Cm. destruct (prompt_custom _ _ _ _ P) as [a [Ha Pa]].
        pose proof (NC Cm eq_refl) as F. rewrite Forall_forall in F. exact (F a (AW a Ha) Pa). }
      assert (Hs1' : In s1 (w_hist w1 ++ [s])) by (rewrite B; exact Hs1).
      assert (Hc' : Forall (good D s) (w_hist w1 ++ [s]) -> cwd1 = pf_dir f) by (rewrite B; exact Hc).
      destruct (renamer_tracked2 f dst s1 (parse_path p) false cwd1 w1 w' e T1 HfD Hs1' Ct Pc Sc Dc Hc' (or_intror Nm) Rn)
        as [T2 [l Hl]].
      split; [exact T2|]. split; [exists l; rewrite Hl, B; reflexivity|].
      intros a Ha. apply AW1. rewrite <- (renamer_answers _ _ _ _ _ _ _ _ Rn). exact Ha.
    + intros E; inversion E; subst. split; [exact T1|]. split; [exists []; exact B | exact AW1].
Qed.

Lemma second_pass_tracked2 : forall bl w cwd w' cwd' e,
  tracked2 w -> bl_ok D s (w_hist w) bl -> answers_within c w ->
  second_pass c bl w cwd = (w', cwd', e) -> tracked2 w'.
Proof.
  induction bl as [|[[d src] dst] rest IH]; intros w cwd w' cwd' e Tw Hbl AW.
  - intros H. inversion H; subst. exact Tw.
  - cbn [second_pass]. rewrite Hv. cbn [fixed v_backlog_chdir].
    destruct (Forall_inv Hbl) as [f [dst0 [s1 [E [HfD [Hs1 [Ct [Pc [Sc Dc]]]]]]]]].
    pose proof (Forall_inv_tail Hbl) as Hrest.
    inversion E; subst d src dst0. clear E.
    destruct (chdir (w_fs w) (pf_dir f)) as [cwd1|] eqn:Hc; [|intros H; inversion H; subst; exact Tw].
    destruct (backlog_verify fixed (w_fs w) (pf_dir f) (pf_rel f) dst); [intros H; inversion H; subst; exact Tw|].
    destruct (renamer c w cwd1 (pf_rel f) dst false) as [w1 e1] eqn:Rn.
    assert (Hcw : Forall (good D s) (w_hist w ++ [s]) -> cwd1 = pf_dir f).
    { intros G. rewrite Forall_forall in G. destruct (G (w_fs w)) as [G1 _].
      { rewrite (proj1 Tw). apply hd_in. }
      rewrite (G1 _ HfD) in Hc. inversion Hc; reflexivity. }
    destruct (renamer_tracked2 f dst s1 dst false cwd1 w w1 e1 Tw HfD Hs1 Ct Pc Sc Dc Hcw (or_introl eq_refl) Rn)
      as [Tw1 [l Hl]].
    pose proof (renamer_answers _ _ _ _ _ _ _ _ Rn) as A1.
    assert (Hbl1 : bl_ok D s (w_hist w1) rest) by (rewrite Hl; apply bl_ok_ext; exact Hrest).
    assert (AW1 : answers_within c w1) by (intros a Ha; apply AW; rewrite <- A1; exact Ha).
    destruct e1 as [ex|]; [|apply IH; assumption].
    destruct (is_file_exists ex); [|intros H; inversion H; subst; exact Tw1].
    destruct (resolve_conflict c w1 cwd1 (pf_rel f) dst) as [w2 e2] eqn:RC.
    assert (Hs1' : In s1 (w_hist w1 ++ [s])).
    { rewrite Hl, <- app_assoc. apply in_or_app. right. exact Hs1. }
    assert (Hcw1 : Forall (good D s) (w_hist w1 ++ [s]) -> cwd1 = pf_dir f).
    { intros G. apply Hcw. rewrite Hl, <- app_assoc in G. exact (proj2 (proj1 (Forall_app _ _ _) G)). }
    destruct (resolve_conflict_tracked2 f dst s1 cwd1 w1 w2 e2 Tw1 HfD Hs1' Ct Pc Sc Dc Hcw1 AW1 RC) as [Tw2 [[l2 Hl2] AW2]].
    destruct e2 as [ex2|]; [intros H; inversion H; subst; exact Tw2|].
    apply IH; [exact Tw2 | rewrite Hl2; apply bl_ok_ext; exact Hbl1 | exact AW2].
Qed.

End Run2.

(* ---------- the run ---------------------------------------------------------------------------------------------------- *)
(* path mode: no "custom path" answer at the manual prompt *)
Definition no_custom_in_path_mode (c : cfg) : Prop :=
  c_mode c = MPath -> c_strategy c = Manual -> Forall (fun a => parse_answer a <> ACustom) (c_answers c).

Lemma run_tracked2 c plan cwd s :
  c_var c = fixed -> no_custom_in_path_mode c ->
  exists wF, r_final (run c plan cwd s) = w_fs wF /\ r_states (run c plan cwd s) = rev (w_hist wF) /\
             tracked2 (plan_dirs plan) s wF.
Proof.
  intros Hv NC. unfold run.
  assert (T0 : tracked (plan_dirs plan) s (init_world s (c_answers c))) by (split; [reflexivity | exact I]).
  assert (B0 : bl_ok (plan_dirs plan) s (w_hist (init_world s (c_answers c))) []) by constructor.
  destruct (first_pass c plan (init_world s (c_answers c)) cwd []) as [[[w1 cwd1] bl] e1] eqn:FP.
  destruct (first_pass_tracked c (plan_dirs plan) s Hv plan _ _ _ _ _ _ _ (plan_dirs_in plan) T0 B0 FP) as [T1 [B1 A1]].
  apply tracked_tracked2 in T1.
  destruct e1 as [e|].
  - exists w1. simpl. auto.
  - destruct (second_pass c bl w1 cwd1) as [[w2 cwd2] e2] eqn:SP. exists w2. simpl.
    split; [reflexivity|]. split; [reflexivity|].
    apply (second_pass_tracked2 c (plan_dirs plan) s Hv NC bl w1 cwd1 w2 cwd2 e2 T1 B1);
      [|exact SP].
    intros a Ha. rewrite A1 in Ha. exact Ha.
Qed.

(* every state of the run is reached from the initial tree by a chain of confined steps *)
Theorem run_is_chain2 c plan cwd s :
  c_var c = fixed -> no_custom_in_path_mode c -> run_good c plan cwd s ->
  exists l, r_states (run c plan cwd s) = rev l /\ r_final (run c plan cwd s) = hd s l /\ chain2 (plan_dirs plan) s l.
Proof.
  intros Hv NC G. destruct (run_tracked2 c plan cwd s Hv NC) as [wF [F [St [Hf Hc]]]].
  exists (w_hist wF). split; [exact St|]. split; [rewrite F; exact Hf|].
  apply (cchain2_chain2 _ _ _ Hc). unfold run_good in G. rewrite St in G.
  apply Forall_rev in G. cbn [rev] in G. rewrite rev_involutive in G. exact G.
Qed.

Theorem every_state_confined2 c plan cwd s :
  c_var c = fixed -> no_custom_in_path_mode c -> run_good c plan cwd s ->
  forall h, In h (r_final (run c plan cwd s) :: r_states (run c plan cwd s)) -> changes_in (plan_dirs plan) s h.
Proof.
  intros Hv NC G h Hin. destruct (run_is_chain2 c plan cwd s Hv NC G) as [l [St [F C]]].
  assert (K : In h (l ++ [s])).
  { destruct Hin as [<-|Hin]; [rewrite F; apply hd_in|]. rewrite St in Hin. apply in_or_app. left. apply in_rev. exact Hin. }
  apply in_app_or in K as [K|[<-|[]]]; [exact (chain2_changes _ _ _ C _ K) | apply changes_in_refl].
Qed.

(* ---------- when does [run_good] hold? ----------------------------------------------------------------------------------- *)
Section Static2.
Variable D : list rpath.
Hypothesis antichain : forall d d', In d D -> In d' D -> is_prefix_path d d' = true -> d = d'.

Lemma step2_keeps_links a b : no_links_below D a -> fs_step2 D a b -> links_same a b.
Proof.
  intros NL [H | -> | d q c dp Hd Pq Hdp ->].
  - exact (step_keeps_links D a b NL H).
  - intros k i t. reflexivity.
  - intros k0 i t.
    assert (Bd : below_some D dp).
    { destruct Hdp as [[P _]|[B _]]; [exists d; split; assumption | exact B]. }
    assert (Out : forall k1, In (k1, NLink i t) a -> rekey_path (q ++ [c]) dp k1 = k1).
    { intros k1 H1. apply rekey_outside. destruct (is_prefix_path (q ++ [c]) k1) eqn:P; [exfalso|reflexivity].
      apply (NL _ _ _ H1). exists d. split; [exact Hd|].
      apply (is_prefix_trans _ (q ++ [c])); [apply prefix_snoc; exact Pq | exact P]. }
    split; intros H.
    + assert (Hne : k0 <> dp) by (intros K; subst k0; exact (NL _ _ _ H Bd)).
      pose proof (In_rekey (q ++ [c]) dp (remove_key dp a) _ _ (proj2 (In_remove_key _ _ _ _) (conj H Hne))) as K.
      rewrite (Out _ H) in K. exact K.
    + apply In_rekey_inv in H as [k1 [H1 ->]]. apply In_remove_key in H1 as [H1 _]. rewrite (Out _ H1). exact H1.
Qed.

Lemma step2_keeps_dirs a b d' :
  WF a -> WF b -> In d' D -> chdir a d' = Some d' -> fs_step2 D a b -> chdir b d' = Some d'.
Proof.
  intros Wa Wb Hd' Hc [H | -> | d q c dp Hd Pq Hdp ->].
  - exact (step_keeps_dirs D antichain a b d' Wa Wb Hd' Hc H).
  - exact Hc.
  - apply (ConfinedRun.chdir_transfer a); [exact Wa | | exact Hc].
    pose proof (dirpath_of_lookup _ _ Wa (resolve_found _ _ _ _ _ _ (chdir_self _ _ Hc))) as DPa.
    intros q0 r0 E. destruct q0 as [|x q0]; [reflexivity|].
    apply (lookup_of_In _ _ _ Wb).
    assert (Hin : In (x :: q0, NDir) a) by (apply lookup_In; [discriminate | apply (DPa _ _ E)]).
    assert (Np : is_prefix_path (q ++ [c]) (x :: q0) = false).
    { apply is_prefix_false. intros [r2 E2]. apply is_prefix_path_spec in Pq as [r1 Eq].
      assert (P' : is_prefix_path d d' = true).
      { apply is_prefix_path_spec. exists (r1 ++ [c] ++ r2 ++ r0). rewrite E, E2, Eq. rewrite <- !app_assoc. reflexivity. }
      pose proof (antichain _ _ Hd Hd' P') as Edd. rewrite <- Edd in E.
      rewrite E2, Eq in E. apply (f_equal (@length name)) in E. rewrite !app_length in E. simpl in E. lia. }
    assert (Nd : x :: q0 <> dp).
    { intros K. destruct Hdp as [[P Ne]|[_ Nl]].
      - apply is_prefix_path_spec in P as [r1 E1].
        assert (P' : is_prefix_path d d' = true).
        { apply is_prefix_path_spec. exists (r1 ++ r0). rewrite E, K, E1, app_assoc. reflexivity. }
        pose proof (antichain _ _ Hd Hd' P') as Edd. rewrite <- Edd in E.
        apply Ne. rewrite K, E1 in E. apply (f_equal (@length name)) in E. rewrite !app_length in E.
        assert (Z : r1 = []) by (destruct r1; [reflexivity | simpl in E; lia]).
        rewrite E1, Z, app_nil_r. reflexivity.
      - apply Nl. rewrite <- K. apply (lookup_of_In _ _ _ Wa). exact Hin. }
    pose proof (In_rekey (q ++ [c]) dp (remove_key dp a) _ _ (proj2 (In_remove_key _ _ _ _) (conj Hin Nd))) as K.
    rewrite (rekey_outside _ _ _ Np) in K. exact K.
Qed.

Variable s : fs.

Lemma cchain2_good' l :
  cchain2 D s l -> Forall WF (l ++ [s]) -> no_links_below D s -> good' D s s -> Forall (good' D s) (l ++ [s]).
Proof.
  intros C W NL G0. induction l as [|h l IH]; [constructor; [exact G0 | constructor]|].
  cbn [app cchain2] in *. destruct C as [C S]. inversion W as [|? ? Wh Wl]; subst.
  pose proof (IH C Wl) as G. constructor; [|exact G].
  assert (FG : Forall (good D s) (l ++ [s])) by (eapply Forall_impl; [|exact G]; intros x [X _]; exact X).
  pose proof (S FG) as St.
  assert (Ga : good' D s (hd s l)) by (rewrite Forall_forall in G; apply G; apply hd_in).
  assert (Wa : WF (hd s l)) by (rewrite Forall_forall in Wl; apply Wl; apply hd_in).
  assert (Ws : WF s) by (rewrite Forall_forall in Wl; apply Wl; apply in_or_app; right; left; reflexivity).
  destruct Ga as [[Gd Gl] Ls].
  assert (NLa : no_links_below D (hd s l)) by (intros k i t H; apply (NL k i t); apply Ls; exact H).
  assert (Lh : links_same s h).
  { intros k i t. rewrite (Ls k i t). apply (step2_keeps_links _ _ NLa St). }
  split; [split|exact Lh].
  - intros d Hd. apply (step2_keeps_dirs _ _ _ Wa Wh Hd (Gd d Hd) St).
  - apply links_same_lookup; assumption.
Qed.

Lemma cchain2_good_links l :
  cchain2 D s l -> Forall WF (l ++ [s]) -> Forall (same_links s) l -> (forall d, In d D -> chdir s d = Some d) ->
  Forall (good D s) (l ++ [s]).
Proof.
  intros C W SL G0. induction l as [|h l IH].
  - constructor; [|constructor]. split; [exact G0 | apply same_links_refl].
  - cbn [app cchain2] in *. destruct C as [C S]. inversion W as [|? ? Wh Wl]; subst. inversion SL as [|? ? Lh Ll]; subst.
    pose proof (IH C Wl Ll) as G. constructor; [|exact G].
    pose proof (S G) as St.
    assert (Ga : good D s (hd s l)) by (rewrite Forall_forall in G; apply G; apply hd_in).
    assert (Wa : WF (hd s l)) by (rewrite Forall_forall in Wl; apply Wl; apply hd_in).
    split; [|exact Lh].
    intros d Hd. apply (step2_keeps_dirs _ _ _ Wa Wh Hd (proj1 Ga d Hd) St).
Qed.
End Static2.

Lemma plan_dirs_antichain plan :
  (forall f r f' r', In (f, r) plan -> In (f', r') plan ->
     is_prefix_path (pf_dir f) (pf_dir f') = true -> pf_dir f = pf_dir f') ->
  forall d d', In d (plan_dirs plan) -> In d' (plan_dirs plan) -> is_prefix_path d d' = true -> d = d'.
Proof.
  intros S2 d d' Hd Hd' P. unfold plan_dirs in Hd, Hd'.
  apply in_map_iff in Hd as [[f r] [E1 H1]]. apply in_map_iff in Hd' as [[f' r'] [E2 H2]]. simpl in E1, E2. subst d d'.
  exact (S2 f r f' r' H1 H2 P).
Qed.

Lemma run_WF_hist c plan cwd s wF :
  WF s -> r_states (run c plan cwd s) = rev (w_hist wF) -> Forall WF (w_hist wF ++ [s]).
Proof.
  intros W St. destruct (run_WF c plan cwd s W) as [Gs _]. rewrite St in Gs.
  apply Forall_rev in Gs. cbn [rev] in Gs. rewrite rev_involutive in Gs. exact Gs.
Qed.

Theorem static_run_good2 c plan cwd s :
  c_var c = fixed -> no_custom_in_path_mode c -> WF s -> plan_static plan s ->
  run_good c plan cwd s.
Proof.
  intros Hv NC W [S1 [S2 S3]].
  destruct (run_tracked2 c plan cwd s Hv NC) as [wF [F [St [Hf Hc]]]].
  pose proof (run_WF_hist c plan cwd s wF W St) as Wl.
  unfold run_good. rewrite St.
  pose proof (plan_dirs_antichain plan S2) as A.
  assert (NL : no_links_below (plan_dirs plan) s).
  { intros k i t H [d [Hd P]]. unfold plan_dirs in Hd. apply in_map_iff in Hd as [[f r] [E1 H1]]. simpl in E1. subst d.
    rewrite (S3 k i t f r H H1) in P. discriminate. }
  assert (G0 : good' (plan_dirs plan) s s).
  { split; [split|].
    - intros d Hd. unfold plan_dirs in Hd. apply in_map_iff in Hd as [[f r] [E1 H1]]. simpl in E1. subst d. exact (S1 f r H1).
    - apply same_links_refl.
    - intros k i t. reflexivity. }
  pose proof (cchain2_good' (plan_dirs plan) A s (w_hist wF) Hc Wl NL G0) as G.
  assert (G2 : Forall (good (plan_dirs plan) s) (w_hist wF ++ [s])) by (eapply Forall_impl; [|exact G]; intros x [X _]; exact X).
  apply Forall_rev in G2. rewrite rev_app_distr in G2. exact G2.
Qed.

Theorem links_stable_run_good2 c plan cwd s :
  c_var c = fixed -> no_custom_in_path_mode c -> WF s ->
  (forall f r, In (f, r) plan -> chdir s (pf_dir f) = Some (pf_dir f)) ->
  (forall f r f' r', In (f, r) plan -> In (f', r') plan ->
     is_prefix_path (pf_dir f) (pf_dir f') = true -> pf_dir f = pf_dir f') ->
  Forall (same_links s) (r_states (run c plan cwd s)) ->
  run_good c plan cwd s.
Proof.
  intros Hv NC W S1 S2 SL.
  destruct (run_tracked2 c plan cwd s Hv NC) as [wF [F [St [Hf Hc]]]].
  pose proof (run_WF_hist c plan cwd s wF W St) as Wl.
  unfold run_good. rewrite St in *.
  pose proof (plan_dirs_antichain plan S2) as A.
  assert (G0 : forall d, In d (plan_dirs plan) -> chdir s d = Some d).
  { intros d Hd. unfold plan_dirs in Hd. apply in_map_iff in Hd as [[f r] [E1 H1]]. simpl in E1. subst d. exact (S1 f r H1). }
  apply Forall_rev in SL. rewrite rev_involutive in SL.
  pose proof (cchain2_good_links (plan_dirs plan) A s (w_hist wF) Hc Wl SL G0) as G.
  apply Forall_rev in G. rewrite rev_app_distr in G. exact G.
Qed.

(* ---------- the statements in the form Properties/C06.v quotes ------------------------------------------------------------ *)
Lemma confined_of_changes plan s h :
  changes_in (plan_dirs plan) s h -> forall k n,
  (In (k, n) h /\ ~ In (k, n) s) \/ (In (k, n) s /\ ~ In (k, n) h) ->
  exists f r, In (f, r) plan /\ is_prefix_path (pf_dir f) k = true.
Proof.
  intros [A B] k n H. apply below_plan_dir.
  destruct H as [[H1 H2]|[H1 H2]]; [exact (A k n H1 H2) | exact (B k n H1 H2)].
Qed.

Theorem run_confined_any_strategy c plan cwd s :
  c_var c = fixed -> WF s ->
  (c_mode c = MPath -> c_strategy c = Manual -> Forall (fun a => parse_answer a <> ACustom) (c_answers c)) ->
  (forall f r, In (f, r) plan -> chdir s (pf_dir f) = Some (pf_dir f)) ->
  (forall f r f' r', In (f, r) plan -> In (f', r') plan ->
     is_prefix_path (pf_dir f) (pf_dir f') = true -> pf_dir f = pf_dir f') ->
  Forall (same_links s) (r_states (run c plan cwd s)) ->
  forall k n,
    (In (k, n) (r_final (run c plan cwd s)) /\ ~ In (k, n) s) \/ (In (k, n) s /\ ~ In (k, n) (r_final (run c plan cwd s))) ->
    exists f r, In (f, r) plan /\ is_prefix_path (pf_dir f) k = true.
Proof.
  intros Hv W NC S1 S2 SL. apply confined_of_changes.
  apply (every_state_confined2 c plan cwd s Hv NC (links_stable_run_good2 c plan cwd s Hv NC W S1 S2 SL)).
  left. reflexivity.
Qed.

Theorem every_state_confined_any_strategy c plan cwd s :
  c_var c = fixed -> WF s ->
  (c_mode c = MPath -> c_strategy c = Manual -> Forall (fun a => parse_answer a <> ACustom) (c_answers c)) ->
  (forall f r, In (f, r) plan -> chdir s (pf_dir f) = Some (pf_dir f)) ->
  (forall f r f' r', In (f, r) plan -> In (f', r') plan ->
     is_prefix_path (pf_dir f) (pf_dir f') = true -> pf_dir f = pf_dir f') ->
  Forall (same_links s) (r_states (run c plan cwd s)) ->
  forall h, In h (r_states (run c plan cwd s)) -> forall k n,
    (In (k, n) h /\ ~ In (k, n) s) \/ (In (k, n) s /\ ~ In (k, n) h) ->
    exists f r, In (f, r) plan /\ is_prefix_path (pf_dir f) k = true.
Proof.
  intros Hv W NC S1 S2 SL h Hh. apply confined_of_changes.
  apply (every_state_confined2 c plan cwd s Hv NC (links_stable_run_good2 c plan cwd s Hv NC W S1 S2 SL)).
  right. exact Hh.
Qed.

Theorem run_confined_static_any_strategy c plan cwd s :
  c_var c = fixed -> WF s -> plan_static plan s ->
  (c_mode c = MPath -> c_strategy c = Manual -> Forall (fun a => parse_answer a <> ACustom) (c_answers c)) ->
  forall h, In h (r_final (run c plan cwd s) :: r_states (run c plan cwd s)) -> forall k n,
    (In (k, n) h /\ ~ In (k, n) s) \/ (In (k, n) s /\ ~ In (k, n) h) ->
    exists f r, In (f, r) plan /\ is_prefix_path (pf_dir f) k = true.
Proof.
  intros Hv W PS NC h Hh. apply confined_of_changes.
  exact (every_state_confined2 c plan cwd s Hv NC (static_run_good2 c plan cwd s Hv NC W PS) h Hh).
Qed.

(* every state of such a run is reached by a chain of steps: new directory, re-keying, rename onto itself, replacing rename *)
Theorem run_is_chain_any_strategy c plan cwd s :
  c_var c = fixed -> WF s -> plan_static plan s -> no_custom_in_path_mode c ->
  exists l, r_states (run c plan cwd s) = rev l /\ r_final (run c plan cwd s) = hd s l /\ chain2 (plan_dirs plan) s l.
Proof.
  intros Hv W PS NC. exact (run_is_chain2 c plan cwd s Hv NC (static_run_good2 c plan cwd s Hv NC W PS)).
Qed.

(* the theorems of Pipe/ConfinedRun.v are the special case [no_override c] *)
Lemma no_override_not_overriding c : no_override c -> ~ overriding c.
Proof.
  unfold no_override, overriding. intros NO [Cs|[Cs [a [Ha Pa]]]]; rewrite Cs in NO; [exact NO|].
  rewrite Forall_forall in NO. exact (proj1 (NO a Ha) Pa).
Qed.

Lemma no_override_no_custom c : no_override c -> no_custom_in_path_mode c.
Proof.
  unfold no_override. intros NO _ Cs. rewrite Cs in NO. eapply Forall_impl; [|exact NO]. intros a [_ X]. exact X.
Qed.

(* ---------- non-vacuity: an unselected file is replaced ---------------------------------------------------------------- *)
From Tempren Require Import FS.WfCheck Pipe.SafetyFacts.

(* cr_fs: /in, /in/a (1), /in/b (2), /out, /out/l -> /in.  Plan: a -> b only; b is not selected.  Under override the
   deferred rename replaces b: file 2 is gone, the only keys that changed are /in/a and /in/b *)
Definition co_cfg (m : mode) (st : strategy) (answers : list str) : cfg :=
  {| c_mode := m; c_strategy := st; c_dry := false; c_answers := answers; c_fault := None; c_var := fixed |}.
Definition co_plan : list (pfile * rendered) := [(cr_file [n_a], RText n_b)].

Lemma co_static : plan_static co_plan cr_fs.
Proof.
  split; [|split].
  - intros f r [H|[]]; inversion H; subst; vm_compute; reflexivity.
  - intros f r f' r' [H|[]] [H'|[]] _; inversion H; inversion H'; subst; reflexivity.
  - intros k i t f r Hk [H|[]]; inversion H; subst;
      (destruct Hk as [Hk|[Hk|[Hk|[Hk|[Hk|[]]]]]]; inversion Hk; subst; vm_compute; reflexivity).
Qed.

Example override_run_applies :
  WF cr_fs /\ plan_static co_plan cr_fs /\ overriding (co_cfg MName Override []) /\
  (let r := run (co_cfg MName Override []) co_plan [] cr_fs in (r_status r, r_final r, r_calls r)) =
  (0%Z,
   [([n_in], NDir); ([n_in; n_b], NFile 1); ([cr_out], NDir);
    ([cr_out; cr_l], NLink 3 {| up_abs := true; up_comps := [n_in] |})],
   [(CRename, COk)]).
Proof.
  split; [apply WfCheck.wf_b_sound; vm_compute; reflexivity|]. split; [exact co_static|].
  split; [left; reflexivity|]. vm_compute. reflexivity.
Qed.

(* the same through the manual prompt: the answer "override" *)
Example manual_override_run_applies :
  overriding (co_cfg MName Manual [w_override]) /\
  (let r := run (co_cfg MName Manual [w_override]) co_plan [] cr_fs in (r_status r, r_final r, r_calls r, r_prompts r)) =
  (0%Z,
   [([n_in], NDir); ([n_in; n_b], NFile 1); ([cr_out], NDir);
    ([cr_out; cr_l], NLink 3 {| up_abs := true; up_comps := [n_in] |})],
   [(CRename, COk)], 1%nat).
Proof.
  split; [|vm_compute; reflexivity].
  right. split; [reflexivity|]. exists w_override. split; [left; reflexivity | vm_compute; reflexivity].
Qed.

(* a custom path in name mode: "c" is accepted (a sibling of the source), "../x" is refused by the renamer *)
Definition co_c : str := [99].
Definition co_up_x : str := [46;46;47;120].         (* "../x" *)

Example custom_path_name_mode :
  (let r := run (co_cfg MName Manual [w_custom; co_c]) co_plan [] cr_fs in (r_status r, r_final r, r_calls r)) =
  (0%Z,
   [([n_in], NDir); ([n_in; co_c], NFile 1); ([n_in; n_b], NFile 2); ([cr_out], NDir);
    ([cr_out; cr_l], NLink 3 {| up_abs := true; up_comps := [n_in] |})],
   [(CRename, COk)]) /\
  (let r := run (co_cfg MName Manual [w_custom; co_up_x]) co_plan [] cr_fs in (r_status r, r_final r, r_calls r)) =
  (1%Z, cr_fs, []).
Proof. split; vm_compute; reflexivity. Qed.

(* ---------- why path mode needs "no custom path" ------------------------------------------------------------------------- *)
(* the same plan in path mode, answers "custom path", "../x": the path typed at the prompt is handed to the mover without
   any containment test; the run ends with status 0 and has created /x, outside the input directory.  All other
   hypotheses of the theorems hold (the tree is well-formed, plan_static, the configuration is not overriding) *)
Example custom_path_escapes_refuted :
  WF cr_fs /\ plan_static co_plan cr_fs /\ ~ overriding (co_cfg MPath Manual [w_custom; co_up_x]) /\
  (let r := run (co_cfg MPath Manual [w_custom; co_up_x]) co_plan [] cr_fs in (r_status r, r_final r, r_calls r, r_prompts r)) =
  (0%Z,
   [([n_in], NDir); ([[120]], NFile 1); ([n_in; n_b], NFile 2); ([cr_out], NDir);
    ([cr_out; cr_l], NLink 3 {| up_abs := true; up_comps := [n_in] |})],
   [(CMkdir, CErr); (CMove, COk)], 2%nat) /\
  ~ In ([[120]], NFile 1) cr_fs /\ is_prefix_path [n_in] [[120]] = false.
Proof.
  split; [apply WfCheck.wf_b_sound; vm_compute; reflexivity|]. split; [exact co_static|]. split.
  { intros [H|[_ [a [[H|[H|[]]] P]]]]; [discriminate H | subst a; vm_compute in P; discriminate P | subst a; vm_compute in P; discriminate P]. }
  split; [vm_compute; reflexivity|]. split; [|reflexivity].
  intros [H|[H|[H|[H|[H|[]]]]]]; discriminate H.
Qed.

(* ---------- why the directory of the destination entry has to be tested too (F34) ------------------------------------------ *)
(* /in, /in/a (1), /out, /out/l -> /in/z.  Plan (path mode): a -> "../out/l".  Path.resolve() follows the link /out/l:
   the containment test sees /in/z and accepts; the destination exists (as a link), so the rename is deferred; under
   override shutil.move renames onto the path itself: the link /out/l, outside the input directory, is replaced by the
   file.  The tree is well-formed, plan_static holds (the link is not below /in), no link moves.  This is the code
   BEFORE the repair ([pre_f34]: no test on the directory of the destination entry); the current code refuses the
   file: [override_link_destination_refused] *)
Definition lk_z : name := [122].
Definition lk_fs : fs :=
  [([n_in], NDir); ([n_in; n_a], NFile 1); ([cr_out], NDir);
   ([cr_out; cr_l], NLink 3 {| up_abs := true; up_comps := [n_in; lk_z] |})].
Definition lk_dst : str := [46;46;47;111;117;116;47;108].          (* "../out/l" *)
Definition lk_plan : list (pfile * rendered) := [(cr_file [n_a], RText lk_dst)].

Lemma lk_static : plan_static lk_plan lk_fs.
Proof.
  split; [|split].
  - intros f r [H|[]]; inversion H; subst; vm_compute; reflexivity.
  - intros f r f' r' [H|[]] [H'|[]] _; inversion H; inversion H'; subst; reflexivity.
  - intros k i t f r Hk [H|[]]; inversion H; subst;
      (destruct Hk as [Hk|[Hk|[Hk|[Hk|[]]]]]; inversion Hk; subst; vm_compute; reflexivity).
Qed.

Definition co_cfg_v (v : variant) (m : mode) (st : strategy) (answers : list str) : cfg :=
  {| c_mode := m; c_strategy := st; c_dry := false; c_answers := answers; c_fault := None; c_var := v |}.

Example override_link_destination_escapes :
  WF lk_fs /\ plan_static lk_plan lk_fs /\
  contained pre_f34 lk_fs (cr_file [n_a]) (parse_path lk_dst) = Some true /\
  (let r := run (co_cfg_v pre_f34 MPath Override []) lk_plan [] lk_fs in (r_status r, r_final r, r_calls r)) =
  (0%Z,
   [([n_in], NDir); ([cr_out; cr_l], NFile 1); ([cr_out], NDir)],
   [(CMkdir, CErr); (CMove, COk)]) /\
  is_prefix_path [n_in] [cr_out; cr_l] = false /\
  (* without override the run stops at the conflict and nothing has changed *)
  (let r := run (co_cfg_v pre_f34 MPath Stop []) lk_plan [] lk_fs in (r_status r, r_final r, r_calls r)) = (1%Z, lk_fs, []).
Proof.
  split; [apply WfCheck.wf_b_sound; vm_compute; reflexivity|]. split; [exact lk_static|].
  split; [vm_compute; reflexivity|]. split; [vm_compute; reflexivity|]. split; [reflexivity | vm_compute; reflexivity].
Qed.

(* the same tree and plan with the current code: [contained] still says yes (it follows the link), the test on the
   directory of the destination entry says no (/out is not below /in): InvalidDestinationError, status 1, nothing
   touched -- under override and under every other strategy (the refusal comes before the renamer is called) *)
Example override_link_destination_refused :
  contained fixed lk_fs (cr_file [n_a]) (parse_path lk_dst) = Some true /\
  dest_parent_contained lk_fs (cr_file [n_a]) (parse_path lk_dst) = Some false /\
  (let r := run (co_cfg MPath Override []) lk_plan [] lk_fs in (r_error r, r_status r, r_final r, r_calls r, r_report r)) =
  (Some ExInvalidDest, 1%Z, lk_fs, [], []) /\
  (let r := run (co_cfg MPath Stop []) lk_plan [] lk_fs in (r_error r, r_status r, r_final r, r_calls r, r_report r)) =
  (Some ExInvalidDest, 1%Z, lk_fs, [], []).
Proof. repeat split; vm_compute; reflexivity. Qed.

(* path mode with override where the theorem applies: an unselected file is replaced *)
Definition po_fs : fs := [([n_in], NDir); ([n_in; n_a], NFile 1); ([n_in; n_b], NFile 2); ([cr_out], NDir)].

Example override_path_mode_applies :
  WF po_fs /\ plan_static co_plan po_fs /\
  no_custom_in_path_mode (co_cfg MPath Override []) /\
  (let r := run (co_cfg MPath Override []) co_plan [] po_fs in (r_status r, r_final r, r_calls r)) =
  (0%Z, [([n_in], NDir); ([n_in; n_b], NFile 1); ([cr_out], NDir)], [(CMkdir, CErr); (CMove, COk)]).
Proof.
  split; [apply WfCheck.wf_b_sound; vm_compute; reflexivity|]. split.
  { split; [|split].
    - intros f r [H|[]]; inversion H; subst; vm_compute; reflexivity.
    - intros f r f' r' [H|[]] [H'|[]] _; inversion H; inversion H'; subst; reflexivity.
    - intros k i t f r Hk [H|[]]; inversion H; subst;
        (destruct Hk as [Hk|[Hk|[Hk|[Hk|[]]]]]; inversion Hk). }
  split. { intros _ H. discriminate H. }
  vm_compute. reflexivity.
Qed.
