(* C07 - the DECLARATIVE reading of "which entries are designated", written from the       *)
(* property text and independent of how the gatherers walk the tree.  Definitions only.    *)
From Tempren Require Import Base.Str Pipe.GatherTree.
Open Scope N_scope.

(* [at_path ch r t]: starting in a directory whose listing is [ch], the relative path [r]   *)
(* (non-empty) leads to the entry [t]; every intermediate component is a directory          *)
(* (possibly through a symbolic link).                                                      *)
Inductive at_path : list (name * tree) -> list name -> tree -> Prop :=
| at_here : forall ch n t, In (n, t) ch -> at_path ch [n] t
| at_below : forall ch n b ch' r t,
    In (n, TDir b ch') ch -> at_path ch' r t -> at_path ch (n :: r) t.

(* "minus entries that are hidden or lie below a hidden directory unless --include-hidden" *)
Definition no_hidden_component (r : list name) : Prop := Forall (fun n => hidden n = false) r.
Definition passes_hidden_rule (include_hidden : bool) (r : list name) : Prop :=
  include_hidden = true \/ no_hidden_component r.

(* children only, or all descendants with --recursive *)
Definition depth_ok (recursive : bool) (r : list name) : Prop :=
  recursive = true \/ length r = 1%nat.

(* non-directories in name/path mode, "directories instead of files in directory mode" *)
Definition wanted_kind (m : mode) (t : tree) : Prop :=
  match m with MDir => is_dir t = true | _ => is_dir t = false end.

(* one command-line input designates the entry f *)
Definition designates (c : cfg) (i : input) (f : gfile) : Prop :=
  match i with
  | IDir self parent nm ch =>
      match c_mode c, c_recursive c with
      | MDir, false => f = (parent, [nm])   (* reading fixed in DESIGN 5: the input directory itself *)
      | _, _ => exists r t, f = (self, r) /\ at_path ch r t /\ wanted_kind (c_mode c) t /\
                            depth_ok (c_recursive c) r /\
                            passes_hidden_rule (c_include_hidden c) r
      end
  | IFile parent nm => c_mode c <> MDir /\ f = (parent, [nm])   (* explicit file: no hidden rule *)
  | IOther => False
  end.

Definition designated (c : cfg) (inputs : list input) (f : gfile) : Prop :=
  exists i, In i inputs /\ designates c i f.

(* the number of command-line inputs (with repetitions) that designate f *)
Inductive n_designating (c : cfg) (f : gfile) : list input -> nat -> Prop :=
| nd_nil : n_designating c f [] 0
| nd_yes : forall i l k, designates c i f -> n_designating c f l k -> n_designating c f (i :: l) (S k)
| nd_no : forall i l k, ~ designates c i f -> n_designating c f l k -> n_designating c f (i :: l) k.

(* well-formedness as a proposition: names in one directory are pairwise distinct, hereditarily *)
Inductive wf_tree : tree -> Prop :=
| wf_file : wf_tree TFile
| wf_other : wf_tree TOther
| wf_dir : forall b ch, NoDup (map fst ch) -> (forall e, In e ch -> wf_tree (snd e)) -> wf_tree (TDir b ch).

Definition wf_input (i : input) : Prop :=
  match i with IDir _ _ _ ch => wf_tree (TDir false ch) | _ => True end.
