(* C06 for a whole run: every state of a non-override run differs from the initial tree only at or   *)
(* below the input directories of the plan.                                                         *)
(*                                                                                                  *)
(* One step of first_pass is covered by Pipe/Confined.v and Pipe/ConfinedMove.v.  Two things are new *)
(* for a whole run.  (1) This file does not use the re-test of deferred renames (F38, see            *)
(* Pipe/ConfinedRetest.v for the theorems that do): it reads the deferred renames of second_pass as  *)
(* issued on the strength of the tests evaluated on an earlier tree, as the code before that repair  *)
(* did ([pre_f38]).  What those tests said stays true as long as no                                  *)
(* symbolic link has moved in between (realpath reads the tree only through its links) and the       *)
(* input directory is still its own real path; without that the statement is false, see              *)
(* [swap_run] at the end of this file.  (2) Every system call of the run is described as one         *)
(* [fs_step]: a new directory or a re-keying, both at or below an input directory; all other facts   *)
(* (what changed, that links and input directories stay) are consequences of the chain of steps.     *)
From Tempren Require Import Base.Str Py.PathLib FS.Model FS.Lemmas FS.RealpathAgree FS.DirExt
  Pipe.Pipeline Pipe.DestParent Pipe.Confine Pipe.Confined Pipe.ConfinedMove Pipe.Safety Pipe.DryEqualsReal.
Open Scope N_scope.

(* ---------- changes at or below one of several directories ------------------------------------------ *)
Definition below_some (D : list rpath) (k : rpath) : Prop := exists d, In d D /\ is_prefix_path d k = true.

Definition changes_in (D : list rpath) (a b : fs) : Prop :=
  (forall k n, In (k, n) b -> ~ In (k, n) a -> below_some D k) /\
  (forall k n, In (k, n) a -> ~ In (k, n) b -> below_some D k).

Lemma changes_in_refl D a : changes_in D a a.
Proof. split; intros k n H K; contradiction. Qed.

Lemma changes_in_sym D a b : changes_in D a b -> changes_in D b a.
Proof. intros [A B]. split; assumption. Qed.

Lemma changes_in_trans D a b c : changes_in D a b -> changes_in D b c -> changes_in D a c.
Proof.
  intros [A1 R1] [A2 R2]. split; intros k n H K.
  - destruct (in_dec entry_eq_dec (k, n) b) as [Hb|Hb]; [apply (A1 k n Hb K) | apply (A2 k n H Hb)].
  - destruct (in_dec entry_eq_dec (k, n) b) as [Hb|Hb]; [apply (R2 k n Hb K) | apply (R1 k n H Hb)].
Qed.

Lemma changes_below_in D d a b : In d D -> changes_below d a b -> changes_in D a b.
Proof.
  intros Hd [A B]. split; intros k n H K; exists d; (split; [assumption|]); [eapply A | eapply B]; eauto.
Qed.

(* ---------- the symbolic links of two trees are the same ------------------------------------------------ *)
Definition same_links (a b : fs) : Prop :=
  forall p i t, lookup a p = Some (NLink i t) <-> lookup b p = Some (NLink i t).

Lemma same_links_refl a : same_links a a.
Proof. intros p i t. reflexivity. Qed.

Lemma same_links_sym a b : same_links a b -> same_links b a.
Proof. intros H p i t. symmetry. apply H. Qed.

Lemma same_links_trans a b c : same_links a b -> same_links b c -> same_links a c.
Proof. intros H1 H2 p i t. rewrite (H1 p i t). apply H2. Qed.

(* posixpath._joinrealpath reads the tree only to ask "is this a link, and where does it point" *)
Lemma joinreal_same_links a b f : same_links a b -> forall path rest inprog,
  joinreal f b path rest inprog = joinreal f a path rest inprog.
Proof.
  intros E. induction f as [|f IH]; intros path rest inprog; [reflexivity|].
  rewrite !joinreal_S. destruct rest as [|c rest']; [reflexivity|].
  destruct (name_eqb c dotdot); [apply IH|].
  destruct (lookup a (path ++ [c])) as [[i|i t|]|] eqn:La.
  - destruct (lookup b (path ++ [c])) as [[j|j u|]|] eqn:Lb; try apply IH.
    apply (E (path ++ [c]) j u) in Lb. congruence.
  - apply (E (path ++ [c]) i t) in La. rewrite La.
    destruct (existsb (rpath_eqb (path ++ [c])) inprog); [reflexivity|].
    rewrite IH. destruct (joinreal f a (if up_abs t then [] else path) (up_comps t) ((path ++ [c]) :: inprog)) as [p1 [|]];
      [apply IH | reflexivity].
  - destruct (lookup b (path ++ [c])) as [[j|j u|]|] eqn:Lb; try apply IH.
    apply (E (path ++ [c]) j u) in Lb. congruence.
  - destruct (lookup b (path ++ [c])) as [[j|j u|]|] eqn:Lb; try apply IH.
    apply (E (path ++ [c]) j u) in Lb. congruence.
Qed.

Lemma realpath_raw_same_links a b cwd p : same_links a b -> realpath_raw b cwd p = realpath_raw a cwd p.
Proof. intros E. unfold realpath_raw. rewrite (joinreal_same_links _ _ _ E). reflexivity. Qed.

(* ---------- one successful system call of a confined run -------------------------------------------------- *)
Inductive fs_step (D : list rpath) (a b : fs) : Prop :=
| FS_mkdir k : k <> [] -> lookup a k = None -> below_some D k -> b = a ++ [(k, NDir)] -> fs_step D a b
| FS_rename d q c dp : In d D -> is_prefix_path d q = true -> is_prefix_path d dp = true ->
    b = rekey (q ++ [c]) dp a -> fs_step D a b.

Lemma fs_step_changes D a b : fs_step D a b -> changes_in D a b.
Proof.
  intros [k Hk Hn [d [Hd P]] -> | d q c dp Hd Pq Pd ->].
  - apply (changes_below_in D d); [assumption|]. apply snoc_changes_below. assumption.
  - apply (changes_below_in D d); [assumption|]. apply rekey_changes_below; [apply prefix_snoc|]; assumption.
Qed.

(* states, newest first, each one step after the one before; [a] is the state before the oldest *)
Fixpoint chain (D : list rpath) (a : fs) (l : list fs) : Prop :=
  match l with
  | [] => True
  | h :: l' => chain D a l' /\ fs_step D (hd a l') h
  end.

Lemma hd_app {A} (x : A) l1 l2 : hd x (l2 ++ l1) = hd (hd x l1) l2.
Proof. destruct l2; reflexivity. Qed.

Lemma chain_app D a l1 l2 : chain D a l1 -> chain D (hd a l1) l2 -> chain D a (l2 ++ l1).
Proof.
  intros H1. induction l2 as [|h l2 IH]; intros H2; [exact H1|].
  cbn [app chain] in *. destruct H2 as [H2 S]. split; [apply IH; assumption|].
  rewrite hd_app. exact S.
Qed.

Lemma chain_changes D a l : chain D a l -> forall h, In h l -> changes_in D a h.
Proof.
  induction l as [|x l IH]; intros H h Hin; [contradiction|].
  cbn [chain] in H. destruct H as [H S]. destruct Hin as [<-|Hin]; [|apply IH; assumption].
  apply (changes_in_trans _ _ (hd a l)); [|apply fs_step_changes; assumption].
  destruct l as [|y l]; [apply changes_in_refl|]. apply IH; [assumption | left; reflexivity].
Qed.

(* ---------- a piece of a run: the history grows by a chain of steps, provided P holds ---------------------- *)
Definition wstep (P : Prop) (D : list rpath) (w w' : world) : Prop :=
  exists l, w_hist w' = l ++ w_hist w /\ w_fs w' = hd (w_fs w) l /\ (P -> chain D (w_fs w) l).

Lemma wstep_same (P : Prop) D w w' : w_fs w' = w_fs w -> w_hist w' = w_hist w -> wstep P D w w'.
Proof. intros A B. exists []. split; [assumption|]. split; [assumption|]. intros _. exact I. Qed.

Lemma wstep_refl (P : Prop) D w : wstep P D w w.
Proof. apply wstep_same; reflexivity. Qed.

Lemma wstep_trans (P : Prop) D w w1 w2 : wstep P D w w1 -> wstep P D w1 w2 -> wstep P D w w2.
Proof.
  intros [l1 [H1 [F1 C1]]] [l2 [H2 [F2 C2]]]. exists (l2 ++ l1). split; [|split].
  - rewrite H2, H1. apply app_assoc.
  - rewrite F2, F1. symmetry. apply hd_app.
  - intros HP. apply chain_app; [apply C1; assumption|]. rewrite <- F1. apply C2. assumption.
Qed.

Lemma wstep_weaken (P Q : Prop) D w w' : (Q -> P) -> wstep P D w w' -> wstep Q D w w'.
Proof. intros I [l [H [F C]]]. exists l. split; [assumption|]. split; [assumption|]. intros HQ. apply C, I, HQ. Qed.

Lemma wstep_sys (P : Prop) D flt k w r w' e :
  sys flt k w r = (w', e) -> (forall s', r = SOk s' -> P -> fs_step D (w_fs w) s') -> wstep P D w w'.
Proof.
  unfold sys. destruct (faulted flt w).
  - intros H _. inversion H; subst. apply wstep_same; reflexivity.
  - destruct r as [s'|er]; intros H G; inversion H; subst.
    + exists [s']. split; [reflexivity|]. split; [reflexivity|]. intros HP. cbn [chain hd]. split; [exact I|]. apply G; [reflexivity | assumption].
    + apply wstep_same; reflexivity.
Qed.

Lemma wstep_add_report (P : Prop) D w w1 src dst o : wstep P D w w1 -> wstep P D w (add_report w1 src dst o).
Proof. intros H. apply (wstep_trans _ _ _ w1); [assumption|]. apply wstep_same; reflexivity. Qed.

(* ---------- the entry rename(2) takes away lies strictly below the input directory ---------------------------- *)
Lemma source_key_split s f sp sn :
  chdir s (pf_dir f) = Some (pf_dir f) -> source_inside s f ->
  bad_last (to_upath (pf_rel f)) = false ->
  resolve s (pf_dir f) (to_upath (pf_rel f)) false = WFound sp sn ->
  exists q c, sp = q ++ [c] /\ is_prefix_path (pf_dir f) q = true.
Proof.
  intros Hc Hin Hb H. apply chdir_self in Hc.
  destruct (bad_last_false_snoc _ Hb) as [Ep Ed].
  rewrite source_inside_unfold in Hin.
  rewrite resolve_unfold in Hc. change (walk walk_fuel s [] (pf_dir f) true = WFound (pf_dir f) NDir) in Hc.
  rewrite to_upath_walk' in H. rewrite Ep in H.
  destruct (Nat.eqb (pp_root (pf_rel f)) 0).
  - destruct (walk_source_key_rel _ _ realpath_fuel _ _ _ _ _ Hc Ed H) as [q [J E]].
    { pose proof fuel_gap. lia. }
    rewrite J in Hin. exists q, (last (pp_parts (pf_rel f)) []). split; [exact E | exact Hin].
  - destruct (walk_source_key_abs _ _ realpath_fuel _ _ _ _ Ed H) as [q [J E]].
    { pose proof fuel_gap. lia. }
    change ([] ++ removelast (pp_parts (pf_rel f))) with (removelast (pp_parts (pf_rel f))) in Hin.
    rewrite J in Hin. exists q, (last (pp_parts (pf_rel f)) []). split; [exact E | exact Hin].
Qed.

(* something that exists (links followed) has an existing parent *)
Lemma exists_parent s d0 p :
  pp_parts p <> [] -> exists_ s [] (abs_target d0 p) = true -> exists_ s [] (abs_target d0 (pp_parent p)) = true.
Proof.
  intros Hp H. apply exists_true_found in H as [q [n R]].
  rewrite abs_target_walk in R.
  assert (Ht : target d0 p <> []).
  { unfold target. destruct (Nat.eqb (pp_root p) 0); [intros K; apply app_eq_nil in K as [_ K]|intros K]; exact (Hp K). }
  rewrite (app_removelast_last [] Ht) in R.
  destruct (walk_app_split _ _ _ _ _ _ _ (ltac:(discriminate) : [last (target d0 p) []] <> []) R (found_not_err _ _))
    as [q' [n' [A _]]].
  unfold exists_. rewrite abs_target_walk, (target_parent _ _ Hp).
  match goal with |- match ?t with WFound _ _ => _ | _ => _ end = true => replace t with (WFound q' n') by (symmetry; exact A) end.
  reflexivity.
Qed.

(* ---------- the renamer, started on a later tree than the one the containment tests saw ----------------------- *)
Section Step.
Variable D : list rpath.
Variables (f : pfile) (dst : ppath) (s1 : fs).     (* s1: the tree on which first_pass made its tests *)
Hypothesis HdD : In (pf_dir f) D.
Hypothesis Ct : contained fixed s1 f dst = Some true.
Hypothesis Pc : parents_contained s1 f dst = Some true.
Hypothesis Sc : source_contained s1 f = Some true.

(* what the tests said about s1 still speaks about the tree [sn] *)
Definition still_valid (sn : fs) : Prop :=
  chdir sn (pf_dir f) = Some (pf_dir f) /\
  (forall p, realpath_raw sn [] p = realpath_raw s1 [] p) /\
  changes_in D s1 sn.

Lemma rename_is_step sn sx s' :
  still_valid sn -> dir_ext sn sx ->
  lexists sx (pf_dir f) (to_upath dst) = false ->
  os_rename sx (pf_dir f) (to_upath (pf_rel f)) (to_upath dst) = SOk s' ->
  fs_step D sx s'.
Proof.
  intros [Hc0 [RP _]] E Hg R.
  pose proof (chdir_dir_ext _ _ _ E Hc0) as Hc.
  destruct (resolve sx (pf_dir f) (to_upath dst) false) as [dp dn|dpar dname|er] eqn:Rd.
  - exfalso. exact (not_lexists_not_found _ _ _ Hg _ _ Rd).
  - destruct (os_rename_missing_dest _ _ _ _ _ _ _ Rd R) as [sp [sn' [Rs ->]]].
    assert (Pd : is_prefix_path (pf_dir f) (dpar ++ [dname]) = true).
    { rewrite <- (dest_realpath _ _ _ _ _ Hc Rd). rewrite (realpath_raw_dir_ext _ _ _ _ E). rewrite RP.
      apply contained_true_prefix. exact Ct. }
    assert (Hs : source_inside sx f).
    { unfold source_inside. rewrite (realpath_raw_dir_ext _ _ _ _ E). rewrite RP.
      apply source_contained_inside. exact Sc. }
    destruct (source_key_split _ _ _ _ Hc Hs (os_rename_ok_not_bad_last _ _ _ _ _ R) Rs) as [q [c [-> Pq]]].
    exact (FS_rename D sx _ (pf_dir f) q c (dpar ++ [dname]) HdD Pq Pd eq_refl).
  - exfalso. exact (os_rename_ok_dest_not_err _ _ _ _ _ _ R Rd).
Qed.

Lemma file_renamer_wstep flt w w' e :
  file_renamer fixed flt w (pf_dir f) (pf_rel f) dst false = (w', e) ->
  wstep (still_valid (w_fs w)) D w w'.
Proof.
  rewrite file_renamer_fixed_unfold.
  destruct (lexists (w_fs w) (pf_dir f) (to_upath dst)) eqn:Hg.
  { intros H. inversion H; subst. apply wstep_refl. }
  destruct (negb (ppath_eqb (pp_parent (pf_rel f)) (pp_parent dst))).
  { intros H. inversion H; subst. apply wstep_refl. }
  destruct (sys flt CRename w (os_rename (w_fs w) (pf_dir f) (to_upath (pf_rel f)) (to_upath dst))) as [w1 e1] eqn:Sy.
  intros H.
  assert (Ew : w1 = w') by (destruct e1; inversion H; reflexivity). subst w1. clear H.
  apply (wstep_sys _ _ _ _ _ _ _ _ Sy). intros s' R HP.
  exact (rename_is_step _ _ _ HP (dir_ext_refl _) Hg R).
Qed.

(* mkdir -p: for the path and each of its lexical parents, either new_dirs_inside vouched for it on s1,
   or it existed in s1 -- then, if it is missing now, its entry was moved away by an earlier step *)
Definition vouched (p : ppath) : Prop :=
  pp_parts p <> [] -> ndi s1 (pf_dir f) p \/ exists_ s1 [] (abs_target (pf_dir f) p) = true.

Lemma vouched_parent p : pp_parts p <> [] -> vouched p -> vouched (pp_parent p).
Proof.
  intros Hp Hn _. destruct (Hn Hp) as [Hndi|Hex].
  - destruct (exists_ s1 [] (abs_target (pf_dir f) p)) eqn:Ex.
    + right. apply exists_parent; assumption.
    + destruct (ndi_step _ _ _ Hndi Ex) as [_ K]. left. apply K. exact Hp.
  - right. apply exists_parent; assumption.
Qed.

Lemma mkdir_once_wstep sn flt w0 p w1 r :
  dir_ext sn (w_fs w0) -> vouched p -> mkdir_once flt w0 (pf_dir f) p = (w1, r) ->
  dir_ext sn (w_fs w1) /\ wstep (still_valid sn) D w0 w1.
Proof.
  intros E Hn M. unfold mkdir_once in M.
  assert (Ext : dir_ext sn (w_fs w1)).
  { pose proof M as M'. revert M'. unfold sys. destruct (faulted flt w0); [intros H; inversion H; subst; exact E|].
    destruct (os_mkdir (w_fs w0) (pf_dir f) (to_upath p)) as [s'|err] eqn:Mk; intros H; inversion H; subst.
    - rewrite set_fs_fs. apply (dir_ext_trans _ _ _ E). apply (os_mkdir_dir_ext _ _ _ _ Mk).
    - exact E. }
  split; [exact Ext|].
  apply (wstep_sys _ _ _ _ _ _ _ _ M). intros s' Mk [Hc0 [RP Ch]].
  destruct (os_mkdir_ok _ _ _ _ Mk) as [par [nm [R ->]]].
  pose proof (chdir_dir_ext _ _ _ E Hc0) as Hc.
  assert (Hp : pp_parts p <> []).
  { intros K. rewrite to_upath_walk in R. rewrite K in R. exact (walk_nil_not_missing _ _ _ _ _ _ R). }
  destruct (resolve_missing _ _ _ _ _ _ R) as [_ Hnone].
  assert (EK : par ++ [nm] = realpath_raw s1 [] (abs_target (pf_dir f) p)).
  { rewrite <- RP. rewrite <- (realpath_raw_dir_ext _ _ [] (abs_target (pf_dir f) p) E).
    symmetry. apply target_realpath; assumption. }
  apply (FS_mkdir D _ _ (par ++ [nm])); [destruct par; discriminate | exact Hnone | | reflexivity].
  destruct (exists_ s1 [] (abs_target (pf_dir f) p)) eqn:Ex.
  - apply exists_true_found in Ex as [q [n F]].
    pose proof (resolve_found_realpath_raw _ _ _ _ _ F) as Eq. rewrite <- EK in Eq. subst q.
    apply resolve_found in F.
    assert (In1 : In (par ++ [nm], n) s1) by (apply lookup_In; [destruct par; discriminate | exact F]).
    assert (Nn0 : lookup sn (par ++ [nm]) = None).
    { destruct (E (par ++ [nm])) as [K|[K _]]; [rewrite <- K; exact Hnone | exact K]. }
    apply (proj2 Ch _ n In1). intros K. apply (lookup_None_notin _ _ Nn0).
    apply in_map_iff. exists (par ++ [nm], n). split; [reflexivity | exact K].
  - destruct (Hn Hp) as [Hndi|Hex]; [|congruence].
    destruct (ndi_step _ _ _ Hndi Ex) as [P _]. exists (pf_dir f). split; [exact HdD|]. rewrite EK. exact P.
Qed.

Lemma mkdir_p_wstep sn flt : forall fuel w0 p w' e,
  dir_ext sn (w_fs w0) -> vouched p -> mkdir_p fuel flt w0 (pf_dir f) p = (w', e) ->
  dir_ext sn (w_fs w') /\ wstep (still_valid sn) D w0 w'.
Proof.
  induction fuel as [|fuel IH]; intros w0 p w' e E Hn H.
  - rewrite mkdir_p_0 in H. destruct (mkdir_once flt w0 (pf_dir f) p) as [w1 r] eqn:M1.
    destruct (mkdir_once_wstep _ _ _ _ _ _ E Hn M1) as [E1 C1].
    destruct r as [err|]; [destruct err|]; inversion H; subst; split; assumption.
  - rewrite mkdir_p_S in H. destruct (mkdir_once flt w0 (pf_dir f) p) as [w1 r] eqn:M1.
    destruct (mkdir_once_wstep _ _ _ _ _ _ E Hn M1) as [E1 C1].
    destruct r as [err|]; [|inversion H; subst; split; assumption].
    destruct err; try (inversion H; subst; split; assumption).
    destruct (pp_parts p) as [|x l] eqn:Pp; [inversion H; subst; split; assumption|].
    assert (Hp : pp_parts p <> []) by (rewrite Pp; discriminate).
    destruct (mkdir_p fuel flt w1 (pf_dir f) (pp_parent p)) as [w2 r2] eqn:M2.
    destruct (IH _ _ _ _ E1 (vouched_parent _ Hp Hn) M2) as [E2 C2].
    pose proof (wstep_trans _ _ _ _ _ C1 C2) as C12.
    destruct r2 as [e2|]; [inversion H; subst; split; assumption|].
    destruct (mkdir_once flt w2 (pf_dir f) p) as [w3 r3] eqn:M3.
    destruct (mkdir_once_wstep _ _ _ _ _ _ E2 Hn M3) as [E3 C3].
    pose proof (wstep_trans _ _ _ _ _ C12 C3) as C123.
    destruct r3 as [err|]; [destruct err|]; inversion H; subst; split; assumption.
Qed.

Lemma file_mover_wstep flt w w' e :
  file_mover fixed flt w (pf_dir f) (pf_rel f) dst false = (w', e) ->
  wstep (still_valid (w_fs w)) D w w'.
Proof.
  rewrite file_mover_fixed_unfold.
  destruct (lexists (w_fs w) (pf_dir f) (to_upath dst)).
  { intros H. inversion H; subst. apply wstep_refl. }
  destruct (mkdir_p (S (length (pp_parts dst))) flt w (pf_dir f) (pp_parent dst)) as [w1 r1] eqn:MP.
  assert (Hn : vouched (pp_parent dst)).
  { intros Hp. left. apply (parents_contained_ndi _ _ _ Pc Hp). }
  destruct (mkdir_p_wstep _ _ _ _ _ _ _ (dir_ext_refl _) Hn MP) as [E1 C1].
  destruct r1 as [e1|]; [intros H; inversion H; subst; assumption|].
  destruct (lexists (w_fs w1) (pf_dir f) (to_upath dst)) eqn:Hg.
  { intros H. inversion H; subst. assumption. }
  destruct (sys flt CMove w1 (shutil_move_fs (w_fs w1) (pf_dir f) (to_upath (pf_rel f)) (to_upath dst))) as [w2 e2] eqn:Sy.
  intros H. assert (Ew : w2 = w') by (destruct e2; inversion H; reflexivity). subst w2. clear H.
  apply (wstep_trans _ _ _ _ _ C1).
  apply (wstep_sys _ _ _ _ _ _ _ _ Sy). intros s' R HP. rewrite (shutil_move_free _ _ _ _ Hg) in R.
  exact (rename_is_step _ _ _ HP E1 Hg R).
Qed.

Lemma renamer_wstep c w w' e :
  c_var c = fixed -> renamer c w (pf_dir f) (pf_rel f) dst false = (w', e) ->
  wstep (still_valid (w_fs w)) D w w'.
Proof.
  intros Hv. unfold renamer, renamer_core. rewrite Hv.
  destruct (c_dry c).
  - match goal with |- context [dry_renamer ?a ?b ?c ?d ?e ?g ?h] =>
      destruct (dry_renamer a b c d e g h) as [w1 [e1|]] eqn:Dr end;
      intros H; inversion H; subst;
      destruct (Safety.dry_renamer_fs _ _ _ _ _ _ _ _ _ Dr) as [A B];
      [|apply wstep_add_report]; apply wstep_same; assumption.
  - destruct (c_mode c).
    + destruct (file_renamer fixed (c_fault c) w (pf_dir f) (pf_rel f) dst false) as [w1 [e1|]] eqn:Dr;
        intros H; inversion H; subst; [|apply wstep_add_report]; exact (file_renamer_wstep _ _ _ _ Dr).
    + destruct (file_mover fixed (c_fault c) w (pf_dir f) (pf_rel f) dst false) as [w1 [e1|]] eqn:Dr;
        intros H; inversion H; subst; [|apply wstep_add_report]; exact (file_mover_wstep _ _ _ _ Dr).
    + destruct (file_renamer fixed (c_fault c) w (pf_dir f) (pf_rel f) dst false) as [w1 [e1|]] eqn:Dr;
        intros H; inversion H; subst; [|apply wstep_add_report]; exact (file_renamer_wstep _ _ _ _ Dr).
Qed.

End Step.

(* ---------- the shape of the history alone: no hypothesis on the tree ------------------------------------------- *)
Section Shape.
Variable D : list rpath.

Lemma sys_shape flt k w r w' e : sys flt k w r = (w', e) -> wstep False D w w'.
Proof. intros H. apply (wstep_sys _ _ _ _ _ _ _ _ H). intros s' _ []. Qed.

Lemma mkdir_p_shape flt cwd : forall fuel w p w' e, mkdir_p fuel flt w cwd p = (w', e) -> wstep False D w w'.
Proof.
  induction fuel as [|fuel IH]; intros w p w' e H.
  - rewrite mkdir_p_0 in H. destruct (mkdir_once flt w cwd p) as [w1 r] eqn:M1.
    pose proof (sys_shape _ _ _ _ _ _ M1) as C1.
    destruct r as [err|]; [destruct err|]; inversion H; subst; assumption.
  - rewrite mkdir_p_S in H. destruct (mkdir_once flt w cwd p) as [w1 r] eqn:M1.
    pose proof (sys_shape _ _ _ _ _ _ M1) as C1.
    destruct r as [err|]; [|inversion H; subst; assumption].
    destruct err; try (inversion H; subst; assumption).
    destruct (pp_parts p) as [|x l]; [inversion H; subst; assumption|].
    destruct (mkdir_p fuel flt w1 cwd (pp_parent p)) as [w2 r2] eqn:M2.
    pose proof (wstep_trans _ _ _ _ _ C1 (IH _ _ _ _ M2)) as C12.
    destruct r2 as [e2|]; [inversion H; subst; assumption|].
    destruct (mkdir_once flt w2 cwd p) as [w3 r3] eqn:M3.
    pose proof (wstep_trans _ _ _ _ _ C12 (sys_shape _ _ _ _ _ _ M3)) as C123.
    destruct r3 as [err|]; [destruct err|]; inversion H; subst; assumption.
Qed.

Lemma file_renamer_shape v flt w cwd src dst o w' e :
  file_renamer v flt w cwd src dst o = (w', e) -> wstep False D w w'.
Proof.
  unfold file_renamer.
  destruct (negb o && guard_exists v (w_fs w) cwd (to_upath dst)); [intros H; inversion H; subst; apply wstep_refl|].
  destruct (negb (ppath_eqb (pp_parent src) (pp_parent dst))); [intros H; inversion H; subst; apply wstep_refl|].
  destruct (sys flt CRename w (os_rename (w_fs w) cwd (to_upath src) (to_upath dst))) as [w1 e1] eqn:Sy.
  intros H. assert (Ew : w1 = w') by (destruct e1; inversion H; reflexivity). subst w1.
  exact (sys_shape _ _ _ _ _ _ Sy).
Qed.

Lemma file_mover_shape v flt w cwd src dst o w' e :
  file_mover v flt w cwd src dst o = (w', e) -> wstep False D w w'.
Proof.
  unfold file_mover.
  destruct (negb o && guard_exists v (w_fs w) cwd (to_upath dst)); [intros H; inversion H; subst; apply wstep_refl|].
  destruct (mkdir_p (S (length (pp_parts dst))) flt w cwd (pp_parent dst)) as [w1 r1] eqn:MP.
  pose proof (mkdir_p_shape _ _ _ _ _ _ _ MP) as C1.
  destruct r1 as [e1|]; [intros H; inversion H; subst; assumption|].
  destruct (v_recheck_after_mkdir v && negb o && guard_exists v (w_fs w1) cwd (to_upath dst));
    [intros H; inversion H; subst; assumption|].
  destruct (sys flt CMove w1 (shutil_move_fs (w_fs w1) cwd (to_upath src) (to_upath dst))) as [w2 e2] eqn:Sy.
  intros H. assert (Ew : w2 = w') by (destruct e2; inversion H; reflexivity). subst w2.
  exact (wstep_trans _ _ _ _ _ C1 (sys_shape _ _ _ _ _ _ Sy)).
Qed.

Lemma renamer_shape c w cwd src dst o w' e : renamer c w cwd src dst o = (w', e) -> wstep False D w w'.
Proof.
  unfold renamer, renamer_core.
  destruct (c_dry c).
  - match goal with |- context [dry_renamer ?a ?b ?c ?d ?e ?g ?h] =>
      destruct (dry_renamer a b c d e g h) as [w1 [e1|]] eqn:Dr end;
      intros H; inversion H; subst;
      destruct (Safety.dry_renamer_fs _ _ _ _ _ _ _ _ _ Dr) as [A B];
      [|apply wstep_add_report]; apply wstep_same; assumption.
  - destruct (c_mode c).
    + destruct (file_renamer (c_var c) (c_fault c) w cwd src dst o) as [w1 [e1|]] eqn:Dr;
        intros H; inversion H; subst; [|apply wstep_add_report]; exact (file_renamer_shape _ _ _ _ _ _ _ _ _ Dr).
    + destruct (file_mover (c_var c) (c_fault c) w cwd src dst o) as [w1 [e1|]] eqn:Dr;
        intros H; inversion H; subst; [|apply wstep_add_report]; exact (file_mover_shape _ _ _ _ _ _ _ _ _ Dr).
    + destruct (file_renamer (c_var c) (c_fault c) w cwd src dst o) as [w1 [e1|]] eqn:Dr;
        intros H; inversion H; subst; [|apply wstep_add_report]; exact (file_renamer_shape _ _ _ _ _ _ _ _ _ Dr).
Qed.
End Shape.

(* ---------- the manual prompt without "override" and "custom path" ------------------------------------------------ *)
Lemma prompt_simple fuel : forall w d w1,
  prompt fuel w = (d, w1) -> Forall simple_answer (w_answers w) ->
  w_fs w1 = w_fs w /\ w_hist w1 = w_hist w /\ Forall simple_answer (w_answers w1) /\
  (d = DStrategy Ignore \/ d = DStrategy Stop \/ d = DEof).
Proof.
  induction fuel as [|fuel IH]; intros w d w1; simpl.
  - intros E SA. inversion E; subst. auto 7.
  - destruct (take_line w) as [[l|] w2] eqn:T; destruct (take_line_props _ _ _ T) as [A [B [C0 D0]]]; intros E SA.
    + assert (SA2 : Forall simple_answer (w_answers w2)).
      { rewrite Forall_forall in *. intros a Ha. apply SA, D0, Ha. }
      assert (Sl : simple_answer l) by (rewrite Forall_forall in SA; apply SA, C0; reflexivity).
      destruct Sl as [S1 S2].
      destruct (parse_answer l) eqn:Pl; try congruence.
      * inversion E; subst. auto.
      * inversion E; subst. auto 6.
      * destruct (IH _ _ _ E SA2) as [A3 [B3 [C3 D3]]]. repeat split; try congruence; assumption.
    + inversion E; subst. split; [assumption|]. split; [assumption|]. split; [|auto].
      rewrite Forall_forall in *. intros a Ha. apply SA, D0, Ha.
Qed.

Definition answers_simple (c : cfg) (w : world) : Prop :=
  c_strategy c = Manual -> Forall simple_answer (w_answers w).

Lemma resolve_conflict_no_override c w cwd src dst w' e :
  no_override c -> answers_simple c w -> resolve_conflict c w cwd src dst = (w', e) ->
  w_fs w' = w_fs w /\ w_hist w' = w_hist w /\ answers_simple c w'.
Proof.
  unfold no_override, answers_simple, resolve_conflict. intros NO AS.
  destruct (c_strategy c) eqn:Cs; try contradiction.
  - simpl. intros E; inversion E; subst. auto.
  - simpl. intros E; inversion E; subst. auto.
  - destruct (prompt (S (length (w_answers w))) w) as [d w1] eqn:P.
    destruct (prompt_simple _ _ _ _ P (AS eq_refl)) as [A [B [C0 [Dd|[Dd|Dd]]]]]; subst d; simpl;
      intros E; inversion E; subst; auto.
Qed.

(* ---------- the two passes ------------------------------------------------------------------------------------------ *)
Section Run.
Variables (c : cfg) (D : list rpath) (s : fs).       (* s: the initial tree *)
Hypothesis Hv : c_var c = fixed.
Hypothesis NO : no_override c.

(* what the run-level statement assumes about a state: every input directory is its own real path in it,
   and its symbolic links are those of the initial tree *)
Definition good (h : fs) : Prop := (forall d, In d D -> chdir h d = Some d) /\ same_links s h.

(* the history, newest first: every state is one confined step after the one before, provided all OLDER
   states are good (so the first state that is not good is still reached by a confined step) *)
Fixpoint cchain (l : list fs) : Prop :=
  match l with
  | [] => True
  | h :: l' => cchain l' /\ (Forall good (l' ++ [s]) -> fs_step D (hd s l') h)
  end.

Definition tracked (w : world) : Prop := w_fs w = hd s (w_hist w) /\ cchain (w_hist w).

Lemma hd_in (l : list fs) : In (hd s l) (l ++ [s]).
Proof. destruct l; left; reflexivity. Qed.

Lemma cchain_chain l : cchain l -> Forall good (l ++ [s]) -> chain D s l.
Proof.
  induction l as [|h l IH]; intros C G; [exact I|].
  cbn [cchain app] in *. destruct C as [C S]. inversion G as [|? ? _ G']; subst.
  split; [apply IH; assumption | apply S; assumption].
Qed.

Lemma good_changes l : cchain l -> Forall good (l ++ [s]) -> forall h, In h (l ++ [s]) -> changes_in D s h.
Proof.
  intros C G h Hin. apply in_app_or in Hin as [Hin|[<-|[]]]; [|apply changes_in_refl].
  exact (chain_changes _ _ _ (cchain_chain _ C G) _ Hin).
Qed.

Lemma tracked_wstep (P : Prop) w w' :
  tracked w -> wstep P D w w' -> (Forall good (w_hist w ++ [s]) -> P) -> tracked w'.
Proof.
  intros [Hf Hc] [l [H [F C]]] HP. split.
  - rewrite F, H, Hf. symmetry. apply hd_app.
  - rewrite H. clear H F. induction l as [|h l IH]; [exact Hc|].
    cbn [app cchain]. split.
    + apply IH. intros K. exact (proj1 (C K)).
    + intros G. rewrite <- app_assoc in G. pose proof (proj2 (proj1 (Forall_app _ _ _) G)) as G2.
      destruct (C (HP G2)) as [_ S]. rewrite hd_app, <- Hf. exact S.
Qed.

Lemma good_still_valid f s1 w :
  tracked w -> In (pf_dir f) D -> In s1 (w_hist w ++ [s]) -> Forall good (w_hist w ++ [s]) ->
  still_valid D f s1 (w_fs w).
Proof.
  intros [Hf Hc] HfD Hs1 G.
  assert (Gw : good (w_fs w)) by (rewrite Forall_forall in G; apply G; rewrite Hf; apply hd_in).
  assert (G1 : good s1) by (rewrite Forall_forall in G; apply G; exact Hs1).
  split; [apply (proj1 Gw); exact HfD|]. split.
  - intros p. rewrite (realpath_raw_same_links _ _ _ _ (proj2 Gw)), (realpath_raw_same_links _ _ _ _ (proj2 G1)). reflexivity.
  - apply (changes_in_trans _ _ s).
    + apply changes_in_sym. exact (good_changes _ Hc G _ Hs1).
    + apply (good_changes _ Hc G). rewrite Hf. apply hd_in.
Qed.

(* what is remembered about a deferred rename: the four tests were made, on a state of the run *)
Definition bl_ok (hs : list fs) (bl : list backlog_entry) : Prop :=
  Forall (fun e => exists f dst s1, e = (pf_dir f, pf_rel f, dst) /\ In (pf_dir f) D /\ In s1 (hs ++ [s]) /\
                    contained fixed s1 f dst = Some true /\ parents_contained s1 f dst = Some true /\
                    source_contained s1 f = Some true /\ dest_parent_contained s1 f dst = Some true) bl.

Lemma bl_ok_ext l hs bl : bl_ok hs bl -> bl_ok (l ++ hs) bl.
Proof.
  apply Forall_impl. intros e [f [dst [s1 [E [A [B R]]]]]]. exists f, dst, s1. split; [exact E|]. split; [exact A|].
  split; [|exact R]. rewrite <- app_assoc. apply in_or_app. right. exact B.
Qed.

(* the renamer, called for a file after its three tests said yes on the current tree, or retried later *)
Lemma renamer_tracked f dst s1 cwd1 w w1 e1 :
  tracked w -> In (pf_dir f) D -> In s1 (w_hist w ++ [s]) ->
  contained fixed s1 f dst = Some true -> parents_contained s1 f dst = Some true ->
  source_contained s1 f = Some true ->
  chdir (w_fs w) (pf_dir f) = Some cwd1 ->
  renamer c w cwd1 (pf_rel f) dst false = (w1, e1) ->
  tracked w1 /\ exists l, w_hist w1 = l ++ w_hist w.
Proof.
  intros Tw HfD Hs1 Ct Pc Sc Hc Rn.
  assert (St : wstep (Forall good (w_hist w ++ [s])) D w w1).
  { destruct (rpath_eqb cwd1 (pf_dir f)) eqn:Ec.
    - apply rpath_eqb_eq in Ec. subst cwd1.
      apply (wstep_weaken (still_valid D f s1 (w_fs w))).
      + intros G. apply good_still_valid; assumption.
      + exact (renamer_wstep D f dst s1 HfD Ct Pc Sc c w w1 e1 Hv Rn).
    - apply (wstep_weaken False); [|exact (renamer_shape D _ _ _ _ _ _ _ _ Rn)].
      intros G. rewrite Forall_forall in G. destruct (G (w_fs w)) as [G1 _].
      { rewrite (proj1 Tw). apply hd_in. }
      rewrite (G1 _ HfD) in Hc. inversion Hc; subst. rewrite rpath_eqb_refl in Ec. discriminate. }
  split; [exact (tracked_wstep _ _ _ Tw St (fun x => x))|].
  destruct St as [l [H _]]. exists l. exact H.
Qed.

Lemma first_pass_tracked : forall plan w cwd bl w' cwd' bl' e,
  (forall f r, In (f, r) plan -> In (pf_dir f) D) ->
  tracked w -> bl_ok (w_hist w) bl -> first_pass c plan w cwd bl = (w', cwd', bl', e) ->
  tracked w' /\ bl_ok (w_hist w') bl' /\ w_answers w' = w_answers w.
Proof.
  induction plan as [|[f r] rest IH]; intros w cwd bl w' cwd' bl' e HD Tw Hbl.
  - intros H. inversion H; subst. auto.
  - assert (HD' : forall f0 r0, In (f0, r0) rest -> In (pf_dir f0) D) by (intros f0 r0 K; apply (HD f0 r0); right; exact K).
    assert (HfD : In (pf_dir f) D) by (apply (HD f r); left; reflexivity).
    cbn [first_pass].
    destruct (chdir (w_fs w) (pf_dir f)) as [cwd1|] eqn:Hc; [|intros H; inversion H; subst; auto].
    destruct (generate (c_mode c) f r) as [np|ex]; [|intros H; inversion H; subst; auto].
    destruct (ppath_eqb np (pf_rel f)); [apply IH; assumption|].
    rewrite Hv.
    destruct (contained fixed (w_fs w) f np) as [[|]|] eqn:Ct; try (intros H; inversion H; subst; auto; fail).
    rewrite dest_parent_test_fixed.
    destruct (dest_parent_contained (w_fs w) f np) as [[|]|] eqn:Dc; try (intros H; inversion H; subst; auto; fail).
    destruct (parents_contained (w_fs w) f np) as [[|]|] eqn:Pc; try (intros H; inversion H; subst; auto; fail).
    destruct (source_contained (w_fs w) f) as [[|]|] eqn:Sc; try (intros H; inversion H; subst; auto; fail).
    destruct (renamer c w cwd1 (pf_rel f) np false) as [w1 e1] eqn:Rn.
    assert (Hs1 : In (w_fs w) (w_hist w ++ [s])) by (rewrite (proj1 Tw); apply hd_in).
    destruct (renamer_tracked _ _ _ _ _ _ _ Tw HfD Hs1 Ct Pc Sc Hc Rn) as [Tw1 [l Hl]].
    pose proof (renamer_answers _ _ _ _ _ _ _ _ Rn) as A1.
    assert (Hbl1 : bl_ok (w_hist w1) bl) by (rewrite Hl; apply bl_ok_ext; exact Hbl).
    destruct e1 as [ex|].
    + destruct (is_file_exists ex).
      * intros H. apply IH in H; [|assumption|assumption|].
        { destruct H as [X [Y Z]]. split; [exact X|]. split; [exact Y | congruence]. }
        constructor; [|exact Hbl1]. exists f, np, (w_fs w). split; [reflexivity|]. split; [exact HfD|].
        split; [|exact (conj Ct (conj Pc (conj Sc Dc)))]. rewrite Hl, <- app_assoc. apply in_or_app. right. exact Hs1.
      * intros H. inversion H; subst. auto.
    + intros H. apply IH in H; [|assumption|assumption|assumption].
      destruct H as [X [Y Z]]. split; [exact X|]. split; [exact Y | congruence].
Qed.

Lemma second_pass_tracked : forall bl w cwd w' cwd' e,
  tracked w -> bl_ok (w_hist w) bl -> answers_simple c w ->
  second_pass c bl w cwd = (w', cwd', e) -> tracked w'.
Proof.
  induction bl as [|[[d src] dst] rest IH]; intros w cwd w' cwd' e Tw Hbl AS.
  - intros H. inversion H; subst. exact Tw.
  - cbn [second_pass]. rewrite Hv. cbn [fixed v_backlog_chdir].
    destruct (Forall_inv Hbl) as [f [dst0 [s1 [E [HfD [Hs1 [Ct [Pc [Sc _]]]]]]]]].
    pose proof (Forall_inv_tail Hbl) as Hrest.
    inversion E; subst d src dst0. clear E.
    destruct (chdir (w_fs w) (pf_dir f)) as [cwd1|] eqn:Hc; [|intros H; inversion H; subst; exact Tw].
    destruct (backlog_verify fixed (w_fs w) (pf_dir f) (pf_rel f) dst); [intros H; inversion H; subst; exact Tw|].
    destruct (renamer c w cwd1 (pf_rel f) dst false) as [w1 e1] eqn:Rn.
    destruct (renamer_tracked _ _ _ _ _ _ _ Tw HfD Hs1 Ct Pc Sc Hc Rn) as [Tw1 [l Hl]].
    pose proof (renamer_answers _ _ _ _ _ _ _ _ Rn) as A1.
    assert (Hbl1 : bl_ok (w_hist w1) rest) by (rewrite Hl; apply bl_ok_ext; exact Hrest).
    assert (AS1 : answers_simple c w1) by (intros K; rewrite A1; exact (AS K)).
    destruct e1 as [ex|]; [|apply IH; assumption].
    destruct (is_file_exists ex); [|intros H; inversion H; subst; exact Tw1].
    destruct (resolve_conflict c w1 cwd1 (pf_rel f) dst) as [w2 e2] eqn:RC.
    destruct (resolve_conflict_no_override _ _ _ _ _ _ _ NO AS1 RC) as [F2 [H2 AS2]].
    assert (Tw2 : tracked w2) by (unfold tracked; rewrite F2, H2; exact Tw1).
    destruct e2 as [ex2|]; [intros H; inversion H; subst; exact Tw2|].
    apply IH; [exact Tw2 | rewrite H2; exact Hbl1 | exact AS2].
Qed.

End Run.

(* ---------- the run ---------------------------------------------------------------------------------------------------- *)
Definition plan_dirs (plan : list (pfile * rendered)) : list rpath := map (fun fr => pf_dir (fst fr)) plan.

Lemma plan_dirs_in plan f r : In (f, r) plan -> In (pf_dir f) (plan_dirs plan).
Proof. intros H. unfold plan_dirs. apply in_map_iff. exists (f, r). split; [reflexivity | exact H]. Qed.

Lemma below_plan_dir plan k : below_some (plan_dirs plan) k -> exists f r, In (f, r) plan /\ is_prefix_path (pf_dir f) k = true.
Proof.
  intros [d [Hd P]]. unfold plan_dirs in Hd. apply in_map_iff in Hd as [[f r] [E Hin]]. simpl in E. subst d.
  exists f, r. split; assumption.
Qed.

Lemma run_tracked c plan cwd s :
  c_var c = fixed -> no_override c ->
  exists wF, r_final (run c plan cwd s) = w_fs wF /\ r_states (run c plan cwd s) = rev (w_hist wF) /\
             tracked (plan_dirs plan) s wF.
Proof.
  intros Hv NO. unfold run.
  assert (T0 : tracked (plan_dirs plan) s (init_world s (c_answers c))) by (split; [reflexivity | exact I]).
  assert (B0 : bl_ok (plan_dirs plan) s (w_hist (init_world s (c_answers c))) []) by constructor.
  destruct (first_pass c plan (init_world s (c_answers c)) cwd []) as [[[w1 cwd1] bl] e1] eqn:FP.
  destruct (first_pass_tracked c (plan_dirs plan) s Hv plan _ _ _ _ _ _ _ (plan_dirs_in plan) T0 B0 FP) as [T1 [B1 A1]].
  destruct e1 as [e|].
  - exists w1. simpl. auto.
  - destruct (second_pass c bl w1 cwd1) as [[w2 cwd2] e2] eqn:SP. exists w2. simpl.
    split; [reflexivity|]. split; [reflexivity|].
    apply (second_pass_tracked c (plan_dirs plan) s Hv NO bl w1 cwd1 w2 cwd2 e2 T1 B1); [|exact SP].
    intros Cs. rewrite A1. simpl. unfold no_override in NO. rewrite Cs in NO. exact NO.
Qed.

(* the hypothesis of the run-level theorem: in every state of the run, every input directory of the plan is
   its own real path, and the symbolic links are those of the initial tree (no link was moved, none was
   carried along inside a moved directory) *)
Definition run_good (c : cfg) (plan : list (pfile * rendered)) (cwd : rpath) (s : fs) : Prop :=
  Forall (good (plan_dirs plan) s) (s :: r_states (run c plan cwd s)).

(* every state of the run is reached from the initial tree by a chain of confined steps *)
Theorem run_is_chain c plan cwd s :
  c_var c = fixed -> no_override c -> run_good c plan cwd s ->
  exists l, r_states (run c plan cwd s) = rev l /\ r_final (run c plan cwd s) = hd s l /\ chain (plan_dirs plan) s l.
Proof.
  intros Hv NO G. destruct (run_tracked c plan cwd s Hv NO) as [wF [F [St [Hf Hc]]]].
  exists (w_hist wF). split; [exact St|]. split; [rewrite F; exact Hf|].
  apply (cchain_chain _ _ _ Hc). unfold run_good in G. rewrite St in G.
  apply Forall_rev in G. cbn [rev] in G. rewrite rev_involutive in G. exact G.
Qed.

Theorem every_state_confined c plan cwd s :
  c_var c = fixed -> no_override c -> run_good c plan cwd s ->
  forall h, In h (r_final (run c plan cwd s) :: r_states (run c plan cwd s)) -> changes_in (plan_dirs plan) s h.
Proof.
  intros Hv NO G h Hin. destruct (run_is_chain c plan cwd s Hv NO G) as [l [St [F C]]].
  assert (K : In h (l ++ [s])).
  { destruct Hin as [<-|Hin]; [rewrite F; apply hd_in|]. rewrite St in Hin. apply in_or_app. left. apply in_rev. exact Hin. }
  apply in_app_or in K as [K|[<-|[]]]; [exact (chain_changes _ _ _ C _ K) | apply changes_in_refl].
Qed.

Theorem run_confined c plan cwd s :
  c_var c = fixed -> no_override c -> run_good c plan cwd s ->
  forall k n,
    (In (k, n) (r_final (run c plan cwd s)) /\ ~ In (k, n) s) \/ (In (k, n) s /\ ~ In (k, n) (r_final (run c plan cwd s))) ->
    exists f r, In (f, r) plan /\ is_prefix_path (pf_dir f) k = true.
Proof.
  intros Hv NO G k n H. apply below_plan_dir.
  destruct (every_state_confined c plan cwd s Hv NO G _ (or_introl eq_refl)) as [A B].
  destruct H as [[H1 H2]|[H1 H2]]; [exact (A k n H1 H2) | exact (B k n H1 H2)].
Qed.

Theorem every_state_of_run_confined c plan cwd s :
  c_var c = fixed -> no_override c -> run_good c plan cwd s ->
  forall h, In h (r_states (run c plan cwd s)) -> forall k n,
    (In (k, n) h /\ ~ In (k, n) s) \/ (In (k, n) s /\ ~ In (k, n) h) ->
    exists f r, In (f, r) plan /\ is_prefix_path (pf_dir f) k = true.
Proof.
  intros Hv NO G h Hh k n H. apply below_plan_dir.
  destruct (every_state_confined c plan cwd s Hv NO G h (or_intror Hh)) as [A B].
  destruct H as [[H1 H2]|[H1 H2]]; [exact (A k n H1 H2) | exact (B k n H1 H2)].
Qed.

(* ---------- when does [run_good] hold?  A condition on the initial tree and the plan alone ---------------------------- *)
From Tempren Require Import FS.PlainPaths Pipe.SafetyFacts.

(* the real path the walk finds never has a ".." component *)
Lemma snoc_no_dotdot (cur : rpath) (c : name) : ~ In dotdot cur -> name_eqb c dotdot = false -> ~ In dotdot (cur ++ [c]).
Proof.
  intros Hc Ed K. apply in_app_or in K as [K|[K|[]]]; [exact (Hc K)|]. subst c. rewrite dotdot_refl in Ed. discriminate.
Qed.

Lemma walk_found_no_dotdot s f : forall cur comps fl p n,
  walk f s cur comps fl = WFound p n -> ~ In dotdot cur -> ~ In dotdot p.
Proof.
  induction f as [|f IH]; intros cur comps fl p n H Hc.
  - simpl in H. discriminate.
  - destruct comps as [|c rest].
    + rewrite walk_S in H. destruct (lookup s cur); [|discriminate]. inversion H; subst. exact Hc.
    + destruct (walk_cons_inv _ _ _ _ _ _ _ H (found_not_err _ _)) as [_ W].
      destruct W as [Ed H1 | Ed m Hl Hm Hrest E1 | Ed m Hl Hm Hrest Hfl E1 | Ed m Hl Hm Hrest H1 | Ed i t Hl Hrest H1 | Ed Hl Hrest E1].
      * apply (IH _ _ _ _ _ H1). intros K. apply Hc. apply In_removelast. exact K.
      * inversion E1; subst. apply snoc_no_dotdot; assumption.
      * inversion E1; subst. apply snoc_no_dotdot; assumption.
      * apply (IH _ _ _ _ _ H1). apply snoc_no_dotdot; assumption.
      * apply (IH _ _ _ _ _ H1). destruct (up_abs t); [intros [] | exact Hc].
      * discriminate.
Qed.

(* a walk straight down a path of directories succeeds in any tree in which they are directories too *)
Lemma walk_dirpath_transfer a b f : forall cur comps,
  ~ In dotdot comps -> dirpath a (cur ++ comps) -> dirpath b (cur ++ comps) ->
  walk f a cur comps true = WFound (cur ++ comps) NDir -> walk f b cur comps true = WFound (cur ++ comps) NDir.
Proof.
  induction f as [|f IH]; intros cur comps Hdd Ha Hb H.
  - simpl in H. discriminate.
  - destruct comps as [|c rest].
    + rewrite walk_S. rewrite (Hb cur [] eq_refl). rewrite app_nil_r. reflexivity.
    + assert (Ed : name_eqb c dotdot = false).
      { apply name_eqb_false_of_neq. intros E. apply Hdd. left. exact E. }
      assert (E1 : cur ++ c :: rest = (cur ++ [c]) ++ rest) by (rewrite <- app_assoc; reflexivity).
      pose proof (Ha cur (c :: rest) eq_refl) as La0. pose proof (Hb cur (c :: rest) eq_refl) as Lb0.
      pose proof (Ha (cur ++ [c]) rest E1) as La1. pose proof (Hb (cur ++ [c]) rest E1) as Lb1.
      rewrite walk_S in H. rewrite La0, Ed, La1 in H.
      rewrite walk_S. rewrite Lb0, Ed, Lb1.
      destruct rest as [|c2 rest']; [reflexivity|].
      rewrite E1 in *. apply IH; try assumption.
      intros K. apply Hdd. right. exact K.
Qed.

Lemma chdir_transfer a b d :
  WF a -> dirpath b d -> chdir a d = Some d -> chdir b d = Some d.
Proof.
  intros Wa DPb Hc. apply chdir_self in Hc.
  pose proof (dirpath_of_lookup _ _ Wa (resolve_found _ _ _ _ _ _ Hc)) as DPa.
  rewrite resolve_unfold in Hc. cbn [up_abs up_comps] in Hc.
  assert (Hdd : ~ In dotdot d) by (apply (walk_found_no_dotdot _ _ _ _ _ _ _ Hc); intros []).
  pose proof (walk_dirpath_transfer a b walk_fuel [] d Hdd DPa DPb Hc) as K.
  unfold chdir. rewrite resolve_unfold. cbn [up_abs up_comps]. cbn [app] in K. rewrite K. reflexivity.
Qed.

Section Static.
Variable D : list rpath.
Hypothesis antichain : forall d d', In d D -> In d' D -> is_prefix_path d d' = true -> d = d'.

Definition links_same (a b : fs) : Prop := forall k i t, In (k, NLink i t) a <-> In (k, NLink i t) b.
Definition no_links_below (a : fs) : Prop := forall k i t, In (k, NLink i t) a -> ~ below_some D k.

Lemma links_same_lookup a b : WF a -> WF b -> links_same a b -> same_links a b.
Proof.
  intros Wa Wb E p i t. destruct p as [|x p]; [split; discriminate|].
  split; intros H; apply lookup_of_In; try assumption; apply E; apply lookup_In; try assumption; discriminate.
Qed.

Lemma step_keeps_links a b : no_links_below a -> fs_step D a b -> links_same a b.
Proof.
  intros NL [k Hk Hn Hb -> | d q c dp Hd Pq Pd ->] k0 i t.
  - split; intros H.
    + apply in_or_app. left. exact H.
    + apply in_app_or in H as [H|[H|[]]]; [exact H | discriminate].
  - assert (Out : forall k1, In (k1, NLink i t) a -> rekey_path (q ++ [c]) dp k1 = k1).
    { intros k1 H1. apply rekey_outside. destruct (is_prefix_path (q ++ [c]) k1) eqn:P; [exfalso|reflexivity].
      apply (NL _ _ _ H1). exists d. split; [exact Hd|].
      apply (is_prefix_trans _ (q ++ [c])); [apply prefix_snoc; exact Pq | exact P]. }
    split; intros H.
    + pose proof (In_rekey (q ++ [c]) dp a _ _ H) as K. rewrite (Out _ H) in K. exact K.
    + apply In_rekey_inv in H as [k1 [H1 ->]]. rewrite (Out _ H1). exact H1.
Qed.

Lemma step_keeps_dirs a b d' :
  WF a -> WF b -> In d' D -> chdir a d' = Some d' -> fs_step D a b -> chdir b d' = Some d'.
Proof.
  intros Wa Wb Hd' Hc [k Hk Hn Hb -> | d q c dp Hd Pq Pd ->].
  - apply (chdir_dir_ext a); [apply snoc_dir_ext; assumption | exact Hc].
  - apply (chdir_transfer a); [exact Wa | | exact Hc].
    pose proof (dirpath_of_lookup _ _ Wa (resolve_found _ _ _ _ _ _ (chdir_self _ _ Hc))) as DPa.
    intros q0 r0 E. destruct q0 as [|x q0]; [reflexivity|].
    apply (lookup_of_In _ _ _ Wb).
    assert (Hin : In (x :: q0, NDir) a) by (apply lookup_In; [discriminate | apply (DPa _ _ E)]).
    assert (Np : is_prefix_path (q ++ [c]) (x :: q0) = false).
    { apply is_prefix_false. intros [r2 E2]. apply is_prefix_path_spec in Pq as [r1 Eq].
      assert (P' : is_prefix_path d d' = true).
      { apply is_prefix_path_spec. exists (r1 ++ [c] ++ r2 ++ r0). rewrite E, E2, Eq. rewrite <- !app_assoc. reflexivity. }
      pose proof (antichain _ _ Hd Hd' P') as Edd. rewrite <- Edd in E.
      rewrite E2, Eq in E. apply (f_equal (@length name)) in E. rewrite !app_length in E. simpl in E. lia. }
    pose proof (In_rekey (q ++ [c]) dp a _ _ Hin) as K. rewrite (rekey_outside _ _ _ Np) in K. exact K.
Qed.

Variable s : fs.
Definition good' (h : fs) : Prop := good D s h /\ links_same s h.

Lemma cchain_good' l :
  cchain D s l -> Forall WF (l ++ [s]) -> no_links_below s -> good' s -> Forall good' (l ++ [s]).
Proof.
  intros C W NL G0. induction l as [|h l IH]; [constructor; [exact G0 | constructor]|].
  cbn [app cchain] in *. destruct C as [C S]. inversion W as [|? ? Wh Wl]; subst.
  pose proof (IH C Wl) as G. constructor; [|exact G].
  assert (FG : Forall (good D s) (l ++ [s])) by (eapply Forall_impl; [|exact G]; intros x [X _]; exact X).
  pose proof (S FG) as St.
  assert (Ga : good' (hd s l)) by (rewrite Forall_forall in G; apply G; apply hd_in).
  assert (Wa : WF (hd s l)) by (rewrite Forall_forall in Wl; apply Wl; apply hd_in).
  assert (Ws : WF s) by (rewrite Forall_forall in Wl; apply Wl; apply in_or_app; right; left; reflexivity).
  destruct Ga as [[Gd Gl] Ls].
  assert (NLa : no_links_below (hd s l)) by (intros k i t H; apply (NL k i t); apply Ls; exact H).
  assert (Lh : links_same s h).
  { intros k i t. rewrite (Ls k i t). apply (step_keeps_links _ _ NLa St). }
  split; [split|exact Lh].
  - intros d Hd. apply (step_keeps_dirs _ _ _ Wa Wh Hd (Gd d Hd) St).
  - apply links_same_lookup; assumption.
Qed.

End Static.

(* every input directory is its own real path in the initial tree; no input directory lies strictly below
   another one; no symbolic link lies at or below an input directory *)
Definition plan_static (plan : list (pfile * rendered)) (s : fs) : Prop :=
  (forall f r, In (f, r) plan -> chdir s (pf_dir f) = Some (pf_dir f)) /\
  (forall f r f' r', In (f, r) plan -> In (f', r') plan ->
     is_prefix_path (pf_dir f) (pf_dir f') = true -> pf_dir f = pf_dir f') /\
  (forall k i t f r, In (k, NLink i t) s -> In (f, r) plan -> is_prefix_path (pf_dir f) k = false).

Lemma no_override_safe c : c_var c = fixed -> no_override c -> safe_cfg c.
Proof.
  intros Hv NO. split; [rewrite Hv; split; reflexivity|].
  unfold no_override in NO. destruct (c_strategy c); auto.
  unfold no_override_answer. eapply Forall_impl; [|exact NO]. intros a [A _]. exact A.
Qed.

Theorem static_run_good c plan cwd s :
  c_var c = fixed -> no_override c -> WF s -> plan_static plan s -> run_good c plan cwd s.
Proof.
  intros Hv NO W [S1 [S2 S3]].
  destruct (run_tracked c plan cwd s Hv NO) as [wF [F [St [Hf Hc]]]].
  destruct (run_safe (leaves s) c plan cwd s (no_override_safe c Hv NO) (conj W eq_refl)) as [Gs _].
  unfold run_good. rewrite St in *.
  assert (Wl : Forall WF (w_hist wF ++ [s])).
  { apply Forall_rev in Gs. cbn [rev] in Gs. rewrite rev_involutive in Gs.
    eapply Forall_impl; [|exact Gs]. intros x [X _]. exact X. }
  assert (A : forall d d', In d (plan_dirs plan) -> In d' (plan_dirs plan) -> is_prefix_path d d' = true -> d = d').
  { intros d d' Hd Hd' P. unfold plan_dirs in Hd, Hd'.
    apply in_map_iff in Hd as [[f r] [E1 H1]]. apply in_map_iff in Hd' as [[f' r'] [E2 H2]]. simpl in E1, E2. subst d d'.
    exact (S2 f r f' r' H1 H2 P). }
  assert (NL : no_links_below (plan_dirs plan) s).
  { intros k i t H [d [Hd P]]. unfold plan_dirs in Hd. apply in_map_iff in Hd as [[f r] [E1 H1]]. simpl in E1. subst d.
    rewrite (S3 k i t f r H H1) in P. discriminate. }
  assert (G0 : good' (plan_dirs plan) s s).
  { split; [split|].
    - intros d Hd. unfold plan_dirs in Hd. apply in_map_iff in Hd as [[f r] [E1 H1]]. simpl in E1. subst d. exact (S1 f r H1).
    - apply same_links_refl.
    - intros k i t. reflexivity. }
  pose proof (cchain_good' (plan_dirs plan) A s (w_hist wF) Hc Wl NL G0) as G.
  assert (G2 : Forall (good (plan_dirs plan) s) (w_hist wF ++ [s])) by (eapply Forall_impl; [|exact G]; intros x [X _]; exact X).
  apply Forall_rev in G2. rewrite rev_app_distr in G2. exact G2.
Qed.

Theorem run_confined_static c plan cwd s :
  c_var c = fixed -> no_override c -> WF s -> plan_static plan s ->
  forall h, In h (r_final (run c plan cwd s) :: r_states (run c plan cwd s)) -> forall k n,
    (In (k, n) h /\ ~ In (k, n) s) \/ (In (k, n) s /\ ~ In (k, n) h) ->
    exists f r, In (f, r) plan /\ is_prefix_path (pf_dir f) k = true.
Proof.
  intros Hv NO W PS h Hh k n H. apply below_plan_dir.
  destruct (every_state_confined c plan cwd s Hv NO (static_run_good c plan cwd s Hv NO W PS) h Hh) as [A B].
  destruct H as [[H1 H2]|[H1 H2]]; [exact (A k n H1 H2) | exact (B k n H1 H2)].
Qed.

(* ---------- non-vacuity: a deferred rename that is retried in the second pass ------------------------------------------ *)
(* /in, /in/a (file 1), /in/b (file 2), /out, /out/l -> /in.  Plan: a -> b (taken: deferred), b -> c.  The second
   pass renames a to b.  The only symbolic link lies outside the input directory. *)
Definition cr_out : name := [111;117;116].
Definition cr_l : name := [108].
Definition cr_c : name := [99].
Definition cr_fs : fs :=
  [([n_in], NDir); ([n_in; n_a], NFile 1); ([n_in; n_b], NFile 2); ([cr_out], NDir);
   ([cr_out; cr_l], NLink 3 {| up_abs := true; up_comps := [n_in] |})].
Definition cr_file (parts : list name) : pfile := {| pf_dir := [n_in]; pf_rel := {| pp_root := 0; pp_parts := parts |} |}.
Definition cr_plan : list (pfile * rendered) := [(cr_file [n_a], RText n_b); (cr_file [n_b], RText cr_c)].
Definition cr_cfg (m : mode) : cfg :=
  {| c_mode := m; c_strategy := Stop; c_dry := false; c_answers := []; c_fault := None; c_var := fixed |}.

Lemma cr_static : plan_static cr_plan cr_fs.
Proof.
  split; [|split].
  - intros f r [H|[H|[]]]; inversion H; subst; vm_compute; reflexivity.
  - intros f r f' r' [H|[H|[]]] [H'|[H'|[]]] _; inversion H; inversion H'; subst; reflexivity.
  - intros k i t f r Hk [H|[H|[]]]; inversion H; subst;
      (destruct Hk as [Hk|[Hk|[Hk|[Hk|[Hk|[]]]]]]; inversion Hk; subst; vm_compute; reflexivity).
Qed.

Example confined_run_applies :
  WF cr_fs /\ plan_static cr_plan cr_fs /\ no_override (cr_cfg MName) /\
  (let r := run (cr_cfg MName) cr_plan [] cr_fs in (r_status r, r_final r, r_calls r)) =
  (0%Z,
   [([n_in], NDir); ([n_in; n_b], NFile 1); ([n_in; cr_c], NFile 2); ([cr_out], NDir);
    ([cr_out; cr_l], NLink 3 {| up_abs := true; up_comps := [n_in] |})],
   [(CRename, COk); (CRename, COk)]).
Proof.
  split; [apply WfCheck.wf_b_sound; vm_compute; reflexivity|]. split; [exact cr_static|]. split; [exact I|].
  vm_compute. reflexivity.
Qed.

(* ---------- why the symbolic links must stay where they are ------------------------------------------------------------ *)
(* /in, /in/sub, /in/sub/a (1), /in/sub/b (2), /in/lnk -> sub, /in/oth -> /out, /out, /out/a (3).
   Plan, all in the input directory /in:  lnk/a -> b  (taken: deferred; all three tests said yes, on this tree),
   lnk -> lnk2,  oth -> lnk.  When the deferred rename is retried, "lnk" leads to /out: the run ends with status 0
   and has renamed /out/a to /out/b, outside the input directory.  Every input directory is its own real path in
   every state; what fails is [same_links]. *)
Definition cr_lnk : name := [108;110;107].
Definition cr_lnk2 : name := [108;110;107;50].
Definition cr_oth : name := [111;116;104].
Definition swap_fs : fs :=
  [([n_in], NDir); ([n_in; n_sub], NDir); ([n_in; n_sub; n_a], NFile 1); ([n_in; n_sub; n_b], NFile 2);
   ([n_in; cr_lnk], NLink 4 {| up_abs := false; up_comps := [n_sub] |});
   ([n_in; cr_oth], NLink 5 {| up_abs := true; up_comps := [cr_out] |});
   ([cr_out], NDir); ([cr_out; n_a], NFile 3)].
Definition swap_plan : list (pfile * rendered) :=
  [(cr_file [cr_lnk; n_a], RText n_b); (cr_file [cr_lnk], RText cr_lnk2); (cr_file [cr_oth], RText cr_lnk)].

(* the code before the repair of F38 ([pre_f38]: a deferred rename is retried without running the tests again) *)
Definition cr_cfg_v (v : variant) (m : mode) : cfg :=
  {| c_mode := m; c_strategy := Stop; c_dry := false; c_answers := []; c_fault := None; c_var := v |}.

Example swap_run :
  WF swap_fs /\ chdir swap_fs [n_in] = Some [n_in] /\
  (let r := run (cr_cfg_v pre_f38 MName) swap_plan [] swap_fs in (r_status r, r_final r)) =
  (0%Z,
   [([n_in], NDir); ([n_in; n_sub], NDir); ([n_in; n_sub; n_a], NFile 1); ([n_in; n_sub; n_b], NFile 2);
    ([n_in; cr_lnk2], NLink 4 {| up_abs := false; up_comps := [n_sub] |});
    ([n_in; cr_lnk], NLink 5 {| up_abs := true; up_comps := [cr_out] |});
    ([cr_out], NDir); ([cr_out; n_b], NFile 3)]) /\
  is_prefix_path [n_in] [cr_out; n_b] = false /\ is_prefix_path [n_in] [cr_out; n_a] = false.
Proof.
  split; [apply WfCheck.wf_b_sound; vm_compute; reflexivity|]. split; [vm_compute; reflexivity|].
  split; [vm_compute; reflexivity|]. split; reflexivity.
Qed.

(* the current code (F38 repaired) runs the tests again when the deferred rename is retried: "lnk/a" now lives in
   /out, the run ends with InvalidDestinationError (status 1) after the two renames of links inside /in, and
   everything outside the input directory is as it was *)
Example swap_run_retested :
  (let r := run (cr_cfg MName) swap_plan [] swap_fs in (r_status r, r_error r, r_final r, r_calls r)) =
  (1%Z, Some ExInvalidDest,
   [([n_in], NDir); ([n_in; n_sub], NDir); ([n_in; n_sub; n_a], NFile 1); ([n_in; n_sub; n_b], NFile 2);
    ([n_in; cr_lnk2], NLink 4 {| up_abs := false; up_comps := [n_sub] |});
    ([n_in; cr_lnk], NLink 5 {| up_abs := true; up_comps := [cr_out] |});
    ([cr_out], NDir); ([cr_out; n_a], NFile 3)],
   [(CRename, COk); (CRename, COk)]) /\
  (forall k n, is_prefix_path [n_in] k = false ->
     (In (k, n) (r_final (run (cr_cfg MName) swap_plan [] swap_fs)) <-> In (k, n) swap_fs)).
Proof.
  split; [vm_compute; reflexivity|].
  assert (E : r_final (run (cr_cfg MName) swap_plan [] swap_fs) =
   [([n_in], NDir); ([n_in; n_sub], NDir); ([n_in; n_sub; n_a], NFile 1); ([n_in; n_sub; n_b], NFile 2);
    ([n_in; cr_lnk2], NLink 4 {| up_abs := false; up_comps := [n_sub] |});
    ([n_in; cr_lnk], NLink 5 {| up_abs := true; up_comps := [cr_out] |});
    ([cr_out], NDir); ([cr_out; n_a], NFile 3)]) by (vm_compute; reflexivity).
  rewrite E. intros k n Hk. unfold swap_fs. split; intros H; cbn [In] in H |- *;
    repeat (destruct H as [H|H]; [inversion H; subst; try (vm_compute in Hk; discriminate Hk); tauto|]); contradiction.
Qed.

(* ---------- in between: the input directories by a condition on the plan, the links by a condition on the run ---------- *)
Section LinksStable.
Variable D : list rpath.
Hypothesis antichain : forall d d', In d D -> In d' D -> is_prefix_path d d' = true -> d = d'.
Variable s : fs.

Lemma cchain_good_links l :
  cchain D s l -> Forall WF (l ++ [s]) -> Forall (same_links s) l -> (forall d, In d D -> chdir s d = Some d) ->
  Forall (good D s) (l ++ [s]).
Proof.
  intros C W SL G0. induction l as [|h l IH].
  - constructor; [|constructor]. split; [exact G0 | apply same_links_refl].
  - cbn [app cchain] in *. destruct C as [C S]. inversion W as [|? ? Wh Wl]; subst. inversion SL as [|? ? Lh Ll]; subst.
    pose proof (IH C Wl Ll) as G. constructor; [|exact G].
    pose proof (S G) as St.
    assert (Ga : good D s (hd s l)) by (rewrite Forall_forall in G; apply G; apply hd_in).
    assert (Wa : WF (hd s l)) by (rewrite Forall_forall in Wl; apply Wl; apply hd_in).
    split; [|exact Lh].
    intros d Hd. apply (step_keeps_dirs D antichain _ _ _ Wa Wh Hd (proj1 Ga d Hd) St).
Qed.
End LinksStable.

Theorem links_stable_run_good c plan cwd s :
  c_var c = fixed -> no_override c -> WF s ->
  (forall f r, In (f, r) plan -> chdir s (pf_dir f) = Some (pf_dir f)) ->
  (forall f r f' r', In (f, r) plan -> In (f', r') plan ->
     is_prefix_path (pf_dir f) (pf_dir f') = true -> pf_dir f = pf_dir f') ->
  Forall (same_links s) (r_states (run c plan cwd s)) ->
  run_good c plan cwd s.
Proof.
  intros Hv NO W S1 S2 SL.
  destruct (run_tracked c plan cwd s Hv NO) as [wF [F [St [Hf Hc]]]].
  destruct (run_safe (leaves s) c plan cwd s (no_override_safe c Hv NO) (conj W eq_refl)) as [Gs _].
  unfold run_good. rewrite St in *.
  assert (Wl : Forall WF (w_hist wF ++ [s])).
  { apply Forall_rev in Gs. cbn [rev] in Gs. rewrite rev_involutive in Gs.
    eapply Forall_impl; [|exact Gs]. intros x [X _]. exact X. }
  assert (A : forall d d', In d (plan_dirs plan) -> In d' (plan_dirs plan) -> is_prefix_path d d' = true -> d = d').
  { intros d d' Hd Hd' P. unfold plan_dirs in Hd, Hd'.
    apply in_map_iff in Hd as [[f r] [E1 H1]]. apply in_map_iff in Hd' as [[f' r'] [E2 H2]]. simpl in E1, E2. subst d d'.
    exact (S2 f r f' r' H1 H2 P). }
  assert (G0 : forall d, In d (plan_dirs plan) -> chdir s d = Some d).
  { intros d Hd. unfold plan_dirs in Hd. apply in_map_iff in Hd as [[f r] [E1 H1]]. simpl in E1. subst d. exact (S1 f r H1). }
  apply Forall_rev in SL. rewrite rev_involutive in SL.
  pose proof (cchain_good_links (plan_dirs plan) A s (w_hist wF) Hc Wl SL G0) as G.
  apply Forall_rev in G. rewrite rev_app_distr in G. exact G.
Qed.

(* ---------- the statements in the form Properties/C06.v quotes ------------------------------------------------------------ *)
Theorem run_confined_links_stable c plan cwd s :
  c_var c = fixed -> WF s -> no_override c ->
  (forall f r, In (f, r) plan -> chdir s (pf_dir f) = Some (pf_dir f)) ->
  (forall f r f' r', In (f, r) plan -> In (f', r') plan ->
     is_prefix_path (pf_dir f) (pf_dir f') = true -> pf_dir f = pf_dir f') ->
  Forall (same_links s) (r_states (run c plan cwd s)) ->
  forall k n,
    (In (k, n) (r_final (run c plan cwd s)) /\ ~ In (k, n) s) \/ (In (k, n) s /\ ~ In (k, n) (r_final (run c plan cwd s))) ->
    exists f r, In (f, r) plan /\ is_prefix_path (pf_dir f) k = true.
Proof.
  intros Hv W NO S1 S2 SL. apply run_confined; try assumption. apply links_stable_run_good; assumption.
Qed.

Theorem every_state_confined_links_stable c plan cwd s :
  c_var c = fixed -> WF s -> no_override c ->
  (forall f r, In (f, r) plan -> chdir s (pf_dir f) = Some (pf_dir f)) ->
  (forall f r f' r', In (f, r) plan -> In (f', r') plan ->
     is_prefix_path (pf_dir f) (pf_dir f') = true -> pf_dir f = pf_dir f') ->
  Forall (same_links s) (r_states (run c plan cwd s)) ->
  forall h, In h (r_states (run c plan cwd s)) -> forall k n,
    (In (k, n) h /\ ~ In (k, n) s) \/ (In (k, n) s /\ ~ In (k, n) h) ->
    exists f r, In (f, r) plan /\ is_prefix_path (pf_dir f) k = true.
Proof.
  intros Hv W NO S1 S2 SL. apply every_state_of_run_confined; try assumption. apply links_stable_run_good; assumption.
Qed.
