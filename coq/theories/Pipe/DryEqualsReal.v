(* C05, name mode: a dry run and the real run of the same plan on the same tree end with the same   *)
(* exit status, the same reported renames and the same number of prompts.                          *)
(*                                                                                                  *)
(* Method: a simulation relation [Sim] between the dry world (disk untouched, bookkeeping sets      *)
(* created/removed) and the real world (disk changes): for every name k,                            *)
(*      k exists virtually (on the initial disk or created, and not removed)  iff  k is on the      *)
(*      disk of the real run,                                                                       *)
(* plus: both disks have the same directories and symbolic links (only regular files move).  For a  *)
(* PLAIN path (below an input directory that is reached without links, every proper prefix a        *)
(* directory entry, no "..") the kernel walk, realpath and DryRunRenamer's abspath key all yield    *)
(* input directory ++ parts, so both renamers take the same branch, and [simulation_step] (DrySim)  *)
(* re-establishes the relation after a successful rename.                                           *)
From Tempren Require Import Base.Str Py.PathLib FS.Model FS.Lemmas FS.PlainPaths Pipe.Pipeline Pipe.DestParent Pipe.BacklogVerify Pipe.DrySim.
Open Scope N_scope.

(* ---------- the statement's vocabulary --------------------------------------------------------- *)
(* [Pipeline.set_dry] already names the world update of DryRunRenamer, hence the prefix *)
Definition cfg_set_dry (c : cfg) (b : bool) : cfg :=
  {| c_mode := c_mode c; c_strategy := c_strategy c; c_dry := b; c_answers := c_answers c;
     c_fault := c_fault c; c_var := c_var c |}.

(* File(input_directory, relative_path) designates a regular file below an input directory, and no
   symbolic link is crossed on the way *)
Definition plain_file (s : fs) (f : pfile) : Prop :=
  let d := pf_dir f in
  let parts := pp_parts (pf_rel f) in
  chdir s d = Some d /\                        (* a real directory, reached without links *)
  ~ In dotdot d /\
  pp_root (pf_rel f) = 0%nat /\
  parts <> [] /\
  ~ In dotdot parts /\
  (forall q r, parts = q ++ r -> q <> [] -> r <> [] -> lookup s (d ++ q) = Some NDir) /\
  (exists i, lookup s (d ++ parts) = Some (NFile i)) /\
  (length d + length parts < walk_fuel)%nat.   (* the model's walk gives up (ELOOP) beyond walk_fuel components *)

Definition plain_plan (s : fs) (plan : list (pfile * rendered)) : Prop :=
  Forall (fun fr => plain_file s (fst fr)) plan.

(* the template never renders the name ".." (pathlib's with_name accepts it) *)
Definition no_dotdot_names (plan : list (pfile * rendered)) : Prop :=
  Forall (fun fr => match snd fr with RText t => t <> dotdot | _ => True end) plan.

(* where the new name is taken on the initial tree, it is not taken by a symbolic link *)
Definition dest_of (f : pfile) (t : str) : rpath := pf_dir f ++ removelast (pp_parts (pf_rel f)) ++ [t].

Definition dest_not_link (s : fs) (plan : list (pfile * rendered)) : Prop :=
  Forall (fun fr => match snd fr with RText t => not_link (lookup s (dest_of (fst fr) t)) | _ => True end) plan.

(* where the new name is taken on the initial tree, it is taken by a regular file (needed when a
   conflict may be resolved by overriding: os.rename onto a directory fails, the dry run does not) *)
Definition dest_replaceable (s : fs) (plan : list (pfile * rendered)) : Prop :=
  Forall (fun fr => match snd fr with RText t => skel s (dest_of (fst fr) t) = None | _ => True end) plan.

(* a custom path typed at the manual prompt that is a single name other than ".." *)
Definition single_name (a : str) : Prop :=
  exists q, parse_path a = {| pp_root := 0%nat; pp_parts := [q] |} /\ q <> dotdot.

(* answers at the manual prompt; OVR: "override" may be answered, CUS: "custom path" may be answered *)
Definition answer_ok (OVR CUS : Prop) (a : str) : Prop :=
  (parse_answer a = AOverride -> OVR) /\ (parse_answer a = ACustom -> CUS) /\ (CUS -> single_name a).

Definition answers_ok (OVR CUS : Prop) (c : cfg) : Prop :=
  match c_strategy c with
  | Stop | Ignore => True
  | Manual => Forall (answer_ok OVR CUS) (c_answers c)
  | Override => OVR
  end.

(* anything but "override" and "custom path" *)
Definition simple_answer (a : str) : Prop := parse_answer a <> AOverride /\ parse_answer a <> ACustom.

Definition no_override (c : cfg) : Prop :=
  match c_strategy c with
  | Stop | Ignore => True
  | Manual => Forall simple_answer (c_answers c)
  | Override => False
  end.

(* ---------- small facts -------------------------------------------------------------------------- *)
Lemma lexical_plain acc comps : ~ In dotdot comps -> lexical acc comps = acc ++ comps.
Proof.
  revert acc. induction comps as [|c rest IH]; intros acc H; simpl; [rewrite app_nil_r; reflexivity|].
  rewrite name_eqb_false_of_neq by (intros E; apply H; left; assumption).
  rewrite IH by (intros K; apply H; right; assumption). rewrite <- app_assoc. reflexivity.
Qed.

Lemma to_upath_rel p : pp_root p = 0%nat -> to_upath p = {| up_abs := false; up_comps := pp_parts p |}.
Proof. unfold to_upath. intros ->. reflexivity. Qed.

Lemma present_lookup s k : present s k = match lookup s k with Some _ => true | None => false end.
Proof. reflexivity. Qed.

(* ---------- a relative path ready to be handed to a renamer in the directory d -------------------- *)
Record plain_rel (s : fs) (d : rpath) (p : ppath) : Prop := {
  pr_root : pp_root p = 0%nat;
  pr_ne : pp_parts p <> [];
  pr_dd : ~ In dotdot (pp_parts p);
  pr_ddd : ~ In dotdot d;
  pr_len : (length d + length (pp_parts p) < walk_fuel)%nat;
  pr_par : lookup s (d ++ removelast (pp_parts p)) = Some NDir
}.

Lemma plain_rel_transfer s s' d p :
  (forall k, skel s' k = skel s k) -> plain_rel s d p -> plain_rel s' d p.
Proof.
  intros Sk [A B C D E F]. constructor; try assumption.
  apply skel_dir. rewrite Sk. apply skel_dir. assumption.
Qed.

Lemma plain_rel_key_ne s d p : plain_rel s d p -> d ++ pp_parts p <> [].
Proof. intros P E. apply app_eq_nil in E as [_ E]. exact (pr_ne _ _ _ P E). Qed.

Lemma resolve_rel s d p :
  WF s -> plain_rel s d p ->
  resolve s d (to_upath p) false =
    match lookup s (d ++ pp_parts p) with
    | Some n => WFound (d ++ pp_parts p) n
    | None => WMissing (d ++ removelast (pp_parts p)) (last (pp_parts p) [])
    end.
Proof.
  intros W P. rewrite (to_upath_rel _ (pr_root _ _ _ P)). apply resolve_plain.
  - pose proof (pr_len _ _ _ P). unfold name in *. lia.
  - exact (pr_ne _ _ _ P).
  - exact (pr_dd _ _ _ P).
  - apply dirpath_of_lookup; [assumption | exact (pr_par _ _ _ P)].
Qed.

Lemma lexists_rel s d p : WF s -> plain_rel s d p -> lexists s d (to_upath p) = present s (d ++ pp_parts p).
Proof.
  intros W P. unfold lexists. rewrite (resolve_rel s d p W P), present_lookup.
  destruct (lookup s (d ++ pp_parts p)); reflexivity.
Qed.

Lemma dry_key_rel s d p : plain_rel s d p -> dry_key fixed d p = d ++ pp_parts p.
Proof.
  intros P. unfold dry_key. cbn [fixed v_dry_abs_keys]. rewrite (pr_root _ _ _ P). cbn [Nat.eqb].
  apply lexical_plain. exact (pr_dd _ _ _ P).
Qed.

Lemma bad_last_rel s d p : plain_rel s d p -> bad_last (to_upath p) = false.
Proof.
  intros P. rewrite (to_upath_rel _ (pr_root _ _ _ P)). unfold bad_last. cbn [up_comps].
  pose proof (pr_ne _ _ _ P) as Hne. pose proof (pr_dd _ _ _ P) as Hdd.
  destruct (pp_parts p) as [|x l] eqn:E; [congruence|].
  apply name_eqb_false_of_neq. intros K. apply Hdd. rewrite <- K. apply last_In. discriminate.
Qed.

Lemma chdir_plain s d :
  WF s -> lookup s d = Some NDir -> ~ In dotdot d -> (length d < walk_fuel)%nat -> chdir s d = Some d.
Proof.
  intros W L Hdd Hlen. unfold chdir. rewrite resolve_dirs; [reflexivity | assumption | assumption|].
  apply dirpath_of_lookup; assumption.
Qed.

(* the two containment tests succeed on a plain destination that is not a symbolic link *)
Lemma contained_rel s f np :
  WF s -> plain_rel s (pf_dir f) np -> not_link (lookup s (pf_dir f ++ pp_parts np)) ->
  contained fixed s f np = Some (is_prefix_path (pf_dir f) (pf_dir f ++ pp_parts np)).
Proof.
  intros W P NL. unfold contained. rewrite (pr_root _ _ _ P). cbn [Nat.eqb fixed v_component_containment].
  destruct (exists_last (pr_ne _ _ _ P)) as [pre [t E]].
  pose proof (pr_par _ _ _ P) as Hpar. pose proof (pr_len _ _ _ P) as Hlen. pose proof (pr_dd _ _ _ P) as Hdd.
  rewrite E in *. rewrite removelast_snoc in Hpar. rewrite app_assoc in *.
  rewrite realpath_plain; [reflexivity | | | |assumption].
  - rewrite <- app_assoc, app_length. unfold name in *. lia.
  - rewrite <- app_assoc. intros K. apply in_app_or in K as [K|K]; [exact (pr_ddd _ _ _ P K) | exact (Hdd K)].
  - apply dirpath_of_lookup; assumption.
Qed.

Lemma new_dirs_inside_exists n s d comps :
  exists_ s [] {| up_abs := true; up_comps := comps |} = true -> new_dirs_inside n s d comps = Some true.
Proof. destruct n; cbn [new_dirs_inside]; intros ->; reflexivity. Qed.

Lemma parents_contained_rel s f np :
  WF s -> plain_rel s (pf_dir f) np -> parents_contained s f np = Some true.
Proof.
  intros W P. unfold parents_contained. rewrite (pr_root _ _ _ P). cbn [Nat.eqb].
  rewrite (removelast_app_ne _ _ (pr_ne _ _ _ P)).
  assert (Ex : exists_ s [] {| up_abs := true; up_comps := pf_dir f ++ removelast (pp_parts np) |} = true).
  { unfold exists_. rewrite resolve_dirs; [reflexivity | | |].
    - pose proof (pr_len _ _ _ P) as Hlen. rewrite app_length.
      assert (length (removelast (pp_parts np)) <= length (pp_parts np))%nat.
      { destruct (exists_last (pr_ne _ _ _ P)) as [pre [t E]]. rewrite E, removelast_snoc, app_length. simpl. lia. }
      unfold name in *. lia.
    - intros K. apply in_app_or in K as [K|K]; [exact (pr_ddd _ _ _ P K) | apply In_removelast in K; exact (pr_dd _ _ _ P K)].
    - apply dirpath_of_lookup; [assumption | exact (pr_par _ _ _ P)]. }
  apply new_dirs_inside_exists. exact Ex.
Qed.

(* Path.resolve() of a plain directory path is the path itself *)
Lemma realpath_dirpath s p :
  (length p < walk_fuel)%nat -> ~ In dotdot p -> dirpath s p ->
  realpath s [] {| up_abs := true; up_comps := p |} = Some p.
Proof.
  intros Hlen Hdd Hd.
  assert (J : realpath_raw s [] {| up_abs := true; up_comps := p |} = p).
  { unfold realpath_raw. cbn [up_abs up_comps]. rewrite joinreal_plain; [reflexivity | | assumption |].
    - pose proof walk_fuel_lt_realpath_fuel. lia.
    - intros q r E _ i t. cbn [app]. rewrite (Hd q r E). discriminate. }
  rewrite realpath_unfold, J. rewrite resolve_dirs; [reflexivity | assumption | assumption | assumption].
Qed.

(* the test on the directory the source really lives in succeeds for a plain source: that directory is
   input directory ++ all but the last part, a plain directory path *)
Lemma source_contained_rel s f :
  WF s -> plain_rel s (pf_dir f) (pf_rel f) -> source_contained s f = Some true.
Proof.
  intros W P. unfold source_contained, source_parent. rewrite (pr_root _ _ _ P). cbn [Nat.eqb].
  rewrite realpath_dirpath.
  - f_equal. apply is_prefix_path_spec. eexists. reflexivity.
  - pose proof (pr_len _ _ _ P) as Hlen. rewrite app_length.
    assert (length (removelast (pp_parts (pf_rel f))) <= length (pp_parts (pf_rel f)))%nat.
    { destruct (exists_last (pr_ne _ _ _ P)) as [pre [t E]]. rewrite E, removelast_snoc, app_length. simpl. lia. }
    unfold name in *. lia.
  - intros K. apply in_app_or in K as [K|K]; [exact (pr_ddd _ _ _ P K) | apply In_removelast in K; exact (pr_dd _ _ _ P K)].
  - apply dirpath_of_lookup; [assumption | exact (pr_par _ _ _ P)].
Qed.

(* os.rename of a plain regular file onto a plain free name *)
Lemma os_rename_rel_ok s d src dst i :
  WF s -> plain_rel s d src -> plain_rel s d dst ->
  lookup s (d ++ pp_parts src) = Some (NFile i) -> lookup s (d ++ pp_parts dst) = None ->
  os_rename s d (to_upath src) (to_upath dst) = SOk (rekey (d ++ pp_parts src) (d ++ pp_parts dst) s).
Proof.
  intros W Ps Pd Ls Ld. unfold os_rename.
  rewrite (bad_last_rel _ _ _ Ps), (bad_last_rel _ _ _ Pd). cbn [orb].
  rewrite (resolve_rel _ _ _ W Ps), (resolve_rel _ _ _ W Pd), Ls, Ld.
  pose proof (plain_rel_key_ne _ _ _ Ps) as Hne.
  destruct (d ++ pp_parts src) as [|x sp] eqn:E; [congruence|].
  assert (Hl : name_eqb (last (pp_parts dst) []) dotdot = false).
  { apply name_eqb_false_of_neq. intros K. apply (pr_dd _ _ _ Pd). rewrite <- K. apply last_In. exact (pr_ne _ _ _ Pd). }
  rewrite Hl. cbn [is_dir_node andb].
  f_equal. f_equal. rewrite <- app_assoc. f_equal. symmetry. apply app_removelast_last. exact (pr_ne _ _ _ Pd).
Qed.

Lemma os_rename_rel_missing s d src dst :
  WF s -> plain_rel s d src -> plain_rel s d dst ->
  lookup s (d ++ pp_parts src) = None ->
  os_rename s d (to_upath src) (to_upath dst) = SErr ENOENT.
Proof.
  intros W Ps Pd Ls. unfold os_rename.
  rewrite (bad_last_rel _ _ _ Ps), (bad_last_rel _ _ _ Pd). cbn [orb].
  rewrite (resolve_rel _ _ _ W Ps), Ls. reflexivity.
Qed.

Lemma os_rename_rel_replace s d src dst i j :
  WF s -> plain_rel s d src -> plain_rel s d dst ->
  lookup s (d ++ pp_parts src) = Some (NFile i) -> lookup s (d ++ pp_parts dst) = Some (NFile j) ->
  pp_parts src <> pp_parts dst ->
  os_rename s d (to_upath src) (to_upath dst) =
    SOk (rekey (d ++ pp_parts src) (d ++ pp_parts dst) (remove_key (d ++ pp_parts dst) s)).
Proof.
  intros W Ps Pd Ls Ld Hne. unfold os_rename.
  rewrite (bad_last_rel _ _ _ Ps), (bad_last_rel _ _ _ Pd). cbn [orb].
  rewrite (resolve_rel _ _ _ W Ps), (resolve_rel _ _ _ W Pd), Ls, Ld.
  pose proof (plain_rel_key_ne _ _ _ Ps) as Hs. pose proof (plain_rel_key_ne _ _ _ Pd) as Hd.
  assert (Hsd : rpath_eqb (d ++ pp_parts dst) (d ++ pp_parts src) = false).
  { apply rpath_eqb_neq. intros E. apply app_inv_head in E. congruence. }
  destruct (d ++ pp_parts src) as [|x sp] eqn:E; [congruence|].
  rewrite Hsd.
  destruct (d ++ pp_parts dst) as [|y dp] eqn:E2; [congruence|]. reflexivity.
Qed.

(* ---------- the new name "..": a relative path  pre/..  with  pre  an existing directory below d ------- *)
Record dd_rel (s : fs) (d : rpath) (p : ppath) (pre : list name) : Prop := {
  dd_root : pp_root p = 0%nat;
  dd_parts : pp_parts p = pre ++ [dotdot];
  dd_dd : ~ In dotdot pre;
  dd_ddd : ~ In dotdot d;
  dd_len : (length d + length pre + 1 < walk_fuel)%nat;
  dd_par : lookup s (d ++ pre) = Some NDir
}.

Lemma dd_rel_transfer s s' d p pre :
  (forall k, skel s' k = skel s k) -> dd_rel s d p pre -> dd_rel s' d p pre.
Proof.
  intros Sk [A B C D E F]. constructor; try assumption.
  apply skel_dir. rewrite Sk. apply skel_dir. assumption.
Qed.

Lemma dd_rel_dirpath s d p pre : WF s -> dd_rel s d p pre -> dirpath s (d ++ pre).
Proof. intros W P. apply dirpath_of_lookup; [assumption | exact (dd_par _ _ _ _ P)]. Qed.

Lemma dd_rel_nodd s d p pre : dd_rel s d p pre -> ~ In dotdot (d ++ pre).
Proof. intros P K. apply in_app_or in K as [K|K]; [exact (dd_ddd _ _ _ _ P K) | exact (dd_dd _ _ _ _ P K)]. Qed.

Lemma dd_rel_len s d p pre : dd_rel s d p pre -> (length (d ++ pre) + 1 < walk_fuel)%nat.
Proof. intros P. pose proof (dd_len _ _ _ _ P). rewrite app_length. unfold name in *. lia. Qed.

Lemma lexists_dd s d p pre : WF s -> dd_rel s d p pre -> lexists s d (to_upath p) = true.
Proof.
  intros W P. rewrite (to_upath_rel _ (dd_root _ _ _ _ P)), (dd_parts _ _ _ _ P). unfold lexists.
  rewrite (resolve_dotdot_last s d false pre false); [reflexivity | | | |].
  - pose proof (dd_len _ _ _ _ P). unfold name in *. lia.
  - exact (dd_dd _ _ _ _ P).
  - intros q r E. apply (dd_rel_dirpath _ _ _ _ W P (d ++ q) r). rewrite E, app_assoc. reflexivity.
  - apply dirpath_self. apply dirpath_removelast. exact (dd_rel_dirpath _ _ _ _ W P).
Qed.

Lemma lexical_app acc a b : lexical acc (a ++ b) = lexical (lexical acc a) b.
Proof.
  revert acc. induction a as [|c a IH]; intros acc; simpl; [reflexivity|].
  destruct (name_eqb c dotdot); apply IH.
Qed.

Lemma dry_key_dd s d p pre : dd_rel s d p pre -> dry_key fixed d p = removelast (d ++ pre).
Proof.
  intros P. unfold dry_key. cbn [fixed v_dry_abs_keys]. rewrite (dd_root _ _ _ _ P), (dd_parts _ _ _ _ P). cbn [Nat.eqb].
  rewrite lexical_app, (lexical_plain _ _ (dd_dd _ _ _ _ P)). cbn [lexical]. rewrite dotdot_refl. reflexivity.
Qed.

Lemma contained_dd s f np pre :
  WF s -> dd_rel s (pf_dir f) np pre ->
  contained fixed s f np = Some (is_prefix_path (pf_dir f) (removelast (pf_dir f ++ pre))).
Proof.
  intros W P. unfold contained. rewrite (dd_root _ _ _ _ P), (dd_parts _ _ _ _ P). cbn [Nat.eqb fixed v_component_containment].
  rewrite app_assoc. rewrite realpath_dotdot_last; [reflexivity | | |].
  - exact (dd_rel_len _ _ _ _ P).
  - exact (dd_rel_nodd _ _ _ _ P).
  - exact (dd_rel_dirpath _ _ _ _ W P).
Qed.

(* ---------- the simulation ----------------------------------------------------------------------- *)
Section Simulation.
Variable s0 : fs.                         (* the initial tree *)
Variable st : strategy.
Variable answers : list str.
Variables OVR CUS : Prop.                 (* may a conflict be overridden / resolved by a custom path? *)
Hypothesis W0 : WF s0.
Hypothesis st_ok :
  match st with Stop | Ignore => True | Manual => Forall (answer_ok OVR CUS) answers | Override => OVR end.

Definition cD : cfg :=
  {| c_mode := MName; c_strategy := st; c_dry := true; c_answers := answers; c_fault := None; c_var := fixed |}.
Definition cR : cfg :=
  {| c_mode := MName; c_strategy := st; c_dry := false; c_answers := answers; c_fault := None; c_var := fixed |}.

Record Sim (wd wr : world) : Prop := {
  sim_fs : w_fs wd = s0;
  sim_wf : WF (w_fs wr);
  sim_skel : forall k, skel (w_fs wr) k = skel s0 k;
  sim_inv : forall k, k <> [] -> vexists (present s0) (w_created wd) (w_removed wd) k = present (w_fs wr) k;
  sim_report : w_report wd = w_report wr;
  sim_answers : w_answers wd = w_answers wr;
  sim_prompts : w_prompts wd = w_prompts wr;
  sim_ok : st = Manual -> Forall (answer_ok OVR CUS) (w_answers wr);
  sim_root : mem_path [] (w_removed wd) = false
}.

Lemma Sim_init : Sim (init_world s0 answers) (init_world s0 answers).
Proof.
  constructor; cbn [init_world w_fs w_created w_removed w_report w_answers w_prompts]; auto.
  - intros k _. unfold vexists, mem_path. simpl. rewrite orb_false_r, andb_true_r. reflexivity.
  - intros E. rewrite E in st_ok. exact st_ok.
Qed.

Lemma dry_exists_sim wd wr d p :
  Sim wd wr -> plain_rel s0 d p -> dry_exists fixed wd d p = present (w_fs wr) (d ++ pp_parts p).
Proof.
  intros S P. unfold dry_exists. cbn [fixed v_dry_abs_keys].
  rewrite (sim_fs _ _ S), (lexists_rel _ _ _ W0 P), (dry_key_rel _ _ _ P).
  apply (sim_inv _ _ S). exact (plain_rel_key_ne _ _ _ P).
Qed.

Lemma Sim_add_call wd wr c : Sim wd wr -> Sim wd (add_call wr c).
Proof. intros [F1 F2 F3 F4 F5 F6 F7 F8 F9]. constructor; assumption. Qed.

(* one successful step in both worlds.  [s1] is the real tree with the destination entry taken out
   (an atomic replace) or the real tree itself (the destination is free) *)
Lemma Sim_step wd wr s1 sp dp i src dst ov :
  Sim wd wr -> sp <> [] -> dp <> [] -> sp <> dp ->
  WF s1 -> (forall k, lookup s1 k = if rpath_eqb k dp then None else lookup (w_fs wr) k) ->
  lookup (w_fs wr) sp = Some (NFile i) -> skel (w_fs wr) dp = None ->
  lookup (w_fs wr) (removelast dp) = Some NDir ->
  Sim (add_report (Pipeline.set_dry wd (del_path sp (add_path dp (w_created wd))) (del_path dp (add_path sp (w_removed wd)))) src dst ov)
      (add_report (set_fs wr (rekey sp dp s1) (CRename, COk)) src dst ov).
Proof.
  intros S Hsp Hdp Hsd W1 L1 Ls Skd Lpar.
  assert (Ls1 : lookup s1 sp = Some (NFile i)).
  { rewrite L1. assert (rpath_eqb sp dp = false) by (apply rpath_eqb_neq; assumption). rewrite H. assumption. }
  assert (Ld1 : lookup s1 dp = None) by (rewrite L1, rpath_eqb_refl; reflexivity).
  assert (Hin : In (sp, NFile i) s1) by (apply lookup_In; assumption).
  pose proof (file_is_leaf _ _ _ W1 Hin) as Leaf.
  assert (Free : forall q m, In (q, m) s1 -> q <> dp).
  { intros q m Hq E. subst q. apply lookup_None_notin in Ld1. apply Ld1. apply in_map_iff. exists (dp, m). split; auto. }
  destruct (exists_last Hdp) as [dpar [dname Edp]].
  assert (W' : WF (rekey sp dp s1)).
  { rewrite Edp in *. rewrite removelast_snoc in Lpar.
    apply (rename_missing_preserves s1 sp (NFile i) dpar dname); try assumption; [|reflexivity].
    rewrite L1. destruct (rpath_eqb dpar (dpar ++ [dname])) eqn:E; [|assumption].
    apply rpath_eqb_eq in E. exfalso. apply (f_equal (@length _)) in E. rewrite app_length in E. simpl in E. lia. }
  pose proof (lookup_rekey_leaf s1 sp dp (NFile i)) as LK.
  constructor; cbn [add_report Pipeline.set_dry set_fs w_fs w_created w_removed w_report w_answers w_prompts].
  - exact (sim_fs _ _ S).
  - exact W'.
  - intros k. rewrite <- (sim_skel _ _ S k). unfold skel in *.
    rewrite (LK k W1 W' Hin Hsp Hdp Hsd Leaf Free).
    destruct (rpath_eqb k dp) eqn:Ed.
    + apply rpath_eqb_eq in Ed. subst k. destruct (lookup (w_fs wr) dp) as [[?|? ?|]|]; congruence.
    + destruct (rpath_eqb k sp) eqn:Es.
      * apply rpath_eqb_eq in Es. subst k. rewrite Ls. reflexivity.
      * rewrite L1, Ed. reflexivity.
  - intros k Hk. rewrite dry_step_tracks_rename by assumption.
    rewrite present_lookup, (LK k W1 W' Hin Hsp Hdp Hsd Leaf Free).
    destruct (rpath_eqb k dp) eqn:Ed; [reflexivity|].
    destruct (rpath_eqb k sp) eqn:Es; [reflexivity|].
    rewrite L1, Ed. rewrite (sim_inv _ _ S k Hk). reflexivity.
  - rewrite (sim_report _ _ S). reflexivity.
  - exact (sim_answers _ _ S).
  - exact (sim_prompts _ _ S).
  - exact (sim_ok _ _ S).
  - rewrite mem_del, mem_add, (sim_root _ _ S).
    assert (rpath_eqb [] sp = false) by (destruct sp; [congruence | reflexivity]).
    rewrite H. apply andb_false_r.
Qed.

(* the two renamers of name mode, written out (no conversion ever looks inside [lexists]/[os_rename]) *)
Lemma renamer_dry_eq wd d src dst ov :
  renamer cD wd d src dst ov =
    if dry_exists fixed wd d dst && negb ov then (wd, Some ExDestExists)
    else if negb (ppath_eqb (pp_parent src) (pp_parent dst)) then (wd, Some ExInvalidDest)
    else if negb (dry_exists fixed wd d src) then (wd, Some ExOther)
    else (add_report (Pipeline.set_dry wd
            (del_path (dry_key fixed d src) (add_path (dry_key fixed d dst) (w_created wd)))
            (del_path (dry_key fixed d dst) (add_path (dry_key fixed d src) (w_removed wd)))) src dst ov, None).
Proof.
  unfold renamer, renamer_core. cbn [cD c_dry c_mode c_var]. unfold dry_renamer.
  destruct (dry_exists fixed wd d dst && negb ov); [reflexivity|]. cbn [andb negb].
  destruct (ppath_eqb (pp_parent src) (pp_parent dst)); [|reflexivity]. cbn [negb].
  destruct (dry_exists fixed wd d src); reflexivity.
Qed.

Lemma renamer_real_eq wr d src dst ov :
  renamer cR wr d src dst ov =
    if negb ov && lexists (w_fs wr) d (to_upath dst) then (wr, Some ExDestExists)
    else if negb (ppath_eqb (pp_parent src) (pp_parent dst)) then (wr, Some ExInvalidDest)
    else match os_rename (w_fs wr) d (to_upath src) (to_upath dst) with
         | SOk s' => (add_report (set_fs wr s' (CRename, COk)) src dst ov, None)
         | SErr e => (add_call wr (CRename, CErr), Some (exn_of_errno e))
         end.
Proof.
  unfold renamer, renamer_core. cbn [cR c_dry c_mode c_var c_fault]. unfold file_renamer, guard_exists.
  cbn [fixed v_lexists_guard].
  destruct (negb ov && lexists (w_fs wr) d (to_upath dst)); [reflexivity|].
  destruct (ppath_eqb (pp_parent src) (pp_parent dst)); [|reflexivity]. cbn [negb].
  unfold sys, faulted.
  destruct (os_rename (w_fs wr) d (to_upath src) (to_upath dst)); reflexivity.
Qed.

(* (1) one call of the renamer in both worlds: same outcome, relation preserved.
   With override, a destination that is taken must be taken by a regular file. *)
Lemma sim_renamer wd wr d src dst ov wd' ed wr' er :
  Sim wd wr -> plain_rel s0 d src -> plain_rel s0 d dst -> skel s0 (d ++ pp_parts src) = None ->
  (ov = true -> skel s0 (d ++ pp_parts dst) = None /\ pp_parts src <> pp_parts dst) ->
  renamer cD wd d src dst ov = (wd', ed) -> renamer cR wr d src dst ov = (wr', er) ->
  ed = er /\ Sim wd' wr'.
Proof.
  intros S Ps Pd Hsk Hov.
  pose proof (sim_wf _ _ S) as W.
  pose proof (plain_rel_transfer _ _ _ _ (sim_skel _ _ S) Ps) as Ps'.
  pose proof (plain_rel_transfer _ _ _ _ (sim_skel _ _ S) Pd) as Pd'.
  pose proof (plain_rel_key_ne _ _ _ Ps) as Hs. pose proof (plain_rel_key_ne _ _ _ Pd) as Hd.
  assert (Lpar : lookup (w_fs wr) (removelast (d ++ pp_parts dst)) = Some NDir).
  { rewrite (removelast_app_ne _ _ (pr_ne _ _ _ Pd)). exact (pr_par _ _ _ Pd'). }
  rewrite renamer_dry_eq, renamer_real_eq.
  rewrite (dry_exists_sim _ _ _ _ S Pd), (dry_exists_sim _ _ _ _ S Ps), (lexists_rel _ _ _ W Pd').
  rewrite (dry_key_rel _ _ _ Ps), (dry_key_rel _ _ _ Pd).
  rewrite !present_lookup.
  assert (SrcFile : forall n, lookup (w_fs wr) (d ++ pp_parts src) = Some n -> exists i, n = NFile i).
  { intros n Ls. pose proof (sim_skel _ _ S (d ++ pp_parts src)) as K. rewrite Hsk in K. unfold skel in K. rewrite Ls in K.
    destruct n as [i|i t|]; [exists i; reflexivity | discriminate | discriminate]. }
  destruct (lookup (w_fs wr) (d ++ pp_parts dst)) as [nd|] eqn:Ld.
  - (* the destination is taken *)
    destruct ov; cbn [negb andb].
    2:{ intros Ed Er; inversion Ed; inversion Er; subst. split; [reflexivity | assumption]. }
    destruct (Hov eq_refl) as [Hskd Hne].
    assert (Skd : skel (w_fs wr) (d ++ pp_parts dst) = None) by (rewrite (sim_skel _ _ S); assumption).
    assert (exists j, nd = NFile j) as [j ->].
    { unfold skel in Skd. rewrite Ld in Skd. destruct nd as [j|j t|]; [exists j; reflexivity | discriminate | discriminate]. }
    destruct (ppath_eqb (pp_parent src) (pp_parent dst)); cbn [negb].
    2:{ intros Ed Er; inversion Ed; inversion Er; subst. split; [reflexivity | assumption]. }
    destruct (lookup (w_fs wr) (d ++ pp_parts src)) as [n|] eqn:Ls; cbn [negb].
    + destruct (SrcFile n eq_refl) as [i ->].
      rewrite (os_rename_rel_replace _ _ _ _ i j W Ps' Pd' Ls Ld Hne).
      intros Ed Er; inversion Ed; inversion Er; subst. split; [reflexivity|].
      apply (Sim_step wd wr _ _ _ i); try assumption.
      * intros E. apply app_inv_head in E. congruence.
      * apply (remove_file_WF _ _ j); [assumption | apply lookup_In; assumption].
      * intros k. apply lookup_remove_key. assumption.
    + rewrite (os_rename_rel_missing _ _ _ _ W Ps' Pd' Ls). cbn [exn_of_errno].
      intros Ed Er; inversion Ed; inversion Er; subst. split; [reflexivity | apply Sim_add_call; assumption].
  - (* the destination is free *)
    rewrite andb_false_r. cbn [andb].
    destruct (ppath_eqb (pp_parent src) (pp_parent dst)); cbn [negb].
    2:{ intros Ed Er; inversion Ed; inversion Er; subst. split; [reflexivity | assumption]. }
    destruct (lookup (w_fs wr) (d ++ pp_parts src)) as [n|] eqn:Ls; cbn [negb].
    + destruct (SrcFile n eq_refl) as [i ->].
      rewrite (os_rename_rel_ok _ _ _ _ i W Ps' Pd' Ls Ld).
      intros Ed Er; inversion Ed; inversion Er; subst. split; [reflexivity|].
      apply (Sim_step wd wr _ _ _ i); try assumption.
      * intros E. rewrite E in Ls. congruence.
      * intros k. destruct (rpath_eqb k (d ++ pp_parts dst)) eqn:E; [|reflexivity].
        apply rpath_eqb_eq in E. subst k. assumption.
      * unfold skel. rewrite Ld. reflexivity.
    + rewrite (os_rename_rel_missing _ _ _ _ W Ps' Pd' Ls). cbn [exn_of_errno].
      intros Ed Er; inversion Ed; inversion Er; subst. split; [reflexivity | apply Sim_add_call; assumption].
Qed.

(* the destination  pre/..  exists in both worlds: both renamers refuse *)
Lemma dry_exists_dd wd wr d p pre :
  Sim wd wr -> dd_rel s0 d p pre -> dry_exists fixed wd d p = true.
Proof.
  intros S P. unfold dry_exists. cbn [fixed v_dry_abs_keys].
  rewrite (sim_fs _ _ S), (lexists_dd _ _ _ _ W0 P), (dry_key_dd _ _ _ _ P). cbn [orb andb].
  assert (Hdir : lookup (w_fs wr) (removelast (d ++ pre)) = Some NDir).
  { apply dirpath_self, dirpath_removelast.
    exact (dd_rel_dirpath _ _ _ _ (sim_wf _ _ S) (dd_rel_transfer _ _ _ _ _ (sim_skel _ _ S) P)). }
  destruct (removelast (d ++ pre)) as [|x k] eqn:K.
  - rewrite (sim_root _ _ S). reflexivity.
  - pose proof (sim_inv _ _ S (x :: k) ltac:(discriminate)) as I.
    rewrite present_lookup, Hdir in I. unfold vexists in I. apply andb_true_iff in I as [_ I]. exact I.
Qed.

Lemma sim_renamer_dd wd wr d src dst pre :
  Sim wd wr -> dd_rel s0 d dst pre ->
  renamer cD wd d src dst false = (wd, Some ExDestExists) /\
  renamer cR wr d src dst false = (wr, Some ExDestExists).
Proof.
  intros S P. rewrite renamer_dry_eq, renamer_real_eq.
  rewrite (dry_exists_dd _ _ _ _ _ S P).
  rewrite (lexists_dd _ _ _ _ (sim_wf _ _ S) (dd_rel_transfer _ _ _ _ _ (sim_skel _ _ S) P)).
  split; reflexivity.
Qed.

Lemma parents_contained_dd s f np pre :
  WF s -> dd_rel s (pf_dir f) np pre -> parents_contained s f np = Some true.
Proof.
  intros W P. unfold parents_contained. rewrite (dd_root _ _ _ _ P), (dd_parts _ _ _ _ P). cbn [Nat.eqb].
  rewrite app_assoc, removelast_snoc.
  apply new_dirs_inside_exists. unfold exists_. rewrite resolve_dirs; [reflexivity | | |].
  - pose proof (dd_rel_len _ _ _ _ P). lia.
  - exact (dd_rel_nodd _ _ _ _ P).
  - exact (dd_rel_dirpath _ _ _ _ W P).
Qed.

(* ---------- the prompt ---------------------------------------------------------------------------- *)
Lemma sim_take_line wd wr ld wd1 lr wr1 :
  Sim wd wr -> take_line wd = (ld, wd1) -> take_line wr = (lr, wr1) ->
  ld = lr /\ Sim wd1 wr1 /\
  (st = Manual -> forall a, lr = Some a -> answer_ok OVR CUS a).
Proof.
  intros S. unfold take_line. rewrite (sim_answers _ _ S).
  destruct (w_answers wr) as [|a rest] eqn:A; intros Ed Er; inversion Ed; inversion Er; subst.
  - split; [reflexivity|]. split; [assumption|]. intros _ b Hb. discriminate.
  - split; [reflexivity|]. split.
    + destruct S as [F1 F2 F3 F4 F5 F6 F7 F8 F9].
      constructor; cbn [w_fs w_created w_removed w_report w_answers w_prompts]; auto.
      intros M. pose proof (F8 M) as K. rewrite A in K. inversion K; assumption.
    + intros M b Hb. inversion Hb; subst. pose proof (sim_ok _ _ S M) as K. rewrite A in K. inversion K; assumption.
Qed.

Definition decision_ok (d : decision) : Prop :=
  match d with
  | DStrategy Ignore | DStrategy Stop | DEof => True
  | DStrategy Override => OVR
  | DStrategy Manual => False
  | DPath p => single_name p
  end.

Lemma sim_prompt fuel wd wr dd wd1 dr wr1 :
  st = Manual -> Sim wd wr -> prompt fuel wd = (dd, wd1) -> prompt fuel wr = (dr, wr1) ->
  dd = dr /\ Sim wd1 wr1 /\ decision_ok dr.
Proof.
  intros M. revert wd wr. induction fuel as [|f IH]; intros wd wr S; cbn [prompt].
  - intros Ed Er; inversion Ed; inversion Er; subst. split; [reflexivity|]. split; [assumption | exact I].
  - destruct (take_line wd) as [ld wd2] eqn:Td. destruct (take_line wr) as [lr wr2] eqn:Tr.
    destruct (sim_take_line _ _ _ _ _ _ S Td Tr) as [El [S2 Ok]]. subst ld.
    destruct lr as [l|].
    + destruct (Ok M l eq_refl) as [HO [HC _]].
      destruct (parse_answer l) eqn:P.
      * intros Ed Er; inversion Ed; inversion Er; subst. split; [reflexivity|]. split; [assumption | exact I].
      * intros Ed Er; inversion Ed; inversion Er; subst. split; [reflexivity|]. split; [assumption | exact I].
      * intros Ed Er; inversion Ed; inversion Er; subst. split; [reflexivity|]. split; [assumption | exact (HO eq_refl)].
      * destruct (take_line wd2) as [pd wd3] eqn:Td3. destruct (take_line wr2) as [pr wr3] eqn:Tr3.
        destruct (sim_take_line _ _ _ _ _ _ S2 Td3 Tr3) as [El3 [S3 Ok3]]. subst pd.
        destruct pr as [pth|].
        -- intros Ed Er; inversion Ed; inversion Er; subst. split; [reflexivity|]. split; [assumption|].
           destruct (Ok3 M pth eq_refl) as [_ [_ SN]]. exact (SN (HC eq_refl)).
        -- intros Ed Er; inversion Ed; inversion Er; subst. split; [reflexivity|]. split; [assumption | exact I].
      * apply IH. assumption.
    + intros Ed Er; inversion Ed; inversion Er; subst. split; [reflexivity|]. split; [assumption | exact I].
Qed.

(* ---------- conflict resolution and the two passes ------------------------------------------------------ *)
(* the containment tests run again before a deferred entry is retried (F38), on any tree on which the entry is plain *)
Lemma verify_yes_dd x m f r np pre :
  WF x -> generate m f r = inl np -> (match m with MPath => false | _ => true end) = true ->
  plain_rel x (pf_dir f) (pf_rel f) -> dd_rel x (pf_dir f) np pre ->
  is_prefix_path (pf_dir f) (removelast (pf_dir f ++ pre)) = true ->
  backlog_verify fixed x (pf_dir f) (pf_rel f) np = None.
Proof.
  intros Wx G Hm Ps Pdd IP. apply backlog_verify_yes.
  - rewrite (contained_dd x f np _ Wx Pdd), IP. reflexivity.
  - exact (dest_parent_test_generated fixed _ x f _ np G Hm (source_contained_rel x f Wx Ps)).
  - exact (parents_contained_dd x f np _ Wx Pdd).
  - exact (source_contained_rel x f Wx Ps).
Qed.

Lemma verify_yes_plain x m f r np :
  WF x -> generate m f r = inl np -> (match m with MPath => false | _ => true end) = true ->
  plain_rel x (pf_dir f) (pf_rel f) -> plain_rel x (pf_dir f) np ->
  not_link (lookup x (pf_dir f ++ pp_parts np)) ->
  is_prefix_path (pf_dir f) (pf_dir f ++ pp_parts np) = true ->
  backlog_verify fixed x (pf_dir f) (pf_rel f) np = None.
Proof.
  intros Wx G Hm Ps Pd NLd IP. apply backlog_verify_yes.
  - rewrite (contained_rel x f np Wx Pd NLd), IP. reflexivity.
  - exact (dest_parent_test_generated fixed _ x f _ np G Hm (source_contained_rel x f Wx Ps)).
  - exact (parents_contained_rel x f np Wx Pd).
  - exact (source_contained_rel x f Wx Ps).
Qed.

(* the containment tests run again before a deferred entry is retried (F38) say yes on every tree that has
   the skeleton of the initial one: on the initial tree itself (dry run) and on the current one (real run) *)
Definition retest_ok (b : backlog_entry) : Prop :=
  forall x, WF x -> (forall k, skel x k = skel s0 k) ->
  backlog_verify fixed x (fst (fst b)) (snd (fst b)) (snd b) = None.

Definition plain_entry (b : backlog_entry) : Prop :=
  let d := fst (fst b) in let src := snd (fst b) in let dst := snd b in
  lookup s0 d = Some NDir /\ plain_rel s0 d src /\ skel s0 (d ++ pp_parts src) = None /\
  ((plain_rel s0 d dst /\ (OVR -> skel s0 (d ++ pp_parts dst) = None /\ pp_parts src <> pp_parts dst)) \/
   ((exists pre, dd_rel s0 d dst pre) /\ ~ OVR)) /\
  retest_ok b.

Lemma retest_ok_dd f r np pre :
  generate MName f r = inl np -> plain_rel s0 (pf_dir f) (pf_rel f) -> dd_rel s0 (pf_dir f) np pre ->
  is_prefix_path (pf_dir f) (removelast (pf_dir f ++ pre)) = true -> retest_ok (pf_dir f, pf_rel f, np).
Proof.
  intros G Ps Pdd IP x Wx Sx. cbn [fst snd].
  exact (verify_yes_dd x MName f r np pre Wx G eq_refl (plain_rel_transfer _ _ _ _ Sx Ps) (dd_rel_transfer _ _ _ _ _ Sx Pdd) IP).
Qed.

Lemma retest_ok_plain f r np :
  generate MName f r = inl np -> plain_rel s0 (pf_dir f) (pf_rel f) -> plain_rel s0 (pf_dir f) np ->
  not_link (lookup s0 (pf_dir f ++ pp_parts np)) ->
  is_prefix_path (pf_dir f) (pf_dir f ++ pp_parts np) = true -> retest_ok (pf_dir f, pf_rel f, np).
Proof.
  intros G Ps Pd NLd IP x Wx Sx. cbn [fst snd].
  apply (verify_yes_plain x MName f r np Wx G eq_refl (plain_rel_transfer _ _ _ _ Sx Ps) (plain_rel_transfer _ _ _ _ Sx Pd)); [|exact IP].
  intros i tg K. apply skel_link in K. rewrite Sx in K. apply skel_link in K. exact (NLd i tg K).
Qed.

Lemma plain_rel_single d src q :
  lookup s0 d = Some NDir -> plain_rel s0 d src -> q <> dotdot ->
  plain_rel s0 d {| pp_root := 0%nat; pp_parts := [q] |}.
Proof.
  intros Ld [A B C D E F] Hq. constructor; cbn [pp_root pp_parts removelast]; try assumption.
  - reflexivity.
  - discriminate.
  - intros [K|[]]. exact (Hq K).
  - destruct (pp_parts src); [congruence|]. simpl in *. unfold name in *. lia.
  - rewrite app_nil_r. assumption.
Qed.

Lemma sim_resolve_conflict wd wr d src dst wd' ed wr' er :
  Sim wd wr -> plain_entry (d, src, dst) ->
  resolve_conflict cD wd d src dst = (wd', ed) -> resolve_conflict cR wr d src dst = (wr', er) ->
  ed = er /\ Sim wd' wr'.
Proof.
  intros S PE. unfold plain_entry in PE. cbn [fst snd] in PE. destruct PE as [Ld [Ps [Hsk [Hdst Hrt]]]].
  (* overriding is only possible onto a plain destination *)
  assert (Ovr : OVR -> forall wd0 wr0 wd1 e1 wr1 e2, Sim wd0 wr0 ->
            renamer cD wd0 d src dst true = (wd1, e1) -> renamer cR wr0 d src dst true = (wr1, e2) ->
            e1 = e2 /\ Sim wd1 wr1).
  { intros O wd0 wr0 wd1 e1 wr1 e2 S0. destruct Hdst as [[Pd Hov]|[_ NO]]; [|contradiction].
    apply sim_renamer; try assumption. intros _. exact (Hov O). }
  unfold resolve_conflict. cbn [cD cR c_strategy].
  destruct st eqn:St.
  - cbn [resolve_simple]. intros Ed Er; inversion Ed; inversion Er; subst. split; [reflexivity | assumption].
  - cbn [resolve_simple]. intros Ed Er; inversion Ed; inversion Er; subst. split; [reflexivity | assumption].
  - cbn [resolve_simple]. apply (Ovr st_ok). assumption.
  - rewrite (sim_answers _ _ S).
    destruct (prompt (Datatypes.S (length (w_answers wr))) wd) as [dd wd1] eqn:Pd1.
    destruct (prompt (Datatypes.S (length (w_answers wr))) wr) as [dr wr1] eqn:Pr1.
    destruct (sim_prompt _ _ _ _ _ _ _ St S Pd1 Pr1) as [E [S1 D]]. subst dd.
    destruct dr as [[| | |]|pth|]; cbn [decision_ok] in D; cbn [resolve_simple].
    + intros Ed Er; inversion Ed; inversion Er; subst. split; [reflexivity | assumption].
    + intros Ed Er; inversion Ed; inversion Er; subst. split; [reflexivity | assumption].
    + apply (Ovr D). assumption.
    + contradiction.
    + destruct D as [q [Eq Hq]]. rewrite Eq. apply sim_renamer; try assumption.
      * exact (plain_rel_single _ _ _ Ld Ps Hq).
      * discriminate.
    + intros Ed Er; inversion Ed; inversion Er; subst. split; [reflexivity | assumption].
Qed.

Lemma plain_rel_dlen s d p : plain_rel s d p -> (length d < walk_fuel)%nat.
Proof. intros P. pose proof (pr_len _ _ _ P). unfold name in *. lia. Qed.

Lemma chdir_sim wd wr d p :
  Sim wd wr -> lookup s0 d = Some NDir -> plain_rel s0 d p ->
  chdir (w_fs wd) d = Some d /\ chdir (w_fs wr) d = Some d.
Proof.
  intros S L P. rewrite (sim_fs _ _ S). split.
  - apply chdir_plain; [assumption | assumption | exact (pr_ddd _ _ _ P) | exact (plain_rel_dlen _ _ _ P)].
  - apply chdir_plain; [exact (sim_wf _ _ S) | | exact (pr_ddd _ _ _ P) | exact (plain_rel_dlen _ _ _ P)].
    apply skel_dir. rewrite (sim_skel _ _ S). apply skel_dir. assumption.
Qed.

Lemma sim_second_pass bl wd wr cwd wd' cd' ed wr' cr' er :
  Forall plain_entry bl -> Sim wd wr ->
  second_pass cD bl wd cwd = (wd', cd', ed) -> second_pass cR bl wr cwd = (wr', cr', er) ->
  ed = er /\ Sim wd' wr'.
Proof.
  revert wd wr cwd. induction bl as [|[[d src] dst] rest IH]; intros wd wr cwd PB S; cbn [second_pass].
  - intros Ed Er; inversion Ed; inversion Er; subst. split; [reflexivity | assumption].
  - inversion PB as [|? ? PE PB']; subst. pose proof PE as PE0.
    unfold plain_entry in PE. cbn [fst snd] in PE. destruct PE as [Ld [Ps [Hsk [Hdst Hrt]]]].
    cbn [cD cR c_var fixed v_backlog_chdir].
    destruct (chdir_sim _ _ _ _ S Ld Ps) as [-> ->].
    unfold retest_ok in Hrt. cbn [fst snd] in Hrt.
    rewrite (sim_fs _ _ S).
    rewrite (Hrt s0 W0 (fun k => eq_refl)), (Hrt (w_fs wr) (sim_wf _ _ S) (sim_skel _ _ S)).
    destruct (renamer cD wd d src dst false) as [wd1 ed1] eqn:Rd.
    destruct (renamer cR wr d src dst false) as [wr1 er1] eqn:Rr.
    assert (R : ed1 = er1 /\ Sim wd1 wr1).
    { destruct Hdst as [[Pd Hov]|[[pre Pdd] NO]].
      - apply (sim_renamer wd wr d src dst false wd1 ed1 wr1 er1); try assumption. discriminate.
      - destruct (sim_renamer_dd wd wr d src dst pre S Pdd) as [Xd Xr].
        rewrite Xd in Rd. rewrite Xr in Rr. inversion Rd; inversion Rr; subst. split; [reflexivity | assumption]. }
    destruct R as [E S1]. subst er1.
    destruct ed1 as [e|]; [|apply IH; assumption].
    destruct (is_file_exists e).
    + destruct (resolve_conflict cD wd1 d src dst) as [wd2 ed2] eqn:Cd.
      destruct (resolve_conflict cR wr1 d src dst) as [wr2 er2] eqn:Cr.
      destruct (sim_resolve_conflict _ _ _ _ _ _ _ _ _ S1 PE0 Cd Cr) as [E2 S2]. subst er2.
      destruct ed2 as [e2|]; [|apply IH; assumption].
      intros Ed Er; inversion Ed; inversion Er; subst. split; [reflexivity | assumption].
    + intros Ed Er; inversion Ed; inversion Er; subst. split; [reflexivity | assumption].
Qed.

(* what a plan entry provides *)
Lemma plain_file_rel f : plain_file s0 f -> lookup s0 (pf_dir f) = Some NDir /\ plain_rel s0 (pf_dir f) (pf_rel f) /\ skel s0 (pf_dir f ++ pp_parts (pf_rel f)) = None.
Proof.
  intros [Hc [Hdd [Hr [Hne [Hpd [Hpre [[i Hi] Hlen]]]]]]].
  assert (Ld : lookup s0 (pf_dir f) = Some NDir).
  { revert Hc. unfold chdir.
    destruct (resolve s0 [] {| up_abs := true; up_comps := pf_dir f |} true) as [p n| |] eqn:R; try discriminate.
    destruct n; try discriminate. intros Hc. inversion Hc; subst. apply resolve_found in R. assumption. }
  split; [assumption|]. split.
  - constructor; try assumption.
    destruct (exists_last Hne) as [pre [t E]]. rewrite E, removelast_snoc.
    destruct pre as [|x pre]; [rewrite app_nil_r; assumption|].
    apply (Hpre (x :: pre) [t]); [assumption | discriminate | discriminate].
  - unfold skel. rewrite Hi. reflexivity.
Qed.

Lemma generate_name f r np :
  generate MName f r = inl np ->
  exists t, r = RText t /\ np = {| pp_root := pp_root (pf_rel f); pp_parts := removelast (pp_parts (pf_rel f)) ++ [t] |}.
Proof.
  destruct r as [t|t|e]; cbn [generate]; try discriminate.
  unfold pp_with_name. destruct (pp_parts (pf_rel f)) eqn:E; [discriminate|].
  destruct (match t with [] => true | [46] => true | _ => has_slash t end); [discriminate|].
  intros H. inversion H. exists t. split; reflexivity.
Qed.

Lemma plain_rel_dest f t :
  plain_rel s0 (pf_dir f) (pf_rel f) -> t <> dotdot ->
  plain_rel s0 (pf_dir f) {| pp_root := pp_root (pf_rel f); pp_parts := removelast (pp_parts (pf_rel f)) ++ [t] |}.
Proof.
  intros [A B C D E F] Ht. constructor; cbn [pp_root pp_parts]; try assumption.
  - destruct (removelast (pp_parts (pf_rel f))); discriminate.
  - intros K. apply in_app_or in K as [K|[K|[]]]; [apply In_removelast in K; exact (C K) | exact (Ht K)].
  - rewrite (length_removelast_snoc _ _ B). assumption.
  - rewrite removelast_snoc. assumption.
Qed.

Lemma ppath_neq_parts a b :
  pp_root a = pp_root b -> ppath_eqb a b = false -> pp_parts a <> pp_parts b.
Proof.
  intros R H E. unfold ppath_eqb in H. rewrite R, Nat.eqb_refl, E in H. cbn [andb] in H.
  assert (list_eqb str_eqb (pp_parts b) (pp_parts b) = true).
  { apply list_eqb_spec; [|reflexivity]. intros x y. unfold str_eqb. apply list_eqb_spec. intros u v. apply N.eqb_eq. }
  congruence.
Qed.

Ltac fp_done := split; [reflexivity | split; [reflexivity | split; [reflexivity | split; assumption]]].

Lemma dd_rel_dest f :
  plain_rel s0 (pf_dir f) (pf_rel f) ->
  dd_rel s0 (pf_dir f) {| pp_root := pp_root (pf_rel f); pp_parts := removelast (pp_parts (pf_rel f)) ++ [dotdot] |}
         (removelast (pp_parts (pf_rel f))).
Proof.
  intros [A B C D E F]. constructor; cbn [pp_root pp_parts]; try assumption.
  - reflexivity.
  - intros K. apply In_removelast in K. exact (C K).
  - pose proof (length_removelast_snoc (pp_parts (pf_rel f)) dotdot B) as L. rewrite app_length in L. simpl in L.
    unfold name in *. lia.
Qed.

(* (2) the first pass *)
Lemma sim_first_pass plan wd wr cwd bl wd' cd' bd' ed wr' cr' br' er :
  plain_plan s0 plan -> dest_not_link s0 plan ->
  (OVR -> no_dotdot_names plan) -> (OVR -> dest_replaceable s0 plan) ->
  Forall plain_entry bl -> Sim wd wr ->
  first_pass cD plan wd cwd bl = (wd', cd', bd', ed) -> first_pass cR plan wr cwd bl = (wr', cr', br', er) ->
  ed = er /\ cd' = cr' /\ bd' = br' /\ Forall plain_entry bd' /\ Sim wd' wr'.
Proof.
  revert wd wr cwd bl. induction plan as [|[f r] rest IH]; intros wd wr cwd bl PP NL ND DR PB S; cbn [first_pass].
  - intros Ed Er; inversion Ed; inversion Er; subst. fp_done.
  - inversion PP as [|? ? Pf PP']; subst. inversion NL as [|? ? Lf NL']; subst.
    assert (ND' : OVR -> no_dotdot_names rest) by (intros O; pose proof (ND O) as K; inversion K; assumption).
    assert (DR' : OVR -> dest_replaceable s0 rest) by (intros O; pose proof (DR O) as K; inversion K; assumption).
    cbn [fst snd] in Pf, Lf.
    destruct (plain_file_rel _ Pf) as [Ld [Ps Hsk]].
    destruct (chdir_sim _ _ _ _ S Ld Ps) as [-> ->].
    cbn [cD cR c_mode c_var].
    destruct (generate MName f r) as [np|ex] eqn:G.
    2:{ intros Ed Er; inversion Ed; inversion Er; subst. fp_done. }
    destruct (generate_name _ _ _ G) as [t [-> Enp]].
    destruct (ppath_eqb np (pf_rel f)) eqn:Same; [apply IH; assumption|].
    rewrite (sim_fs _ _ S).
    destruct (name_eqb t dotdot) eqn:Tdd.
    + (* the new name is "..": the destination is the parent directory, which exists in both worlds *)
      apply name_eqb_eq in Tdd. subst t.
      assert (NO : ~ OVR).
      { intros O. pose proof (ND O) as K. inversion K as [|? ? Kf K']. cbn [fst snd] in Kf. apply Kf. reflexivity. }
      assert (Pdd : dd_rel s0 (pf_dir f) np (removelast (pp_parts (pf_rel f)))) by (rewrite Enp; apply dd_rel_dest; assumption).
      pose proof (dd_rel_transfer _ _ _ _ _ (sim_skel _ _ S) Pdd) as Pdd'.
      rewrite (contained_dd s0 f np _ W0 Pdd), (contained_dd (w_fs wr) f np _ (sim_wf _ _ S) Pdd').
      destruct (is_prefix_path (pf_dir f) (removelast (pf_dir f ++ removelast (pp_parts (pf_rel f))))) eqn:IP.
      2:{ intros Ed Er; inversion Ed; inversion Er; subst. fp_done. }
      assert (RT : retest_ok (pf_dir f, pf_rel f, np)) by exact (retest_ok_dd f _ np _ G Ps Pdd IP).
      rewrite (dest_parent_test_generated fixed _ s0 f _ np G eq_refl (source_contained_rel s0 f W0 Ps)),
              (dest_parent_test_generated fixed _ (w_fs wr) f _ np G eq_refl (source_contained_rel (w_fs wr) f (sim_wf _ _ S) (plain_rel_transfer _ _ _ _ (sim_skel _ _ S) Ps))).
      rewrite (parents_contained_dd s0 f np _ W0 Pdd), (parents_contained_dd (w_fs wr) f np _ (sim_wf _ _ S) Pdd').
      rewrite (source_contained_rel s0 f W0 Ps),
              (source_contained_rel (w_fs wr) f (sim_wf _ _ S) (plain_rel_transfer _ _ _ _ (sim_skel _ _ S) Ps)).
      destruct (sim_renamer_dd wd wr (pf_dir f) (pf_rel f) np _ S Pdd) as [-> ->].
      cbn [is_file_exists].
      apply IH; try assumption. constructor; [|assumption]. unfold plain_entry. cbn [fst snd].
      split; [|split; [|split; [|split]]]; try assumption.
      right. split; [exists (removelast (pp_parts (pf_rel f))); assumption | assumption].
    + assert (Ht : t <> dotdot) by (intros E; apply name_eqb_eq in E; congruence).
      assert (Pd : plain_rel s0 (pf_dir f) np) by (rewrite Enp; apply plain_rel_dest; assumption).
      assert (NLd : not_link (lookup s0 (pf_dir f ++ pp_parts np))) by (rewrite Enp; exact Lf).
      (* containment: the same answer on the initial and on the current real tree *)
      rewrite (contained_rel s0 f np W0 Pd NLd).
      assert (Pd' : plain_rel (w_fs wr) (pf_dir f) np) by exact (plain_rel_transfer _ _ _ _ (sim_skel _ _ S) Pd).
      assert (NLr : not_link (lookup (w_fs wr) (pf_dir f ++ pp_parts np))).
      { intros i tg K. apply skel_link in K. rewrite (sim_skel _ _ S) in K. apply skel_link in K. exact (NLd i tg K). }
      rewrite (contained_rel (w_fs wr) f np (sim_wf _ _ S) Pd' NLr).
      destruct (is_prefix_path (pf_dir f) (pf_dir f ++ pp_parts np)) eqn:IP.
      2:{ intros Ed Er; inversion Ed; inversion Er; subst. fp_done. }
      assert (RT : retest_ok (pf_dir f, pf_rel f, np)) by exact (retest_ok_plain f _ np G Ps Pd NLd IP).
      rewrite (dest_parent_test_generated fixed _ s0 f _ np G eq_refl (source_contained_rel s0 f W0 Ps)),
              (dest_parent_test_generated fixed _ (w_fs wr) f _ np G eq_refl (source_contained_rel (w_fs wr) f (sim_wf _ _ S) (plain_rel_transfer _ _ _ _ (sim_skel _ _ S) Ps))).
      rewrite (parents_contained_rel s0 f np W0 Pd), (parents_contained_rel (w_fs wr) f np (sim_wf _ _ S) Pd').
      rewrite (source_contained_rel s0 f W0 Ps),
              (source_contained_rel (w_fs wr) f (sim_wf _ _ S) (plain_rel_transfer _ _ _ _ (sim_skel _ _ S) Ps)).
      destruct (renamer cD wd (pf_dir f) (pf_rel f) np false) as [wd1 ed1] eqn:Rd.
      destruct (renamer cR wr (pf_dir f) (pf_rel f) np false) as [wr1 er1] eqn:Rr.
      assert (NoOv : false = true -> skel s0 (pf_dir f ++ pp_parts np) = None /\ pp_parts (pf_rel f) <> pp_parts np) by discriminate.
      destruct (sim_renamer _ _ _ _ _ _ _ _ _ _ S Ps Pd Hsk NoOv Rd Rr) as [E S1]. subst er1.
      destruct ed1 as [e|]; [|apply IH; assumption].
      destruct (is_file_exists e).
      * apply IH; try assumption. constructor; [|assumption]. unfold plain_entry. cbn [fst snd].
        split; [|split; [|split; [|split]]]; try assumption.
        left. split; [assumption|]. intros O. split.
        -- pose proof (DR O) as K. inversion K as [|? ? Kf K']. cbn [fst snd] in Kf. rewrite Enp. exact Kf.
        -- intros E. apply (ppath_neq_parts np (pf_rel f)); [rewrite Enp; reflexivity | assumption | symmetry; assumption].
      * intros Ed Er; inversion Ed; inversion Er; subst. fp_done.
Qed.

Lemma sim_run plan cwd :
  plain_plan s0 plan -> dest_not_link s0 plan ->
  (OVR -> no_dotdot_names plan) -> (OVR -> dest_replaceable s0 plan) ->
  r_status (run cD plan cwd s0) = r_status (run cR plan cwd s0) /\
  r_report (run cD plan cwd s0) = r_report (run cR plan cwd s0) /\
  r_prompts (run cD plan cwd s0) = r_prompts (run cR plan cwd s0) /\
  r_error (run cD plan cwd s0) = r_error (run cR plan cwd s0).
Proof.
  intros PP NL ND DR. unfold run. cbn [cD cR c_answers].
  destruct (first_pass cD plan (init_world s0 answers) cwd []) as [[[wd1 cd1] bd1] ed1] eqn:Fd.
  destruct (first_pass cR plan (init_world s0 answers) cwd []) as [[[wr1 cr1] br1] er1] eqn:Fr.
  destruct (sim_first_pass _ _ _ _ _ _ _ _ _ _ _ _ _ PP NL ND DR (Forall_nil _) Sim_init Fd Fr) as [E [Ec [Eb [PB S1]]]].
  subst er1 cr1 br1.
  destruct ed1 as [e|].
  - cbn [r_status r_report r_prompts r_error]. rewrite (sim_report _ _ S1), (sim_prompts _ _ S1). auto.
  - destruct (second_pass cD bd1 wd1 cd1) as [[wd2 cd2] ed2] eqn:Sd.
    destruct (second_pass cR bd1 wr1 cd1) as [[wr2 cr2] er2] eqn:Sr.
    destruct (sim_second_pass _ _ _ _ _ _ _ _ _ _ PB S1 Sd Sr) as [E2 S2]. subst er2.
    cbn [r_status r_report r_prompts r_error]. rewrite (sim_report _ _ S2), (sim_prompts _ _ S2). auto.
Qed.

End Simulation.

(* ---------- C05, name mode ----------------------------------------------------------------------------- *)
(* the general form: OVR / CUS say whether a conflict may be resolved by overriding / by a custom path *)
Theorem dry_equals_real_name_mode_general : forall (OVR CUS : Prop) c plan cwd s,
  c_mode c = MName -> c_fault c = None -> c_var c = fixed -> WF s ->
  plain_plan s plan -> dest_not_link s plan ->
  (OVR -> no_dotdot_names plan) -> (OVR -> dest_replaceable s plan) -> answers_ok OVR CUS c ->
  let d := run (cfg_set_dry c true) plan cwd s in
  let r := run (cfg_set_dry c false) plan cwd s in
  r_status d = r_status r /\ r_report d = r_report r /\ r_prompts d = r_prompts r /\ r_error d = r_error r.
Proof.
  intros OVR CUS [m stg dry ans flt v] plan cwd s Hm Hf Hv W PP NL ND DR AO. cbn in Hm, Hf, Hv. subst m flt v.
  unfold answers_ok in AO. cbn [c_strategy c_answers] in AO.
  unfold cfg_set_dry. cbn [c_mode c_strategy c_answers c_fault c_var].
  exact (sim_run s stg ans OVR CUS W AO plan cwd PP NL ND DR).
Qed.

Lemma no_override_answers_ok c : no_override c -> answers_ok False False c.
Proof.
  unfold no_override, answers_ok. destruct (c_strategy c); auto.
  intros H. eapply Forall_impl; [|exact H]. intros a [A B]. split; [|split]; intros K; contradiction.
Qed.

(* stop / ignore / manual without "override" and "custom path"; the rendered name may even be ".." *)
Theorem dry_equals_real_name_mode : forall c plan cwd s,
  c_mode c = MName -> c_fault c = None -> c_var c = fixed -> WF s ->
  plain_plan s plan -> dest_not_link s plan -> no_override c ->
  let d := run (cfg_set_dry c true) plan cwd s in
  let r := run (cfg_set_dry c false) plan cwd s in
  r_status d = r_status r /\ r_report d = r_report r /\ r_prompts d = r_prompts r.
Proof.
  intros c plan cwd s Hm Hf Hv W PP NL NO.
  destruct (dry_equals_real_name_mode_general False False c plan cwd s Hm Hf Hv W PP NL
              (fun F => False_ind _ F) (fun F => False_ind _ F) (no_override_answers_ok c NO)) as [A [B [C _]]].
  cbv zeta. auto.
Qed.

(* every strategy, every answer: no name "..", taken destinations are regular files, custom paths are single names *)
Definition custom_paths_single (c : cfg) : Prop :=
  match c_strategy c with Manual => Forall single_name (c_answers c) | _ => True end.

Theorem dry_equals_real_name_mode_override : forall c plan cwd s,
  c_mode c = MName -> c_fault c = None -> c_var c = fixed -> WF s ->
  plain_plan s plan -> dest_not_link s plan -> no_dotdot_names plan ->
  dest_replaceable s plan -> custom_paths_single c ->
  let d := run (cfg_set_dry c true) plan cwd s in
  let r := run (cfg_set_dry c false) plan cwd s in
  r_status d = r_status r /\ r_report d = r_report r /\ r_prompts d = r_prompts r.
Proof.
  intros c plan cwd s Hm Hf Hv W PP NL ND DR CP.
  assert (AO : answers_ok True True c).
  { unfold answers_ok, custom_paths_single in *. destruct (c_strategy c); auto.
    eapply Forall_impl; [|exact CP]. intros a Ha. split; [|split]; auto. }
  destruct (dry_equals_real_name_mode_general True True c plan cwd s Hm Hf Hv W PP NL (fun _ => ND) (fun _ => DR) AO) as [A [B [C _]]].
  cbv zeta. auto.
Qed.
