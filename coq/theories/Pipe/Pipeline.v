(* The rename pipeline of tempren: Pipeline.execute + resolve_conflict, the three     *)
(* renamers with the printing wrapper, the manual prompt, and cli.main's mapping of  *)
(* exceptions to the exit status.  The plan (which file, in which order, what the     *)
(* template rendered for it) is an INPUT, so every statement about [run] quantifies  *)
(* over all selections, orders and templates.                                        *)
(* The model describes the code after the fix: commits listed in known_findings.json *)
(* (lexists guards, guard re-checked after mkdir -p, backlog remembers the input     *)
(* directory, dry-run keys absolute, component-wise containment, the directory of   *)
(* the destination entry tested too (F34), deferred renames tested again before they are retried (F38)); the pre-fix variants are selected by the *)
(* [variant] record and used only for refutations.                                   *)
From Tempren Require Import Base.Str Py.PathLib FS.Model.
Open Scope N_scope.

(* ---------- exceptions and exit status (cli.main) -------------------------------- *)
Inductive exn :=
| ExDestExists        (* DestinationAlreadyExistsError (a FileExistsError)  -> 1   *)
| ExFileExists        (* any other FileExistsError                           -> 126 *)
| ExInvalidDest       (* InvalidDestinationError                             -> 1   *)
| ExFileNotSupported  (*                                                     -> 1   *)
| ExConfiguration     (* ConfigurationError                                  -> 2   *)
| ExTemplate          (* TemplateError and subclasses                        -> 3   *)
| ExTemplateEval      (* TemplateEvaluationError                             -> 4   *)
| ExOther.            (* everything else                                     -> 126 *)

Definition status_of (e : exn) : Z :=
  match e with
  | ExDestExists | ExInvalidDest | ExFileNotSupported => 1
  | ExConfiguration => 2
  | ExTemplate => 3
  | ExTemplateEval => 4
  | ExFileExists | ExOther => 126
  end%Z.

(* caught by [except FileExistsError] inside Pipeline.execute *)
Definition is_file_exists (e : exn) : bool :=
  match e with ExDestExists | ExFileExists => true | _ => false end.

Definition exn_eqb (a b : exn) : bool :=
  match a, b with
  | ExDestExists, ExDestExists | ExFileExists, ExFileExists | ExInvalidDest, ExInvalidDest
  | ExFileNotSupported, ExFileNotSupported | ExConfiguration, ExConfiguration
  | ExTemplate, ExTemplate | ExTemplateEval, ExTemplateEval | ExOther, ExOther => true
  | _, _ => false
  end.

Definition exn_of_errno (e : errno) : exn :=
  match e with EEXIST => ExFileExists | _ => ExOther end.

(* ---------- configuration ---------------------------------------------------------- *)
Inductive mode := MName | MPath | MDirectory.
Inductive strategy := Stop | Ignore | Override | Manual.

(* which of the repaired behaviours are switched on (all true = the current code) *)
Record variant := {
  v_lexists_guard : bool;      (* renamers test lexists(destination) instead of exists()      *)
  v_recheck_after_mkdir : bool;(* FileMover re-tests the destination after mkdir -p           *)
  v_backlog_chdir : bool;      (* deferred renames are retried in their own input directory   *)
  v_dry_abs_keys : bool;       (* DryRunRenamer keys its sets by absolute path, uses lexists  *)
  v_component_containment : bool; (* is_relative_to instead of str.startswith                 *)
  v_dest_parent_containment : bool; (* the directory of the destination entry must lie inside too (F34) *)
  v_backlog_recheck : bool     (* deferred renames are tested for containment again before they are retried (F38) *)
}.
Definition fixed : variant := {| v_lexists_guard := true; v_recheck_after_mkdir := true;
  v_backlog_chdir := true; v_dry_abs_keys := true; v_component_containment := true;
  v_dest_parent_containment := true; v_backlog_recheck := true |}.
(* the code before the repair of F38: a deferred rename is retried without running the containment tests again *)
Definition pre_f38 : variant := {| v_lexists_guard := true; v_recheck_after_mkdir := true;
  v_backlog_chdir := true; v_dry_abs_keys := true; v_component_containment := true;
  v_dest_parent_containment := true; v_backlog_recheck := false |}.
(* the code before the repair of F34: the destination entry's own directory is not tested *)
Definition pre_f34 : variant := {| v_lexists_guard := true; v_recheck_after_mkdir := true;
  v_backlog_chdir := true; v_dry_abs_keys := true; v_component_containment := true;
  v_dest_parent_containment := false; v_backlog_recheck := false |}.

Record cfg := {
  c_mode : mode;
  c_strategy : strategy;
  c_dry : bool;
  c_answers : list str;        (* lines available on stdin for the manual prompt *)
  c_fault : option nat;        (* the k-th outermost rename/mkdir/move raises OSError *)
  c_var : variant
}.

Record pfile := { pf_dir : rpath; pf_rel : ppath }.     (* File(input_directory, relative_path) *)

Inductive rendered :=
| RText (t : str)              (* pattern.process(file) returned t                              *)
| RAbs (t : str)               (* ... returned <sandbox root>/t  (an absolute path)             *)
| RRaise (e : exn).            (* ... raised                                                     *)

(* ---------- the world: filesystem + everything observable about a run --------------- *)
Inductive ckind := CRename | CMkdir | CMove.
Inductive cout := COk | CErr | CFault.
Definition call := (ckind * cout)%type.

Record world := {
  w_fs : fs;
  w_hist : list fs;            (* filesystem after every successful mutating call, newest first *)
  w_calls : list call;         (* newest first *)
  w_n : nat;                   (* number of outermost rename/mkdir/move calls so far *)
  w_created : list rpath;      (* DryRunRenamer.created_paths *)
  w_removed : list rpath;      (* DryRunRenamer.removed_paths *)
  w_report : list (str * str * bool);   (* Renamed: src / to: dst (override), newest first *)
  w_answers : list str;        (* stdin not yet consumed *)
  w_prompts : nat
}.

Definition init_world (s : fs) (answers : list str) : world :=
  {| w_fs := s; w_hist := []; w_calls := []; w_n := O; w_created := []; w_removed := [];
     w_report := []; w_answers := answers; w_prompts := O |}.

Definition set_fs (w : world) (s : fs) (c : call) : world :=
  {| w_fs := s; w_hist := s :: w_hist w; w_calls := c :: w_calls w; w_n := S (w_n w);
     w_created := w_created w; w_removed := w_removed w; w_report := w_report w;
     w_answers := w_answers w; w_prompts := w_prompts w |}.

Definition add_call (w : world) (c : call) : world :=
  {| w_fs := w_fs w; w_hist := w_hist w; w_calls := c :: w_calls w; w_n := S (w_n w);
     w_created := w_created w; w_removed := w_removed w; w_report := w_report w;
     w_answers := w_answers w; w_prompts := w_prompts w |}.

Definition faulted (flt : option nat) (w : world) : bool :=
  match flt with Some k => Nat.eqb k (w_n w) | None => false end.

(* one outermost traced system call *)
Definition sys (flt : option nat) (k : ckind) (w : world) (r : sysres) : world * option errno :=
  if faulted flt w then (add_call w (k, CFault), Some EIO)
  else match r with
       | SOk s' => (set_fs w s' (k, COk), None)
       | SErr e => (add_call w (k, CErr), Some e)
       end.

Definition to_upath (p : ppath) : upath :=
  {| up_abs := negb (Nat.eqb (pp_root p) 0); up_comps := pp_parts p |}.

(* ---------- Path.mkdir(parents=True, exist_ok=True) ---------------------------------- *)
(* try os.mkdir; ENOENT: create the parent first, then try again (without parents);
   any other OSError is swallowed iff the path is a directory afterwards *)
Definition mkdir_once (flt : option nat) (w : world) (cwd : rpath) (p : ppath) : world * option errno :=
  sys flt CMkdir w (os_mkdir (w_fs w) cwd (to_upath p)).

Definition swallow (w : world) (cwd : rpath) (p : ppath) (e : errno) : option exn :=
  if is_dir (w_fs w) cwd (to_upath p) then None else Some (exn_of_errno e).

Fixpoint mkdir_p (fuel : nat) (flt : option nat) (w : world) (cwd : rpath) (p : ppath) : world * option exn :=
  match mkdir_once flt w cwd p with
  | (w1, None) => (w1, None)
  | (w1, Some ENOENT) =>
    match fuel, pp_parts p with
    | S f, _ :: _ =>
      match mkdir_p f flt w1 cwd (pp_parent p) with
      | (w2, Some e) => (w2, Some e)
      | (w2, None) =>
        match mkdir_once flt w2 cwd p with
        | (w3, None) => (w3, None)
        | (w3, Some ENOENT) => (w3, Some ExOther)
        | (w3, Some e) => (w3, swallow w3 cwd p e)
        end
      end
    | _, _ => (w1, Some ExOther)        (* parent == self: FileNotFoundError re-raised *)
    end
  | (w1, Some e) => (w1, swallow w1 cwd p e)
  end.

(* ---------- the three renamers --------------------------------------------------------- *)
Definition guard_exists (v : variant) (s : fs) (cwd : rpath) (p : upath) : bool :=
  if v_lexists_guard v then lexists s cwd p else exists_ s cwd p.

Definition file_renamer (v : variant) (flt : option nat) (w : world) (cwd : rpath)
           (src dst : ppath) (override : bool) : world * option exn :=
  if negb override && guard_exists v (w_fs w) cwd (to_upath dst) then (w, Some ExDestExists)
  else if negb (ppath_eqb (pp_parent src) (pp_parent dst)) then (w, Some ExInvalidDest)
  else match sys flt CRename w (os_rename (w_fs w) cwd (to_upath src) (to_upath dst)) with
       | (w1, None) => (w1, None)
       | (w1, Some e) => (w1, Some (exn_of_errno e))
       end.

Definition file_mover (v : variant) (flt : option nat) (w : world) (cwd : rpath)
           (src dst : ppath) (override : bool) : world * option exn :=
  if negb override && guard_exists v (w_fs w) cwd (to_upath dst) then (w, Some ExDestExists)
  else match mkdir_p (S (length (pp_parts dst))) flt w cwd (pp_parent dst) with
       | (w1, Some e) => (w1, Some e)
       | (w1, None) =>
         if v_recheck_after_mkdir v && negb override && guard_exists v (w_fs w1) cwd (to_upath dst)
         then (w1, Some ExDestExists)
         else match sys flt CMove w1 (shutil_move_fs (w_fs w1) cwd (to_upath src) (to_upath dst)) with
              | (w2, None) => (w2, None)
              | (w2, Some _) => (w2, Some ExOther)
              end
       end.

(* os.path.abspath: join with the cwd, collapse ".." lexically *)
Fixpoint lexical (acc : rpath) (comps : list name) : rpath :=
  match comps with
  | [] => acc
  | c :: rest => if name_eqb c dotdot then lexical (removelast acc) rest else lexical (acc ++ [c]) rest
  end.

Definition dry_key (v : variant) (cwd : rpath) (p : ppath) : rpath :=
  if v_dry_abs_keys v then lexical (if Nat.eqb (pp_root p) 0 then cwd else []) (pp_parts p)
  else pp_parts p.                     (* pre-fix: the relative Path object itself *)

Definition mem_path (p : rpath) (l : list rpath) : bool := existsb (rpath_eqb p) l.
Definition del_path (p : rpath) (l : list rpath) : list rpath := filter (fun q => negb (rpath_eqb p q)) l.
Definition add_path (p : rpath) (l : list rpath) : list rpath := if mem_path p l then l else p :: l.

Definition dry_exists (v : variant) (w : world) (cwd : rpath) (p : ppath) : bool :=
  let k := dry_key v cwd p in
  ((if v_dry_abs_keys v then lexists (w_fs w) cwd (to_upath p) else exists_ (w_fs w) cwd (to_upath p))
   || mem_path k (w_created w)) && negb (mem_path k (w_removed w)).

Definition set_dry (w : world) (cr rm : list rpath) : world :=
  {| w_fs := w_fs w; w_hist := w_hist w; w_calls := w_calls w; w_n := w_n w;
     w_created := cr; w_removed := rm; w_report := w_report w;
     w_answers := w_answers w; w_prompts := w_prompts w |}.

(* checks in the order of the real renamers: destination, (same directory), source *)
Definition dry_renamer (v : variant) (same_dir_only : bool) (w : world) (cwd : rpath) (src dst : ppath)
           (override : bool) : world * option exn :=
  if dry_exists v w cwd dst && negb override then (w, Some ExDestExists)
  else if same_dir_only && negb (ppath_eqb (pp_parent src) (pp_parent dst)) then (w, Some ExInvalidDest)
  else if negb (dry_exists v w cwd src) then (w, Some ExOther)     (* FileNotFoundError *)
  else
    let ks := dry_key v cwd src in let kd := dry_key v cwd dst in
    let rm1 := add_path ks (w_removed w) in
    let cr1 := add_path kd (w_created w) in
    (set_dry w (del_path ks cr1) (del_path kd rm1), None).

Definition add_report (w : world) (src dst : ppath) (override : bool) : world :=
  {| w_fs := w_fs w; w_hist := w_hist w; w_calls := w_calls w; w_n := w_n w;
     w_created := w_created w; w_removed := w_removed w;
     w_report := (pp_str src, pp_str dst, override) :: w_report w;
     w_answers := w_answers w; w_prompts := w_prompts w |}.

(* PrintingRenamerWrapper around the renamer chosen by build_pipeline *)
Definition renamer_core (c : cfg) (w : world) (cwd : rpath) (src dst : ppath) (override : bool)
  : world * option exn :=
  if c_dry c then dry_renamer (c_var c) (match c_mode c with MPath => false | _ => true end) w cwd src dst override
  else match c_mode c with
       | MPath => file_mover (c_var c) (c_fault c) w cwd src dst override
       | _ => file_renamer (c_var c) (c_fault c) w cwd src dst override
       end.

Definition renamer (c : cfg) (w : world) (cwd : rpath) (src dst : ppath) (override : bool)
  : world * option exn :=
  match renamer_core c w cwd src dst override with
  | (w1, None) => (add_report w1 src dst override, None)
  | (w1, Some e) => (w1, Some e)
  end.

(* ---------- the manual prompt (cli_prompt_conflict_resolver) ---------------------------- *)
Definition ascii_lower (c : N) : N := if (65 <=? c) && (c <=? 90) then c + 32 else c.

Fixpoint is_prefix_str (a b : str) : bool :=        (* b.startswith(a) *)
  match a, b with
  | [], _ => true
  | x :: a', y :: b' => (x =? y) && is_prefix_str a' b'
  | _ :: _, [] => false
  end.

Definition w_ignore : str := [105;103;110;111;114;101].
Definition w_stop : str := [115;116;111;112].
Definition w_override : str := [111;118;101;114;114;105;100;101].
Definition w_custom : str := [99;117;115;116;111;109;32;112;97;116;104].

Inductive answer := AIgnore | AStop | AOverride | ACustom | AInvalid.

Definition parse_answer (line : str) : answer :=
  let l := map ascii_lower line in
  match l with
  | [] => AIgnore
  | _ => if is_prefix_str l w_ignore then AIgnore
         else if is_prefix_str l w_stop then AStop
         else if is_prefix_str l w_override then AOverride
         else if is_prefix_str l w_custom then ACustom
         else AInvalid
  end.

Inductive decision := DStrategy (s : strategy) | DPath (p : str) | DEof.

Definition take_line (w : world) : option str * world :=
  match w_answers w with
  | [] => (None, w)
  | a :: rest =>
    (Some a, {| w_fs := w_fs w; w_hist := w_hist w; w_calls := w_calls w; w_n := w_n w;
                w_created := w_created w; w_removed := w_removed w; w_report := w_report w;
                w_answers := rest; w_prompts := S (w_prompts w) |})
  end.

(* fuel = number of lines still available + 1, so exhaustion is unreachable *)
Fixpoint prompt (fuel : nat) (w : world) : decision * world :=
  match fuel with
  | O => (DEof, w)
  | S f =>
    match take_line w with
    | (None, w1) => (DEof, w1)
    | (Some l, w1) =>
      match parse_answer l with
      | AIgnore => (DStrategy Ignore, w1)
      | AStop => (DStrategy Stop, w1)
      | AOverride => (DStrategy Override, w1)
      | ACustom => match take_line w1 with
                   | (None, w2) => (DEof, w2)
                   | (Some p, w2) => (DPath p, w2)
                   end
      | AInvalid => prompt f w1
      end
    end
  end.

(* ---------- resolve_conflict --------------------------------------------------------------- *)
Definition resolve_simple (c : cfg) (st : strategy) (w : world) (cwd : rpath) (src dst : ppath)
  : world * option exn :=
  match st with
  | Stop => (w, Some ExDestExists)
  | Ignore => (w, None)
  | Override => renamer c w cwd src dst true
  | Manual => (w, Some ExOther)            (* unreachable: the prompt never returns manual *)
  end.

Definition resolve_conflict (c : cfg) (w : world) (cwd : rpath) (src dst : ppath) : world * option exn :=
  match c_strategy c with
  | Manual =>
    match prompt (S (length (w_answers w))) w with
    | (DStrategy st, w1) => resolve_simple c st w1 cwd src dst
    | (DPath p, w1) => renamer c w1 cwd src (parse_path p) false
    | (DEof, w1) => (w1, Some ExOther)     (* EOFError *)
    end
  | st => resolve_simple c st w cwd src dst
  end.

(* ---------- Pipeline.execute ------------------------------------------------------------------ *)
Definition chdir (s : fs) (d : rpath) : option rpath :=
  match resolve s [] {| up_abs := true; up_comps := d |} true with
  | WFound p NDir => Some p
  | _ => None
  end.

(* TemplateNameGenerator / TemplatePathGenerator *)
Definition generate (m : mode) (f : pfile) (r : rendered) : ppath + exn :=
  match r with
  | RRaise e => inr e
  | RText t =>
    match m with
    | MPath => inl (parse_path t)
    | _ => match pp_with_name (pf_rel f) t with Some p => inl p | None => inr ExInvalidDest end
    end
  | RAbs t =>
    match m with
    | MPath => inl (parse_path (slash :: t))
    | _ => inr ExInvalidDest                 (* contains a separator: with_name raises ValueError *)
    end
  end.

(* str(new_absolute_path).startswith(str(input_directory)), on component lists:
   equal, or a proper extension, or the first differing component merely extends the
   input directory's last component *)
Fixpoint str_prefix_path (d p : rpath) : bool :=
  match d, p with
  | [], _ => true
  | [x], y :: _ => is_prefix_str x y
  | x :: d', y :: p' => name_eqb x y && str_prefix_path d' p'
  | _ :: _, [] => false
  end.

Definition contained (v : variant) (s : fs) (f : pfile) (np : ppath) : option bool :=
  let target := if Nat.eqb (pp_root np) 0 then pf_dir f ++ pp_parts np else pp_parts np in
  match realpath s [] {| up_abs := true; up_comps := target |} with
  | None => None                                         (* symlink loop: RuntimeError *)
  | Some a => Some (if v_component_containment v then is_prefix_path (pf_dir f) a
                    else str_prefix_path (pf_dir f) a)
  end.

(* the directory the destination entry really lives in must lie in the input directory too: a
   destination whose last component is a symbolic link is replaced by rename(2), not followed, while
   [contained] follows it (F34):
   (input_directory / new_relative_path).parent.resolve().is_relative_to(input_directory);
   [.parent] is lexical (the last component may be ".."); an absolute generated path replaces the
   input directory in the join, as in [contained] *)
Definition dest_parent (f : pfile) (np : ppath) : upath :=
  {| up_abs := true;
     up_comps := removelast (if Nat.eqb (pp_root np) 0 then pf_dir f ++ pp_parts np else pp_parts np) |}.

Definition dest_parent_contained (s : fs) (f : pfile) (np : ppath) : option bool :=
  match realpath s [] (dest_parent f np) with
  | None => None                                         (* symlink loop: RuntimeError *)
  | Some a => Some (is_prefix_path (pf_dir f) a)
  end.

(* the test as the variant has it: absent before the repair *)
Definition dest_parent_test (v : variant) (s : fs) (f : pfile) (np : ppath) : option bool :=
  if v_dest_parent_containment v then dest_parent_contained s f np else Some true.

(* every directory that does not exist yet on the way to the destination must resolve inside the
   input directory: (destination_parent, *destination_parent.parents), lexical parents, stopping at
   the first one that exists *)
Fixpoint new_dirs_inside (n : nat) (s : fs) (d : rpath) (comps : list name) : option bool :=
  let p := {| up_abs := true; up_comps := comps |} in
  if exists_ s [] p then Some true
  else match realpath s [] p with
       | None => None
       | Some a =>
         if is_prefix_path d a then
           match n with
           | O => Some true
           | S k => match comps with
                    | [] => Some true
                    | _ => new_dirs_inside k s d (removelast comps)
                    end
           end
         else Some false
       end.

Definition parents_contained (s : fs) (f : pfile) (np : ppath) : option bool :=
  let target := if Nat.eqb (pp_root np) 0 then pf_dir f ++ pp_parts np else pp_parts np in
  let parent := removelast target in
  new_dirs_inside (length parent) s (pf_dir f) parent.

(* the directory the source entry really lives in must lie in the input directory too (recursive
   gathering follows symbolic links to directories):
   (input_directory / relative_path).parent.resolve().is_relative_to(input_directory);
   the parent, not the entry: the entry itself may be a symbolic link (it is renamed, not followed).
   For a one-component relative path the parent is the input directory itself.  (File.__init__ asserts
   that relative_path is relative; joining an absolute one would replace the input directory.) *)
Definition source_parent (f : pfile) : upath :=
  {| up_abs := true;
     up_comps := (if Nat.eqb (pp_root (pf_rel f)) 0 then pf_dir f else []) ++ removelast (pp_parts (pf_rel f)) |}.

Definition source_contained (s : fs) (f : pfile) : option bool :=
  match realpath s [] (source_parent f) with
  | None => None                                         (* symlink loop: RuntimeError *)
  | Some a => Some (is_prefix_path (pf_dir f) a)
  end.

Definition backlog_entry := (rpath * ppath * ppath)%type.   (* input directory, source, destination *)

Fixpoint first_pass (c : cfg) (plan : list (pfile * rendered)) (w : world) (cwd : rpath)
         (backlog : list backlog_entry) : world * rpath * list backlog_entry * option exn :=
  match plan with
  | [] => (w, cwd, backlog, None)
  | (f, r) :: rest =>
    match chdir (w_fs w) (pf_dir f) with
    | None => (w, cwd, backlog, Some ExOther)
    | Some cwd1 =>
      match generate (c_mode c) f r with
      | inr e => (w, cwd1, backlog, Some e)
      | inl np =>
        if ppath_eqb np (pf_rel f) then first_pass c rest w cwd1 backlog
        else match contained (c_var c) (w_fs w) f np with
             | None => (w, cwd1, backlog, Some ExOther)
             | Some false => (w, cwd1, backlog, Some ExInvalidDest)
             | Some true =>
               match dest_parent_test (c_var c) (w_fs w) f np with
               | None => (w, cwd1, backlog, Some ExOther)
               | Some false => (w, cwd1, backlog, Some ExInvalidDest)
               | Some true =>
               match parents_contained (w_fs w) f np with
               | None => (w, cwd1, backlog, Some ExOther)
               | Some false => (w, cwd1, backlog, Some ExInvalidDest)
               | Some true =>
               match source_contained (w_fs w) f with
               | None => (w, cwd1, backlog, Some ExOther)
               | Some false => (w, cwd1, backlog, Some ExInvalidDest)
               | Some true =>
               match renamer c w cwd1 (pf_rel f) np false with
               | (w1, None) => first_pass c rest w1 cwd1 backlog
               | (w1, Some e) =>
                 if is_file_exists e then first_pass c rest w1 cwd1 ((pf_dir f, pf_rel f, np) :: backlog)
                 else (w1, cwd1, backlog, Some e)
               end
               end
               end
               end
             end
      end
    end
  end.

(* Pipeline._verify_destination: the four containment tests of the first pass as one verdict
   (None = all said yes; the tests do not change the world) *)
Definition verify_destination (v : variant) (s : fs) (f : pfile) (np : ppath) : option exn :=
  match contained v s f np with
  | None => Some ExOther
  | Some false => Some ExInvalidDest
  | Some true =>
    match dest_parent_test v s f np with
    | None => Some ExOther
    | Some false => Some ExInvalidDest
    | Some true =>
      match parents_contained s f np with
      | None => Some ExOther
      | Some false => Some ExInvalidDest
      | Some true =>
        match source_contained s f with
        | None => Some ExOther
        | Some false => Some ExInvalidDest
        | Some true => None
        end
      end
    end
  end.

(* the same tests on a deferred entry, on the filesystem as it is when the entry is retried (F38);
   absent before the repair *)
Definition backlog_verify (v : variant) (s : fs) (d : rpath) (src dst : ppath) : option exn :=
  if v_backlog_recheck v then verify_destination v s {| pf_dir := d; pf_rel := src |} dst else None.

(* [backlog] newest first = the order in which list.pop() takes them *)
Fixpoint second_pass (c : cfg) (backlog : list backlog_entry) (w : world) (cwd : rpath)
  : world * rpath * option exn :=
  match backlog with
  | [] => (w, cwd, None)
  | (d, src, dst) :: rest =>
    match (if v_backlog_chdir (c_var c) then chdir (w_fs w) d else Some cwd) with
    | None => (w, cwd, Some ExOther)
    | Some cwd1 =>
      match backlog_verify (c_var c) (w_fs w) d src dst with
      | Some e => (w, cwd1, Some e)
      | None =>
      match renamer c w cwd1 src dst false with
      | (w1, None) => second_pass c rest w1 cwd1
      | (w1, Some e) =>
        if is_file_exists e then
          match resolve_conflict c w1 cwd1 src dst with
          | (w2, None) => second_pass c rest w2 cwd1
          | (w2, Some e2) => (w2, cwd1, Some e2)
          end
        else (w1, cwd1, Some e)
      end
      end
    end
  end.

Record result := {
  r_error : option exn;          (* the exception that ended the run, if any *)
  r_status : Z;
  r_final : fs;
  r_states : list fs;           (* oldest first *)
  r_calls : list call;          (* oldest first *)
  r_report : list (str * str * bool);
  r_prompts : nat
}.

Definition run (c : cfg) (plan : list (pfile * rendered)) (start_cwd : rpath) (s : fs) : result :=
  let w0 := init_world s (c_answers c) in
  let '(w1, cwd1, backlog, e1) := first_pass c plan w0 start_cwd [] in
  let '(w2, e2) :=
    match e1 with
    | Some e => (w1, Some e)
    | None => let '(w2, _, e2) := second_pass c backlog w1 cwd1 in (w2, e2)
    end in
  {| r_error := e2;
     r_status := match e2 with None => 0%Z | Some e => status_of e end;
     r_final := w_fs w2;
     r_states := rev (w_hist w2);
     r_calls := rev (w_calls w2);
     r_report := rev (w_report w2);
     r_prompts := w_prompts w2 |}.
