(* C05: the dry-run bookkeeping ("exists = (on disk or created) and not removed") tracks what a  *)
(* real rename does to the existence of names, step by step.                                      *)
From Tempren Require Import Base.Str Py.PathLib FS.Model FS.Lemmas Pipe.Pipeline.
Open Scope N_scope.

(* virtual existence as DryRunRenamer computes it, over an arbitrary on-disk existence map *)
Definition vexists (E0 : rpath -> bool) (cr rm : list rpath) (k : rpath) : bool :=
  (E0 k || mem_path k cr) && negb (mem_path k rm).

Lemma mem_path_true p l : mem_path p l = true <-> In p l.
Proof.
  unfold mem_path. rewrite existsb_exists. split.
  - intros [x [H1 H2]]. apply rpath_eqb_eq in H2. subst. assumption.
  - intros H. exists p. split; [assumption | apply rpath_eqb_refl].
Qed.

Lemma mem_add p q l : mem_path p (add_path q l) = rpath_eqb p q || mem_path p l.
Proof.
  unfold add_path. destruct (mem_path q l) eqn:M.
  - destruct (rpath_eqb p q) eqn:E; [|reflexivity]. apply rpath_eqb_eq in E. subst. rewrite M. reflexivity.
  - simpl. unfold mem_path at 1. simpl. reflexivity.
Qed.

Lemma mem_del p q l : mem_path p (del_path q l) = negb (rpath_eqb p q) && mem_path p l.
Proof.
  unfold del_path. induction l as [|x l IH]; simpl.
  - destruct (rpath_eqb p q); reflexivity.
  - destruct (rpath_eqb q x) eqn:Eqx; simpl.
    + rewrite IH. apply rpath_eqb_eq in Eqx. subst x.
      destruct (rpath_eqb p q) eqn:E; simpl; reflexivity.
    + unfold mem_path in *. simpl. rewrite IH.
      destruct (rpath_eqb p x) eqn:Epx; simpl; [|reflexivity].
      apply rpath_eqb_eq in Epx. subst x.
      destruct (rpath_eqb p q) eqn:E; [|reflexivity].
      apply rpath_eqb_eq in E. subst q. rewrite rpath_eqb_refl in Eqx. discriminate.
Qed.

(* what one DryRunRenamer step does to virtual existence: the destination exists, the source
   does not, every other name is as before — for ANY disk, ANY history of earlier steps *)
Theorem dry_step_tracks_rename E0 cr rm src dst k :
  src <> dst ->
  vexists E0 (del_path src (add_path dst cr)) (del_path dst (add_path src rm)) k =
    if rpath_eqb k dst then true else if rpath_eqb k src then false else vexists E0 cr rm k.
Proof.
  intros Hne. unfold vexists. rewrite !mem_del, !mem_add.
  destruct (rpath_eqb k dst) eqn:Ed.
  - apply rpath_eqb_eq in Ed. subst k.
    assert (rpath_eqb dst src = false) by (apply rpath_eqb_neq; congruence).
    rewrite H. simpl. rewrite orb_true_r. reflexivity.
  - destruct (rpath_eqb k src) eqn:Es; simpl.
    + rewrite andb_false_r. reflexivity.
    + reflexivity.
Qed.

(* the same for the real filesystem: renaming a non-directory onto a free name *)
Definition present (s : fs) (k : rpath) : bool := match lookup s k with Some _ => true | None => false end.

Lemma lookup_rekey_other s sp dp k :
  NoDup (map fst s) -> k <> [] ->
  (forall q n, In (q, n) s -> is_prefix_path sp q = true -> q = sp) ->     (* nothing below the source *)
  (forall q n, In (q, n) s -> q <> dp) ->                                   (* the destination is free  *)
  k <> sp -> k <> dp -> sp <> dp ->
  present (rekey sp dp s) k = present s k.
Proof.
  intros ND Hk Leaf Free Hs Hd Hsd. unfold present. destruct k as [|x k]; [congruence|]. simpl.
  destruct (assoc s (x :: k)) as [n|] eqn:A.
  - apply assoc_In in A.
    assert (R : rekey_path sp dp (x :: k) = x :: k).
    { apply rekey_outside. destruct (is_prefix_path sp (x :: k)) eqn:P; [|reflexivity].
      exfalso. apply Hs. eapply Leaf; eassumption. }
    pose proof (In_rekey sp dp s _ _ A) as I. rewrite R in I.
    destruct (assoc (rekey sp dp s) (x :: k)) eqn:A2; [reflexivity|].
    exfalso. apply assoc_None in A2. apply A2. apply in_map_iff. exists (x :: k, n). split; auto.
  - destruct (assoc (rekey sp dp s) (x :: k)) as [n|] eqn:A2; [|reflexivity].
    exfalso. apply assoc_In in A2. apply In_rekey_inv in A2 as [q [Hq E]].
    destruct (is_prefix_path sp q) eqn:P.
    + assert (q = sp) by (eapply Leaf; eassumption). subst q. rewrite rekey_self in E. congruence.
    + rewrite rekey_outside in E by assumption. subst q.
      apply assoc_None in A. apply A. apply in_map_iff. exists (x :: k, n). split; auto.
Qed.

Lemma lookup_rekey_dst s sp dp n :
  In (sp, n) s -> dp <> [] -> present (rekey sp dp s) dp = true.
Proof.
  intros H Hd. unfold present. destruct dp as [|x dp]; [congruence|]. simpl.
  pose proof (In_rekey sp (x :: dp) s _ _ H) as I. rewrite rekey_self in I.
  destruct (assoc (rekey sp (x :: dp) s) (x :: dp)) eqn:A; [reflexivity|].
  exfalso. apply assoc_None in A. apply A. apply in_map_iff. exists (x :: dp, n). split; auto.
Qed.

Lemma lookup_rekey_src s sp dp :
  sp <> [] -> sp <> dp ->
  (forall q n, In (q, n) s -> is_prefix_path sp q = true -> q = sp) ->
  present (rekey sp dp s) sp = false.
Proof.
  intros Hs Hsd Leaf. unfold present. destruct sp as [|x sp]; [congruence|]. simpl.
  destruct (assoc (rekey (x :: sp) dp s) (x :: sp)) as [n|] eqn:A; [|reflexivity].
  exfalso. apply assoc_In in A. apply In_rekey_inv in A as [q [Hq E]].
  destruct (is_prefix_path (x :: sp) q) eqn:P.
  - assert (q = x :: sp) by (eapply Leaf; eassumption). subst q. rewrite rekey_self in E. congruence.
  - rewrite rekey_outside in E by assumption. subst q.
    assert (is_prefix_path (x :: sp) (x :: sp) = true) by (apply is_prefix_path_spec; exists []; rewrite app_nil_r; reflexivity).
    congruence.
Qed.

(* one real rename of a non-directory onto a free name changes the existence of names exactly like one
   dry-run step changes virtual existence *)
Theorem real_rename_tracks s sp n dp k :
  NoDup (map fst s) -> In (sp, n) s -> sp <> [] -> dp <> [] -> sp <> dp -> k <> [] ->
  (forall q m, In (q, m) s -> is_prefix_path sp q = true -> q = sp) ->
  (forall q m, In (q, m) s -> q <> dp) ->
  present (rekey sp dp s) k =
    if rpath_eqb k dp then true else if rpath_eqb k sp then false else present s k.
Proof.
  intros ND Hin Hs Hd Hsd Hk Leaf Free.
  destruct (rpath_eqb k dp) eqn:Ed.
  - apply rpath_eqb_eq in Ed. subst k. eapply lookup_rekey_dst; eassumption.
  - destruct (rpath_eqb k sp) eqn:Es.
    + apply rpath_eqb_eq in Es. subst k. apply lookup_rekey_src; assumption.
    + apply lookup_rekey_other; try assumption; apply rpath_eqb_neq; assumption.
Qed.

(* hence: if virtual existence agrees with the disk before a step, it agrees after it *)
Theorem simulation_step E0 cr rm s sp n dp :
  NoDup (map fst s) -> In (sp, n) s -> sp <> [] -> dp <> [] -> sp <> dp ->
  (forall q m, In (q, m) s -> is_prefix_path sp q = true -> q = sp) ->
  (forall q m, In (q, m) s -> q <> dp) ->
  (forall k, k <> [] -> vexists E0 cr rm k = present s k) ->
  forall k, k <> [] ->
    vexists E0 (del_path sp (add_path dp cr)) (del_path dp (add_path sp rm)) k = present (rekey sp dp s) k.
Proof.
  intros ND Hin Hs Hd Hsd Leaf Free Inv k Hk.
  rewrite dry_step_tracks_rename by assumption.
  rewrite (real_rename_tracks s sp n dp k) by assumption.
  rewrite Inv by assumption. reflexivity.
Qed.
