(* C06 for a whole run with ANY conflict strategy, after the repair of F38 (see Pipe/ConfinedRetest.v): *)
(* the hypothesis [same_links] of Pipe/ConfinedOverride.v is not needed any more.  Every deferred rename *)
(* is tested again on the tree it is retried in; the only calls between the test and a rename issued by  *)
(* the conflict resolution are the mkdir -p of the attempt that ended in the conflict, which only adds   *)
(* directories: realpath answers the same afterwards ([realpath_raw_dir_ext]).                           *)
From Tempren Require Import Base.Str Py.PathLib Py.PathLibProofs FS.Model FS.Lemmas FS.RealpathAgree FS.DirExt
  FS.PlainPaths Pipe.Pipeline Pipe.DestParent Pipe.BacklogVerify Pipe.Confine Pipe.Confined Pipe.ConfinedMove
  Pipe.Safety Pipe.DryEqualsReal Pipe.ConfinedRun Pipe.ConfinedOverride Pipe.ConfinedRetest.
Open Scope N_scope.

(* ---------- an attempt that ends in a conflict has at most created directories ---------------------------------------- *)
Lemma sys_dir_ext flt k w r w' e :
  sys flt k w r = (w', e) -> (forall s', r = SOk s' -> dir_ext (w_fs w) s') -> dir_ext (w_fs w) (w_fs w').
Proof.
  unfold sys. destruct (faulted flt w).
  - intros E _. inversion E; subst. apply dir_ext_refl.
  - destruct r as [s'|er]; intros E H; inversion E; subst; cbn [set_fs add_call w_fs].
    + apply H. reflexivity.
    + apply dir_ext_refl.
Qed.

Lemma sys_err_fs flt k w r w' e : sys flt k w r = (w', Some e) -> w_fs w' = w_fs w.
Proof.
  unfold sys. destruct (faulted flt w); [intros E; inversion E; subst; reflexivity|].
  destruct r; intros E; inversion E; subst; reflexivity.
Qed.

Lemma mkdir_once_dir_ext flt w cwd p w' e : mkdir_once flt w cwd p = (w', e) -> dir_ext (w_fs w) (w_fs w').
Proof.
  unfold mkdir_once. intros M. eapply sys_dir_ext; [exact M|]. intros s' E. exact (os_mkdir_dir_ext _ _ _ _ E).
Qed.

Lemma mkdir_p_dir_ext flt cwd : forall fuel w p w' e, mkdir_p fuel flt w cwd p = (w', e) -> dir_ext (w_fs w) (w_fs w').
Proof.
  induction fuel as [|fuel IH]; intros w p w' e M.
  - rewrite mkdir_p_0 in M. destruct (mkdir_once flt w cwd p) as [w1 r] eqn:M1.
    pose proof (mkdir_once_dir_ext _ _ _ _ _ _ M1) as H1.
    destruct r as [err|]; [destruct err|]; inversion M; subst; assumption.
  - rewrite mkdir_p_S in M. destruct (mkdir_once flt w cwd p) as [w1 r] eqn:M1.
    pose proof (mkdir_once_dir_ext _ _ _ _ _ _ M1) as H1.
    destruct r as [err|]; [|inversion M; subst; assumption].
    destruct err; try (inversion M; subst; assumption).
    destruct (pp_parts p) as [|x l]; [inversion M; subst; assumption|].
    destruct (mkdir_p fuel flt w1 cwd (pp_parent p)) as [w2 r2] eqn:M2.
    pose proof (dir_ext_trans _ _ _ H1 (IH _ _ _ _ M2)) as H2.
    destruct r2 as [e2|]; [inversion M; subst; assumption|].
    destruct (mkdir_once flt w2 cwd p) as [w3 r3] eqn:M3.
    pose proof (dir_ext_trans _ _ _ H2 (mkdir_once_dir_ext _ _ _ _ _ _ M3)) as H3.
    destruct r3 as [err|]; [destruct err|]; inversion M; subst; assumption.
Qed.

Lemma file_renamer_err_fs v flt w cwd src dst o w1 e :
  file_renamer v flt w cwd src dst o = (w1, Some e) -> w_fs w1 = w_fs w.
Proof.
  unfold file_renamer.
  destruct (negb o && guard_exists v (w_fs w) cwd (to_upath dst)); [intros E; inversion E; subst; reflexivity|].
  destruct (negb (ppath_eqb (pp_parent src) (pp_parent dst))); [intros E; inversion E; subst; reflexivity|].
  destruct (sys flt CRename w (os_rename (w_fs w) cwd (to_upath src) (to_upath dst))) as [w0 [e0|]] eqn:S;
    intros E; inversion E; subst. exact (sys_err_fs _ _ _ _ _ _ S).
Qed.

Lemma file_mover_exists_dir_ext v flt w cwd src dst o w1 e :
  file_mover v flt w cwd src dst o = (w1, Some e) -> is_file_exists e = true -> dir_ext (w_fs w) (w_fs w1).
Proof.
  unfold file_mover.
  destruct (negb o && guard_exists v (w_fs w) cwd (to_upath dst)); [intros E _; inversion E; subst; apply dir_ext_refl|].
  destruct (mkdir_p (S (length (pp_parts dst))) flt w cwd (pp_parent dst)) as [w0 [e0|]] eqn:M;
    pose proof (mkdir_p_dir_ext _ _ _ _ _ _ _ M) as H0.
  - intros E _. inversion E; subst. exact H0.
  - destruct (v_recheck_after_mkdir v && negb o && guard_exists v (w_fs w0) cwd (to_upath dst));
      [intros E _; inversion E; subst; exact H0|].
    destruct (sys flt CMove w0 (shutil_move_fs (w_fs w0) cwd (to_upath src) (to_upath dst))) as [w2 [e2|]];
      intros E Fe; inversion E; subst. discriminate Fe.
Qed.

Lemma renamer_exists_dir_ext c w cwd src dst o w1 e :
  renamer c w cwd src dst o = (w1, Some e) -> is_file_exists e = true -> dir_ext (w_fs w) (w_fs w1).
Proof.
  unfold renamer. destruct (renamer_core c w cwd src dst o) as [w0 [e0|]] eqn:R; intros E Fe; inversion E; subst.
  unfold renamer_core in R. destruct (c_dry c).
  - destruct (Safety.dry_renamer_fs _ _ _ _ _ _ _ _ _ R) as [A _]. rewrite A. apply dir_ext_refl.
  - destruct (c_mode c).
    + rewrite (file_renamer_err_fs _ _ _ _ _ _ _ _ _ R). apply dir_ext_refl.
    + exact (file_mover_exists_dir_ext _ _ _ _ _ _ _ _ _ R Fe).
    + rewrite (file_renamer_err_fs _ _ _ _ _ _ _ _ _ R). apply dir_ext_refl.
Qed.

(* ---------- the two passes ------------------------------------------------------------------------------------------ *)
Section RunR2.
Variables (c : cfg) (D : list rpath) (s : fs).       (* s: the initial tree *)
Hypothesis Hv : c_var c = fixed.
(* path mode: no custom path is typed at the prompt *)
Hypothesis NC : c_mode c = MPath -> c_strategy c = Manual -> Forall (fun a => parse_answer a <> ACustom) (c_answers c).

Fixpoint rchain2 (l : list fs) : Prop :=
  match l with
  | [] => True
  | h :: l' => rchain2 l' /\ (Forall (dirs_real D) (l' ++ [s]) -> fs_step2 D (hd s l') h)
  end.

Definition rtracked2 (w : world) : Prop := w_fs w = hd s (w_hist w) /\ rchain2 (w_hist w).

Lemma rchain_rchain2 l : rchain D s l -> rchain2 l.
Proof.
  induction l as [|h l IH]; intros H; [exact I|]. cbn [rchain rchain2] in *. destruct H as [H S].
  split; [apply IH; exact H | intros G; apply FS2_old, S, G].
Qed.

Lemma rtracked_rtracked2 w : rtracked D s w -> rtracked2 w.
Proof. intros [A B]. split; [exact A | apply rchain_rchain2; exact B]. Qed.

Lemma rchain2_chain2 l : rchain2 l -> Forall (dirs_real D) (l ++ [s]) -> chain2 D s l.
Proof.
  induction l as [|h l IH]; intros C G; [exact I|].
  cbn [rchain2 app] in *. destruct C as [C S]. inversion G as [|? ? _ G']; subst.
  split; [apply IH; assumption | apply S; assumption].
Qed.

Lemma rtracked2_wstep2 (P : Prop) w w' :
  rtracked2 w -> wstep2 P D w w' -> (Forall (dirs_real D) (w_hist w ++ [s]) -> P) -> rtracked2 w'.
Proof.
  intros [Hf Hc] [l [H [F C]]] HP. split.
  - rewrite F, H, Hf. symmetry. apply hd_app.
  - rewrite H. clear H F. induction l as [|h l IH]; [exact Hc|].
    cbn [app rchain2]. split.
    + apply IH. intros K. exact (proj1 (C K)).
    + intros G. rewrite <- app_assoc in G. pose proof (proj2 (proj1 (Forall_app _ _ _) G)) as G2.
      destruct (C (HP G2)) as [_ S]. rewrite hd_app, <- Hf. exact S.
Qed.

(* the renamer, called for a file whose four tests said yes on a state [s1] that is still valid for the current one:
   with the generated path (any override flag), or -- outside path mode -- with any path *)
Lemma renamer_rtracked2 f dst s1 dst' o cwd1 w w1 e1 :
  rtracked2 w -> In (pf_dir f) D ->
  contained fixed s1 f dst = Some true -> parents_contained s1 f dst = Some true ->
  source_contained s1 f = Some true -> dest_parent_contained s1 f dst = Some true ->
  (Forall (dirs_real D) (w_hist w ++ [s]) -> still_valid D f s1 (w_fs w)) ->
  (Forall (dirs_real D) (w_hist w ++ [s]) -> cwd1 = pf_dir f) ->
  (dst' = dst \/ c_mode c <> MPath) ->
  renamer c w cwd1 (pf_rel f) dst' o = (w1, e1) ->
  rtracked2 w1 /\ wstep2 (Forall (dirs_real D) (w_hist w ++ [s])) D w w1.
Proof.
  intros Tw HfD Ct Pc Sc Dc SV Hc Hdst Rn.
  assert (St : wstep2 (Forall (dirs_real D) (w_hist w ++ [s])) D w w1).
  { destruct (rpath_eqb cwd1 (pf_dir f)) eqn:Ec.
    - apply rpath_eqb_eq in Ec. subst cwd1.
      eapply wstep2_weaken; [|exact (renamer_any_wstep2 D f dst s1 HfD Ct Pc Sc Dc c w dst' o w1 e1 Hv Hdst Rn)].
      exact SV.
    - apply (wstep2_weaken False); [|exact (wstep_wstep2 _ _ _ _ (renamer_shape D _ _ _ _ _ _ _ _ Rn))].
      intros G. rewrite (Hc G), rpath_eqb_refl in Ec. discriminate. }
  split; [exact (rtracked2_wstep2 _ _ _ Tw St (fun x => x)) | exact St].
Qed.

Lemma resolve_conflict_rtracked2 f dst s1 cwd1 w w' e :
  rtracked2 w -> In (pf_dir f) D ->
  contained fixed s1 f dst = Some true -> parents_contained s1 f dst = Some true ->
  source_contained s1 f = Some true -> dest_parent_contained s1 f dst = Some true ->
  (Forall (dirs_real D) (w_hist w ++ [s]) -> still_valid D f s1 (w_fs w)) ->
  (Forall (dirs_real D) (w_hist w ++ [s]) -> cwd1 = pf_dir f) -> answers_within c w ->
  resolve_conflict c w cwd1 (pf_rel f) dst = (w', e) ->
  rtracked2 w' /\ answers_within c w'.
Proof.
  intros Tw HfD Ct Pc Sc Dc SV Hc AW. unfold resolve_conflict.
  assert (RS : forall st w0, rtracked2 w0 -> w_fs w0 = w_fs w -> w_hist w0 = w_hist w -> answers_within c w0 ->
              resolve_simple c st w0 cwd1 (pf_rel f) dst = (w', e) ->
              rtracked2 w' /\ answers_within c w').
  { intros st w0 T0 F0 H0 AW0. destruct st; simpl;
      try (intros E; inversion E; subst; split; [exact T0 | exact AW0]).
    intros Rn.
    assert (SV' : Forall (dirs_real D) (w_hist w0 ++ [s]) -> still_valid D f s1 (w_fs w0)) by (rewrite H0, F0; exact SV).
    assert (Hc' : Forall (dirs_real D) (w_hist w0 ++ [s]) -> cwd1 = pf_dir f) by (rewrite H0; exact Hc).
    destruct (renamer_rtracked2 f dst s1 dst true cwd1 w0 w' e T0 HfD Ct Pc Sc Dc SV' Hc' (or_introl eq_refl) Rn) as [T1 _].
    split; [exact T1|].
    intros a Ha. apply AW0. rewrite <- (renamer_answers _ _ _ _ _ _ _ _ Rn). exact Ha. }
  destruct (c_strategy c) eqn:Cs.
  - apply RS; auto.
  - apply RS; auto.
  - apply RS; auto.
  - destruct (prompt (S (length (w_answers w))) w) as [d w1] eqn:P.
    destruct (prompt_props _ _ _ _ P) as [A [B [C0 [Dd NM]]]].
    assert (T1 : rtracked2 w1) by (unfold rtracked2; rewrite A, B; exact Tw).
    assert (AW1 : answers_within c w1) by (intros a Ha; apply AW, C0, Ha).
    destruct d as [st|p|].
    + apply RS; auto.
    + intros Rn.
      assert (Nm : c_mode c <> MPath).
      { intros Cm. destruct (prompt_custom _ _ _ _ P) as [a [Ha Pa]].
        pose proof (NC Cm eq_refl) as F. rewrite Forall_forall in F. exact (F a (AW a Ha) Pa). }
      assert (SV' : Forall (dirs_real D) (w_hist w1 ++ [s]) -> still_valid D f s1 (w_fs w1)) by (rewrite A, B; exact SV).
      assert (Hc' : Forall (dirs_real D) (w_hist w1 ++ [s]) -> cwd1 = pf_dir f) by (rewrite B; exact Hc).
      destruct (renamer_rtracked2 f dst s1 (parse_path p) false cwd1 w1 w' e T1 HfD Ct Pc Sc Dc SV' Hc' (or_intror Nm) Rn)
        as [T2 _].
      split; [exact T2|].
      intros a Ha. apply AW1. rewrite <- (renamer_answers _ _ _ _ _ _ _ _ Rn). exact Ha.
    + intros E; inversion E; subst. split; [exact T1 | exact AW1].
Qed.

Lemma second_pass_rtracked2 : forall bl w cwd w' cwd' e,
  rtracked2 w -> bl_dirs D bl -> answers_within c w ->
  second_pass c bl w cwd = (w', cwd', e) -> rtracked2 w'.
Proof.
  induction bl as [|[[d src] dst] rest IH]; intros w cwd w' cwd' e Tw Hbl AW.
  - intros H. inversion H; subst. exact Tw.
  - cbn [second_pass]. rewrite Hv. cbn [fixed v_backlog_chdir].
    pose proof (Forall_inv Hbl) as HdD. cbn [fst] in HdD. pose proof (Forall_inv_tail Hbl) as Hrest.
    destruct (chdir (w_fs w) d) as [cwd1|] eqn:Hc; [|intros H; inversion H; subst; exact Tw].
    destruct (backlog_verify fixed (w_fs w) d src dst) as [ev|] eqn:BV; [intros H; inversion H; subst; exact Tw|].
    rewrite backlog_verify_fixed in BV.
    destruct (verify_destination_None _ _ _ _ BV) as [Ct [Dc [Pc Sc]]]. rewrite dest_parent_test_fixed in Dc.
    set (f := {| pf_dir := d; pf_rel := src |}) in *.
    assert (Hhd : forall w0, rtracked2 w0 -> Forall (dirs_real D) (w_hist w0 ++ [s]) -> chdir (w_fs w0) d = Some d).
    { intros w0 T0 G. rewrite Forall_forall in G. apply (G (w_fs w0)); [rewrite (proj1 T0); apply hd_in | exact HdD]. }
    assert (Hcw : Forall (dirs_real D) (w_hist w ++ [s]) -> cwd1 = pf_dir f).
    { intros G. rewrite (Hhd w Tw G) in Hc. inversion Hc; subst; reflexivity. }
    assert (SV0 : Forall (dirs_real D) (w_hist w ++ [s]) -> still_valid D f (w_fs w) (w_fs w)).
    { intros G. split; [exact (Hhd w Tw G)|]. split; [reflexivity | apply changes_in_refl]. }
    destruct (renamer c w cwd1 src dst false) as [w1 e1] eqn:Rn.
    destruct (renamer_rtracked2 f dst (w_fs w) dst false cwd1 w w1 e1 Tw HdD Ct Pc Sc Dc SV0 Hcw (or_introl eq_refl) Rn)
      as [Tw1 St].
    pose proof (renamer_answers _ _ _ _ _ _ _ _ Rn) as A1.
    assert (AW1 : answers_within c w1) by (intros a Ha; apply AW; rewrite <- A1; exact Ha).
    destruct e1 as [ex|]; [|apply IH; assumption].
    destruct (is_file_exists ex) eqn:Fe; [|intros H; inversion H; subst; exact Tw1].
    pose proof (renamer_exists_dir_ext _ _ _ _ _ _ _ _ Rn Fe) as DE.
    destruct St as [l [Hl [Fl Cl]]].
    assert (Gold : Forall (dirs_real D) (w_hist w1 ++ [s]) -> Forall (dirs_real D) (w_hist w ++ [s])).
    { intros G. rewrite Hl, <- app_assoc in G. exact (proj2 (proj1 (Forall_app _ _ _) G)). }
    assert (SV1 : Forall (dirs_real D) (w_hist w1 ++ [s]) -> still_valid D f (w_fs w) (w_fs w1)).
    { intros G. split; [exact (Hhd w1 Tw1 G)|]. split.
      - intros p. apply realpath_raw_dir_ext. exact DE.
      - rewrite Fl. destruct l as [|h l]; [apply changes_in_refl|].
        apply (chain2_changes _ _ _ (Cl (Gold G))). left. reflexivity. }
    assert (Hcw1 : Forall (dirs_real D) (w_hist w1 ++ [s]) -> cwd1 = pf_dir f) by (intros G; exact (Hcw (Gold G))).
    destruct (resolve_conflict c w1 cwd1 src dst) as [w2 e2] eqn:RC.
    destruct (resolve_conflict_rtracked2 f dst (w_fs w) cwd1 w1 w2 e2 Tw1 HdD Ct Pc Sc Dc SV1 Hcw1 AW1 RC) as [Tw2 AW2].
    destruct e2 as [ex2|]; [intros H; inversion H; subst; exact Tw2|].
    apply IH; assumption.
Qed.

End RunR2.

(* ---------- the run ---------------------------------------------------------------------------------------------------- *)
Lemma run_rtracked2 c plan cwd s :
  c_var c = fixed -> no_custom_in_path_mode c ->
  exists wF, r_final (run c plan cwd s) = w_fs wF /\ r_states (run c plan cwd s) = rev (w_hist wF) /\
             rtracked2 (plan_dirs plan) s wF.
Proof.
  intros Hv NC. unfold run.
  assert (T0 : rtracked (plan_dirs plan) s (init_world s (c_answers c))) by (split; [reflexivity | exact I]).
  assert (B0 : bl_dirs (plan_dirs plan) []) by constructor.
  destruct (first_pass c plan (init_world s (c_answers c)) cwd []) as [[[w1 cwd1] bl] e1] eqn:FP.
  destruct (first_pass_rtracked c (plan_dirs plan) s Hv plan _ _ _ _ _ _ _ (plan_dirs_in plan) T0 B0 FP) as [T1 [B1 A1]].
  apply rtracked_rtracked2 in T1.
  destruct e1 as [e|].
  - exists w1. simpl. auto.
  - destruct (second_pass c bl w1 cwd1) as [[w2 cwd2] e2] eqn:SP. exists w2. simpl.
    split; [reflexivity|]. split; [reflexivity|].
    apply (second_pass_rtracked2 c (plan_dirs plan) s Hv NC bl w1 cwd1 w2 cwd2 e2 T1 B1); [|exact SP].
    intros a Ha. rewrite A1 in Ha. exact Ha.
Qed.

Theorem run_is_chain2_retest c plan cwd s :
  c_var c = fixed -> no_custom_in_path_mode c -> run_dirs_real c plan cwd s ->
  exists l, r_states (run c plan cwd s) = rev l /\ r_final (run c plan cwd s) = hd s l /\ chain2 (plan_dirs plan) s l.
Proof.
  intros Hv NC G. destruct (run_rtracked2 c plan cwd s Hv NC) as [wF [F [St [Hf Hc]]]].
  exists (w_hist wF). split; [exact St|]. split; [rewrite F; exact Hf|].
  apply (rchain2_chain2 _ _ _ Hc). unfold run_dirs_real in G. rewrite St in G.
  apply Forall_rev in G. cbn [rev] in G. rewrite rev_involutive in G. exact G.
Qed.

Theorem every_state_confined2_retest c plan cwd s :
  c_var c = fixed -> no_custom_in_path_mode c -> run_dirs_real c plan cwd s ->
  forall h, In h (r_final (run c plan cwd s) :: r_states (run c plan cwd s)) -> changes_in (plan_dirs plan) s h.
Proof.
  intros Hv NC G h Hin. destruct (run_is_chain2_retest c plan cwd s Hv NC G) as [l [St [F C]]].
  assert (K : In h (l ++ [s])).
  { destruct Hin as [<-|Hin]; [rewrite F; apply hd_in|]. rewrite St in Hin. apply in_or_app. left. apply in_rev. exact Hin. }
  apply in_app_or in K as [K|[<-|[]]]; [exact (chain2_changes _ _ _ C _ K) | apply changes_in_refl].
Qed.

(* ---------- [run_dirs_real] from a condition on the initial tree and the plan alone ------------------------------------- *)
Lemma rchain2_dirs_real D s l :
  (forall d d', In d D -> In d' D -> is_prefix_path d d' = true -> d = d') ->
  rchain2 D s l -> Forall WF (l ++ [s]) -> dirs_real D s -> Forall (dirs_real D) (l ++ [s]).
Proof.
  intros A C W G0. induction l as [|h l IH].
  - constructor; [exact G0 | constructor].
  - cbn [app rchain2] in *. destruct C as [C S]. inversion W as [|? ? Wh Wl]; subst.
    pose proof (IH C Wl) as G. constructor; [|exact G].
    pose proof (S G) as St.
    assert (Ga : dirs_real D (hd s l)) by (rewrite Forall_forall in G; apply G; apply hd_in).
    assert (Wa : WF (hd s l)) by (rewrite Forall_forall in Wl; apply Wl; apply hd_in).
    intros d Hd. apply (step2_keeps_dirs D A _ _ _ Wa Wh Hd (Ga d Hd) St).
Qed.

Theorem run_dirs_real_static2 c plan cwd s :
  c_var c = fixed -> no_custom_in_path_mode c -> WF s ->
  (forall f r, In (f, r) plan -> chdir s (pf_dir f) = Some (pf_dir f)) ->
  (forall f r f' r', In (f, r) plan -> In (f', r') plan ->
     is_prefix_path (pf_dir f) (pf_dir f') = true -> pf_dir f = pf_dir f') ->
  run_dirs_real c plan cwd s.
Proof.
  intros Hv NC W S1 S2.
  destruct (run_rtracked2 c plan cwd s Hv NC) as [wF [F [St [Hf Hc]]]].
  pose proof (run_WF_hist c plan cwd s wF W St) as Wl.
  unfold run_dirs_real. rewrite St.
  pose proof (plan_dirs_antichain plan S2) as A.
  assert (G0 : dirs_real (plan_dirs plan) s).
  { intros d Hd. unfold plan_dirs in Hd. apply in_map_iff in Hd as [[f r] [E1 H1]]. simpl in E1. subst d. exact (S1 f r H1). }
  pose proof (rchain2_dirs_real (plan_dirs plan) s (w_hist wF) A Hc Wl G0) as G.
  apply Forall_rev in G. rewrite rev_app_distr in G. exact G.
Qed.

(* ---------- the statements in the form Properties/C06.v quotes ------------------------------------------------------------ *)
(* ANY conflict strategy (override and the manual prompt's "override" / "custom path" included), any mode, dry or real,
   any fault, any plan, any tree - symbolic links anywhere, moved by the run or not *)
Theorem run_confined_any_strategy_retest c plan cwd s :
  c_var c = fixed -> WF s ->
  (c_mode c = MPath -> c_strategy c = Manual -> Forall (fun a => parse_answer a <> ACustom) (c_answers c)) ->
  (forall f r, In (f, r) plan -> chdir s (pf_dir f) = Some (pf_dir f)) ->
  (forall f r f' r', In (f, r) plan -> In (f', r') plan ->
     is_prefix_path (pf_dir f) (pf_dir f') = true -> pf_dir f = pf_dir f') ->
  forall k n,
    (In (k, n) (r_final (run c plan cwd s)) /\ ~ In (k, n) s) \/ (In (k, n) s /\ ~ In (k, n) (r_final (run c plan cwd s))) ->
    exists f r, In (f, r) plan /\ is_prefix_path (pf_dir f) k = true.
Proof.
  intros Hv W NC S1 S2. apply confined_of_changes.
  apply (every_state_confined2_retest c plan cwd s Hv NC (run_dirs_real_static2 c plan cwd s Hv NC W S1 S2)).
  left. reflexivity.
Qed.

Theorem every_state_confined_any_strategy_retest c plan cwd s :
  c_var c = fixed -> WF s ->
  (c_mode c = MPath -> c_strategy c = Manual -> Forall (fun a => parse_answer a <> ACustom) (c_answers c)) ->
  (forall f r, In (f, r) plan -> chdir s (pf_dir f) = Some (pf_dir f)) ->
  (forall f r f' r', In (f, r) plan -> In (f', r') plan ->
     is_prefix_path (pf_dir f) (pf_dir f') = true -> pf_dir f = pf_dir f') ->
  forall h, In h (r_states (run c plan cwd s)) -> forall k n,
    (In (k, n) h /\ ~ In (k, n) s) \/ (In (k, n) s /\ ~ In (k, n) h) ->
    exists f r, In (f, r) plan /\ is_prefix_path (pf_dir f) k = true.
Proof.
  intros Hv W NC S1 S2 h Hh. apply confined_of_changes.
  apply (every_state_confined2_retest c plan cwd s Hv NC (run_dirs_real_static2 c plan cwd s Hv NC W S1 S2)).
  right. exact Hh.
Qed.
