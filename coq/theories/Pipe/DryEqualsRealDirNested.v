(* C05, directory mode, NESTED selections: the restriction of Pipe/DryEqualsRealDir.v (no selected      *)
(* directory below another selected directory) is weakened to the restriction of the property:          *)
(* "no conflicting directory lies beneath a directory that is itself renamed".  Two forms:              *)
(*  [dry_equals_real_directory_mode_deferred]  children are processed before their parents              *)
(*     ([parents_last]) and nothing that the DRY run's first pass defers lies beneath a selected        *)
(*     directory ([deferred_top]);                                                                      *)
(*  [dry_equals_real_directory_mode_nested]  the static sufficient condition [children_first]:          *)
(*     parents_last, and a selected directory below another selected directory cannot conflict: its new *)
(*     name is not "..", is free on the initial tree and is not the new name of an earlier entry (so it *)
(*     is renamed at once or fails, never deferred).  [children_first_deferred_top]: static => dry-run  *)
(*     form.  [non_nested_children_first]: the non-nested selections are a special case.                *)
(* Method: the relation SimD of Pipe/DryEqualsRealDir.v is kept relative to the entries that are STILL  *)
(* PENDING (rest of the plan + backlog): the anchors are the proper prefixes of the pending source keys. *)
(* Finished entries drop out, so the anchor set shrinks and a parent becomes movable once its children  *)
(* are done.  Deferred entries are all "top" (no selected directory above them), hence never below a    *)
(* directory that is renamed later.                                                                      *)
From Tempren Require Import Base.Str Py.PathLib FS.Model FS.Lemmas FS.PlainPaths FS.WfCheck.
From Tempren Require Import Pipe.Pipeline Pipe.DestParent Pipe.BacklogVerify Pipe.DrySim Pipe.DryEqualsReal Pipe.DryEqualsRealCheck Pipe.DryEqualsRealDir.
Open Scope N_scope.

(* ---------- the statement's vocabulary --------------------------------------------------------- *)
Definition has_parent (plan : list (pfile * rendered)) (f : pfile) : Prop :=
  exists e1, In e1 plan /\ proper_prefix (dir_key (fst e1)) (dir_key f).

(* nothing that comes later lies strictly below an entry: children are processed before their parents *)
Definition parents_last (plan : list (pfile * rendered)) : Prop :=
  forall pre f r post, plan = pre ++ (f, r) :: post ->
    forall e2, In e2 post -> ~ proper_prefix (dir_key f) (dir_key (fst e2)).

(* an entry below another selected directory cannot conflict: its new name is not "..", is free on the
   initial tree and is not the new name of an earlier entry *)
Definition child_free (s : fs) (plan : list (pfile * rendered)) : Prop :=
  forall pre f r post, plan = pre ++ (f, r) :: post ->
    has_parent plan f -> forall t, r = RText t ->
       t <> dotdot /\ lookup s (dest_of f t) = None /\
       forall f' t', In (f', RText t') pre -> dest_of f' t' <> dest_of f t.

Definition children_first (s : fs) (plan : list (pfile * rendered)) : Prop :=
  forall pre f r post, plan = pre ++ (f, r) :: post ->
    (forall e2, In e2 post -> ~ proper_prefix (dir_key f) (dir_key (fst e2))) /\
    (has_parent plan f -> forall t, r = RText t ->
       t <> dotdot /\ lookup s (dest_of f t) = None /\
       forall f' t', In (f', RText t') pre -> dest_of f' t' <> dest_of f t).

Lemma children_first_split s plan : children_first s plan -> parents_last plan /\ child_free s plan.
Proof.
  intros H. split; intros pre f r post E; destruct (H pre f r post E) as [A B]; assumption.
Qed.

Lemma non_nested_children_first s plan : non_nested plan -> children_first s plan.
Proof.
  intros NN pre f r post E. split.
  - intros e2 H2. apply (NN (f, r) e2); subst plan; apply in_or_app; right; [left; reflexivity | right; assumption].
  - intros [e1 [H1 Hp]]. exfalso. apply (NN e1 (f, r)); [assumption | | exact Hp].
    subst plan. apply in_or_app. right. left. reflexivity.
Qed.

(* the source key of a backlog entry *)
Definition bkey (b : backlog_entry) : rpath := fst (fst b) ++ pp_parts (snd (fst b)).

(* no selected directory above *)
Definition top_in (plan : list (pfile * rendered)) (k : rpath) : Prop :=
  forall e1, In e1 plan -> ~ proper_prefix (dir_key (fst e1)) k.

(* what the DRY run's first pass defers *)
Definition dry_deferred (c : cfg) (plan : list (pfile * rendered)) (cwd : rpath) (s : fs) : list backlog_entry :=
  snd (fst (first_pass (cfg_set_dry c true) plan (init_world s (c_answers c)) cwd [])).

(* no deferred entry lies beneath a selected directory *)
Definition deferred_top (c : cfg) (plan : list (pfile * rendered)) (cwd : rpath) (s : fs) : Prop :=
  forall b, In b (dry_deferred c plan cwd s) -> top_in plan (bkey b).

(* ---------- one entry of the first pass, separated from the recursion ----------------------------- *)
Inductive head_res :=
| HStop (w : world) (cd : rpath) (e : exn)
| HSkip (cd : rpath)
| HCont (w : world) (cd : rpath) (deferred : option ppath).

Definition fp_head (c : cfg) (f : pfile) (r : rendered) (w : world) (cwd : rpath) : head_res :=
  match chdir (w_fs w) (pf_dir f) with
  | None => HStop w cwd ExOther
  | Some cwd1 =>
    match generate (c_mode c) f r with
    | inr e => HStop w cwd1 e
    | inl np =>
      if ppath_eqb np (pf_rel f) then HSkip cwd1
      else match contained (c_var c) (w_fs w) f np with
           | None => HStop w cwd1 ExOther
           | Some false => HStop w cwd1 ExInvalidDest
           | Some true =>
             match dest_parent_test (c_var c) (w_fs w) f np with
             | None => HStop w cwd1 ExOther
             | Some false => HStop w cwd1 ExInvalidDest
             | Some true =>
             match parents_contained (w_fs w) f np with
             | None => HStop w cwd1 ExOther
             | Some false => HStop w cwd1 ExInvalidDest
             | Some true =>
               match source_contained (w_fs w) f with
               | None => HStop w cwd1 ExOther
               | Some false => HStop w cwd1 ExInvalidDest
               | Some true =>
                 match renamer c w cwd1 (pf_rel f) np false with
                 | (w1, None) => HCont w1 cwd1 None
                 | (w1, Some e) => if is_file_exists e then HCont w1 cwd1 (Some np) else HStop w1 cwd1 e
                 end
               end
             end
             end
           end
    end
  end.

Lemma first_pass_cons c f r rest w cwd bl :
  first_pass c ((f, r) :: rest) w cwd bl =
    match fp_head c f r w cwd with
    | HStop w1 cd e => (w1, cd, bl, Some e)
    | HSkip cd => first_pass c rest w cd bl
    | HCont w1 cd None => first_pass c rest w1 cd bl
    | HCont w1 cd (Some np) => first_pass c rest w1 cd ((pf_dir f, pf_rel f, np) :: bl)
    end.
Proof.
  cbn [first_pass]. unfold fp_head.
  destruct (chdir (w_fs w) (pf_dir f)) as [cwd1|]; [|reflexivity].
  destruct (generate (c_mode c) f r) as [np|e]; [|reflexivity].
  destruct (ppath_eqb np (pf_rel f)); [reflexivity|].
  destruct (contained (c_var c) (w_fs w) f np) as [[|]|]; try reflexivity.
  destruct (dest_parent_test (c_var c) (w_fs w) f np) as [[|]|]; try reflexivity.
  destruct (parents_contained (w_fs w) f np) as [[|]|]; try reflexivity.
  destruct (source_contained (w_fs w) f) as [[|]|]; try reflexivity.
  destruct (renamer c w cwd1 (pf_rel f) np false) as [w1 [e|]]; [|reflexivity].
  destruct (is_file_exists e); reflexivity.
Qed.

(* the first pass only adds to the backlog *)
Lemma first_pass_backlog_mono c rest : forall w cwd bl w' cd bl' e,
  first_pass c rest w cwd bl = (w', cd, bl', e) -> incl bl bl'.
Proof.
  induction rest as [|[f r] rest IH]; intros w cwd bl w' cd bl' e.
  - cbn [first_pass]. intros H. inversion H; subst. apply incl_refl.
  - rewrite first_pass_cons. destruct (fp_head c f r w cwd) as [w1 cd1 e1|cd1|w1 cd1 [np|]].
    + intros H. inversion H; subst. apply incl_refl.
    + apply IH.
    + intros H. apply IH in H. intros x Hx. apply H. right. assumption.
    + apply IH.
Qed.

(* ---------- facts about DryRunRenamer's bookkeeping ---------------------------------------------- *)
Lemma renamer_dry_err st answers wd d src dst ov wd1 ex :
  renamer (dD st answers) wd d src dst ov = (wd1, Some ex) -> wd1 = wd.
Proof.
  rewrite renamer_dry_eq_dir.
  destruct (dry_exists fixed wd d dst && negb ov); [intros H; inversion H; reflexivity|].
  destruct (negb (ppath_eqb (pp_parent src) (pp_parent dst))); [intros H; inversion H; reflexivity|].
  destruct (negb (dry_exists fixed wd d src)); [intros H; inversion H; reflexivity|].
  discriminate.
Qed.

Lemma renamer_dry_ok_created st answers wd d src dst ov wd1 :
  renamer (dD st answers) wd d src dst ov = (wd1, None) ->
  forall k, In k (w_created wd1) -> k = dry_key fixed d dst \/ In k (w_created wd).
Proof.
  rewrite renamer_dry_eq_dir.
  destruct (dry_exists fixed wd d dst && negb ov); [discriminate|].
  destruct (negb (ppath_eqb (pp_parent src) (pp_parent dst))); [discriminate|].
  destruct (negb (dry_exists fixed wd d src)); [discriminate|].
  intros H k. inversion H; subst wd1. cbn [add_report Pipeline.set_dry w_created].
  intros Hk. apply mem_path_true in Hk. rewrite mem_del, mem_add in Hk.
  apply andb_true_iff in Hk as [_ Hk]. apply orb_true_iff in Hk as [Hk|Hk].
  - left. apply rpath_eqb_eq. assumption.
  - right. apply mem_path_true. assumption.
Qed.

(* a destination that does not exist virtually is not a conflict *)
Lemma renamer_dry_free st answers wd d src dst wd1 ex :
  dry_exists fixed wd d dst = false ->
  renamer (dD st answers) wd d src dst false = (wd1, Some ex) -> is_file_exists ex = false.
Proof.
  intros Hf. rewrite renamer_dry_eq_dir, Hf. cbn [andb].
  destruct (negb (ppath_eqb (pp_parent src) (pp_parent dst))); [intros H; inversion H; reflexivity|].
  destruct (negb (dry_exists fixed wd d src)); [intros H; inversion H; reflexivity|].
  discriminate.
Qed.

Lemma proper_prefix_irrefl (k : rpath) : ~ proper_prefix k k.
Proof.
  intros [r [Hr E]]. apply (f_equal (@length _)) in E. rewrite app_length in E.
  destruct r; [congruence | simpl in E; lia].
Qed.

Lemma proper_prefix_removelast (a k : rpath) : proper_prefix a k -> proper_prefix (removelast a) k.
Proof.
  intros [t [Ht E]]. destruct a as [|x a] using rev_ind; [exists t; split; assumption|].
  rewrite removelast_snoc. exists ([x] ++ t). split; [discriminate|]. rewrite E, <- app_assoc. reflexivity.
Qed.

Lemma plain_dir_rel s f : WF s -> plain_dir s f -> plain_rel s (pf_dir f) (pf_rel f).
Proof.
  intros W Pf. pose proof (plain_dir_input _ _ Pf) as Ld.
  destruct Pf as [Hc [Hdd [Hr [Hne [Hpd [Hpre [Hdir Hlen]]]]]]].
  constructor; try assumption.
  destruct (exists_last Hne) as [pre [t E]]. rewrite E, removelast_snoc.
  destruct pre as [|x pre]; [rewrite app_nil_r; assumption|].
  apply (Hpre (x :: pre) [t]); [assumption | discriminate | discriminate].
Qed.

(* ---------- the head of the first pass in both worlds ------------------------------------------------ *)
Section Head.
Variable s0 : fs.
Variable st : strategy.
Variable answers : list str.
Variable anc : rpath -> Prop.
Hypothesis W0 : WF s0.
Hypothesis anc_dir : forall a, anc a -> lookup s0 a = Some NDir.
Hypothesis anc_up : forall a, anc a -> anc (removelast a).

Definition new_name (f : pfile) (t : str) : ppath :=
  {| pp_root := pp_root (pf_rel f); pp_parts := removelast (pp_parts (pf_rel f)) ++ [t] |}.

(* the containment tests run again before a deferred entry is retried (F38) say yes on every tree on which the
   entry is as plain as it was on the tree it was deferred on *)
Definition retest_plain (d : rpath) (src dst : ppath) : Prop :=
  forall x, WF x -> plain_rel x d src -> plain_rel x d dst -> not_link (lookup x (d ++ pp_parts dst)) ->
  backlog_verify fixed x d src dst = None.
Definition retest_dd (d : rpath) (src dst : ppath) : Prop :=
  forall x, WF x -> plain_rel x d src -> dd_rel x d dst (removelast (pp_parts src)) ->
  backlog_verify fixed x d src dst = None.

(* what is known about the destination of a deferred entry *)
Definition dst_info (f : pfile) (t : str) (np : ppath) : Prop :=
  np = new_name f t /\
  ((t <> dotdot /\ plain_rel s0 (pf_dir f) np /\ removelast (pp_parts np) = removelast (pp_parts (pf_rel f)) /\
    not_link (lookup s0 (pf_dir f ++ pp_parts np)) /\ retest_plain (pf_dir f) (pf_rel f) np) \/
   (t = dotdot /\ dd_rel s0 (pf_dir f) np (removelast (pp_parts (pf_rel f))) /\ retest_dd (pf_dir f) (pf_rel f) np)).

Lemma simd_head f r wd wr cwd :
  SimD s0 st anc wd wr -> ready_src s0 anc (pf_dir f) (pf_rel f) ->
  match r with RText t => not_link (lookup s0 (dest_of f t)) | _ => True end ->
  match fp_head (dD st answers) f r wd cwd, fp_head (dR st answers) f r wr cwd with
  | HStop wd1 cd e, HStop wr1 cr e' => e = e' /\ cd = cr /\ SimD s0 st anc wd1 wr1
  | HSkip cd, HSkip cr => cd = cr
  | HCont wd1 cd None, HCont wr1 cr None =>
      cd = cr /\ SimD s0 st anc wd1 wr1 /\
      exists t, r = RText t /\ t <> dotdot /\ plain_rel s0 (pf_dir f) (new_name f t) /\
                renamer (dD st answers) wd (pf_dir f) (pf_rel f) (new_name f t) false = (wd1, None)
  | HCont wd1 cd (Some np), HCont wr1 cr (Some np') =>
      np = np' /\ cd = cr /\ SimD s0 st anc wd1 wr1 /\
      exists t ex, r = RText t /\ dst_info f t np /\
                   renamer (dD st answers) wd (pf_dir f) (pf_rel f) np false = (wd1, Some ex) /\
                   is_file_exists ex = true
  | _, _ => False
  end.
Proof.
  intros HS RS Lf. pose proof RS as RS0. destruct RS as [Hd [Ps [Ha [L0 Mv]]]].
  unfold fp_head.
  destruct (chdir_simd _ _ _ W0 anc_dir _ _ _ _ HS Hd Ps) as [-> ->].
  cbn [dD dR c_mode c_var].
  destruct (generate MDirectory f r) as [np|ex] eqn:G.
  2:{ split; [reflexivity | split; [reflexivity | assumption]]. }
  destruct (generate_dir _ _ _ G) as [t [-> Enp]]. fold (new_name f t) in Enp.
  destruct (ppath_eqb np (pf_rel f)) eqn:Same; [reflexivity|].
  rewrite (sd_fs _ _ _ _ _ HS).
  pose proof (plain_rel_real _ _ _ _ _ _ _ HS Ps Ha) as Ps'.
  pose proof (sd_wf _ _ _ _ _ HS) as Wr.
  destruct (name_eqb t dotdot) eqn:Tdd.
  - (* the new name is "..": a conflict with the parent directory in both worlds *)
    apply name_eqb_eq in Tdd. subst t.
    assert (Pdd : dd_rel s0 (pf_dir f) np (removelast (pp_parts (pf_rel f)))) by (rewrite Enp; apply dd_rel_dest; assumption).
    pose proof (dd_rel_real _ _ _ _ _ _ _ _ HS Pdd Ha) as Pdd'.
    rewrite (contained_dd s0 f np _ W0 Pdd), (contained_dd (w_fs wr) f np _ Wr Pdd').
    destruct (is_prefix_path (pf_dir f) (removelast (pf_dir f ++ removelast (pp_parts (pf_rel f))))) eqn:IP.
    2:{ split; [reflexivity | split; [reflexivity | assumption]]. }
    assert (Rtd : retest_dd (pf_dir f) (pf_rel f) np).
    { intros x Wx Psx Pddx. exact (verify_yes_dd x MDirectory f _ np _ Wx G eq_refl Psx Pddx IP). }
    rewrite (dest_parent_test_generated fixed _ s0 f _ np G eq_refl (source_contained_rel s0 f W0 Ps)),
            (dest_parent_test_generated fixed _ (w_fs wr) f _ np G eq_refl (source_contained_rel (w_fs wr) f Wr Ps')).
    rewrite (parents_contained_dd s0 f np _ W0 Pdd), (parents_contained_dd (w_fs wr) f np _ Wr Pdd').
    rewrite (source_contained_rel s0 f W0 Ps), (source_contained_rel (w_fs wr) f Wr Ps').
    destruct (simd_renamer_dd s0 st answers anc W0 anc_up wd wr (pf_dir f) (pf_rel f) np _ HS Pdd Ha) as [Xd Xr].
    rewrite Xd, Xr. cbn [is_file_exists].
    split; [reflexivity|]. split; [reflexivity|]. split; [assumption|].
    exists dotdot, ExDestExists. split; [reflexivity|]. split; [|split; [exact Xd | reflexivity]].
    split; [assumption|]. right. split; [reflexivity | split; assumption].
  - assert (Ht : t <> dotdot) by (intros E; apply name_eqb_eq in E; congruence).
    assert (Pd : plain_rel s0 (pf_dir f) np) by (rewrite Enp; apply plain_rel_dest; assumption).
    assert (Epar : removelast (pp_parts np) = removelast (pp_parts (pf_rel f))).
    { rewrite Enp. cbn [new_name pp_parts]. apply removelast_snoc. }
    assert (Ha2 : anc (pf_dir f ++ removelast (pp_parts np))) by (rewrite Epar; exact Ha).
    assert (NLd : not_link (lookup s0 (pf_dir f ++ pp_parts np))) by (rewrite Enp; exact Lf).
    rewrite (contained_rel s0 f np W0 Pd NLd).
    pose proof (plain_rel_real _ _ _ _ _ _ _ HS Pd Ha2) as Pd'.
    assert (NLr : not_link (lookup (w_fs wr) (pf_dir f ++ pp_parts np))).
    { intros i tg K.
      destruct (exists_last (pr_ne _ _ _ Pd)) as [pre [y Ey]]. rewrite Ey in *. rewrite removelast_snoc in Ha2.
      rewrite app_assoc in *. apply (NLd i tg). exact (sd_nl _ _ _ _ _ HS _ _ _ _ Ha2 K). }
    rewrite (contained_rel (w_fs wr) f np Wr Pd' NLr).
    destruct (is_prefix_path (pf_dir f) (pf_dir f ++ pp_parts np)) eqn:IP.
    2:{ split; [reflexivity | split; [reflexivity | assumption]]. }
    assert (Rtp : retest_plain (pf_dir f) (pf_rel f) np).
    { intros x Wx Psx Pdx NLx. exact (verify_yes_plain x MDirectory f _ np Wx G eq_refl Psx Pdx NLx IP). }
    rewrite (dest_parent_test_generated fixed _ s0 f _ np G eq_refl (source_contained_rel s0 f W0 Ps)),
            (dest_parent_test_generated fixed _ (w_fs wr) f _ np G eq_refl (source_contained_rel (w_fs wr) f Wr Ps')).
    rewrite (parents_contained_rel s0 f np W0 Pd), (parents_contained_rel (w_fs wr) f np Wr Pd').
    rewrite (source_contained_rel s0 f W0 Ps), (source_contained_rel (w_fs wr) f Wr Ps').
    destruct (renamer (dD st answers) wd (pf_dir f) (pf_rel f) np false) as [wd1 ed1] eqn:Rd.
    destruct (renamer (dR st answers) wr (pf_dir f) (pf_rel f) np false) as [wr1 er1] eqn:Rr.
    destruct (simd_renamer s0 st answers anc W0 _ _ _ _ _ _ _ _ _ HS RS0 Pd Epar Rd Rr) as [E S1]. subst er1.
    destruct ed1 as [e|].
    + destruct (is_file_exists e) eqn:FE.
      * split; [reflexivity|]. split; [reflexivity|]. split; [assumption|].
        exists t, e. split; [reflexivity|]. split; [|split; [exact Rd | assumption]].
        split; [assumption|]. left. split; [assumption|]. split; [assumption|]. split; [assumption|]. split; assumption.
      * split; [reflexivity | split; [reflexivity | assumption]].
    + split; [reflexivity|]. split; [assumption|].
      exists t. split; [reflexivity|]. split; [assumption|]. rewrite <- Enp. split; [assumption | exact Rd].
Qed.

End Head.

(* ---------- the simulation relative to the pending entries ---------------------------------------------- *)
Section Nested.
Variable s0 : fs.
Variable st : strategy.
Variable answers : list str.
Variable plan0 : list (pfile * rendered).       (* the whole plan *)
Hypothesis W0 : WF s0.
Hypothesis st_ok :
  match st with Stop | Ignore => True | Manual => Forall simple_answer answers | Override => False end.
Hypothesis PP0 : plain_dir_plan s0 plan0.
Hypothesis NL0 : dest_not_link s0 plan0.
Hypothesis LATER0 : parents_last plan0.

Definition from_plan (k : rpath) : Prop := exists e, In e plan0 /\ dir_key (fst e) = k.

(* the anchors of a list of pending source keys *)
Definition A (K : list rpath) (a : rpath) : Prop := exists k, In k K /\ from_plan k /\ proper_prefix a k.

Definition top (k : rpath) : Prop := top_in plan0 k.

Lemma A_dir K a : A K a -> lookup s0 a = Some NDir.
Proof.
  intros [k [_ [[e [Hin E]] Hp]]]. apply (anchor_dir s0 plan0 a W0 PP0).
  exists e. split; [assumption|]. rewrite E. exact Hp.
Qed.

Lemma A_up K a : A K a -> A K (removelast a).
Proof.
  intros [k [Hin [Fp Hp]]]. exists k. split; [assumption|]. split; [assumption|].
  apply proper_prefix_removelast. assumption.
Qed.

Lemma A_incl K K' a : incl K' K -> A K' a -> A K a.
Proof. intros I [k [Hin R]]. exists k. split; [apply I; assumption | assumption]. Qed.

Lemma SimD_weaken (anc anc' : rpath -> Prop) wd wr :
  (forall a, anc' a -> anc a) -> SimD s0 st anc wd wr -> SimD s0 st anc' wd wr.
Proof.
  intros H [F1 F2 F3 F4 F5 F6 F7 F8 F9 F10]. constructor; try assumption.
  - intros a Ha. apply F3. apply H. assumption.
  - intros a Ha. apply F4. apply H. assumption.
  - intros a x Ha. apply F5. apply H. assumption.
  - intros a x i t Ha. apply F6. apply H. assumption.
Qed.

Lemma SimD_drop_all anc wd wr : SimD s0 st anc wd wr -> SimD s0 st (A []) wd wr.
Proof. apply SimD_weaken. intros a [k [[] _]]. Qed.

Definition entry2 (b : backlog_entry) : Prop :=
  let d := fst (fst b) in let src := snd (fst b) in let dst := snd b in
  from_plan (bkey b) /\ top (bkey b) /\ plain_rel s0 d src /\ lookup s0 (bkey b) = Some NDir /\
  ((plain_rel s0 d dst /\ removelast (pp_parts dst) = removelast (pp_parts src) /\
    not_link (lookup s0 (d ++ pp_parts dst)) /\ retest_plain d src dst) \/
   (dd_rel s0 d dst (removelast (pp_parts src)) /\ retest_dd d src dst)).

Lemma ready_src_A K d src :
  In (d ++ pp_parts src) K -> from_plan (d ++ pp_parts src) -> plain_rel s0 d src ->
  lookup s0 (d ++ pp_parts src) = Some NDir ->
  (forall k2, In k2 K -> from_plan k2 -> ~ proper_prefix (d ++ pp_parts src) k2) ->
  ready_src s0 (A K) d src.
Proof.
  intros Hin Fp Ps L0 NB.
  split; [|split; [|split; [|split]]].
  - exists (d ++ pp_parts src). split; [assumption|]. split; [assumption|].
    exists (pp_parts src). split; [exact (pr_ne _ _ _ Ps) | reflexivity].
  - assumption.
  - exists (d ++ pp_parts src). split; [assumption|]. split; [assumption|].
    exists [last (pp_parts src) []]. split; [discriminate|].
    rewrite <- app_assoc. f_equal. apply app_removelast_last. exact (pr_ne _ _ _ Ps).
  - assumption.
  - intros b [k2 [Hin2 [Fp2 [t [Ht E]]]]]. apply is_prefix_false. intros [r Er].
    apply (NB k2 Hin2 Fp2). exists (r ++ t). split.
    + intros K0. apply app_eq_nil in K0 as [_ K0]. contradiction.
    + rewrite E, Er, app_assoc. reflexivity.
Qed.

Lemma top_not_below b k : entry2 b -> from_plan k -> ~ proper_prefix k (bkey b).
Proof. intros [_ [T _]] [e [Hin E]]. rewrite <- E. apply T. assumption. Qed.

Lemma simn_second_pass bl : forall wd wr cwd wd' cd' ed wr' cr' er,
  Forall entry2 bl -> SimD s0 st (A (map bkey bl)) wd wr ->
  second_pass (dD st answers) bl wd cwd = (wd', cd', ed) -> second_pass (dR st answers) bl wr cwd = (wr', cr', er) ->
  ed = er /\ SimD s0 st (A []) wd' wr'.
Proof.
  induction bl as [|[[d src] dst] rest IH]; intros wd wr cwd wd' cd' ed wr' cr' er PB HS; cbn [second_pass].
  - intros Ed Er; inversion Ed; inversion Er; subst. split; [reflexivity | assumption].
  - inversion PB as [|? ? PE PB']; subst.
    set (K := map bkey ((d, src, dst) :: rest)) in *.
    destruct PE as [Fp [Tp [Ps [L0 Hdst]]]]. unfold bkey in Fp, Tp, L0. cbn [fst snd] in Fp, Tp, Ps, L0, Hdst.
    assert (RS : ready_src s0 (A K) d src).
    { apply ready_src_A; try assumption.
      - left. reflexivity.
      - intros k2 [E2|H2] Fp2.
        + unfold bkey in E2. cbn [fst snd] in E2. subst k2. apply proper_prefix_irrefl.
        + apply in_map_iff in H2 as [b2 [E2 H2]]. subst k2.
          rewrite Forall_forall in PB'. exact (top_not_below b2 _ (PB' _ H2) Fp). }
    assert (RD : ready s0 st (A K) (d, src, dst)).
    { split; [exact RS|]. cbn [fst snd]. split.
      - destruct Hdst as [[Pd [Epar _]]|[Pdd _]]; [left; split; assumption | right].
        exists (removelast (pp_parts src)). split; [assumption|]. exact (proj1 (proj2 (proj2 RS))).
      - pose proof (proj1 (proj2 (proj2 RS))) as Ha.
        destruct Hdst as [[Pd [Epar [NLd Rt]]]|[Pdd Rt]]; split; cbn [fst snd].
        + exact (Rt s0 W0 Ps Pd NLd).
        + intros wd2 wr2 HS2.
          assert (Ha2 : A K (d ++ removelast (pp_parts dst))) by (rewrite Epar; exact Ha).
          apply (Rt (w_fs wr2) (sd_wf _ _ _ _ _ HS2) (plain_rel_real _ _ _ _ _ _ _ HS2 Ps Ha)
                    (plain_rel_real _ _ _ _ _ _ _ HS2 Pd Ha2)).
          intros i tg K0.
          destruct (exists_last (pr_ne _ _ _ Pd)) as [pre [y Ey]]. rewrite Ey in *. rewrite removelast_snoc in Ha2.
          rewrite app_assoc in *. apply (NLd i tg). exact (sd_nl _ _ _ _ _ HS2 _ _ _ _ Ha2 K0).
        + exact (Rt s0 W0 Ps Pdd).
        + intros wd2 wr2 HS2.
          exact (Rt (w_fs wr2) (sd_wf _ _ _ _ _ HS2) (plain_rel_real _ _ _ _ _ _ _ HS2 Ps Ha)
                    (dd_rel_real _ _ _ _ _ _ _ _ HS2 Pdd Ha)). }
    cbn [dD dR c_var fixed v_backlog_chdir].
    destruct (chdir_simd s0 st (A K) W0 (A_dir K) _ _ _ _ HS (proj1 RS) Ps) as [-> ->].
    pose proof (proj2 (proj2 RD)) as [Rt0 Rt]. cbn [fst snd] in Rt0, Rt.
    rewrite (sd_fs _ _ _ _ _ HS). rewrite Rt0, (Rt _ _ HS).
    destruct (renamer (dD st answers) wd d src dst false) as [wd1 ed1] eqn:Rd.
    destruct (renamer (dR st answers) wr d src dst false) as [wr1 er1] eqn:Rr.
    destruct (simd_renamer_ready s0 st answers (A K) W0 (A_up K) _ _ _ _ _ _ _ _ _ HS RD Rd Rr) as [E S1]. subst er1.
    assert (Wk : forall w1 w2, SimD s0 st (A K) w1 w2 -> SimD s0 st (A (map bkey rest)) w1 w2).
    { intros w1 w2. apply SimD_weaken. intros a. apply A_incl. unfold K. cbn [map]. apply incl_tl, incl_refl. }
    destruct ed1 as [e|]; [|apply IH; [assumption | apply Wk; assumption]].
    destruct (is_file_exists e).
    + destruct (resolve_conflict (dD st answers) wd1 d src dst) as [wd2 ed2] eqn:Cd.
      destruct (resolve_conflict (dR st answers) wr1 d src dst) as [wr2 er2] eqn:Cr.
      destruct (simd_resolve_conflict s0 st answers (A K) st_ok _ _ _ _ _ _ _ _ _ S1 Cd Cr) as [E2 S2]. subst er2.
      destruct ed2 as [e2|]; [|apply IH; [assumption | apply Wk; assumption]].
      intros Ed Er; inversion Ed; inversion Er; subst. split; [reflexivity | eapply SimD_drop_all; eassumption].
    + intros Ed Er; inversion Ed; inversion Er; subst. split; [reflexivity | eapply SimD_drop_all; eassumption].
Qed.

Definition pkeys (l : list (pfile * rendered)) : list rpath := map (fun e => dir_key (fst e)) l.

(* everything DryRunRenamer has recorded as created is the new name of an entry that has been processed *)
Definition created_from (pre : list (pfile * rendered)) (wd : world) : Prop :=
  forall k, In k (w_created wd) -> exists f' t', In (f', RText t') pre /\ k = dest_of f' t'.

Lemma created_from_more pre e wd : created_from pre wd -> created_from (pre ++ [e]) wd.
Proof.
  intros H k Hk. destruct (H k Hk) as [f' [t' [Hin E]]]. exists f', t'. split; [|assumption].
  apply in_or_app. left. assumption.
Qed.

Lemma plan_entry_facts f r :
  In (f, r) plan0 ->
  plain_rel s0 (pf_dir f) (pf_rel f) /\ lookup s0 (dir_key f) = Some NDir /\ from_plan (dir_key f) /\
  match r with RText t => not_link (lookup s0 (dest_of f t)) | _ => True end.
Proof.
  intros Hin. unfold plain_dir_plan in PP0. rewrite Forall_forall in PP0. pose proof (PP0 _ Hin) as Pf. cbn [fst] in Pf.
  unfold dest_not_link in NL0. rewrite Forall_forall in NL0. pose proof (NL0 _ Hin) as Lf. cbn [fst snd] in Lf.
  split; [apply plain_dir_rel; assumption|]. split; [|split; [|exact Lf]].
  - destruct Pf as [_ [_ [_ [_ [_ [_ [Hdir _]]]]]]]. exact Hdir.
  - exists (f, r). split; [assumption | reflexivity].
Qed.

Lemma simn_first_pass rest : forall pre wd wr cwd bl wd' cd' bd' ed wr' cr' br' er,
  plan0 = pre ++ rest ->
  Forall entry2 bl -> SimD s0 st (A (pkeys rest ++ map bkey bl)) wd wr -> created_from pre wd ->
  (child_free s0 plan0 \/ forall b, In b bd' -> top (bkey b)) ->
  first_pass (dD st answers) rest wd cwd bl = (wd', cd', bd', ed) ->
  first_pass (dR st answers) rest wr cwd bl = (wr', cr', br', er) ->
  ed = er /\ cd' = cr' /\ bd' = br' /\ Forall entry2 bd' /\ SimD s0 st (A (map bkey bd')) wd' wr'.
Proof.
  induction rest as [|[f r] rest IH]; intros pre wd wr cwd bl wd' cd' bd' ed wr' cr' br' er Epl PB HS CR DEF.
  - cbn [first_pass]. intros Ed Er; inversion Ed; inversion Er; subst.
    split; [reflexivity|]. split; [reflexivity|]. split; [reflexivity|]. split; assumption.
  - rewrite !first_pass_cons.
    assert (Hin : In (f, r) plan0) by (rewrite Epl; apply in_or_app; right; left; reflexivity).
    destruct (plan_entry_facts f r Hin) as [Ps [L0 [Fp Lf]]].
    pose proof (LATER0 pre f r rest Epl) as Later.
    set (K := pkeys ((f, r) :: rest) ++ map bkey bl) in *.
    assert (RS : ready_src s0 (A K) (pf_dir f) (pf_rel f)).
    { apply ready_src_A; try assumption.
      - left. reflexivity.
      - intros k2 H2 Fp2. unfold K in H2. cbn [pkeys map app fst] in H2. destruct H2 as [E2|H2].
        + subst k2. apply proper_prefix_irrefl.
        + apply in_app_or in H2 as [H2|H2].
          * apply in_map_iff in H2 as [e2 [E2 H2]]. subst k2. apply Later. assumption.
          * apply in_map_iff in H2 as [b2 [E2 H2]]. subst k2.
            rewrite Forall_forall in PB. exact (top_not_below b2 _ (PB _ H2) Fp). }
    assert (Enext : plan0 = (pre ++ [(f, r)]) ++ rest) by (rewrite <- app_assoc; exact Epl).
    assert (Wk : forall w1 w2, SimD s0 st (A K) w1 w2 -> SimD s0 st (A (pkeys rest ++ map bkey bl)) w1 w2).
    { intros w1 w2. apply SimD_weaken. intros a. apply A_incl. unfold K. cbn [pkeys map app]. apply incl_tl, incl_refl. }
    assert (Wb : forall w1 w2, SimD s0 st (A K) w1 w2 -> SimD s0 st (A (map bkey bl)) w1 w2).
    { intros w1 w2. apply SimD_weaken. intros a. apply A_incl. unfold K. apply incl_appr, incl_refl. }
    pose proof (simd_head s0 st answers (A K) W0 (A_dir K) (A_up K) f r wd wr cwd HS RS Lf) as HH.
    destruct (fp_head (dD st answers) f r wd cwd) as [wd1 cd e|cd|wd1 cd [np|]];
      destruct (fp_head (dR st answers) f r wr cwd) as [wr1 cr e'|cr|wr1 cr [np'|]]; try contradiction.
    + (* both stop *)
      destruct HH as [-> [-> S1]]. intros Ed Er; inversion Ed; inversion Er; subst.
      split; [reflexivity|]. split; [reflexivity|]. split; [reflexivity|]. split; [assumption | apply Wb; assumption].
    + (* both skip *)
      subst cr. apply (IH (pre ++ [(f, r)])); try assumption.
      * apply Wk. assumption.
      * apply created_from_more. assumption.
    + (* both defer *)
      destruct HH as [<- [<- [S1 [t [ex [-> [[Enp Dst] [Rd FE]]]]]]]].
      pose proof (renamer_dry_err _ _ _ _ _ _ _ _ _ Rd) as Ew. subst wd1.
      intros Ed Er.
      (* a deferred entry has no selected directory above it *)
      assert (Tp : top (dir_key f)).
      { destruct DEF as [Child|Dt].
        - intros e1 Hin1 Hp.
          destruct (Child pre f (RText t) rest Epl (ex_intro _ e1 (conj Hin1 Hp)) t eq_refl) as [Ht [Lfree Fresh]].
          destruct Dst as [[_ [Pd _]]|[Edd _]]; [|contradiction].
          assert (Kd : pf_dir f ++ pp_parts np = dest_of f t) by (rewrite Enp; reflexivity).
          assert (Hfree : dry_exists fixed wd (pf_dir f) np = false).
          { unfold dry_exists. cbn [fixed v_dry_abs_keys].
            rewrite (sd_fs _ _ _ _ _ HS), (lexists_rel _ _ _ W0 Pd), (dry_key_rel _ _ _ Pd), Kd.
            unfold present. rewrite Lfree. cbn [orb].
            destruct (mem_path (dest_of f t) (w_created wd)) eqn:M; [|reflexivity].
            exfalso. apply mem_path_true in M. destruct (CR _ M) as [f' [t' [Hin' E']]].
            apply (Fresh f' t' Hin'). symmetry. exact E'. }
          pose proof (renamer_dry_free _ _ _ _ _ _ _ _ Hfree Rd). congruence.
        - apply (Dt (pf_dir f, pf_rel f, np)).
          apply (first_pass_backlog_mono _ _ _ _ _ _ _ _ _ Ed). left. reflexivity. }
      assert (E2 : entry2 (pf_dir f, pf_rel f, np)).
      { unfold entry2, bkey. cbn [fst snd]. split; [exact Fp|]. split; [exact Tp|]. split; [assumption|]. split; [assumption|].
        destruct Dst as [[_ [Pd [Epar [NLd Rtp]]]]|[_ [Pdd Rtd]]];
          [left; split; [assumption|]; split; [assumption|]; split; assumption | right; split; assumption]. }
      revert Ed Er.
      apply (IH (pre ++ [(f, RText t)])); try assumption.
      * constructor; assumption.
      * eapply SimD_weaken; [|exact S1]. intros a. apply A_incl.
        intros k Hk. unfold K. cbn [pkeys map app fst]. cbn [map] in Hk.
        apply in_app_or in Hk as [Hk|[Hk|Hk]].
        -- right. apply in_or_app. left. assumption.
        -- left. unfold bkey in Hk. cbn [fst snd] in Hk. exact Hk.
        -- right. apply in_or_app. right. assumption.
      * apply created_from_more. assumption.
    + (* both renamed *)
      destruct HH as [<- [S1 [t [-> [Ht [Pd Rd]]]]]].
      apply (IH (pre ++ [(f, RText t)])); try assumption.
      * apply Wk. assumption.
      * intros k Hk. destruct (renamer_dry_ok_created _ _ _ _ _ _ _ _ Rd k Hk) as [E|Hk0].
        -- exists f, t. split; [apply in_or_app; right; left; reflexivity|].
           rewrite E, (dry_key_rel _ _ _ Pd). reflexivity.
        -- destruct (CR k Hk0) as [f' [t' [Hin' E']]]. exists f', t'. split; [|assumption].
           apply in_or_app. left. assumption.
Qed.

Lemma simn_run cwd :
  (child_free s0 plan0 \/
   forall b, In b (snd (fst (first_pass (dD st answers) plan0 (init_world s0 answers) cwd []))) -> top (bkey b)) ->
  r_status (run (dD st answers) plan0 cwd s0) = r_status (run (dR st answers) plan0 cwd s0) /\
  r_report (run (dD st answers) plan0 cwd s0) = r_report (run (dR st answers) plan0 cwd s0) /\
  r_prompts (run (dD st answers) plan0 cwd s0) = r_prompts (run (dR st answers) plan0 cwd s0) /\
  r_error (run (dD st answers) plan0 cwd s0) = r_error (run (dR st answers) plan0 cwd s0).
Proof.
  intros DEF. unfold run. cbn [dD dR c_answers].
  destruct (first_pass (dD st answers) plan0 (init_world s0 answers) cwd []) as [[[wd1 cd1] bd1] ed1] eqn:Fd.
  cbn [fst snd] in DEF.
  destruct (first_pass (dR st answers) plan0 (init_world s0 answers) cwd []) as [[[wr1 cr1] br1] er1] eqn:Fr.
  assert (S0 : SimD s0 st (A (pkeys plan0 ++ map bkey [])) (init_world s0 answers) (init_world s0 answers)).
  { apply SimD_init; [assumption | assumption | apply A_dir]. }
  assert (C0 : created_from [] (init_world s0 answers)) by (intros k []).
  destruct (simn_first_pass plan0 [] _ _ _ _ _ _ _ _ _ _ _ _ eq_refl (Forall_nil _) S0 C0 DEF Fd Fr) as [E [Ec [Eb [PB S1]]]].
  subst er1 cr1 br1.
  destruct ed1 as [e|].
  - cbn [r_status r_report r_prompts r_error]. rewrite (sd_report _ _ _ _ _ S1), (sd_prompts _ _ _ _ _ S1). auto.
  - destruct (second_pass (dD st answers) bd1 wd1 cd1) as [[wd2 cd2] ed2] eqn:Sd.
    destruct (second_pass (dR st answers) bd1 wr1 cd1) as [[wr2 cr2] er2] eqn:Sr.
    destruct (simn_second_pass _ _ _ _ _ _ _ _ _ _ PB S1 Sd Sr) as [E2 S2]. subst er2.
    cbn [r_status r_report r_prompts r_error]. rewrite (sd_report _ _ _ _ _ S2), (sd_prompts _ _ _ _ _ S2). auto.
Qed.

(* under the static restriction everything the dry run defers is top *)
Lemma static_deferred_top cwd :
  child_free s0 plan0 ->
  forall b, In b (snd (fst (first_pass (dD st answers) plan0 (init_world s0 answers) cwd []))) -> top (bkey b).
Proof.
  intros CH.
  destruct (first_pass (dD st answers) plan0 (init_world s0 answers) cwd []) as [[[wd1 cd1] bd1] ed1] eqn:Fd.
  destruct (first_pass (dR st answers) plan0 (init_world s0 answers) cwd []) as [[[wr1 cr1] br1] er1] eqn:Fr.
  cbn [fst snd].
  assert (S0 : SimD s0 st (A (pkeys plan0 ++ map bkey [])) (init_world s0 answers) (init_world s0 answers)).
  { apply SimD_init; [assumption | assumption | apply A_dir]. }
  assert (C0 : created_from [] (init_world s0 answers)) by (intros k []).
  destruct (simn_first_pass plan0 [] _ _ _ _ _ _ _ _ _ _ _ _ eq_refl (Forall_nil _) S0 C0 (or_introl CH) Fd Fr) as [_ [_ [_ [PB _]]]].
  rewrite Forall_forall in PB. intros b Hb. exact (proj1 (proj2 (PB b Hb))).
Qed.

End Nested.

(* ---------- C05, directory mode, nested selections ------------------------------------------------------- *)
(* the restriction read off the dry run: children before parents, and nothing the dry run defers lies beneath
   a selected directory *)
Theorem dry_equals_real_directory_mode_deferred : forall c plan cwd s,
  c_mode c = MDirectory -> c_fault c = None -> c_var c = fixed -> WF s ->
  plain_dir_plan s plan -> parents_last plan -> deferred_top c plan cwd s ->
  dest_not_link s plan -> no_override c ->
  let d := run (cfg_set_dry c true) plan cwd s in
  let r := run (cfg_set_dry c false) plan cwd s in
  r_status d = r_status r /\ r_report d = r_report r /\ r_prompts d = r_prompts r /\ r_error d = r_error r.
Proof.
  intros [m stg dry ans flt v] plan cwd s Hm Hf Hv W PP PL DT NL NO. cbn in Hm, Hf, Hv. subst m flt v.
  unfold no_override in NO. cbn [c_strategy c_answers] in NO.
  unfold deferred_top, dry_deferred in DT.
  unfold cfg_set_dry in *. cbn [c_mode c_strategy c_answers c_fault c_var] in *.
  exact (simn_run s stg ans plan W NO PP NL PL cwd (or_intror DT)).
Qed.

(* the static restriction *)
Theorem dry_equals_real_directory_mode_nested : forall c plan cwd s,
  c_mode c = MDirectory -> c_fault c = None -> c_var c = fixed -> WF s ->
  plain_dir_plan s plan -> children_first s plan -> dest_not_link s plan -> no_override c ->
  let d := run (cfg_set_dry c true) plan cwd s in
  let r := run (cfg_set_dry c false) plan cwd s in
  r_status d = r_status r /\ r_report d = r_report r /\ r_prompts d = r_prompts r /\ r_error d = r_error r.
Proof.
  intros [m stg dry ans flt v] plan cwd s Hm Hf Hv W PP CF NL NO. cbn in Hm, Hf, Hv. subst m flt v.
  unfold no_override in NO. cbn [c_strategy c_answers] in NO.
  destruct (children_first_split _ _ CF) as [PL CH].
  unfold cfg_set_dry. cbn [c_mode c_strategy c_answers c_fault c_var].
  exact (simn_run s stg ans plan W NO PP NL PL cwd (or_introl CH)).
Qed.

(* the static restriction implies the one read off the dry run *)
Theorem children_first_deferred_top : forall c plan cwd s,
  c_mode c = MDirectory -> c_fault c = None -> c_var c = fixed -> WF s ->
  plain_dir_plan s plan -> children_first s plan -> dest_not_link s plan -> no_override c ->
  parents_last plan /\ deferred_top c plan cwd s.
Proof.
  intros [m stg dry ans flt v] plan cwd s Hm Hf Hv W PP CF NL NO. cbn in Hm, Hf, Hv. subst m flt v.
  unfold no_override in NO. cbn [c_strategy c_answers] in NO.
  destruct (children_first_split _ _ CF) as [PL CH]. split; [assumption|].
  unfold deferred_top, dry_deferred, cfg_set_dry. cbn [c_mode c_strategy c_answers c_fault c_var].
  exact (static_deferred_top s stg ans plan W NO PP NL PL cwd CH).
Qed.

(* ---------- a sound boolean checker for [children_first] ---------------------------------------------------- *)
Definition ppfx_b (a b : rpath) : bool := is_prefix_path a b && negb (rpath_eqb a b).

Lemma ppfx_b_false a b : ppfx_b a b = false -> ~ proper_prefix a b.
Proof.
  unfold ppfx_b. intros H [r [Hr E]]. apply andb_false_iff in H as [H|H].
  - apply is_prefix_false in H. apply H. exists r. exact E.
  - apply negb_false_iff in H. apply rpath_eqb_eq in H. subst b.
    apply (proper_prefix_irrefl a). exists r. split; assumption.
Qed.

Lemma ppfx_b_true a b : proper_prefix a b -> ppfx_b a b = true.
Proof.
  intros [r [Hr E]]. unfold ppfx_b. apply andb_true_iff. split.
  - apply is_prefix_path_spec. exists r. exact E.
  - apply negb_true_iff. apply rpath_eqb_neq. intros ->.
    apply (proper_prefix_irrefl b). exists r. split; assumption.
Qed.

Definition child_ok_b (s : fs) (pre : list (pfile * rendered)) (f : pfile) (r : rendered) : bool :=
  match r with
  | RText t =>
    negb (name_eqb t dotdot) &&
    match lookup s (dest_of f t) with None => true | Some _ => false end &&
    forallb (fun e' => match snd e' with
                       | RText t' => negb (rpath_eqb (dest_of (fst e') t') (dest_of f t))
                       | _ => true end) pre
  | _ => true
  end.

Fixpoint children_first_from (s : fs) (plan0 pre rest : list (pfile * rendered)) : bool :=
  match rest with
  | [] => true
  | (f, r) :: post =>
    forallb (fun e2 => negb (ppfx_b (dir_key f) (dir_key (fst e2)))) post &&
    (if existsb (fun e1 => ppfx_b (dir_key (fst e1)) (dir_key f)) plan0 then child_ok_b s pre f r else true) &&
    children_first_from s plan0 (pre ++ [(f, r)]) post
  end.

Definition children_first_b (s : fs) (plan : list (pfile * rendered)) : bool := children_first_from s plan [] plan.

Lemma children_first_from_sound s plan0 rest : forall pre,
  children_first_from s plan0 pre rest = true ->
  forall pre' f r post, rest = pre' ++ (f, r) :: post ->
    (forall e2, In e2 post -> ~ proper_prefix (dir_key f) (dir_key (fst e2))) /\
    (has_parent plan0 f -> forall t, r = RText t ->
       t <> dotdot /\ lookup s (dest_of f t) = None /\
       forall f' t', In (f', RText t') (pre ++ pre') -> dest_of f' t' <> dest_of f t).
Proof.
  induction rest as [|[f0 r0] rest IH]; intros pre H pre' f r post E.
  - destruct pre'; discriminate.
  - cbn [children_first_from] in H. apply andb_true_iff in H as [H H3]. apply andb_true_iff in H as [H1 H2].
    destruct pre' as [|e pre'].
    + cbn [app] in E. inversion E; subst f0 r0 rest. rewrite app_nil_r. split.
      * intros e2 H2'. rewrite forallb_forall in H1. specialize (H1 _ H2'). apply negb_true_iff in H1.
        apply ppfx_b_false. assumption.
      * intros [e1 [Hin1 Hp]] t ->.
        assert (X : existsb (fun e1 => ppfx_b (dir_key (fst e1)) (dir_key f)) plan0 = true).
        { apply existsb_exists. exists e1. split; [assumption | apply ppfx_b_true; assumption]. }
        rewrite X in H2. cbn [child_ok_b] in H2.
        apply andb_true_iff in H2 as [H2 Hc]. apply andb_true_iff in H2 as [Ha Hb].
        split; [|split].
        -- intros ->. rewrite dotdot_refl in Ha. discriminate.
        -- destruct (lookup s (dest_of f t)); [discriminate | reflexivity].
        -- intros f' t' Hin' Ed. rewrite forallb_forall in Hc. specialize (Hc _ Hin'). cbn [fst snd] in Hc.
           rewrite Ed, rpath_eqb_refl in Hc. discriminate.
    + cbn [app] in E. inversion E; subst e rest.
      destruct (IH _ H3 pre' f r post eq_refl) as [X1 X2]. split; [assumption|].
      intros HP t Et. destruct (X2 HP t Et) as [Y1 [Y2 Y3]]. split; [assumption|]. split; [assumption|].
      intros f' t' Hin'. apply Y3. rewrite <- app_assoc. exact Hin'.
Qed.

Lemma children_first_b_sound s plan : children_first_b s plan = true -> children_first s plan.
Proof.
  intros H pre f r post E.
  exact (children_first_from_sound s plan plan [] H pre f r post E).
Qed.

(* all hypotheses of [dry_equals_real_directory_mode_nested] about the tree and the plan *)
Definition c05_dir_nested_covered_b (s : fs) (plan : list (pfile * rendered)) : bool :=
  wf_b s && plain_dir_plan_b s plan && children_first_b s plan && dest_not_link_b s plan.

Lemma c05_dir_nested_covered_b_sound s plan :
  c05_dir_nested_covered_b s plan = true ->
  WF s /\ plain_dir_plan s plan /\ children_first s plan /\ dest_not_link s plan.
Proof.
  unfold c05_dir_nested_covered_b. intros H.
  apply andb_true_iff in H as [H H4]. apply andb_true_iff in H as [H H3]. apply andb_true_iff in H as [H1 H2].
  split; [apply wf_b_sound; assumption|]. split; [apply plain_dir_plan_b_sound; assumption|].
  split; [apply children_first_b_sound; assumption | apply dest_not_link_b_sound; assumption].
Qed.

(* ... and for the hypotheses of [dry_equals_real_directory_mode_deferred] *)
Fixpoint parents_last_b (plan : list (pfile * rendered)) : bool :=
  match plan with
  | [] => true
  | (f, r) :: post =>
    forallb (fun e2 => negb (ppfx_b (dir_key f) (dir_key (fst e2)))) post && parents_last_b post
  end.

Lemma parents_last_b_sound plan : parents_last_b plan = true -> parents_last plan.
Proof.
  induction plan as [|[f0 r0] plan IH]; intros H pre f r post E.
  - destruct pre; discriminate.
  - cbn [parents_last_b] in H. apply andb_true_iff in H as [H1 H2].
    destruct pre as [|e pre].
    + cbn [app] in E. inversion E; subst f0 r0 plan.
      intros e2 He2. rewrite forallb_forall in H1. specialize (H1 _ He2). apply negb_true_iff in H1.
      apply ppfx_b_false. assumption.
    + cbn [app] in E. inversion E; subst e plan. exact (IH H2 pre f r post eq_refl).
Qed.

Definition deferred_top_b (c : cfg) (plan : list (pfile * rendered)) (cwd : rpath) (s : fs) : bool :=
  forallb (fun b => forallb (fun e1 => negb (ppfx_b (dir_key (fst e1)) (bkey b))) plan) (dry_deferred c plan cwd s).

Lemma deferred_top_b_sound c plan cwd s : deferred_top_b c plan cwd s = true -> deferred_top c plan cwd s.
Proof.
  unfold deferred_top_b, deferred_top, top_in. rewrite forallb_forall. intros H b Hb e1 H1.
  specialize (H b Hb). rewrite forallb_forall in H. specialize (H e1 H1). apply negb_true_iff in H.
  apply ppfx_b_false. assumption.
Qed.

Definition c05_dir_deferred_covered_b (c : cfg) (plan : list (pfile * rendered)) (cwd : rpath) (s : fs) : bool :=
  wf_b s && plain_dir_plan_b s plan && parents_last_b plan && deferred_top_b c plan cwd s && dest_not_link_b s plan.

Lemma c05_dir_deferred_covered_b_sound c plan cwd s :
  c05_dir_deferred_covered_b c plan cwd s = true ->
  WF s /\ plain_dir_plan s plan /\ parents_last plan /\ deferred_top c plan cwd s /\ dest_not_link s plan.
Proof.
  unfold c05_dir_deferred_covered_b. intros H.
  apply andb_true_iff in H as [H H5]. apply andb_true_iff in H as [H H4].
  apply andb_true_iff in H as [H H3]. apply andb_true_iff in H as [H1 H2].
  split; [apply wf_b_sound; assumption|]. split; [apply plain_dir_plan_b_sound; assumption|].
  split; [apply parents_last_b_sound; assumption|].
  split; [apply deferred_top_b_sound; assumption | apply dest_not_link_b_sound; assumption].
Qed.
