(* The slice of Python's value ordering that sort keys rest on (DESIGN §3.6).      *)
(* Model only — proofs are in Py/OrderProofs.v.                                   *)
(*                                                                                *)
(* Values: int, str, bool, tuple, PosixPath.  [bool] is a subclass of [int] in    *)
(* Python and compares numerically with ints.  A PosixPath compares (3.12:        *)
(* [PurePath.__lt__] on [_parts_normcase] = [str(path).split('/')]) like the list *)
(* of the '/'-separated pieces of its string form — so the path [.] is the one-   *)
(* element list ["."], not the empty tuple of [parts].  The harness hands paths   *)
(* over in exactly that form.                                                     *)
(* Tuples: CPython's [tuplerichcompare] looks for the first index at which the    *)
(* items are not [==]; if there is none the lengths decide, otherwise the items   *)
(* at that index are compared with the requested operator.  [==] between values   *)
(* of unrelated types is False, never an error; [<] / [<=] between them raise     *)
(* TypeError (modelled as [None]).                                                *)
From Tempren Require Import Base.Str.
Open Scope Z_scope.

Inductive pyval : Type :=
| VInt (z : Z)
| VStr (s : list N)
| VBool (b : bool)
| VTuple (l : list pyval)
| VPath (p : list (list N)).

(* ---------- lexicographic comparison of sequences ---------------------------- *)

Definition lex_eqb {A} (eqb : A -> A -> bool) : list A -> list A -> bool :=
  fix go (a b : list A) : bool :=
    match a, b with
    | [], [] => true
    | x :: a', y :: b' => eqb x y && go a' b'
    | _, _ => false
    end.

(* first index with items not equal decides by [ltb]; no such index: shorter is smaller *)
Definition lex_ltb {A} (eqb ltb : A -> A -> bool) : list A -> list A -> bool :=
  fix go (a b : list A) : bool :=
    match a, b with
    | _, [] => false
    | [], _ :: _ => true
    | x :: a', y :: b' => if eqb x y then go a' b' else ltb x y
    end.

Definition lex_leb {A} (eqb leb : A -> A -> bool) : list A -> list A -> bool :=
  fix go (a b : list A) : bool :=
    match a, b with
    | [], _ => true
    | _ :: _, [] => false
    | x :: a', y :: b' => if eqb x y then go a' b' else leb x y
    end.

(* does the comparison reach a pair of items that has no order? *)
Definition lex_comparable {A} (eqb cmpb : A -> A -> bool) : list A -> list A -> bool :=
  fix go (a b : list A) : bool :=
    match a, b with
    | x :: a', y :: b' => if eqb x y then go a' b' else cmpb x y
    | _, _ => true
    end.

(* ---------- str: by code point ---------------------------------------------- *)

Definition str_ltb : list N -> list N -> bool := lex_ltb N.eqb N.ltb.
Definition str_leb : list N -> list N -> bool := lex_leb N.eqb N.leb.

(* ---------- PosixPath: list of '/'-separated pieces, each compared as str ------ *)

Definition path_eqb : list (list N) -> list (list N) -> bool := lex_eqb str_eqb.
Definition path_ltb : list (list N) -> list (list N) -> bool := lex_ltb str_eqb str_ltb.
Definition path_leb : list (list N) -> list (list N) -> bool := lex_leb str_eqb str_leb.

(* ---------- values ---------------------------------------------------------- *)

Definition num_of (v : pyval) : option Z :=
  match v with
  | VInt z => Some z
  | VBool b => Some (if b then 1 else 0)
  | _ => None
  end.

Definition num2 (f : Z -> Z -> bool) (a b : pyval) : bool :=
  match num_of a, num_of b with
  | Some x, Some y => f x y
  | _, _ => false
  end.

(* Python [a == b] *)
Fixpoint py_eqb (a b : pyval) : bool :=
  match a, b with
  | VTuple la, VTuple lb => lex_eqb py_eqb la lb
  | VStr s, VStr t => str_eqb s t
  | VPath p, VPath q => path_eqb p q
  | _, _ => num2 Z.eqb a b
  end.

(* is [a < b] (equivalently [a <= b]) defined, i.e. no TypeError *)
Fixpoint py_comparable (a b : pyval) : bool :=
  match a, b with
  | VTuple la, VTuple lb => lex_comparable py_eqb py_comparable la lb
  | VStr _, VStr _ => true
  | VPath _, VPath _ => true
  | _, _ => num2 (fun _ _ => true) a b
  end.

(* the value of [a < b] when it is defined *)
Fixpoint py_ltb (a b : pyval) : bool :=
  match a, b with
  | VTuple la, VTuple lb => lex_ltb py_eqb py_ltb la lb
  | VStr s, VStr t => str_ltb s t
  | VPath p, VPath q => path_ltb p q
  | _, _ => num2 Z.ltb a b
  end.

(* the value of [a <= b] when it is defined *)
Fixpoint py_leb (a b : pyval) : bool :=
  match a, b with
  | VTuple la, VTuple lb => lex_leb py_eqb py_leb la lb
  | VStr s, VStr t => str_leb s t
  | VPath p, VPath q => path_leb p q
  | _, _ => num2 Z.leb a b
  end.

(* [None] = TypeError *)
Definition py_lt (a b : pyval) : option bool :=
  if py_comparable a b then Some (py_ltb a b) else None.
Definition py_le (a b : pyval) : option bool :=
  if py_comparable a b then Some (py_leb a b) else None.

(* ---------- shapes: sets of values on which the order is total ---------------- *)
(* [STuple ss] contains every tuple of length <= length ss whose i-th item has     *)
(* shape ss[i] (so tuples of different lengths — the shorter-prefix rule — are     *)
(* covered).  Int and bool share [SNum].                                          *)

Inductive shape : Type :=
| SNum | SStr | SPath
| STuple (ss : list shape).

Definition prefix_all2 {A B} (f : A -> B -> bool) : list A -> list B -> bool :=
  fix go (l : list A) (ss : list B) : bool :=
    match l, ss with
    | [], _ => true
    | x :: l', s :: ss' => f x s && go l' ss'
    | _ :: _, [] => false
    end.

Fixpoint has_shape (v : pyval) (s : shape) : bool :=
  match v, s with
  | VInt _, SNum => true
  | VBool _, SNum => true
  | VStr _, SStr => true
  | VPath _, SPath => true
  | VTuple l, STuple ss => prefix_all2 has_shape l ss
  | _, _ => false
  end.

(* decidable structural equality (used by the correspondence comparators only) *)
Fixpoint pyval_eqb (a b : pyval) : bool :=
  match a, b with
  | VInt x, VInt y => Z.eqb x y
  | VStr s, VStr t => str_eqb s t
  | VBool x, VBool y => Bool.eqb x y
  | VTuple la, VTuple lb => lex_eqb pyval_eqb la lb
  | VPath p, VPath q => path_eqb p q
  | _, _ => false
  end.
