(* CPython's repr() / str() for the value kinds that tempren tags hand to filter and sort   *)
(* expressions: str (Objects/unicodeobject.c: unicode_repr), int, bool, None, PosixPath.    *)
(* Model only - no proofs in this file.                                                      *)
From Tempren Require Import Base.Str Py.PathLib.
Open Scope N_scope.

(* ---------- values -------------------------------------------------------------------- *)

Inductive value :=
| VStr (s : str)
| VInt (z : Z)
| VBool (b : bool)
| VNone
| VPath (p : ppath).

(* a Python str is a sequence of code points 0 .. 0x10FFFF *)
Definition max_cp : N := 1114111.
Definition valid_cp (c : N) : bool := c <=? max_cp.
Definition valid_str (s : str) : bool := forallb valid_cp s.

(* ---------- hexadecimal, lower case (Py_hexdigits) ------------------------------------- *)

Definition hexd (d : N) : N := if d <? 10 then 48 + d else 87 + d.

Definition hex2 (c : N) : str := [hexd (c / 16 mod 16); hexd (c mod 16)].
Definition hex4 (c : N) : str :=
  [hexd (c / 4096 mod 16); hexd (c / 256 mod 16); hexd (c / 16 mod 16); hexd (c mod 16)].
Definition hex8 (c : N) : str :=
  [hexd (c / 268435456 mod 16); hexd (c / 16777216 mod 16);
   hexd (c / 1048576 mod 16); hexd (c / 65536 mod 16);
   hexd (c / 4096 mod 16); hexd (c / 256 mod 16); hexd (c / 16 mod 16); hexd (c mod 16)].

(* character names *)
Definition c_bslash : N := 92.
Definition c_squote : N := 39.
Definition c_dquote : N := 34.

Definition has_char (c : N) (s : str) : bool := existsb (N.eqb c) s.

(* unicode_repr: single quotes unless the string contains a single and no double quote *)
Definition repr_quote (s : str) : N :=
  if has_char c_squote s && negb (has_char c_dquote s) then c_dquote else c_squote.

Section Repr.
  (* Py_UNICODE_ISPRINTABLE, consulted only for code points >= 0x80: the ASCII range is
     decided by the model itself (0x20..0x7e printable) *)
  Variable printable : N -> bool.

  Definition repr_char (q c : N) : str :=
    if (c =? q) || (c =? c_bslash) then [c_bslash; c]
    else if c =? 9 then [c_bslash; 116]                      (* \t *)
    else if c =? 10 then [c_bslash; 110]                     (* \n *)
    else if c =? 13 then [c_bslash; 114]                     (* \r *)
    else if (c <? 32) || (c =? 127) then c_bslash :: 120 :: hex2 c     (* \xHH *)
    else if c <? 127 then [c]
    else if printable c then [c]
    else if c <=? 255 then c_bslash :: 120 :: hex2 c         (* \xHH *)
    else if c <=? 65535 then c_bslash :: 117 :: hex4 c       (* \uHHHH *)
    else c_bslash :: 85 :: hex8 c.                           (* \UHHHHHHHH *)

  Fixpoint repr_body (q : N) (s : str) : str :=
    match s with
    | [] => []
    | c :: t => repr_char q c ++ repr_body q t
    end.

  Definition py_repr_str (s : str) : str :=
    let q := repr_quote s in q :: repr_body q s ++ [q].

  Definition s_True : str := [84; 114; 117; 101].
  Definition s_False : str := [70; 97; 108; 115; 101].
  Definition s_None : str := [78; 111; 110; 101].
  Definition s_PosixPath_open : str := [80; 111; 115; 105; 120; 80; 97; 116; 104; 40].   (* PosixPath( *)
  Definition c_rparen : N := 41.

  (* repr(value) *)
  Definition py_repr (v : value) : str :=
    match v with
    | VStr s => py_repr_str s
    | VInt z => decimal_Z z
    | VBool true => s_True
    | VBool false => s_False
    | VNone => s_None
    | VPath p => s_PosixPath_open ++ py_repr_str (pp_str p) ++ [c_rparen]
    end.
End Repr.

(* str(value): does not depend on the printable table *)
Definition py_str (v : value) : str :=
  match v with
  | VStr s => s
  | VInt z => decimal_Z z
  | VBool true => s_True
  | VBool false => s_False
  | VNone => s_None
  | VPath p => pp_str p
  end.

Definition value_eqb (a b : value) : bool :=
  match a, b with
  | VStr x, VStr y => str_eqb x y
  | VInt x, VInt y => Z.eqb x y
  | VBool x, VBool y => Bool.eqb x y
  | VNone, VNone => true
  | VPath x, VPath y => ppath_eqb x y
  | _, _ => false
  end.

(* a printable table given as a list of closed ranges (how the harness supplies CPython's
   str.isprintable) *)
Definition in_ranges (rs : list (N * N)) (c : N) : bool :=
  existsb (fun r => (fst r <=? c) && (c <=? snd r)) rs.
