(* How CPython reads back a literal: the tokenizer's end-of-string rule for a one-line   *)
(* single- or double-quoted literal, the escape decoder (Objects/unicodeobject.c:         *)
(* _PyUnicode_DecodeUnicodeEscapeInternal), decimal int literals, True/False/None and     *)
(* PosixPath('...') through the fixed locals table of tempren/evaluation.py.              *)
(* The decoder knows the escapes repr() emits AND the ones it never emits (\a \b \f \v,   *)
(* octal, upper-case hex digits, unknown escapes), so it is not an inverse by design.     *)
(* Model only - no proofs in this file.                                                   *)
From Tempren Require Import Base.Str Py.PathLib Py.Repr.
Open Scope N_scope.

(* three-valued result: the literal is read, CPython raises, or the construct is outside
   the modelled slice (triple-quoted strings, \N{...}, backslash-newline) *)
Inductive res (A : Type) := Ok (a : A) | Err | Unsup.
Arguments Ok {A} a.
Arguments Err {A}.
Arguments Unsup {A}.

Definition res_map {A B} (f : A -> B) (r : res A) : res B :=
  match r with Ok a => Ok (f a) | Err => Err | Unsup => Unsup end.

Definition res_opt {A} (r : res A) : option A :=
  match r with Ok a => Some a | _ => None end.

Definition is_quote (c : N) : bool := (c =? c_squote) || (c =? c_dquote).

Definition is_surrogate (c : N) : bool := (55296 <=? c) && (c <=? 57343).

(* characters that cannot occur raw inside a one-line string literal of a source text:
   newline, carriage return (translated to newline), NUL (source rejected), lone surrogates
   (source cannot be encoded), anything that is not a code point *)
Definition bad_raw (c : N) : bool :=
  (c =? 10) || (c =? 13) || (c =? 0) || is_surrogate c || negb (valid_cp c).

(* ---------- phase 1: where does the literal end? ------------------------------------- *)
(* tok_get: after the opening quote q, read characters; q ends the literal, a backslash
   takes the next character with it whatever it is, a raw newline / end of input is an
   error.  Returns (body without the quotes, text after the closing quote). *)
Fixpoint lit_end (q : N) (s : str) : res (str * str) :=
  match s with
  | [] => Err
  | c :: t =>
    if c =? q then Ok ([], t)
    else if c =? c_bslash then
      match t with
      | [] => Err
      | d :: t' =>
        if (d =? 10) || (d =? 13) then Unsup            (* line continuation inside a literal *)
        else if bad_raw d then Err
        else res_map (fun br => (c :: d :: fst br, snd br)) (lit_end q t')
      end
    else if bad_raw c then Err
    else res_map (fun br => (c :: fst br, snd br)) (lit_end q t)
  end.

(* ---------- phase 2: escape decoding --------------------------------------------------- *)

Definition hexval (c : N) : option N :=
  if (48 <=? c) && (c <=? 57) then Some (c - 48)
  else if (97 <=? c) && (c <=? 102) then Some (c - 87)
  else if (65 <=? c) && (c <=? 70) then Some (c - 55)
  else None.

Definition octval (c : N) : option N :=
  if (48 <=? c) && (c <=? 55) then Some (c - 48) else None.

Fixpoint hexvals (ds : str) (acc : N) : option N :=
  match ds with
  | [] => Some acc
  | d :: t => match hexval d with Some v => hexvals t (16 * acc + v) | None => None end
  end.

Definition rcons (c : N) (r : res str) : res str := res_map (cons c) r.

(* simple one-letter escapes; None = not one of them *)
Definition simple_escape (d : N) : option N :=
  if d =? c_bslash then Some c_bslash
  else if d =? c_squote then Some c_squote
  else if d =? c_dquote then Some c_dquote
  else if d =? 110 then Some 10       (* \n *)
  else if d =? 114 then Some 13       (* \r *)
  else if d =? 116 then Some 9        (* \t *)
  else if d =? 97 then Some 7         (* \a *)
  else if d =? 98 then Some 8         (* \b *)
  else if d =? 102 then Some 12       (* \f *)
  else if d =? 118 then Some 11       (* \v *)
  else None.

Fixpoint decode (b : str) : res str :=
  match b with
  | [] => Ok []
  | c :: t =>
    if negb (c =? c_bslash) then rcons c (decode t)
    else
      match t with
      | [] => Err
      | d :: t1 =>
        match simple_escape d with
        | Some v => rcons v (decode t1)
        | None =>
          if d =? 120 then                                   (* \xHH *)
            match t1 with
            | h1 :: h2 :: t2 =>
              match hexvals [h1; h2] 0 with
              | Some v => rcons v (decode t2)
              | None => Err
              end
            | _ => Err
            end
          else if d =? 117 then                              (* \uHHHH *)
            match t1 with
            | h1 :: h2 :: h3 :: h4 :: t2 =>
              match hexvals [h1; h2; h3; h4] 0 with
              | Some v => rcons v (decode t2)
              | None => Err
              end
            | _ => Err
            end
          else if d =? 85 then                               (* \UHHHHHHHH *)
            match t1 with
            | h1 :: h2 :: h3 :: h4 :: h5 :: h6 :: h7 :: h8 :: t2 =>
              match hexvals [h1; h2; h3; h4; h5; h6; h7; h8] 0 with
              | Some v => if valid_cp v then rcons v (decode t2) else Err
              | None => Err
              end
            | _ => Err
            end
          else if d =? 78 then Unsup                         (* \N{name} *)
          else
            match octval d with
            | Some o1 =>                                     (* \o \oo \ooo *)
              match t1 with
              | d2 :: t2 =>
                match octval d2 with
                | Some o2 =>
                  match t2 with
                  | d3 :: t3 =>
                    match octval d3 with
                    | Some o3 => rcons (64 * o1 + 8 * o2 + o3) (decode t3)
                    | None => rcons (8 * o1 + o2) (decode t2)
                    end
                  | [] => rcons (8 * o1 + o2) (decode t2)
                  end
                | None => rcons o1 (decode t1)
                end
              | [] => rcons o1 (decode t1)
              end
            | None =>
              (* unknown escape: the backslash stays (SyntaxWarning in 3.12) *)
              rcons c_bslash (rcons d (decode t1))
            end
        end
      end
  end.

(* ---------- string literal at the head of a text -------------------------------------- *)

Definition triple (q : N) (t : str) : bool :=
  match t with
  | a :: b :: _ => (a =? q) && (b =? q)
  | _ => false
  end.

Definition scan_string_literal_r (s : str) : res (str * str) :=
  match s with
  | [] => Err
  | q :: t =>
    if negb (is_quote q) then Err
    else if triple q t then Unsup
    else
      match lit_end q t with
      | Ok (b, r) => res_map (fun v => (v, r)) (decode b)
      | Err => Err
      | Unsup => Unsup
      end
  end.

(* value of the string literal at the head of s, and the text that follows it *)
Definition scan_string_literal (s : str) : option (str * str) :=
  res_opt (scan_string_literal_r s).

(* ---------- int literals: -?[0-9]+ ------------------------------------------------------ *)

Definition all_zero (s : str) : bool := forallb (N.eqb 48) s.

(* decimal integer literal: digits, no leading zero unless the number is 0 *)
Definition nat_literal (s : str) : option Z :=
  match s with
  | [] => None
  | d :: t =>
    if negb (forallb is_digit s) then None
    else if (d =? 48) && negb (all_zero t) then None
    else option_map Z.of_N (N_of_decimal s)
  end.

Definition int_literal (s : str) : option Z :=
  match s with
  | 45 :: t => option_map Z.opp (nat_literal t)
  | _ => nat_literal s
  end.

(* -?[0-9]+ *)
Definition int_shape (s : str) : bool :=
  match s with
  | 45 :: (_ :: _) as t => forallb is_digit t
  | _ :: _ => forallb is_digit s
  | [] => false
  end.

(* ---------- eval of a whole literal ----------------------------------------------------- *)

Fixpoint strip_prefix (p s : str) : option str :=
  match p, s with
  | [], _ => Some s
  | x :: p', y :: s' => if x =? y then strip_prefix p' s' else None
  | _ :: _, [] => None
  end.

Definition eval_literal_r (s : str) : res value :=
  match s with
  | [] => Err
  | c :: _ =>
    if is_quote c then
      match scan_string_literal_r s with
      | Ok (v, []) => Ok (VStr v)
      | Ok (_, _ :: _) => Unsup               (* something follows: not a single literal *)
      | Err => Err
      | Unsup => Unsup
      end
    else if str_eqb s s_True then Ok (VBool true)
    else if str_eqb s s_False then Ok (VBool false)
    else if str_eqb s s_None then Ok VNone
    else
      match strip_prefix s_PosixPath_open s with
      | Some r =>
        match scan_string_literal_r r with
        | Ok (v, [41]) => Ok (VPath (parse_path v))
        | Ok (_, _) => Unsup
        | Err => Err
        | Unsup => Unsup
        end
      | None =>
        match int_literal s with
        | Some z => Ok (VInt z)
        | None => if int_shape s then Err else Unsup      (* leading zeros: SyntaxError *)
        end
      end
  end.

Definition eval_literal (s : str) : option value := res_opt (eval_literal_r s).
