From Tempren Require Import Base.Str Py.PathLib.
Open Scope N_scope.

(* ---------- stem ++ suffix = name ------------------------------------------ *)

Theorem stem_suffix (n : str) : name_stem n ++ name_suffix n = n.
Proof.
  unfold name_stem, name_suffix. destruct (suffix_index n) as [i|].
  - apply firstn_skipn.
  - apply app_nil_r.
Qed.

(* ---------- split / join ----------------------------------------------------- *)

Lemma split_on_nonnil sep s : split_on sep s <> [].
Proof.
  induction s as [|c s IH]; simpl; [discriminate|].
  destruct (c =? sep); [discriminate|]. destruct (split_on sep s); [contradiction|discriminate].
Qed.

Lemma split_on_noslash s : has_slash s = false -> split_on slash s = [s].
Proof.
  induction s as [|c s IH]; simpl; intro H; [reflexivity|].
  apply orb_false_iff in H as [H1 H2]. rewrite H1. rewrite (IH H2). reflexivity.
Qed.

Lemma split_on_app_sep p s :
  has_slash p = false -> split_on slash (p ++ slash :: s) = p :: split_on slash s.
Proof.
  induction p as [|c p IH]; simpl; intro H.
  - reflexivity.
  - apply orb_false_iff in H as [H1 H2]. rewrite H1. rewrite (IH H2). reflexivity.
Qed.

Lemma split_on_join parts :
  parts <> [] -> (forall x, In x parts -> has_slash x = false) ->
  split_on slash (join slash parts) = parts.
Proof.
  induction parts as [|p ps IH]; intros Hne Hall; [contradiction|].
  destruct ps as [|q ps].
  - simpl. apply split_on_noslash. apply Hall; left; reflexivity.
  - change (join slash (p :: q :: ps)) with (p ++ slash :: join slash (q :: ps)).
    rewrite split_on_app_sep by (apply Hall; left; reflexivity).
    f_equal. apply IH; [discriminate|]. intros x Hx. apply Hall; right; exact Hx.
Qed.

Lemma join_snoc parts n :
  parts <> [] -> join slash (parts ++ [n]) = join slash parts ++ slash :: n.
Proof.
  induction parts as [|p ps IH]; intro Hne; [contradiction|].
  destruct ps as [|q ps].
  - reflexivity.
  - change ((p :: q :: ps) ++ [n]) with (p :: ((q :: ps) ++ [n])).
    change (join slash (p :: (q :: ps) ++ [n])) with (p ++ slash :: join slash ((q :: ps) ++ [n])).
    rewrite IH by discriminate.
    change (join slash (p :: q :: ps)) with (p ++ slash :: join slash (q :: ps)).
    rewrite <- app_assoc. reflexivity.
Qed.

Lemma filter_keep_all parts :
  (forall x, In x parts -> keep_part x = true) -> filter keep_part parts = parts.
Proof.
  induction parts as [|p ps IH]; intro H; simpl; [reflexivity|].
  rewrite (H p (or_introl eq_refl)). f_equal. apply IH. intros x Hx; apply H; right; exact Hx.
Qed.

(* ---------- normal relative paths ------------------------------------------- *)

(* what File.relative_path always is: relative, at least one part, every part a real
   component (non-empty, not ".", no separator) — ".." is allowed, pathlib keeps it *)
Definition good_part (x : str) : Prop := keep_part x = true /\ has_slash x = false.

Definition normal_rel (p : ppath) : Prop :=
  pp_root p = 0%nat /\ pp_parts p <> [] /\ forall x, In x (pp_parts p) -> good_part x.

Lemma good_part_head x : good_part x -> exists c r, x = c :: r /\ c <> slash.
Proof.
  intros [Hk Hs]. destruct x as [|c r]; [discriminate|]. exists c, r. split; [reflexivity|].
  simpl in Hs. apply orb_false_iff in Hs as [Hs _]. apply N.eqb_neq in Hs. exact Hs.
Qed.

Lemma splitroot_rel c r : c <> slash -> splitroot (c :: r) = (0%nat, c :: r).
Proof.
  intro H. unfold splitroot.
  destruct c as [|p]; [reflexivity|].
  do 6 (destruct p as [p|p|]; try reflexivity).
  exfalso; apply H; reflexivity.
Qed.

Lemma join_head parts c r ps :
  parts = (c :: r) :: ps -> exists t, join slash parts = c :: t.
Proof.
  intros ->. destruct ps; simpl; eexists; reflexivity.
Qed.

Lemma parse_path_rel s c t :
  s = c :: t -> c <> slash ->
  parse_path s = {| pp_root := 0; pp_parts := filter keep_part (split_on slash s) |}.
Proof.
  intros -> Hc. unfold parse_path. rewrite (splitroot_rel c t Hc). reflexivity.
Qed.

Theorem parse_str_roundtrip p : normal_rel p -> parse_path (pp_str p) = p.
Proof.
  destruct p as [root parts]. intros [Hr [Hne Hall]]. simpl in *. subst root.
  destruct parts as [|x xs]; [contradiction|].
  destruct (good_part_head x (Hall x (or_introl eq_refl))) as [c [r [-> Hc]]].
  destruct (join_head ((c :: r) :: xs) c r xs eq_refl) as [t Et].
  unfold pp_str. cbn [pp_root pp_parts root_str app].
  rewrite (parse_path_rel _ c t Et Hc).
  rewrite split_on_join; [|discriminate|intros y Hy; apply (Hall y Hy)].
  rewrite filter_keep_all; [reflexivity|]. intros y Hy; apply (Hall y Hy).
Qed.

Lemma removelast_last_app {A} (l : list A) d : l <> [] -> removelast l ++ [last l d] = l.
Proof. intro H. symmetry. apply app_removelast_last. exact H. Qed.

Lemma pp_str_rel parts :
  parts <> [] -> pp_str {| pp_root := 0; pp_parts := parts |} = join slash parts.
Proof. intro H. unfold pp_str. destruct parts; [contradiction|reflexivity]. Qed.

(* %Dir()/%Name() names the file's own relative path *)
Theorem dir_slash_name p :
  normal_rel p -> parse_path (pp_str (pp_parent p) ++ slash :: pp_name p) = p.
Proof.
  intros Hn. pose proof Hn as [Hr [Hne Hall]].
  destruct p as [root parts]. cbn [pp_root pp_parts] in *. subst root.
  unfold pp_parent, pp_name. cbn [pp_root pp_parts].
  pose proof (removelast_last_app parts [] Hne) as Hsplit.
  assert (Hn_good : good_part (last parts [])).
  { apply Hall. rewrite <- Hsplit at 2. apply in_or_app; right; left; reflexivity. }
  destruct (removelast parts) as [|y ys] eqn:Einit.
  - (* top level: "./name" *)
    destruct Hn_good as [Hk Hs].
    unfold pp_str. cbn [pp_root pp_parts].
    rewrite (parse_path_rel ([dot] ++ slash :: last parts []) dot (slash :: last parts []) eq_refl) by discriminate.
    rewrite (split_on_app_sep [dot] (last parts []) eq_refl).
    rewrite (split_on_noslash _ Hs). cbn [filter]. change (keep_part [dot]) with false.
    cbn iota. rewrite Hk. rewrite <- Hsplit at 2. reflexivity.
  - pose proof (parse_str_roundtrip _ Hn) as RT.
    rewrite pp_str_rel in RT by exact Hne.
    rewrite pp_str_rel by discriminate.
    rewrite <- join_snoc by discriminate.
    rewrite Hsplit. exact RT.
Qed.

(* with_name(own name) is the identity on normal paths *)
Theorem with_own_name p : normal_rel p -> pp_with_name p (pp_name p) = Some p.
Proof.
  intros [Hr [Hne Hall]]. destruct p as [root parts]; simpl in *.
  unfold pp_with_name, pp_name; simpl.
  destruct parts as [|x xs] eqn:E; [contradiction|]. rewrite <- E in *.
  assert (Hg : good_part (last parts [])).
  { apply Hall. rewrite <- (removelast_last_app parts [] Hne) at 2.
    apply in_or_app; right; left; reflexivity. }
  destruct Hg as [Hk Hs].
  destruct (last parts []) as [|c r] eqn:El; [discriminate|].
  destruct r as [|c2 r2].
  - destruct (c =? 46) eqn:Ec.
    + apply N.eqb_eq in Ec; subst; discriminate.
    + assert (Hm : (match c with 46 => true | _ => has_slash [c] end) = false).
      { rewrite Hs. destruct c as [|q]; [reflexivity|].
        do 6 (destruct q as [q|q|]; try reflexivity). discriminate. }
      replace (match [c] with [] => true | [46] => true | _ => has_slash [c] end)
        with (match c with 46 => true | _ => has_slash [c] end)
        by (destruct c as [|q]; [reflexivity|]; do 6 (destruct q as [q|q|]; try reflexivity)).
      rewrite Hm. rewrite <- El. rewrite removelast_last_app by exact Hne. reflexivity.
  - replace (match c :: c2 :: r2 with [] => true | [46] => true | _ => has_slash (c :: c2 :: r2) end)
      with (has_slash (c :: c2 :: r2))
      by (destruct c as [|q]; [reflexivity|]; do 6 (destruct q as [q|q|]; try reflexivity)).
    rewrite Hs. rewrite <- El. rewrite removelast_last_app by exact Hne. reflexivity.
Qed.

(* with_name refuses exactly: no name to replace, empty, ".", or containing a separator *)
Theorem with_name_refuses p n :
  pp_with_name p n = None <->
  pp_parts p = [] \/ n = [] \/ n = [dot] \/ has_slash n = true.
Proof.
  unfold pp_with_name. destruct (pp_parts p) as [|x xs].
  - split; [left; reflexivity | reflexivity].
  - destruct n as [|c r].
    + split; [right; left; reflexivity | reflexivity].
    + destruct r as [|c2 r2].
      * destruct (c =? 46) eqn:Ec.
        -- apply N.eqb_eq in Ec; subst c. split; [right; right; left; reflexivity | reflexivity].
        -- assert (E : (match [c] with [] => true | [46] => true | _ => has_slash [c] end) = has_slash [c]).
           { destruct c as [|q]; [reflexivity|]. do 6 (destruct q as [q|q|]; try reflexivity).
             discriminate. }
           rewrite E. destruct (has_slash [c]) eqn:Hs.
           ++ split; [right; right; right; reflexivity | reflexivity].
           ++ split; [discriminate|].
              intros [H|[H|[H|H]]]; try discriminate.
              inversion H; subst. discriminate.
      * assert (E : (match c :: c2 :: r2 with [] => true | [46] => true | _ => has_slash (c :: c2 :: r2) end)
                    = has_slash (c :: c2 :: r2)).
        { destruct c as [|q]; [reflexivity|]. do 6 (destruct q as [q|q|]; try reflexivity). }
        rewrite E. destruct (has_slash (c :: c2 :: r2)) eqn:Hs.
        -- split; [right; right; right; reflexivity | reflexivity].
        -- split; [discriminate|]. intros [H|[H|[H|H]]]; discriminate.
Qed.

(* a successful with_name only replaces the last part: the parent never changes *)
Theorem with_name_same_parent p n q :
  pp_with_name p n = Some q -> pp_parent q = pp_parent p /\ pp_name q = n.
Proof.
  unfold pp_with_name. destruct (pp_parts p) as [|x xs] eqn:E; [discriminate|].
  destruct (match n with [] => true | [46] => true | _ => has_slash n end); [discriminate|].
  intro H; inversion H; subst; clear H. unfold pp_parent, pp_name; simpl.
  rewrite E. rewrite removelast_app by discriminate. simpl. rewrite app_nil_r.
  rewrite last_last. split; reflexivity.
Qed.

Lemma ppath_eqb_spec a b : ppath_eqb a b = true <-> a = b.
Proof.
  destruct a as [ra pa], b as [rb pb]; unfold ppath_eqb; simpl. split; intro H.
  - apply andb_true_iff in H as [H1 H2]. apply Nat.eqb_eq in H1.
    apply (list_eqb_spec str_eqb str_eqb_spec) in H2. congruence.
  - inversion H; subst. apply andb_true_iff; split; [apply Nat.eqb_refl|].
    apply (list_eqb_spec str_eqb str_eqb_spec). reflexivity.
Qed.

(* ---------- the tags ---------------------------------------------------------- *)

Theorem base_ext_is_name rel ctx : tag_base rel ctx ++ tag_ext rel ctx = tag_name rel ctx.
Proof. unfold tag_base, tag_ext, tag_name, pp_stem, pp_suffix. apply stem_suffix. Qed.

Theorem dir_name_is_path rel :
  normal_rel rel -> parse_path (tag_dir rel None ++ slash :: tag_name rel None) = rel.
Proof. intro H. unfold tag_dir, tag_name, tag_subject. apply dir_slash_name. exact H. Qed.
