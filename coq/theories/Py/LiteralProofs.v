(* Proofs about Py/Repr.v and Py/Literal.v: what repr writes, the literal reader reads back. *)
From Coq Require Import ZArith List Bool Lia ZifyBool ZifyN.
From Coq Require Import DecimalN DecimalPos DecimalFacts.
From Tempren Require Import Base.Str Py.PathLib Py.PathLibProofs Py.Repr Py.Literal.
Ltac Zify.zify_post_hook ::= Z.to_euclidean_division_equations.
Open Scope N_scope.

(* ---------- hexadecimal digits: N -> 2/4/8 digits -> N -------------------------------- *)

Lemma hexval_hexd d : d < 16 -> hexval (hexd d) = Some d.
Proof.
  intro H. unfold hexval, hexd.
  destruct (d <? 10) eqn:E.
  - apply N.ltb_lt in E.
    replace ((48 <=? 48 + d) && (48 + d <=? 57)) with true
      by (symmetry; apply andb_true_iff; split; apply N.leb_le; lia).
    f_equal. lia.
  - apply N.ltb_ge in E.
    replace ((48 <=? 87 + d) && (87 + d <=? 57)) with false
      by (symmetry; apply andb_false_iff; right; apply N.leb_gt; lia).
    replace ((97 <=? 87 + d) && (87 + d <=? 102)) with true
      by (symmetry; apply andb_true_iff; split; apply N.leb_le; lia).
    f_equal. lia.
Qed.

Lemma mod16_lt c : c mod 16 < 16.
Proof. apply N.mod_lt. discriminate. Qed.

Ltac dstep x q d :=
  pose proof (N.div_mod x 16 ltac:(discriminate));
  pose proof (N.mod_lt x 16 ltac:(discriminate));
  set (q := x / 16) in *; set (d := x mod 16) in *; clearbody q d.

Ltac chain_div c :=
  repeat match goal with
  | |- context [c / 268435456] =>
    replace (c / 268435456) with (c / 16 / 16 / 16 / 16 / 16 / 16 / 16)
      by (rewrite !N.div_div by discriminate; reflexivity)
  | |- context [c / 16777216] =>
    replace (c / 16777216) with (c / 16 / 16 / 16 / 16 / 16 / 16)
      by (rewrite !N.div_div by discriminate; reflexivity)
  | |- context [c / 1048576] =>
    replace (c / 1048576) with (c / 16 / 16 / 16 / 16 / 16)
      by (rewrite !N.div_div by discriminate; reflexivity)
  | |- context [c / 65536] =>
    replace (c / 65536) with (c / 16 / 16 / 16 / 16)
      by (rewrite !N.div_div by discriminate; reflexivity)
  | |- context [c / 4096] =>
    replace (c / 4096) with (c / 16 / 16 / 16)
      by (rewrite !N.div_div by discriminate; reflexivity)
  | |- context [c / 256] =>
    replace (c / 256) with (c / 16 / 16)
      by (rewrite !N.div_div by discriminate; reflexivity)
  end.

Lemma hexvals_hex2 c : c < 256 -> hexvals (hex2 c) 0 = Some c.
Proof.
  intro H. unfold hex2, hexvals.
  rewrite !hexval_hexd by apply mod16_lt. f_equal.
  dstep c q1 e0. dstep q1 q2 e1. lia.
Qed.

Lemma hexvals_hex4 c : c < 65536 -> hexvals (hex4 c) 0 = Some c.
Proof.
  intro H. unfold hex4, hexvals.
  rewrite !hexval_hexd by apply mod16_lt. f_equal.
  chain_div c.
  dstep c q1 e0. dstep q1 q2 e1. dstep q2 q3 e2. dstep q3 q4 e3.
  lia.
Qed.

Lemma hexvals_hex8 c : c < 4294967296 -> hexvals (hex8 c) 0 = Some c.
Proof.
  intro H. unfold hex8, hexvals.
  rewrite !hexval_hexd by apply mod16_lt. f_equal.
  chain_div c.
  dstep c q1 e0. dstep q1 q2 e1. dstep q2 q3 e2. dstep q3 q4 e3.
  dstep q4 q5 e4. dstep q5 q6 e5. dstep q6 q7 e6. dstep q7 q8 e7.
  lia.
Qed.

(* a hexadecimal digit is an ordinary character for the scanner *)
Definition plain_char (q c : N) : Prop :=
  (c =? q) = false /\ (c =? c_bslash) = false /\ bad_raw c = false.

Lemma hexd_range d : d < 16 -> 48 <= hexd d <= 57 \/ 97 <= hexd d <= 102.
Proof. intro H. unfold hexd. destruct (d <? 10) eqn:E; cbv iota; [apply N.ltb_lt in E | apply N.ltb_ge in E]; lia. Qed.

Lemma range_plain q c : is_quote q = true -> 48 <= c <= 126 -> c <> 92 -> plain_char q c.
Proof.
  intros Hq Hc H92. unfold plain_char, bad_raw, is_surrogate, valid_cp, max_cp, c_bslash.
  unfold is_quote, c_squote, c_dquote in Hq. lia.
Qed.

Lemma hexd_plain q d : is_quote q = true -> plain_char q (hexd (d mod 16)).
Proof.
  intro Hq. pose proof (hexd_range (d mod 16) (mod16_lt d)). apply range_plain; auto; lia.
Qed.

(* ---------- unfolding lemmas for the scanner and the decoder ---------------------------- *)

Lemma lit_end_cons q c t :
  lit_end q (c :: t) =
  if c =? q then Ok ([], t)
  else if c =? c_bslash then
    match t with
    | [] => Err
    | d :: t' =>
      if (d =? 10) || (d =? 13) then Unsup
      else if bad_raw d then Err
      else res_map (fun br => (c :: d :: fst br, snd br)) (lit_end q t')
    end
  else if bad_raw c then Err
  else res_map (fun br => (c :: fst br, snd br)) (lit_end q t).
Proof. reflexivity. Qed.

Lemma lit_end_plain q c t : plain_char q c ->
  lit_end q (c :: t) = res_map (fun br => (c :: fst br, snd br)) (lit_end q t).
Proof. intros (H1 & H2 & H3). rewrite lit_end_cons, H1, H2, H3. reflexivity. Qed.

Lemma lit_end_bslash q d t : is_quote q = true -> (d =? 10) || (d =? 13) = false -> bad_raw d = false ->
  lit_end q (c_bslash :: d :: t) =
  res_map (fun br => (c_bslash :: d :: fst br, snd br)) (lit_end q t).
Proof.
  intros Hq H1 H2. rewrite lit_end_cons.
  replace (c_bslash =? q) with false
    by (unfold is_quote, c_squote, c_dquote, c_bslash in *; lia).
  rewrite N.eqb_refl, H1, H2. reflexivity.
Qed.

Lemma res_map_map {A B C} (f : A -> B) (g : B -> C) r :
  res_map g (res_map f r) = res_map (fun x => g (f x)) r.
Proof. destruct r; reflexivity. Qed.

Lemma res_map_ext {A B} (f g : A -> B) r : (forall x, f x = g x) -> res_map f r = res_map g r.
Proof. intro H. destruct r; simpl; try rewrite H; reflexivity. Qed.

Lemma decode_plain c t : (c =? c_bslash) = false -> decode (c :: t) = rcons c (decode t).
Proof.
  intro H.
  destruct t; cbn [decode]; rewrite H; reflexivity.
Qed.

Lemma decode_simple d v t : simple_escape d = Some v ->
  decode (c_bslash :: d :: t) = rcons v (decode t).
Proof. intro H. cbn [decode]. rewrite N.eqb_refl. cbn [negb]. rewrite H. reflexivity. Qed.

Lemma decode_x h1 h2 t :
  decode (c_bslash :: 120 :: h1 :: h2 :: t) =
  match hexvals [h1; h2] 0 with Some v => rcons v (decode t) | None => Err end.
Proof. reflexivity. Qed.

Lemma decode_u h1 h2 h3 h4 t :
  decode (c_bslash :: 117 :: h1 :: h2 :: h3 :: h4 :: t) =
  match hexvals [h1; h2; h3; h4] 0 with Some v => rcons v (decode t) | None => Err end.
Proof. reflexivity. Qed.

Lemma decode_U h1 h2 h3 h4 h5 h6 h7 h8 t :
  decode (c_bslash :: 85 :: h1 :: h2 :: h3 :: h4 :: h5 :: h6 :: h7 :: h8 :: t) =
  match hexvals [h1; h2; h3; h4; h5; h6; h7; h8] 0 with
  | Some v => if valid_cp v then rcons v (decode t) else Err
  | None => Err
  end.
Proof. reflexivity. Qed.

(* ---------- one character ---------------------------------------------------------------- *)

Lemma quote_cases q : is_quote q = true -> q = 39 \/ q = 34.
Proof. unfold is_quote, c_squote, c_dquote. lia. Qed.

Section RoundTrip.
  Variable printable : N -> bool.
  (* CPython: no surrogate code point is printable (validated exhaustively by the harness) *)
  Hypothesis printable_not_surrogate : forall c, is_surrogate c = true -> printable c = false.

  (* what repr_char writes is one of five shapes *)
  Inductive char_shape (q c : N) : str -> Prop :=
  | sh_plain : plain_char q c -> char_shape q c [c]
  | sh_simple d : simple_escape d = Some c -> (d =? 10) || (d =? 13) = false -> bad_raw d = false ->
      char_shape q c [c_bslash; d]
  | sh_x : c < 256 -> char_shape q c (c_bslash :: 120 :: hex2 c)
  | sh_u : c < 65536 -> char_shape q c (c_bslash :: 117 :: hex4 c)
  | sh_U : c <= max_cp -> char_shape q c (c_bslash :: 85 :: hex8 c).

  Lemma repr_char_shape q c : is_quote q = true -> valid_cp c = true ->
    char_shape q c (repr_char printable q c).
  Proof.
    intros Hq Hv. unfold valid_cp, max_cp in Hv. apply N.leb_le in Hv.
    unfold repr_char.
    destruct ((c =? q) || (c =? c_bslash)) eqn:E1.
    { destruct (quote_cases q Hq) as [-> | ->];
      assert (Hc : c = 39 \/ c = 34 \/ c = 92) by (unfold c_bslash in E1; lia);
      destruct Hc as [-> | [-> | ->]]; try (unfold c_bslash in E1; discriminate E1);
      apply sh_simple; reflexivity. }
    destruct (c =? 9) eqn:E2. { apply N.eqb_eq in E2; subst. apply (sh_simple q 9 116); reflexivity. }
    destruct (c =? 10) eqn:E3. { apply N.eqb_eq in E3; subst. apply (sh_simple q 10 110); reflexivity. }
    destruct (c =? 13) eqn:E4. { apply N.eqb_eq in E4; subst. apply (sh_simple q 13 114); reflexivity. }
    destruct ((c <? 32) || (c =? 127)) eqn:E5. { apply sh_x. lia. }
    destruct (c <? 127) eqn:E6.
    { apply sh_plain. unfold plain_char, bad_raw, is_surrogate, valid_cp, max_cp.
      unfold c_bslash in *. lia. }
    destruct (printable c) eqn:E7.
    { apply sh_plain. unfold plain_char, bad_raw, valid_cp, max_cp.
      destruct (is_surrogate c) eqn:Es.
      - rewrite (printable_not_surrogate c Es) in E7. discriminate.
      - destruct (quote_cases q Hq) as [-> | ->]; unfold c_bslash in *; lia. }
    destruct (c <=? 255) eqn:E8. { apply sh_x. lia. }
    destruct (c <=? 65535) eqn:E9. { apply sh_u. lia. }
    apply sh_U. unfold max_cp. lia.
  Qed.

  Lemma hex_plain_x q c t : is_quote q = true ->
    lit_end q (hex2 c ++ t) = res_map (fun br => (hex2 c ++ fst br, snd br)) (lit_end q t).
  Proof.
    intro Hq. unfold hex2. cbn [app].
    rewrite !lit_end_plain by (apply hexd_plain; exact Hq).
    rewrite !res_map_map. apply res_map_ext. reflexivity.
  Qed.

  Lemma hex_plain_u q c t : is_quote q = true ->
    lit_end q (hex4 c ++ t) = res_map (fun br => (hex4 c ++ fst br, snd br)) (lit_end q t).
  Proof.
    intro Hq. unfold hex4. cbn [app].
    rewrite !lit_end_plain by (apply hexd_plain; exact Hq).
    rewrite !res_map_map. apply res_map_ext. reflexivity.
  Qed.

  Lemma hex_plain_U q c t : is_quote q = true ->
    lit_end q (hex8 c ++ t) = res_map (fun br => (hex8 c ++ fst br, snd br)) (lit_end q t).
  Proof.
    intro Hq. unfold hex8. cbn [app].
    rewrite !lit_end_plain by (apply hexd_plain; exact Hq).
    rewrite !res_map_map. apply res_map_ext. reflexivity.
  Qed.

  (* the scanner passes over what repr wrote for one character *)
  Lemma lit_end_shape q c w t : is_quote q = true -> char_shape q c w ->
    lit_end q (w ++ t) = res_map (fun br => (w ++ fst br, snd br)) (lit_end q t).
  Proof.
    intros Hq Hs. destruct Hs.
    - cbn [app]. apply lit_end_plain. assumption.
    - cbn [app]. apply lit_end_bslash; assumption.
    - cbn [app]. rewrite lit_end_bslash by (auto; reflexivity).
      rewrite hex_plain_x by exact Hq. rewrite res_map_map. apply res_map_ext. reflexivity.
    - cbn [app]. rewrite lit_end_bslash by (auto; reflexivity).
      rewrite hex_plain_u by exact Hq. rewrite res_map_map. apply res_map_ext. reflexivity.
    - cbn [app]. rewrite lit_end_bslash by (auto; reflexivity).
      rewrite hex_plain_U by exact Hq. rewrite res_map_map. apply res_map_ext. reflexivity.
  Qed.

  (* the decoder reads it back as that character *)
  Lemma decode_shape q c w t : char_shape q c w -> decode (w ++ t) = rcons c (decode t).
  Proof.
    intro Hs. destruct Hs as [Hp | d Hd _ _ | Hc | Hc | Hc].
    - cbn [app]. apply decode_plain. apply Hp.
    - cbn [app]. apply decode_simple. exact Hd.
    - unfold hex2 in *. cbn [app]. rewrite decode_x.
      change [hexd (c / 16 mod 16); hexd (c mod 16)] with (hex2 c).
      rewrite hexvals_hex2 by exact Hc. reflexivity.
    - unfold hex4. cbn [app]. rewrite decode_u.
      change [hexd (c / 4096 mod 16); hexd (c / 256 mod 16); hexd (c / 16 mod 16); hexd (c mod 16)] with (hex4 c).
      rewrite hexvals_hex4 by exact Hc. reflexivity.
    - unfold hex8. cbn [app]. rewrite decode_U.
      match goal with |- context [hexvals ?l 0] => change l with (hex8 c) end.
      rewrite hexvals_hex8 by (unfold max_cp in Hc; lia).
      unfold valid_cp. replace (c <=? max_cp) with true by (symmetry; apply N.leb_le; exact Hc).
      reflexivity.
  Qed.

  (* ---------- a whole body ---------------------------------------------------------------- *)

  Lemma valid_str_cons c s : valid_str (c :: s) = true -> valid_cp c = true /\ valid_str s = true.
  Proof. unfold valid_str. cbn [forallb]. intro H. apply andb_true_iff in H. exact H. Qed.

  Lemma lit_end_body q s rest : is_quote q = true -> valid_str s = true ->
    lit_end q (repr_body printable q s ++ q :: rest) = Ok (repr_body printable q s, rest).
  Proof.
    intros Hq. induction s as [|c s IH]; intro Hv.
    - cbn [repr_body app]. rewrite lit_end_cons, N.eqb_refl. reflexivity.
    - apply valid_str_cons in Hv as [Hc Hs].
      cbn [repr_body]. rewrite <- app_assoc.
      rewrite (lit_end_shape q c _ _ Hq (repr_char_shape q c Hq Hc)).
      rewrite (IH Hs). reflexivity.
  Qed.

  Lemma decode_body q s : is_quote q = true -> valid_str s = true ->
    decode (repr_body printable q s) = Ok s.
  Proof.
    intros Hq. induction s as [|c s IH]; intro Hv.
    - reflexivity.
    - apply valid_str_cons in Hv as [Hc Hs].
      cbn [repr_body].
      rewrite (decode_shape q c _ _ (repr_char_shape q c Hq Hc)).
      rewrite (IH Hs). reflexivity.
  Qed.

  Lemma repr_quote_is_quote s : is_quote (repr_quote s) = true.
  Proof. unfold repr_quote. destruct (has_char c_squote s && negb (has_char c_dquote s)); reflexivity. Qed.

  (* what repr writes for a character never starts with the quote *)
  Lemma shape_head q c w : char_shape q c w -> is_quote q = true ->
    exists a r, w = a :: r /\ (a =? q) = false.
  Proof.
    intros Hs Hq. assert (Hb : (c_bslash =? q) = false)
      by (unfold is_quote, c_squote, c_dquote, c_bslash in *; lia).
    destruct Hs as [Hp | d _ _ _ | _ | _ | _]; try (eexists; eexists; split; [reflexivity | exact Hb]).
    exists c, []. split; [reflexivity | apply Hp].
  Qed.

  Lemma triple_body q s rest : is_quote q = true -> valid_str s = true ->
    (s <> [] \/ hd_error rest <> Some q) ->
    triple q (repr_body printable q s ++ q :: rest) = false.
  Proof.
    intros Hq Hv Hsep. destruct s as [|c s].
    - cbn [repr_body app]. unfold triple. destruct rest as [|b rest']; [reflexivity|].
      destruct Hsep as [H | H]; [contradiction|].
      rewrite N.eqb_refl. cbn [andb].
      destruct (b =? q) eqn:E; [|reflexivity].
      apply N.eqb_eq in E; subst. exfalso; apply H; reflexivity.
    - apply valid_str_cons in Hv as [Hc Hs].
      cbn [repr_body].
      destruct (shape_head q c _ (repr_char_shape q c Hq Hc) Hq) as (a & r & -> & Ha).
      cbn [app]. unfold triple.
      match goal with |- match ?l with _ => _ end = _ => destruct l end; [reflexivity|].
      rewrite Ha. reflexivity.
  Qed.

  (* ---------- the string theorems ---------------------------------------------------------- *)

  Theorem str_self_delimiting s rest : valid_str s = true ->
    (s <> [] \/ hd_error rest <> Some c_squote) ->
    scan_string_literal (py_repr_str printable s ++ rest) = Some (s, rest).
  Proof.
    intros Hv Hsep.
    pose proof (repr_quote_is_quote s) as Hq.
    unfold scan_string_literal, scan_string_literal_r, py_repr_str.
    cbn [app]. rewrite Hq. cbn [negb].
    rewrite <- app_assoc. cbn [app].
    rewrite triple_body; auto.
    - rewrite lit_end_body by auto. rewrite decode_body by auto. reflexivity.
    - destruct s; [right | left; discriminate]. exact (match Hsep with or_introl H => False_ind _ (H eq_refl) | or_intror H => H end).
  Qed.

  Theorem str_roundtrip s : valid_str s = true ->
    eval_literal (py_repr_str printable s) = Some (VStr s).
  Proof.
    intro Hv.
    assert (H := str_self_delimiting s [] Hv).
    rewrite app_nil_r in H.
    assert (H' : scan_string_literal (py_repr_str printable s) = Some (s, []))
      by (apply H; right; discriminate).
    unfold eval_literal, eval_literal_r.
    unfold scan_string_literal in H'.
    unfold py_repr_str in *. rewrite (repr_quote_is_quote s).
    destruct (scan_string_literal_r (repr_quote s :: repr_body printable (repr_quote s) s ++ [repr_quote s]))
      as [[v r]| |]; try discriminate.
    cbn [res_opt] in H'. inversion H'; subst. reflexivity.
  Qed.
End RoundTrip.

(* ---------- decimal int literals ------------------------------------------------------- *)

Lemma to_uint_normal n : Decimal.unorm (N.to_uint n) = N.to_uint n.
Proof.
  rewrite <- (DecimalN.Unsigned.to_of (N.to_uint n)).
  rewrite DecimalN.Unsigned.of_to. reflexivity.
Qed.

Lemma unorm_D0_nil d d' : Decimal.unorm d = Decimal.D0 d' -> d' = Decimal.Nil.
Proof.
  unfold Decimal.unorm. destruct (Decimal.nzhead d) eqn:E; intro H; try discriminate.
  - inversion H; reflexivity.
  - exfalso. apply (nzhead_nonzero d d'). rewrite E. exact H.
Qed.

Lemma to_uint_D0 n d' : N.to_uint n = Decimal.D0 d' -> d' = Decimal.Nil.
Proof. intro H. apply (unorm_D0_nil (N.to_uint n)). rewrite to_uint_normal. exact H. Qed.

Lemma uint_to_str_head48 d c r : uint_to_str d = c :: r -> c = 48 ->
  exists d', d = Decimal.D0 d' /\ r = uint_to_str d'.
Proof.
  destruct d; simpl; intros H Hc; inversion H; subst; try discriminate.
  eexists; split; reflexivity.
Qed.

Lemma nat_literal_decimal n : nat_literal (decimal_N n) = Some (Z.of_N n).
Proof.
  unfold nat_literal.
  pose proof (decimal_N_nonempty n) as Hne.
  pose proof (N_of_decimal_print n) as Hp.
  pose proof (uint_to_str_digits (N.to_uint n)) as Hd. fold (decimal_N n) in Hd.
  destruct (decimal_N n) as [|d t] eqn:E; [contradiction|].
  rewrite Hd. cbn [negb].
  destruct (d =? 48) eqn:E48.
  - apply N.eqb_eq in E48. unfold decimal_N in E.
    destruct (uint_to_str_head48 _ _ _ E E48) as (d' & Hd' & Ht).
    apply to_uint_D0 in Hd'. subst d'. simpl in Ht. subst t.
    change (all_zero []) with true. cbn [negb andb].
    rewrite Hp. reflexivity.
  - cbn [andb]. rewrite Hp. reflexivity.
Qed.

Lemma decimal_N_digits n : forallb is_digit (decimal_N n) = true.
Proof. apply uint_to_str_digits. Qed.

Lemma int_literal_decimal z : int_literal (decimal_Z z) = Some z.
Proof.
  destruct z as [|p|p]; unfold decimal_Z.
  - reflexivity.
  - unfold int_literal.
    pose proof (nat_literal_decimal (Z.to_N (Z.pos p))) as H.
    destruct (decimal_N (Z.to_N (Z.pos p))) as [|c r] eqn:E.
    + exfalso; eapply decimal_N_nonempty; eauto.
    + pose proof (decimal_N_head_digit _ _ _ E) as Hc.
      assert (c <> 45) by (unfold is_digit in Hc; lia).
      replace (match c with 45 => option_map Z.opp (nat_literal r) | _ => nat_literal (c :: r) end)
        with (nat_literal (c :: r)).
      * rewrite H. reflexivity.
      * destruct c as [|cp]; [reflexivity|].
        do 6 (destruct cp as [cp|cp|]; try reflexivity). exfalso; apply H0; reflexivity.
  - unfold int_literal. rewrite nat_literal_decimal. reflexivity.
Qed.

(* the first character of str(int) is a digit or the minus sign *)
Lemma decimal_Z_head z : exists c r, decimal_Z z = c :: r /\ (is_digit c = true \/ c = 45).
Proof.
  destruct z as [|p|p]; unfold decimal_Z.
  - exists 48, []. split; [reflexivity | left; reflexivity].
  - destruct (decimal_N (Z.to_N (Z.pos p))) as [|c r] eqn:E.
    + exfalso; eapply decimal_N_nonempty; eauto.
    + exists c, r. split; [reflexivity | left; eapply decimal_N_head_digit; eauto].
  - eexists; eexists; split; [reflexivity | right; reflexivity].
Qed.

Lemma strip_prefix_app p r : strip_prefix p (p ++ r) = Some r.
Proof. induction p as [|x p IH]; [reflexivity|]. cbn [app strip_prefix]. rewrite N.eqb_refl. exact IH. Qed.

Lemma strip_prefix_head_neq x p c r : (x =? c) = false -> strip_prefix (x :: p) (c :: r) = None.
Proof. intro H. cbn [strip_prefix]. rewrite H. reflexivity. Qed.

(* a text starting with a digit or '-' is read as an int literal or not at all *)
Lemma eval_literal_r_intlike c r : (is_digit c = true \/ c = 45) ->
  eval_literal_r (c :: r) =
  match int_literal (c :: r) with
  | Some z => Ok (VInt z)
  | None => if int_shape (c :: r) then Err else Unsup
  end.
Proof.
  intro Hc. unfold eval_literal_r.
  replace (is_quote c) with false by (unfold is_quote, c_squote, c_dquote, is_digit in *; lia).
  unfold str_eqb, s_True, s_False, s_None. cbn [list_eqb].
  replace (c =? 84) with false by (unfold is_digit in *; lia).
  replace (c =? 70) with false by (unfold is_digit in *; lia).
  replace (c =? 78) with false by (unfold is_digit in *; lia).
  cbn [andb]. unfold s_PosixPath_open.
  rewrite strip_prefix_head_neq by (unfold is_digit in *; lia).
  reflexivity.
Qed.

Theorem int_roundtrip z : eval_literal (decimal_Z z) = Some (VInt z).
Proof.
  destruct (decimal_Z_head z) as (c & r & E & Hc).
  unfold eval_literal. rewrite E, (eval_literal_r_intlike c r Hc), <- E, int_literal_decimal.
  reflexivity.
Qed.

Theorem bool_none_roundtrip printable :
  eval_literal (py_repr printable (VBool true)) = Some (VBool true) /\
  eval_literal (py_repr printable (VBool false)) = Some (VBool false) /\
  eval_literal (py_repr printable VNone) = Some VNone.
Proof. repeat split; reflexivity. Qed.

(* ---------- PosixPath('...') ------------------------------------------------------------- *)

Section PathRT.
  Variable printable : N -> bool.
  Hypothesis printable_not_surrogate : forall c, is_surrogate c = true -> printable c = false.

  Lemma eval_literal_r_pathlike r :
    eval_literal_r (s_PosixPath_open ++ r) =
    match scan_string_literal_r r with
    | Ok (v, [41]) => Ok (VPath (parse_path v))
    | Ok (_, _) => Unsup
    | Err => Err
    | Unsup => Unsup
    end.
  Proof. reflexivity. Qed.

  Theorem path_roundtrip p : valid_str (pp_str p) = true -> parse_path (pp_str p) = p ->
    eval_literal (py_repr printable (VPath p)) = Some (VPath p).
  Proof.
    intros Hv Hp. unfold eval_literal, py_repr.
    rewrite eval_literal_r_pathlike.
    pose proof (str_self_delimiting printable printable_not_surrogate (pp_str p) [c_rparen] Hv) as H.
    unfold scan_string_literal in H.
    assert (H' : res_opt (scan_string_literal_r (py_repr_str printable (pp_str p) ++ [c_rparen])) =
                 Some (pp_str p, [c_rparen])) by (apply H; right; discriminate).
    destruct (scan_string_literal_r (py_repr_str printable (pp_str p) ++ [c_rparen])) as [[v r]| |];
      cbn [res_opt] in H'; try discriminate.
    inversion H'; subst. unfold c_rparen. rewrite Hp. reflexivity.
  Qed.

  Theorem path_roundtrip_normal p : normal_rel p -> valid_str (pp_str p) = true ->
    eval_literal (py_repr printable (VPath p)) = Some (VPath p).
  Proof. intros Hn Hv. apply path_roundtrip; [exact Hv | apply parse_str_roundtrip; exact Hn]. Qed.

  (* the values Python can hand over: strings of code points; paths in pathlib's normal form
     (str() of the path parses back to it) *)
  Definition py_value (v : value) : Prop :=
    match v with
    | VStr s => valid_str s = true
    | VPath p => valid_str (pp_str p) = true /\ parse_path (pp_str p) = p
    | _ => True
    end.

  Theorem value_roundtrip v : py_value v -> eval_literal (py_repr printable v) = Some v.
  Proof.
    destruct v as [s|z|b| |p]; cbn [py_value].
    - intro H. apply (str_roundtrip printable printable_not_surrogate s H).
    - intros _. apply int_roundtrip.
    - intros _. destruct b; reflexivity.
    - intros _. reflexivity.
    - intros [Hv Hp]. apply path_roundtrip; assumption.
  Qed.
End PathRT.
