(* Proofs about Py/Utf8.v: decode inverts encode on strings of Unicode scalar values. *)
From Coq Require Import ZArith List Bool Lia ZifyBool ZifyN.
From Tempren Require Import Base.Str Py.Utf8.
Ltac Zify.zify_post_hook ::= Z.to_euclidean_division_equations.
Open Scope N_scope.

Ltac ltb_decide :=
  repeat match goal with
  | |- context [?a <? ?b] =>
    first [ replace (a <? b) with true by (symmetry; apply N.ltb_lt; lia)
          | replace (a <? b) with false by (symmetry; apply N.ltb_ge; lia) ]
  | |- context [?a <=? ?b] =>
    first [ replace (a <=? b) with true by (symmetry; apply N.leb_le; lia)
          | replace (a <=? b) with false by (symmetry; apply N.leb_gt; lia) ]
  end.

Lemma is_scalar_spec c :
  is_scalar c = true <-> (c < 55296 \/ (57344 <= c /\ c < 1114112)).
Proof. unfold is_scalar, is_surrogate. lia. Qed.

(* one code point: whatever follows, the decoder reads back exactly c and continues *)
Lemma utf8_decode_encode_cp c r :
  is_scalar c = true ->
  utf8_decode (utf8_encode_cp c ++ r) = option_map (cons c) (utf8_decode r).
Proof.
  intro H. apply is_scalar_spec in H. unfold utf8_encode_cp.
  destruct (N.ltb_spec c 128) as [H1|H1].
  { cbn [app utf8_decode]. ltb_decide. reflexivity. }
  destruct (N.ltb_spec c 2048) as [H2|H2].
  { cbn [app utf8_decode]. unfold is_cont. ltb_decide. cbn [andb].
    replace ((192 + c / 64 - 192) * 64 + (128 + c mod 64 - 128)) with c by lia. reflexivity. }
  destruct (N.ltb_spec c 65536) as [H3|H3].
  { cbn [app utf8_decode]. unfold is_cont, is_surrogate.
    replace ((224 + c / 4096 - 224) * 4096 + (128 + (c / 64) mod 64 - 128) * 64 + (128 + c mod 64 - 128))
      with c by lia.
    ltb_decide. cbn [andb negb].
    destruct H as [H|[H H']].
    - ltb_decide. cbn [andb negb]. reflexivity.
    - replace (55296 <=? c) with true by (symmetry; apply N.leb_le; lia).
      replace (c <? 57344) with false by (symmetry; apply N.ltb_ge; lia).
      cbn [andb negb]. reflexivity. }
  { cbn [app utf8_decode]. unfold is_cont.
    replace ((240 + c / 262144 - 240) * 262144 + (128 + (c / 4096) mod 64 - 128) * 4096 +
             (128 + (c / 64) mod 64 - 128) * 64 + (128 + c mod 64 - 128)) with c by lia.
    ltb_decide. cbn [andb]. reflexivity. }
Qed.

Theorem utf8_roundtrip s :
  forallb is_scalar s = true -> utf8_decode (utf8_encode s) = Some s.
Proof.
  induction s as [|c s IH]; intro H; [reflexivity|].
  simpl in H. apply andb_true_iff in H as [Hc Hs].
  unfold utf8_encode. cbn [flat_map]. rewrite utf8_decode_encode_cp by exact Hc.
  fold (utf8_encode s). rewrite IH by exact Hs. reflexivity.
Qed.

Theorem utf8_encode_strict_roundtrip s b :
  utf8_encode_strict s = Some b -> utf8_decode b = Some s.
Proof.
  unfold utf8_encode_strict. destruct (forallb is_scalar s) eqn:E; [|discriminate].
  intro H; inversion H; subst. apply utf8_roundtrip. exact E.
Qed.

(* the encoder is injective on well-formed strings (two contexts never look alike to the program) *)
Theorem utf8_encode_injective s t :
  forallb is_scalar s = true -> forallb is_scalar t = true ->
  utf8_encode s = utf8_encode t -> s = t.
Proof.
  intros Hs Ht E. apply utf8_roundtrip in Hs. apply utf8_roundtrip in Ht.
  rewrite E in Hs. congruence.
Qed.

(* every byte the encoder produces is a byte *)
Lemma utf8_encode_cp_bytes c : c < 1114112 -> forall b, In b (utf8_encode_cp c) -> b < 256.
Proof.
  intros Hc b. unfold utf8_encode_cp.
  destruct (N.ltb_spec c 128); [|destruct (N.ltb_spec c 2048); [|destruct (N.ltb_spec c 65536)]];
    cbn [In]; intro Hb;
    repeat (destruct Hb as [Hb|Hb]; [subst b; lia|]); contradiction.
Qed.

Theorem utf8_encode_bytes s :
  forallb is_scalar s = true -> forall b, In b (utf8_encode s) -> b < 256.
Proof.
  induction s as [|c s IH]; intros H b Hb; [contradiction|].
  simpl in H. apply andb_true_iff in H as [Hc Hs].
  unfold utf8_encode in Hb. cbn [flat_map] in Hb. apply in_app_or in Hb as [Hb|Hb].
  - apply (utf8_encode_cp_bytes c); [|exact Hb]. apply is_scalar_spec in Hc. lia.
  - apply IH; assumption.
Qed.

(* ASCII is passed through unchanged *)
Theorem utf8_encode_ascii s : (forall c, In c s -> c < 128) -> utf8_encode s = s.
Proof.
  induction s as [|c s IH]; intro H; [reflexivity|].
  unfold utf8_encode. cbn [flat_map]. fold (utf8_encode s).
  rewrite IH by (intros; apply H; right; assumption).
  unfold utf8_encode_cp. replace (c <? 128) with true; [reflexivity|].
  symmetry; apply N.ltb_lt. apply H. left; reflexivity.
Qed.

(* the decoder accepts canonical encodings of scalar values only: whatever it accepts is the
   encoder's output for the decoded text *)
Lemma utf8_decode_canonical_len n : forall b s,
  (length b <= n)%nat -> utf8_decode b = Some s ->
  utf8_encode s = b /\ forallb is_scalar s = true.
Proof.
  induction n as [|n IH]; intros b s Hl H.
  - destruct b; [|simpl in Hl; lia]. inversion H; subst. split; reflexivity.
  - destruct b as [|b0 r]; [inversion H; subst; split; reflexivity|].
    cbn [utf8_decode] in H. simpl in Hl.
    destruct (N.ltb_spec b0 128) as [H1|H1].
    { destruct (utf8_decode r) as [t|] eqn:E; [|discriminate]. inversion H; subst s.
      apply IH in E as [E1 E2]; [|lia].
      unfold utf8_encode in *. cbn [flat_map forallb]. rewrite E1, E2.
      unfold utf8_encode_cp, is_scalar, is_surrogate.
      replace (b0 <? 128) with true by lia. split; [reflexivity|]. lia. }
    destruct (N.ltb_spec b0 194) as [H2|H2]; [discriminate|].
    destruct (N.ltb_spec b0 224) as [H3|H3].
    { destruct r as [|b1 r1]; [discriminate|].
      destruct (is_cont b1) eqn:C1; [|discriminate].
      destruct (utf8_decode r1) as [t|] eqn:E; [|discriminate]. inversion H; subst s.
      apply IH in E as [E1 E2]; [|simpl in Hl; lia].
      unfold utf8_encode in *. cbn [flat_map forallb]. rewrite E1, E2.
      unfold is_cont in C1.
      set (c := (b0 - 192) * 64 + (b1 - 128)).
      assert (Hc : 128 <= c < 2048 /\ c / 64 = b0 - 192 /\ c mod 64 = b1 - 128) by (subst c; lia).
      destruct Hc as [Hr [Hd Hm]].
      unfold utf8_encode_cp, is_scalar, is_surrogate. rewrite Hd, Hm.
      replace (c <? 128) with false by lia. replace (c <? 2048) with true by lia.
      split; [|lia]. cbn [app]. f_equal; [lia|]. f_equal. lia. }
    destruct (N.ltb_spec b0 240) as [H4|H4].
    { destruct r as [|b1 [|b2 r2]]; try discriminate.
      set (c := (b0 - 224) * 4096 + (b1 - 128) * 64 + (b2 - 128)) in *.
      destruct (is_cont b1 && is_cont b2 && (2048 <=? c) && negb (is_surrogate c)) eqn:C; [|discriminate].
      destruct (utf8_decode r2) as [t|] eqn:E; [|discriminate]. inversion H; subst s.
      apply IH in E as [E1 E2]; [|simpl in Hl; lia].
      unfold utf8_encode in *. cbn [flat_map forallb]. rewrite E1, E2.
      unfold is_cont, is_surrogate in C.
      assert (Hc : 2048 <= c < 65536 /\ (c < 55296 \/ 57344 <= c) /\ c / 4096 = b0 - 224 /\
                   (c / 64) mod 64 = b1 - 128 /\ c mod 64 = b2 - 128) by (subst c; lia).
      destruct Hc as [Hr [Hs [Hd [Hm1 Hm2]]]].
      unfold utf8_encode_cp, is_scalar, is_surrogate. rewrite Hd, Hm1, Hm2.
      replace (c <? 128) with false by lia. replace (c <? 2048) with false by lia.
      replace (c <? 65536) with true by lia.
      split; [|lia]. cbn [app]. f_equal; [lia|]. f_equal; [lia|]. f_equal. lia. }
    destruct (N.ltb_spec b0 245) as [H5|H5]; [|discriminate].
    { destruct r as [|b1 [|b2 [|b3 r3]]]; try discriminate.
      set (c := (b0 - 240) * 262144 + (b1 - 128) * 4096 + (b2 - 128) * 64 + (b3 - 128)) in *.
      destruct (is_cont b1 && is_cont b2 && is_cont b3 && (65536 <=? c) && (c <? 1114112)) eqn:C; [|discriminate].
      destruct (utf8_decode r3) as [t|] eqn:E; [|discriminate]. inversion H; subst s.
      apply IH in E as [E1 E2]; [|simpl in Hl; lia].
      unfold utf8_encode in *. cbn [flat_map forallb]. rewrite E1, E2.
      unfold is_cont in C.
      assert (Hc : 65536 <= c < 1114112 /\ c / 262144 = b0 - 240 /\ (c / 4096) mod 64 = b1 - 128 /\
                   (c / 64) mod 64 = b2 - 128 /\ c mod 64 = b3 - 128) by (subst c; lia).
      destruct Hc as [Hr [Hd [Hm1 [Hm2 Hm3]]]].
      unfold utf8_encode_cp, is_scalar, is_surrogate. rewrite Hd, Hm1, Hm2, Hm3.
      replace (c <? 128) with false by lia. replace (c <? 2048) with false by lia.
      replace (c <? 65536) with false by lia.
      split; [|lia]. cbn [app]. f_equal; [lia|]. f_equal; [lia|]. f_equal; [lia|]. f_equal. lia. }
Qed.

Theorem utf8_decode_canonical b s :
  utf8_decode b = Some s -> utf8_encode s = b /\ forallb is_scalar s = true.
Proof. apply (utf8_decode_canonical_len (length b)). lia. Qed.

(* hence decoding is injective: two different outputs never yield the same text *)
Theorem utf8_decode_injective b1 b2 s :
  utf8_decode b1 = Some s -> utf8_decode b2 = Some s -> b1 = b2.
Proof.
  intros H1 H2. apply utf8_decode_canonical in H1 as [E1 _]. apply utf8_decode_canonical in H2 as [E2 _].
  congruence.
Qed.
