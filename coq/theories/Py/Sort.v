(* Python's [sorted(l, key=key, reverse=inv)] as a stable insertion sort, and the   *)
(* two sorters of tempren/file_sorters.py.  Model only — proofs in Py/SortProofs.v. *)
(*                                                                                *)
(* CPython's list.sort uses only [<] on the keys.  With [reverse=True] it          *)
(* reverses the list, sorts it (stably), and reverses the result — so equal keys   *)
(* keep their *input* order in both directions.  [sort_by] does literally that.    *)
From Tempren Require Import Base.Str Py.Order.

Section Sort.
  Variables (A K : Type).
  Variable key : A -> K.
  Variable ltb : K -> K -> bool.      (* the value of [k1 < k2] *)

  (* put [x] in front of the first element that is not smaller than it *)
  Fixpoint insert_by (x : A) (l : list A) : list A :=
    match l with
    | [] => [x]
    | y :: l' => if ltb (key y) (key x) then y :: insert_by x l' else x :: y :: l'
    end.

  Definition sort_asc (l : list A) : list A := fold_right insert_by [] l.

  Definition sort_by (inv : bool) (l : list A) : list A :=
    if inv then rev (sort_asc (rev l)) else sort_asc l.

  (* the order the result has to respect: [a] may stand before [b] *)
  Definition le_dir (inv : bool) (a b : A) : Prop :=
    if inv then ltb (key a) (key b) = false      (* not a < b : non-increasing *)
    else ltb (key b) (key a) = false.            (* not b < a : non-decreasing *)

  (* keys that compare equal in the sense of the sort (neither is smaller) *)
  Definition key_equiv (k1 k2 : K) : bool := negb (ltb k1 k2) && negb (ltb k2 k1).

  (* [r] keeps the elements of every class of equal keys in the order they have in [l] *)
  Definition stable_wrt (D : K -> Prop) (r l : list A) : Prop :=
    forall k, D k -> filter (fun x => key_equiv k (key x)) r = filter (fun x => key_equiv k (key x)) l.
End Sort.

Arguments insert_by {A K}.
Arguments sort_asc {A K}.
Arguments sort_by {A K}.
Arguments le_dir {A K}.
Arguments key_equiv {K}.
Arguments stable_wrt {A K}.

(* ---------- TemplateFileSorter ------------------------------------------------ *)
(* files are abstract; the evaluated sort tuple of each file is its key.           *)
(* If some pair of keys has no order, CPython's sorted may raise TypeError (known  *)
(* finding F9, outside C08's expression family): the model then answers [None].    *)

Fixpoint all_comparable (ks : list pyval) : bool :=
  match ks with
  | [] => true
  | k :: ks' => forallb (fun k' => py_comparable k k' && py_comparable k' k) ks' && all_comparable ks'
  end.

Definition template_sort {A} (key : A -> pyval) (inv : bool) (l : list A) : option (list A) :=
  if all_comparable (map key l) then Some (sort_by key py_ltb inv l) else None.

(* ---------- PathDepthSorter ---------------------------------------------------- *)
(* sorted(files, key=lambda f: (len(f.relative_path.parts),), reverse=True)        *)

Definition rpath := list (list N).     (* relative path: one element per component *)

Definition depth_sort (l : list rpath) : list rpath := sort_by (@length (list N)) Nat.ltb true l.

(* the same through the Python value order, as the code spells it: a 1-tuple of an int *)
Definition depth_key (p : rpath) : pyval := VTuple [VInt (Z.of_nat (length p))].
Definition depth_sort_py (l : list rpath) : list rpath := sort_by depth_key py_ltb true l.

(* [a] is a proper ancestor of [b] *)
Fixpoint proper_prefix (a b : rpath) : bool :=
  match a, b with
  | [], _ :: _ => true
  | x :: a', y :: b' => str_eqb x y && proper_prefix a' b'
  | _, _ => false
  end.
