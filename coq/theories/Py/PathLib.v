(* The slice of pathlib.PurePosixPath (CPython 3.12) that tempren relies on.     *)
(*   Path(s)      -> parse_path s   (splitroot; split on '/', drop '' and '.')    *)
(*   .name .suffix .stem .parent str() .with_name() ==                            *)
From Tempren Require Import Base.Str.
Open Scope N_scope.

Definition slash : N := 47.
Definition dot : N := 46.

(* str.split(sep) for a one-character separator: always at least one piece *)
Fixpoint split_on (sep : N) (s : str) : list str :=
  match s with
  | [] => [[]]
  | c :: s' =>
    if c =? sep then [] :: split_on sep s'
    else match split_on sep s' with
         | [] => [[c]]            (* unreachable: split_on never returns [] *)
         | p :: ps => (c :: p) :: ps
         end
  end.

(* sep.join(parts) *)
Fixpoint join (sep : N) (parts : list str) : str :=
  match parts with
  | [] => []
  | [p] => p
  | p :: ps => p ++ sep :: join sep ps
  end.

(* a parsed pure path: number of leading slashes kept as root (0, 1 or 2) and the parts *)
Record ppath := { pp_root : nat; pp_parts : list str }.

(* posixpath.splitroot *)
Definition splitroot (s : str) : nat * str :=
  match s with
  | 47 :: 47 :: 47 :: _ => (1%nat, tl s)      (* three or more slashes: root "/" *)
  | 47 :: 47 :: r => (2%nat, r)               (* exactly two *)
  | 47 :: r => (1%nat, r)
  | _ => (0%nat, s)
  end.

Definition keep_part (x : str) : bool :=
  match x with
  | [] => false
  | [46] => false
  | _ => true
  end.

Definition parse_path (s : str) : ppath :=
  match s with
  | [] => {| pp_root := 0; pp_parts := [] |}
  | _ => let '(r, rel) := splitroot s in
         {| pp_root := r; pp_parts := filter keep_part (split_on slash rel) |}
  end.

Definition pp_name (p : ppath) : str := last (pp_parts p) [].

(* str.rfind(c) *)
Fixpoint rfind (c : N) (s : str) : option nat :=
  match s with
  | [] => None
  | x :: s' =>
    match rfind c s' with
    | Some i => Some (S i)
    | None => if x =? c then Some O else None
    end
  end.

(* index of the dot that starts the suffix, if pathlib sees one: 0 < i < len-1 *)
Definition suffix_index (name : str) : option nat :=
  match rfind dot name with
  | Some i => if (Nat.ltb 0 i) && (Nat.ltb i (length name - 1)) then Some i else None
  | None => None
  end.

Definition name_suffix (name : str) : str :=
  match suffix_index name with Some i => skipn i name | None => [] end.

Definition name_stem (name : str) : str :=
  match suffix_index name with Some i => firstn i name | None => name end.

Definition pp_suffix (p : ppath) : str := name_suffix (pp_name p).
Definition pp_stem (p : ppath) : str := name_stem (pp_name p).

Definition pp_parent (p : ppath) : ppath :=
  {| pp_root := pp_root p; pp_parts := removelast (pp_parts p) |}.

Definition root_str (r : nat) : str :=
  match r with O => [] | 1%nat => [slash] | _ => [slash; slash] end.

(* str(path): "." for the empty relative path *)
Definition pp_str (p : ppath) : str :=
  match pp_root p, pp_parts p with
  | O, [] => [dot]
  | r, parts => root_str r ++ join slash parts
  end.

Definition has_slash (s : str) : bool := existsb (fun c => c =? slash) s.

(* with_name: ValueError (None) if the path has no name, or the new name is empty,
   contains a separator, or is "." *)
Definition pp_with_name (p : ppath) (n : str) : option ppath :=
  match pp_parts p with
  | [] => None
  | _ =>
    if match n with [] => true | [46] => true | _ => has_slash n end then None
    else Some {| pp_root := pp_root p; pp_parts := removelast (pp_parts p) ++ [n] |}
  end.

Definition ppath_eqb (a b : ppath) : bool :=
  Nat.eqb (pp_root a) (pp_root b) && list_eqb str_eqb (pp_parts a) (pp_parts b).

(* path / other for a RELATIVE other (joinpath): concatenation of parts *)
Definition pp_join (a b : ppath) : ppath :=
  match pp_root b with
  | O => {| pp_root := pp_root a; pp_parts := pp_parts a ++ pp_parts b |}
  | _ => b
  end.

(* ---- the four path tags of tempren/tags/core.py --------------------------------------- *)
(* `if context:` — an empty context falls back to the file, like no context at all *)
Definition tag_subject (rel : ppath) (ctx : option str) : ppath :=
  match ctx with
  | Some (c :: s) => parse_path (c :: s)
  | _ => rel
  end.

Definition tag_name (rel : ppath) (ctx : option str) : str := pp_name (tag_subject rel ctx).
Definition tag_base (rel : ppath) (ctx : option str) : str := pp_stem (tag_subject rel ctx).
Definition tag_ext (rel : ppath) (ctx : option str) : str := pp_suffix (tag_subject rel ctx).
(* Dir returns a Path; in a name it is rendered through str() *)
Definition tag_dir (rel : ppath) (ctx : option str) : str := pp_str (pp_parent (tag_subject rel ctx)).
