(* Proofs about Py/Sort.v: the insertion sort is a stable sort in both directions,  *)
(* and a stable sorted rearrangement is unique — so it is THE list any correct      *)
(* stable sort (CPython's sorted, trusted to be one) returns.                        *)
From Coq Require Import Permutation Sorted.
From Tempren Require Import Base.Str Py.Order Py.Sort.

(* ---------- generic list facts ------------------------------------------------- *)

Lemma filter_rev_comm {A} (f : A -> bool) (l : list A) : filter f (rev l) = rev (filter f l).
Proof.
  induction l as [|x l IH]; simpl; [reflexivity|].
  rewrite filter_app, IH; simpl. destruct (f x); simpl; [reflexivity | apply app_nil_r].
Qed.

Lemma StronglySorted_app_intro {A} (R : A -> A -> Prop) (l1 l2 : list A) :
  StronglySorted R l1 -> StronglySorted R l2 ->
  (forall a b, In a l1 -> In b l2 -> R a b) ->
  StronglySorted R (l1 ++ l2).
Proof.
  induction l1 as [|x l1 IH]; simpl; intros H1 H2 H; [exact H2|].
  inversion H1; subst. constructor.
  - apply IH; auto.
  - apply Forall_app; split; [assumption|].
    apply Forall_forall; intros b Hb; apply H; auto.
Qed.

Lemma StronglySorted_rev {A} (R : A -> A -> Prop) (l : list A) :
  StronglySorted R l -> StronglySorted (fun a b => R b a) (rev l).
Proof.
  induction 1 as [|x l Hs IH Hx]; simpl; [constructor|].
  apply StronglySorted_app_intro; [exact IH | repeat constructor |].
  intros a b Ha [Hb|[]]; subst b. apply in_rev in Ha.
  rewrite Forall_forall in Hx; auto.
Qed.

Lemma StronglySorted_impl {A} (R R' : A -> A -> Prop) (l : list A) :
  (forall a b, R a b -> R' a b) -> StronglySorted R l -> StronglySorted R' l.
Proof.
  intros H. induction 1 as [|x l Hs IH Hx]; constructor; [exact IH|].
  eapply Forall_impl; [|exact Hx]. intros b; apply H.
Qed.

Lemma StronglySorted_nth {A} (R : A -> A -> Prop) (l : list A) :
  StronglySorted R l ->
  forall i j a b, (i < j)%nat -> nth_error l i = Some a -> nth_error l j = Some b -> R a b.
Proof.
  induction 1 as [|x l Hs IH Hx]; intros i j a b Hij Hi Hj.
  - destruct i; discriminate.
  - destruct j as [|j]; [lia|]. simpl in Hj. destruct i as [|i]; simpl in Hi.
    + inversion Hi; subst. rewrite Forall_forall in Hx. apply Hx. eapply nth_error_In; eauto.
    + eapply IH; [| eassumption | eassumption]. lia.
Qed.

(* ---------- the sort ------------------------------------------------------------- *)

Section SortProofs.
  Variables (A K : Type) (key : A -> K) (ltb : K -> K -> bool).
  (* the keys live in a set [D] on which [<] is a strict weak order *)
  Variable D : K -> Prop.
  Hypothesis lt_irrefl : forall a, D a -> ltb a a = false.
  Hypothesis lt_asym : forall a b, D a -> D b -> ltb a b = true -> ltb b a = false.
  Hypothesis nlt_trans : forall a b c, D a -> D b -> D c ->
    ltb b a = false -> ltb c b = false -> ltb c a = false.

  Definition keys_in (l : list A) : Prop := Forall (fun x => D (key x)) l.

  Lemma insert_perm x l : Permutation (insert_by key ltb x l) (x :: l).
  Proof.
    induction l as [|y l IH]; simpl; [reflexivity|].
    destruct (ltb (key y) (key x)); [|reflexivity].
    rewrite IH. apply perm_swap.
  Qed.

  Lemma sort_asc_perm l : Permutation (sort_asc key ltb l) l.
  Proof.
    induction l as [|x l IH]; simpl; [reflexivity|].
    rewrite insert_perm. constructor. exact IH.
  Qed.

  Lemma sort_by_perm inv l : Permutation (sort_by key ltb inv l) l.
  Proof.
    unfold sort_by. destruct inv; [|apply sort_asc_perm].
    rewrite <- Permutation_rev, sort_asc_perm. symmetry. apply Permutation_rev.
  Qed.

  Lemma keys_in_perm l l' : Permutation l l' -> keys_in l -> keys_in l'.
  Proof. intros P H. unfold keys_in. eapply Permutation_Forall; eauto. Qed.

  Lemma insert_sorted x l :
    keys_in (x :: l) ->
    StronglySorted (le_dir key ltb false) l ->
    StronglySorted (le_dir key ltb false) (insert_by key ltb x l).
  Proof.
    induction l as [|y l IH]; simpl; intros HD Hs.
    - repeat constructor.
    - inversion HD as [|? ? Dx HD']; subst. inversion HD' as [|? ? Dy HDl]; subst.
      inversion Hs as [|? ? Hs' Hy]; subst.
      destruct (ltb (key y) (key x)) eqn:E.
      + constructor.
        * apply IH; [constructor; assumption | assumption].
        * eapply Permutation_Forall; [symmetry; apply insert_perm|].
          constructor; [|assumption]. unfold le_dir. apply lt_asym; assumption.
      + constructor; [constructor; assumption|].
        constructor; [exact E|].
        rewrite Forall_forall in *. intros z Hz. unfold le_dir in *.
        apply (nlt_trans (key x) (key y) (key z)); auto.
    Qed.

  Lemma sort_asc_sorted l :
    keys_in l -> StronglySorted (le_dir key ltb false) (sort_asc key ltb l).
  Proof.
    induction l as [|x l IH]; simpl; intros HD; [constructor|].
    inversion HD; subst. apply insert_sorted.
    - constructor; [assumption|]. eapply keys_in_perm; [symmetry; apply sort_asc_perm | assumption].
    - apply IH; assumption.
  Qed.

  Lemma equiv_refl k : D k -> key_equiv ltb k k = true.
  Proof. intro H. unfold key_equiv. rewrite lt_irrefl; auto. Qed.

  Lemma filter_insert k x l :
    D k -> keys_in (x :: l) ->
    filter (fun y => key_equiv ltb k (key y)) (insert_by key ltb x l) =
    if key_equiv ltb k (key x) then x :: filter (fun y => key_equiv ltb k (key y)) l
    else filter (fun y => key_equiv ltb k (key y)) l.
  Proof.
    intros Dk. induction l as [|y l IH]; intros HD; simpl.
    - destruct (key_equiv ltb k (key x)); reflexivity.
    - inversion HD as [|? ? Dx HD']; subst. inversion HD' as [|? ? Dy HDl]; subst.
      destruct (ltb (key y) (key x)) eqn:E; simpl.
      + rewrite IH by (constructor; assumption).
        destruct (key_equiv ltb k (key y)) eqn:Ey; destruct (key_equiv ltb k (key x)) eqn:Ex; try reflexivity.
        exfalso. unfold key_equiv in Ey, Ex.
        apply andb_true_iff in Ey as [Ey1 Ey2]. apply andb_true_iff in Ex as [Ex1 Ex2].
        apply negb_true_iff in Ey1, Ey2, Ex1, Ex2.
        (* not k < x, not y < k  =>  not y < x *)
        rewrite (nlt_trans (key x) k (key y)) in E; auto. discriminate.
      + destruct (key_equiv ltb k (key x)); reflexivity.
  Qed.

  Lemma sort_asc_stable l : keys_in l -> stable_wrt key ltb D (sort_asc key ltb l) l.
  Proof.
    intros HD k Dk. induction l as [|x l IH]; simpl; [reflexivity|].
    inversion HD; subst.
    rewrite filter_insert; auto.
    - rewrite IH by assumption. reflexivity.
    - constructor; [assumption|]. eapply keys_in_perm; [symmetry; apply sort_asc_perm | assumption].
  Qed.

  Lemma keys_in_rev l : keys_in l -> keys_in (rev l).
  Proof. apply keys_in_perm. apply Permutation_rev. Qed.

  (* the sort is a stable sort, ascending or (reverse=True) descending *)
  Theorem sort_by_spec : forall inv l,
    keys_in l ->
    let r := sort_by key ltb inv l in
    Permutation r l /\
    StronglySorted (le_dir key ltb inv) r /\
    stable_wrt key ltb D r l.
  Proof.
    intros inv l HD r. split; [apply sort_by_perm|]. subst r. unfold sort_by. destruct inv.
    - split.
      + apply (StronglySorted_rev (le_dir key ltb false)). apply sort_asc_sorted. apply keys_in_rev; assumption.
      + intros k Dk. rewrite filter_rev_comm.
        rewrite (sort_asc_stable (rev l) (keys_in_rev l HD) k Dk).
        rewrite filter_rev_comm. apply rev_involutive.
    - split; [apply sort_asc_sorted; assumption | apply sort_asc_stable; assumption].
  Qed.

  (* two sorted lists with the same classes of equal keys, each class in the same order, are equal *)
  Lemma sorted_classes_unique inv : forall r1 r2,
    keys_in r1 -> keys_in r2 ->
    StronglySorted (le_dir key ltb inv) r1 -> StronglySorted (le_dir key ltb inv) r2 ->
    (forall k, D k -> filter (fun x => key_equiv ltb k (key x)) r1 = filter (fun x => key_equiv ltb k (key x)) r2) ->
    r1 = r2.
  Proof.
    induction r1 as [|x r1 IH]; intros [|y r2] D1 D2 S1 S2 HF.
    - reflexivity.
    - inversion D2; subst. specialize (HF (key y) ltac:(assumption)). simpl in HF.
      rewrite equiv_refl in HF by assumption. discriminate.
    - inversion D1; subst. specialize (HF (key x) ltac:(assumption)). simpl in HF.
      rewrite equiv_refl in HF by assumption. discriminate.
    - inversion D1 as [|? ? Dx D1']; subst. inversion D2 as [|? ? Dy D2']; subst.
      inversion S1 as [|? ? S1' Hx]; subst. inversion S2 as [|? ? S2' Hy]; subst.
      rewrite Forall_forall in Hx, Hy.
      (* y occurs in x :: r1 and x occurs in y :: r2 *)
      assert (Iy : In y (x :: r1)).
      { pose proof (HF (key y) Dy) as E. simpl in E. rewrite (equiv_refl (key y) Dy) in E.
        assert (In y (filter (fun x0 => key_equiv ltb (key y) (key x0)) (x :: r1))) as I
          by (simpl; rewrite E; left; reflexivity).
        apply filter_In in I. tauto. }
      assert (Ix : In x (y :: r2)).
      { pose proof (HF (key x) Dx) as E. simpl in E. rewrite (equiv_refl (key x) Dx) in E.
        assert (In x (filter (fun x0 => key_equiv ltb (key x) (key x0)) (y :: r2))) as I
          by (simpl; rewrite <- E; left; reflexivity).
        apply filter_In in I. tauto. }
      assert (Exy : ltb (key x) (key y) = false /\ ltb (key y) (key x) = false).
      { destruct Iy as [Iy|Iy]; [subst y; split; apply lt_irrefl; assumption|].
        destruct Ix as [Ix|Ix]; [subst y; split; apply lt_irrefl; assumption|].
        pose proof (Hx y Iy) as H1. pose proof (Hy x Ix) as H2.
        unfold le_dir in H1, H2. destruct inv; split; assumption. }
      destruct Exy as [E1 E2].
      assert (x = y).
      { pose proof (HF (key x) Dx) as E. simpl in E. rewrite (equiv_refl (key x) Dx) in E.
        unfold key_equiv at 2 in E. rewrite E1, E2 in E. simpl in E. congruence. }
      subst y. f_equal. apply IH; auto.
      intros k Dk. pose proof (HF k Dk) as E. simpl in E.
      destruct (key_equiv ltb k (key x)); congruence.
  Qed.

  (* any stable sorted rearrangement of [l] is the list [sort_by] computes *)
  Theorem stable_sorted_unique : forall inv l r1 r2,
    keys_in r1 -> keys_in r2 ->
    StronglySorted (le_dir key ltb inv) r1 -> stable_wrt key ltb D r1 l ->
    StronglySorted (le_dir key ltb inv) r2 -> stable_wrt key ltb D r2 l ->
    r1 = r2.
  Proof.
    intros inv l r1 r2 D1 D2 S1 T1 S2 T2. apply (sorted_classes_unique inv); auto.
    intros k Dk. rewrite (T1 k Dk), (T2 k Dk). reflexivity.
  Qed.

  Corollary sort_by_is_the_stable_sort : forall inv l r,
    keys_in l -> Permutation r l ->
    StronglySorted (le_dir key ltb inv) r -> stable_wrt key ltb D r l ->
    r = sort_by key ltb inv l.
  Proof.
    intros inv l r HD P S T.
    destruct (sort_by_spec inv l HD) as (P' & S' & T').
    apply (stable_sorted_unique inv l); auto.
    - eapply keys_in_perm; [symmetry; exact P | exact HD].
    - eapply keys_in_perm; [symmetry; exact P' | exact HD].
  Qed.
End SortProofs.

(* the result only depends on the comparisons between keys *)
Lemma sort_by_ext {A K1 K2} (key1 : A -> K1) (ltb1 : K1 -> K1 -> bool) (key2 : A -> K2) (ltb2 : K2 -> K2 -> bool) :
  (forall a b, ltb1 (key1 a) (key1 b) = ltb2 (key2 a) (key2 b)) ->
  forall inv l, sort_by key1 ltb1 inv l = sort_by key2 ltb2 inv l.
Proof.
  intros H.
  assert (I : forall x l, insert_by key1 ltb1 x l = insert_by key2 ltb2 x l).
  { intros x l; induction l as [|y l IH]; simpl; [reflexivity|]. rewrite H, IH. reflexivity. }
  assert (S : forall l, sort_asc key1 ltb1 l = sort_asc key2 ltb2 l).
  { induction l as [|x l IH]; simpl; [reflexivity|]. rewrite IH. apply I. }
  intros inv l. unfold sort_by. destruct inv; rewrite S; reflexivity.
Qed.

(* ---------- PathDepthSorter ------------------------------------------------------ *)

Lemma depth_sort_spec : forall l,
  let r := depth_sort l in
  Permutation r l /\
  StronglySorted (fun a b => (length b <= length a)%nat) r /\
  stable_wrt (@length (list N)) Nat.ltb (fun _ => True) r l.
Proof.
  intros l r. subst r.
  assert (H1 : forall a : nat, True -> Nat.ltb a a = false) by (intros a _; apply Nat.ltb_irrefl).
  assert (H2 : forall a b : nat, True -> True -> Nat.ltb a b = true -> Nat.ltb b a = false).
  { intros a b _ _ H. apply Nat.ltb_lt in H. apply Nat.ltb_ge. lia. }
  assert (H3 : forall a b c : nat, True -> True -> True ->
               Nat.ltb b a = false -> Nat.ltb c b = false -> Nat.ltb c a = false).
  { intros a b c _ _ _ Ha Hb. apply Nat.ltb_ge in Ha, Hb. apply Nat.ltb_ge. lia. }
  assert (HK : keys_in rpath nat (@length (list N)) (fun _ => True) l)
    by (unfold keys_in; apply Forall_forall; auto).
  pose proof (sort_by_spec rpath nat (@length (list N)) Nat.ltb (fun _ => True) H2 H3 true l HK) as HS.
  simpl in HS. destruct HS as (P & S & T).
  split; [exact P|]. split; [|exact T].
  unfold depth_sort. eapply StronglySorted_impl; [|exact S].
  intros a b Hb. unfold le_dir in Hb. apply Nat.ltb_ge in Hb. exact Hb.
Qed.

Lemma proper_prefix_length : forall a b, proper_prefix a b = true -> (length a < length b)%nat.
Proof.
  induction a as [|x a IH]; intros [|y b] H; simpl in *; try discriminate; try lia.
  apply andb_true_iff in H as [_ H]. apply IH in H. lia.
Qed.

(* a directory is never processed before one of its descendants *)
Theorem depth_first : forall l i j a b,
  nth_error (depth_sort l) i = Some a ->
  nth_error (depth_sort l) j = Some b ->
  proper_prefix a b = true ->
  (j < i)%nat.
Proof.
  intros l i j a b Hi Hj Hp.
  apply proper_prefix_length in Hp.
  destruct (depth_sort_spec l) as (_ & S & _).
  destruct (Nat.lt_trichotomy i j) as [H|[H|H]]; [| |exact H].
  - pose proof (StronglySorted_nth _ _ S i j a b H Hi Hj). simpl in *. lia.
  - subst j. rewrite Hi in Hj. inversion Hj; subst. lia.
Qed.

(* the code's spelling of the key, a 1-tuple of an int compared as Python values, gives the same list *)
Lemma depth_sort_py_eq : forall l, depth_sort_py l = depth_sort l.
Proof.
  intro l. unfold depth_sort_py, depth_sort. apply sort_by_ext.
  intros a b. unfold depth_key. simpl. unfold num2; simpl.
  destruct (Z.eqb_spec (Z.of_nat (length a)) (Z.of_nat (length b))) as [E|E].
  - apply Nat2Z.inj in E. rewrite E. symmetry. apply Nat.ltb_irrefl.
  - destruct (Z.ltb_spec (Z.of_nat (length a)) (Z.of_nat (length b)));
      destruct (Nat.ltb_spec (length a) (length b)); try reflexivity; lia.
Qed.
