(* TemplateFileSorter: the generic stable-sort theorems instantiated with the Python *)
(* value order on keys of one shape, and the composition with the Count model.       *)
From Coq Require Import Permutation Sorted.
From Tempren Require Import Base.Str Py.Order Py.OrderProofs Py.Sort Py.SortProofs
  Tags.Count Tags.CountProofs.

(* Python's [a <= b] holds / [b <= a] holds, along the direction of the sort *)
Definition py_le_dir {A} (key : A -> pyval) (inv : bool) (a b : A) : Prop :=
  if inv then py_le (key b) (key a) = Some true else py_le (key a) (key b) = Some true.

Section TemplateSort.
  Variable A : Type.
  Variable key : A -> pyval.
  Variable s : shape.

  Definition keys_shaped (l : list A) : Prop := Forall (fun x => in_shape s (key x)) l.

  Lemma all_comparable_shaped : forall ks, Forall (in_shape s) ks -> all_comparable ks = true.
  Proof.
    induction ks as [|k ks IH]; intros H; simpl; [reflexivity|].
    inversion H as [|? ? Hk Hks]; subst.
    apply andb_true_iff; split; [|apply IH; assumption].
    apply forallb_forall. intros k' Hin.
    rewrite Forall_forall in Hks. specialize (Hks k' Hin).
    destruct (py_order_on_shape s k k' k Hk Hks Hk) as (C1 & _).
    destruct (py_order_on_shape s k' k k' Hks Hk Hks) as (C2 & _).
    rewrite C1, C2. reflexivity.
  Qed.

  Lemma le_dir_py_le : forall inv a b,
    in_shape s (key a) -> in_shape s (key b) ->
    le_dir key py_ltb inv a b -> py_le_dir key inv a b.
  Proof.
    intros inv a b Ha Hb H. unfold le_dir in H. unfold py_le_dir, py_le.
    destruct inv.
    - destruct (py_order_on_shape s (key b) (key a) (key a) Hb Ha Ha) as (C & _ & _ & _ & _ & _ & _ & _ & L).
      rewrite C, L, H. reflexivity.
    - destruct (py_order_on_shape s (key a) (key b) (key a) Ha Hb Ha) as (C & _ & _ & _ & _ & _ & _ & _ & L).
      rewrite C, L, H. reflexivity.
  Qed.

  Lemma py_le_le_dir : forall inv a b,
    in_shape s (key a) -> in_shape s (key b) ->
    py_le_dir key inv a b -> le_dir key py_ltb inv a b.
  Proof.
    intros inv a b Ha Hb H. unfold le_dir. unfold py_le_dir, py_le in H.
    destruct inv.
    - destruct (py_order_on_shape s (key b) (key a) (key a) Hb Ha Ha) as (C & _ & _ & _ & _ & _ & _ & _ & L).
      rewrite C, L in H. inversion H as [E]. apply negb_true_iff in E. exact E.
    - destruct (py_order_on_shape s (key a) (key b) (key a) Ha Hb Ha) as (C & _ & _ & _ & _ & _ & _ & _ & L).
      rewrite C, L in H. inversion H as [E]. apply negb_true_iff in E. exact E.
  Qed.

  Lemma StronglySorted_impl_in (R R' : A -> A -> Prop) (P : A -> Prop) (l : list A) :
    (forall a b, P a -> P b -> R a b -> R' a b) -> Forall P l -> StronglySorted R l -> StronglySorted R' l.
  Proof.
    intros H HP. induction 1 as [|x l Hs IH Hx]; [constructor|].
    inversion HP as [|? ? Px HPl]; subst.
    constructor; [apply IH; assumption|].
    rewrite Forall_forall in *. intros b Hb. apply H; auto.
  Qed.

  (* With keys of one shape: no TypeError; the processing order is a rearrangement of the
     sorter's input that is non-decreasing (non-increasing with inversion) for Python's <=
     on the keys, and files with equal keys keep the order in which they were gathered. *)
  Theorem template_sort_spec : forall inv l,
    keys_shaped l ->
    exists r, template_sort key inv l = Some r /\
      Permutation r l /\
      StronglySorted (py_le_dir key inv) r /\
      stable_wrt key py_ltb (in_shape s) r l.
  Proof.
    intros inv l HK. unfold template_sort.
    rewrite all_comparable_shaped by (unfold keys_shaped in HK; rewrite Forall_map; exact HK).
    eexists; split; [reflexivity|].
    destruct (sort_by_spec A pyval key py_ltb (in_shape s)
                (py_ltb_asym s) (py_nlt_trans s) inv l HK) as (P & S & T).
    split; [exact P|]. split; [|exact T].
    eapply StronglySorted_impl_in with (P := fun x => in_shape s (key x)); [| |exact S].
    - intros a b Ha Hb. apply le_dir_py_le; assumption.
    - eapply Permutation_Forall; [symmetry; exact P | exact HK].
  Qed.

  (* ... and it is the only such list: whatever stable sort CPython runs returns it *)
  Theorem template_sort_unique : forall inv l r,
    keys_shaped l ->
    Permutation r l ->
    StronglySorted (py_le_dir key inv) r ->
    stable_wrt key py_ltb (in_shape s) r l ->
    template_sort key inv l = Some r.
  Proof.
    intros inv l r HK P S T.
    destruct (template_sort_spec inv l HK) as (r' & E & P' & S' & T').
    rewrite E. f_equal.
    assert (HKr : keys_shaped r) by (eapply Permutation_Forall; [symmetry; exact P | exact HK]).
    assert (HKr' : keys_shaped r') by (eapply Permutation_Forall; [symmetry; exact P' | exact HK]).
    apply (stable_sorted_unique A pyval key py_ltb (in_shape s) (py_ltb_irrefl s) inv l); auto.
    - eapply StronglySorted_impl_in with (P := fun x => in_shape s (key x)); [| exact HKr' | exact S'].
      intros a b Ha Hb. apply py_le_le_dir; assumption.
    - eapply StronglySorted_impl_in with (P := fun x => in_shape s (key x)); [| exact HKr | exact S].
      intros a b Ha Hb. apply py_le_le_dir; assumption.
  Qed.

  (* ---------- composition with Count (C16) -------------------------------------- *)
  Variable dir_of : A -> dirkey.

  (* a common counter numbers the files in processing order *)
  Theorem count_follows_order_common : forall inv l c r i f,
    template_sort key inv l = Some r ->
    cc_common c = true ->
    nth_error r i = Some f ->
    nth_error (count_values c (map dir_of r)) i = Some (cc_start c + Z.of_nat i * cc_step c)%Z.
  Proof.
    intros inv l c r i f _ Hc Hi. apply count_common; [exact Hc|].
    rewrite map_length. apply nth_error_Some. congruence.
  Qed.

  (* per-directory counters: the number counts the files of the same directory processed earlier *)
  Theorem count_follows_order_per_directory : forall inv l c r i f,
    template_sort key inv l = Some r ->
    cc_common c = false ->
    nth_error r i = Some f ->
    nth_error (count_values c (map dir_of r)) i =
      Some (cc_start c + Z.of_nat (occ (dir_of f) (map dir_of (firstn i r))) * cc_step c)%Z.
  Proof.
    intros inv l c r i f _ Hc Hi.
    rewrite (count_per_directory c (map dir_of r) i (dir_of f) Hc).
    - rewrite firstn_map. reflexivity.
    - rewrite nth_error_map, Hi. reflexivity.
  Qed.
End TemplateSort.
