From Tempren Require Import Base.Str Py.Order.
Open Scope Z_scope.

(* Proofs about the model of Python's value ordering in Py/Order.v.              *)

(* ---------- the bundle of order facts, for any carrier ------------------------ *)

Definition ord_bundle {A} (cmpb eqb ltb leb : A -> A -> bool) (a b c : A) : Prop :=
  cmpb a b = true /\
  eqb a a = true /\
  eqb a b = eqb b a /\
  (eqb a b = true -> eqb b c = true -> eqb a c = true) /\
  (eqb a b = true -> ltb a b = false) /\
  (eqb a b = false -> ltb a b = negb (ltb b a)) /\
  (ltb a b = true -> ltb b c = true -> ltb a c = true) /\
  (eqb a b = true -> ltb a c = ltb b c /\ ltb c a = ltb c b) /\
  leb a b = negb (ltb b a).

(* ---------- induction principles for the nested inductives ---------------------- *)

Lemma shape_ind' : forall P : shape -> Prop,
  P SNum -> P SStr -> P SPath ->
  (forall ss, Forall P ss -> P (STuple ss)) ->
  forall s, P s.
Proof.
  intros P Hn Hs Hp Ht.
  fix IH 1. intros [ | | | ss].
  - exact Hn.
  - exact Hs.
  - exact Hp.
  - apply Ht. induction ss as [|s ss IHss].
    + constructor.
    + constructor; [apply IH | exact IHss].
Qed.

Lemma pyval_ind' : forall P : pyval -> Prop,
  (forall z, P (VInt z)) -> (forall s, P (VStr s)) -> (forall b, P (VBool b)) ->
  (forall l, Forall P l -> P (VTuple l)) ->
  (forall p, P (VPath p)) ->
  forall v, P v.
Proof.
  intros P Hi Hs Hb Ht Hp.
  fix IH 1. intros [z|s|b|l|p].
  - apply Hi.
  - apply Hs.
  - apply Hb.
  - apply Ht. induction l as [|v l IHl].
    + constructor.
    + constructor; [apply IH | exact IHl].
  - apply Hp.
Qed.

(* ---------- generic lexicographic lifting ---------------------------------------- *)

Section Lex.
  Variables (A S : Type) (D : S -> A -> Prop).
  Variables (cmpb eqb ltb leb : A -> A -> bool).

  (* [l] is pointwise in the domains given by a prefix of [ss] *)
  Fixpoint LD (l : list A) (ss : list S) : Prop :=
    match l, ss with
    | [], _ => True
    | x :: l', s :: ss' => D s x /\ LD l' ss'
    | _ :: _, [] => False
    end.

  Definition Good (s : S) : Prop :=
    forall a b c, D s a -> D s b -> D s c -> ord_bundle cmpb eqb ltb leb a b c.

  (* element facts extracted from [Good] *)
  Section Elem.
    Variable s : S.
    Hypothesis G : Good s.

    Lemma e_cmp a b : D s a -> D s b -> cmpb a b = true.
    Proof. intros Ha Hb. destruct (G a b a Ha Hb Ha) as (H & _). exact H. Qed.
    Lemma e_refl a : D s a -> eqb a a = true.
    Proof. intros Ha. destruct (G a a a Ha Ha Ha) as (_ & H & _). exact H. Qed.
    Lemma e_sym a b : D s a -> D s b -> eqb a b = eqb b a.
    Proof. intros Ha Hb. destruct (G a b a Ha Hb Ha) as (_ & _ & H & _). exact H. Qed.
    Lemma e_trans a b c : D s a -> D s b -> D s c ->
      eqb a b = true -> eqb b c = true -> eqb a c = true.
    Proof. intros Ha Hb Hc. destruct (G a b c Ha Hb Hc) as (_ & _ & _ & H & _). exact H. Qed.
    Lemma l_eq a b : D s a -> D s b -> eqb a b = true -> ltb a b = false.
    Proof. intros Ha Hb. destruct (G a b a Ha Hb Ha) as (_ & _ & _ & _ & H & _). exact H. Qed.
    Lemma l_tot a b : D s a -> D s b -> eqb a b = false -> ltb a b = negb (ltb b a).
    Proof. intros Ha Hb. destruct (G a b a Ha Hb Ha) as (_ & _ & _ & _ & _ & H & _). exact H. Qed.
    Lemma l_trans a b c : D s a -> D s b -> D s c ->
      ltb a b = true -> ltb b c = true -> ltb a c = true.
    Proof. intros Ha Hb Hc. destruct (G a b c Ha Hb Hc) as (_ & _ & _ & _ & _ & _ & H & _). exact H. Qed.
    Lemma l_congr a b c : D s a -> D s b -> D s c ->
      eqb a b = true -> ltb a c = ltb b c /\ ltb c a = ltb c b.
    Proof. intros Ha Hb Hc. destruct (G a b c Ha Hb Hc) as (_ & _ & _ & _ & _ & _ & _ & H & _). exact H. Qed.
    Lemma le_nlt a b : D s a -> D s b -> leb a b = negb (ltb b a).
    Proof. intros Ha Hb. destruct (G a b a Ha Hb Ha) as (_ & _ & _ & _ & _ & _ & _ & _ & H). exact H. Qed.

    Lemma e_congr a b c : D s a -> D s b -> D s c ->
      eqb a b = true -> eqb a c = eqb b c.
    Proof.
      intros Ha Hb Hc E.
      destruct (eqb a c) eqn:E1, (eqb b c) eqn:E2; try reflexivity.
      - rewrite (e_sym a b Ha Hb) in E.
        rewrite (e_trans b a c Hb Ha Hc E E1) in E2. discriminate.
      - rewrite (e_trans a b c Ha Hb Hc E E2) in E1. discriminate.
    Qed.
  End Elem.

  Notation lcmp := (lex_comparable eqb cmpb).
  Notation leq := (lex_eqb eqb).
  Notation llt := (lex_ltb eqb ltb).
  Notation lle := (lex_leb eqb leb).

  Lemma lex_cmp : forall ss, Forall Good ss -> forall la lb,
    LD la ss -> LD lb ss -> lcmp la lb = true.
  Proof.
    intros ss Hss. induction Hss as [|s ss G Hss IH]; intros [|x la] [|y lb] Ha Hb;
      simpl in *; try reflexivity; try contradiction.
    destruct Ha as [Hx Ha], Hb as [Hy Hb].
    destruct (eqb x y); [apply IH; assumption | apply (e_cmp s G); assumption].
  Qed.

  Lemma lex_refl : forall ss, Forall Good ss -> forall la, LD la ss -> leq la la = true.
  Proof.
    intros ss Hss. induction Hss as [|s ss G Hss IH]; intros [|x la] Ha;
      simpl in *; try reflexivity; try contradiction.
    destruct Ha as [Hx Ha]. rewrite (e_refl s G x Hx). simpl. apply IH; assumption.
  Qed.

  Lemma lex_sym : forall ss, Forall Good ss -> forall la lb,
    LD la ss -> LD lb ss -> leq la lb = leq lb la.
  Proof.
    intros ss Hss. induction Hss as [|s ss G Hss IH]; intros [|x la] [|y lb] Ha Hb;
      simpl in *; try reflexivity; try contradiction.
    destruct Ha as [Hx Ha], Hb as [Hy Hb].
    rewrite (e_sym s G x y Hx Hy). f_equal. apply IH; assumption.
  Qed.

  Lemma lex_trans : forall ss, Forall Good ss -> forall la lb lc,
    LD la ss -> LD lb ss -> LD lc ss ->
    leq la lb = true -> leq lb lc = true -> leq la lc = true.
  Proof.
    intros ss Hss. induction Hss as [|s ss G Hss IH];
      intros [|x la] [|y lb] [|z lc] Ha Hb Hc;
      simpl in *; try reflexivity; try contradiction; try discriminate.
    destruct Ha as [Hx Ha], Hb as [Hy Hb], Hc as [Hz Hc].
    intros E1 E2. apply andb_true_iff in E1 as [E1 E1'].
    apply andb_true_iff in E2 as [E2 E2'].
    rewrite (e_trans s G x y z Hx Hy Hz E1 E2). simpl.
    apply (IH la lb lc); assumption.
  Qed.

  Lemma lex_lt_eq : forall ss, Forall Good ss -> forall la lb,
    LD la ss -> LD lb ss -> leq la lb = true -> llt la lb = false.
  Proof.
    intros ss Hss. induction Hss as [|s ss G Hss IH]; intros [|x la] [|y lb] Ha Hb;
      simpl in *; try reflexivity; try contradiction; try discriminate.
    destruct Ha as [Hx Ha], Hb as [Hy Hb].
    intros E. apply andb_true_iff in E as [E E']. rewrite E. apply IH; assumption.
  Qed.

  Lemma lex_lt_tot : forall ss, Forall Good ss -> forall la lb,
    LD la ss -> LD lb ss -> leq la lb = false -> llt la lb = negb (llt lb la).
  Proof.
    intros ss Hss. induction Hss as [|s ss G Hss IH]; intros [|x la] [|y lb] Ha Hb;
      simpl in *; try reflexivity; try contradiction; try discriminate.
    destruct Ha as [Hx Ha], Hb as [Hy Hb].
    intros E. rewrite <- (e_sym s G x y Hx Hy).
    destruct (eqb x y) eqn:Exy; simpl in E.
    - apply IH; assumption.
    - apply (l_tot s G); assumption.
  Qed.

  Lemma lex_lt_trans : forall ss, Forall Good ss -> forall la lb lc,
    LD la ss -> LD lb ss -> LD lc ss ->
    llt la lb = true -> llt lb lc = true -> llt la lc = true.
  Proof.
    intros ss Hss. induction Hss as [|s ss G Hss IH];
      intros [|x la] [|y lb] [|z lc] Ha Hb Hc;
      simpl in *; try reflexivity; try contradiction; try discriminate.
    destruct Ha as [Hx Ha], Hb as [Hy Hb], Hc as [Hz Hc].
    destruct (eqb x y) eqn:Exy, (eqb y z) eqn:Eyz; intros L1 L2.
    - rewrite (e_trans s G x y z Hx Hy Hz Exy Eyz). apply (IH la lb lc); assumption.
    - rewrite (e_congr s G x y z Hx Hy Hz Exy), Eyz.
      destruct (l_congr s G x y z Hx Hy Hz Exy) as [-> _]. exact L2.
    - assert (Exz : eqb x z = false).
      { rewrite (e_sym s G x z Hx Hz).
        rewrite (e_sym s G y z Hy Hz) in Eyz.
        rewrite (e_congr s G z y x Hz Hy Hx Eyz).
        rewrite (e_sym s G y x Hy Hx). exact Exy. }
      rewrite Exz.
      destruct (l_congr s G y z x Hy Hz Hx Eyz) as [_ <-]. exact L1.
    - destruct (eqb x z) eqn:Exz.
      + exfalso.
        destruct (l_congr s G x z y Hx Hz Hy Exz) as [E1 _].
        rewrite E1 in L1.
        pose proof (l_tot s G y z Hy Hz Eyz) as T. rewrite L1, L2 in T. discriminate.
      + apply (l_trans s G x y z); assumption.
  Qed.

  Lemma lex_lt_congr : forall ss, Forall Good ss -> forall la lb lc,
    LD la ss -> LD lb ss -> LD lc ss ->
    leq la lb = true -> llt la lc = llt lb lc /\ llt lc la = llt lc lb.
  Proof.
    intros ss Hss. induction Hss as [|s ss G Hss IH];
      intros [|x la] [|y lb] [|z lc] Ha Hb Hc;
      simpl in *; try contradiction; try discriminate; try (split; reflexivity).
    destruct Ha as [Hx Ha], Hb as [Hy Hb], Hc as [Hz Hc].
    intros E. apply andb_true_iff in E as [E E'].
    rewrite (e_sym s G z x Hz Hx), (e_sym s G z y Hz Hy).
    rewrite (e_congr s G x y z Hx Hy Hz E).
    destruct (l_congr s G x y z Hx Hy Hz E) as [-> ->].
    destruct (eqb y z).
    - apply (IH la lb lc); assumption.
    - split; reflexivity.
  Qed.

  Lemma lex_le_nlt : forall ss, Forall Good ss -> forall la lb,
    LD la ss -> LD lb ss -> lle la lb = negb (llt lb la).
  Proof.
    intros ss Hss. induction Hss as [|s ss G Hss IH]; intros [|x la] [|y lb] Ha Hb;
      simpl in *; try reflexivity; try contradiction.
    destruct Ha as [Hx Ha], Hb as [Hy Hb].
    rewrite <- (e_sym s G x y Hx Hy).
    destruct (eqb x y).
    - apply IH; assumption.
    - apply (le_nlt s G); assumption.
  Qed.

  Theorem lex_bundle : forall ss, Forall Good ss -> forall la lb lc,
    LD la ss -> LD lb ss -> LD lc ss ->
    ord_bundle lcmp leq llt lle la lb lc.
  Proof.
    intros ss Hss la lb lc Ha Hb Hc. unfold ord_bundle.
    split; [apply (lex_cmp ss); assumption|].
    split; [apply (lex_refl ss); assumption|].
    split; [apply (lex_sym ss); assumption|].
    split; [apply (lex_trans ss); assumption|].
    split; [apply (lex_lt_eq ss); assumption|].
    split; [apply (lex_lt_tot ss); assumption|].
    split; [apply (lex_lt_trans ss); assumption|].
    split; [apply (lex_lt_congr ss); assumption|].
    apply (lex_le_nlt ss); assumption.
  Qed.

  Lemma LD_repeat : forall s, (forall a, D s a) -> forall l n,
    (length l <= n)%nat -> LD l (repeat s n).
  Proof.
    intros s H l. induction l as [|x l IH]; intros [|n] Hn; simpl in *; try exact I.
    - inversion Hn.
    - split; [apply H | apply IH; apply le_S_n; exact Hn].
  Qed.
End Lex.

(* total-domain corollary: when every element satisfies the bundle, so does every list *)
Lemma lex_bundle_total {A} (cmpb eqb ltb leb : A -> A -> bool) :
  (forall a b c, ord_bundle cmpb eqb ltb leb a b c) ->
  forall la lb lc,
  ord_bundle (lex_comparable eqb cmpb) (lex_eqb eqb) (lex_ltb eqb ltb) (lex_leb eqb leb)
    la lb lc.
Proof.
  intros H la lb lc.
  set (n := (length la + length lb + length lc)%nat).
  apply (lex_bundle A unit (fun _ _ => True) cmpb eqb ltb leb (repeat tt n)).
  - generalize n. intros m. induction m; simpl; constructor; [|assumption].
    intros a b c _ _ _. apply H.
  - apply LD_repeat; [intros; exact I | unfold n; lia].
  - apply LD_repeat; [intros; exact I | unfold n; lia].
  - apply LD_repeat; [intros; exact I | unfold n; lia].
Qed.

(* ---------- base instances --------------------------------------------------------- *)

Lemma Z_bundle : forall x y z : Z, ord_bundle (fun _ _ => true) Z.eqb Z.ltb Z.leb x y z.
Proof.
  intros x y z. unfold ord_bundle.
  repeat split; intros;
    repeat match goal with
    | H : context [Z.eqb ?a ?b] |- _ => destruct (Z.eqb_spec a b)
    | H : context [Z.ltb ?a ?b] |- _ => destruct (Z.ltb_spec a b)
    | |- context [Z.eqb ?a ?b] => destruct (Z.eqb_spec a b)
    | |- context [Z.ltb ?a ?b] => destruct (Z.ltb_spec a b)
    | |- context [Z.leb ?a ?b] => destruct (Z.leb_spec a b)
    end; try reflexivity; try discriminate; try lia.
Qed.

Lemma N_bundle : forall x y z : N, ord_bundle (fun _ _ => true) N.eqb N.ltb N.leb x y z.
Proof.
  intros x y z. unfold ord_bundle.
  repeat split; intros;
    repeat match goal with
    | H : context [N.eqb ?a ?b] |- _ => destruct (N.eqb_spec a b)
    | H : context [N.ltb ?a ?b] |- _ => destruct (N.ltb_spec a b)
    | |- context [N.eqb ?a ?b] => destruct (N.eqb_spec a b)
    | |- context [N.ltb ?a ?b] => destruct (N.ltb_spec a b)
    | |- context [N.leb ?a ?b] => destruct (N.leb_spec a b)
    end; try reflexivity; try discriminate; try lia.
Qed.

Lemma ord_bundle_cmp {A} (c1 c2 eqb ltb leb : A -> A -> bool) a b c :
  ord_bundle c1 eqb ltb leb a b c -> c2 a b = true -> ord_bundle c2 eqb ltb leb a b c.
Proof. unfold ord_bundle. intros [_ H] E. split; assumption. Qed.

Lemma lex_eqb_list_eqb {A} (e : A -> A -> bool) : forall a b, lex_eqb e a b = list_eqb e a b.
Proof. induction a as [|x a IH]; intros [|y b]; simpl; try reflexivity. rewrite IH; reflexivity. Qed.

Lemma str_bundle : forall a b c : list N,
  ord_bundle (fun _ _ => true) str_eqb str_ltb str_leb a b c.
Proof.
  intros a b c.
  pose proof (lex_bundle_total _ _ _ _ N_bundle a b c) as H.
  apply (ord_bundle_cmp _ (fun _ _ => true)) in H; [|reflexivity].
  unfold ord_bundle in *. unfold str_eqb, str_ltb, str_leb.
  rewrite <- !lex_eqb_list_eqb. exact H.
Qed.

Lemma path_bundle : forall a b c : list (list N),
  ord_bundle (fun _ _ => true) path_eqb path_ltb path_leb a b c.
Proof.
  intros a b c.
  pose proof (lex_bundle_total _ _ _ _ str_bundle a b c) as H.
  apply (ord_bundle_cmp _ (fun _ _ => true)) in H; [|reflexivity].
  exact H.
Qed.

(* ---------- values --------------------------------------------------------------- *)

Definition in_shape (s : shape) (v : pyval) : Prop := has_shape v s = true.

Lemma LD_has_shape : forall l ss,
  prefix_all2 has_shape l ss = true -> LD pyval shape in_shape l ss.
Proof.
  induction l as [|x l IH]; intros [|s ss] H; simpl in *; try exact I; try discriminate.
  apply andb_true_iff in H as [H1 H2]. split; [exact H1 | apply IH; exact H2].
Qed.

Lemma py_bundle : forall s a b c,
  in_shape s a -> in_shape s b -> in_shape s c ->
  ord_bundle py_comparable py_eqb py_ltb py_leb a b c.
Proof.
  induction s as [ | | | ss IH] using shape_ind'; intros a b c Ha Hb Hc; unfold in_shape in *.
  - destruct a; try discriminate; destruct b; try discriminate; destruct c; try discriminate;
      exact (Z_bundle _ _ _).
  - destruct a; try discriminate; destruct b; try discriminate; destruct c; try discriminate.
    exact (str_bundle _ _ _).
  - destruct a; try discriminate; destruct b; try discriminate; destruct c; try discriminate.
    exact (path_bundle _ _ _).
  - destruct a as [| | |la|]; try discriminate; destruct b as [| | |lb|]; try discriminate;
      destruct c as [| | |lc|]; try discriminate.
    simpl in Ha, Hb, Hc.
    exact (lex_bundle pyval shape in_shape py_comparable py_eqb py_ltb py_leb ss IH la lb lc
             (LD_has_shape _ _ Ha) (LD_has_shape _ _ Hb) (LD_has_shape _ _ Hc)).
Qed.

(* the bundle: on the values of one shape, == is an equivalence, < is a strict weak order
   whose incomparability is ==, <= is "not >", and no comparison raises *)
Theorem py_order_on_shape : forall s a b c,
  in_shape s a -> in_shape s b -> in_shape s c ->
  py_comparable a b = true /\
  py_eqb a a = true /\
  py_eqb a b = py_eqb b a /\
  (py_eqb a b = true -> py_eqb b c = true -> py_eqb a c = true) /\
  (py_eqb a b = true -> py_ltb a b = false) /\
  (py_eqb a b = false -> py_ltb a b = negb (py_ltb b a)) /\
  (py_ltb a b = true -> py_ltb b c = true -> py_ltb a c = true) /\
  (py_eqb a b = true -> py_ltb a c = py_ltb b c /\ py_ltb c a = py_ltb c b) /\
  py_leb a b = negb (py_ltb b a).
Proof. exact py_bundle. Qed.

Lemma py_ltb_irrefl : forall s a, in_shape s a -> py_ltb a a = false.
Proof.
  intros s a Ha.
  destruct (py_order_on_shape s a a a Ha Ha Ha) as (_ & R & _ & _ & L & _). auto.
Qed.

Lemma py_ltb_asym : forall s a b, in_shape s a -> in_shape s b ->
  py_ltb a b = true -> py_ltb b a = false.
Proof.
  intros s a b Ha Hb L.
  destruct (py_order_on_shape s a b a Ha Hb Ha) as (_ & _ & Sy & _ & Leq & Lt & _).
  destruct (py_eqb a b) eqn:E.
  - rewrite Leq in L by reflexivity. discriminate.
  - rewrite Lt in L by reflexivity. destruct (py_ltb b a); [discriminate | reflexivity].
Qed.

(* transitivity of "not greater" *)
Lemma py_nlt_trans : forall s a b c, in_shape s a -> in_shape s b -> in_shape s c ->
  py_ltb b a = false -> py_ltb c b = false -> py_ltb c a = false.
Proof.
  intros s a b c Ha Hb Hc N1 N2.
  destruct (py_ltb c a) eqn:L; [exfalso | reflexivity].
  destruct (py_order_on_shape s a b c Ha Hb Hc) as (_ & _ & _ & _ & _ & Lt & _ & Cg & _).
  destruct (py_eqb a b) eqn:E.
  - destruct (Cg eq_refl) as [_ C2]. congruence.
  - specialize (Lt eq_refl). rewrite N1 in Lt. simpl in Lt.
    destruct (py_order_on_shape s c a b Hc Ha Hb) as (_ & _ & _ & _ & _ & _ & Tr & _).
    rewrite (Tr L Lt) in N2. discriminate.
Qed.

(* Python's <= restricted to one shape is a total preorder, never raises, and < is its
   strict part *)
Theorem py_le_total_on_kind : forall s a b c,
  in_shape s a -> in_shape s b -> in_shape s c ->
  py_le a a = Some true /\
  (py_le a b = Some true \/ py_le b a = Some true) /\
  (py_le a b = Some true -> py_le b c = Some true -> py_le a c = Some true) /\
  py_lt a b = option_map negb (py_le b a) /\
  (exists r, py_lt a b = Some r).
Proof.
  intros s a b c Ha Hb Hc. unfold py_le, py_lt.
  assert (Cmp : forall u v, in_shape s u -> in_shape s v -> py_comparable u v = true).
  { intros u v Hu Hv. apply (py_order_on_shape s u v u Hu Hv Hu). }
  assert (Le : forall u v, in_shape s u -> in_shape s v -> py_leb u v = negb (py_ltb v u)).
  { intros u v Hu Hv. apply (py_order_on_shape s u v u Hu Hv Hu). }
  rewrite !Cmp by assumption. rewrite !Le by assumption. simpl.
  split; [|split; [|split; [|split]]].
  - rewrite (py_ltb_irrefl s a Ha). reflexivity.
  - destruct (py_ltb b a) eqn:L.
    + right. rewrite (py_ltb_asym s b a Hb Ha L). reflexivity.
    + left. reflexivity.
  - intros H1 H2.
    assert (N1 : py_ltb b a = false) by (destruct (py_ltb b a); [discriminate|reflexivity]).
    assert (N2 : py_ltb c b = false) by (destruct (py_ltb c b); [discriminate|reflexivity]).
    rewrite (py_nlt_trans s a b c Ha Hb Hc N1 N2). reflexivity.
  - rewrite negb_involutive. reflexivity.
  - eexists; reflexivity.
Qed.

(* ---------- concrete orders ---------------------------------------------------------- *)

Lemma py_int_lt : forall x y, py_lt (VInt x) (VInt y) = Some (Z.ltb x y).
Proof. reflexivity. Qed.

Lemma py_str_lt_nil_cons : forall c s, py_lt (VStr []) (VStr (c :: s)) = Some true.
Proof. reflexivity. Qed.

Lemma py_str_lt_cons : forall c d s t, py_lt (VStr (c :: s)) (VStr (d :: t)) =
  Some (if N.eqb c d then str_ltb s t else N.ltb c d).
Proof. reflexivity. Qed.

Lemma py_tuple_lt_cons : forall x y la lb,
  py_comparable (VTuple (x :: la)) (VTuple (y :: lb)) = true ->
  py_lt (VTuple (x :: la)) (VTuple (y :: lb)) =
  if py_eqb x y then py_lt (VTuple la) (VTuple lb) else py_lt x y.
Proof.
  intros x y la lb H. unfold py_lt. rewrite H.
  change (py_comparable (VTuple (x :: la)) (VTuple (y :: lb)))
    with (if py_eqb x y then py_comparable (VTuple la) (VTuple lb) else py_comparable x y) in H.
  change (py_ltb (VTuple (x :: la)) (VTuple (y :: lb)))
    with (if py_eqb x y then py_ltb (VTuple la) (VTuple lb) else py_ltb x y).
  destruct (py_eqb x y); rewrite H; reflexivity.
Qed.

(* Python's == is reflexive on every value of the model (there is no NaN) *)
Lemma py_eqb_refl : forall v, py_eqb v v = true.
Proof.
  induction v as [z|s|b|l IH|p] using pyval_ind'.
  - simpl. apply Z.eqb_refl.
  - simpl. apply str_eqb_refl.
  - destruct b; reflexivity.
  - change (lex_eqb py_eqb l l = true).
    induction IH as [|v l Hv _ IHl]; simpl; [reflexivity|].
    rewrite Hv. exact IHl.
  - destruct (path_bundle p p p) as (_ & H & _). exact H.
Qed.

(* the shorter-prefix rule: a tuple is smaller than each of its proper extensions *)
Lemma py_tuple_lt_prefix : forall la x lb,
  py_lt (VTuple la) (VTuple (la ++ x :: lb)) = Some true.
Proof.
  intros la x lb. unfold py_lt.
  change (py_comparable (VTuple la) (VTuple (la ++ x :: lb)))
    with (lex_comparable py_eqb py_comparable la (la ++ x :: lb)).
  change (py_ltb (VTuple la) (VTuple (la ++ x :: lb)))
    with (lex_ltb py_eqb py_ltb la (la ++ x :: lb)).
  induction la as [|v la IH]; simpl; [reflexivity|].
  rewrite py_eqb_refl. exact IH.
Qed.

Lemma py_tuple_lt_prefix_shaped : forall la x lb,
  Forall (fun v => exists s, in_shape s v) la ->
  py_lt (VTuple la) (VTuple (la ++ x :: lb)) = Some true.
Proof. intros la x lb _. apply py_tuple_lt_prefix. Qed.

Lemma py_lt_mixed : py_lt (VInt 1) (VStr [49%N]) = None.
Proof. reflexivity. Qed.
