(* UTF-8 as CPython's str.encode("utf-8") / bytes.decode("utf-8") (strict error handler).   *)
(* A str is a list of code points, bytes a list of N below 256.  Model only, no proofs.      *)
From Tempren Require Import Base.Str.
Open Scope N_scope.

(* Unicode scalar values: what a well-formed str consists of (no lone surrogates). *)
Definition is_surrogate (c : N) : bool := (55296 <=? c) && (c <? 57344).        (* D800..DFFF *)
Definition is_scalar (c : N) : bool := (c <? 1114112) && negb (is_surrogate c).  (* < 110000  *)

(* ---------- encoder ---------------------------------------------------------------------- *)
Definition utf8_encode_cp (c : N) : list N :=
  if c <? 128 then [c]
  else if c <? 2048 then [192 + c / 64; 128 + c mod 64]
  else if c <? 65536 then [224 + c / 4096; 128 + (c / 64) mod 64; 128 + c mod 64]
  else [240 + c / 262144; 128 + (c / 4096) mod 64; 128 + (c / 64) mod 64; 128 + c mod 64].

Definition utf8_encode (s : str) : list N := flat_map utf8_encode_cp s.

(* str.encode raises UnicodeEncodeError on a lone surrogate: None *)
Definition utf8_encode_strict (s : str) : option (list N) :=
  if forallb is_scalar s then Some (utf8_encode s) else None.

(* ---------- decoder (strict): a real decoder, not an inverse by construction -------------- *)
(* rejects stray continuation bytes, truncated sequences, overlong forms (C0, C1, E0 80..9F, *)
(* F0 80..8F), surrogates (ED A0..BF), anything above 10FFFF (F4 90.., F5..FF); None mirrors *)
(* UnicodeDecodeError.                                                                       *)
Definition is_cont (b : N) : bool := (128 <=? b) && (b <? 192).

Fixpoint utf8_decode (bs : list N) : option str :=
  match bs with
  | [] => Some []
  | b0 :: r =>
    if b0 <? 128 then option_map (cons b0) (utf8_decode r)
    else if b0 <? 194 then None
    else if b0 <? 224 then
      match r with
      | b1 :: r1 =>
        if is_cont b1 then option_map (cons ((b0 - 192) * 64 + (b1 - 128))) (utf8_decode r1) else None
      | _ => None
      end
    else if b0 <? 240 then
      match r with
      | b1 :: b2 :: r2 =>
        let c := (b0 - 224) * 4096 + (b1 - 128) * 64 + (b2 - 128) in
        if is_cont b1 && is_cont b2 && (2048 <=? c) && negb (is_surrogate c)
        then option_map (cons c) (utf8_decode r2) else None
      | _ => None
      end
    else if b0 <? 245 then
      match r with
      | b1 :: b2 :: b3 :: r3 =>
        let c := (b0 - 240) * 262144 + (b1 - 128) * 4096 + (b2 - 128) * 64 + (b3 - 128) in
        if is_cont b1 && is_cont b2 && is_cont b3 && (65536 <=? c) && (c <? 1114112)
        then option_map (cons c) (utf8_decode r3) else None
      | _ => None
      end
    else None
  end.
