(* C20, composition with the template language: from the template TEXT to argv.              *)
(*                                                                                            *)
(* The glue the real code has between the parsed tree (Tpl/Ast.v) and the tag (Tags/AdHoc.v): *)
(*   TemplateCompiler._rewrite_tag_placeholder:                                               *)
(*       tag = tag_factory( *tag_placeholder.args, **tag_placeholder.kwargs )                 *)
(*   AdHocTagFactoryFromExecutable.__call__( *args, **kwargs ):                               *)
(*       tag = AdHocTag(self._executable_path); tag.configure( *args, **kwargs )              *)
(*   AdHocTag.configure(self, *positional_args: str, timeout_ms: int = 3000):                 *)
(*       self.args = positional_args; self.timeout_ms = timeout_ms                            *)
(*   AdHocTag.process: command_line = [str(exe)] + list(self.args) (+ [str(relative_path)])   *)
(*       subprocess.run(command_line, ..., timeout=self.timeout_ms / 1000, ...)               *)
(*                                                                                            *)
(* Two steps, kept apart because the real code keeps them apart:                              *)
(*  1. [adhoc_configure]: CPython's argument binding for configure (the binder of             *)
(*     Tpl/Signature.v, the one property C13 is about, on configure's own signature).  The    *)
(*     annotations ": str" and ": int" are not checked by Python, so the VALUES are stored    *)
(*     as they are, whatever their type; only an unknown keyword is refused (TypeError ->     *)
(*     ConfigurationError).                                                                   *)
(*  2. [adhoc_args_of]: the strings that reach argv.  subprocess.run raises TypeError         *)
(*     ("expected str, bytes or os.PathLike object, not int") for an element of argv that is  *)
(*     not a string, and  timeout_ms / 1000  raises TypeError for a string timeout, both      *)
(*     before anything is started; an integer or boolean timeout (bool is an int in Python:   *)
(*     True / 1000 = 0.001) lets the program start.  So the program is started iff the        *)
(*     binding succeeds, every positional value is a string and the timeout is not a string,  *)
(*     and then the configured arguments are exactly those strings.                           *)
(* (Both facts about CPython were observed on the real AdHocTag: configure('a', 5) is         *)
(*  accepted and process raises TypeError; timeout_ms=True starts the program.)               *)
From Tempren Require Import Base.Str Py.Utf8 Tpl.Ast Tpl.Lexer Tpl.Cst Tpl.Parser Tpl.Escape
  Tpl.Visitor Tpl.Printer Tpl.RoundTrip Tags.AdHoc Tags.AdHocProofs.
From Tempren Require Tpl.Signature.
Open Scope N_scope.

(* ---------- configure's signature -------------------------------------------------------- *)
Definition s_positional_args : str :=
  [112; 111; 115; 105; 116; 105; 111; 110; 97; 108; 95; 97; 114; 103; 115].   (* "positional_args" *)
Definition s_timeout_ms : str := [116; 105; 109; 101; 111; 117; 116; 95; 109; 115]. (* "timeout_ms" *)

(* ( *positional_args: str, timeout_ms: int = 3000 ) *)
Definition adhoc_sig : Signature.sig :=
  {| Signature.s_pos := [];
     Signature.s_varpos := Some {| Signature.v_name := s_positional_args; Signature.v_ann := [115; 116; 114] |};
     Signature.s_kwonly := [ {| Signature.p_name := s_timeout_ms; Signature.p_ann := [105; 110; 116];
                                Signature.p_dflt := Some [51; 48; 48; 48] |} ];
     Signature.s_varkw := None |}.

Fixpoint kw_lookup (k : str) (kw : list (str * argval)) : option argval :=
  match kw with
  | [] => None
  | (n, v) :: kw' => if str_eqb n k then Some v else kw_lookup k kw'
  end.

(* tag.configure( *ar, **kw ): None = TypeError of the binding (ConfigurationError); otherwise
   what is stored: self.args (the values as they are) and self.timeout_ms *)
Definition adhoc_configure (ar : list argval) (kw : list (str * argval)) : option (list argval * argval) :=
  match Signature.bind adhoc_sig (length ar) (map fst kw) with
  | Signature.BindOk =>
      Some (ar, match kw_lookup s_timeout_ms kw with Some v => v | None => VInt 3000 end)
  | Signature.BindErr _ => None
  end.

(* list(self.args) as an argument vector: every element has to be a string *)
Fixpoint argv_strs (vs : list argval) : option (list str) :=
  match vs with
  | [] => Some []
  | VStr s :: vs' => match argv_strs vs' with Some l => Some (s :: l) | None => None end
  | _ :: _ => None
  end.

(* self.timeout_ms / 1000 is defined for int and bool, not for str *)
Definition timeout_usable (v : argval) : bool := match v with VStr _ => false | _ => true end.

(* the configured arguments with which the program of this tag node is started; None = it is
   never started (not a tag, configure refuses the call, or process raises TypeError first) *)
Definition adhoc_args_of (t : ast) : option (list str) :=
  match t with
  | RawText _ => None
  | Tag _ _ ar kw _ _ =>
    match adhoc_configure ar kw with
    | Some (vals, tmo) => if timeout_usable tmo then argv_strs vals else None
    | None => None
    end
  end.

(* the tag node  %cat.name(args..., timeout_ms=tmo){ctx}  of Tpl/Ast.v *)
Definition adhoc_tag (cat : option str) (name : str) (args : list str) (tmo : option Z)
           (ctx : option pat) : ast :=
  Tag cat name (map VStr args)
      (match tmo with Some z => [(s_timeout_ms, VInt z)] | None => [] end)
      (match ctx with Some _ => true | None => false end)
      (match ctx with Some p => p | None => PNil end).

(* ---------- the binder on configure's signature ------------------------------------------- *)
Lemma firstn_nil_any {A} n : @firstn A n [] = [].
Proof. destruct n; reflexivity. Qed.

Lemma adhoc_bind_kws_cons k rest :
  Signature.bind_kws adhoc_sig [] (k :: rest) =
    if str_eqb k s_timeout_ms
    then match rest with
         | [] => inr [k]
         | k2 :: _ => if str_eqb k2 k then inl (Signature.Multiple k2) else inl (Signature.Unexpected k2)
         end
    else inl (Signature.Unexpected k).
Proof.
  cbn [Signature.bind_kws Signature.mem_str].
  change (Signature.mem_str k (Signature.kw_names adhoc_sig)) with (str_eqb k s_timeout_ms || false).
  change (Signature.has_varkw adhoc_sig) with false.
  rewrite !Bool.orb_false_r.
  destruct (str_eqb k s_timeout_ms) eqn:E; [|reflexivity].
  destruct rest as [|k2 rest]; [reflexivity|].
  cbn [Signature.bind_kws Signature.mem_str]. rewrite Bool.orb_false_r.
  destruct (str_eqb k2 k) eqn:E2; [reflexivity|].
  change (Signature.mem_str k2 (Signature.kw_names adhoc_sig)) with (str_eqb k2 s_timeout_ms || false).
  change (Signature.has_varkw adhoc_sig) with false.
  rewrite !Bool.orb_false_r.
  apply str_eqb_spec in E. subst k. rewrite E2. reflexivity.
Qed.

(* configure accepts a call iff its only keyword, if any, is timeout_ms (once) *)
Lemma adhoc_bind_ok n kws :
  Signature.bind adhoc_sig n kws = Signature.BindOk <-> kws = [] \/ kws = [s_timeout_ms].
Proof.
  split.
  - unfold Signature.bind. destruct (Signature.mem_str Signature.receiver kws); [discriminate|].
    unfold Signature.bind_configure, Signature.filled_positionally.
    change (Signature.pos_names adhoc_sig) with (@nil str). rewrite firstn_nil_any.
    destruct kws as [|k rest]; [left; reflexivity|].
    rewrite adhoc_bind_kws_cons.
    destruct (str_eqb k s_timeout_ms) eqn:E; [|discriminate].
    apply str_eqb_spec in E. subst k.
    destruct rest as [|k2 rest]; [right; reflexivity|].
    destruct (str_eqb k2 s_timeout_ms); discriminate.
  - intros [->| ->]; unfold Signature.bind, Signature.bind_configure, Signature.filled_positionally;
      change (Signature.pos_names adhoc_sig) with (@nil str); rewrite firstn_nil_any;
      change (Signature.has_varpos adhoc_sig) with true; cbn [negb];
      cbv beta iota delta [Signature.mem_str Signature.receiver Signature.bind_kws];
      cbn; rewrite ?Bool.andb_false_r; reflexivity.
Qed.

Lemma argv_strs_map args : argv_strs (map VStr args) = Some args.
Proof. induction args as [|a args IH]; simpl; [reflexivity|rewrite IH; reflexivity]. Qed.

Lemma argv_strs_inv vs : forall l, argv_strs vs = Some l -> vs = map VStr l.
Proof.
  induction vs as [|v vs IH]; simpl; intros l H.
  - inversion H. reflexivity.
  - destruct v as [z|b|s]; try discriminate.
    destruct (argv_strs vs) as [l'|]; [|discriminate].
    inversion H. subst l. simpl. f_equal. apply IH. reflexivity.
Qed.

(* what [adhoc_args_of] says, without the binder: the program of a tag node is started with the
   configured arguments [args] iff the positional arguments are exactly these strings and the
   only keyword, if any, is timeout_ms with a value that is not a string *)
Theorem adhoc_args_of_spec c n ar kw h x args :
  adhoc_args_of (Tag c n ar kw h x) = Some args <->
  ar = map VStr args /\
  (kw = [] \/ exists v, kw = [(s_timeout_ms, v)] /\ timeout_usable v = true).
Proof.
  unfold adhoc_args_of, adhoc_configure. split.
  - destruct (Signature.bind adhoc_sig (length ar) (map fst kw)) eqn:B; [|discriminate].
    apply adhoc_bind_ok in B.
    destruct (timeout_usable _) eqn:T; [|discriminate].
    intros H. split; [apply argv_strs_inv; exact H|].
    destruct B as [B|B].
    + left. destruct kw; [reflexivity|discriminate].
    + right. destruct kw as [|[k v] [|? ?]]; try discriminate.
      simpl in B. inversion B. subst k. exists v. split; [reflexivity|].
      simpl in T. exact T.
  - intros [-> [->|(v & -> & T)]].
    + change (map fst (@nil (str * argval))) with (@nil str).
      rewrite (proj2 (adhoc_bind_ok (length (map VStr args)) []) (or_introl eq_refl)).
      simpl. apply argv_strs_map.
    + change (map fst [(s_timeout_ms, v)]) with [s_timeout_ms].
      rewrite (proj2 (adhoc_bind_ok (length (map VStr args)) [s_timeout_ms]) (or_intror eq_refl)).
      simpl. rewrite T. apply argv_strs_map.
Qed.

Lemma adhoc_args_of_tag cat name args tmo ctx :
  adhoc_args_of (adhoc_tag cat name args tmo ctx) = Some args.
Proof.
  unfold adhoc_tag. apply adhoc_args_of_spec. split; [reflexivity|].
  destruct tmo as [z|]; [right; exists (VInt z); split; reflexivity|left; reflexivity].
Qed.

(* ---------- well-formedness of the tag node ------------------------------------------------ *)
Lemma forallb_wf_val_strs args :
  (forall a, In a args -> last_is_backslash a = false) -> forallb wf_val (map VStr args) = true.
Proof.
  intros H. apply forallb_forall. intros v Hv. apply in_map_iff in Hv as (a & <- & Ha).
  simpl. rewrite (H a Ha). reflexivity.
Qed.

Lemma adhoc_tag_wf cat name args tmo ctx :
  wf_cat cat = true -> is_id name = true ->
  (forall a, In a args -> last_is_backslash a = false) ->
  (forall p, ctx = Some p -> wf_pat p = true) ->
  wf_pat (PCons (adhoc_tag cat name args tmo ctx) PNil) = true.
Proof.
  intros Hc Hn Ha Hx. unfold adhoc_tag.
  cbn [wf_pat wf_ast is_raw andb negb].
  rewrite Hc, Hn, (forallb_wf_val_strs args Ha). cbn [andb].
  assert (K : forallb wf_kw (match tmo with Some z => [(s_timeout_ms, VInt z)] | None => [] end) = true
              /\ nodup_str (map fst (match tmo with Some z => [(s_timeout_ms, VInt z)] | None => [] end)) = true).
  { destruct tmo; split; reflexivity. }
  destruct K as [K1 K2]. rewrite K1, K2. cbn [andb].
  destruct ctx as [p|]; [rewrite (Hx p eq_refl)|]; reflexivity.
Qed.

(* ---------- from the template text to argv ------------------------------------------------- *)
(* For every spelling style (either quote mark, any blanks between the tokens of the argument
   list, timeout_ms before, after or among the positional arguments, () or nothing before a
   context) the text printed for a tag with the string arguments [args] is parsed back to
   that tag, [args] are its configured arguments, and the program is started with exactly
   [args], in order, between its own path and (without a context) the file's path.
   [render] stands for PatternElementSequence.process on the context pattern: whatever text
   the context renders to, a context there is iff the tag was written with one. *)
Theorem args_from_template : forall sty cat name (args : list str) tmo ctx_pat,
  wf_style sty = true ->
  wf_cat cat = true -> is_id name = true ->
  (forall a, In a args -> last_is_backslash a = false) ->
  (forall p, ctx_pat = Some p -> wf_pat p = true) ->
  forall t, t = adhoc_tag cat name args tmo ctx_pat ->
  parse (print sty (PCons t PNil)) = Ok (PCons t PNil) /\
  adhoc_args_of t = Some args /\
  forall (render : pat -> str) exe rel dir i,
    adhoc_invocation exe args rel dir (option_map render ctx_pat) = Some i ->
    inv_argv i = exe :: args ++ match ctx_pat with None => [rel] | Some _ => [] end.
Proof.
  intros sty cat name args tmo ctx_pat Hs Hc Hn Ha Hx t ->.
  split; [apply roundtrip; [exact Hs|apply adhoc_tag_wf; assumption]|].
  split; [apply adhoc_args_of_tag|].
  intros render exe rel dir i H.
  destruct ctx_pat as [p|]; simpl in H.
  - destruct (utf8_encode_strict (render p)); [|discriminate]. inversion H. simpl.
    rewrite app_nil_r. reflexivity.
  - inversion H. reflexivity.
Qed.

(* no joining, no splitting: two argument lists that are spelled by the same text are the same
   list (same number of arguments, same strings, same order) *)
Lemma map_VStr_inj a b : map VStr a = map VStr b -> a = b.
Proof.
  revert b. induction a as [|x a IH]; intros [|y b] H; try discriminate; [reflexivity|].
  simpl in H. inversion H. f_equal. apply IH. assumption.
Qed.

Theorem args_text_injective : forall sty1 sty2 cat1 cat2 name1 name2 (args1 args2 : list str) tmo1 tmo2,
  wf_style sty1 = true -> wf_style sty2 = true ->
  wf_cat cat1 = true -> wf_cat cat2 = true -> is_id name1 = true -> is_id name2 = true ->
  (forall a, In a args1 -> last_is_backslash a = false) ->
  (forall a, In a args2 -> last_is_backslash a = false) ->
  print sty1 (PCons (adhoc_tag cat1 name1 args1 tmo1 None) PNil) =
  print sty2 (PCons (adhoc_tag cat2 name2 args2 tmo2 None) PNil) ->
  args1 = args2.
Proof.
  intros sty1 sty2 cat1 cat2 name1 name2 args1 args2 tmo1 tmo2 Hs1 Hs2 Hc1 Hc2 Hn1 Hn2 Ha1 Ha2 E.
  assert (W : forall p : pat, @None pat = Some p -> wf_pat p = true) by (intros p H; discriminate).
  pose proof (roundtrip sty1 _ Hs1 (adhoc_tag_wf cat1 name1 args1 tmo1 None Hc1 Hn1 Ha1 W)) as R1.
  pose proof (roundtrip sty2 _ Hs2 (adhoc_tag_wf cat2 name2 args2 tmo2 None Hc2 Hn2 Ha2 W)) as R2.
  rewrite E, R2 in R1. inversion R1. apply map_VStr_inj. first [assumption | symmetry; assumption].
Qed.
