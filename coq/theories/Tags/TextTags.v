(* Models of the shape-contract text tags of tempren/tags/text.py:                *)
(*   Trim, Pad, Strip, Collapse, SplitCase  (direct list functions)                 *)
(*   Upper / Lower / Unidecode as character-wise maps over section tables.          *)
(* Every function takes (arguments, context) only: file- and history-independence   *)
(* hold in the model by typing; that the implementation has this shape is checked   *)
(* by the correspondence (harness/c18.py).                                          *)
From Tempren Require Import Base.Str.
Open Scope Z_scope.

Definition mem (c : N) (set : str) : bool := existsb (N.eqb c) set.

(* ---------- Python slicing s[a:b] (step 1) ---------------------------------- *)
Definition norm_index (len i : Z) : Z :=
  let j := if i <? 0 then i + len else i in Z.max 0 (Z.min len j).

Definition py_slice (s : str) (a b : option Z) : str :=
  let len := Z.of_nat (length s) in
  let lo := match a with None => 0 | Some i => norm_index len i end in
  let hi := match b with None => len | Some i => norm_index len i end in
  firstn (Z.to_nat (hi - lo)) (skipn (Z.to_nat lo) s).

(* ---------- Trim(width, left, right) ---------------------------------------- *)
(* configure asserts: width != 0, not (left and right), left or right *)
Definition trim_cfg_ok (w : Z) (left right : bool) : bool :=
  negb (w =? 0) && negb (left && right) && (left || right).

(* process: left -> context[-width:], otherwise context[:width] *)
Definition trim (w : Z) (left : bool) (s : str) : str :=
  if left then py_slice s (Some (- w)) None else py_slice s None (Some w).

(* ---------- Pad(width, character, left, right) ------------------------------- *)
Definition pad_cfg_ok (w : Z) (ch : str) (left right : bool) : bool :=
  (0 <? w) && Nat.eqb (length ch) 1 && (left || right).

Definition pad (w : Z) (ch : N) (left right : bool) (s : str) : str :=
  let len := Z.of_nat (length s) in
  if w <=? len then s
  else
    let marg := w - len in
    if left && right then
      (* str.center: left = marg/2 + (marg & width & 1) *)
      let l := marg / 2 + (if Z.odd marg && Z.odd w then 1 else 0) in
      repeat_n ch (Z.to_nat l) ++ s ++ repeat_n ch (Z.to_nat (marg - l))
    else if left then repeat_n ch (Z.to_nat marg) ++ s        (* rjust *)
    else s ++ repeat_n ch (Z.to_nat marg).                    (* ljust *)

(* ---------- Strip(strip_characters, left, right) ----------------------------- *)
Fixpoint lstrip (set : str) (s : str) : str :=
  match s with
  | [] => []
  | c :: s' => if mem c set then lstrip set s' else s
  end.

Definition rstrip (set : str) (s : str) : str := rev (lstrip set (rev s)).

Definition strip_tag (set : str) (left right : bool) (s : str) : str :=
  if left && negb right then lstrip set s
  else if right && negb left then rstrip set s
  else rstrip set (lstrip set s).

(* ---------- Collapse(characters) --------------------------------------------- *)
(* re.sub('(?<=[set])[set]+', '', s): every listed character whose predecessor IN THE
   INPUT is listed disappears *)
Fixpoint collapse_from (set : str) (prev_in : bool) (s : str) : str :=
  match s with
  | [] => []
  | c :: s' =>
    let inset := mem c set in
    if prev_in && inset then collapse_from set true s'
    else c :: collapse_from set inset s'
  end.

Definition collapse (set : str) (s : str) : str := collapse_from set false s.

(* ---------- SplitCase(separator) --------------------------------------------- *)
(* re.sub('([a-z])([A-Z])', r'\1<sep>\2', s): ASCII classes, matches cannot overlap *)
Fixpoint split_case (sep : str) (s : str) : str :=
  match s with
  | [] => []
  | a :: s' =>
    match s' with
    | b :: _ =>
      if is_ascii_lower a && is_ascii_upper b then a :: sep ++ split_case sep s'
      else a :: split_case sep s'
    | [] => [a]
    end
  end.

Fixpoint boundaries (s : str) : nat :=
  match s with
  | [] => O
  | a :: s' =>
    match s' with
    | b :: _ => ((if is_ascii_lower a && is_ascii_upper b then 1 else 0) + boundaries s')%nat
    | [] => O
    end
  end.

(* ---------- character-wise maps (Upper, Lower, Unidecode) -------------------- *)
Section CharMaps.
  Variable tbl : N -> str.       (* str.upper / str.lower / unidecode on one code point *)
  Definition map_chars (s : str) : str := flat_map tbl s.
End CharMaps.

(* ---------- tag-level results for the correspondence check ------------------- *)
Inductive tag_result := TOk (s : str) | TConfigError.

Definition tag_result_eqb (a b : tag_result) : bool :=
  match a, b with
  | TOk x, TOk y => str_eqb x y
  | TConfigError, TConfigError => true
  | _, _ => false
  end.

Definition trim_tag (w : Z) (left right : bool) (s : str) : tag_result :=
  if trim_cfg_ok w left right then TOk (trim w left s) else TConfigError.

Definition pad_tag (w : Z) (ch : str) (left right : bool) (s : str) : tag_result :=
  if pad_cfg_ok w ch left right then TOk (pad w (hd 32%N ch) left right s) else TConfigError.
