From Tempren Require Import Base.Str Tags.Count.
From Coq Require Import DecimalN DecimalFacts.
Open Scope Z_scope.

(* ---------- the association list behaves like a total map ------------------ *)

Lemma dirkey_eqb_spec a b : dirkey_eqb a b = true <-> a = b.
Proof. apply list_eqb_spec. apply str_eqb_spec. Qed.

Lemma dirkey_eqb_refl a : dirkey_eqb a a = true.
Proof. apply dirkey_eqb_spec; reflexivity. Qed.

Lemma dirkey_eqb_false a b : dirkey_eqb a b = false <-> a <> b.
Proof.
  split; intro H.
  - intro E. apply dirkey_eqb_spec in E. congruence.
  - destruct (dirkey_eqb a b) eqn:E; [apply dirkey_eqb_spec in E; contradiction | reflexivity].
Qed.

Lemma dir_lookup_update d v l d' dflt :
  dir_lookup d' (dir_update d v l) dflt = if dirkey_eqb d d' then v else dir_lookup d' l dflt.
Proof.
  induction l as [|[k w] l IH]; simpl.
  - reflexivity.
  - destruct (dirkey_eqb k d) eqn:Ekd; simpl.
    + apply dirkey_eqb_spec in Ekd; subst k.
      destruct (dirkey_eqb d d'); reflexivity.
    + destruct (dirkey_eqb k d') eqn:Ekd'.
      * apply dirkey_eqb_spec in Ekd'; subst k. rewrite dirkey_eqb_false in Ekd.
        destruct (dirkey_eqb d d') eqn:E; [apply dirkey_eqb_spec in E; congruence | reflexivity].
      * exact IH.
Qed.

(* ---------- closed form of the value sequence ------------------------------ *)

(* number of occurrences of d among the first i calls *)
Fixpoint occ (d : dirkey) (l : list dirkey) : nat :=
  match l with
  | [] => O
  | x :: l' => (if dirkey_eqb x d then 1 else 0)%nat + occ d l'
  end.

(* Per-directory counters: from ANY state whose common counter is off, the i-th
   value is (current counter of its directory) + (earlier calls for it) * step. *)
Lemma per_dir_closed_form c :
  forall calls st i d,
    st_common st = None ->
    nth_error calls i = Some d ->
    nth_error (count_values_from c st calls) i =
      Some (dir_lookup d (st_dirs st) (cc_start c) + Z.of_nat (occ d (firstn i calls)) * cc_step c).
Proof.
  induction calls as [|d0 rest IH]; intros st i d Hc Hi.
  - destruct i; discriminate.
  - simpl. unfold count_next. rewrite Hc.
    destruct i as [|i]; simpl in *.
    + inversion Hi; subst. f_equal. lia.
    + rewrite (IH _ i d); [|reflexivity|exact Hi]. simpl. f_equal.
      rewrite dir_lookup_update.
      destruct (dirkey_eqb d0 d) eqn:E.
      * apply dirkey_eqb_spec in E; subst d0. lia.
      * lia.
Qed.

Lemma common_closed_form c :
  forall calls st i v,
    st_common st = Some v ->
    (i < length calls)%nat ->
    nth_error (count_values_from c st calls) i = Some (v + Z.of_nat i * cc_step c).
Proof.
  induction calls as [|d0 rest IH]; intros st i v Hc Hi.
  - simpl in Hi; lia.
  - simpl. unfold count_next. rewrite Hc.
    destruct i as [|i]; cbn [nth_error length] in *.
    + f_equal; change (Z.of_nat 0) with 0; lia.
    + rewrite (IH _ i (v + cc_step c)); [|reflexivity|lia]. f_equal.
      rewrite Nat2Z.inj_succ. ring.
Qed.

Lemma count_values_length c calls st : length (count_values_from c st calls) = length calls.
Proof.
  revert st; induction calls as [|d rest IH]; intro st; simpl; [reflexivity|].
  destruct (count_next c st d) as [v st']. simpl. f_equal. apply IH.
Qed.

(* The k-th call (0-based) for directory d returns start + k*step. *)
Theorem count_per_directory c calls i d :
  cc_common c = false ->
  nth_error calls i = Some d ->
  nth_error (count_values c calls) i =
    Some (cc_start c + Z.of_nat (occ d (firstn i calls)) * cc_step c).
Proof.
  intros Hc Hi. unfold count_values.
  rewrite (per_dir_closed_form c calls (count_init c) i d); auto.
  unfold count_init; rewrite Hc; reflexivity.
Qed.

(* With the common flag the k-th call overall returns start + k*step. *)
Theorem count_common c calls i :
  cc_common c = true ->
  (i < length calls)%nat ->
  nth_error (count_values c calls) i = Some (cc_start c + Z.of_nat i * cc_step c).
Proof.
  intros Hc Hi. unfold count_values.
  apply common_closed_form; auto. unfold count_init; rewrite Hc; reflexivity.
Qed.

(* ---------- no repeats ------------------------------------------------------ *)

Lemma occ_firstn_lt d calls i j :
  (i < j)%nat -> nth_error calls i = Some d ->
  (occ d (firstn i calls) < occ d (firstn j calls))%nat.
Proof.
  revert i j; induction calls as [|x rest IH]; intros i j Hij Hi.
  - destruct i; discriminate.
  - destruct j as [|j]; [lia|]. destruct i as [|i]; simpl in *.
    + inversion Hi; subst. rewrite dirkey_eqb_refl. lia.
    + specialize (IH i j ltac:(lia) Hi). lia.
Qed.

Theorem count_injective_per_directory c calls i j d vi vj :
  cc_common c = false -> cc_step c <> 0 ->
  i <> j ->
  nth_error calls i = Some d -> nth_error calls j = Some d ->
  nth_error (count_values c calls) i = Some vi ->
  nth_error (count_values c calls) j = Some vj ->
  vi <> vj.
Proof.
  intros Hc Hs Hij Hi Hj Hvi Hvj.
  rewrite (count_per_directory c calls i d Hc Hi) in Hvi.
  rewrite (count_per_directory c calls j d Hc Hj) in Hvj.
  inversion Hvi; inversion Hvj; subst.
  assert (occ d (firstn i calls) <> occ d (firstn j calls)) as Hne.
  { destruct (Nat.lt_total i j) as [L|[L|L]]; [|contradiction|].
    - pose proof (occ_firstn_lt d calls i j L Hi); lia.
    - pose proof (occ_firstn_lt d calls j i L Hj); lia. }
  nia.
Qed.

Theorem count_injective_common c calls i j vi vj :
  cc_common c = true -> cc_step c <> 0 ->
  i <> j ->
  nth_error (count_values c calls) i = Some vi ->
  nth_error (count_values c calls) j = Some vj ->
  vi <> vj.
Proof.
  intros Hc Hs Hij Hvi Hvj.
  assert (Li : (i < length calls)%nat).
  { rewrite <- (count_values_length c calls (count_init c)). apply nth_error_Some.
    unfold count_values in Hvi. congruence. }
  assert (Lj : (j < length calls)%nat).
  { rewrite <- (count_values_length c calls (count_init c)). apply nth_error_Some.
    unfold count_values in Hvj. congruence. }
  rewrite (count_common c calls i Hc Li) in Hvi.
  rewrite (count_common c calls j Hc Lj) in Hvj.
  inversion Hvi; inversion Hvj; subst. nia.
Qed.

(* ---------- rendering: raise exactly on negative values -------------------- *)

Lemma render_count_raise w v : render_count w v = CRaise <-> v < 0.
Proof.
  unfold render_count. destruct (v <? 0) eqn:E.
  - apply Z.ltb_lt in E. tauto.
  - apply Z.ltb_ge in E. destruct (w =? 0); split; intro H; try discriminate; lia.
Qed.

(* ---------- zfill: padded, never truncated --------------------------------- *)

Lemma zfill_length w s : length (zfill w s) = Nat.max w (length s).
Proof. unfold zfill. rewrite app_length, repeat_n_length. lia. Qed.

Lemma zfill_suffix w s : exists z, zfill w s = z ++ s /\ forall c, In c z -> c = 48%N.
Proof.
  exists (repeat_n 48%N (w - length s)). split; [reflexivity|]. apply repeat_n_all.
Qed.

Lemma str_to_uint_zeros n s :
  str_to_uint (repeat_n 48%N n ++ s) =
  option_map (fun d => Nat.iter n Decimal.D0 d) (str_to_uint s).
Proof.
  induction n as [|n IH]; simpl.
  - destruct (str_to_uint s); reflexivity.
  - rewrite IH. destruct (str_to_uint s); reflexivity.
Qed.

Lemma of_uint_iter_D0 n d : N.of_uint (Nat.iter n Decimal.D0 d) = N.of_uint d.
Proof. induction n; simpl; auto. Qed.

Lemma N_of_decimal_zeros n s x :
  N_of_decimal s = Some x -> N_of_decimal (repeat_n 48%N n ++ s) = Some x.
Proof.
  intro H. unfold N_of_decimal in *.
  destruct s as [|c s']; [discriminate|].
  destruct (repeat_n 48%N n ++ c :: s') eqn:E.
  - destruct n; discriminate.
  - rewrite <- E. rewrite str_to_uint_zeros.
    destruct (str_to_uint (c :: s')) as [d|]; [|discriminate]. simpl in *.
    inversion H; subst. f_equal. apply of_uint_iter_D0.
Qed.

(* Reading a zero-filled non-negative number back gives the number. *)
Lemma Z_of_decimal_zfill w v :
  0 <= v -> Z_of_decimal (zfill w (decimal_Z v)) = Some v.
Proof.
  intro Hv. unfold zfill.
  assert (E : decimal_Z v = decimal_N (Z.to_N v)) by (destruct v; [reflexivity|reflexivity|lia]).
  rewrite E.
  set (n := (w - length (decimal_N (Z.to_N v)))%nat).
  pose proof (N_of_decimal_zeros n _ _ (N_of_decimal_print (Z.to_N v))) as H.
  unfold Z_of_decimal.
  destruct (repeat_n 48%N n ++ decimal_N (Z.to_N v)) as [|c r] eqn:Er.
  - unfold N_of_decimal in H; discriminate.
  - assert (Hc : is_digit c = true).
    { destruct n as [|n]; simpl in Er.
      - eapply decimal_N_head_digit; eauto.
      - inversion Er; reflexivity. }
    destruct (c =? 45)%N eqn:Ec.
    + apply N.eqb_eq in Ec; subst; discriminate.
    + rewrite H. simpl. f_equal. lia.
Qed.

Theorem zfill_spec w v :
  0 <= v ->
  let t := zfill w (decimal_Z v) in
  length t = Nat.max w (length (decimal_Z v)) /\
  Z_of_decimal t = Some v /\
  exists z, t = z ++ decimal_Z v /\ forall c, In c z -> c = 48%N.
Proof.
  intros Hv t. split; [apply zfill_length|]. split; [apply Z_of_decimal_zfill; exact Hv|].
  apply zfill_suffix.
Qed.

(* ---------- names built from distinct values are distinct ------------------ *)

Lemma count_text_injective w v v' s :
  0 <= v -> 0 <= v' ->
  count_text (render_count w v) = Some s ->
  count_text (render_count w v') = Some s ->
  v = v'.
Proof.
  intros Hv Hv'. unfold render_count.
  destruct (v <? 0) eqn:E1; [apply Z.ltb_lt in E1; lia|].
  destruct (v' <? 0) eqn:E2; [apply Z.ltb_lt in E2; lia|].
  destruct (w =? 0); simpl; intros H1 H2; inversion H1; inversion H2; subst.
  - pose proof (Z_of_decimal_print v) as P1. pose proof (Z_of_decimal_print v') as P2. congruence.
  - pose proof (Z_of_decimal_zfill (Z.to_nat w) v Hv) as P1.
    pose proof (Z_of_decimal_zfill (Z.to_nat w) v' Hv') as P2. congruence.
Qed.

Theorem count_names_distinct w v v' t t' (pre post : str) :
  0 <= v -> 0 <= v' -> v <> v' ->
  count_text (render_count w v) = Some t ->
  count_text (render_count w v') = Some t' ->
  pre ++ t ++ post <> pre ++ t' ++ post.
Proof.
  intros Hv Hv' Hne Ht Ht' E.
  apply app_inv_head in E. apply app_inv_tail in E. subst t'.
  apply Hne. eapply count_text_injective; eauto.
Qed.
