(* Proofs about Tags/AdHoc.v. *)
From Tempren Require Import Base.Str Py.Utf8 Py.Utf8Proofs Tags.TextTags Tags.TextTagsProofs Tags.AdHoc.
Open Scope N_scope.

(* ---------- the invocation ------------------------------------------------------------------ *)

Theorem invocation_no_context exe args rel dir :
  adhoc_invocation exe args rel dir None = Some (mkInv (exe :: args ++ [rel]) None dir).
Proof. reflexivity. Qed.

Theorem invocation_context exe args rel dir c :
  forallb is_scalar c = true ->
  adhoc_invocation exe args rel dir (Some c) = Some (mkInv (exe :: args) (Some (utf8_encode c)) dir).
Proof. intro H. unfold adhoc_invocation, utf8_encode_strict. rewrite H. reflexivity. Qed.

Theorem invocation_empty_context exe args rel dir :
  adhoc_invocation exe args rel dir (Some []) = Some (mkInv (exe :: args) (Some []) dir).
Proof. reflexivity. Qed.

(* nothing is started exactly when the context is not well-formed text *)
Theorem invocation_none_iff exe args rel dir ctx :
  adhoc_invocation exe args rel dir ctx = None <->
  exists c, ctx = Some c /\ forallb is_scalar c = false.
Proof.
  unfold adhoc_invocation, utf8_encode_strict. destruct ctx as [c|].
  - destruct (forallb is_scalar c) eqn:E; split.
    + discriminate.
    + intros [c' [H1 H2]]. inversion H1; subst. congruence.
    + intros _. exists c. auto.
    + reflexivity.
  - split; [discriminate | intros [c [H _]]; discriminate].
Qed.

(* complete shape of whatever is started *)
Theorem invocation_shape exe args rel dir ctx i :
  adhoc_invocation exe args rel dir ctx = Some i ->
  inv_cwd i = dir /\
  ((ctx = None /\ inv_argv i = exe :: args ++ [rel] /\ inv_stdin i = None) \/
   (exists c, ctx = Some c /\ forallb is_scalar c = true /\
              inv_argv i = exe :: args /\ inv_stdin i = Some (utf8_encode c))).
Proof.
  unfold adhoc_invocation, utf8_encode_strict. destruct ctx as [c|].
  - destruct (forallb is_scalar c) eqn:E; [|discriminate].
    intro H; inversion H; subst; simpl. split; [reflexivity|]. right. exists c. auto.
  - intro H; inversion H; subst; simpl. split; [reflexivity|]. left. auto.
Qed.

Theorem path_iff_no_context exe args rel dir ctx i :
  adhoc_invocation exe args rel dir ctx = Some i ->
  (inv_argv i = exe :: args ++ [rel] <-> ctx = None) /\
  (inv_argv i = exe :: args <-> ctx <> None) /\
  (inv_stdin i = None <-> ctx = None).
Proof.
  intro H. apply invocation_shape in H as [_ [[-> [Ha Hs]]|[c [-> [_ [Ha Hs]]]]]]; rewrite Ha, Hs.
  - repeat split; auto; try congruence.
    intro E. exfalso. inversion E as [E']. apply (f_equal (@length str)) in E'.
    rewrite app_length in E'. simpl in E'. lia.
  - repeat split; try discriminate; try congruence.
    intro E. exfalso. inversion E as [E']. apply (f_equal (@length str)) in E'.
    rewrite app_length in E'. simpl in E'. lia.
Qed.

(* the program can read back exactly the context: its stdin is a byte string that decodes
   (strictly) to the context and to nothing else *)
Theorem stdin_is_context exe args rel dir c i :
  adhoc_invocation exe args rel dir (Some c) = Some i ->
  exists b, inv_stdin i = Some b /\ utf8_decode b = Some c /\ (forall x, In x b -> x < 256).
Proof.
  intro H. apply invocation_shape in H as [_ [[E _]|[c' [E [Hs [_ Hi]]]]]]; [discriminate|].
  inversion E; subst c'. exists (utf8_encode c). split; [exact Hi|]. split.
  - apply utf8_roundtrip; exact Hs.
  - apply utf8_encode_bytes; exact Hs.
Qed.

Theorem stdin_distinguishes exe args rel dir c1 c2 i1 i2 :
  adhoc_invocation exe args rel dir (Some c1) = Some i1 ->
  adhoc_invocation exe args rel dir (Some c2) = Some i2 ->
  inv_stdin i1 = inv_stdin i2 -> c1 = c2.
Proof.
  intros H1 H2 E.
  apply stdin_is_context in H1 as [b1 [S1 [D1 _]]].
  apply stdin_is_context in H2 as [b2 [S2 [D2 _]]].
  rewrite S1, S2 in E. inversion E; subst. congruence.
Qed.

(* arguments: verbatim, in order, nothing split, joined or quoted *)
Theorem args_verbatim exe args rel dir ctx i :
  adhoc_invocation exe args rel dir ctx = Some i ->
  exists tail, inv_argv i = exe :: args ++ tail /\ (tail = [] \/ tail = [rel]) /\
               length (inv_argv i) = S (length args + length tail) /\
               forall k, (k < length args)%nat -> nth_error (inv_argv i) (S k) = nth_error args k.
Proof.
  intro H. apply invocation_shape in H as [_ [[_ [Ha _]]|[c [_ [_ [Ha _]]]]]]; rewrite Ha.
  - exists [rel]. split; [reflexivity|]. split; [auto|]. split.
    + simpl. rewrite app_length. reflexivity.
    + intros k Hk. simpl. apply nth_error_app1. exact Hk.
  - exists []. rewrite app_nil_r. split; [reflexivity|]. split; [auto|]. split.
    + simpl. rewrite Nat.add_0_r. reflexivity.
    + intros k _. reflexivity.
Qed.

(* F24: the unrepaired code on an EMPTY context *)
Theorem unfixed_differs_only_on_empty exe args rel dir ctx :
  ctx <> Some [] ->
  adhoc_invocation_unfixed exe args rel dir ctx = adhoc_invocation exe args rel dir ctx.
Proof. destruct ctx as [[|c s]|]; intro H; try reflexivity. congruence. Qed.

Theorem unfixed_empty_context exe args rel dir :
  adhoc_invocation_unfixed exe args rel dir (Some []) = Some (mkInv (exe :: args) None dir).
Proof. reflexivity. Qed.

(* ---------- str.strip() -------------------------------------------------------------------- *)

Lemma py_strip_is_strip_tag s : py_strip s = strip_tag ws_table false false s.
Proof. reflexivity. Qed.

Lemma py_isspace_In c : py_isspace c = true <-> In c ws_table.
Proof.
  unfold py_isspace, mem. rewrite existsb_exists. split.
  - intros [x [Hx E]]. apply N.eqb_eq in E. subst. exact Hx.
  - intro H. exists c. split; [exact H | apply N.eqb_refl].
Qed.

Definition head_not_space (s : str) : Prop :=
  match s with [] => True | c :: _ => py_isspace c = false end.

Theorem py_strip_spec s :
  exists a b, s = a ++ py_strip s ++ b /\
              (forall c, In c a -> py_isspace c = true) /\
              (forall c, In c b -> py_isspace c = true) /\
              head_not_space (py_strip s) /\ head_not_space (rev (py_strip s)).
Proof.
  destruct (strip_contiguous ws_table false false s) as [a [b [E [Ha Hb]]]].
  destruct (strip_both_ends ws_table s) as [H1 H2].
  exists a, b. rewrite py_strip_is_strip_tag. repeat split; assumption.
Qed.

(* … and that determines the result: any way of cutting whitespace-only ends off s that leaves
   a middle part with clean ends gives py_strip s *)
Lemma lstrip_ws_prefix set a t :
  (forall c, In c a -> mem c set = true) -> lstrip set (a ++ t) = lstrip set t.
Proof.
  induction a as [|x a IH]; intro H; [reflexivity|].
  simpl. rewrite (H x) by (left; reflexivity). apply IH. intros c Hc. apply H. right. exact Hc.
Qed.

Lemma lstrip_clean_head set t :
  match t with [] => True | c :: _ => mem c set = false end -> lstrip set t = t.
Proof. destruct t as [|c t]; intro H; [reflexivity|]. simpl. rewrite H. reflexivity. Qed.

Lemma rstrip_ws_suffix set t b :
  (forall c, In c b -> mem c set = true) -> rstrip set (t ++ b) = rstrip set t.
Proof.
  intro H. unfold rstrip. rewrite rev_app_distr. rewrite lstrip_ws_prefix; [reflexivity|].
  intros c Hc. apply H. apply in_rev. exact Hc.
Qed.

Lemma rstrip_clean_last set t :
  match rev t with [] => True | c :: _ => mem c set = false end -> rstrip set t = t.
Proof. intro H. unfold rstrip. rewrite lstrip_clean_head by exact H. apply rev_involutive. Qed.

Theorem py_strip_unique s a m b :
  s = a ++ m ++ b ->
  (forall c, In c a -> py_isspace c = true) ->
  (forall c, In c b -> py_isspace c = true) ->
  head_not_space m -> head_not_space (rev m) ->
  py_strip s = m.
Proof.
  intros E Ha Hb Hm Hr. subst s. unfold py_strip.
  rewrite lstrip_ws_prefix by exact Ha.
  destruct m as [|c m].
  - simpl. rewrite <- (app_nil_r b). rewrite lstrip_ws_prefix by exact Hb. reflexivity.
  - rewrite lstrip_clean_head by exact Hm.
    rewrite rstrip_ws_suffix by exact Hb. apply rstrip_clean_last. exact Hr.
Qed.

Theorem py_strip_idempotent s : py_strip (py_strip s) = py_strip s.
Proof.
  destruct (py_strip_spec s) as [a [b [_ [_ [_ [H1 H2]]]]]].
  apply (py_strip_unique _ [] _ []); try assumption.
  - rewrite app_nil_r. reflexivity.
  - intros c [].
  - intros c [].
Qed.

Theorem py_strip_no_space s : (forall c, In c s -> py_isspace c = false) -> py_strip s = s.
Proof.
  intro H. apply (py_strip_unique _ [] _ []).
  - rewrite app_nil_r. reflexivity.
  - intros c [].
  - intros c [].
  - destruct s; [exact I|]. apply H. left. reflexivity.
  - destruct (rev s) eqn:E; [exact I|]. apply H. apply in_rev. rewrite E. left. reflexivity.
Qed.

(* ---------- the value ------------------------------------------------------------------------ *)

Theorem value_on_success stdout stderr t :
  utf8_decode stdout = Some t ->
  adhoc_outcome_of 0%Z stdout stderr = OValue (py_strip t).
Proof. intro H. unfold adhoc_outcome_of. rewrite H. reflexivity. Qed.

Theorem no_value_on_failure exit stdout stderr :
  exit <> 0%Z ->
  rendered (adhoc_outcome_of exit stdout stderr) = Some [] \/
  rendered (adhoc_outcome_of exit stdout stderr) = None.
Proof.
  intro H. unfold adhoc_outcome_of. destruct (utf8_decode stdout); [|right; reflexivity].
  replace (exit =? 0)%Z with false by (symmetry; apply Z.eqb_neq; exact H).
  destruct (utf8_decode stderr); [left|right]; reflexivity.
Qed.

(* everything that can end up in a name: empty, or the stripped standard output *)
Theorem rendered_from_stdout exit stdout stderr v :
  rendered (adhoc_outcome_of exit stdout stderr) = Some v ->
  v = [] \/ (exit = 0%Z /\ exists t, utf8_decode stdout = Some t /\ v = py_strip t).
Proof.
  unfold adhoc_outcome_of. destruct (utf8_decode stdout) as [t|]; [|discriminate].
  destruct (exit =? 0)%Z eqn:E.
  - intro H; inversion H; subst. right. apply Z.eqb_eq in E. split; [exact E|]. exists t. auto.
  - destruct (utf8_decode stderr); [|discriminate]. intro H; inversion H. left. reflexivity.
Qed.

(* standard error never reaches a name: whenever two runs that differ only in what was
   written to stderr both produce a name part, it is the same one; on success stderr is not
   even looked at *)
Theorem stderr_independent exit stdout e1 e2 v1 v2 :
  rendered (adhoc_outcome_of exit stdout e1) = Some v1 ->
  rendered (adhoc_outcome_of exit stdout e2) = Some v2 ->
  v1 = v2.
Proof.
  unfold adhoc_outcome_of. destruct (utf8_decode stdout) as [t|]; [|discriminate].
  destruct (exit =? 0)%Z.
  - intros H1 H2. inversion H1; inversion H2; congruence.
  - destruct (utf8_decode e1); [|discriminate]. destruct (utf8_decode e2); [|discriminate].
    intros H1 H2. inversion H1; inversion H2; congruence.
Qed.

Theorem stderr_ignored_on_success stdout e1 e2 :
  adhoc_outcome_of 0%Z stdout e1 = adhoc_outcome_of 0%Z stdout e2.
Proof. unfold adhoc_outcome_of. destruct (utf8_decode stdout); reflexivity. Qed.

(* ---------- end to end on the model: a program that copies stdin to stdout (cat) -------------- *)
Definition prog_cat (junk : list N) (i : invocation) : Z * list N * list N :=
  (0%Z, match inv_stdin i with Some b => b | None => [] end, junk).

Theorem cat_returns_stripped_context exe args rel dir c junk :
  forallb is_scalar c = true ->
  adhoc_process exe args rel dir (Some c) (prog_cat junk) = OValue (py_strip c).
Proof.
  intro H. unfold adhoc_process. rewrite invocation_context by exact H.
  unfold prog_cat; simpl. apply value_on_success. apply utf8_roundtrip. exact H.
Qed.
